(* C05 — base lemmas: sorting, the wake-up loop on a sorted list, the structural invariant of
   reachable states and the induction principle over well-formed histories.  Everything is inside
   one Section over an ABSTRACT schedule [next] with the single hypothesis the Schedule interface
   documents ("Next returns the next activation time, later than the given time"). *)
From Coq Require Import Permutation Sorting.Sorted.
From Kit Require Import C05.Model C05.Spec C05.Defs.
Local Open Scope Z_scope.

(* ---------------------------------------------------------------------------------------- *)
(* generic list facts *)

Lemma Permutation_filter {A} (f : A -> bool) (l l' : list A) :
  Permutation l l' -> Permutation (filter f l) (filter f l').
Proof.
  induction 1 as [|x l l' HP IH|x y l|l l' l'' HP1 IH1 HP2 IH2]; cbn [filter].
  - constructor.
  - destruct (f x); [constructor|]; exact IH.
  - destruct (f x), (f y); try apply perm_swap; apply Permutation_refl.
  - eapply perm_trans; eassumption.
Qed.

Lemma NoDup_map_filter {A B} (g : A -> B) (p : A -> bool) (l : list A) :
  NoDup (map g l) -> NoDup (map g (filter p l)).
Proof.
  induction l as [|x l IH]; cbn [map filter]; intro H; [constructor|].
  inversion H as [|? ? Hn Hd]; subst.
  destruct (p x); cbn [map]; [constructor|]; auto.
  intro Hin. apply Hn. apply in_map_iff in Hin as [y [Hy Hin]].
  apply filter_In in Hin as [Hin _]. apply in_map_iff. eauto.
Qed.

Lemma sorted_snoc (l : list Z) (a : Z) :
  StronglySorted Z.lt l -> Forall (fun y => y < a) l -> StronglySorted Z.lt (l ++ [a]).
Proof.
  induction l as [|x l IH]; cbn [app]; intros Hs Hf.
  - constructor; constructor.
  - inversion Hs as [|? ? Hs' Hx]; subst. inversion Hf as [|? ? Hxa Hf']; subst.
    constructor; [apply IH; assumption|].
    apply Forall_app; split; [assumption|constructor; [assumption|constructor]].
Qed.

Lemma last_opt_snoc (l : list Z) (a : Z) : last_opt (l ++ [a]) = Some a.
Proof. unfold last_opt. rewrite rev_app_distr. reflexivity. Qed.

Lemma of_id_app i l l' : of_id i (l ++ l') = of_id i l ++ of_id i l'.
Proof. unfold of_id. apply filter_app. Qed.

Lemma acts_of_app i l l' : acts_of i (l ++ l') = acts_of i l ++ acts_of i l'.
Proof. unfold acts_of. rewrite of_id_app. apply map_app. Qed.

Lemma of_id_nil_iff i l : of_id i l = [] <-> forall x, In x l -> sid x <> i.
Proof.
  unfold of_id. induction l as [|x l IH]; cbn [filter].
  - split; [intros _ y []|reflexivity].
  - destruct (sid x =? i) eqn:E; split.
    + discriminate.
    + intro H. exfalso. apply (H x); [left; reflexivity|]. apply Z.eqb_eq. exact E.
    + intros H y [<-|Hy]; [apply Z.eqb_neq; exact E|]. apply IH; assumption.
    + intro H. apply IH. intros y Hy. apply H. right. exact Hy.
Qed.

Section Base.

Variable sched : Type.
Variable next : sched -> Z -> option Z.
Hypothesis next_later : forall s t u, next s t = Some u -> t < u.

Notation entry := (entry sched).
Notation event := (event sched).
Notation state := (state sched).
Notation step := (step next).
Notation run := (run next).
Notation wf := (wf next).

(* ---------------------------------------------------------------------------------------- *)
(* sorting *)

(* order on Next values: zero time (None) last *)
Definition ole (a b : option Z) : Prop :=
  match a, b with
  | Some x, Some y => x <= y
  | _, None => True
  | None, Some _ => False
  end.

Definition sorted (l : list entry) : Prop :=
  StronglySorted (fun a b => ole (enxt a) (enxt b)) l.

Definition head_nxt (l : list entry) : option Z :=
  match l with e :: _ => enxt e | [] => None end.

Lemma ole_trans a b c : ole a b -> ole b c -> ole a c.
Proof. destruct a, b, c; cbn [ole]; try tauto; lia. Qed.

Lemma less_true_ole (a b : entry) : less a b = true -> ole (enxt a) (enxt b).
Proof.
  unfold less. destruct (enxt a), (enxt b); cbn [ole]; try discriminate; try tauto.
  intro H. apply Z.ltb_lt in H. lia.
Qed.

Lemma less_false_ole (a b : entry) : less a b = false -> ole (enxt b) (enxt a).
Proof.
  unfold less. destruct (enxt a), (enxt b); cbn [ole]; try discriminate; try tauto.
  intro H. apply Z.ltb_ge in H. lia.
Qed.

Lemma insert_perm (x : entry) l : Permutation (insert x l) (x :: l).
Proof.
  induction l as [|y l IH]; cbn [insert]; [apply Permutation_refl|].
  destruct (less y x); [|apply Permutation_refl].
  eapply perm_trans; [apply perm_skip; exact IH|apply perm_swap].
Qed.

Lemma sort_perm (l : list entry) : Permutation (sort_entries l) l.
Proof.
  induction l as [|x l IH]; [apply Permutation_refl|].
  change (sort_entries (x :: l)) with (insert x (sort_entries l)).
  eapply perm_trans; [apply insert_perm|apply perm_skip; exact IH].
Qed.

Lemma sort_in (l : list entry) e : In e (sort_entries l) <-> In e l.
Proof.
  split; apply Permutation_in; [apply sort_perm|apply Permutation_sym, sort_perm].
Qed.

Lemma insert_sorted (x : entry) l : sorted l -> sorted (insert x l).
Proof.
  unfold sorted. induction l as [|y l IH]; cbn [insert]; intro Hs.
  - constructor; constructor.
  - inversion Hs as [|? ? Hs' Hy]; subst.
    destruct (less y x) eqn:E.
    + constructor; [apply IH; exact Hs'|].
      eapply Permutation_Forall; [apply Permutation_sym, insert_perm|].
      constructor; [apply less_true_ole; exact E|exact Hy].
    + constructor; [exact Hs|].
      pose proof (less_false_ole _ _ E) as Hxy.
      constructor; [exact Hxy|].
      eapply Forall_impl; [|exact Hy]. intros z Hz. eapply ole_trans; eassumption.
Qed.

Lemma sort_sorted (l : list entry) : sorted (sort_entries l).
Proof.
  induction l as [|x l IH]; [constructor|].
  change (sort_entries (x :: l)) with (insert x (sort_entries l)).
  apply insert_sorted. exact IH.
Qed.

Lemma sorted_head (l : list entry) e n : sorted l -> In e l -> enxt e = Some n ->
  exists T, head_nxt l = Some T /\ T <= n.
Proof.
  intros Hs Hin Hn. destruct l as [|h l]; [destruct Hin|].
  inversion Hs as [|? ? _ Hh]; subst. cbn [head_nxt].
  destruct Hin as [->|Hin].
  - exists n. split; [exact Hn|lia].
  - rewrite Forall_forall in Hh. specialize (Hh e Hin). rewrite Hn in Hh.
    destruct (enxt h) as [T|]; cbn [ole] in Hh; [|destruct Hh].
    exists T. split; [reflexivity|exact Hh].
Qed.

(* ---------------------------------------------------------------------------------------- *)
(* the wake-up loop on a sorted list: the [break] never skips a due entry *)

Definition act (e : entry) : Z := match enxt e with Some a => a | None => 0 end.
Definition rrec (w : Z) (e : entry) : Z * Z * option Z := (eid e, act e, next (esch e) w).
(* the ghost record of one job start *)
Definition srec (w : Z) (e : entry) : Z * Z * Z := (eid e, act e, w).

Lemma fire_eid w (e : entry) : eid (fire next w e) = eid e.
Proof. unfold fire. destruct (enxt e); [destruct (_ <=? _)|]; reflexivity. Qed.

Lemma fire_esch w (e : entry) : esch (fire next w e) = esch e.
Proof. unfold fire. destruct (enxt e); [destruct (_ <=? _)|]; reflexivity. Qed.

Lemma map_eid_fire w (l : list entry) : map eid (map (fire next w) l) = map eid l.
Proof. rewrite map_map. apply map_ext. intro e. apply fire_eid. Qed.

Lemma not_due_fire w (e : entry) : due_at w e = false -> fire next w e = e.
Proof.
  unfold due_at, fire. destruct (enxt e); [|reflexivity].
  intro H. rewrite H. reflexivity.
Qed.

Lemma due_fire w (e : entry) : due_at w e = true ->
  fire next w e = mkE (eid e) (esch e) (next (esch e) w) (Some (act e)) /\ enxt e = Some (act e) /\ act e <= w.
Proof.
  unfold due_at, fire, act. destruct (enxt e) as [a|]; [|discriminate].
  intro H. rewrite H. apply Z.leb_le in H. auto.
Qed.

Lemma none_due w (l : list entry) : Forall (fun z => due_at w z = false) l ->
  map (fire next w) l = l /\ filter (due_at w) l = [].
Proof.
  induction 1 as [|x l Hx Hl [IH1 IH2]]; cbn [map filter]; [auto|].
  rewrite Hx, IH1, IH2, (not_due_fire _ _ Hx). auto.
Qed.

Lemma wake_loop_sorted w (es : list entry) : sorted es ->
  wake_loop next w es = (map (fire next w) es, map (rrec w) (filter (due_at w) es)).
Proof.
  induction es as [|e es IH]; intro Hs; [reflexivity|].
  inversion Hs as [|? ? Hs' Hf]; subst.
  cbn [wake_loop].
  destruct (enxt e) as [a|] eqn:Ea.
  - destruct (w <? a) eqn:Ew.
    + assert (Hnd : Forall (fun z => due_at w z = false) (e :: es)).
      { apply Z.ltb_lt in Ew. constructor.
        - unfold due_at. rewrite Ea. apply Z.leb_gt. exact Ew.
        - eapply Forall_impl; [|exact Hf]. intros z Hz. unfold due_at.
          cbv beta in Hz.
          destruct (enxt z) as [n|]; [|reflexivity]. cbn [ole] in Hz. apply Z.leb_gt. lia. }
      destruct (none_due _ _ Hnd) as [H1 H2]. rewrite H1, H2. reflexivity.
    + apply Z.ltb_ge in Ew.
      assert (Hd : due_at w e = true) by (unfold due_at; rewrite Ea; apply Z.leb_le; exact Ew).
      rewrite (IH Hs'). cbn [map filter]. rewrite Hd. cbn [map].
      destruct (due_fire _ _ Hd) as [Hfe _]. rewrite Hfe.
      unfold rrec, act. rewrite Ea. reflexivity.
  - assert (Hnd : Forall (fun z => due_at w z = false) (e :: es)).
    { constructor.
      - unfold due_at. rewrite Ea. reflexivity.
      - eapply Forall_impl; [|exact Hf]. intros z Hz. unfold due_at. cbv beta in Hz.
        destruct (enxt z) as [n|]; [destruct Hz|reflexivity]. }
    destruct (none_due _ _ Hnd) as [H1 H2]. rewrite H1, H2. reflexivity.
Qed.

(* the ghost records appended by a wake-up, per id *)
Lemma of_id_new_notin w (es : list entry) i : ~ In i (map eid es) ->
  of_id i (map (srec w) (filter (due_at w) es)) = [].
Proof.
  intro Hn. apply of_id_nil_iff. intros x Hx. apply in_map_iff in Hx as [e [<- He]].
  apply filter_In in He as [He _]. cbn. intro Heq. apply Hn. apply in_map_iff. eauto.
Qed.

Lemma of_id_new_in w (es : list entry) e : NoDup (map eid es) -> In e es ->
  of_id (eid e) (map (srec w) (filter (due_at w) es)) = if due_at w e then [srec w e] else [].
Proof.
  induction es as [|z es IH]; intros Hnd Hin; [destruct Hin|].
  cbn [map] in Hnd. inversion Hnd as [|? ? Hz Hnd']; subst.
  destruct Hin as [->|Hin].
  - cbn [filter]. destruct (due_at w e).
    + cbn [map]. unfold of_id at 1. cbn [filter]. unfold srec at 1, sid at 1. cbn [fst].
      rewrite Z.eqb_refl. f_equal. apply (of_id_new_notin w es (eid e) Hz).
    + apply of_id_new_notin. exact Hz.
  - assert (Hne : eid z <> eid e).
    { intro Heq. apply Hz. rewrite Heq. apply in_map. exact Hin. }
    cbn [filter]. destruct (due_at w z).
    + cbn [map]. unfold of_id at 1. cbn [filter]. unfold srec at 1, sid at 1. cbn [fst].
      apply Z.eqb_neq in Hne. rewrite Hne. apply IH; assumption.
    + apply IH; assumption.
Qed.

(* ---------------------------------------------------------------------------------------- *)
(* histories *)

Lemma run_app h1 h2 (s : state) :
  run s (h1 ++ h2) = match run s h1 with Some s' => run s' h2 | None => None end.
Proof.
  revert s. induction h1 as [|ev h1 IH]; intro s; cbn [app Model.run]; [reflexivity|].
  destruct (step s ev) as [[s' o]|]; [apply IH|reflexivity].
Qed.

Lemma wf_app h1 h2 (s s1 : state) : wf s (h1 ++ h2) = true -> run s h1 = Some s1 ->
  wf s h1 = true /\ wf s1 h2 = true.
Proof.
  revert s. induction h1 as [|ev h1 IH]; intro s; cbn [app Model.wf Model.run]; intros Hw Hr.
  - inversion Hr; subst. auto.
  - apply andb_true_iff in Hw as [He Hw]. rewrite He.
    destruct (step s ev) as [[s' o]|]; [|discriminate]. cbn [andb]. apply IH; assumption.
Qed.

Lemma wf_run h (s : state) : wf s h = true -> exists s', run s h = Some s'.
Proof.
  revert s. induction h as [|ev h IH]; intro s; cbn [Model.wf Model.run]; intro Hw.
  - eauto.
  - apply andb_true_iff in Hw as [_ Hw].
    destruct (step s ev) as [[s' o]|]; [apply IH; exact Hw|discriminate].
Qed.

(* induction over well-formed histories *)
Lemma run_ind (P : state -> Prop) :
  (forall s ev s' o, P s -> env_ok s ev = true -> step s ev = Some (s', o) -> P s') ->
  forall h s s', P s -> wf s h = true -> run s h = Some s' -> P s'.
Proof.
  intros Hstep. induction h as [|ev h IH]; intros s s' HP Hw Hr; cbn [Model.wf Model.run] in *.
  - inversion Hr; subst. exact HP.
  - apply andb_true_iff in Hw as [He Hw].
    destruct (step s ev) as [[s1 o]|] eqn:Hs; [|discriminate].
    eapply IH; [|exact Hw|exact Hr]. eapply Hstep; eassumption.
Qed.

(* the last step of a history *)
Lemma run_snoc h ev (s s' : state) : wf s (h ++ [ev]) = true -> run s (h ++ [ev]) = Some s' ->
  exists s1 o, run s h = Some s1 /\ wf s h = true /\ env_ok s1 ev = true /\ step s1 ev = Some (s', o).
Proof.
  intros Hw Hr. rewrite run_app in Hr.
  destruct (run s h) as [s1|] eqn:Hr1; [|discriminate].
  destruct (wf_app _ _ _ _ Hw Hr1) as [Hw1 Hw2].
  cbn [Model.wf Model.run] in Hw2, Hr.
  apply andb_true_iff in Hw2 as [He _].
  destruct (step s1 ev) as [[s2 o]|] eqn:Hs; [|discriminate].
  inversion Hr; subst. exists s1, o. auto.
Qed.

(* ---------------------------------------------------------------------------------------- *)
(* the structural invariant *)

(* the armed timer is not earlier than the earliest pending activation (it is later by the lag
   when the last wake-up worked with a tick value older than the clock reading); no pending
   activation, no timer *)
Definition tm_ok (tm hd : option Z) : Prop :=
  match hd with
  | Some n => exists T, tm = Some T /\ n <= T
  | None => tm = None
  end.

Record inv1 (s : state) : Prop := {
  i1_nodup : NoDup (map eid (entries s));
  i1_ids : forall e, In e (entries s) -> eid e <= nextID s;
  i1_sids : forall x, In x (starts s) -> sid x <= nextID s;
  i1_run : running s = true -> sorted (entries s) /\ tm_ok (timer s) (head_nxt (entries s));
  i1_idle : running s = false -> timer s = None
}.

Lemma inv1_init t0 : inv1 (init t0).
Proof.
  constructor; cbn [init entries starts running timer map].
  - constructor.
  - intros e [].
  - intros x [].
  - discriminate.
  - reflexivity.
Qed.

Lemma arm_ok es nw id out cx st ck : nw <= ck ->
  let s' := arm (mkS es nw true id None out cx st ck) in
  (sorted (entries s') /\ tm_ok (timer s') (head_nxt (entries s'))) /\
  (ck = nw -> timer s' = head_nxt (entries s')).
Proof.
  intro Hle. cbn [arm entries timer now clk]. split; [split; [apply sort_sorted|]|].
  - destruct (sort_entries es) as [|e l]; [reflexivity|]. cbn [head_nxt].
    destruct (enxt e) as [n|]; cbn [tm_ok]; [|reflexivity]. eexists. split; [reflexivity|lia].
  - intros ->. destruct (sort_entries es) as [|e l]; [reflexivity|]. cbn [head_nxt].
    destruct (enxt e); [f_equal; lia|reflexivity].
Qed.

(* what one enabled step does to the fields the invariants talk about *)
Inductive step_shape (s s' : state) : event -> Prop :=
| SStart t : running s = false -> running s' = true ->
    entries s' = sort_entries (map (restart next t) (entries s)) ->
    starts s' = starts s -> nextID s' = nextID s -> clk s' = t ->
    outstanding s' = outstanding s -> ctxs s' = ctxs s ->
    step_shape s s' (Start t)
| SWake w : running s = true -> running s' = true ->
    entries s' = sort_entries (map (fire next w) (entries s)) ->
    starts s' = starts s ++ map (srec w) (filter (due_at w) (entries s)) ->
    nextID s' = nextID s -> clk s' = Z.max (clk s) w ->
    outstanding s' = outstanding s + Z.of_nat (length (filter (due_at w) (entries s))) ->
    ctxs s' = ctxs s ->
    step_shape s s' (Wake w)
| SAdded t sc : running s = true -> running s' = true ->
    entries s' = sort_entries (entries s ++ [mkE (nextID s + 1) sc (next sc t) None]) ->
    starts s' = starts s -> nextID s' = nextID s + 1 -> clk s' = t ->
    outstanding s' = outstanding s -> ctxs s' = ctxs s ->
    step_shape s s' (Added t sc)
| SRemoved t id : running s = true -> running s' = true ->
    entries s' = sort_entries (remove_entry id (entries s)) ->
    starts s' = starts s -> nextID s' = nextID s -> clk s' = t ->
    outstanding s' = outstanding s -> ctxs s' = ctxs s ->
    step_shape s s' (Removed t id)
| SSame ev : (ev = Snapshot \/ ev = EntriesIdle \/ ev = StartNoop \/ ev = CtxPoll \/
              (exists id, ev = RemoveRet id) \/ ev = StopRet) -> s' = s ->
    step_shape s s' ev
| SStop : running s = true -> running s' = false -> timer s' = None ->
    entries s' = entries s -> starts s' = starts s -> nextID s' = nextID s -> clk s' = clk s ->
    outstanding s' = outstanding s -> ctxs s' = ctxs s ++ [outstanding s =? 0] ->
    step_shape s s' Stop
| SSchedIdle sc : running s = false -> running s' = false -> timer s' = timer s ->
    entries s' = entries s ++ [mkE (nextID s + 1) sc None None] ->
    starts s' = starts s -> nextID s' = nextID s + 1 -> clk s' = clk s ->
    outstanding s' = outstanding s -> ctxs s' = ctxs s ->
    step_shape s s' (ScheduleIdle sc)
| SRemIdle id : running s = false -> running s' = false -> timer s' = timer s ->
    entries s' = remove_entry id (entries s) ->
    starts s' = starts s -> nextID s' = nextID s -> clk s' = clk s ->
    outstanding s' = outstanding s -> ctxs s' = ctxs s ->
    step_shape s s' (RemoveIdle id)
| SStopIdle : running s = false -> running s' = false -> timer s' = timer s ->
    entries s' = entries s -> starts s' = starts s -> nextID s' = nextID s -> clk s' = clk s ->
    outstanding s' = outstanding s -> ctxs s' = ctxs s ++ [outstanding s =? 0] ->
    step_shape s s' StopIdle
| SJobRet : 0 < outstanding s -> running s' = running s -> timer s' = timer s ->
    entries s' = entries s -> starts s' = starts s -> nextID s' = nextID s -> clk s' = clk s ->
    outstanding s' = outstanding s - 1 ->
    ctxs s' = (if outstanding s - 1 =? 0 then map (fun _ => true) (ctxs s) else ctxs s) ->
    step_shape s s' JobRet
| STick ev c : (ev = Tick c \/ ev = Lag c) -> running s' = running s -> timer s' = timer s ->
    entries s' = entries s -> starts s' = starts s -> nextID s' = nextID s -> clk s' = c ->
    outstanding s' = outstanding s -> ctxs s' = ctxs s ->
    step_shape s s' ev.

(* in a running state the new state is re-armed: sorted, timer not before the head *)
Definition rearmed (s' : state) : Prop :=
  sorted (entries s') /\ tm_ok (timer s') (head_nxt (entries s')).

Definition exact (s' : state) : Prop := timer s' = head_nxt (entries s').

Ltac arm_tac :=
  match goal with
  | |- rearmed (arm (mkS ?es ?nw true ?id None ?out ?cx ?st ?ck)) /\ _ =>
      let A := fresh "A" in let B := fresh "B" in
      destruct (arm_ok es nw id out cx st ck ltac:(lia)) as [A B];
      split; [exact A|first [exact (B eq_refl)|intro; apply B; lia]]
  end.

Lemma step_shape_of (s s' : state) ev o : (running s = true -> sorted (entries s)) ->
  step s ev = Some (s', o) ->
  step_shape s s' ev /\
  (match ev with
   | Start _ | Added _ _ | Removed _ _ => rearmed s' /\ exact s'
   | Wake w => rearmed s' /\ (clk s <= w -> exact s')
   | _ => True
   end).
Proof.
  intros Hsorted H.
  destruct ev; cbn [Model.step] in H; destruct (running s) eqn:Hr; cbn [negb] in H;
    try discriminate H.
  - (* Start *) inversion H; subst; clear H. split; [|arm_tac].
    apply SStart; solve [reflexivity|exact Hr].
  - (* Wake *)
    destruct (timer s) eqn:Htm; [|discriminate H].
    rewrite (wake_loop_sorted w (entries s) (Hsorted eq_refl)) in H.
    inversion H; subst; clear H. split; [|arm_tac].
    apply SWake; cbn [arm entries starts nextID clk outstanding ctxs running]; try reflexivity; try exact Hr.
    + rewrite map_map. reflexivity.
    + rewrite map_length. reflexivity.
  - (* Added *) inversion H; subst; clear H. split; [|arm_tac]. apply SAdded; solve [reflexivity|exact Hr].
  - (* Removed *) inversion H; subst; clear H. split; [|arm_tac]. apply SRemoved; solve [reflexivity|exact Hr].
  - (* Snapshot *) inversion H; subst; clear H. split; [|exact I]. apply SSame; auto 10.
  - (* Stop *) inversion H; subst; clear H. split; [|exact I]. apply SStop; solve [reflexivity|exact Hr].
  - (* ScheduleIdle *) inversion H; subst; clear H. split; [|exact I]. apply SSchedIdle; solve [reflexivity|exact Hr].
  - (* RemoveIdle *) inversion H; subst; clear H. split; [|exact I]. apply SRemIdle; solve [reflexivity|exact Hr].
  - (* EntriesIdle *) inversion H; subst; clear H. split; [|exact I]. apply SSame; auto 10.
  - (* StopIdle *) inversion H; subst; clear H. split; [|exact I]. apply SStopIdle; solve [reflexivity|exact Hr].
  - (* StartNoop *) inversion H; subst; clear H. split; [|exact I]. apply SSame; auto 10.
  - (* JobRet, running *)
    destruct (outstanding s <=? 0) eqn:Ho; [discriminate H|]. apply Z.leb_gt in Ho.
    inversion H; subst; clear H. split; [|exact I]. apply SJobRet; try reflexivity; try exact Ho.
    cbn [running]. symmetry. exact Hr.
  - (* JobRet, idle *)
    destruct (outstanding s <=? 0) eqn:Ho; [discriminate H|]. apply Z.leb_gt in Ho.
    inversion H; subst; clear H. split; [|exact I]. apply SJobRet; try reflexivity; try exact Ho.
    cbn [running]. symmetry. exact Hr.
  - (* CtxPoll *) inversion H; subst; clear H. split; [|exact I]. apply SSame; auto 10.
  - inversion H; subst; clear H. split; [|exact I]. apply SSame; auto 10.
  - (* Tick *) inversion H; subst; clear H. split; [|exact I]. eapply STick; try reflexivity; auto;
      cbn [running]; symmetry; exact Hr.
  - inversion H; subst; clear H. split; [|exact I]. eapply STick; try reflexivity; auto;
      cbn [running]; symmetry; exact Hr.
  - (* RemoveRet *)
    destruct ((id <=? nextID s) && negb (existsb (fun e => eid e =? id) (entries s))); [|discriminate H].
    inversion H; subst; clear H. split; [|exact I]. apply SSame; eauto 10.
  - destruct ((id <=? nextID s) && negb (existsb (fun e => eid e =? id) (entries s))); [|discriminate H].
    inversion H; subst; clear H. split; [|exact I]. apply SSame; eauto 10.
  - (* StopRet *) inversion H; subst; clear H. split; [|exact I]. apply SSame; auto 10.
  - (* Lag *) inversion H; subst; clear H. split; [|exact I]. eapply STick; try reflexivity; auto;
      cbn [running]; symmetry; exact Hr.
  - inversion H; subst; clear H. split; [|exact I]. eapply STick; try reflexivity; auto;
      cbn [running]; symmetry; exact Hr.
Qed.

Lemma restart_eid t (e : entry) : eid (restart next t e) = eid e.
Proof. reflexivity. Qed.

Lemma map_eid_restart t (l : list entry) : map eid (map (restart next t) l) = map eid l.
Proof. rewrite map_map. apply map_ext. intro e. reflexivity. Qed.

Lemma nodup_sort (l : list entry) : NoDup (map eid l) -> NoDup (map eid (sort_entries l)).
Proof.
  intro H. eapply Permutation_NoDup; [|exact H].
  apply Permutation_map. apply Permutation_sym. apply sort_perm.
Qed.

Lemma inv1_step (s s' : state) ev o : inv1 s -> step s ev = Some (s', o) -> inv1 s'.
Proof.
  intros [Hnd Hids Hsids Hrun Hidle] Hs.
  destruct (step_shape_of s s' ev o (fun Hr => proj1 (Hrun Hr)) Hs) as [Hsh Hre].
  destruct Hsh as [t Hr Hr' He Hst Hid Hc Ho Hcx
                  |w Hr Hr' He Hst Hid Hc Ho Hcx
                  |t sc Hr Hr' He Hst Hid Hc Ho Hcx
                  |t id Hr Hr' He Hst Hid Hc Ho Hcx
                  |ev _ ->
                  |Hr Hr' Ht He Hst Hid Hc Ho Hcx
                  |sc Hr Hr' Ht He Hst Hid Hc Ho Hcx
                  |id Hr Hr' Ht He Hst Hid Hc Ho Hcx
                  |Hr Hr' Ht He Hst Hid Hc Ho Hcx
                  |Hpos Hr' Ht He Hst Hid Hc Ho Hcx
                  |ev c Hev Hr' Ht He Hst Hid Hc Ho Hcx].
  - (* Start *) constructor; rewrite ?He, ?Hst, ?Hid.
    + apply nodup_sort. rewrite map_eid_restart. exact Hnd.
    + intros e Hin. apply -> sort_in in Hin. apply in_map_iff in Hin as [e0 [<- Hin]]. exact (Hids e0 Hin).
    + exact Hsids.
    + intros _. rewrite <- He. exact (proj1 Hre).
    + rewrite Hr'. discriminate.
  - (* Wake *) constructor; rewrite ?He, ?Hst, ?Hid.
    + apply nodup_sort. rewrite map_eid_fire. exact Hnd.
    + intros e Hin. apply -> sort_in in Hin. apply in_map_iff in Hin as [e0 [<- Hin]].
      rewrite fire_eid. apply Hids; exact Hin.
    + intros x Hx. apply in_app_or in Hx as [Hx|Hx]; [apply Hsids; exact Hx|].
      apply in_map_iff in Hx as [e [<- He0]]. apply filter_In in He0 as [He0 _].
      cbn. apply Hids; exact He0.
    + intros _. rewrite <- He. exact (proj1 Hre).
    + rewrite Hr'. discriminate.
  - (* Added *) constructor; rewrite ?He, ?Hst, ?Hid.
    + apply nodup_sort. rewrite map_app. cbn [map eid].
      eapply Permutation_NoDup; [apply Permutation_cons_append|].
      constructor; [|exact Hnd]. intro Hin. apply in_map_iff in Hin as [e [Heq Hin]].
      specialize (Hids e Hin). lia.
    + intros e Hin. apply -> sort_in in Hin. apply in_app_or in Hin as [Hin|[<-|[]]].
      * specialize (Hids e Hin). lia.
      * cbn [eid]. lia.
    + intros x Hx. specialize (Hsids x Hx). lia.
    + intros _. rewrite <- He. exact (proj1 Hre).
    + rewrite Hr'. discriminate.
  - (* Removed *) constructor; rewrite ?He, ?Hst, ?Hid.
    + apply nodup_sort. unfold remove_entry. apply NoDup_map_filter. exact Hnd.
    + intros e Hin. apply -> sort_in in Hin. apply filter_In in Hin as [Hin _]. apply Hids; exact Hin.
    + exact Hsids.
    + intros _. rewrite <- He. exact (proj1 Hre).
    + rewrite Hr'. discriminate.
  - constructor; assumption.
  - (* Stop *) constructor; rewrite ?He, ?Hst, ?Hid; try assumption.
    + rewrite Hr'. discriminate.
    + intros _. exact Ht.
  - (* ScheduleIdle *) constructor; rewrite ?He, ?Hst, ?Hid.
    + rewrite map_app. cbn [map eid].
      eapply Permutation_NoDup; [apply Permutation_cons_append|].
      constructor; [|exact Hnd]. intro Hin. apply in_map_iff in Hin as [e [Heq Hin]].
      specialize (Hids e Hin). lia.
    + intros e Hin. apply in_app_or in Hin as [Hin|[<-|[]]].
      * specialize (Hids e Hin). lia.
      * cbn [eid]. lia.
    + intros x Hx. specialize (Hsids x Hx). lia.
    + rewrite Hr'. discriminate.
    + intros _. rewrite Ht. apply Hidle. exact Hr.
  - (* RemoveIdle *) constructor; rewrite ?He, ?Hst, ?Hid.
    + unfold remove_entry. apply NoDup_map_filter. exact Hnd.
    + intros e Hin. apply filter_In in Hin as [Hin _]. apply Hids; exact Hin.
    + exact Hsids.
    + rewrite Hr'. discriminate.
    + intros _. rewrite Ht. apply Hidle. exact Hr.
  - (* StopIdle *) constructor; rewrite ?He, ?Hst, ?Hid; try assumption.
    + rewrite Hr'. discriminate.
    + intros _. rewrite Ht. apply Hidle. exact Hr.
  - (* JobRet *) constructor; rewrite ?He, ?Hst, ?Hid, ?Ht, ?Hr'; assumption.
  - (* Tick *) constructor; rewrite ?He, ?Hst, ?Hid, ?Ht, ?Hr'; assumption.
Qed.

Lemma inv1_run h (s s' : state) : inv1 s -> wf s h = true -> run s h = Some s' -> inv1 s'.
Proof.
  apply (run_ind inv1). intros s0 ev s1 o HP _ Hs. eapply inv1_step; eassumption.
Qed.

Lemma inv1_reach t0 h (s : state) : wf (init t0) h = true -> run (init t0) h = Some s -> inv1 s.
Proof. apply inv1_run. apply inv1_init. Qed.

(* shape of a step from a state satisfying the invariant *)
Lemma shape (s s' : state) ev o : inv1 s -> step s ev = Some (s', o) -> step_shape s s' ev.
Proof.
  intros Hi Hs. eapply step_shape_of; [|exact Hs]. intro Hr. apply (i1_run _ Hi Hr).
Qed.

(* after Start / Added / Removed, and after a wake-up whose tick value is not older than the clock
   reading, the armed timer is EXACTLY the earliest pending activation *)
Lemma exact_step (s s' : state) ev o : inv1 s -> step s ev = Some (s', o) ->
  match ev with
  | Start _ | Added _ _ | Removed _ _ => exact s'
  | Wake w => clk s <= w -> exact s'
  | _ => True
  end.
Proof.
  intros Hi Hs.
  destruct (step_shape_of s s' ev o (fun Hr => proj1 (i1_run _ Hi Hr)) Hs) as [_ H].
  destruct ev; try exact I; apply H.
Qed.

End Base.
