(* C07 / Proofs.v — panic-freedom of the models of the CURRENT tree ([Fixed]) for every input,
   termination of the fuelled loops, and the [_refuted] witnesses on the pinned tree
   ([Original]). Part 1: generic lemmas, layer B (finite case analysis), enc/v1 JSON, algorithm
   dispatch, PKCS#7. *)
From Kit.C07 Require Import Spec Model.
From Coq Require Import ZArith NArith Lia Bool List String ZifyBool.
Import ListNotations.
Open Scope Z_scope.

(* ------------------------------------------------------------------------------------ *)
(* generic                                                                               *)

Lemma bind_ok {A B} (r : res A) (f : A -> res B) a : r = Ok a -> bind r f = f a.
Proof. intros ->. reflexivity. Qed.

Lemma bind_not_panic {A B} (r : res A) (f : A -> res B) :
  r <> Panic -> (forall a, r = Ok a -> f a <> Panic) -> bind r f <> Panic.
Proof. destruct r as [a|e|]; cbn; intros H1 H2; [apply H2; reflexivity | discriminate | congruence]. Qed.

Lemma len_nonneg {A} (s : list A) : 0 <= len s.
Proof. unfold len. lia. Qed.

Lemma len_cons {A} (x : A) s : len (x :: s) = 1 + len s.
Proof. unfold len. cbn [List.length]. lia. Qed.

Lemma len_app {A} (a b : list A) : len (a ++ b) = len a + len b.
Proof. unfold len. rewrite app_length. lia. Qed.

Lemma len_repeat {A} (x : A) n : len (repeat x n) = Z.of_nat n.
Proof. unfold len. rewrite repeat_length. reflexivity. Qed.

Lemma go_at_ok {A} (s : list A) i : 0 <= i < len s -> exists c, go_at s i = Ok c.
Proof.
  intros H. unfold go_at.
  replace ((0 <=? i) && (i <? len s)) with true by lia.
  destruct (nth_error s (Z.to_nat i)) as [c|] eqn:E; [eauto|].
  apply nth_error_None in E. unfold len in H. lia.
Qed.

Lemma go_at_repeat {A} (x : A) n i : 0 <= i < Z.of_nat n -> go_at (repeat x n) i = Ok x.
Proof.
  intros H. destruct (go_at_ok (repeat x n) i) as [c Hc]; [rewrite len_repeat; lia|].
  rewrite Hc. f_equal. unfold go_at in Hc.
  destruct ((0 <=? i) && (i <? len (repeat x n))); [|discriminate].
  destruct (nth_error (repeat x n) (Z.to_nat i)) eqn:E; [|discriminate].
  inversion Hc; subst. apply nth_error_In in E. apply repeat_spec in E. exact E.
Qed.

Lemma go_slice_ok (s : list N) lo hi :
  0 <= lo <= hi -> hi <= len s -> exists r, go_slice s lo hi = Ok r /\ len r = hi - lo.
Proof.
  intros H1 H2. unfold go_slice.
  replace ((0 <=? lo) && (lo <=? hi) && (hi <=? len s)) with true by lia.
  eexists; split; [reflexivity|]. unfold len in *.
  rewrite firstn_length, skipn_length. lia.
Qed.

Lemma go_slice_not_panic (s : list N) lo hi :
  0 <= lo <= hi -> hi <= len s -> go_slice s lo hi <> Panic.
Proof. intros H1 H2. destruct (go_slice_ok s lo hi H1 H2) as [r [Hr _]]. congruence. Qed.

Lemma len_slice_ok cap lo hi : 0 <= lo <= hi -> hi <= cap -> len_slice cap lo hi = Ok (hi - lo).
Proof. intros. unfold len_slice. replace ((0 <=? lo) && (lo <=? hi) && (hi <=? cap)) with true by lia. reflexivity. Qed.

Lemma len_make_ok n : 0 <= n -> len_make n = Ok n.
Proof. intros. unfold len_make. replace (n <? 0) with false by lia. reflexivity. Qed.

Lemma len_index_ok l i : 0 <= i < l -> len_index l i = Ok tt.
Proof. intros. unfold len_index. replace ((0 <=? i) && (i <? l)) with true by lia. reflexivity. Qed.

Lemma for_each_ok {A} (xs : list A) body :
  (forall x, In x xs -> body x = Ok tt) -> for_each xs body = Ok tt.
Proof.
  induction xs as [|x r IH]; intros H; cbn [for_each]; [reflexivity|].
  rewrite (H x (or_introl eq_refl)). cbn [bind]. apply IH. intros y Hy. apply H. right; exact Hy.
Qed.

Lemma in_zrange x lo n : In x (zrange lo n) -> lo <= x < lo + n.
Proof.
  unfold zrange. intros H. apply in_map_iff in H as [k [<- Hk]]. apply in_seq in Hk. lia.
Qed.

(* ------------------------------------------------------------------------------------ *)
(* layer B: finite case analysis                                                          *)

Lemma decode_pem_private_key_fixed_no_panic b parsed :
  decode_pem_private_key Fixed b parsed <> MPanic.
Proof. destruct b, parsed as [[]|]; cbn; discriminate. Qed.

Lemma decode_pem_private_key_refuted :
  exists b parsed, decode_pem_private_key Original b parsed = MPanic.
Proof. exists BlkPKCS8, (Some KEcdh). reflexivity. Qed.

(* an RSA key with a prime factor 1 never passes Validate(); the order of the curve's group fits
   the curve's byte size (P-256 / P-384 / P-521: n < p < 2^bits) *)
Lemma serialize_key_fixed_no_panic raw unit_prime rsa_valid ec_d ec_n ec_size :
  (unit_prime = true -> rsa_valid = false) -> ec_n <= 256 ^ ec_size ->
  serialize_key Fixed raw unit_prime rsa_valid ec_d ec_n ec_size <> MPanic.
Proof.
  intros H Hn. destruct raw as [[]|]; cbn [serialize_key is_fixed andb]; try discriminate.
  - destruct rsa_valid; cbn; [|discriminate].
    destruct unit_prime; [specialize (H eq_refl); discriminate | discriminate].
  - unfold ec_scalar_valid, ec_fits.
    destruct (negb ((0 <? ec_d) && (ec_d <? ec_n))) eqn:E; [discriminate|].
    replace (ec_d <? 256 ^ ec_size) with true by lia. discriminate.
Qed.

Lemma serialize_key_refuted :
  exists raw unit_prime rsa_valid, (unit_prime = true -> rsa_valid = false) /\
    serialize_key Original raw unit_prime rsa_valid 0 0 0 = MPanic.
Proof. exists (Some RRsaPriv), true, false. split; [reflexivity | reflexivity]. Qed.

(* before the second fix: a P-256 private scalar of 33 bytes *)
Lemma serialize_key_ec_refuted :
  exists d n size, n <= 256 ^ size /\ serialize_key Original (Some REcdsaPriv) false true d n size = MPanic.
Proof. exists (256 ^ 32 + 5), (256 ^ 32 - 1000), 32. split; [vm_compute; discriminate | vm_compute; reflexivity]. Qed.

(* non-vacuity: a scalar in range is marshalled *)
Example serialize_key_ec_ok : serialize_key Fixed (Some REcdsaPriv) false true 12345 (256 ^ 32 - 1000) 32 = MAny.
Proof. vm_compute. reflexivity. Qed.

Lemma verify_eddsa_fixed_no_panic k i c r l : verify_eddsa Fixed k i c r l <> MPanic.
Proof. unfold verify_eddsa. destruct k, i, c, r; cbn; try discriminate. destruct (l =? 32); discriminate. Qed.

Lemma verify_eddsa_refuted : exists l, verify_eddsa Original true true true true l = MPanic.
Proof. exists 31. reflexivity. Qed.

(* a nil destination is the caller's own programming error, not an input *)
Lemma decode_metadata_fixed_no_panic inp dup r :
  r <> RNil -> decode_metadata Fixed inp dup r <> MPanic.
Proof.
  intros Hr. destruct inp as [[]|[]], dup, r; cbn; try discriminate; congruence.
Qed.

Lemma decode_metadata_refuted :
  exists inp dup r, r <> RNil /\ decode_metadata Original inp dup r = MPanic.
Proof. exists (MdStruct PMapOther), false, RPtrStruct. split; [discriminate | reflexivity]. Qed.

Lemma config_decode_val_fixed_no_panic c typed : config_decode_val Fixed c typed <> MPanic.
Proof. destruct c; cbn; discriminate. Qed.

Lemma config_decode_val_refuted : exists c typed, config_decode_val Original c typed = MPanic.
Proof. exists VPtrToNilPtr, true. reflexivity. Qed.

(* whatever dynamic type the caller put into the map, DecodeMetadata's hook sees a string *)
Lemma duration_hook_metadata_no_panic f : duration_hook (metadata_view f) <> MPanic.
Proof. destruct f; cbn; discriminate. Qed.

(* ... the hook on its own is NOT safe for every dynamic type: the guard is the stringification *)
Lemma duration_hook_unguarded_refuted : exists f, duration_hook f = MPanic.
Proof. exists DFNamedInt64. reflexivity. Qed.

(* ------------------------------------------------------------------------------------ *)
(* enc/v1 Cipher / KeyAlgorithm                                                           *)

Lemma cipher_from_id_no_panic id : cipher_from_id id <> Panic.
Proof. unfold cipher_from_id. destruct (id =? 1), (id =? 2); discriminate. Qed.

Lemma keyalg_from_id_no_panic id : keyalg_from_id id <> Panic.
Proof.
  unfold keyalg_from_id.
  destruct (id =? 1), (id =? 2), (id =? 3), (id =? 4), (id =? 5); discriminate.
Qed.

Lemma cipher_unmarshal_no_panic data : cipher_unmarshal data <> Panic.
Proof.
  unfold cipher_unmarshal. destruct (_ || _); [discriminate|].
  destruct (atoi data); [apply cipher_from_id_no_panic | discriminate].
Qed.

Lemma keyalg_unmarshal_no_panic data : keyalg_unmarshal data <> Panic.
Proof.
  unfold keyalg_unmarshal. destruct (_ || _); [discriminate|].
  destruct (atoi data); [apply keyalg_from_id_no_panic | discriminate].
Qed.

Lemma cipher_validate_no_panic c : cipher_validate c <> Panic.
Proof. unfold cipher_validate. destruct (_ || _); discriminate. Qed.

Lemma keyalg_validate_no_panic a : keyalg_validate a <> Panic.
Proof.
  unfold keyalg_validate.
  destruct (_ || _); [discriminate|]. destruct (str_is a "AES"); [discriminate|].
  destruct (str_is a "RSA"); discriminate.
Qed.

(* ------------------------------------------------------------------------------------ *)
(* algorithm dispatch in front of the string slicing of getSHAHash / expectedKeySize       *)

Lemma alg_is_eq alg s : alg_is alg s = true -> alg = bs s.
Proof. unfold alg_is. apply eqb_listN_spec. Qed.

Ltac split_algs :=
  repeat match goal with
  | |- context [alg_is ?a ?s] =>
      let E := fresh "E" in
      destruct (alg_is a s) eqn:E;
      [apply alg_is_eq in E; subst a; vm_compute; discriminate | cbn [orb]]
  end.

Lemma sig_dispatch_no_panic alg : sig_dispatch alg <> Panic.
Proof. unfold sig_dispatch. split_algs. discriminate. Qed.

Lemma enc_dispatch_no_panic alg : enc_dispatch alg <> Panic.
Proof. unfold enc_dispatch. split_algs. discriminate. Qed.

(* the slicing itself is partial: it is the switch in front of it that makes it safe *)
Lemma get_sha_hash_unguarded_refuted : exists alg, get_sha_hash alg = Panic.
Proof. exists (bs "ab"). reflexivity. Qed.

Lemma expected_key_size_unguarded_refuted : exists alg, expected_key_size alg = Panic.
Proof. exists (bs "A1"). reflexivity. Qed.

(* ------------------------------------------------------------------------------------ *)
(* PKCS#7                                                                                *)

Lemma bytes_repeat_not_panic c n : 0 <= n -> bytes_repeat c n <> Panic.
Proof. intros. unfold bytes_repeat. replace (n <? 0) with false by lia. discriminate. Qed.

Lemma pad_pkcs7_no_panic buf size : pad_pkcs7 buf size <> Panic.
Proof.
  unfold pad_pkcs7. destruct ((size <=? 1) || (size >=? 256)) eqn:E; [discriminate|].
  assert (Hs : 1 < size) by lia.
  assert (Hm : 0 <= len buf mod size < size) by (apply Z.mod_pos_bound; lia).
  apply bind_not_panic; [apply bytes_repeat_not_panic; lia | intros; discriminate].
Qed.

Lemma pad_len_no_panic bufLen size : 0 <= bufLen -> pad_len bufLen size <> Panic.
Proof.
  intros H. unfold pad_len. destruct ((size <=? 1) || (size >=? 256)) eqn:E; [discriminate|].
  assert (Hm : 0 <= bufLen mod size < size) by (apply Z.mod_pos_bound; lia).
  replace (size - bufLen mod size <? 0) with false by lia. discriminate.
Qed.

Lemma pad_len_16 l : 0 <= l -> exists k, pad_len l 16 = Ok k /\ l < k <= l + 16 /\ k mod 16 = 0.
Proof.
  intros H. unfold pad_len. cbn [Z.leb Z.geb orb Z.compare].
  assert (Hm : 0 <= l mod 16 < 16) by (apply Z.mod_pos_bound; lia).
  replace (16 - l mod 16 <? 0) with false by lia.
  eexists; split; [reflexivity|]. split; [lia|].
  pose proof (Z.div_mod l 16 ltac:(lia)) as D.
  replace (l + (16 - l mod 16)) with ((l / 16 + 1) * 16) by lia. apply Z.mod_mul. lia.
Qed.

Lemma pad_loop_not_panic buf b : forall n i,
  0 <= i -> i + Z.of_nat n <= len buf -> pad_loop buf i n b <> Panic.
Proof.
  induction n as [|k IH]; intros i Hi Hn; cbn [pad_loop]; [discriminate|].
  destruct (go_at_ok buf i) as [c Hc]; [lia|]. rewrite Hc. cbn [bind].
  destruct (negb (c =? b)%N); [discriminate|]. apply IH; lia.
Qed.

Lemma unpad_pkcs7_spec buf size :
  unpad_pkcs7 buf size <> Panic /\
  (forall out, unpad_pkcs7 buf size = Ok out -> len out <= len buf).
Proof.
  unfold unpad_pkcs7. destruct ((size <=? 1) || (size >=? 256)) eqn:E.
  { split; [discriminate | intros out H; discriminate]. }
  destruct (len buf =? 0) eqn:E0.
  { split; [discriminate|]. intros out H. inversion H; subst. pose proof (len_nonneg buf). cbn. lia. }
  destruct (negb (len buf mod size =? 0)) eqn:Em.
  { split; [discriminate | intros out H; discriminate]. }
  pose proof (len_nonneg buf) as Hl.
  destruct (go_at_ok buf (len buf - 1)) as [last Hlast]; [lia|]. rewrite Hlast. cbn [bind].
  destruct ((Z.of_N last <=? 0) || (Z.of_N last >? size)) eqn:Ep.
  { split; [discriminate | intros out H; discriminate]. }
  (* len buf is a positive multiple of size, so padLen <= size <= len buf *)
  assert (Hge : size <= len buf).
  { pose proof (Z.div_mod (len buf) size ltac:(lia)) as D.
    assert (len buf mod size = 0) by lia.
    assert (0 < len buf / size) by (apply Z.div_str_pos; nia || (destruct (Z_lt_le_dec (len buf) size); [rewrite Z.mod_small in H by lia; lia | lia])).
    nia. }
  set (p := Z.of_N last) in *.
  pose proof (pad_loop_not_panic buf (to_byte p) (Z.to_nat p) (len buf - p) ltac:(lia) ltac:(lia)) as Hloop.
  destruct (pad_loop buf (len buf - p) (Z.to_nat p) (to_byte p)) as [ok|e|] eqn:EL; [|split; [discriminate | intros out H; discriminate] | congruence].
  cbn [bind]. destruct ok; [|split; [discriminate | intros out H; discriminate]].
  destruct (go_slice_ok buf 0 (len buf - p) ltac:(lia) ltac:(lia)) as [r [Hr Hlen]].
  rewrite Hr. split; [discriminate|]. intros out H. inversion H; subst. lia.
Qed.

Lemma unpad_pkcs7_no_panic buf size : unpad_pkcs7 buf size <> Panic.
Proof. apply unpad_pkcs7_spec. Qed.

(* removing the two length checks of UnpadPKCS7 (l % size, padLen > size) lets the index walk
   leave the buffer: the checks are what the theorem rests on *)
Example unpad_guard_matters : pad_loop [9%N] (1 - 9) 9 9%N = Panic.
Proof. reflexivity. Qed.
