(* C07 / Iso.v — time.ParseISO8601Duration (/repo/time/time.go), line by line, over the bytes
   of the input string. Every [from[i]] and [from[a:b]] goes through [go_at] / [go_slice], so
   an index or slice bound the code does not guard shows up as [Panic]. The two loops run on
   fuel; [None] = fuel exhausted (the theorems show [S (length from)] always suffices, i.e. the
   loops terminate). Integer results follow Go's 64-bit wrap-around. Definitions only. *)
From Kit.C07 Require Export GoSem.
From Coq Require Import String.
Import ListNotations.
Open Scope Z_scope.

Record iso := { i_years : Z; i_months : Z; i_days : Z; i_dur : Z; i_rep : Z }.

Definition iso_zero (rep : Z) : iso :=
  {| i_years := 0; i_months := 0; i_days := 0; i_dur := 0; i_rep := rep |}.

Definition nanos_second : Z := 1000000000.
Definition nanos_minute : Z := 60 * nanos_second.
Definition nanos_hour : Z := 3600 * nanos_second.

(* strconv.Atoi(from[lo:hi]) *)
Definition num (from : list N) (lo hi : Z) : res Z :=
  bind (go_slice from lo hi) (fun sub =>
    match atoi sub with Some v => Ok v | None => err end).

(* for { i++; if i == l || from[i] == '/' { break } }  — returns the final i *)
Fixpoint scan_rep (fuel : nat) (from : list N) (l i : Z) : option (res Z) :=
  match fuel with
  | O => None
  | S f =>
      let i := i + 1 in
      if i =? l then Some (Ok i)
      else match go_at from i with
           | Ok c => if (c =? 47)%N then Some (Ok i) else scan_rep f from l i
           | Err e => Some (Err e)
           | Panic => Some Panic
           end
  end.

(* state of the main loop *)
Record lstate := { l_i : Z; l_start : Z; l_time : bool; l_acc : iso }.

(* the body of [switch from[i]] for one designator; [start = i+1] afterwards *)
Definition designator (from : list N) (c : N) (s : lstate) : res lstate :=
  let i := l_i s in
  let start := l_start s in
  let t := l_time s in
  let a := l_acc s in
  let next a' := Ok {| l_i := i; l_start := i + 1; l_time := t; l_acc := a' |} in
  match c with
  | 84%N (* T *) =>
      if negb (start =? i) then err
      else Ok {| l_i := i; l_start := i + 1; l_time := true; l_acc := a |}
  | 89%N (* Y *) =>
      if t || (start =? i) then err
      else bind (num from start i) (fun v =>
        next {| i_years := v; i_months := i_months a; i_days := i_days a; i_dur := i_dur a;
                i_rep := i_rep a |})
  | 87%N (* W *) =>
      if t || (start =? i) then err
      else bind (num from start i) (fun v =>
        next {| i_years := i_years a; i_months := i_months a;
                i_days := wrap64 (i_days a + wrap64 (v * 7)); i_dur := i_dur a;
                i_rep := i_rep a |})
  | 68%N (* D *) =>
      if t || (start =? i) then err
      else bind (num from start i) (fun v =>
        next {| i_years := i_years a; i_months := i_months a;
                i_days := wrap64 (i_days a + v); i_dur := i_dur a; i_rep := i_rep a |})
  | 72%N (* H *) =>
      if negb t || (start =? i) then err
      else bind (num from start i) (fun v =>
        next {| i_years := i_years a; i_months := i_months a; i_days := i_days a;
                i_dur := wrap64 (i_dur a + wrap64 (v * nanos_hour)); i_rep := i_rep a |})
  | 83%N (* S *) =>
      if negb t || (start =? i) then err
      else bind (num from start i) (fun v =>
        next {| i_years := i_years a; i_months := i_months a; i_days := i_days a;
                i_dur := wrap64 (i_dur a + wrap64 (v * nanos_second)); i_rep := i_rep a |})
  | 77%N (* M: months before T, minutes after *) =>
      if start =? i then err
      else bind (num from start i) (fun v =>
        if t then
          next {| i_years := i_years a; i_months := i_months a; i_days := i_days a;
                  i_dur := wrap64 (i_dur a + wrap64 (v * nanos_minute)); i_rep := i_rep a |}
        else
          next {| i_years := i_years a; i_months := v; i_days := i_days a; i_dur := i_dur a;
                  i_rep := i_rep a |})
  | _ => Ok s
  end.

(* for i < l { switch from[i] {...}; i++ } *)
Fixpoint main_loop (fuel : nat) (from : list N) (l : Z) (s : lstate) : option (res iso) :=
  match fuel with
  | O => None
  | S f =>
      if l_i s <? l then
        match go_at from (l_i s) with
        | Ok c =>
            match designator from c s with
            | Ok s' => main_loop f from l {| l_i := l_i s' + 1; l_start := l_start s';
                                             l_time := l_time s'; l_acc := l_acc s' |}
            | Err e => Some (Err e)
            | Panic => Some Panic
            end
        | Err e => Some (Err e)
        | Panic => Some Panic
        end
      else Some (Ok (l_acc s))
  end.

(* from "First character must be a P" on *)
Definition parse_body (fuel : nat) (from : list N) (l i rep : Z) : option (res iso) :=
  match go_at from i with
  | Ok c =>
      if negb (c =? 80)%N then Some err
      else main_loop fuel from l
             {| l_i := i + 1; l_start := i + 1; l_time := false; l_acc := iso_zero rep |}
  | Err e => Some (Err e)
  | Panic => Some Panic
  end.

Definition parse_iso_fuel (fuel : nat) (from : list N) : option (res iso) :=
  let l := len from in
  if l <? 2 then Some err
  else
    match go_at from 0 with
    | Ok c0 =>
        if (c0 =? 82)%N (* R *) then
          match scan_rep fuel from l 0 with
          | None => None
          | Some (Ok i) =>
              if i - 1 <? 1 then Some err
              else
                match num from 1 i with
                | Ok rep =>
                    let i := i + 1 in
                    if i >=? l then Some (Ok (iso_zero rep))
                    else parse_body fuel from l i rep
                | Err e => Some (Err e)
                | Panic => Some Panic
                end
          | Some (Err e) => Some (Err e)
          | Some Panic => Some Panic
          end
        else parse_body fuel from l 0 (-1)
    | Err e => Some (Err e)
    | Panic => Some Panic
    end.

(* fuel that always suffices (theorem [iso_terminates]) *)
Definition iso_fuel (from : list N) : nat := S (List.length from).

Definition parse_iso (from : list N) : option (res iso) := parse_iso_fuel (iso_fuel from) from.

Definition iso_vals (r : iso) : list Z := [i_years r; i_months r; i_days r; i_dur r; i_rep r].

Example iso_ex1 : option_map (fun r => match r with Ok x => Some (iso_vals x) | _ => None end)
                             (parse_iso (bs "P1Y2M3DT4H5M6S"))
                  = Some (Some [1; 2; 3; 4 * nanos_hour + 5 * nanos_minute + 6 * nanos_second; -1]).
Proof. reflexivity. Qed.
Example iso_ex2 : option_map (fun r => match r with Ok x => Some (iso_vals x) | _ => None end)
                             (parse_iso (bs "R5/PT30S"))
                  = Some (Some [0; 0; 0; 30 * nanos_second; 5]).
Proof. reflexivity. Qed.
Example iso_ex3 : parse_iso (bs "R/") = Some err. Proof. reflexivity. Qed.
Example iso_ex4 : option_map (fun r => match r with Ok x => Some (iso_vals x) | _ => None end)
                             (parse_iso (bs "R5/")) = Some (Some [0; 0; 0; 0; 5]).
Proof. reflexivity. Qed.
Example iso_ex5 : parse_iso (bs "RR") = Some err. Proof. reflexivity. Qed.
Example iso_ex6 : parse_iso (bs "P") = Some err. Proof. reflexivity. Qed.
Example iso_ex7 : option_map (fun r => match r with Ok x => Some (iso_vals x) | _ => None end)
                             (parse_iso (bs "P2W")) = Some (Some [0; 0; 14; 0; -1]).
Proof. reflexivity. Qed.
