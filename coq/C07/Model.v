(* C07 — models of the kit-owned parsing / decoding / crypto code with Go's partiality
   ([Panic] where the run time panics). One file per layer / package:
     GoSem.v  partial operations of Go (index, slice, make, Atoi, int wrap) + stdlib contracts
     Iso.v    time.ParseISO8601Duration (byte level, fuel)
     Pad.v    crypto/padding PKCS#7 (byte level)
     Sym.v    aeskw, aescbcaead, crypto/symmetric.go, getSHAHash dispatch (length level)
     Json.v   enc/v1 Cipher / KeyAlgorithm JSON (byte level)
     Glue.v   layer B: type switches / assertions around third-party parsers (finite)
   cron.Parse/Next and enc/v1 readHeader/processSegments are modelled in coq/C04 and coq/C01. *)
From Kit.C07 Require Export GoSem Iso Pad Sym Json Glue Header Keys.
