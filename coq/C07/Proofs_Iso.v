(* C07 / Proofs_Iso.v — time.ParseISO8601Duration: for EVERY byte string the two loops finish
   within [S (length from)] iterations and no index or slice expression leaves the string. *)
From Kit.C07 Require Import Spec Model Proofs.
From Coq Require Import ZArith NArith Lia Bool List String ZifyBool.
Import ListNotations.
Open Scope Z_scope.

Lemma num_not_panic from lo hi : 0 <= lo <= hi -> hi <= len from -> num from lo hi <> Panic.
Proof.
  intros H1 H2. unfold num. destruct (go_slice_ok from lo hi H1 H2) as [r [Hr _]]. rewrite Hr. cbn [bind].
  destruct (atoi r); discriminate.
Qed.

(* the scan for '/' stops at an index in (i, l] *)
Lemma scan_rep_spec from : forall fuel i,
  0 <= i < len from -> len from - i <= Z.of_nat fuel ->
  exists j, scan_rep fuel from (len from) i = Some (Ok j) /\ i < j <= len from.
Proof.
  induction fuel as [|f IH]; intros i Hi Hf; [lia|].
  cbn [scan_rep]. destruct (i + 1 =? len from) eqn:E.
  - exists (i + 1). split; [reflexivity | lia].
  - destruct (go_at_ok from (i + 1)) as [c Hc]; [lia|]. rewrite Hc.
    destruct (c =? 47)%N.
    + exists (i + 1). split; [reflexivity | lia].
    + destruct (IH (i + 1)) as [j [Hj Hr]]; [lia | lia |]. exists j. split; [exact Hj | lia].
Qed.

Definition mk_l (i start : Z) (t : bool) (a : iso) : lstate :=
  {| l_i := i; l_start := start; l_time := t; l_acc := a |}.

(* every branch of the switch has one of four shapes *)
Lemma designator_shape from c s :
  designator from c s = Ok s \/
  designator from c s = err \/
  (exists t a, designator from c s = Ok (mk_l (l_i s) (l_i s + 1) t a)) \/
  (exists k, designator from c s =
     bind (num from (l_start s) (l_i s)) (fun v => Ok (mk_l (l_i s) (l_i s + 1) (l_time s) (k v)))).
Proof.
  unfold designator, mk_l.
  destruct c as [|p]; [left; reflexivity|].
  do 8 (try destruct p as [p|p|]); try (left; reflexivity);
    repeat match goal with |- context [if ?b then _ else _] => destruct b end;
    first [ right; left; reflexivity
          | right; right; left; eexists _, _; reflexivity
          | right; right; right; eexists; reflexivity ].
Qed.

Lemma designator_spec from c s :
  0 <= l_start s <= l_i s -> l_i s <= len from ->
  designator from c s <> Panic /\
  forall s', designator from c s = Ok s' -> l_i s' = l_i s /\ 0 <= l_start s' <= l_i s + 1.
Proof.
  intros H1 H2.
  destruct (designator_shape from c s) as [E|[E|[[t [a E]]|[k E]]]]; rewrite E.
  - split; [discriminate|]. intros s' H. inversion H; subst. lia.
  - split; [discriminate|]. intros s' H. discriminate.
  - split; [discriminate|]. intros s' H. inversion H; subst. cbn. lia.
  - pose proof (num_not_panic from (l_start s) (l_i s) H1 H2) as Hn.
    destruct (num from (l_start s) (l_i s)) as [v|e|]; cbn [bind]; [| |congruence].
    + split; [discriminate|]. intros s' H. inversion H; subst. cbn. lia.
    + split; [discriminate|]. intros s' H. discriminate.
Qed.

Lemma main_loop_spec from : forall fuel s,
  0 <= l_start s <= l_i s -> l_i s <= len from -> len from - l_i s < Z.of_nat fuel ->
  exists r, main_loop fuel from (len from) s = Some r /\ r <> Panic.
Proof.
  induction fuel as [|f IH]; intros s H1 H2 Hf; [lia|].
  cbn [main_loop]. destruct (l_i s <? len from) eqn:E.
  - destruct (go_at_ok from (l_i s)) as [c Hc]; [lia|]. rewrite Hc.
    destruct (designator_spec from c s H1 H2) as [Hnp Hs'].
    destruct (designator from c s) as [s'|e|] eqn:ED; [| eexists; split; [reflexivity | discriminate] | congruence].
    destruct (Hs' s' eq_refl) as [Hi Hst].
    apply IH; cbn [l_i l_start]; lia.
  - eexists; split; [reflexivity | discriminate].
Qed.

Lemma parse_body_spec from fuel i rep :
  0 <= i < len from -> len from - (i + 1) < Z.of_nat fuel ->
  exists r, parse_body fuel from (len from) i rep = Some r /\ r <> Panic.
Proof.
  intros Hi Hf. unfold parse_body.
  destruct (go_at_ok from i) as [c Hc]; [lia|]. rewrite Hc.
  destruct (negb (c =? 80)%N); [eexists; split; [reflexivity | discriminate]|].
  apply main_loop_spec; cbn [l_i l_start]; lia.
Qed.

Theorem parse_iso_spec from : exists r, parse_iso from = Some r /\ r <> Panic.
Proof.
  unfold parse_iso, parse_iso_fuel, iso_fuel.
  assert (Hfuel : Z.of_nat (S (List.length from)) = len from + 1) by (unfold len; lia).
  destruct (len from <? 2) eqn:E; [eexists; split; [reflexivity | discriminate]|].
  destruct (go_at_ok from 0) as [c0 Hc0]; [lia|]. rewrite Hc0.
  destruct (c0 =? 82)%N.
  - destruct (scan_rep_spec from (S (List.length from)) 0) as [j [Hj Hr]]; [lia | lia |].
    rewrite Hj. destruct (j - 1 <? 1) eqn:E1; [eexists; split; [reflexivity | discriminate]|].
    pose proof (num_not_panic from 1 j ltac:(lia) ltac:(lia)) as Hn.
    destruct (num from 1 j) as [rep|e|]; [| eexists; split; [reflexivity | discriminate] | congruence].
    destruct (j + 1 >=? len from) eqn:E2; [eexists; split; [reflexivity | discriminate]|].
    apply parse_body_spec; lia.
  - apply parse_body_spec; lia.
Qed.

(* the loops terminate: the stated fuel is never exhausted *)
Theorem iso_terminates from : parse_iso from <> None.
Proof. destruct (parse_iso_spec from) as [r [H _]]. congruence. Qed.

(* no input panics *)
Theorem iso_no_panic from : parse_iso from <> Some Panic.
Proof. destruct (parse_iso_spec from) as [r [H Hr]]. rewrite H. intros E. inversion E. congruence. Qed.

(* dropping the "already at the end of the string after the repetitions" check makes from[i]
   leave the string for "R5/" *)
Example iso_guard_matters : go_at (bs "R5/") 3 = Panic.
Proof. reflexivity. Qed.
