(* C07 / Pad.v — crypto/padding/pkcs7_padding.go, byte level, line by line. Definitions only. *)
From Kit.C07 Require Export GoSem.
Import ListNotations.
Open Scope Z_scope.

(* PadPKCS7(buf, size) *)
Definition pad_pkcs7 (buf : list N) (size : Z) : res (list N) :=
  if (size <=? 1) || (size >=? 256) then err
  else
    let bufLen := len buf in
    let padLen := size - bufLen mod size in
    bind (bytes_repeat (to_byte padLen) padLen) (fun padding =>   (* bytes.Repeat *)
    Ok (buf ++ padding)).

(* for i := from; i < l; i++ { if buf[i] != b { return false } }   ([n] = l - from iterations) *)
Fixpoint pad_loop (buf : list N) (i : Z) (n : nat) (b : N) : res bool :=
  match n with
  | O => Ok true
  | S k =>
      bind (go_at buf i) (fun c =>
        if negb (c =? b)%N then Ok false else pad_loop buf (i + 1) k b)
  end.

(* UnpadPKCS7(buf, size) *)
Definition unpad_pkcs7 (buf : list N) (size : Z) : res (list N) :=
  if (size <=? 1) || (size >=? 256) then err
  else
    let l := len buf in
    if l =? 0 then Ok []
    else if negb (l mod size =? 0) then err
    else
      bind (go_at buf (l - 1)) (fun last =>
      let padLen := Z.of_N last in
      if (padLen <=? 0) || (padLen >? size) then err
      else
        bind (pad_loop buf (l - padLen) (Z.to_nat padLen) (to_byte padLen)) (fun ok =>
        if ok then go_slice buf 0 (l - padLen) else err)).

(* the length-level view of PadPKCS7 used by the AES-CBC models *)
Definition pad_len (bufLen size : Z) : res Z :=
  if (size <=? 1) || (size >=? 256) then err
  else
    let padLen := size - bufLen mod size in
    if padLen <? 0 then Panic else Ok (bufLen + padLen).

Example pad_ex1 : pad_pkcs7 [1; 2; 3]%N 4 = Ok [1; 2; 3; 1]%N. Proof. reflexivity. Qed.
Example pad_ex2 : pad_pkcs7 [1; 2; 3; 4]%N 4 = Ok [1; 2; 3; 4; 4; 4; 4; 4]%N. Proof. reflexivity. Qed.
Example pad_ex3 : unpad_pkcs7 [1; 2; 3; 1]%N 4 = Ok [1; 2; 3]%N. Proof. reflexivity. Qed.
Example pad_ex4 : unpad_pkcs7 [1; 2; 3; 5]%N 4 = err. Proof. reflexivity. Qed.
Example pad_ex5 : unpad_pkcs7 [1; 2; 3]%N 4 = err. Proof. reflexivity. Qed.
Example pad_ex6 : unpad_pkcs7 [] 4 = Ok []. Proof. reflexivity. Qed.
Example pad_ex7 : unpad_pkcs7 [1; 2; 2; 3]%N 4 = err. Proof. reflexivity. Qed.
Example pad_ex8 : pad_pkcs7 [1]%N 1 = err. Proof. reflexivity. Qed.
Example pad_ex9 : pad_len 3 16 = Ok 16. Proof. reflexivity. Qed.
