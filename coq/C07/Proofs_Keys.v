(* C07 / Proofs_Keys.v — crypto.ParseKey: for EVERY byte string and content type, and whatever the
   base64 decoders answer within their documented contract, the sniffing never indexes or slices
   outside the input. *)
From Kit.C07 Require Import Spec Model Keys Proofs.
From Coq Require Import ZArith NArith Lia Bool List String ZifyBool.
Import ListNotations.
Open Scope Z_scope.
Ltac Zify.zify_post_hook ::= Z.div_mod_to_equations.

Lemma drop_trim_len s : len (drop_trim s) <= len s.
Proof.
  induction s as [|c t IH]; cbn [drop_trim]; [lia|].
  destruct (is_trim c); [rewrite len_cons; lia | lia].
Qed.

Lemma trim_right_len raw : 0 <= len (trim_right raw) <= len raw.
Proof.
  unfold trim_right. split; [apply len_nonneg|].
  pose proof (drop_trim_len (rev raw)) as H. unfold len in *. rewrite !rev_length in *. exact H.
Qed.

(* the contract of encoding/base64: Decode writes at most DecodedLen(len(src)) bytes *)
Definition b64_contract (raw : list N) (r : option Z) : Prop :=
  forall n, r = Some n -> 0 <= n <= decoded_len (len (trim_right raw)).

Lemma decoded_len_mono a b : 0 <= a <= b -> 0 <= decoded_len a <= decoded_len b.
Proof. unfold decoded_len. intros H. lia. Qed.

Lemma parse_symmetric_no_panic raw std url :
  b64_contract raw std -> b64_contract raw url -> parse_symmetric raw std url <> Panic.
Proof.
  intros Hs Hu. unfold parse_symmetric.
  pose proof (trim_right_len raw) as Ht. pose proof (decoded_len_mono _ _ Ht) as Hd.
  rewrite len_make_ok by lia. cbn [bind].
  destruct std as [n|].
  - specialize (Hs n eq_refl). rewrite len_slice_ok by lia. discriminate.
  - destruct url as [n|]; [|discriminate].
    specialize (Hu n eq_refl). rewrite len_slice_ok by lia. discriminate.
Qed.

Theorem parse_key_no_panic raw ct std url :
  b64_contract raw std -> b64_contract raw url -> parse_key raw ct std url <> Panic.
Proof.
  intros Hs Hu. unfold parse_key. pose proof (len_nonneg raw) as Hl.
  destruct (len raw =? 0) eqn:E0; [discriminate|].
  destruct (ct_is ct "application/json"); [discriminate|].
  destruct (_ || _); [discriminate|].
  destruct (go_at_ok raw 0 ltac:(lia)) as [c0 ->]. cbn [bind].
  destruct (_ && _); [discriminate|].
  destruct (len raw >? 10) eqn:E10; [|apply parse_symmetric_no_panic; assumption].
  destruct (go_slice_ok raw 0 5 ltac:(lia) ltac:(lia)) as [p [-> _]]. cbn [bind].
  destruct (eqb_listN p (bs "-----")); [discriminate | apply parse_symmetric_no_panic; assumption].
Qed.

(* the emptiness guard is what raw[0] rests on; the length guard is what raw[0:5] rests on *)
Example parse_key_guards_matter : go_at (@nil N) 0 = Panic /\ go_slice (bs "----") 0 5 = Panic.
Proof. split; reflexivity. Qed.

(* non-vacuity: a decoder answer inside the contract exists for a non-trivial input *)
Example b64_contract_ex : b64_contract (bs "AAAA==") (Some 3).
Proof. intros n H. inversion H; subst. vm_compute. split; discriminate. Qed.
