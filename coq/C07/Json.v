(* C07 / Json.v — schemes/enc/v1 ciphers.go and algorithms.go: the JSON (un)marshalling of
   [Cipher] and [KeyAlgorithm], [Validate], [ID] — byte level. Definitions only. *)
From Kit.C07 Require Export GoSem.
From Coq Require Import String.
Import ListNotations.
Open Scope Z_scope.

Definition str_is (a : list N) (s : string) : bool := eqb_listN a (bs s).

(* ---- Cipher ---- *)
Definition cipher_id (c : list N) : Z :=
  if str_is c "AES-GCM" then 1 else if str_is c "CHACHA20-POLY1305" then 2 else 0.

Definition cipher_from_id (id : Z) : res (list N) :=
  if id =? 1 then Ok (bs "AES-GCM") else if id =? 2 then Ok (bs "CHACHA20-POLY1305") else err.

Definition cipher_validate (c : list N) : res (list N) :=
  if str_is c "AES-GCM" || str_is c "CHACHA20-POLY1305" then Ok c else err.

(* strconv.Itoa of an ID: the IDs are 0..5, one digit *)
Definition itoa_small (id : Z) : list N := [Z.to_N (48 + id)].

Definition cipher_marshal (c : list N) : list N := itoa_small (cipher_id c).

(* Cipher.UnmarshalJSON(dataB) on a pointer receiver: the new value of the receiver *)
Definition cipher_unmarshal (data : list N) : res (list N) :=
  if (match data with [] => true | _ => false end) || str_is data "null" then err
  else match atoi data with
       | None => err
       | Some id => cipher_from_id id
       end.

(* ---- KeyAlgorithm ---- *)
Definition keyalg_id (a : list N) : Z :=
  if str_is a "A256KW" || str_is a "AES" then 1
  else if str_is a "A128CBC-NOPAD" then 2
  else if str_is a "A192CBC-NOPAD" then 3
  else if str_is a "A256CBC-NOPAD" then 4
  else if str_is a "RSA-OAEP-256" || str_is a "RSA" then 5
  else 0.

Definition keyalg_from_id (id : Z) : res (list N) :=
  if id =? 1 then Ok (bs "A256KW")
  else if id =? 2 then Ok (bs "A128CBC-NOPAD")
  else if id =? 3 then Ok (bs "A192CBC-NOPAD")
  else if id =? 4 then Ok (bs "A256CBC-NOPAD")
  else if id =? 5 then Ok (bs "RSA-OAEP-256")
  else err.

Definition keyalg_validate (a : list N) : res (list N) :=
  if str_is a "A256KW" || str_is a "A128CBC-NOPAD" || str_is a "A192CBC-NOPAD"
     || str_is a "A256CBC-NOPAD" || str_is a "RSA-OAEP-256" then Ok a
  else if str_is a "AES" then Ok (bs "A256KW")
  else if str_is a "RSA" then Ok (bs "RSA-OAEP-256")
  else err.

Definition keyalg_marshal (a : list N) : list N := itoa_small (keyalg_id a).

Definition keyalg_unmarshal (data : list N) : res (list N) :=
  if (match data with [] => true | _ => false end) || str_is data "null" then err
  else match atoi data with
       | None => err
       | Some id => keyalg_from_id id
       end.

Example json_ex1 : cipher_unmarshal (bs "2") = Ok (bs "CHACHA20-POLY1305"). Proof. reflexivity. Qed.
Example json_ex2 : cipher_unmarshal (bs "null") = err. Proof. reflexivity. Qed.
Example json_ex3 : cipher_unmarshal (bs "+1") = Ok (bs "AES-GCM"). Proof. reflexivity. Qed.
Example json_ex4 : keyalg_unmarshal (bs "6") = err. Proof. reflexivity. Qed.
Example json_ex5 : keyalg_marshal (bs "RSA") = bs "5". Proof. reflexivity. Qed.
Example json_ex6 : keyalg_validate (bs "AES") = Ok (bs "A256KW"). Proof. reflexivity. Qed.
