(* C07 / GoSem.v — the partial operations of Go that the C07 models use, with [Panic] exactly
   where the Go run time panics. Two views:
     * byte level  — a string / []byte is a [list N];
     * length level — a []byte is just its length (and capacity where a slice expression may
       reach past the length); an operation returns the resulting length or [Panic].
   Definitions only (plus closed [Example]s). The error payload of every model of C07 is [unit]:
   the property is about the outcome CLASS (value / error / panic), not about which error. *)
From Kit.Lib Require Export Base.
From Coq Require Import ZArith NArith Lia Bool List Ascii String.
Import ListNotations.
Open Scope Z_scope.

Notation res A := (result A unit).
Definition err {A} : res A := Err tt.

(* byte string of a Coq string literal *)
Definition bs (s : string) : list N := List.map N_of_ascii (list_ascii_of_string s).
Arguments bs s%string.

Definition len {A} (s : list A) : Z := Z.of_nat (List.length s).

(* ------------------------------------------------------------------------------------ *)
(* byte level                                                                            *)

(* s[i] : run-time panic "index out of range" unless 0 <= i < len(s) *)
Definition go_at {A} (s : list A) (i : Z) : res A :=
  if (0 <=? i) && (i <? len s) then
    match nth_error s (Z.to_nat i) with
    | Some c => Ok c
    | None => Panic                                      (* unreachable *)
    end
  else Panic.

(* s[lo:hi] on a string, or on a slice whose capacity equals its length:
   panic "slice bounds out of range" unless 0 <= lo <= hi <= len(s) *)
Definition go_slice (s : list N) (lo hi : Z) : res (list N) :=
  if (0 <=? lo) && (lo <=? hi) && (hi <=? len s)
  then Ok (firstn (Z.to_nat (hi - lo)) (skipn (Z.to_nat lo) s))
  else Panic.

(* bytes.Repeat(b, count): panics on a negative count *)
Definition bytes_repeat (c : N) (count : Z) : res (list N) :=
  if count <? 0 then Panic else Ok (repeat c (Z.to_nat count)).

(* byte(x) conversion of an int *)
Definition to_byte (z : Z) : N := Z.to_N (z mod 256).

(* two's-complement wrap of Go's 64-bit int *)
Definition wrap64 (z : Z) : Z := (z + 2 ^ 63) mod 2 ^ 64 - 2 ^ 63.

(* strconv.Atoi on a 64-bit platform: optional sign, at least one decimal digit, nothing else
   (no underscores in base 10), int64 range check. None = error. *)
Definition is_digit (c : N) : bool := ((48 <=? c) && (c <=? 57))%N.

Fixpoint digits_val (acc : Z) (s : list N) : option Z :=
  match s with
  | [] => Some acc
  | c :: r => if is_digit c then digits_val (acc * 10 + (Z.of_N c - 48)) r else None
  end.

Definition atoi (s : list N) : option Z :=
  let '(neg, body) :=
    match s with
    | 43%N :: r => (false, r)
    | 45%N :: r => (true, r)
    | _ => (false, s)
    end in
  match body with
  | [] => None
  | _ =>
      match digits_val 0 body with
      | None => None
      | Some n =>
          let v := if neg then - n else n in
          if (- 2 ^ 63 <=? v) && (v <=? 2 ^ 63 - 1) then Some v else None
      end
  end.

(* ------------------------------------------------------------------------------------ *)
(* length level                                                                          *)

(* make([]T, n): panics "makeslice: len out of range" for n < 0 *)
Definition len_make (n : Z) : res Z := if n <? 0 then Panic else Ok n.

(* s[lo:hi] on a slice of capacity [cap]: the high bound is checked against the CAPACITY *)
Definition len_slice (cap lo hi : Z) : res Z :=
  if (0 <=? lo) && (lo <=? hi) && (hi <=? cap) then Ok (hi - lo) else Panic.

(* s[i] on a slice of length l *)
Definition len_index (l i : Z) : res unit :=
  if (0 <=? i) && (i <? l) then Ok tt else Panic.

(* sequencing of checks *)
Definition seq_ {A} (r : res unit) (k : res A) : res A := bind r (fun _ => k).

(* for _, x := range xs { body(x) } stopping at the first error / panic *)
Fixpoint for_each {A} (xs : list A) (body : A -> res unit) : res unit :=
  match xs with
  | [] => Ok tt
  | x :: r => bind (body x) (fun _ => for_each r body)
  end.

(* lo, lo+1, ..., lo+n-1 *)
Definition zrange (lo : Z) (n : Z) : list Z := map (fun k => lo + Z.of_nat k) (seq 0 (Z.to_nat n)).

Definition sumZ (l : list Z) : Z := fold_right Z.add 0 l.

(* Documented contracts of the standard library that the length-level models rely on
   (modelled, not verified; the harness exercises them through the real code):
   - cipher.Block.Encrypt/Decrypt(dst, src) (crypto/aes): panic "input not full block" /
     "output not full block" when len(src) or len(dst) is below the block size;
   - cipher.BlockMode.CryptBlocks(dst, src): panic "input not full blocks" when len(src) is
     not a multiple of the block size, "output smaller than input" when len(dst) < len(src);
   - cipher.NewCBCEncrypter/Decrypter(block, iv): panic when len(iv) != block size;
   - aes.NewCipher(key): error unless len(key) is 16, 24 or 32. *)
Definition block_crypt (bsz dst src : Z) : res unit :=
  if (src <? bsz) || (dst <? bsz) then Panic else Ok tt.

Definition crypt_blocks (bsz dst src : Z) : res unit :=
  if negb (src mod bsz =? 0) || (dst <? src) then Panic else Ok tt.

Definition new_cbc (bsz iv : Z) : res unit := if iv =? bsz then Ok tt else Panic.

Definition aes_new_cipher (keyLen : Z) : res unit :=
  if (keyLen =? 16) || (keyLen =? 24) || (keyLen =? 32) then Ok tt else err.

Example gosem_ex1 : go_at (bs "ab") 2 = Panic. Proof. reflexivity. Qed.
Example gosem_ex2 : go_at (bs "ab") 1 = Ok 98%N. Proof. reflexivity. Qed.
Example gosem_ex3 : go_slice (bs "TZ=UTC") 3 (-1) = Panic. Proof. reflexivity. Qed.
Example gosem_ex4 : go_slice (bs "A128KW") 1 4 = Ok (bs "128"). Proof. reflexivity. Qed.
Example gosem_ex5 : len_make (-1) = Panic. Proof. reflexivity. Qed.
Example gosem_ex6 : len_slice 8 0 8 = Ok 8. Proof. reflexivity. Qed.
Example gosem_ex7 : atoi (bs "-9223372036854775808") = Some (- 2 ^ 63). Proof. reflexivity. Qed.
Example gosem_ex8 : atoi (bs "9223372036854775808") = None. Proof. reflexivity. Qed.
Example gosem_ex9 : wrap64 (2 ^ 63) = - 2 ^ 63. Proof. reflexivity. Qed.
Example gosem_ex10 : zrange 1 3 = [1; 2; 3]. Proof. reflexivity. Qed.
