(* C07 / Glue.v — layer B: the kit code AROUND third-party parsers is a few lines of type
   switches and assertions. Each glue is a function on a finite enumeration of the dynamic
   types / shapes the upstream call can hand over; [Panic] = a failed single-value type
   assertion, a nil dereference or a documented panic of the callee. The enumerations are
   trusted base; the harness validates them by generating every key type Go can marshal and
   every shape listed here, and flags a dynamic type outside the enumeration.
   Where the outcome Ok-vs-Err is decided inside third-party code the model says [MAny]
   (= returns normally, with or without an error). Definitions only. *)
From Kit.C07 Require Export GoSem.
Import ListNotations.
Open Scope Z_scope.

(* what a glue model predicts *)
Inductive mout := MOk | MErr | MPanic | MAny.

(* ------------------------------------------------------------------------------------ *)
(* crypto/pem DecodePEMPrivateKey                                                        *)

(* dynamic types x509.ParsePKCS8PrivateKey / ParsePKCS1PrivateKey / ParseECPrivateKey return
   (Go 1.23: *rsa.PrivateKey, *ecdsa.PrivateKey, ed25519.PrivateKey, *ecdh.PrivateKey) *)
Inductive keydyn := KRsa | KEcdsa | KEd25519 | KEcdh.

(* implements crypto.Signer *)
Definition is_signer (k : keydyn) : bool := match k with KEcdh => false | _ => true end.

(* pem.Decode: no block, or the block type *)
Inductive pemblk := BlkNone | BlkEC | BlkRSA | BlkPKCS8 | BlkOther.

(* [parsed] = result of the x509 parser the switch selects (None = it returned an error) *)
Definition decode_pem_private_key (v : variant) (b : pemblk) (parsed : option keydyn) : mout :=
  match b with
  | BlkNone => MErr
  | BlkEC | BlkRSA => match parsed with None => MErr | Some _ => MOk end
  | BlkPKCS8 =>
      match parsed with
      | None => MErr
      | Some k =>
          if is_signer k then MOk
          else if is_fixed v then MErr          (* signer, ok := key.(crypto.Signer); !ok *)
          else MPanic                           (* key.(crypto.Signer) *)
      end
  | BlkOther => MErr
  end.

(* ------------------------------------------------------------------------------------ *)
(* crypto/keys.go SerializeKey                                                           *)

(* dynamic type key.Raw(&rawKey) stores (None = Raw failed); ROther = anything else, e.g.
   x25519 keys of jwx *)
Inductive rawdyn := RBytes | RRsaPriv | REcdsaPriv | REd25519Priv
                  | RRsaPub | REcdsaPub | REd25519Pub | ROther.

(* [unit_prime]: an *rsa.PrivateKey with a prime factor equal to 1 — x509.MarshalPKCS1PrivateKey
   calls Precompute, which divides by p-1 (panic "division by zero").
   [rsa_valid]: the Validate() method of the rsa.PrivateKey returns nil (the fix calls it first). *)
(* an *ecdsa.PrivateKey as far as marshalling is concerned: the private scalar [ec_d] (>= 0, the
   JWK parser takes any byte string), the order [ec_n] of the curve's group and the curve's byte
   size [ec_size]. x509.MarshalPKCS8PrivateKey writes the scalar with
   D.FillBytes(make([]byte, size)), which panics ("math/big: buffer too small to fit value")
   when the scalar needs more than [size] bytes. The fix refuses a scalar outside [1, n-1]. *)
Definition ec_fits (d size : Z) : bool := d <? 256 ^ size.
Definition ec_scalar_valid (d n : Z) : bool := (0 <? d) && (d <? n).

(* [Original] = before the two fix: commits that validate the key first (RSA: Validate(); ECDSA:
   scalar in range), [Fixed] = after both. *)
Definition serialize_key (v : variant) (raw : option rawdyn) (unit_prime rsa_valid : bool)
    (ec_d ec_n ec_size : Z) : mout :=
  match raw with
  | None => MErr
  | Some RBytes => MOk
  | Some ROther => MErr
  | Some RRsaPriv =>
      if is_fixed v && negb rsa_valid then MErr    (* the fix: Validate() first *)
      else if unit_prime then MPanic else MAny
  | Some REcdsaPriv =>
      if is_fixed v && negb (ec_scalar_valid ec_d ec_n) then MErr   (* the fix: 0 < D < N first *)
      else if negb (ec_fits ec_d ec_size) then MPanic else MAny
  | Some _ => MAny                               (* x509.Marshal… decides *)
  end.

(* ------------------------------------------------------------------------------------ *)
(* crypto/asymmetric_sig.go verifyPublicKeyEdDSA                                         *)

(* key.KeyType()==OKP, key.(jwk.OKPPublicKey) ok, Crv()==Ed25519, Raw ok, then
   ed25519.Verify(pub, …), which panics unless len(pub) == 32 *)
Definition verify_eddsa (v : variant) (kty_okp iface_ok crv_ed raw_ok : bool) (pubLen : Z) : mout :=
  if negb kty_okp then MErr
  else if negb iface_ok then MErr
  else if negb crv_ed then MErr
  else if negb raw_ok then MErr
  else if pubLen =? 32 then MOk
  else if is_fixed v then MErr else MPanic.

(* ------------------------------------------------------------------------------------ *)
(* metadata/utils.go DecodeMetadata                                                      *)

(* the "Properties" field of a struct input *)
Inductive props_field := PNone | PNotMap | PMapSS | PMapOther.
(* the input: a struct (by value), or anything else with [castable] = cast.ToStringMapStringE
   accepts it *)
Inductive md_input := MdStruct (f : props_field) | MdOther (castable : bool).
(* the destination *)
Inductive md_result := RNil | RNonPtr | RPtrStruct | RPtrPtrStruct | RPtrOther.

Definition decode_metadata (v : variant) (inp : md_input) (dup_keys : bool) (r : md_result) : mout :=
  let continue_ :=                               (* decodeMetadataMap → resolveAliases *)
    if dup_keys then MErr
    else match r with
         | RNil => MPanic                        (* reflect.TypeOf(nil).Kind() *)
         | RNonPtr | RPtrOther => MErr
         | RPtrStruct | RPtrPtrStruct => MAny    (* mapstructure decides *)
         end in
  match inp with
  | MdStruct PMapSS => continue_
  | MdStruct PMapOther =>
      if is_fixed v then MErr                    (* cast of the struct itself fails *)
      else MPanic                                (* f.Interface().(map[string]string) *)
  | MdStruct _ => MErr
  | MdOther true => continue_
  | MdOther false => MErr
  end.

(* ------------------------------------------------------------------------------------ *)
(* config/decode.go decodeString: pointer branch                                         *)

(* a value inside the input map, as far as pointers are concerned *)
Inductive cfg_val := VNilIface | VNilPtr | VPtrToString | VPtrToNilPtr | VPtrToPtrToString
                   | VPlain.
(* how the hook sees it: (kind of f is Ptr, data is a nil pointer) — None = hook not called *)
Definition mapstructure_view (c : cfg_val) : option (bool * bool) :=
  match c with
  | VNilIface | VNilPtr => None                  (* typed nils become untyped nil: no hook *)
  | VPtrToString | VPtrToNilPtr | VPtrToPtrToString => Some (true, false)
  | VPlain => Some (false, false)
  end.
(* Original: if f.Kind() == reflect.Ptr { data = reflect.ValueOf(data).Elem().Interface() }
   Fixed:    the same, but only when f.Elem().Kind() == reflect.String *)
Definition decode_string_ptr (is_ptr is_nil : bool) : mout :=
  if is_ptr && is_nil then MPanic else MAny.
(* [typed_target]: the destination field is numeric, bool, a duration or a struct — the
   mapstructure decoders that call reflect.Value.Type on the (indirected) input. A pointer to a
   nil pointer is not nil itself, so mapstructure hands it to the hook; the Original hook strips
   one level and returns a typed nil pointer, on which those decoders panic; the Fixed hook leaves
   it alone and mapstructure reports "unconvertible type". *)
Definition config_decode_val (v : variant) (c : cfg_val) (typed_target : bool) : mout :=
  match c with
  | VPtrToNilPtr => if is_fixed v then MAny else if typed_target then MPanic else MAny
  | _ =>
      match mapstructure_view c with
      | None => MAny
      | Some (p, n) => decode_string_ptr p n
      end
  end.

(* ------------------------------------------------------------------------------------ *)
(* metadata/duration.go toTimeDurationHookFunc                                           *)

(* dynamic type of [data] when the target is a duration *)
Inductive dur_from := DFDuration | DFInt64 | DFNamedInt64 | DFString | DFNamedString
                    | DFFloat64 | DFNamedFloat64 | DFOther.
Definition duration_hook (f : dur_from) : mout :=
  match f with
  | DFDuration => MOk
  | DFInt64 | DFNamedInt64 => MPanic             (* kind Int64: data.(time.Duration) *)
  | DFString => MAny
  | DFNamedString => MPanic                      (* kind String: data.(string) *)
  | DFFloat64 => MOk
  | DFNamedFloat64 => MPanic                     (* kind Float64: data.(float64) *)
  | DFOther => MOk
  end.
(* DecodeMetadata converts its input with cast.ToStringMapStringE first: whatever the caller's
   value was, the hook sees a plain string *)
Definition metadata_view (f : dur_from) : dur_from := DFString.
