(* C07 / Proofs_Header.v — enc/v1 readHeader: for EVERY reader script (any chunking, zero-length
   reads, errors delivered with or without data, any bytes) the loop finishes within
   [length script + 3] iterations and no index, slice or make leaves its bounds. *)
From Kit.C07 Require Import Spec Model Header Proofs.
From Coq Require Import ZArith NArith Lia Bool List String ZifyBool.
Import ListNotations.
Open Scope Z_scope.

(* lastNewline <= n = number of bytes in the buffer <= SegmentSize *)
Definition hinv (data : list N) (st : hstate) : Prop :=
  0 <= h_last st <= h_n st /\ h_n st = len data /\ len data <= seg_size.

Lemma seg_size_val : seg_size = 65536. Proof. reflexivity. Qed.
Lemma buf_cap_val : buf_cap = 65553. Proof. reflexivity. Qed.

Lemma scan_spec data : forall rem i st,
  len data = i + len rem -> 0 <= h_last st <= i -> len data <= seg_size ->
  scan data rem i st <> Panic /\
  forall st', scan data rem i st = Ok st' -> 0 <= h_last st' <= len data /\ h_n st' = h_n st.
Proof.
  induction rem as [|c t IH]; intros i st Hlen Hlast Hseg; cbn [scan].
  - split; [discriminate|]. intros st' H. inversion H; subst. rewrite Hlen. unfold len; cbn. lia.
  - rewrite len_cons in Hlen. pose proof (len_nonneg t) as Ht.
    destruct (3 <=? h_nl st) eqn:E3.
    { split; [discriminate|]. intros st' H. inversion H; subst. lia. }
    unfold seq_. rewrite len_index_ok by (rewrite buf_cap_val; rewrite seg_size_val in Hseg; lia). cbn [bind].
    destruct (negb (c =? 10)%N).
    { apply IH; lia. }
    destruct (i <=? h_last st) eqn:El.
    { split; [discriminate|]. intros st' H. discriminate. }
    destruct (go_slice_ok data (h_last st) i ltac:(lia) ltac:(lia)) as [line [Hline _]].
    rewrite Hline. cbn [bind].
    destruct (h_nl st =? 0).
    { destruct (eqb_listN line scheme_name).
      - destruct (IH (i + 1) (mkH (h_n st) 1 (i + 1) (h_man st) (h_mac st))) as [A B]; cbn [h_last h_n]; try lia.
        split; [exact A|]. intros st' H. apply B in H. cbn [h_n] in H. exact H.
      - split; [discriminate|]. intros st' H. discriminate. }
    destruct (h_nl st =? 1).
    { destruct (IH (i + 1) (mkH (h_n st) 2 (i + 1) line (h_mac st))) as [A B]; cbn [h_last h_n]; try lia.
      split; [exact A|]. intros st' H. apply B in H. cbn [h_n] in H. exact H. }
    destruct (IH (i + 1) (mkH (h_n st) 3 (i + 1) (h_man st) line)) as [A B]; cbn [h_last h_n]; try lia.
    split; [exact A|]. intros st' H. apply B in H. cbn [h_n] in H. exact H.
Qed.

Lemma len_firstn {A} (l : list A) k : 0 <= k <= len l -> len (firstn (Z.to_nat k) l) = k.
Proof. intros H. unfold len in *. rewrite firstn_length. lia. Qed.

(* the loop: enough fuel = two more than the items left, or one iteration when it is about to
   stop anyway (an error was returned, the buffer is full, or the third newline was seen) *)
Lemma rh_loop_spec : forall fuel data st e s,
  hinv data st ->
  (len s + 2 <= Z.of_nat fuel \/
   ((1 <= fuel)%nat /\ (is_rnil e = false \/ h_n st = seg_size \/ 3 <= h_nl st))) ->
  exists r, rh_loop fuel data st e s = Some r /\ r <> Panic /\
            forall st' data' e' s', r = Ok (st', data', e', s') -> hinv data' st'.
Proof.
  induction fuel as [|f IH]; intros data st e s Hinv Hf.
  { exfalso. pose proof (len_nonneg s). destruct Hf as [Hf | [Hf _]]; lia. }
  destruct Hinv as (Hlast & Hn & Hseg).
  cbn [rh_loop].
  assert (Hstop : forall st0 data0 e0 s0, hinv data0 st0 ->
    exists r, Some (Ok (st0, data0, e0, s0)) = Some r /\ r <> (Panic : res lres) /\
      forall st' data' e' s', r = Ok (st', data', e', s') -> hinv data' st').
  { intros st0 data0 e0 s0 H0. eexists; split; [reflexivity|]. split; [discriminate|].
    intros st' data' e' s' H. inversion H; subst. exact H0. }
  destruct ((h_nl st <? 3) && is_rnil e) eqn:Econd; [|apply Hstop; repeat split; lia].
  rewrite seg_size_val in *.
  destruct (h_n st =? (if h_n st + 512 >? 65536 then 65536 else h_n st + 512)) eqn:Ebrk;
    [apply Hstop; repeat split; rewrite ?seg_size_val; lia|].
  assert (Hlt : h_n st < 65536) by (destruct (h_n st + 512 >? 65536) eqn:E; lia).
  assert (Hmain : len s + 2 <= Z.of_nat (S f)).
  { destruct Hf as [Hf | [_ [Hf | [Hf | Hf]]]]; [exact Hf | | | ].
    - apply andb_true_iff in Econd as [_ Ec]. congruence.
    - lia.
    - lia. }
  rewrite len_slice_ok by (rewrite ?buf_cap_val, ?seg_size_val; lia).
  unfold sread.
  destruct s as [|[chunk e0] t].
  - (* source exhausted: (0, EOF) *)
    cbn [len List.length Z.of_nat Z.leb Z.compare]. change (len (@nil N) <=? 0) with true. cbn iota.
    apply IH; [repeat split; rewrite ?seg_size_val; lia|].
    right. split; [rewrite len_cons in Hmain || (unfold len in Hmain; cbn in Hmain); lia | left; reflexivity].
  - rewrite len_cons in Hmain. pose proof (len_nonneg t) as Ht. pose proof (len_nonneg chunk) as Hc.
    destruct (len chunk <=? 65536 - h_n st) eqn:Efit.
    + (* the whole item fits *)
      destruct (len chunk <=? 0) eqn:E0.
      { apply IH; [repeat split; rewrite ?seg_size_val; lia | left; lia]. }
      destruct (scan_spec (data ++ chunk) chunk (h_n st) st) as [Hnp Hok];
        [rewrite len_app; lia | lia | rewrite len_app, ?seg_size_val; lia |].
      destruct (scan (data ++ chunk) chunk (h_n st) st) as [st'|x|] eqn:ES; [| | congruence].
      * destruct (Hok st' eq_refl) as [Hl' Hn'].
        apply IH; [|left; lia].
        repeat split; cbn [h_last h_n]; rewrite ?len_app in *; rewrite ?seg_size_val; lia.
      * eexists; split; [reflexivity|]. split; [discriminate|]. intros; discriminate.
    + (* the item is longer than the room left: the buffer becomes full *)
      set (want := 65536 - h_n st) in *.
      assert (Hfl : len (firstn (Z.to_nat want) chunk) = want) by (apply len_firstn; lia).
      rewrite Hfl. replace (want <=? 0) with false by lia.
      destruct (scan_spec (data ++ firstn (Z.to_nat want) chunk) (firstn (Z.to_nat want) chunk) (h_n st) st) as [Hnp Hok];
        [rewrite len_app; lia | lia | rewrite len_app, ?seg_size_val; lia |].
      destruct (scan (data ++ firstn (Z.to_nat want) chunk) (firstn (Z.to_nat want) chunk) (h_n st) st) as [st'|x|] eqn:ES; [| | congruence].
      * destruct (Hok st' eq_refl) as [Hl' Hn'].
        apply IH.
        { repeat split; cbn [h_last h_n]; rewrite ?len_app in *; rewrite ?seg_size_val; lia. }
        right. split; [lia|]. right; left. cbn [h_n]. rewrite ?seg_size_val. lia.
      * eexists; split; [reflexivity|]. split; [discriminate|]. intros; discriminate.
Qed.

Lemma rh_finish_not_panic st data e s : hinv data st -> rh_finish (st, data, e, s) <> Panic.
Proof.
  intros (Hlast & Hn & Hseg). unfold rh_finish.
  destruct (h_nl st <? 1); [discriminate|].
  destruct (h_man st); [discriminate|]. destruct (h_mac st); [discriminate|].
  destruct e; try discriminate;
    (destruct (h_n st >? h_last st) eqn:E; [|discriminate];
     rewrite len_make_ok by lia; cbn [bind];
     destruct (go_slice_ok data (h_last st) (h_n st) ltac:(lia) ltac:(lia)) as [x [Hx _]];
     rewrite Hx; discriminate).
Qed.

Theorem read_header_spec s : exists r, read_header s = Some r /\ r <> Panic.
Proof.
  unfold read_header, read_header_fuel, header_fuel.
  destruct (rh_loop_spec (S (S (S (List.length s)))) [] hstate0 RdNil s) as (r & Hr & Hnp & Hinv).
  { unfold hinv; cbn. rewrite seg_size_val. unfold len; cbn. lia. }
  { left. unfold len. lia. }
  rewrite Hr. destruct r as [[[[st data] e] s']|x|]; [| | congruence].
  - eexists; split; [reflexivity|]. apply rh_finish_not_panic. eapply Hinv. reflexivity.
  - eexists; split; [reflexivity|]. discriminate.
Qed.

(* the loop terminates on every script: the stated fuel is never exhausted *)
Theorem read_header_terminates s : read_header s <> None.
Proof. destruct (read_header_spec s) as [r [H _]]. congruence. Qed.

(* no script makes an index, slice or make leave its bounds *)
Theorem read_header_no_panic s : read_header s <> Some Panic.
Proof. destruct (read_header_spec s) as [r [H Hr]]. rewrite H. intros E. inversion E. congruence. Qed.

(* non-vacuity: a header delivered byte by byte; the payload item is left in the source *)
Example read_header_bytewise :
  read_header (map (fun c => ([c], RdNil)) (hdr "{}" "QUJD") ++ [([7%N], RdEOF)])
  = Some (Ok (HOk (bs "{}") (bs "QUJD") [] [([7%N], RdEOF)])).
Proof. vm_compute. reflexivity. Qed.

(* what the guard "i <= lastNewline" is for: without it the slice bounds are inverted *)
Example header_guard_matters : go_slice [10%N; 10%N] 1 0 = Panic.
Proof. reflexivity. Qed.
