(* C07 / Proofs_Dispatch.v — crypto.EncryptSymmetric / DecryptSymmetric on the current tree:
   for EVERY algorithm string and EVERY length of key, nonce, tag, plaintext / ciphertext the
   model returns a value or an error. *)
From Kit.C07 Require Import Spec Model Proofs Proofs_Sym.
From Coq Require Import ZArith NArith Lia Bool List String ZifyBool.
Import ListNotations.
Open Scope Z_scope.

Lemma aes_new_cipher_cases k : aes_new_cipher k = Ok tt \/ aes_new_cipher k = err.
Proof. unfold aes_new_cipher. destruct (_ || _); [left | right]; reflexivity. Qed.

(* every algorithm the switch sends to an AES family is long enough for alg[1:4] *)
Lemma family_key_size alg f :
  sym_family alg = Some f -> (forall x, f <> FamChaCha x) -> exists ks, expected_key_size alg = Ok ks.
Proof.
  unfold sym_family.
  repeat match goal with
  | |- context [alg_is alg ?s] =>
      let E := fresh "E" in
      destruct (alg_is alg s) eqn:E;
      [apply alg_is_eq in E; subst alg; cbn [orb]; intros H Hx;
       first [ eexists; vm_compute; reflexivity
             | inversion H; subst f; exfalso; eapply Hx; reflexivity ]
      | cbn [orb]]
  end.
  discriminate.
Qed.

Lemma get_cbchmac_spec alg keyLen : 0 <= keyLen ->
  get_cbchmac alg keyLen = err \/ exists p, get_cbchmac alg keyLen = Ok p /\ exported p.
Proof.
  intros Hk. unfold get_cbchmac.
  assert (Hmk : forall want p, exported p ->
    (if negb (keyLen =? want) then err
     else match cbc_new p keyLen keyLen with Ok _ => Ok p | Err _ => err | Panic => Panic end) = err \/
    exists q, (if negb (keyLen =? want) then err
     else match cbc_new p keyLen keyLen with Ok _ => Ok p | Err _ => err | Panic => Panic end) = Ok q /\ exported q).
  { intros want p Hp. destruct (negb (keyLen =? want)); [left; reflexivity|].
    pose proof (cbc_new_no_panic p keyLen keyLen Hp ltac:(lia)) as Hn.
    destruct (cbc_new p keyLen keyLen) as [u|e|]; [right; exists p; split; [reflexivity | exact Hp] | left; destruct e; reflexivity | congruence]. }
  destruct (alg_is alg "A128CBC-HS256"); [apply Hmk; left; reflexivity|].
  destruct (alg_is alg "A192CBC-HS384"); [apply Hmk; right; left; reflexivity|].
  destruct (alg_is alg "A256CBC-HS512"); [apply Hmk; right; right; right; left; reflexivity|].
  left; reflexivity.
Qed.

Theorem sym_encrypt_no_panic alg key_oct keyLen nonceLen ptLen :
  0 <= keyLen -> 0 <= nonceLen -> 0 <= ptLen ->
  sym_encrypt alg key_oct keyLen nonceLen ptLen <> Panic.
Proof.
  intros Hk Hn Hp. unfold sym_encrypt.
  destruct key_oct; cbn [negb]; [|discriminate].
  destruct (sym_family alg) as [[nopad| | | |x]|] eqn:EF; [| | | | |discriminate].
  - (* AES-CBC *)
    destruct (family_key_size alg _ EF ltac:(discriminate)) as [ks ->]. cbn [bind].
    destruct (negb (keyLen =? ks)); [discriminate|].
    destruct (negb (nonceLen =? 16)) eqn:EN; [discriminate|].
    destruct (nopad && negb (ptLen mod 16 =? 0)) eqn:EP; [discriminate|].
    unfold seq_. destruct (aes_new_cipher_cases keyLen) as [-> | ->]; cbn [bind]; [|discriminate].
    assert (Hpad : exists k, (if nopad then Ok ptLen else pad_len ptLen 16) = Ok k /\ 0 <= k /\ k mod 16 = 0).
    { destruct nopad; [exists ptLen; split; [reflexivity | lia] |].
      destruct (pad_len_16 ptLen Hp) as (k & Hk' & Hr & Hm). exists k. split; [exact Hk' | lia]. }
    destruct Hpad as (k & -> & Hk0 & Hkm). cbn [bind]. rewrite len_make_ok by lia. cbn [bind].
    unfold new_cbc. replace (nonceLen =? 16) with true by lia. cbn [bind].
    unfold crypt_blocks. replace (negb (k mod 16 =? 0) || (k <? k)) with false by lia. discriminate.
  - (* AES-GCM *)
    destruct (family_key_size alg _ EF ltac:(discriminate)) as [ks ->]. cbn [bind].
    destruct (negb (keyLen =? ks)); [discriminate|].
    unfold seq_. destruct (aes_new_cipher_cases keyLen) as [-> | ->]; cbn [bind]; [|discriminate].
    unfold enc_aead, aead_seal. destruct (nonceLen =? 12); cbn [negb]; [|discriminate].
    cbn [bind]. repeat (rewrite len_slice_ok by lia; cbn [bind]). discriminate.
  - (* AES-CBC-HMAC *)
    destruct (get_cbchmac_spec alg keyLen Hk) as [-> | (p & -> & Hex)]; [discriminate|]. cbn [bind].
    unfold enc_aead. destruct (nonceLen =? 16) eqn:EN; cbn [negb]; [|discriminate].
    assert (nonceLen = 16) by lia. subst nonceLen.
    destruct (cbc_seal_total p 0 0 ptLen Hex ltac:(lia) Hp) as (k & Hk' & ->).
    destruct (pad_len_16 ptLen Hp) as (k' & Hk'' & Hr & _). rewrite Hk' in Hk''. inversion Hk''; subst k'.
    destruct (exported_facts p Hex) as (_ & Ht & _).
    cbn [bind]. repeat (rewrite len_slice_ok by lia; cbn [bind]). discriminate.
  - (* AES-KW *)
    destruct (family_key_size alg _ EF ltac:(discriminate)) as [ks ->]. cbn [bind].
    destruct (negb (keyLen =? ks)); [discriminate|].
    unfold seq_. destruct (aes_new_cipher_cases keyLen) as [-> | ->]; cbn [bind]; [|discriminate].
    rewrite kw_wrap_total by exact Hp. destruct ((ptLen =? 0) || negb (ptLen mod 8 =? 0)); discriminate.
  - (* ChaCha20-Poly1305 *)
    destruct (negb (keyLen =? 32)); [discriminate|].
    destruct (negb (nonceLen =? (if x then 24 else 12))) eqn:EN; [discriminate|].
    unfold aead_seal. replace (nonceLen =? (if x then 24 else 12)) with true by lia. cbn [bind].
    repeat (rewrite len_slice_ok by lia; cbn [bind]). discriminate.
Qed.

Lemma aead_open_not_panic ns ov nl cl tv : nl = ns -> aead_open ns ov nl cl tv <> Panic.
Proof.
  intros ->. unfold aead_open. replace (ns =? ns) with true by lia. cbn [negb].
  destruct (cl <? ov); [discriminate|]. destruct tv; discriminate.
Qed.

(* [dec]: the bytes AES-CBC decryption of the ciphertext yields — ANY byte string of the
   ciphertext's length *)
Theorem sym_decrypt_fixed_no_panic alg key_oct keyLen nonceLen tagLen ctLen ctCap tag_valid iv_ok dec :
  0 <= keyLen -> 0 <= nonceLen -> 0 <= tagLen -> 0 <= ctLen <= ctCap -> len dec = ctLen ->
  sym_decrypt Fixed alg key_oct keyLen nonceLen tagLen ctLen ctCap tag_valid iv_ok dec <> Panic.
Proof.
  intros Hk Hn Ht Hc Hdec. unfold sym_decrypt.
  destruct key_oct; cbn [negb]; [|discriminate].
  destruct (sym_family alg) as [[nopad| | | |x]|] eqn:EF; [| | | | |discriminate].
  - destruct (family_key_size alg _ EF ltac:(discriminate)) as [ks ->]. cbn [bind].
    destruct (negb (keyLen =? ks)); [discriminate|].
    destruct (negb (nonceLen =? 16)) eqn:EN; [discriminate|].
    destruct (negb (ctLen mod 16 =? 0)) eqn:EP; [discriminate|].
    unfold seq_. destruct (aes_new_cipher_cases keyLen) as [-> | ->]; cbn [bind]; [|discriminate].
    rewrite len_make_ok by lia. cbn [bind].
    unfold new_cbc. replace (nonceLen =? 16) with true by lia. cbn [bind].
    unfold crypt_blocks. replace (negb (ctLen mod 16 =? 0) || (ctLen <? ctLen)) with false by lia. cbn [bind].
    destruct nopad; [discriminate|].
    pose proof (unpad_pkcs7_no_panic dec 16) as Hu.
    destruct (unpad_pkcs7 dec 16); cbn [bind]; [discriminate | discriminate | congruence].
  - destruct (family_key_size alg _ EF ltac:(discriminate)) as [ks ->]. cbn [bind].
    destruct (negb (keyLen =? ks)); [discriminate|].
    unfold seq_. destruct (aes_new_cipher_cases keyLen) as [-> | ->]; cbn [bind]; [|discriminate].
    unfold dec_aead. destruct (nonceLen =? 12) eqn:EN; cbn [negb]; [|discriminate].
    destruct (negb (tagLen =? 16)); [discriminate|]. apply aead_open_not_panic. lia.
  - destruct (get_cbchmac_spec alg keyLen Hk) as [-> | (p & -> & Hex)]; [discriminate|]. cbn [bind].
    unfold dec_aead. destruct (nonceLen =? 16) eqn:EN; cbn [negb]; [|discriminate].
    destruct (negb (tagLen =? p_tag p)) eqn:ET; [discriminate|].
    assert (nonceLen = 16) by lia. subst nonceLen.
    apply cbc_open_fixed_no_panic; [exact Hex | lia | lia | lia].
  - destruct (family_key_size alg _ EF ltac:(discriminate)) as [ks ->]. cbn [bind].
    destruct (negb (keyLen =? ks)); [discriminate|].
    unfold seq_. destruct (aes_new_cipher_cases keyLen) as [-> | ->]; cbn [bind]; [|discriminate].
    apply kw_unwrap_fixed_no_panic. exact Hc.
  - destruct (negb (keyLen =? 32)); [discriminate|].
    destruct (negb (nonceLen =? (if x then 24 else 12))) eqn:EN; [discriminate|].
    destruct (negb (tagLen =? 16)); [discriminate|]. apply aead_open_not_panic. lia.
Qed.

(* the pinned tree: DecryptSymmetric("A128CBC-HS256") with a 5-byte ciphertext and a valid tag *)
Theorem sym_decrypt_refuted :
  exists alg dec, len dec = 5 /\
    sym_decrypt Original alg true 32 16 16 5 5 true false dec = Panic.
Proof. exists (bs "A128CBC-HS256"), [1; 2; 3; 4; 5]%N. split; reflexivity. Qed.
