(* C07 / Header.v — schemes/enc/v1 readHeader (scheme.go), index level, with Go's partiality:
   every buf[i], buf[a:b] and make goes through the checked operations of GoSem.v, so an
   index the code does not guard shows up as [Panic]. The source is an ARBITRARY io.Reader,
   modelled as a script: one item per Read call = the bytes it hands over and the error it returns
   WITH them (nil, io.EOF or a failure — also together with data); a Read never returns more than
   the buffer it was given holds (the rest of the item stays for the next call). The outer loop
   runs on fuel; [None] = fuel exhausted (Proofs_Header.v: [length script + 3] always suffices,
   i.e. the loop terminates on every finite script — a reader that returns (0, nil) for ever is
   an infinite script and outside the model, see props "assumptions").
   Definitions only. *)
From Kit.C07 Require Export GoSem.
From Coq Require Import String.
Import ListNotations.
Open Scope Z_scope.

Definition seg_size : Z := 65536.                 (* SegmentSize *)
Definition buf_cap : Z := seg_size + 16 + 1.      (* len of a BufPool buffer *)
Definition scheme_name : list N := bs "dapr.io/enc/v1".

Inductive rerr := RdNil | RdEOF | RdFail.
Definition is_rnil (e : rerr) : bool := match e with RdNil => true | _ => false end.

Definition rscript := list (list N * rerr).

(* in.Read(p) with len(p) = want > 0 *)
Definition sread (want : Z) (s : rscript) : list N * rerr * rscript :=
  match s with
  | [] => ([], RdEOF, [])
  | (chunk, e) :: t =>
      if len chunk <=? want then (chunk, e, t)
      else (firstn (Z.to_nat want) chunk, RdNil, (skipn (Z.to_nat want) chunk, e) :: t)
  end.

(* n, newlines, lastNewline, manifest, mac ([] = nil slice: a line is never empty) *)
Record hstate := mkH { h_n : Z; h_nl : Z; h_last : Z; h_man : list N; h_mac : list N }.

Definition hstate0 : hstate := mkH 0 0 0 [] [].

(* for i = n; i < n+nn && newlines < 3; i++ { ... } — [rem] = the bytes of the chunk from
   position [i] on, [data] = buf[:n+nn] *)
Fixpoint scan (data rem : list N) (i : Z) (st : hstate) : res hstate :=
  match rem with
  | [] => Ok st
  | c :: t =>
      if 3 <=? h_nl st then Ok st
      else
        seq_ (len_index buf_cap i)                                   (* buf[i] *)
        (if negb (c =? 10)%N then scan data t (i + 1) st
         else if i <=? h_last st then err                            (* "invalid format" *)
         else
           bind (go_slice data (h_last st) i) (fun line =>           (* buf[lastNewline:i] *)
           if h_nl st =? 0 then
             if eqb_listN line scheme_name
             then scan data t (i + 1) (mkH (h_n st) 1 (i + 1) (h_man st) (h_mac st))
             else err                                                (* "unsupported scheme" *)
           else if h_nl st =? 1 then scan data t (i + 1) (mkH (h_n st) 2 (i + 1) line (h_mac st))
           else scan data t (i + 1) (mkH (h_n st) 3 (i + 1) (h_man st) line)))
  end.

(* what the loop ends with: state, buffer contents, last Read error, rest of the script *)
Definition lres : Type := hstate * list N * rerr * rscript.

(* for newlines < 3 && err == nil { ... } *)
Fixpoint rh_loop (fuel : nat) (data : list N) (st : hstate) (e : rerr) (s : rscript)
  : option (res lres) :=
  match fuel with
  | O => None
  | S f =>
      if (h_nl st <? 3) && is_rnil e then
        let n := h_n st in
        let ul := if n + 512 >? seg_size then seg_size else n + 512 in
        if n =? ul then Some (Ok (st, data, e, s))                   (* break *)
        else
          match len_slice buf_cap n seg_size with                    (* buf[n:SegmentSize] *)
          | Ok want =>
              let '(chunk, e', s') := sread want s in
              let nn := len chunk in
              if nn <=? 0 then rh_loop f data st e' s'               (* continue *)
              else
                let data' := data ++ chunk in
                match scan data' chunk n st with
                | Ok st' =>
                    rh_loop f data' (mkH (n + nn) (h_nl st') (h_last st') (h_man st') (h_mac st')) e' s'
                | Err x => Some (Err x)
                | Panic => Some Panic
                end
          | Err x => Some (Err x)
          | Panic => Some Panic
          end
      else Some (Ok (st, data, e, s))
  end.

(* what readHeader hands back: manifest, mac, the surplus bytes pushed back in front of the
   stream, the rest of the source; [HSrcErr] = the source's own error is returned *)
Inductive hout := HOk (man mac extra : list N) (rest : rscript) | HFormat | HSrcErr.

Definition rh_finish (r : lres) : res hout :=
  let '(st, data, e, s) := r in
  if h_nl st <? 1 then Ok HFormat                                    (* "scheme name not found" *)
  else if (match h_man st with [] => true | _ => false end) then Ok HFormat
  else if (match h_mac st with [] => true | _ => false end) then Ok HFormat
  else if (match e with RdFail => true | _ => false end) then Ok HSrcErr
  else if h_n st >? h_last st then
    bind (len_make (h_n st - h_last st)) (fun _ =>                   (* make([]byte, n-lastNewline) *)
    bind (go_slice data (h_last st) (h_n st)) (fun extra =>          (* buf[lastNewline:n] *)
    Ok (HOk (h_man st) (h_mac st) extra s)))
  else Ok (HOk (h_man st) (h_mac st) [] s).

Definition read_header_fuel (fuel : nat) (s : rscript) : option (res hout) :=
  match rh_loop fuel [] hstate0 RdNil s with
  | None => None
  | Some (Ok r) => Some (rh_finish r)
  | Some (Err x) => Some (Ok HFormat)
  | Some Panic => Some Panic
  end.

Definition header_fuel (s : rscript) : nat := S (S (S (List.length s))).

Definition read_header (s : rscript) : option (res hout) := read_header_fuel (header_fuel s) s.

(* the bytes io.ReadAll gets from the rest of a source: up to and including the first item that
   carries an error *)
Fixpoint script_data (s : rscript) : list N :=
  match s with
  | [] => []
  | (chunk, RdNil) :: t => chunk ++ script_data t
  | (chunk, _) :: _ => chunk
  end.

Definition hdr (man mac : string) : list N := scheme_name ++ [10%N] ++ bs man ++ [10%N] ++ bs mac ++ [10%N].

Example header_ex1 :
  read_header [(hdr "{}" "AAAA" ++ bs "rest", RdNil)] = Some (Ok (HOk (bs "{}") (bs "AAAA") (bs "rest") [])).
Proof. vm_compute. reflexivity. Qed.
Example header_ex2 :
  read_header [(bs "dapr.io/enc/v1", RdNil); ([10%N], RdNil); (bs "{}", RdNil); ([10%N; 65%N], RdNil); ([10%N; 7%N], RdEOF); ([8%N], RdNil)]
  = Some (Ok (HOk (bs "{}") (bs "A") [7%N] [([8%N], RdNil)])).
Proof. vm_compute. reflexivity. Qed.
Example header_ex3 : read_header [(bs "dapr.io/enc/v2", RdNil); ([10%N], RdNil)] = Some (Ok HFormat).
Proof. vm_compute. reflexivity. Qed.
Example header_ex4 : read_header [(hdr "{}" "AAAA", RdFail)] = Some (Ok HSrcErr).
Proof. vm_compute. reflexivity. Qed.
Example header_ex5 : read_header [([10%N], RdNil)] = Some (Ok HFormat).      (* i <= lastNewline *)
Proof. vm_compute. reflexivity. Qed.
Example header_ex6 : read_header [([], RdNil); ([], RdNil); (hdr "m" "c", RdEOF)] = Some (Ok (HOk (bs "m") (bs "c") [] [])).
Proof. vm_compute. reflexivity. Qed.
Example header_ex7 : read_header [] = Some (Ok HFormat).
Proof. vm_compute. reflexivity. Qed.
