(* C07 / Sym.v — LENGTH-LEVEL models of the kit-owned symmetric crypto code:
     crypto/aeskw/keywrap.go       Wrap, Unwrap, arrConcat, arrXor
     crypto/aescbcaead/aescbcaead.go  NewAESCBCAEAD, Seal, Open, hmacTag
     crypto/symmetric.go           EncryptSymmetric, DecryptSymmetric and everything under them
                                   (incl. the AEAD split/join helpers and expectedKeySize)
     crypto/crypto.go              getSHAHash and the dispatch of asymmetric_sig/enc.go onto it
   A []byte is its length (plus capacity where a slice expression may reach past the length);
   the models follow the code's make / slice / index / copy operations IN ORDER and return the
   length(s) of the result, [err] or [Panic]. The few data-dependent branches are inputs of the
   model, supplied by the case: [tag_valid] (HMAC / AEAD tag matches), [iv_ok] (the unwrapped
   integrity value equals the RFC 3394 default IV) and [dec] (the bytes AES-CBC decryption
   yields, on which PKCS#7 unpadding then runs — byte level, Pad.v).
   [variant]: [Original] = pinned tree, [Fixed] = current tree (length guards added to
   aeskw.Unwrap and aescbcaead Open). Definitions only. *)
From Kit.C07 Require Export GoSem Pad.
From Coq Require Import String.
Import ListNotations.
Open Scope Z_scope.

(* ==================================================================================== *)
(* crypto/aeskw                                                                          *)

(* arrConcat(arrays...): [arrays[0]] panics when called with no array *)
Definition arr_concat (ls : list Z) : res Z :=
  match ls with [] => Panic | _ => Ok (sumZ ls) end.

(* arrXor(l, r): out[x] = l[x] ^ r[x] for x := range l — indexes r below len(l) *)
Definition arr_xor (l r : Z) : res Z := if l <=? r then Ok l else Panic.

(* the per-element body of "for i := range r { r[i] = make([]byte, 8); copy(r[i], src[off:]) }" *)
Definition kw_fill (srcLen off : Z) : res unit :=
  bind (len_make 8) (fun _ => bind (len_slice srcLen off srcLen) (fun _ => Ok tt)).

(* inner body of Wrap's double loop *)
Definition kw_wrap_step (bsz a : Z) (r : list Z) (i : Z) : res unit :=
  bind (go_at r (i - 1)) (fun ri =>               (* r[i-1] *)
  bind (arr_concat [a; ri]) (fun b =>              (* b := arrConcat(a, r[i-1]) *)
  seq_ (block_crypt bsz b b)                       (* block.Encrypt(b, b) *)
  (bind (len_make 8) (fun tb =>                    (* tBytes := make([]byte, 8) *)
  bind (len_slice b 0 (b / 2)) (fun half =>        (* b[:len(b)/2] *)
  bind (arr_xor half tb) (fun _ =>                 (* copy(a, arrXor(b[:len(b)/2], tBytes)) *)
  bind (len_slice b (b / 2) b) (fun _ =>           (* copy(r[i-1], b[len(b)/2:]) *)
  Ok tt))))))).

(* Wrap(block, cek): [bsz] = block.BlockSize() (16 for AES); result = len(c) *)
Definition kw_wrap (bsz cekLen : Z) : res Z :=
  if (cekLen =? 0) || negb (cekLen mod 8 =? 0) then err   (* len(cek) == 0 || len(cek)%8 != 0 (C03 fix) *)
  else
    bind (len_make 8) (fun a =>
    let n := cekLen / 8 in
    bind (len_make n) (fun _ =>                                        (* r := make([][]byte, n) *)
    seq_ (for_each (zrange 0 n) (fun i => kw_fill cekLen (i * 8)))     (* copy(r[i], cek[i*8:]) *)
    (let r := repeat 8 (Z.to_nat n) in
    seq_ (for_each (zrange 0 6) (fun _ =>
            for_each (zrange 1 n) (fun i => kw_wrap_step bsz a r i)))
    (bind (len_make ((n + 1) * 8)) (fun c =>                           (* c := make([]byte, (n+1)*8) *)
    seq_ (for_each (zrange 1 n) (fun i =>
            bind (go_at r (i - 1)) (fun ri =>                          (* range r[i-1] *)
            for_each (zrange 0 ri) (fun j =>
              seq_ (len_index c (i * 8 + j)) (len_index ri j)))))      (* c[(i*8)+j] = r[i-1][j] *)
    (Ok c)))))).

(* inner body of Unwrap's double loop *)
Definition kw_unwrap_step (bsz a : Z) (r : list Z) (i : Z) : res unit :=
  bind (len_make 8) (fun tb =>                     (* tBytes *)
  bind (arr_xor a tb) (fun x =>                    (* arrXor(a, tBytes) *)
  bind (go_at r (i - 1)) (fun ri =>                (* r[i-1] *)
  bind (arr_concat [x; ri]) (fun b =>              (* b := arrConcat(…, r[i-1]) *)
  seq_ (block_crypt bsz b b)                       (* block.Decrypt(b, b) *)
  (bind (len_slice b 0 (b / 2)) (fun _ =>          (* copy(a, b[:len(b)/2]) *)
  bind (len_slice b (b / 2) b) (fun _ =>           (* copy(r[i-1], b[len(b)/2:]) *)
  Ok tt))))))).

(* Unwrap(block, cipherText); result = len(c) *)
Definition kw_unwrap (v : variant) (bsz ctLen ctCap : Z) (iv_ok : bool) : res Z :=
  if is_fixed v && (negb (ctLen mod 8 =? 0) || (ctLen <? 16)) then err   (* the fix *)
  else
    bind (len_make 8) (fun a =>
    let n := ctLen / 8 - 1 in
    bind (len_make n) (fun _ =>                                        (* r := make([][]byte, n) *)
    seq_ (for_each (zrange 0 n) (fun i => kw_fill ctLen ((i + 1) * 8)))
    (let r := repeat 8 (Z.to_nat n) in
    bind (len_slice ctCap 0 8) (fun _ =>                               (* copy(a, cipherText[:8]) *)
    seq_ (for_each (rev (zrange 0 6)) (fun _ =>
            for_each (rev (zrange 1 n)) (fun i => kw_unwrap_step bsz a r i)))
    (if negb iv_ok then err                                            (* ConstantTimeCompare *)
     else arr_concat r))))).                                           (* c := arrConcat(r...) *)

(* ==================================================================================== *)
(* crypto/aescbcaead                                                                     *)

Record cbc_params := { p_enc : Z; p_mac : Z; p_tag : Z; p_hash : Z }.

(* the four exported constructors; [p_hash] = digest size of macAlg *)
Definition cbc_128_256 := {| p_enc := 16; p_mac := 16; p_tag := 16; p_hash := 32 |}.
Definition cbc_192_384 := {| p_enc := 24; p_mac := 24; p_tag := 24; p_hash := 48 |}.
Definition cbc_256_384 := {| p_enc := 32; p_mac := 24; p_tag := 24; p_hash := 48 |}.
Definition cbc_256_512 := {| p_enc := 32; p_mac := 32; p_tag := 32; p_hash := 64 |}.
Definition cbc_exported : list cbc_params := [cbc_128_256; cbc_192_384; cbc_256_384; cbc_256_512].

(* NewAESCBCAEAD(p) *)
Definition cbc_new (p : cbc_params) (keyLen keyCap : Z) : res unit :=
  let l := p_enc p + p_mac p in
  if negb (keyLen =? l) then err
  else
    bind (len_slice keyCap 0 (p_mac p)) (fun _ =>                      (* p.key[0:p.macKeySize] *)
    bind (len_slice keyLen (keyLen - p_enc p) keyLen) (fun _ =>        (* p.key[len-encKeySize:] *)
    Ok tt)).

(* hmacTag: h.Sum(nil)[:l] *)
Definition hmac_tag (p : cbc_params) : res Z :=
  bind (len_make 8) (fun _ => len_slice (p_hash p) 0 (p_tag p)).

(* "if cap(dst) >= dstLen+size { dst = dst[:dstLen+size] } else { d := make(dstLen+size) … }" *)
Definition grow_dst (dstLen dstCap size : Z) : res Z :=
  if dstCap >=? dstLen + size then len_slice dstCap 0 (dstLen + size)
  else len_make (dstLen + size).

(* a call whose error the code turns into panic(err) *)
Definition must {A} (r : res A) : res A := match r with Ok a => Ok a | _ => Panic end.

(* Seal(dst, nonce, plaintext, additionalData); result = len of the returned slice *)
Definition cbc_seal (p : cbc_params) (dstLen dstCap nonceLen ptLen : Z) : res Z :=
  if negb (nonceLen =? 16) then Panic                                  (* panic("invalid nonce") *)
  else
    seq_ (must (aes_new_cipher (p_enc p)))
    (bind (must (pad_len ptLen 16)) (fun padded =>
    let size := padded + p_tag p in
    bind (grow_dst dstLen dstCap size) (fun dl =>
    bind (len_slice dl dstLen dl) (fun out =>                          (* out := dst[dstLen:] *)
    bind (len_slice out 0 (out - p_tag p)) (fun body =>                (* out[:len(out)-tagSize] *)
    seq_ (new_cbc 16 nonceLen)
    (seq_ (crypt_blocks 16 body padded)
    (bind (len_slice out 0 (out - p_tag p)) (fun _ =>
    bind (hmac_tag p) (fun _ =>
    bind (len_slice out (out - p_tag p) out) (fun _ =>                 (* out[len(out)-tagSize:] *)
    Ok dl)))))))))).

(* Open(dst, nonce, ciphertext, additionalData); result = len of the returned slice *)
Definition cbc_open (v : variant) (p : cbc_params) (dstLen dstCap nonceLen ctLen : Z)
                    (tag_valid : bool) (dec : list N) : res Z :=
  if ctLen <? p_tag p then err
  else if is_fixed v && negb ((ctLen - p_tag p) mod 16 =? 0) then err   (* the fix *)
  else
    bind (len_slice ctLen (ctLen - p_tag p) ctLen) (fun _ =>           (* ciphertextTag *)
    bind (len_slice ctLen 0 (ctLen - p_tag p)) (fun ct =>              (* ciphertext *)
    bind (hmac_tag p) (fun _ =>
    if negb tag_valid then err                                         (* hmac.Equal *)
    else
      bind (grow_dst dstLen dstCap ct) (fun dl =>
      bind (len_slice dl dstLen dl) (fun out =>                        (* out := dst[dstLen:] *)
      seq_ (aes_new_cipher (p_enc p))
      (seq_ (new_cbc 16 nonceLen)                                      (* NewCBCDecrypter(block, nonce) *)
      (seq_ (crypt_blocks 16 out ct)                                   (* CryptBlocks(out, ciphertext) *)
      (bind (unpad_pkcs7 dec 16) (fun pt =>                            (* UnpadPKCS7(out, 16) *)
      len_slice dl 0 (dstLen + len pt)))))))))).                       (* dst[:dstLen+len(out)] *)

(* ==================================================================================== *)
(* crypto/symmetric.go                                                                   *)

Definition alg_is (alg : list N) (s : string) : bool := eqb_listN alg (bs s).

Inductive family := FamCBC (nopad : bool) | FamGCM | FamCBCHMAC | FamKW | FamChaCha (x : bool).

(* the [switch algorithm] of EncryptSymmetric / DecryptSymmetric *)
Definition sym_family (alg : list N) : option family :=
  if alg_is alg "A128CBC" || alg_is alg "A192CBC" || alg_is alg "A256CBC" then Some (FamCBC false)
  else if alg_is alg "A128CBC-NOPAD" || alg_is alg "A192CBC-NOPAD" || alg_is alg "A256CBC-NOPAD"
  then Some (FamCBC true)
  else if alg_is alg "A128GCM" || alg_is alg "A192GCM" || alg_is alg "A256GCM" then Some FamGCM
  else if alg_is alg "A128CBC-HS256" || alg_is alg "A192CBC-HS384" || alg_is alg "A256CBC-HS512"
  then Some FamCBCHMAC
  else if alg_is alg "A128KW" || alg_is alg "A192KW" || alg_is alg "A256KW" then Some FamKW
  else if alg_is alg "C20P" || alg_is alg "C20PKW" then Some (FamChaCha false)
  else if alg_is alg "XC20P" || alg_is alg "XC20PKW" then Some (FamChaCha true)
  else None.

(* expectedKeySize(alg): switch alg[1:4] *)
Definition expected_key_size (alg : list N) : res Z :=
  bind (go_slice alg 1 4) (fun s =>
    if eqb_listN s (bs "128") then Ok 16
    else if eqb_listN s (bs "192") then Ok 24
    else if eqb_listN s (bs "256") then Ok 32
    else Ok 0).

(* getAESCBCHMACCipher(algorithm, key) *)
Definition get_cbchmac (alg : list N) (keyLen : Z) : res cbc_params :=
  let mk (want : Z) (p : cbc_params) : res cbc_params :=
    if negb (keyLen =? want) then err
    else match cbc_new p keyLen keyLen with
         | Ok _ => Ok p
         | Err _ => err
         | Panic => Panic
         end in
  if alg_is alg "A128CBC-HS256" then mk 32 cbc_128_256
  else if alg_is alg "A192CBC-HS384" then mk 48 cbc_192_384
  else if alg_is alg "A256CBC-HS512" then mk 64 cbc_256_512
  else err.

(* Documented contract of the standard-library / x/crypto AEADs (GCM, ChaCha20-Poly1305):
   Seal and Open panic on a nonce of the wrong size; Open fails on a short or unauthentic
   input. Modelled, not verified. *)
Definition aead_seal (nonceSize overhead nonceLen ptLen : Z) : res Z :=
  if nonceLen =? nonceSize then Ok (ptLen + overhead) else Panic.

Definition aead_open (nonceSize overhead nonceLen ctLen : Z) (tag_valid : bool) : res Z :=
  if negb (nonceLen =? nonceSize) then Panic
  else if ctLen <? overhead then err
  else if tag_valid then Ok (ctLen - overhead) else err.

(* encryptSymmetricAEAD(aead, plaintext, nonce, ad): [ciphertext; tag] lengths *)
Definition enc_aead (nonceSize overhead : Z) (seal : res Z) (nonceLen : Z) : res (list Z) :=
  if negb (nonceLen =? nonceSize) then err
  else
    bind seal (fun out =>
    bind (len_slice out 0 (out - overhead)) (fun ct =>                 (* out[0 : len(out)-tagSize] *)
    bind (len_slice out (out - overhead) out) (fun tag =>              (* out[len(out)-tagSize:] *)
    Ok [ct; tag]))).

(* decryptSymmetricAEAD(aead, ciphertext, nonce, tag, ad): [open] receives len(ciphertext+tag) *)
Definition dec_aead (nonceSize overhead : Z) (open : Z -> res Z) (nonceLen tagLen ctLen : Z)
  : res Z :=
  if negb (nonceLen =? nonceSize) then err
  else if negb (tagLen =? overhead) then err
  else open (ctLen + tagLen).                                          (* append(ciphertext, tag...) *)

(* EncryptSymmetric(plaintext, algorithm, key, nonce, ad): lengths [ciphertext; tag].
   [key_oct] = the jwk.Key is an octet sequence whose raw bytes can be extracted. *)
Definition sym_encrypt (alg : list N) (key_oct : bool) (keyLen nonceLen ptLen : Z)
  : res (list Z) :=
  if negb key_oct then err
  else
    match sym_family alg with
    | None => err
    | Some (FamCBC nopad) =>
        bind (expected_key_size alg) (fun ks =>
        if negb (keyLen =? ks) then err
        else if negb (nonceLen =? 16) then err
        else if nopad && negb (ptLen mod 16 =? 0) then err
        else
          seq_ (aes_new_cipher keyLen)
          (bind (if nopad then Ok ptLen else pad_len ptLen 16) (fun padded =>
          bind (len_make padded) (fun ct =>
          seq_ (new_cbc 16 nonceLen)
          (seq_ (crypt_blocks 16 ct padded)
          (Ok [ct; 0]))))))
    | Some FamGCM =>
        bind (expected_key_size alg) (fun ks =>
        if negb (keyLen =? ks) then err
        else seq_ (aes_new_cipher keyLen)
             (enc_aead 12 16 (aead_seal 12 16 nonceLen ptLen) nonceLen))
    | Some FamCBCHMAC =>
        bind (get_cbchmac alg keyLen) (fun p =>
        enc_aead 16 (p_tag p) (cbc_seal p 0 0 nonceLen ptLen) nonceLen)
    | Some FamKW =>
        bind (expected_key_size alg) (fun ks =>
        if negb (keyLen =? ks) then err
        else seq_ (aes_new_cipher keyLen)
             (bind (kw_wrap 16 ptLen) (fun c => Ok [c; 0])))
    | Some (FamChaCha x) =>
        if negb (keyLen =? 32) then err
        else
          let ns := if x then 24 else 12 in
          if negb (nonceLen =? ns) then err
          else
            bind (aead_seal ns 16 nonceLen ptLen) (fun out =>
            bind (len_slice out 0 (out - 16)) (fun ct =>
            bind (len_slice out (out - 16) out) (fun tag =>
            Ok [ct; tag])))
    end.

(* DecryptSymmetric(ciphertext, algorithm, key, nonce, tag, ad): length of the plaintext.
   [dec]: what AES-CBC decryption of the ciphertext yields (CBC families only). *)
Definition sym_decrypt (v : variant) (alg : list N) (key_oct : bool)
    (keyLen nonceLen tagLen ctLen ctCap : Z) (tag_valid iv_ok : bool) (dec : list N) : res Z :=
  if negb key_oct then err
  else
    match sym_family alg with
    | None => err
    | Some (FamCBC nopad) =>
        bind (expected_key_size alg) (fun ks =>
        if negb (keyLen =? ks) then err
        else if negb (nonceLen =? 16) then err
        else if negb (ctLen mod 16 =? 0) then err
        else
          seq_ (aes_new_cipher keyLen)
          (bind (len_make ctLen) (fun pt =>
          seq_ (new_cbc 16 nonceLen)
          (seq_ (crypt_blocks 16 pt ctLen)
          (if nopad then Ok pt
           else bind (unpad_pkcs7 dec 16) (fun out => Ok (len out)))))))
    | Some FamGCM =>
        bind (expected_key_size alg) (fun ks =>
        if negb (keyLen =? ks) then err
        else seq_ (aes_new_cipher keyLen)
             (dec_aead 12 16 (fun l => aead_open 12 16 nonceLen l tag_valid) nonceLen tagLen ctLen))
    | Some FamCBCHMAC =>
        bind (get_cbchmac alg keyLen) (fun p =>
        dec_aead 16 (p_tag p) (fun l => cbc_open v p 0 0 nonceLen l tag_valid dec)
                 nonceLen tagLen ctLen)
    | Some FamKW =>
        bind (expected_key_size alg) (fun ks =>
        if negb (keyLen =? ks) then err
        else seq_ (aes_new_cipher keyLen) (kw_unwrap v 16 ctLen ctCap iv_ok))
    | Some (FamChaCha x) =>
        if negb (keyLen =? 32) then err
        else
          let ns := if x then 24 else 12 in
          if negb (nonceLen =? ns) then err
          else if negb (tagLen =? 16) then err
          else aead_open ns 16 nonceLen (ctLen + tagLen) tag_valid
    end.

(* ==================================================================================== *)
(* crypto/crypto.go getSHAHash and its callers' dispatch                                 *)

(* getSHAHash(alg): switch alg[len(alg)-3:] ; result = digest bits, 0 for crypto.Hash(0) *)
Definition get_sha_hash (alg : list N) : res Z :=
  bind (go_slice alg (len alg - 3) (len alg)) (fun s =>
    if eqb_listN s (bs "256") then Ok 256
    else if eqb_listN s (bs "384") then Ok 384
    else if eqb_listN s (bs "512") then Ok 512
    else Ok 0).

(* SignPrivateKey / VerifyPublicKey: which hash the [switch algorithm] selects
   (Some h = RSA with hash h; None = ECDSA / EdDSA, no getSHAHash call) *)
Definition sig_dispatch (alg : list N) : res (option Z) :=
  if alg_is alg "RS256" || alg_is alg "RS384" || alg_is alg "RS512"
     || alg_is alg "PS256" || alg_is alg "PS384" || alg_is alg "PS512"
  then bind (get_sha_hash alg) (fun h => Ok (Some h))
  else if alg_is alg "ES256" || alg_is alg "ES384" || alg_is alg "ES512" || alg_is alg "EdDSA"
  then Ok None
  else err.

(* EncryptPublicKey / DecryptPrivateKey: Some 1 = SHA-1 (RSA-OAEP), Some 0 = PKCS#1 v1.5 *)
Definition enc_dispatch (alg : list N) : res (option Z) :=
  if alg_is alg "RSA1_5" then Ok (Some 0)
  else if alg_is alg "RSA-OAEP" then Ok (Some 1)
  else if alg_is alg "RSA-OAEP-256" || alg_is alg "RSA-OAEP-384" || alg_is alg "RSA-OAEP-512"
  then bind (get_sha_hash alg) (fun h => Ok (Some h))
  else err.

(* ==================================================================================== *)

Example sym_ex1 : kw_wrap 16 16 = Ok 24. Proof. reflexivity. Qed.
Example sym_ex2 : kw_wrap 16 15 = err. Proof. reflexivity. Qed.
Example sym_ex3 : kw_wrap 16 0 = err. Proof. reflexivity. Qed.
Example sym_ex4 : kw_unwrap Original 16 24 24 true = Ok 16. Proof. reflexivity. Qed.
Example sym_ex5 : kw_unwrap Original 16 5 5 false = Panic. Proof. reflexivity. Qed.
Example sym_ex6 : kw_unwrap Original 16 8 8 true = Panic. Proof. reflexivity. Qed.
Example sym_ex7 : kw_unwrap Original 16 8 8 false = err. Proof. reflexivity. Qed.
Example sym_ex8 : kw_unwrap Original 16 27 27 true = Ok 16. Proof. reflexivity. Qed.
Example sym_ex9 : kw_unwrap Fixed 16 27 27 true = err. Proof. reflexivity. Qed.
Example sym_ex10 : cbc_seal cbc_128_256 0 0 16 5 = Ok 32. Proof. reflexivity. Qed.
Example sym_ex11 : cbc_open Original cbc_128_256 0 0 16 21 true [] = Panic. Proof. reflexivity. Qed.
Example sym_ex12 : cbc_open Fixed cbc_128_256 0 0 16 21 true [] = err. Proof. reflexivity. Qed.
Example sym_ex13 : cbc_open Fixed cbc_128_256 0 0 16 16 true [] = Ok 0. Proof. reflexivity. Qed.
Example sym_ex14 : sym_encrypt (bs "A128CBC-HS256") true 32 16 5 = Ok [16; 16]. Proof. reflexivity. Qed.
Example sym_ex15 : sym_encrypt (bs "A256KW") true 32 0 32 = Ok [40; 0]. Proof. reflexivity. Qed.
Example sym_ex16 : sym_decrypt Original (bs "A128CBC-HS256") true 32 16 16 5 5 true false [] = Panic.
Proof. reflexivity. Qed.
Example sym_ex17 : expected_key_size (bs "A1") = Panic. Proof. reflexivity. Qed.
Example sym_ex18 : get_sha_hash (bs "ab") = Panic. Proof. reflexivity. Qed.
Example sym_ex19 : sig_dispatch (bs "PS384") = Ok (Some 384). Proof. reflexivity. Qed.
