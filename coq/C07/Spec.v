(* C07 / Spec.v — the property, written from its text: "No input makes a parsing, decoding or
   cryptographic entry point panic or run forever ... Malformed input is reported through the
   returned error (or a boolean), never by terminating the caller."
   What one call can be observed to do is an OUTCOME CLASS: it returned a value, it returned an
   error, or it panicked (a call that does not return within the deadline is reported by the
   harness itself, there is no Gallina value for it). Definitions only. *)
From Kit.Lib Require Export Base.
From Coq Require Import ZArith List.
Import ListNotations.

(* [OOk vals]: returned normally; [vals] = the projected result (lengths / integers / bytes as
   integers) where the model predicts it, [] where only the class is compared. *)
Inductive obs := OOk (vals : list Z) | OErr | OPanic.

(* the property for one call *)
Definition no_crash (o : obs) : Prop := o <> OPanic.

(* ... as a boolean, evaluated on what the implementation was observed to do *)
Definition obs_ok (o : obs) : bool := match o with OPanic => false | _ => true end.

(* the property for a modelled function: no input is mapped to [Panic] *)
Definition never_panics {I A E} (f : I -> result A E) : Prop := forall i, f i <> Panic.

(* a fuelled loop terminates: the stated fuel is enough for every input *)
Definition terminates_with {I R} (fuel : I -> nat) (f : nat -> I -> option R) : Prop :=
  forall i, f (fuel i) i <> None.
