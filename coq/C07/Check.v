(* C07 / Check.v — executable correspondence interface. The Go harness prints [case] terms: the
   input of one call (byte strings / lengths / the dynamic-type class it built) AND the outcome
   class the implementation was observed to produce under recover(). [check_case] evaluates the
   spec oracle on the observation (a panic = 2) and compares the observation with the model of
   the CURRENT tree ([Fixed]) (a difference = 1).
   The data-dependent branches of the length-level models ([tag_valid], [iv_ok], [dec]) are
   computed by the harness with its own reference code (standard-library HMAC / AES-CBC / an
   RFC 3394 unwrap written in the harness), never taken from the kit call under test. *)
From Kit.C07 Require Export Spec Model.
From Kit.Lib Require Export CheckLib.
From Kit.C04 Require Zone Parse.
From Coq Require Import String.
Import ListNotations.
Open Scope Z_scope.

Inductive case :=
(* ---- layer A, length level ---- *)
| CKwWrap (cekLen : Z) (o : obs)                                   (* aeskw.Wrap(aes block, cek) *)
| CKwUnwrap (ctLen ctCap : Z) (iv_ok : bool) (o : obs)             (* aeskw.Unwrap(aes block, ct) *)
| CCbcNew (p : Z) (keyLen keyCap : Z) (o : obs)                    (* aescbcaead.NewAESCBC…(key) *)
| CCbcSeal (p : Z) (dstLen dstCap nonceLen ptLen : Z) (o : obs)    (* aead.Seal(dst, nonce, pt, ad) *)
| CCbcOpen (p : Z) (dstLen dstCap nonceLen ctLen : Z) (tag_valid : bool) (dec : list N) (o : obs)
| CSymEnc (alg : list N) (key_oct : bool) (keyLen nonceLen ptLen : Z) (o : obs)
| CSymDec (alg : list N) (key_oct : bool) (keyLen nonceLen tagLen ctLen ctCap : Z)
          (tag_valid iv_ok : bool) (dec : list N) (o : obs)
| CAlg (which : Z) (alg : list N) (o : obs)          (* 0: Sign/Verify dispatch, 1: Encrypt/DecryptPublicKey *)
(* ---- layer A, byte level ---- *)
| CPad (buf : list N) (size : Z) (o : obs)
| CUnpad (buf : list N) (size : Z) (o : obs)
| CIso (from : list N) (o : obs)
| CJson (which : Z) (data : list N) (o : obs)        (* 0/1 Cipher Unmarshal/Validate, 2/3 KeyAlgorithm *)
| CCron (opts : Z) (spec : list N) (zone_ok : bool) (dur : option Z) (o : obs)
(* ---- layer B ---- *)
| CPemKey (b : pemblk) (parsed : option keydyn) (o : obs)
| CSerializeKey (raw : option rawdyn) (unit_prime rsa_valid : bool) (ec_d ec_n ec_size : Z) (o : obs)
| CVerifyEdDSA (kty_okp iface_ok crv_ed raw_ok : bool) (pubLen : Z) (o : obs)
| CDecodeMetadata (inp : md_input) (dup_keys : bool) (r : md_result) (o : obs)
| CConfigVal (c : cfg_val) (typed_target : bool) (o : obs)
| CDurationHook (f : dur_from) (o : obs)
(* ---- layer A, enc/v1 readHeader over a scripted io.Reader ---- *)
| CHeader (s : rscript) (src_err : bool) (o : obs)
(* ---- layer A, crypto.ParseKey: the format sniffing; [std] / [url] = what the two base64 decoders
   answer on the trimmed input; observed: the length of the symmetric key, -1 for any other key ---- *)
| CParseKey (raw ct : list N) (std url : option Z) (o : obs).

Definition obs_of (c : case) : obs :=
  match c with
  | CKwWrap _ o | CKwUnwrap _ _ _ o | CCbcNew _ _ _ o | CCbcSeal _ _ _ _ _ o
  | CCbcOpen _ _ _ _ _ _ _ o | CSymEnc _ _ _ _ _ o | CSymDec _ _ _ _ _ _ _ _ _ _ o
  | CAlg _ _ o | CPad _ _ o | CUnpad _ _ o | CIso _ o | CJson _ _ o | CCron _ _ _ _ o
  | CPemKey _ _ o | CSerializeKey _ _ _ _ _ _ o | CVerifyEdDSA _ _ _ _ _ o
  | CDecodeMetadata _ _ _ o | CConfigVal _ _ o | CDurationHook _ o | CHeader _ _ o | CParseKey _ _ _ _ o => o
  end.

(* the spec oracle: the call did not panic *)
Definition oracle (c : case) : bool := obs_ok (obs_of c).

(* ---- what the model predicts, as an observation ---- *)
Definition class_of {A} (f : A -> list Z) (r : res A) : obs :=
  match r with Ok a => OOk (f a) | Err _ => OErr | Panic => OPanic end.

Definition one (z : Z) : list Z := [z].
Definition none_ {A} (_ : A) : list Z := [].
Definition bytesZ (l : list N) : list Z := map Z.of_N l.

Definition obs_eqb (a b : obs) : bool :=
  match a, b with
  | OOk x, OOk y => eqb_listZ x y
  | OErr, OErr => true
  | OPanic, OPanic => true
  | _, _ => false
  end.

Definition mout_agrees (m : mout) (o : obs) : bool :=
  match m, o with
  | MOk, OOk _ => true
  | MErr, OErr => true
  | MPanic, OPanic => true
  | MAny, OOk _ => true
  | MAny, OErr => true
  | _, _ => false
  end.

Definition cbc_param (p : Z) : cbc_params := nth (Z.to_nat p) cbc_exported cbc_128_256.

Definition cron_class (v : variant) (opts : Z) (spec : list N) (zone_ok : bool) (dur : option Z) : obs :=
  match Kit.C04.Parse.parse v opts
          (fun _ => if zone_ok then Some (Kit.C04.Zone.fixed_zone 0) else None)
          (fun _ => dur) spec with
  | Ok _ => OOk []
  | Err _ => OErr
  | Panic => OPanic
  end.

Definition json_model (which : Z) (data : list N) : obs :=
  if which =? 0 then class_of bytesZ (cipher_unmarshal data)
  else if which =? 1 then class_of bytesZ (cipher_validate data)
  else if which =? 2 then class_of bytesZ (keyalg_unmarshal data)
  else class_of bytesZ (keyalg_validate data).

(* run-length forms used by the harness for long inputs (a 64 KiB list literal overflows the parser) *)
Definition rep (c : N) (n : Z) : list N := repeat c (Z.to_nat n).
Definition repZ (c : Z) (n : Z) : list Z := repeat c (Z.to_nat n).

(* readHeader: (manifest, mac, every byte the caller can still read from the stream) or an error;
   [src_err]: the error is the source's own *)
Definition header_model (s : rscript) : option (obs * bool) :=
  match read_header s with
  | Some (Ok (HOk man mac extra rest)) =>
      Some (OOk (bytesZ man ++ [-1] ++ bytesZ mac ++ [-1] ++ bytesZ (extra ++ script_data rest)), false)
  | Some (Ok HFormat) => Some (OErr, false)
  | Some (Ok HSrcErr) => Some (OErr, true)
  | Some (Err _) => Some (OErr, false)
  | Some Panic => Some (OPanic, false)
  | None => None                                        (* out of fuel: never (read_header_terminates) *)
  end.

Definition parse_key_agrees (raw ct : list N) (std url : option Z) (o : obs) : bool :=
  match parse_key raw ct std url with
  | Ok (PkSym k) => if k >? 0 then obs_eqb (OOk [k]) o else obs_eqb OErr o   (* jwk.FromRaw refuses no bytes *)
  | Ok _ => match o with OPanic => false | _ => true end                     (* the third-party parser decides *)
  | Err _ => obs_eqb OErr o
  | Panic => obs_eqb OPanic o
  end.

Definition model_agrees (v : variant) (c : case) : bool :=
  match c with
  | CKwWrap cek o => obs_eqb (class_of one (kw_wrap 16 cek)) o
  | CKwUnwrap l cap iv o => obs_eqb (class_of one (kw_unwrap v 16 l cap iv)) o
  | CCbcNew p kl kc o => obs_eqb (class_of none_ (cbc_new (cbc_param p) kl kc)) o
  | CCbcSeal p dl dc nl pl o => obs_eqb (class_of one (cbc_seal (cbc_param p) dl dc nl pl)) o
  | CCbcOpen p dl dc nl cl tv dec o =>
      obs_eqb (class_of one (cbc_open v (cbc_param p) dl dc nl cl tv dec)) o
  | CSymEnc alg ko kl nl pl o => obs_eqb (class_of (fun x => x) (sym_encrypt alg ko kl nl pl)) o
  | CSymDec alg ko kl nl tl cl cc tv iv dec o =>
      obs_eqb (class_of one (sym_decrypt v alg ko kl nl tl cl cc tv iv dec)) o
  | CAlg which alg o =>
      obs_eqb (class_of none_ (if which =? 0 then sig_dispatch alg else enc_dispatch alg)) o
  | CPad buf size o => obs_eqb (class_of bytesZ (pad_pkcs7 buf size)) o
  | CUnpad buf size o => obs_eqb (class_of bytesZ (unpad_pkcs7 buf size)) o
  | CIso from o =>
      match parse_iso from with
      | Some r => obs_eqb (class_of iso_vals r) o
      | None => false                                  (* out of fuel: never (iso_terminates) *)
      end
  | CJson which data o => obs_eqb (json_model which data) o
  | CCron opts spec zok dur o => obs_eqb (cron_class v opts spec zok dur) o
  | CPemKey b parsed o => mout_agrees (decode_pem_private_key v b parsed) o
  | CSerializeKey raw up valid d n sz o => mout_agrees (serialize_key v raw up valid d n sz) o
  | CVerifyEdDSA k i c r l o => mout_agrees (verify_eddsa v k i c r l) o
  | CDecodeMetadata inp dup r o => mout_agrees (decode_metadata v inp dup r) o
  | CConfigVal cv typed o => mout_agrees (config_decode_val v cv typed) o
  | CDurationHook f o => mout_agrees (duration_hook (metadata_view f)) o
  | CParseKey raw ct std url o => parse_key_agrees raw ct std url o
  | CHeader s se o =>
      match header_model s with
      | Some (mo, mse) => obs_eqb mo o && Bool.eqb mse se
      | None => false
      end
  end.

(* 0 = agree and no panic; 1 = model and implementation differ; 2 = the implementation panicked *)
Definition check_case (c : case) : Z :=
  if negb (oracle c) then 2 else if negb (model_agrees Fixed c) then 1 else 0.

Definition run_cases (cs : list (Z * case)) : list (Z * Z) := failures check_case cs.

Lemma oracle_sound c : oracle c = true <-> no_crash (obs_of c).
Proof.
  unfold oracle, no_crash. destruct (obs_of c); cbn; split; intro H; congruence.
Qed.

(* the five pre-fix witnesses and the two found while building, as cases: the pinned code's
   model panics on each, the current model does not *)
Example chk_ex1 : check_case (CKwUnwrap 5 5 false OErr) = 0. Proof. reflexivity. Qed.
Example chk_ex2 : model_agrees Original (CKwUnwrap 5 5 false OPanic) = true. Proof. reflexivity. Qed.
Example chk_ex3 : check_case (CKwUnwrap 5 5 false OPanic) = 2. Proof. reflexivity. Qed.
Example chk_ex4 : check_case (CCbcOpen 0 0 0 16 21 true [] OErr) = 0. Proof. reflexivity. Qed.
Example chk_ex5 : model_agrees Original (CCbcOpen 0 0 0 16 21 true [] OPanic) = true.
Proof. reflexivity. Qed.
Example chk_ex6 : check_case (CPemKey BlkPKCS8 (Some KEcdh) OErr) = 0. Proof. reflexivity. Qed.
Example chk_ex7 : check_case (CDecodeMetadata (MdStruct PMapOther) false RPtrStruct OErr) = 0.
Proof. reflexivity. Qed.
Example chk_ex8 : check_case (CCron 380 (bs "TZ=UTC") false None OErr) = 0.
Proof. vm_compute. reflexivity. Qed.
Example chk_ex9 : model_agrees Original (CCron 380 (bs "TZ=UTC") false None OPanic) = true.
Proof. vm_compute. reflexivity. Qed.
Example chk_ex10 : check_case (CIso (bs "R5/PT30S") (OOk [0; 0; 0; 30000000000; 5])) = 0.
Proof. vm_compute. reflexivity. Qed.
Example chk_ex11 : check_case (CVerifyEdDSA true true true true 31 OErr) = 0. Proof. reflexivity. Qed.
Example chk_ex12 : check_case (CSerializeKey (Some RRsaPriv) true false 0 0 0 OErr) = 0. Proof. reflexivity. Qed.
Example chk_ex15 : check_case (CSerializeKey (Some REcdsaPriv) false true (256 ^ 32 + 5) (256 ^ 32 - 1000) 32 OErr) = 0.
Proof. vm_compute. reflexivity. Qed.
Example chk_ex16 : model_agrees Original (CSerializeKey (Some REcdsaPriv) false true (256 ^ 32 + 5) (256 ^ 32 - 1000) 32 OPanic) = true.
Proof. vm_compute. reflexivity. Qed.
Example chk_ex17 : check_case (CHeader [(hdr "{}" "QQ" ++ [1; 2]%N, RdNil); ([3]%N, RdEOF)] false
  (OOk [123; 125; -1; 81; 81; -1; 1; 2; 3])) = 0.
Proof. vm_compute. reflexivity. Qed.
Example chk_ex18 : check_case (CHeader [(hdr "{}" "QQ", RdFail)] true OErr) = 0.
Proof. vm_compute. reflexivity. Qed.
Example chk_ex13 : check_case (CConfigVal VPtrToNilPtr true OErr) = 0. Proof. reflexivity. Qed.
Example chk_ex14 : model_agrees Original (CConfigVal VPtrToNilPtr true OPanic) = true. Proof. reflexivity. Qed.
