(* C07 / Proofs_Sym.v — panic-freedom of the length-level models of aeskw and aescbcaead on the
   current tree, for EVERY length; [_refuted] witnesses on the pinned tree. *)
From Kit.C07 Require Import Spec Model Proofs.
From Coq Require Import ZArith NArith Lia Bool List String ZifyBool.
Import ListNotations.
Open Scope Z_scope.

(* ------------------------------------------------------------------------------------ *)
(* aeskw                                                                                 *)

Lemma kw_fill_ok srcLen off : 0 <= off <= srcLen -> kw_fill srcLen off = Ok tt.
Proof.
  intros H. unfold kw_fill. cbn [len_make Z.ltb Z.compare bind].
  rewrite len_slice_ok by lia. reflexivity.
Qed.

Lemma kw_wrap_step_ok n i : 1 <= i <= Z.of_nat n -> kw_wrap_step 16 8 (repeat 8 n) i = Ok tt.
Proof. intros H. unfold kw_wrap_step. rewrite go_at_repeat by lia. reflexivity. Qed.

Lemma kw_unwrap_step_ok n i : 1 <= i <= Z.of_nat n -> kw_unwrap_step 16 8 (repeat 8 n) i = Ok tt.
Proof.
  intros H. unfold kw_unwrap_step. cbn [len_make Z.ltb Z.compare bind arr_xor Z.leb].
  rewrite go_at_repeat by lia. reflexivity.
Qed.

Lemma kw_out_loop_ok n c i :
  1 <= i <= Z.of_nat n -> (Z.of_nat n + 1) * 8 <= c ->
  bind (go_at (repeat 8 n) (i - 1)) (fun ri =>
    for_each (zrange 0 ri) (fun j => seq_ (len_index c (i * 8 + j)) (len_index ri j))) = Ok tt.
Proof.
  intros Hi Hc. rewrite go_at_repeat by lia. cbn [bind].
  apply for_each_ok. intros j Hj. apply in_zrange in Hj.
  unfold seq_. rewrite len_index_ok by lia. cbn [bind]. apply len_index_ok. lia.
Qed.

Theorem kw_wrap_total cekLen :
  0 <= cekLen ->
  kw_wrap 16 cekLen = if (cekLen =? 0) || negb (cekLen mod 8 =? 0) then err else Ok (cekLen + 8).
Proof.
  intros H0. unfold kw_wrap. destruct (cekLen =? 0) eqn:E0; cbn [orb]; [reflexivity|].
  destruct (cekLen mod 8 =? 0) eqn:E; cbn [negb]; [|reflexivity].
  assert (Hm : cekLen mod 8 = 0) by lia.
  pose proof (Z.div_mod cekLen 8 ltac:(lia)) as D.
  set (n := cekLen / 8) in *. assert (Hn : 0 <= n) by (subst n; apply Z.div_pos; lia).
  cbn [len_make Z.ltb Z.compare bind]. rewrite (len_make_ok n Hn). cbn [bind].
  unfold seq_.
  rewrite for_each_ok; [cbn [bind] | intros i Hi; apply in_zrange in Hi; apply kw_fill_ok; lia].
  rewrite for_each_ok; [cbn [bind] | ].
  2:{ intros j _. apply for_each_ok. intros i Hi. apply in_zrange in Hi.
      apply kw_wrap_step_ok. rewrite Z2Nat.id by lia. lia. }
  rewrite (len_make_ok ((n + 1) * 8)) by lia. cbn [bind].
  rewrite for_each_ok; [cbn [bind]; f_equal; lia|].
  intros i Hi. apply in_zrange in Hi. apply kw_out_loop_ok; rewrite Z2Nat.id by lia; lia.
Qed.

Theorem kw_wrap_no_panic cekLen : 0 <= cekLen -> kw_wrap 16 cekLen <> Panic.
Proof. intros H. rewrite kw_wrap_total by exact H. destruct ((cekLen =? 0) || negb (cekLen mod 8 =? 0)); discriminate. Qed.

Lemma sumZ_repeat x n : sumZ (repeat x n) = x * Z.of_nat n.
Proof. induction n as [|k IH]; cbn [repeat sumZ fold_right]; [lia|]. unfold sumZ in IH. rewrite IH. lia. Qed.

Theorem kw_unwrap_fixed_total ctLen ctCap iv_ok :
  0 <= ctLen <= ctCap ->
  kw_unwrap Fixed 16 ctLen ctCap iv_ok =
    if (ctLen mod 8 =? 0) && (16 <=? ctLen) && iv_ok then Ok (ctLen - 8) else err.
Proof.
  intros H0. unfold kw_unwrap. cbn [is_fixed andb].
  destruct (negb (ctLen mod 8 =? 0) || (ctLen <? 16)) eqn:E.
  { replace ((ctLen mod 8 =? 0) && (16 <=? ctLen)) with false by lia. reflexivity. }
  replace ((ctLen mod 8 =? 0) && (16 <=? ctLen)) with true by lia. cbn [andb].
  assert (Hm : ctLen mod 8 = 0) by lia.
  pose proof (Z.div_mod ctLen 8 ltac:(lia)) as D.
  set (n := ctLen / 8 - 1) in *. assert (Hn : 1 <= n) by (subst n; lia).
  cbn [len_make Z.ltb Z.compare bind]. rewrite (len_make_ok n) by lia. cbn [bind].
  unfold seq_.
  rewrite for_each_ok; [cbn [bind] | intros i Hi; apply in_zrange in Hi; apply kw_fill_ok; subst n; lia].
  rewrite len_slice_ok by lia. cbn [bind].
  rewrite for_each_ok; [cbn [bind] | ].
  2:{ intros j _. apply for_each_ok. intros i Hi. apply in_rev in Hi. apply in_zrange in Hi.
      apply kw_unwrap_step_ok. rewrite Z2Nat.id by lia. lia. }
  destruct iv_ok; cbn [negb]; [|reflexivity].
  unfold arr_concat. destruct (Z.to_nat n) as [|k] eqn:Ek; [lia|].
  cbn [repeat]. change (8 :: repeat 8 k) with (repeat 8 (S k)). rewrite sumZ_repeat, <- Ek, Z2Nat.id by lia.
  f_equal. subst n. lia.
Qed.

Theorem kw_unwrap_fixed_no_panic ctLen ctCap iv_ok :
  0 <= ctLen <= ctCap -> kw_unwrap Fixed 16 ctLen ctCap iv_ok <> Panic.
Proof.
  intros H. rewrite kw_unwrap_fixed_total by exact H.
  destruct ((ctLen mod 8 =? 0) && (16 <=? ctLen) && iv_ok); discriminate.
Qed.

(* the pinned code: 0..7 bytes (make with a negative length) and 8..15 bytes starting with the
   default IV (arrConcat of no arrays) panic; 1..7 trailing bytes after a valid wrap are accepted *)
Theorem kw_unwrap_refuted :
  (forall l, 0 <= l < 8 -> forall iv, kw_unwrap Original 16 l l iv = Panic) /\
  kw_unwrap Original 16 8 8 true = Panic /\
  kw_unwrap Original 16 27 27 true = Ok 16.
Proof.
  split; [|split; reflexivity].
  intros l Hl iv.
  assert (Hc : l = 0 \/ l = 1 \/ l = 2 \/ l = 3 \/ l = 4 \/ l = 5 \/ l = 6 \/ l = 7) by lia.
  destruct Hc as [->|[->|[->|[->|[->|[->|[->| ->]]]]]]]; reflexivity.
Qed.

(* ------------------------------------------------------------------------------------ *)
(* aescbcaead                                                                            *)

Definition exported (p : cbc_params) : Prop := In p cbc_exported.

Lemma exported_cases p : exported p ->
  p = cbc_128_256 \/ p = cbc_192_384 \/ p = cbc_256_384 \/ p = cbc_256_512.
Proof. unfold exported, cbc_exported. cbn [In]. intuition. Qed.

Lemma exported_facts p : exported p ->
  0 < p_mac p /\ 0 < p_tag p <= p_hash p /\ p_tag p mod 16 <> 1000 /\
  aes_new_cipher (p_enc p) = Ok tt /\ 0 < p_enc p.
Proof.
  intros H. apply exported_cases in H as [->|[->|[->| ->]]]; cbn; repeat split; lia || discriminate.
Qed.

Theorem cbc_new_no_panic p keyLen keyCap :
  exported p -> 0 <= keyLen <= keyCap -> cbc_new p keyLen keyCap <> Panic.
Proof.
  intros Hp H. destruct (exported_facts p Hp) as (Hm & Ht & _ & _ & He).
  unfold cbc_new. destruct (negb (keyLen =? p_enc p + p_mac p)) eqn:E; [discriminate|].
  rewrite len_slice_ok by lia. cbn [bind]. rewrite len_slice_ok by lia. discriminate.
Qed.

Lemma hmac_tag_ok p : exported p -> hmac_tag p = Ok (p_tag p).
Proof.
  intros Hp. destruct (exported_facts p Hp) as (_ & Ht & _).
  unfold hmac_tag. cbn [len_make Z.ltb Z.compare bind]. rewrite len_slice_ok by lia. f_equal. lia.
Qed.

Lemma grow_dst_ok dstLen dstCap size :
  0 <= dstLen <= dstCap -> 0 <= size -> grow_dst dstLen dstCap size = Ok (dstLen + size).
Proof.
  intros H Hs. unfold grow_dst. destruct (dstCap >=? dstLen + size) eqn:E.
  - rewrite len_slice_ok by lia. f_equal. lia.
  - apply len_make_ok. lia.
Qed.

(* Seal called as the AEAD contract demands (16-byte nonce) *)
Theorem cbc_seal_total p dstLen dstCap ptLen :
  exported p -> 0 <= dstLen <= dstCap -> 0 <= ptLen ->
  exists padded, pad_len ptLen 16 = Ok padded /\
    cbc_seal p dstLen dstCap 16 ptLen = Ok (dstLen + padded + p_tag p).
Proof.
  intros Hp Hd Hpt. destruct (exported_facts p Hp) as (_ & Ht & _ & Haes & _).
  destruct (pad_len_16 ptLen Hpt) as (k & Hk & Hkr & Hkm). exists k. split; [exact Hk|].
  unfold cbc_seal. cbn [Z.eqb negb Pos.eqb]. rewrite Haes. unfold seq_, must. cbn [bind]. rewrite Hk. cbn [bind].
  rewrite grow_dst_ok by lia. cbn [bind].
  rewrite len_slice_ok by lia. cbn [bind].
  replace (dstLen + (k + p_tag p) - dstLen) with (k + p_tag p) by lia.
  rewrite len_slice_ok by lia. cbn [bind new_cbc Z.eqb Pos.eqb].
  unfold crypt_blocks. replace (k + p_tag p - p_tag p - 0) with k by lia.
  replace (negb (k mod 16 =? 0) || (k <? k)) with false by lia. cbn [bind].
  repeat (first [rewrite len_slice_ok by lia | rewrite hmac_tag_ok by exact Hp]; cbn [bind]).
  f_equal. lia.
Qed.

Theorem cbc_seal_no_panic p dstLen dstCap ptLen :
  exported p -> 0 <= dstLen <= dstCap -> 0 <= ptLen -> cbc_seal p dstLen dstCap 16 ptLen <> Panic.
Proof.
  intros Hp Hd Hpt. destruct (cbc_seal_total p dstLen dstCap ptLen Hp Hd Hpt) as (k & _ & ->). discriminate.
Qed.

(* the documented misuse: any other nonce size panics by contract *)
Lemma cbc_seal_wrong_nonce p dl dc nl pl : nl <> 16 -> cbc_seal p dl dc nl pl = Panic.
Proof. intros H. unfold cbc_seal. replace (nl =? 16) with false by lia. reflexivity. Qed.

(* Open with a 16-byte nonce, for EVERY ciphertext length, either tag verdict and EVERY byte
   string the CBC decryption may yield ([dec] has the length of the ciphertext body) *)
Theorem cbc_open_fixed_no_panic p dstLen dstCap ctLen tag_valid dec :
  exported p -> 0 <= dstLen <= dstCap -> 0 <= ctLen ->
  (p_tag p <= ctLen -> len dec = ctLen - p_tag p) ->
  cbc_open Fixed p dstLen dstCap 16 ctLen tag_valid dec <> Panic.
Proof.
  intros Hp Hd Hc Hdec. destruct (exported_facts p Hp) as (_ & Ht & _ & Haes & _).
  unfold cbc_open. destruct (ctLen <? p_tag p) eqn:E1; [discriminate|].
  cbn [is_fixed andb]. destruct (negb ((ctLen - p_tag p) mod 16 =? 0)) eqn:E2; [discriminate|].
  rewrite len_slice_ok by lia. cbn [bind]. rewrite len_slice_ok by lia. cbn [bind].
  rewrite hmac_tag_ok by exact Hp. cbn [bind].
  destruct tag_valid; cbn [negb]; [|discriminate].
  replace (ctLen - p_tag p - 0) with (ctLen - p_tag p) by lia.
  rewrite grow_dst_ok by lia. cbn [bind]. rewrite len_slice_ok by lia. cbn [bind].
  rewrite Haes. unfold seq_. cbn [bind new_cbc Z.eqb Pos.eqb].
  unfold crypt_blocks.
  replace (negb ((ctLen - p_tag p) mod 16 =? 0) || (dstLen + (ctLen - p_tag p) - dstLen <? ctLen - p_tag p)) with false by lia.
  cbn [bind].
  destruct (unpad_pkcs7_spec dec 16) as [Hnp Hle].
  destruct (unpad_pkcs7 dec 16) as [pt|e|] eqn:EU; [|discriminate|congruence].
  cbn [bind]. specialize (Hle pt eq_refl). pose proof (len_nonneg pt).
  rewrite len_slice_ok by lia. discriminate.
Qed.

(* the pinned code: a ciphertext with a VALID tag whose body is not a whole number of AES
   blocks reaches CryptBlocks and panics *)
Theorem cbc_open_refuted :
  exists p ctLen dec, exported p /\ len dec = ctLen - p_tag p /\
    cbc_open Original p 0 0 16 ctLen true dec = Panic.
Proof.
  exists cbc_128_256, 21, [1; 2; 3; 4; 5]%N. split; [left; reflexivity|]. split; reflexivity.
Qed.

(* dropping the len(ciphertext) < tagSize check instead would panic in the slice expression *)
Example cbc_open_tag_guard_matters : len_slice 5 (5 - 16) 5 = Panic.
Proof. reflexivity. Qed.
