(* C07 / Keys.v — crypto/keys.go ParseKey and parseSymmetricKey: the kit-owned format sniffing in
   front of the third-party parsers, with Go's partiality (raw[0], raw[0:5], make, dst[:n]).
   The two base64 decoders are ORACLES ([std], [url]: [Some n] = nil error and n bytes written):
   the documented contract of encoding/base64 (Decode writes at most DecodedLen(len(src)) bytes)
   is the hypothesis of the theorems. Definitions only. *)
From Kit.C07 Require Export GoSem.
From Coq Require Import String.
Import ListNotations.
Open Scope Z_scope.

(* which parser the input is handed to; for the symmetric branch: the length of the key bytes
   given to jwk.FromRaw *)
Inductive pk_branch := PkJwk | PkPem | PkSym (keyLen : Z).

(* base64.Raw*Encoding.DecodedLen(n) *)
Definition decoded_len (n : Z) : Z := n * 6 / 8.

(* bytes.TrimRight(raw, "\n=") *)
Definition is_trim (c : N) : bool := ((c =? 10) || (c =? 61))%N.
Fixpoint drop_trim (s : list N) : list N :=
  match s with
  | c :: t => if is_trim c then drop_trim t else s
  | [] => []
  end.
Definition trim_right (raw : list N) : list N := rev (drop_trim (rev raw)).

Definition parse_symmetric (raw : list N) (std url : option Z) : res pk_branch :=
  bind (len_make (decoded_len (len raw))) (fun dst =>                (* make([]byte, DecodedLen(len(raw))) *)
  match std with
  | Some n => bind (len_slice dst 0 n) (fun k => Ok (PkSym k))       (* dst[:n] *)
  | None =>
      match url with
      | Some n => bind (len_slice dst 0 n) (fun k => Ok (PkSym k))
      | None => Ok (PkSym (len raw))
      end
  end).

Definition ct_is (ct : list N) (s : string) : bool := eqb_listN ct (bs s).

Definition parse_key (raw ct : list N) (std url : option Z) : res pk_branch :=
  let l := len raw in
  if l =? 0 then err
  else if ct_is ct "application/json" then Ok PkJwk
  else if ct_is ct "application/x-pem-file" || ct_is ct "application/pkcs8" then Ok PkPem
  else
    bind (go_at raw 0) (fun c0 =>                                    (* raw[0] *)
    if (c0 =? 123)%N && negb (l =? 16) && negb (l =? 24) && negb (l =? 32) then Ok PkJwk
    else if l >? 10 then
      bind (go_slice raw 0 5) (fun p =>                              (* raw[0:5] *)
      if eqb_listN p (bs "-----") then Ok PkPem else parse_symmetric raw std url)
    else parse_symmetric raw std url).

Example keys_ex1 : parse_key (bs "{}") [] None None = Ok PkJwk. Proof. reflexivity. Qed.
Example keys_ex2 : parse_key (bs "{234567890123456") [] None None = Ok (PkSym 16). Proof. reflexivity. Qed.
Example keys_ex3 : parse_key (bs "-----BEGIN X") [] None None = Ok PkPem. Proof. reflexivity. Qed.
Example keys_ex4 : parse_key (bs "AAAA==") [] (Some 3) None = Ok (PkSym 3). Proof. reflexivity. Qed.
Example keys_ex5 : parse_key [] [] None None = err. Proof. reflexivity. Qed.
Example keys_ex6 : parse_key (bs "=") [] (Some 0) None = Ok (PkSym 0). Proof. reflexivity. Qed.
Example keys_ex7 : trim_right (bs "ab=c==
=") = bs "ab=c". Proof. reflexivity. Qed.
