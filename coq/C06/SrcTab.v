(* C06 — source-table tie: harness/srctab06 regenerates, from the text of
   /repo/events/queue/processor.go, the bound of `if deadline < 500*time.Microsecond` in
   processLoop; it must be the [threshold] of Model.v (nanoseconds).  [Spec.half_ms] is the
   documented tolerance, written from the documentation, and is deliberately NOT tied here. *)
From Kit Require Import Lib.SrcTab C06.Model.
From Coq Require Import String.
Local Open Scope string_scope.

Definition table : list entry :=
  [ ("queue.processLoop.executeNowThreshold", eqv (TZ threshold)) ].

Definition run_cases := run_tab table.
