(* C06 — the positive half of the first clause of the property: no live item is ever lost, and
   (timely schedules, code after the fix) every live item whose time has come HAS been handed to
   the callback, exactly once. *)
From Kit Require Import C06.Model C06.Spec C06.ProofsQueue C06.ProofsInv C06.Proofs C06.ProofsProgress
  C06.ProofsOnTime.
From Coq Require Import Permutation.
Open Scope Z_scope.

(* [live_after evs] looks at the client's Enqueue/Dequeue calls only: the instances that were
   enqueued and not dequeued or replaced since.  Each of them is in the queue or in the log. *)
Definition live_covered (evs : list event) (s : state) : Prop :=
  forall it, In it (live_after evs) -> In it (q s) \/ In it (map fst (executed s)).

Lemma live_covered_step v evs s e s' :
  qinv s -> live_covered evs s -> step v s e = Some s' -> live_covered (evs ++ [e]) s'.
Proof.
  intros [Hk _] H Hs it Hin. rewrite live_after_snoc in Hin.
  destruct (step_q_exec _ _ _ _ Hs) as
    [[Hq [Hx [Hl _]]]|[[r [p [-> [Hq Hx]]]]|[[k [p [-> [Hq Hx]]]]|
     [h [rest [p [-> [Hq0 [Hq [_ [_ Hx]]]]]]]]]]].
  - rewrite Hl in Hin. rewrite Hq, Hx. apply H; exact Hin.
  - cbn [live_step] in Hin. rewrite Hq, Hx. destruct Hin as [<-|Hin].
    + left. apply q_insert_In. left; reflexivity.
    + apply remove_key_In in Hin as [Hin Hne]. destruct (H it Hin) as [Hq'|Hx']; [|right; exact Hx'].
      left. apply q_insert_In. right. split; assumption.
  - cbn [live_step] in Hin. rewrite Hq, Hx. apply remove_key_In in Hin as [Hin Hne].
    destruct (H it Hin) as [Hq'|Hx']; [|right; exact Hx'].
    left. apply (q_remove_In p k _ it Hk). split; assumption.
  - cbn [live_step] in Hin. rewrite Hq, Hx. cbn [map fst].
    destruct (H it Hin) as [Hq'|Hx']; [|right; right; exact Hx'].
    rewrite Hq0 in Hq'. destruct Hq' as [<-|Hq']; [right; left; reflexivity|].
    left. eapply Permutation_in; [apply Permutation_sym, choose_head_perm | exact Hq'].
Qed.

Lemma no_live_item_lost v t evs : forall s,
  run v (init_at t) evs = Some s -> live_covered evs s.
Proof.
  induction evs as [|e evs IH] using rev_ind; intros s Hrun.
  - intros it []. 
  - apply run_snoc in Hrun as [s0 [Hrun Hs]].
    eapply live_covered_step; [apply (ginv_run _ _ _ _ Hrun) | apply IH; exact Hrun | exact Hs].
Qed.

(* Timely schedule, code after the fix, stop channel open, at rest: every live item whose
   scheduled time the clock has reached has been handed to the callback - and (fresh objects)
   the log holds no id twice, so exactly once. *)
Lemma due_live_items_have_run t evs s :
  trun Fixed (init_at t) evs s -> at_rest Fixed s -> stopch s = false ->
  forall it, In it (live_after evs) -> idue it <= clock s -> In it (map fst (executed s)).
Proof.
  intros Ht Hrest Hst it Hlive Hdue.
  destruct (no_live_item_lost Fixed t evs s (trun_run _ _ _ _ Ht) it Hlive) as [Hq|Hx]; [|exact Hx].
  pose proof (on_time_rest t evs s Ht Hrest Hst it Hq). lia.
Qed.

Lemma due_live_items_run_exactly_once t evs s :
  fresh_ids evs -> trun Fixed (init_at t) evs s -> at_rest Fixed s -> stopch s = false ->
  NoDup (map xid (executed s)) /\
  forall it, In it (live_after evs) -> idue it <= clock s ->
    exists tm, In (it, tm) (executed s) /\ idue it - half_ms < tm /\ tm <= clock s.
Proof.
  intros Hf Ht Hrest Hst.
  pose proof (trun_run _ _ _ _ Ht) as Hrun.
  split; [apply (h_nodup _ _ (hinv_run Fixed t evs s Hf Hrun))|].
  intros it Hlive Hdue.
  pose proof (due_live_items_have_run t evs s Ht Hrest Hst it Hlive Hdue) as Hin.
  apply in_map_iff in Hin as [[it' tm] [E Hin]]. cbn in E. subst it'.
  exists tm. split; [exact Hin|]. eapply not_early; eassumption.
Qed.

(* non-vacuity: the timely schedule of ProofsOnTime.ot_park followed by one jump and the loop's
   steps up to rest: all three live items are due and have run *)
Definition ot_all : list event :=
  ot_park ++ [EvAdvance 5000000; EvLoop ChTimer 0; EvLoop ChStep 0; EvCbRet;
              EvLoop ChStep 0; EvLoop ChStep 0; EvLoop ChStep 0; EvLoop ChStep 0; EvCbRet;
              EvLoop ChStep 0; EvLoop ChStep 0; EvLoop ChStep 0; EvLoop ChStep 0; EvCbRet;
              EvLoop ChStep 0; EvDone].

Example ot_all_run :
  exists s, trun Fixed init ot_all s /\ at_rest Fixed s /\ stopch s = false /\ fresh_ids ot_all /\
            length (live_after ot_all) = 3%nat /\ (forall it, In it (live_after ot_all) -> idue it <= clock s).
Proof.
  eexists. split.
  { unfold ot_all, ot_park. cbn [app].
    repeat (eapply trun_cons; [vm_compute; reflexivity | | ]);
      try (intros d Hd; first [discriminate Hd | inversion Hd; subst; rest_tac]).
    apply trun_nil. }
  split; [rest_tac|]. split; [reflexivity|]. split.
  { unfold fresh_ids. cbn. repeat constructor; cbn; intuition discriminate. }
  split; [reflexivity|]. cbn. intros it [<-|[<-|[<-|[]]]]; cbn; lia.
Qed.
