(* C06 — facts about the correspondence search of Check.v itself:
   - [settle_m] never gives up for lack of fuel, returns exactly the rest points (no internal
     successor), and every state it returns is reached from its argument by internal events of
     the model (so the search is a sound and terminating exploration of Model.step);
   - every simulation state that [sim_hist] carries is a REACHABLE state of the model, and its
     [lv] component is [Spec.live_after] of the client calls of that run: all theorems of
     Properties/C06.v about reachable states apply to the states the model side of the check
     goes through, and the [covered] filter of Check.matches can never discard one. *)
From Kit Require Import C06.Model C06.Spec C06.Check C06.ProofsQueue C06.ProofsInv C06.Proofs
  C06.ProofsProgress C06.ProofsOnTime C06.ProofsLive.
Open Scope Z_scope.

Lemma in_map_opt {A B} (f : A -> B) (o : option A) x :
  In x (map f (opt_list o)) -> exists a, o = Some a /\ x = f a.
Proof. destruct o as [a|]; cbn; [intros [<-|[]]; exists a; auto | intros []]. Qed.

(* ---- one step of the search is one internal event of the model -------------------------- *)

Lemma succs_step m m' :
  In m' (succs m) ->
  exists e, internal e = true /\ step Fixed (st m) e = Some (st m') /\ lv m' = lv m.
Proof.
  unfold succs. intros H.
  destruct (step Fixed (st m) EvCloseStop) eqn:E1; [destruct H as [<-|[]]; exists EvCloseStop; auto|].
  destruct (step Fixed (st m) EvCloseToken) eqn:E2; [destruct H as [<-|[]]; exists EvCloseToken; auto|].
  destruct (step Fixed (st m) EvCloseRet) eqn:E3; [destruct H as [<-|[]]; exists EvCloseRet; auto|].
  destruct (step Fixed (st m) EvClose2Ret) eqn:E4; [destruct H as [<-|[]]; exists EvClose2Ret; auto|].
  destruct (step Fixed (st m) EvDone) eqn:E5; [destruct H as [<-|[]]; exists EvDone; auto|].
  destruct (held m); [contradiction|]. destruct (lock_wait m); [contradiction|].
  set (m0 := if at_seam m then mkSim (st m) (g_now m) (g_timer m) (g_cb m) false (seen m) (pend m) (lv m) else m) in H.
  assert (Hl : lv m0 = lv m) by (subst m0; destruct (at_seam m); reflexivity).
  assert (Hgen : forall cs,
            In m' (flat_map (fun c => map (with_st m0) (opt_list (step Fixed (st m) (EvLoop c 0)))) cs) ->
            exists e, internal e = true /\ step Fixed (st m) e = Some (st m') /\ lv m' = lv m).
  { intros cs Hin. apply in_flat_map in Hin as [c [_ Hin]]. apply in_map_opt in Hin as [s' [Es ->]].
    exists (EvLoop c 0). auto. }
  destruct (loop (st m)); try (apply Hgen in H; exact H).
  - apply in_flat_map in H as [p [_ H]]. apply in_map_opt in H as [s' [Es ->]].
    exists (EvLoop ChStep p). auto.
  - apply in_map_opt in H as [s' [Es ->]]. exists EvCbRet. auto.
Qed.

Lemma succs_measure m m' : In m' (succs m) -> (measure (st m') < measure (st m))%nat.
Proof.
  intros H. destruct (succs_step _ _ H) as [e [Hi [Hs _]]]. eapply measure_decreases; eassumption.
Qed.

(* ---- settle: enough fuel, rest points only, sound w.r.t. Model.run ------------------------ *)

Lemma settle_enough : forall fuel m, (measure (st m) < fuel)%nat -> settle fuel m <> [].
Proof.
  induction fuel as [|f IH]; intros m Hlt; [lia|]. cbn [settle].
  destruct (succs m) as [|x l] eqn:E; [discriminate|].
  cbn [flat_map]. intros Hnil. apply app_eq_nil in Hnil as [Hnil _].
  apply (IH x); [|exact Hnil].
  assert (Hx : In x (succs m)) by (rewrite E; left; reflexivity).
  pose proof (succs_measure _ _ Hx). lia.
Qed.

Lemma settle_rest : forall fuel m m', In m' (settle fuel m) -> succs m' = [].
Proof.
  induction fuel as [|f IH]; intros m m' H; [contradiction|]. cbn [settle] in H.
  destruct (succs m) as [|x l] eqn:E.
  - destruct H as [<-|[]]. exact E.
  - apply in_flat_map in H as [y [_ H]]. eapply IH; exact H.
Qed.

Lemma settle_sound : forall fuel m m', In m' (settle fuel m) ->
  lv m' = lv m /\
  exists evs, Forall (fun e => internal e = true) evs /\ run Fixed (st m) evs = Some (st m').
Proof.
  induction fuel as [|f IH]; intros m m' H; [contradiction|]. cbn [settle] in H.
  destruct (succs m) as [|x l] eqn:E.
  - destruct H as [<-|[]]. split; [reflexivity|]. exists []. split; [constructor | reflexivity].
  - apply in_flat_map in H as [y [Hy H]]. rewrite <- E in Hy.
    destruct (succs_step _ _ Hy) as [e [Hi [Hs Hl]]].
    destruct (IH y m' H) as [Hl' [evs [Hf Hrun]]].
    split; [congruence|]. exists (e :: evs). split; [constructor; assumption|].
    cbn [run]. rewrite Hs. exact Hrun.
Qed.

(* the three facts for the search as Check.v uses it *)
Lemma settle_m_spec m :
  settle_m m <> [] /\
  forall m', In m' (settle_m m) ->
    succs m' = [] /\ lv m' = lv m /\
    exists evs, Forall (fun e => internal e = true) evs /\ run Fixed (st m) evs = Some (st m').
Proof.
  unfold settle_m. split; [apply settle_enough; lia|].
  intros m' H. split; [eapply settle_rest; exact H | eapply settle_sound; exact H].
Qed.

(* ---- every state the check carries is a reachable state of the model ---------------------- *)

Definition sreach (c0 : Z) (m : sim) : Prop :=
  exists evs, run Fixed (init_at c0) evs = Some (st m) /\ lv m = live_after evs.

Lemma sreach_step c0 m e s' l :
  sreach c0 m -> step Fixed (st m) e = Some s' -> l = live_step (lv m) e ->
  forall m', st m' = s' -> lv m' = l -> sreach c0 m'.
Proof.
  intros [evs [Hrun Hl]] Hs -> m' Hst Hlv. exists (evs ++ [e]). split.
  - rewrite run_app, Hrun. cbn [run]. rewrite Hs, Hst. reflexivity.
  - rewrite live_after_snoc, Hlv, Hl. reflexivity.
Qed.

Lemma sreach_same c0 m m' : sreach c0 m -> st m' = st m -> lv m' = lv m -> sreach c0 m'.
Proof. intros [evs [Hrun Hl]] Hst Hlv. exists evs. rewrite Hst, Hlv. auto. Qed.

Lemma live_step_internal l e : internal e = true -> live_step l e = l.
Proof. destruct e; cbn; intros H; try discriminate H; reflexivity. Qed.

Lemma sreach_succs c0 m m' : sreach c0 m -> In m' (succs m) -> sreach c0 m'.
Proof.
  intros Hr H. destruct (succs_step _ _ H) as [e [Hi [Hs Hl]]].
  eapply (sreach_step c0 m e (st m') (lv m)); [exact Hr | exact Hs | | reflexivity | exact Hl].
  symmetry. apply live_step_internal; exact Hi.
Qed.

Lemma sreach_settle c0 : forall fuel m m', sreach c0 m -> In m' (settle fuel m) -> sreach c0 m'.
Proof.
  induction fuel as [|f IH]; intros m m' Hr H; [contradiction|]. cbn [settle] in H.
  destruct (succs m) as [|x l] eqn:E.
  - destruct H as [<-|[]]. exact Hr.
  - apply in_flat_map in H as [y [Hy H]]. rewrite <- E in Hy.
    eapply IH; [eapply sreach_succs; eassumption | exact H].
Qed.

(* the client call *)
Lemma sreach_apply c0 o m m' : sreach c0 m -> In m' (apply_op_lv o m) -> sreach c0 m'.
Proof.
  intros Hr H. unfold apply_op_lv in H. apply in_map_iff in H as [m1 [<- H]].
  unfold apply_op in H. unfold new_lv.
  destruct o as [it|it|it|k|t| |a b c|].
  - (* OEnq *)
    destruct (pend m) eqn:Ep; [contradiction|]. cbn [orb].
    destruct (stopped (st m)) eqn:Est.
    + destruct H as [<-|[]]. eapply sreach_same; [exact Hr | reflexivity | reflexivity].
    + assert (Hgen : forall p, sreach c0 (set_lv (live_step (lv m) (EvEnq it 0)) (with_st m (do_enqueue it p (st m))))).
      { intros p. eapply (sreach_step c0 m (EvEnq it p)); [exact Hr | reflexivity | reflexivity | reflexivity | reflexivity]. }
      destruct (head_has_key (ikey it) (q (st m))).
      * apply in_map_iff in H as [p [<- _]]. apply Hgen.
      * destruct H as [<-|[]]. apply Hgen.
  - (* OEnqHeld *)
    destruct (stopped (st m)).
    + destruct H as [<-|[]]. eapply sreach_same; [exact Hr | reflexivity | reflexivity].
    + destruct (pend m); [contradiction|]. destruct H as [<-|[]].
      eapply sreach_same; [exact Hr | reflexivity | reflexivity].
  - (* OEnqGo *)
    destruct (pend m) as [it'|] eqn:Ep.
    + assert (Hgen : forall p, sreach c0 (set_lv (live_step (lv m) (EvEnq it' 0))
                 (with_st (mkSim (st m) (g_now m) (g_timer m) (g_cb m) (rel m) (seen m) None (lv m)) (do_enqueue it' p (st m))))).
      { intros p. eapply (sreach_step c0 m (EvEnq it' p)); [exact Hr | reflexivity | reflexivity | reflexivity | reflexivity]. }
      destruct (head_has_key (ikey it') (q (st m))).
      * apply in_map_iff in H as [p [<- _]]. apply Hgen.
      * destruct H as [<-|[]]. apply Hgen.
    + destruct H as [<-|[]]. eapply sreach_same; [exact Hr | reflexivity | reflexivity].
  - (* ODeq *)
    destruct (pend m) eqn:Ep; [contradiction|]. cbn [orb].
    destruct (stopped (st m)) eqn:Est.
    + destruct H as [<-|[]]. eapply sreach_same; [exact Hr | reflexivity | reflexivity].
    + assert (Hgen : forall p, sreach c0 (set_lv (live_step (lv m) (EvDeq k 0)) (with_st m (do_dequeue k p (st m))))).
      { intros p. eapply (sreach_step c0 m (EvDeq k p)); [exact Hr | reflexivity | reflexivity | reflexivity | reflexivity]. }
      destruct (head_has_key k (q (st m))).
      * apply in_map_iff in H as [p [<- _]]. apply Hgen.
      * destruct H as [<-|[]]. apply Hgen.
  - (* OAdv: the clock is set to max(clock, t) = an advance by the difference *)
    destruct H as [<-|[]].
    eapply (sreach_step c0 m (EvAdvance (Z.max (clock (st m)) t - clock (st m)))); [exact Hr | | reflexivity | reflexivity | reflexivity].
    cbn [step]. destruct (Z.max (clock (st m)) t - clock (st m) <? 0) eqn:E; [apply Z.ltb_lt in E; lia|].
    cbn [set_lv with_st st]. do 2 f_equal. lia.
  - (* OClose *)
    destruct (step Fixed (st m) EvCloseCAS) as [s'|] eqn:E1.
    + destruct H as [<-|[]]. eapply (sreach_step c0 m EvCloseCAS); [exact Hr | exact E1 | reflexivity | reflexivity | reflexivity].
    + destruct (step Fixed (st m) EvClose2) as [s'|] eqn:E2; destruct H as [<-|[]].
      * eapply (sreach_step c0 m EvClose2); [exact Hr | exact E2 | reflexivity | reflexivity | reflexivity].
      * eapply sreach_same; [exact Hr | reflexivity | reflexivity].
  - destruct H as [<-|[]]. eapply sreach_same; [exact Hr | reflexivity | reflexivity].
  - destruct H as [<-|[]]. destruct (held m); (eapply sreach_same; [exact Hr | reflexivity | reflexivity]).
Qed.

Lemma sreach_race c0 o : forall fuel m m', sreach c0 m -> In m' (race fuel o m) -> sreach c0 m'.
Proof.
  induction fuel as [|f IH]; intros m m' Hr H; [contradiction|]. cbn [race] in H.
  apply in_app_or in H as [H|H].
  - apply in_flat_map in H as [y [Hy H]]. eapply sreach_settle; [eapply sreach_apply; eassumption | exact H].
  - apply in_flat_map in H as [y [Hy H]]. eapply IH; [eapply sreach_succs; eassumption | exact H].
Qed.

Lemma sreach_do_step c0 x m m' : sreach c0 m -> In m' (do_step x m) -> sreach c0 m'.
Proof.
  intros Hr H. destruct x as [o|t o]; cbn [do_step] in H.
  - apply in_flat_map in H as [y [Hy H]]. eapply sreach_settle; [eapply sreach_apply; eassumption | exact H].
  - eapply sreach_race; [|exact H].
    eapply (sreach_step c0 m (EvAdvance (Z.max (clock (st m)) t - clock (st m)))); [exact Hr | | reflexivity | reflexivity | reflexivity].
    cbn [step]. destruct (Z.max (clock (st m)) t - clock (st m) <? 0) eqn:E; [apply Z.ltb_lt in E; lia|].
    cbn [with_st st]. do 2 f_equal. lia.
Qed.

Lemma dedupe_In l : forall x, In x (dedupe l) -> In x l.
Proof.
  induction l as [|a l IH]; intros x H; [exact H|]. cbn [dedupe] in H.
  destruct (existsb (sim_eqb a) (dedupe l)); [right; apply IH; exact H|].
  destruct H as [<-|H]; [left; reflexivity | right; apply IH; exact H].
Qed.

Lemma sim_hist_reach c0 : forall h ms,
  Forall (sreach c0) ms -> Forall (sreach c0) (sim_hist h ms).
Proof.
  induction h as [|[x o] h IH]; intros ms Hms; cbn [sim_hist]; [exact Hms|].
  set (ms' := dedupe (map mark_seen (filter (matches o) (flat_map (do_step x) ms)))).
  assert (Hms' : Forall (sreach c0) ms').
  { apply Forall_forall. intros m' Hin. subst ms'. apply dedupe_In in Hin.
    apply in_map_iff in Hin as [m1 [<- Hin]]. apply filter_In in Hin as [Hin _].
    apply in_flat_map in Hin as [m0 [Hm0 Hin]]. rewrite Forall_forall in Hms.
    eapply sreach_same; [eapply sreach_do_step; [apply Hms; exact Hm0 | exact Hin] | reflexivity | reflexivity]. }
  destruct ms'; [constructor | apply IH; exact Hms'].
Qed.

Lemma sim0_reach c0 : sreach c0 (sim0 c0).
Proof. exists []. split; reflexivity. Qed.

(* every state the check ends with (and, the same way, goes through) is reachable *)
Lemma check_states_reachable c0 h : Forall (sreach c0) (sim_hist h [sim0 c0]).
Proof. apply sim_hist_reach. constructor; [apply sim0_reach | constructor]. Qed.

(* ... and so the [covered] test holds of it: it is no_live_item_lost evaluated on that state *)
Lemma covered_of_reachable c0 m : sreach c0 m -> covered m = true.
Proof.
  intros [evs [Hrun Hl]]. unfold covered. apply forallb_forall. intros it Hit. rewrite Hl in Hit.
  destruct (no_live_item_lost Fixed c0 evs (st m) Hrun it Hit) as [Hq|Hx]; apply orb_true_iff.
  - left. apply existsb_exists. exists it. split; [exact Hq | apply item_eqb_refl].
  - right. apply in_map_iff in Hx as [p [E Hp]]. apply existsb_exists. exists p. split; [exact Hp|].
    rewrite E. apply item_eqb_refl.
Qed.

Lemma check_states_reachable_covered c0 h :
  Forall (fun m => (exists evs, run Fixed (init_at c0) evs = Some (st m) /\ lv m = live_after evs) /\
                   covered m = true)
         (sim_hist h [sim0 c0]).
Proof.
  eapply Forall_impl; [|apply check_states_reachable].
  intros m H. split; [exact H | eapply covered_of_reachable; exact H].
Qed.

(* non-vacuity: a script with an execution, a replacement and a Close; the check ends with a
   non-empty set of states (to which the lemma above applies), each with one live instance *)
Example check_states_example :
  map (fun m => (length (lv m), length (executed (st m)), covered m))
      (sim_hist [ (SOp (OEnq (mkItem 1 1000000 7)), mkObs [] 3 1000000 0);
                  (SOp (OEnq (mkItem 1 2000000 8)), mkObs [] 3 2000000 0);
                  (SOp (OAdv 2000000), mkObs [(8, 2000000)] 0 0 0);
                  (SOp OClose, mkObs [] 0 0 1) ] [sim0 0])
  = [(1%nat, 1%nat, true)].
Proof. vm_compute. reflexivity. Qed.

Example settle_m_example : settle_m (sim0 0) = [sim0 0].
Proof. vm_compute. reflexivity. Qed.
