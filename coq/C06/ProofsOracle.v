(* C06 — the boolean oracle of Spec.v decides the specification predicate:
   oracle c0 h = true <-> spec c0 h, clause by clause. *)
From Kit Require Import C06.Model C06.Spec.
Open Scope Z_scope.

(* ---- generic reflection helpers ---------------------------------------------------------- *)

Lemma implb_iff a b : implb a b = true <-> (a = true -> b = true).
Proof. destruct a, b; cbn; intuition discriminate. Qed.

Lemma forallb_iff {A} (f : A -> bool) (P : A -> Prop) l :
  (forall x, In x l -> (f x = true <-> P x)) ->
  (forallb f l = true <-> forall x, In x l -> P x).
Proof.
  intros H. rewrite forallb_forall. split; intros H' x Hx; apply (H x Hx), H'; exact Hx.
Qed.

Lemma existsb_iff {A} (f : A -> bool) (P : A -> Prop) l :
  (forall x, In x l -> (f x = true <-> P x)) ->
  (existsb f l = true <-> exists x, In x l /\ P x).
Proof.
  intros H. rewrite existsb_exists. split; intros [x [Hx Hp]]; exists x; (split; [exact Hx|]);
    apply (H x Hx); exact Hp.
Qed.

Lemma nodupb_spec l : nodupb l = true <-> NoDup l.
Proof.
  induction l as [|x l IH]; cbn [nodupb].
  - split; [constructor | reflexivity].
  - rewrite andb_true_iff, negb_true_iff, IH. split.
    + intros [Hn Hd]. constructor; [|exact Hd]. intros Hin.
      assert (existsb (Z.eqb x) l = true) by (apply existsb_exists; exists x; split; [exact Hin | apply Z.eqb_refl]).
      congruence.
    + intros H. inversion H as [|? ? Hn Hd]; subst. split; [|exact Hd].
      destruct (existsb (Z.eqb x) l) eqn:E; [|reflexivity].
      apply existsb_exists in E as [y [Hy Heq]]. apply Z.eqb_eq in Heq. subst y. contradiction.
Qed.

Lemma ord_pairsb_spec {A} (f : A -> A -> bool) (R : A -> A -> Prop) l :
  (forall a b, f a b = true <-> R a b) -> (ord_pairsb f l = true <-> ForallOrdPairs R l).
Proof.
  intros H. induction l as [|a l IH]; cbn [ord_pairsb].
  - split; [constructor | reflexivity].
  - rewrite andb_true_iff, IH, forallb_forall. split.
    + intros [Ha Hl]. constructor; [|exact Hl]. apply Forall_forall. intros b Hb. apply H, Ha; exact Hb.
    + intros Hp. inversion Hp as [|? ? Ha Hl]; subst. split; [|exact Hl].
      intros b Hb. apply H. rewrite Forall_forall in Ha. apply Ha; exact Hb.
Qed.

(* steps with their index *)
Lemma combine_seq_In {A} (l : list A) : forall a j x,
  In (j, x) (combine (seq a (length l)) l) <-> (a <= j)%nat /\ nth_error l (j - a) = Some x.
Proof.
  induction l as [|y l IH]; intros a j x; cbn [length seq combine].
  - split; [intros [] | intros [_ H]; destruct (j - a)%nat; discriminate].
  - cbn [In]. rewrite IH. split.
    + intros [H|[Hle Hn]].
      * inversion H; subst. split; [lia|]. rewrite Nat.sub_diag. reflexivity.
      * split; [lia|]. replace (j - a)%nat with (S (j - S a)) by lia. exact Hn.
    + intros [Hle Hn]. destruct (Nat.eq_dec a j) as [->|Hne].
      * left. rewrite Nat.sub_diag in Hn. cbn in Hn. inversion Hn; reflexivity.
      * right. split; [lia|]. replace (j - a)%nat with (S (j - S a)) in Hn by lia. exact Hn.
Qed.

Lemma steps_ix_In h j so : In (j, so) (steps_ix h) <-> nth_error h j = Some so.
Proof.
  unfold steps_ix. rewrite combine_seq_In. rewrite Nat.sub_0_r. split; [intros [_ H]; exact H|].
  intros H; split; [lia | exact H].
Qed.

(* ---- exactly once ------------------------------------------------------------------------ *)

Lemma or_once_sound h : or_once h = true <-> sp_once h.
Proof.
  unfold or_once, sp_once. rewrite andb_true_iff, nodupb_spec, Forall_forall.
  apply and_iff_compat_l. apply forallb_iff. intros e _.
  rewrite Exists_exists. apply existsb_iff. intros ji _.
  rewrite andb_true_iff, Z.eqb_eq, Nat.leb_le. reflexivity.
Qed.

(* ---- not early --------------------------------------------------------------------------- *)

Lemma or_not_early_sound h : or_not_early h = true <-> sp_not_early h.
Proof.
  unfold or_not_early, sp_not_early. rewrite Forall_forall.
  apply forallb_iff. intros e _. rewrite Forall_forall. apply forallb_iff. intros ji _.
  rewrite implb_iff, Z.eqb_eq, Z.leb_le. reflexivity.
Qed.

(* ---- in order ---------------------------------------------------------------------------- *)

Lemma enq_before_execb_spec h jb a : enq_before_execb h jb a = true <-> enq_before_exec h jb a.
Proof.
  unfold enq_before_execb, enq_before_exec.
  rewrite orb_true_iff, andb_true_iff, Nat.ltb_lt, Nat.eqb_eq.
  apply or_iff_compat_l. apply and_iff_compat_l.
  destruct (nth_error h jb) as [[x o]|].
  - rewrite negb_true_iff. split.
    + intros H. exists x, o. split; [reflexivity | exact H].
    + intros [x' [o' [E H]]]. inversion E; subst. exact H.
  - split; [discriminate | intros [x [o [E _]]]; discriminate].
Qed.

Lemma ordered_pairb_spec h a b : ordered_pairb h a b = true <-> ordered_pair h a b.
Proof.
  unfold ordered_pairb, ordered_pair. rewrite forallb_forall. split.
  - intros H ja ia jb ib Ha Hb E1 E2 E3.
    specialize (H (ja, ia) Ha). rewrite forallb_forall in H. specialize (H (jb, ib) Hb).
    cbn [fst snd] in H. rewrite implb_iff in H. apply Z.leb_le. apply H.
    rewrite !andb_true_iff, !Z.eqb_eq. split; [split; assumption|]. apply enq_before_execb_spec; exact E3.
  - intros H [ja ia] Ha. rewrite forallb_forall. intros [jb ib] Hb. cbn [fst snd].
    rewrite implb_iff. rewrite !andb_true_iff, !Z.eqb_eq. intros [[E1 E2] E3].
    apply Z.leb_le. apply (H ja ia jb ib Ha Hb E1 E2). apply enq_before_execb_spec; exact E3.
Qed.

Lemma or_in_order_sound h : or_in_order h = true <-> sp_in_order h.
Proof. unfold or_in_order, sp_in_order. apply ord_pairsb_spec. apply ordered_pairb_spec. Qed.

(* ---- dequeued or replaced before due: never executed ------------------------------------ *)

Lemma or_removed_sound h : or_removed h = true <-> sp_removed h.
Proof.
  unfold or_removed, sp_removed. rewrite forallb_forall. split.
  - intros H j it jr xr e Hin Hrem He Hid.
    specialize (H (j, it) Hin). cbn [fst snd] in H. rewrite Hrem in H.
    rewrite forallb_forall in H. specialize (H e He). rewrite implb_iff in H.
    specialize (H (proj2 (Z.eqb_eq _ _) Hid)).
    apply orb_true_iff in H as [H|H]; [left; apply Nat.ltb_lt; exact H|].
    apply andb_true_iff in H as [H1 H2]. right. split; [apply Nat.eqb_eq; exact H1|].
    destruct xr as [o|t o]; [discriminate|]. exists t, o. split; [reflexivity | apply Z.leb_le; exact H2].
  - intros H [j it] Hin. cbn [fst snd].
    destruct (removal_after h j (ikey it)) as [[jr xr]|] eqn:Hrem; [|reflexivity].
    rewrite forallb_forall. intros e He. rewrite implb_iff. intros Hid. apply Z.eqb_eq in Hid.
    destruct (H j it jr xr e Hin Hrem He Hid) as [Hlt|[Heq [t [o [-> Hle]]]]].
    + apply orb_true_iff. left. apply Nat.ltb_lt; exact Hlt.
    + apply orb_true_iff. right. apply andb_true_iff. split; [apply Nat.eqb_eq; exact Heq | apply Z.leb_le; exact Hle].
Qed.

(* ---- on time / never stranded ------------------------------------------------------------ *)

Lemma removal_gate h ji k j :
  match removal_after h ji k with Some (jr, _) => (j <? jr)%nat | None => true end = true <->
  (forall jr xr, removal_after h ji k = Some (jr, xr) -> (j < jr)%nat).
Proof.
  destruct (removal_after h ji k) as [[jr xr]|].
  - rewrite Nat.ltb_lt. split; [intros H jr' xr' E; inversion E; subst; exact H | intros H; eapply H; reflexivity].
  - split; [intros _ jr xr E; discriminate | reflexivity].
Qed.

Lemma or_on_time_sound c0 h : or_on_time c0 h = true <-> sp_on_time c0 h.
Proof.
  unfold or_on_time, sp_on_time. rewrite implb_iff.
  apply imp_iff_compat_l. rewrite forallb_forall. split.
  - intros H j x o ji it Hn Hfree Hbc Hin Hle Hrem Hdue.
    specialize (H (j, (x, o)) (proj2 (steps_ix_In _ _ _) Hn)). cbn [fst snd] in H.
    rewrite implb_iff in H. rewrite andb_true_iff in H. specialize (H (conj Hfree Hbc)).
    rewrite forallb_forall in H. specialize (H (ji, it) Hin). cbn [fst snd] in H.
    rewrite implb_iff in H. rewrite !andb_true_iff in H.
    assert (Hex : existsb (fun e => (x_id e =? iid it) && (x_step e <=? j)%nat) (execs_of h) = true).
    { apply H. split; [split|].
      - apply Nat.leb_le; exact Hle.
      - apply removal_gate; exact Hrem.
      - apply Z.leb_le; exact Hdue. }
    apply existsb_exists in Hex as [e [He Hc]]. apply andb_true_iff in Hc as [Hc1 Hc2].
    exists e. split; [exact He|]. split; [apply Z.eqb_eq; exact Hc1 | apply Nat.leb_le; exact Hc2].
  - intros H [j [x o]] Hn. apply steps_ix_In in Hn. cbn [fst snd].
    rewrite implb_iff, andb_true_iff. intros [Hfree Hbc].
    rewrite forallb_forall. intros [ji it] Hin. cbn [fst snd].
    rewrite implb_iff, !andb_true_iff. intros [[Hle Hrem] Hdue].
    apply Nat.leb_le in Hle. apply Z.leb_le in Hdue.
    pose proof (proj1 (removal_gate h ji (ikey it) j) Hrem) as Hrem'. clear Hrem. rename Hrem' into Hrem.
    destruct (H j x o ji it Hn Hfree Hbc Hin Hle Hrem Hdue) as [e [He [Hid Hst]]].
    apply existsb_exists. exists e. split; [exact He|]. apply andb_true_iff.
    split; [apply Z.eqb_eq; exact Hid | apply Nat.leb_le; exact Hst].
Qed.

(* ---- Close ------------------------------------------------------------------------------- *)

Lemma or_close_sound h : or_close h = true <-> sp_close h.
Proof.
  unfold or_close, sp_close. rewrite forallb_forall. split.
  - intros H j x o Hn. specialize (H (j, (x, o)) (proj2 (steps_ix_In _ _ _) Hn)).
    cbn [fst snd] in H. apply andb_true_iff in H as [Ha Hb]. rewrite implb_iff in Ha, Hb. split.
    + intros Hcl. apply Z.ltb_lt in Hcl. specialize (Ha Hcl).
      apply andb_true_iff in Ha as [H1 H2]. split; [apply Z.eqb_eq; exact H1|].
      rewrite forallb_forall in H2. intros e He. apply Nat.leb_le. apply H2; exact He.
    + intros Hp. apply Z.eqb_eq. apply Hb. apply Z.eqb_eq; exact Hp.
  - intros H [j [x o]] Hn. apply steps_ix_In in Hn. cbn [fst snd].
    destruct (H j x o Hn) as [Ha Hb]. apply andb_true_iff. split; rewrite implb_iff.
    + intros Hcl. apply Z.ltb_lt in Hcl. destruct (Ha Hcl) as [H1 H2].
      apply andb_true_iff. split; [apply Z.eqb_eq; exact H1|].
      rewrite forallb_forall. intros e He. apply Nat.leb_le. apply H2; exact He.
    + intros Hp. apply Z.eqb_eq in Hp. apply Z.eqb_eq. apply Hb; exact Hp.
Qed.

(* ---- all clauses -------------------------------------------------------------------------- *)

Lemma oracle_sound c0 h : oracle c0 h = true <-> spec c0 h.
Proof.
  unfold oracle, spec. rewrite !andb_true_iff.
  rewrite or_once_sound, or_not_early_sound, or_in_order_sound, or_removed_sound,
    (or_on_time_sound c0 h), or_close_sound. tauto.
Qed.

(* non-vacuity: a history with executions, a removal and a Close that satisfies the spec, and one
   with a stranded item that does not *)
Example spec_holds_example :
  spec 0 [ (SOp (OEnq (mkItem 1 1000000 7)), mkObs [] 3 1000000 0);
           (SOp (OEnq (mkItem 2 3000000 8)), mkObs [] 3 1000000 0);
           (SOp (ODeq 2), mkObs [] 3 1000000 0);
           (SOp (OAdv 1000000), mkObs [(7, 1000000)] 0 0 0);
           (SOp OClose, mkObs [] 0 0 1) ].
Proof. apply oracle_sound. vm_compute. reflexivity. Qed.

Example spec_fails_on_stranded :
  ~ spec 0 [ (SOp (OEnq (mkItem 1 1000000 7)), mkObs [] 0 0 0);
             (SOp (OAdv 2000000), mkObs [] 0 0 0) ].
Proof. intros H. apply oracle_sound in H. vm_compute in H. discriminate H. Qed.
