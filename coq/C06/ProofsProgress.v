(* C06 — progress: the internal events (loop steps, timer delivery, callback return, wg.Done,
   the steps of Close) cannot go on forever, and where they stop the processor is where it
   should be: Close (if called) has returned, and either no loop exists and the queue is empty
   (code after the fix), or the loop is parked on a timer armed for the current head. *)
From Kit Require Import C06.Model C06.Spec C06.ProofsQueue C06.ProofsInv C06.Proofs.
From Coq Require Import Permutation.
Open Scope Z_scope.

(* ---- a measure that every internal event decreases --------------------------------------- *)

Lemma is_head_peek r ql : q_peek ql = Some r -> is_head r ql = true.
Proof. unfold is_head. intros ->. apply item_eqb_refl. Qed.

Lemma measure_decreases v s e s' :
  internal e = true -> step v s e = Some s' -> (measure s' < measure s)%nat.
Proof.
  destruct s as [q0 run0 rst0 stp0 sch0 clk0 lp0 ex0 cl0 exd0 cw0 cr0].
  intros Hi Hs. destruct e; cbn in Hi; try discriminate Hi; cbn in Hs.
  - (* EvCloseStop *) open_step Hs. unfold measure, stale; cbn. lia.
  - (* EvCloseToken *) open_step Hs. unfold measure, stale; cbn. lia.
  - (* EvCloseRet *) open_step Hs. unfold measure, stale; cbn. lia.
  - (* EvClose2Ret *) open_step Hs. unfold measure, stale; cbn. lia.
  - (* EvLoop *)
    unfold loop_step in Hs; cbn in Hs.
    destruct lp0; destruct c; try discriminate Hs.
    + (* LTop *)
      destruct (q_peek q0) as [r|] eqn:Ep.
      * inv_some. unfold measure, stale; cbn. rewrite (is_head_peek _ _ Ep). lia.
      * destruct v; inv_some; unfold measure, stale, release_token; cbn; lia.
    + (* LChecked, step *) break_in Hs; inv_some. unfold measure, stale; cbn. destruct (is_head r q0); lia.
    + (* LChecked, reset *) break_in Hs; inv_some. unfold measure, stale; cbn. destruct (is_head r q0); lia.
    + (* LChecked, stop *) break_in Hs; inv_some. unfold measure, stale; cbn. destruct (is_head r q0), rst0; lia.
    + (* LDeciding *) break_in Hs; inv_some; unfold measure, stale; cbn; destruct (is_head r q0); lia.
    + (* LArming *) inv_some. unfold measure, stale; cbn. destruct (is_head r q0); lia.
    + (* LWaiting, timer *) break_in Hs; inv_some. unfold measure, stale; cbn. destruct (is_head r q0); lia.
    + (* LWaiting, reset *) break_in Hs; inv_some. unfold measure, stale; cbn. destruct (is_head r q0); lia.
    + (* LWaiting, stop *) break_in Hs; inv_some. unfold measure, stale; cbn. destruct (is_head r q0), rst0; lia.
    + (* LExecuting *)
      destruct q0 as [|h rest]; cbn in Hs.
      * inv_some. unfold measure, stale, is_head; cbn. destruct rst0; lia.
      * unfold measure, stale, is_head; cbn [q_peek hd_error q loop]. destruct (item_eqb h r) eqn:E; inv_some; cbn.
        -- pose proof (Permutation_length (choose_head_perm pick rest)) as Hlen. rewrite Hlen.
           destruct rst0; lia.
        -- try rewrite E. destruct rst0; lia.
    + (* LEmptyExit *) inv_some. unfold measure, stale, release_token; cbn. lia.
    + (* LStopExit *) inv_some. unfold measure, stale, release_token; cbn. lia.
  - (* EvCbRet *) open_step Hs. unfold measure, stale; cbn. lia.
  - (* EvDone *) open_step Hs. unfold measure, stale; cbn. destruct lp0; cbn; try lia; destruct (is_head r q0); lia.
Qed.

(* so a run of internal events alone is never longer than the measure of its first state *)
Lemma internal_runs_bounded v : forall evs s s',
  Forall (fun e => internal e = true) evs -> run v s evs = Some s' ->
  (length evs + measure s' <= measure s)%nat.
Proof.
  induction evs as [|e evs IH]; intros s s' Hf Hrun; cbn [run] in Hrun.
  - inversion Hrun; subst. cbn. lia.
  - inversion Hf as [|? ? Hi Hf']; subst.
    destruct (step v s e) as [s1|] eqn:Es; [|discriminate].
    pose proof (measure_decreases v s e s1 Hi Es). specialize (IH s1 s' Hf' Hrun). cbn [length]. lia.
Qed.

(* ---- where the internal events stop ------------------------------------------------------ *)

Definition at_rest (v : variant) (s : state) : Prop :=
  forall e, internal e = true -> step v s e = None.

Lemma rest_shape v t evs s :
  run v (init_at t) evs = Some s -> at_rest v s ->
  (* a Close that was called has returned, no goroutine is on its way out *)
  (close s = CNone \/ close s = CReturned) /\ exiting s = 0%nat /\ cwait s = 0%nat /\
  (* the loop does not exist, or sleeps on a timer armed for the current head *)
  ((loop s = LNone /\ (v = Fixed -> stopch s = false -> q s = [])) \/
   (exists r dl, loop s = LWaiting r dl /\ q_peek (q s) = Some r /\ reset s = false /\
                 stopch s = false /\ clock s < dl /\ idue r <= dl)).
Proof.
  intros Hrun Hrest.
  destruct (ginv_run _ _ _ _ Hrun) as [HS [_ [HT [HR HW]]]].
  pose proof (Hrest (EvLoop ChStep 0) eq_refl) as R1.
  pose proof (Hrest (EvLoop ChTimer 0) eq_refl) as R2.
  pose proof (Hrest (EvLoop ChReset 0) eq_refl) as R3.
  pose proof (Hrest (EvLoop ChStop 0) eq_refl) as R4.
  pose proof (Hrest EvCbRet eq_refl) as R5.
  pose proof (Hrest EvDone eq_refl) as R6.
  pose proof (Hrest EvCloseStop eq_refl) as R7.
  pose proof (Hrest EvCloseToken eq_refl) as R8.
  pose proof (Hrest EvCloseRet eq_refl) as R9.
  pose proof (Hrest EvClose2Ret eq_refl) as R10.
  clear Hrest Hrun.
  destruct s as [q0 run0 rst0 stp0 sch0 clk0 lp0 ex0 cl0 exd0 cw0 cr0].
  unfold sinv, tinv, rinv, winv in *. cbn in *.
  assert (Hex : ex0 = 0%nat) by (destruct ex0; [reflexivity | discriminate R6]).
  subst ex0.
  destruct lp0; cbn in *; try discriminate R1; try discriminate R5.
  - (* LNone *)
    destruct HS as [HA [HB [_ [HD _]]]].
    split; [|split; [reflexivity|split]].
    + destruct cl0; auto; try discriminate R7; try discriminate R9.
      rewrite HA in R8. discriminate R8.
    + destruct cw0; [reflexivity | discriminate R10].
    + left. split; [reflexivity|]. intros -> Hst.
      destruct cl0; try (destruct HB; congruence).
      rewrite HA in HD. destruct HD; congruence.
  - (* LTop *) destruct (q_peek q0); [|destruct v]; discriminate R1.
  - (* LChecked: one of the three cases of the first select is always ready *)
    destruct sch0; [discriminate R4|]. destruct rst0; [discriminate R3|]. discriminate R1.
  - (* LDeciding *) destruct (idue r - clk0 <? threshold); discriminate R1.
  - (* LWaiting *)
    destruct sch0; [discriminate R4|]. destruct rst0; [discriminate R3|].
    destruct (dl <=? clk0) eqn:Edl; [discriminate R2|]. apply Z.leb_gt in Edl.
    destruct HS as [[HA1 HA2] [HB _]].
    assert (Hcl : cl0 = CNone).
    { destruct cl0; auto; try discriminate R7; try contradiction; destruct HB; discriminate. }
    split; [left; exact Hcl|split; [reflexivity|split]].
    + subst cl0. destruct HB as [HB _]. destruct HW as [HW|HW]; [exact HW | congruence].
    + right. exists r, dl. destruct HR as [HR|HR]; [|discriminate]. auto 10.
  - (* LExecuting *) destruct (q_pop 0 q0) as [[h rest]|]; [destruct (item_eqb h r)|]; discriminate R1.
Qed.
