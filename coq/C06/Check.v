(* C06 — executable correspondence interface.

   A case is a test script run by harness/c06 on the real queue.Processor with a virtual clock:
   the client steps (Spec.sstep) and, per step, what was observed once every goroutine of the
   processor had come to rest (Spec.obs).  The model side replays the script on the event
   system of Model.v (current tree = Fixed):

   - API calls: Enqueue/Dequeue are no-ops once [stopped] is set (the unlocked test at their
     top), otherwise the atomic locked body; Close may be called any number of times (each call in
     its own goroutine): the first wins the CompareAndSwap, the others only wait on the wait group;
   - after the client step all internal events run until nothing is enabled ([settle]); the
     test seams hold the loop where the harness's clock holds the real goroutine: at
     [LDeciding] (inside Now()), at [LArming] (inside NewTimer()), at [LCallback];
   - what the model cannot know (which of several equal-time entries the heap makes the root,
     which ready case a select takes, where in a racing step the client call lands) is explored
     exhaustively: a SET of model states is carried and filtered by each observation.
   The case agrees with the model iff the set never becomes empty. *)
From Kit Require Export C06.Model C06.Spec Lib.CheckLib.
Open Scope Z_scope.

(* ------------------------------------------------------------------------------------ *)
(* decidable equality of states (to keep the state set small) *)

Fixpoint items_eqb (a b : list item) : bool :=
  match a, b with
  | [], [] => true
  | x :: a', y :: b' => item_eqb x y && items_eqb a' b'
  | _, _ => false
  end.

Definition lpc_eqb (a b : lpc) : bool :=
  match a, b with
  | LNone, LNone | LTop, LTop | LEmptyExit, LEmptyExit | LStopExit, LStopExit => true
  | LChecked x, LChecked y | LDeciding x, LDeciding y | LExecuting x, LExecuting y
  | LCallback x, LCallback y => item_eqb x y
  | LArming x d, LArming y e | LWaiting x d, LWaiting y e => item_eqb x y && (d =? e)
  | _, _ => false
  end.

Definition cpc_eqb (a b : cpc) : bool :=
  match a, b with
  | CNone, CNone | CStopped, CStopped | CClosed, CClosed | CToken, CToken | CReturned, CReturned => true
  | _, _ => false
  end.

Fixpoint execd_eqb (a b : list (item * Z)) : bool :=
  match a, b with
  | [], [] => true
  | (x, t) :: a', (y, u) :: b' => item_eqb x y && (t =? u) && execd_eqb a' b'
  | _, _ => false
  end.

Definition state_eqb (a b : state) : bool :=
  items_eqb (q a) (q b) && Bool.eqb (running a) (running b) && Bool.eqb (reset a) (reset b) &&
  Bool.eqb (stopped a) (stopped b) && Bool.eqb (stopch a) (stopch b) && (clock a =? clock b) &&
  lpc_eqb (loop a) (loop b) && Nat.eqb (exiting a) (exiting b) && cpc_eqb (close a) (close b) &&
  execd_eqb (executed a) (executed b) && Nat.eqb (cwait a) (cwait b) && Nat.eqb (cret a) (cret b).

(* ------------------------------------------------------------------------------------ *)
(* simulation state: model state + the harness's seams *)

Record sim := mkSim {
  st : state;
  g_now : bool; g_timer : bool; g_cb : bool;   (* which seams are armed *)
  rel : bool;                                  (* the held loop has been released *)
  seen : nat;                                  (* executions already matched with observations *)
  pend : option item;                          (* an Enqueue past its stopped test, held under p.lock *)
  lv : list item                               (* Spec.live_after of the client calls applied so far *)
}.

Definition with_st (m : sim) (s : state) : sim :=
  mkSim s (g_now m) (g_timer m) (g_cb m) (rel m) (seen m) (pend m) (lv m).

Definition sim_eqb (a b : sim) : bool :=
  state_eqb (st a) (st b) && Bool.eqb (g_now a) (g_now b) && Bool.eqb (g_timer a) (g_timer b) &&
  Bool.eqb (g_cb a) (g_cb b) && Bool.eqb (rel a) (rel b) && Nat.eqb (seen a) (seen b) &&
  match pend a, pend b with Some x, Some y => item_eqb x y | None, None => true | _, _ => false end &&
  items_eqb (lv a) (lv b).

Fixpoint dedupe (l : list sim) : list sim :=
  match l with
  | [] => []
  | x :: t => let t' := dedupe t in if existsb (sim_eqb x) t' then t' else x :: t'
  end.

(* is the loop at a seam that is armed? *)
Definition at_seam (m : sim) : bool :=
  match loop (st m) with
  | LDeciding _ => g_now m
  | LArming _ _ => g_timer m
  | LCallback _ => g_cb m
  | _ => false
  end.

Definition held (m : sim) : bool := at_seam m && negb (rel m).

(* the loop's next step takes p.lock (the peek at the top of the loop, the re-check and pop in
   execute) and a held Enqueue has it *)
Definition lock_wait (m : sim) : bool :=
  match pend m, loop (st m) with
  | Some _, LTop | Some _, LExecuting _ => true
  | _, _ => false
  end.

Definition opt_list {A} (o : option A) : list A := match o with Some a => [a] | None => [] end.

(* candidates for a tie among the entries below the root *)
Definition pick_range (s : state) : list nat := seq 0 (Nat.max 1 (length (mins (tl (q s))))).

(* Successors of a sim under the canonical schedule of internal events.  With no client call
   in flight the order between the goroutines does not change where they come to rest, so one
   order is fixed (Close's goroutine, then wg.Done, then the loop); only the genuinely
   observable choices branch: the select case and the tie pick at a pop. *)
Definition succs (m : sim) : list sim :=
  let s := st m in
  match step Fixed s EvCloseStop with Some s' => [with_st m s'] | None =>
  match step Fixed s EvCloseToken with Some s' => [with_st m s'] | None =>
  match step Fixed s EvCloseRet with Some s' => [with_st m s'] | None =>
  match step Fixed s EvClose2Ret with Some s' => [with_st m s'] | None =>
  match step Fixed s EvDone with Some s' => [with_st m s'] | None =>
  if held m then [] else
  if lock_wait m then [] else
  let m' := if at_seam m then mkSim s (g_now m) (g_timer m) (g_cb m) false (seen m) (pend m) (lv m) else m in
  match loop s with
  | LCallback _ => map (with_st m') (opt_list (step Fixed s EvCbRet))
  | LExecuting _ =>
      flat_map (fun p => map (with_st m') (opt_list (step Fixed s (EvLoop ChStep p)))) (pick_range s)
  | _ =>
      flat_map (fun c => map (with_st m') (opt_list (step Fixed s (EvLoop c 0))))
               [ChStep; ChTimer; ChReset; ChStop]
  end
  end end end end end.

(* all resting points reachable by internal events; no result when the fuel runs out *)
Fixpoint settle (fuel : nat) (m : sim) : list sim :=
  match fuel with
  | O => []
  | S f => match succs m with
           | [] => [m]
           | l => flat_map (settle f) l
           end
  end.

(* ... with the fuel that always suffices: every internal event decreases [measure]
   (ProofsCheck.v: settle_m is never empty for lack of fuel and returns exactly rest points) *)
Definition settle_m (m : sim) : list sim := settle (S (measure (st m))) m.

(* the client call itself *)
Definition apply_op (o : op) (m : sim) : list sim :=
  let s := st m in
  match o with
  | OEnq it =>
      if match pend m with Some _ => true | None => false end then [] else
      if stopped s then [m]
      else if head_has_key (ikey it) (q s)
           then map (fun p => with_st m (do_enqueue it p s)) (pick_range s)
           else [with_st m (do_enqueue it 0 s)]
  | OEnqHeld it =>
      (* past the stopped test (else the call has returned already), then held with p.lock;
         one at a time, and no other client call while it is held (they would block) *)
      if stopped s then [m]
      else match pend m with
           | None => [mkSim s (g_now m) (g_timer m) (g_cb m) (rel m) (seen m) (Some it) (lv m)]
           | Some _ => []
           end
  | OEnqGo _ =>
      (* the locked body runs now, whatever happened to the stopped flag meanwhile *)
      match pend m with
      | None => [m]
      | Some it =>
          let m0 := mkSim s (g_now m) (g_timer m) (g_cb m) (rel m) (seen m) None (lv m) in
          if head_has_key (ikey it) (q s)
          then map (fun p => with_st m0 (do_enqueue it p s)) (pick_range s)
          else [with_st m0 (do_enqueue it 0 s)]
      end
  | ODeq k =>
      if match pend m with Some _ => true | None => false end then [] else
      if stopped s then [m]
      else if head_has_key k (q s)
           then map (fun p => with_st m (do_dequeue k p s)) (pick_range s)
           else [with_st m (do_dequeue k 0 s)]
  | OAdv t => [with_st m (set_clock s (Z.max (clock s) t))]
  | OClose =>
      (* the first call wins the CompareAndSwap; every later one goes straight to wg.Wait *)
      match step Fixed s EvCloseCAS with
      | Some s' => [with_st m s']
      | None => match step Fixed s EvClose2 with Some s' => [with_st m s'] | None => [m] end
      end
  | OGates a b c => [mkSim s a b c (rel m) (seen m) (pend m) (lv m)]
  | ORelease => [if held m then mkSim s (g_now m) (g_timer m) (g_cb m) true (seen m) (pend m) (lv m) else m]
  end.

(* the client's own view of which instances are live (Spec.live_step), kept beside the state *)
Definition new_lv (o : op) (m : sim) : list item :=
  let blocked := match pend m with Some _ => true | None => false end in
  match o with
  | OEnq it => if blocked || stopped (st m) then lv m else live_step (lv m) (EvEnq it 0)
  | ODeq k => if blocked || stopped (st m) then lv m else live_step (lv m) (EvDeq k 0)
  | OEnqGo _ => match pend m with Some it => live_step (lv m) (EvEnq it 0) | None => lv m end
  | _ => lv m
  end.

Definition set_lv (l : list item) (m : sim) : sim :=
  mkSim (st m) (g_now m) (g_timer m) (g_cb m) (rel m) (seen m) (pend m) l.

Definition apply_op_lv (o : op) (m : sim) : list sim := map (set_lv (new_lv o m)) (apply_op o m).

(* a racing client call lands after any number of the loop's steps *)
Fixpoint race (fuel : nat) (o : op) (m : sim) : list sim :=
  match fuel with
  | O => []
  | S f => flat_map settle_m (apply_op_lv o m) ++ flat_map (race f o) (succs m)
  end.

Definition do_step (x : sstep) (m : sim) : list sim :=
  match x with
  | SOp o => flat_map settle_m (apply_op_lv o m)
  | SRace t o =>
      let m0 := with_st m (set_clock (st m) (Z.max (clock (st m)) t)) in
      race (S (measure (st m0))) o m0
  end.

(* what the model says the harness sees at a resting point *)
Definition pos_of (s : state) : Z :=
  match loop s with
  | LNone => 0 | LDeciding _ => 1 | LArming _ _ => 2 | LWaiting _ _ => 3 | LCallback _ => 4
  | _ => 9
  end.

Definition dl_of (s : state) : Z := match loop s with LWaiting _ dl => dl | _ => 0 end.

Definition new_execs (m : sim) : list (Z * Z) :=
  let ex := executed (st m) in
  map (fun p : item * Z => (iid (fst p), snd p)) (rev (firstn (length ex - seen m) ex)).

Fixpoint zpairs_eqb (a b : list (Z * Z)) : bool :=
  match a, b with
  | [], [] => true
  | (x, t) :: a', (y, u) :: b' => (x =? y) && (t =? u) && zpairs_eqb a' b'
  | _, _ => false
  end.

(* how many Close calls have returned *)
Definition closed_count (s : state) : Z :=
  (match close s with CReturned => 1 | _ => 0 end) + Z.of_nat (cret s).

Definition pos_sim (m : sim) : Z := if lock_wait m then 5 else pos_of (st m).

(* no live instance is lost: each is in the queue or in the log (Proofs: no_live_item_lost) *)
Definition covered (m : sim) : bool :=
  forallb (fun it => existsb (item_eqb it) (q (st m)) ||
                     existsb (fun p : item * Z => item_eqb it (fst p)) (executed (st m))) (lv m).

Definition matches (o : obs) (m : sim) : bool :=
  covered m && zpairs_eqb (new_execs m) (o_execs o) && (pos_sim m =? o_pos o) && (dl_of (st m) =? o_dl o) &&
  (closed_count (st m) =? o_closed o).

Definition mark_seen (m : sim) : sim :=
  mkSim (st m) (g_now m) (g_timer m) (g_cb m) (rel m) (length (executed (st m))) (pend m) (lv m).

Fixpoint sim_hist (h : hist) (ms : list sim) : list sim :=
  match h with
  | [] => ms
  | (x, o) :: t =>
      let ms' := dedupe (map mark_seen (filter (matches o) (flat_map (do_step x) ms))) in
      match ms' with [] => [] | _ => sim_hist t ms' end
  end.

Definition sim0 (c0 : Z) : sim := mkSim (init_at c0) false false false false 0 None [].

Definition model_agrees (c0 : Z) (h : hist) : bool :=
  match sim_hist h [sim0 c0] with
  | [] => false
  | _ => true
  end.

(* A case: the clock's initial value and the observed history. *)
Inductive case := CScript (c0 : Z) (h : hist).

(* 0 = agree and oracle holds; 1 = model and implementation differ; 2 = the implementation's
   observed behaviour violates the spec. *)
Definition check_case (c : case) : Z :=
  match c with
  | CScript c0 h =>
      if negb (oracle c0 h) then 2 else if negb (model_agrees c0 h) then 1 else 0
  end.

Definition run_cases (cs : list (Z * case)) : list (Z * Z) := failures check_case cs.

(* smoke test: one item, parked on its timer, then due *)
Example check_smoke :
  check_case (CScript 0
    [ (SOp (OEnq (mkItem 1 1000000 7)), mkObs [] 3 1000000 0);
      (SOp (OAdv 999999), mkObs [] 3 1000000 0);
      (SOp (OAdv 1000000), mkObs [(7, 1000000)] 0 0 0);
      (SOp OClose, mkObs [] 0 0 1) ]) = 0.
Proof. vm_compute. reflexivity. Qed.

(* two Close calls while the callback is held: neither may return before the callback does
   (the second observation is what a Close that does not wait would produce: verdict 2) *)
Example check_two_closes :
  check_case (CScript 0
    [ (SOp (OGates false false true), mkObs [] 0 0 0);
      (SOp (OEnq (mkItem 1 0 7)), mkObs [(7, 0)] 4 0 0);
      (SOp OClose, mkObs [] 4 0 0);
      (SOp OClose, mkObs [] 4 0 0);
      (SOp ORelease, mkObs [] 0 0 2) ]) = 0 /\
  check_case (CScript 0
    [ (SOp (OGates false false true), mkObs [] 0 0 0);
      (SOp (OEnq (mkItem 1 0 7)), mkObs [(7, 0)] 4 0 0);
      (SOp OClose, mkObs [] 4 0 0);
      (SOp OClose, mkObs [] 4 0 1) ]) = 2.
Proof. vm_compute. split; reflexivity. Qed.

(* an Enqueue admitted before Close and completed after Close returned: the item stays queued for
   ever (first history); a callback after Close returned is an oracle failure (second) *)
Example check_inflight_enqueue :
  check_case (CScript 0
    [ (SOp (OEnqHeld (mkItem 1 0 7)), mkObs [] 0 0 0);
      (SOp OClose, mkObs [] 0 0 1);
      (SOp (OEnqGo (mkItem 1 0 7)), mkObs [] 0 0 1);
      (SOp (OAdv 5000000), mkObs [] 0 0 1) ]) = 0 /\
  check_case (CScript 0
    [ (SOp (OEnqHeld (mkItem 1 0 7)), mkObs [] 0 0 0);
      (SOp OClose, mkObs [] 0 0 1);
      (SOp (OEnqGo (mkItem 1 0 7)), mkObs [(7, 0)] 0 0 1) ]) = 2.
Proof. vm_compute. split; reflexivity. Qed.

(* ... while the loop waits for the lock the held Enqueue has (pos 5), and runs the item after *)
Example check_inflight_lock_wait :
  check_case (CScript 0
    [ (SOp (OEnq (mkItem 1 1000000 7)), mkObs [] 3 1000000 0);
      (SOp (OEnqHeld (mkItem 2 2000000 8)), mkObs [] 3 1000000 0);
      (SOp (OAdv 1000000), mkObs [] 5 0 0);
      (SOp (OEnqGo (mkItem 2 2000000 8)), mkObs [(7, 1000000)] 3 2000000 0) ]) = 0.
Proof. vm_compute. reflexivity. Qed.

(* ... and a stranded item is an oracle failure (verdict 2) *)
Example check_stranded :
  check_case (CScript 0
    [ (SOp (OEnq (mkItem 1 1000000 7)), mkObs [] 0 0 0);
      (SOp (OAdv 2000000), mkObs [] 0 0 0) ]) = 2.
Proof. vm_compute. reflexivity. Qed.
