(* C06 — facts about the abstract queue of Model.v (root first, rest a bag):
   every operation is a permutation of the obvious bag operation, keeps keys unique and keeps a
   minimum-time entry at the root, whatever tie [pick] the heap makes. *)
From Kit Require Import C06.Model.
From Coq Require Import Permutation.
Open Scope Z_scope.

Lemma item_eqb_eq a b : item_eqb a b = true <-> a = b.
Proof.
  destruct a as [k1 d1 i1], b as [k2 d2 i2]; unfold item_eqb; cbn [ikey idue iid].
  rewrite !andb_true_iff, !Z.eqb_eq. split.
  - intros [[H1 H2] H3]; subst; reflexivity.
  - intros H; inversion H; auto.
Qed.

Lemma item_eqb_refl a : item_eqb a a = true.
Proof. apply item_eqb_eq; reflexivity. Qed.

Lemma item_eqb_neq a b : item_eqb a b = false <-> a <> b.
Proof.
  split.
  - intros H E. apply item_eqb_eq in E. congruence.
  - intros H. destruct (item_eqb a b) eqn:E; [apply item_eqb_eq in E; contradiction | reflexivity].
Qed.

(* ---- is_min / mins ------------------------------------------------------------------ *)

Lemma is_min_spec x l : is_min x l = true <-> forall y, In y l -> idue x <= idue y.
Proof.
  unfold is_min. rewrite forallb_forall. split; intros H y Hy; specialize (H y Hy).
  - apply Z.leb_le; exact H.
  - apply Z.leb_le; exact H.
Qed.

Lemma is_min_false x l : is_min x l = false -> exists y, In y l /\ idue y < idue x.
Proof.
  unfold is_min. induction l as [|a l IH]; cbn [forallb]; [discriminate|].
  intros H. apply andb_false_iff in H as [H|H].
  - exists a. split; [left; reflexivity | apply Z.leb_gt; exact H].
  - destruct (IH H) as [y [Hy Hlt]]. exists y. split; [right; exact Hy | exact Hlt].
Qed.

Lemma exists_min l : l <> [] -> exists m, In m l /\ is_min m l = true.
Proof.
  induction l as [|a l IH]; [congruence|]. intros _.
  destruct l as [|b l'].
  - exists a. split; [left; reflexivity|]. apply is_min_spec. intros y [<-|[]]. lia.
  - destruct IH as [m [Hm Hmin]]; [discriminate|].
    pose proof (proj1 (is_min_spec _ _) Hmin) as Hm'.
    destruct (Z_le_gt_dec (idue a) (idue m)) as [Hle|Hgt].
    + exists a. split; [left; reflexivity|]. apply is_min_spec.
      intros y [<-|Hy]; [lia|]. specialize (Hm' y Hy). lia.
    + exists m. split; [right; exact Hm|]. apply is_min_spec.
      intros y [<-|Hy]; [lia|]. apply Hm'; exact Hy.
Qed.

Lemma mins_nonempty l : l <> [] -> mins l <> [].
Proof.
  intros H. destruct (exists_min l H) as [m [Hm Hmin]].
  unfold mins. intros E.
  assert (Hin : In m (filter (fun x => is_min x l) l)) by (apply filter_In; split; assumption).
  rewrite E in Hin. exact Hin.
Qed.

Lemma mins_In x l : In x (mins l) -> In x l /\ is_min x l = true.
Proof. unfold mins. intros H. apply filter_In in H. exact H. Qed.

(* ---- remove1 / choose_head ---------------------------------------------------------- *)

Lemma remove1_perm h l : In h l -> Permutation (h :: remove1 h l) l.
Proof.
  induction l as [|x l IH]; [intros []|].
  intros Hin. cbn [remove1]. destruct (item_eqb x h) eqn:E.
  - apply item_eqb_eq in E. subst. apply Permutation_refl.
  - destruct Hin as [->|Hin]; [rewrite item_eqb_refl in E; discriminate|].
    eapply perm_trans; [apply perm_swap|]. apply perm_skip. apply IH; exact Hin.
Qed.

Lemma choose_head_cases pick l :
  (l = [] /\ choose_head pick l = []) \/
  (exists h, In h l /\ is_min h l = true /\ choose_head pick l = h :: remove1 h l).
Proof.
  destruct l as [|a l']; [left; split; reflexivity|]. right.
  unfold choose_head.
  destruct (mins (a :: l')) as [|c cs] eqn:E.
  - exfalso. eapply mins_nonempty; [|exact E]. discriminate.
  - set (h := nth (Nat.modulo pick (length (c :: cs))) (c :: cs) c).
    assert (Hin : In h (c :: cs)).
    { apply nth_In. apply Nat.mod_upper_bound. cbn [length]. lia. }
    rewrite <- E in Hin. apply mins_In in Hin as [Hin Hmin].
    exists h. split; [exact Hin|]. split; [exact Hmin|]. reflexivity.
Qed.

Lemma choose_head_perm pick l : Permutation (choose_head pick l) l.
Proof.
  destruct (choose_head_cases pick l) as [[-> ->]|[h [Hin [_ ->]]]].
  - apply perm_nil.
  - apply remove1_perm; exact Hin.
Qed.

Lemma choose_head_min pick l h t :
  choose_head pick l = h :: t -> forall y, In y l -> idue h <= idue y.
Proof.
  intros E. destruct (choose_head_cases pick l) as [[_ E']|[h' [_ [Hmin E']]]].
  - congruence.
  - rewrite E' in E. inversion E; subst. apply is_min_spec; exact Hmin.
Qed.

Lemma choose_head_nil pick l : choose_head pick l = [] -> l = [].
Proof.
  intros E. pose proof (choose_head_perm pick l) as P. rewrite E in P.
  apply Permutation_nil in P. exact P.
Qed.

(* ---- remove_key --------------------------------------------------------------------- *)

Lemma remove_key_In x k l : In x (remove_key k l) <-> In x l /\ ikey x <> k.
Proof.
  unfold remove_key. rewrite filter_In. split; intros [H1 H2]; split; try exact H1.
  - apply negb_true_iff in H2. apply Z.eqb_neq in H2. exact H2.
  - apply negb_true_iff. apply Z.eqb_neq. exact H2.
Qed.

Lemma remove_key_absent k l : ~ In k (map ikey l) -> remove_key k l = l.
Proof.
  induction l as [|x l IH]; [reflexivity|]. cbn [map remove_key filter]. intros H.
  destruct (ikey x =? k) eqn:E.
  - apply Z.eqb_eq in E. exfalso. apply H. left; exact E.
  - cbn [negb]. f_equal. apply IH. intros Hin. apply H. right; exact Hin.
Qed.

Lemma NoDup_map_filter {A B} (f : A -> B) (g : A -> bool) l :
  NoDup (map f l) -> NoDup (map f (filter g l)).
Proof.
  induction l as [|x l IH]; cbn [map filter]; intros H; [constructor|].
  inversion H as [|? ? Hnin Hnd]; subst. destruct (g x); cbn [map].
  - constructor; [|apply IH; exact Hnd].
    intros Hin. apply Hnin. apply in_map_iff in Hin as [y [Hy Hin]].
    apply filter_In in Hin as [Hin _]. apply in_map_iff. exists y. split; assumption.
  - apply IH; exact Hnd.
Qed.

Lemma remove_key_keys k l : NoDup (map ikey l) -> NoDup (map ikey (remove_key k l)).
Proof. apply NoDup_map_filter. Qed.

Lemma remove_key_nokey k l : ~ In k (map ikey (remove_key k l)).
Proof.
  intros H. apply in_map_iff in H as [x [Hk Hin]]. apply remove_key_In in Hin as [_ Hne].
  contradiction.
Qed.

(* ---- the three queue operations as bag operations ------------------------------------ *)

Lemma q_insert_perm pick r ql :
  Permutation (q_insert pick r ql) (r :: remove_key (ikey r) ql).
Proof.
  destruct ql as [|h rest]; [apply Permutation_refl|].
  cbn [q_insert]. destruct (ikey h =? ikey r) eqn:Ek.
  - assert (Hrk : remove_key (ikey r) (h :: rest) = remove_key (ikey r) rest).
    { unfold remove_key. cbn [filter]. rewrite Ek. reflexivity. }
    rewrite Hrk.
    destruct (is_min r (remove_key (ikey r) rest)); [apply Permutation_refl|].
    pose proof (choose_head_perm pick (remove_key (ikey r) rest)) as P.
    destruct (choose_head pick (remove_key (ikey r) rest)) as [|h' t].
    + apply Permutation_nil in P. rewrite P. apply Permutation_refl.
    + eapply perm_trans; [apply perm_swap|]. apply perm_skip. exact P.
  - assert (Hrk : remove_key (ikey r) (h :: rest) = h :: remove_key (ikey r) rest).
    { unfold remove_key. cbn [filter]. rewrite Ek. reflexivity. }
    rewrite Hrk.
    destruct (idue r <? idue h); [apply Permutation_refl | apply perm_swap].
Qed.

Lemma q_remove_perm pick k ql :
  NoDup (map ikey ql) -> Permutation (q_remove pick k ql) (remove_key k ql).
Proof.
  destruct ql as [|h rest]; intros Hnd; [apply perm_nil|].
  cbn [q_remove]. inversion Hnd as [|? ? Hnin _]; subst.
  destruct (ikey h =? k) eqn:Ek.
  - apply Z.eqb_eq in Ek. subst k.
    assert (Hrk : remove_key (ikey h) (h :: rest) = rest).
    { unfold remove_key at 1. cbn [filter]. rewrite Z.eqb_refl. cbn [negb].
      apply remove_key_absent. exact Hnin. }
    rewrite Hrk. apply choose_head_perm.
  - unfold remove_key at 2. cbn [filter]. rewrite Ek. cbn [negb]. apply Permutation_refl.
Qed.

Lemma q_pop_spec pick ql h rest' :
  q_pop pick ql = Some (h, rest') -> exists rest, ql = h :: rest /\ Permutation rest' rest.
Proof.
  destruct ql as [|h0 rest]; cbn [q_pop]; [discriminate|].
  intros E; inversion E; subst. exists rest. split; [reflexivity | apply choose_head_perm].
Qed.

(* ---- a minimum-time entry is at the root --------------------------------------------- *)

Definition hmin (ql : list item) : Prop :=
  match ql with [] => True | h :: t => forall y, In y t -> idue h <= idue y end.

Lemma hmin_all h t : hmin (h :: t) -> forall y, In y (h :: t) -> idue h <= idue y.
Proof. intros H y [<-|Hy]; [lia | apply H; exact Hy]. Qed.

Lemma choose_head_hmin pick l : hmin (choose_head pick l).
Proof.
  destruct (choose_head pick l) as [|h t] eqn:E; [exact I|].
  cbn [hmin]. intros y Hy. eapply choose_head_min; [exact E|].
  eapply Permutation_in; [apply choose_head_perm|]. rewrite E. right; exact Hy.
Qed.

Lemma q_insert_hmin pick r ql : hmin ql -> hmin (q_insert pick r ql).
Proof.
  destruct ql as [|h rest]; intros Hm; [cbn; intros y []|].
  cbn [q_insert]. cbn [hmin] in Hm.
  assert (Hsub : forall y, In y (remove_key (ikey r) rest) -> In y rest).
  { intros y Hy. apply remove_key_In in Hy as [Hy _]. exact Hy. }
  destruct (ikey h =? ikey r).
  - destruct (is_min r (remove_key (ikey r) rest)) eqn:Emin.
    + cbn [hmin]. apply is_min_spec. exact Emin.
    + destruct (choose_head pick (remove_key (ikey r) rest)) as [|h' t] eqn:Ech; [cbn; intros y []|].
      cbn [hmin]. intros y Hy.
      pose proof (choose_head_min _ _ _ _ Ech) as Hmin'.
      destruct Hy as [<-|Hy].
      * apply is_min_false in Emin as [z [Hz Hlt]]. specialize (Hmin' z Hz). lia.
      * apply Hmin'. eapply Permutation_in; [apply choose_head_perm|]. rewrite Ech. right; exact Hy.
  - destruct (idue r <? idue h) eqn:Elt.
    + apply Z.ltb_lt in Elt. cbn [hmin]. intros y [<-|Hy]; [lia|].
      specialize (Hm y (Hsub y Hy)). lia.
    + apply Z.ltb_ge in Elt. cbn [hmin]. intros y [<-|Hy]; [lia|]. apply Hm. apply Hsub; exact Hy.
Qed.

Lemma q_remove_hmin pick k ql : hmin ql -> hmin (q_remove pick k ql).
Proof.
  destruct ql as [|h rest]; intros Hm; [exact I|].
  cbn [q_remove]. destruct (ikey h =? k); [apply choose_head_hmin|].
  cbn [hmin] in *. intros y Hy. apply remove_key_In in Hy as [Hy _]. apply Hm; exact Hy.
Qed.

(* ---- unique keys --------------------------------------------------------------------- *)

Lemma perm_keys (a b : list item) : Permutation a b -> NoDup (map ikey b) -> NoDup (map ikey a).
Proof.
  intros P H. eapply Permutation_NoDup; [|exact H]. apply Permutation_map. apply Permutation_sym. exact P.
Qed.

Lemma q_insert_keys pick r ql : NoDup (map ikey ql) -> NoDup (map ikey (q_insert pick r ql)).
Proof.
  intros H. eapply perm_keys; [apply q_insert_perm|]. cbn [map]. constructor.
  - apply remove_key_nokey.
  - apply remove_key_keys; exact H.
Qed.

Lemma q_remove_keys pick k ql : NoDup (map ikey ql) -> NoDup (map ikey (q_remove pick k ql)).
Proof.
  intros H. eapply perm_keys; [apply q_remove_perm; exact H|]. apply remove_key_keys; exact H.
Qed.

(* membership after the operations *)
Lemma q_insert_In pick r ql x :
  In x (q_insert pick r ql) <-> x = r \/ (In x ql /\ ikey x <> ikey r).
Proof.
  split; intros H.
  - eapply Permutation_in in H; [|apply q_insert_perm]. destruct H as [<-|H]; [left; reflexivity|].
    right. apply remove_key_In; exact H.
  - eapply Permutation_in; [apply Permutation_sym, q_insert_perm|].
    destruct H as [->|H]; [left; reflexivity | right; apply remove_key_In; exact H].
Qed.

Lemma q_remove_In pick k ql x : NoDup (map ikey ql) ->
  In x (q_remove pick k ql) <-> In x ql /\ ikey x <> k.
Proof.
  intros Hnd. rewrite <- remove_key_In. split; intros H.
  - eapply Permutation_in; [apply q_remove_perm; exact Hnd | exact H].
  - eapply Permutation_in; [apply Permutation_sym, q_remove_perm; exact Hnd | exact H].
Qed.

(* the root changes only when the code says so *)
Lemma q_insert_head_unchanged pick r h rest :
  (ikey h =? ikey r) = false -> (idue r <? idue h) = false ->
  q_peek (q_insert pick r (h :: rest)) = Some h.
Proof. intros E1 E2. cbn [q_insert]. rewrite E1, E2. reflexivity. Qed.

Lemma q_remove_head_unchanged pick k h rest :
  (ikey h =? k) = false -> q_peek (q_remove pick k (h :: rest)) = Some h.
Proof. intros E. cbn [q_remove]. rewrite E. reflexivity. Qed.
