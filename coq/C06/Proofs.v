(* C06 — theorems about the Processor event system over ALL schedules (lists of events of any
   length, any interleaving of client calls, loop steps, timer deliveries, clock advances, Close).
   Safety part: exactly once / only live instances / never early / in scheduled-time order /
   a stale wait always has a reset pending / nothing runs once Close holds the token /
   no live item without a loop serving it (code after the fix), and the schedule that strands
   an item in the code before the fix. *)
From Kit Require Import C06.Model C06.Spec C06.ProofsQueue C06.ProofsInv.
From Coq Require Import Permutation.
Open Scope Z_scope.

(* the id of an entry of the execution log *)
Definition xid (p : item * Z) : Z := iid (fst p).

(* ---- small list facts ------------------------------------------------------------------- *)

Lemma NoDup_app_l {A} (a b : list A) : NoDup (a ++ b) -> NoDup a.
Proof.
  induction a as [|x a IH]; cbn [app]; intros H; [constructor|].
  inversion H as [|? ? Hn Hd]; subst. constructor; [|apply IH; exact Hd].
  intros Hin. apply Hn. apply in_or_app. left; exact Hin.
Qed.

Lemma NoDup_app_disj {A} (a b : list A) : NoDup (a ++ b) -> forall x, In x a -> In x b -> False.
Proof.
  induction a as [|y a IH]; cbn [app]; intros H x Ha Hb; [exact Ha|].
  inversion H as [|? ? Hn Hd]; subst. destruct Ha as [->|Ha].
  - apply Hn. apply in_or_app. right; exact Hb.
  - eapply IH; eassumption.
Qed.

Lemma cons_neq_self {A} (x : A) l : l <> x :: l.
Proof. intros H. apply (f_equal (@length A)) in H. cbn in H. lia. Qed.

Lemma live_after_snoc evs e : live_after (evs ++ [e]) = live_step (live_after evs) e.
Proof. unfold live_after. rewrite fold_left_app. reflexivity. Qed.

Lemma enq_ids_snoc evs e : enq_ids (evs ++ [e]) = enq_ids evs ++ enq_ids [e].
Proof. unfold enq_ids. rewrite flat_map_app. reflexivity. Qed.

Lemma fresh_ids_snoc evs e : fresh_ids (evs ++ [e]) -> fresh_ids evs.
Proof. unfold fresh_ids. rewrite enq_ids_snoc. apply NoDup_app_l. Qed.

(* ---- the queue and the log against the client's calls ------------------------------------ *)

Record hinv (evs : list event) (s : state) : Prop := mkHinv {
  h_live : forall it, In it (q s) -> In it (live_after evs);
  h_notrun : forall it, In it (q s) -> ~ In (iid it) (map xid (executed s));
  h_exec_enq : forall p, In p (executed s) -> In (xid p) (enq_ids evs);
  h_nodup : NoDup (map xid (executed s));
  h_live_enq : forall it, In it (live_after evs) -> In (iid it) (enq_ids evs);
  h_qids : NoDup (map iid (q s))
}.

Lemma hinv_step v evs s e s' :
  qinv s -> fresh_ids (evs ++ [e]) -> hinv evs s -> step v s e = Some s' -> hinv (evs ++ [e]) s'.
Proof.
  intros [Hk _] Hf [H1 H2 H3 H4 H5 H6] Hs.
  unfold fresh_ids in Hf. rewrite enq_ids_snoc in Hf.
  destruct (step_q_exec _ _ _ _ Hs) as
    [[Hq [Hx [Hl He]]]|[[r [p [-> [Hq Hx]]]]|[[k [p [-> [Hq Hx]]]]|
     [h [rest [p [-> [Hq0 [Hq [_ [_ Hx]]]]]]]]]]].
  - (* queue and log unchanged, not a client call *)
    constructor; rewrite ?live_after_snoc, ?enq_ids_snoc, ?Hl, ?Hq, ?Hx, ?He, ?app_nil_r; assumption.
  - (* Enqueue r *)
    assert (Hfresh : ~ In (iid r) (enq_ids evs)).
    { intros Hin. eapply NoDup_app_disj; [exact Hf | exact Hin | cbn; left; reflexivity]. }
    constructor; rewrite ?live_after_snoc, ?enq_ids_snoc, ?Hq, ?Hx; cbn [live_step].
    + intros it Hin. apply q_insert_In in Hin as [->|[Hin Hne]]; [left; reflexivity|].
      right. apply remove_key_In. split; [apply H1; exact Hin | exact Hne].
    + intros it Hin. apply q_insert_In in Hin as [->|[Hin Hne]]; [|apply H2; exact Hin].
      intros Hin. apply Hfresh. apply in_map_iff in Hin as [p0 [Hp0 Hin]]. rewrite <- Hp0.
      apply H3; exact Hin.
    + intros p0 Hin. apply in_or_app. left. apply H3; exact Hin.
    + exact H4.
    + intros it [<-|Hin]; apply in_or_app; [right; cbn; left; reflexivity | left].
      apply remove_key_In in Hin as [Hin _]. apply H5; exact Hin.
    + eapply Permutation_NoDup; [apply Permutation_map, Permutation_sym, q_insert_perm|].
      cbn [map]. constructor.
      * intros Hin. apply in_map_iff in Hin as [x [Hx' Hin]].
        apply remove_key_In in Hin as [Hin _]. apply Hfresh. rewrite <- Hx'. apply H5, H1; exact Hin.
      * apply NoDup_map_filter; exact H6.
  - (* Dequeue k *)
    constructor; rewrite ?live_after_snoc, ?enq_ids_snoc, ?Hq, ?Hx; cbn [live_step];
      cbn [enq_ids flat_map]; rewrite ?app_nil_r.
    + intros it Hin. apply (q_remove_In p k _ it Hk) in Hin as [Hin Hne].
      apply remove_key_In. split; [apply H1; exact Hin | exact Hne].
    + intros it Hin. apply (q_remove_In p k _ it Hk) in Hin as [Hin _]. apply H2; exact Hin.
    + exact H3.
    + exact H4.
    + intros it Hin. apply remove_key_In in Hin as [Hin _]. apply H5; exact Hin.
    + eapply Permutation_NoDup; [apply Permutation_map, Permutation_sym, q_remove_perm; exact Hk|].
      apply NoDup_map_filter; exact H6.
  - (* the loop pops h *)
    assert (Hsub : forall it, In it (choose_head p rest) -> In it rest).
    { intros it Hin. eapply Permutation_in; [apply choose_head_perm | exact Hin]. }
    rewrite Hq0 in *. cbn [map] in H6. inversion H6 as [|? ? Hnin Hnd]; subst.
    constructor; rewrite ?live_after_snoc, ?enq_ids_snoc, ?Hq, ?Hx; cbn [live_step];
      cbn [enq_ids flat_map]; rewrite ?app_nil_r.
    + intros it Hin. apply H1. right. apply Hsub; exact Hin.
    + intros it Hin. apply Hsub in Hin. cbn [map xid fst]. intros [Heq|Hin'].
      * apply Hnin. apply in_map_iff. exists it. split; [symmetry; exact Heq | exact Hin].
      * apply (H2 it); [right; exact Hin | exact Hin'].
    + intros p0 [<-|Hin]; [|apply H3; exact Hin]. unfold xid; cbn [fst].
      apply H5, H1. left; reflexivity.
    + cbn [map]. constructor; [|exact H4]. unfold xid at 1; cbn [fst]. apply H2. left; reflexivity.
    + exact H5.
    + eapply Permutation_NoDup; [apply Permutation_map, Permutation_sym, choose_head_perm|]. exact Hnd.
Qed.

Lemma hinv_run v t evs : forall s, fresh_ids evs -> run v (init_at t) evs = Some s -> hinv evs s.
Proof.
  induction evs as [|e evs IH] using rev_ind; intros s Hf Hrun.
  - cbn in Hrun. inversion Hrun; subst. constructor; cbn; try constructor; intros; contradiction.
  - apply run_snoc in Hrun as [s0 [Hrun Hs]].
    eapply hinv_step; [|exact Hf| |exact Hs].
    + apply (ginv_run _ _ _ _ Hrun).
    + apply IH; [eapply fresh_ids_snoc; exact Hf | exact Hrun].
Qed.

(* ---- C06_exactly_once ------------------------------------------------------------------- *)

Lemma exactly_once v t evs s e s' :
  fresh_ids (evs ++ [e]) -> run v (init_at t) evs = Some s -> step v s e = Some s' ->
  NoDup (map xid (executed s')) /\
  (executed s' = executed s \/
   exists it, executed s' = (it, clock s) :: executed s /\
              In it (live_after evs) /\
              ~ In (iid it) (map xid (executed s)) /\
              q_peek (q s) = Some it /\ loop s' = LCallback it).
Proof.
  intros Hf Hrun Hs.
  pose proof (hinv_run v t evs s (fresh_ids_snoc _ _ Hf) Hrun) as Hh.
  assert (Hq : qinv s) by apply (ginv_run _ _ _ _ Hrun).
  pose proof (hinv_step v evs s e s' Hq Hf Hh Hs) as Hh'.
  split; [apply (h_nodup _ _ Hh')|].
  destruct (step_q_exec _ _ _ _ Hs) as
    [[_ [Hx _]]|[[r [p [_ [_ Hx]]]]|[[k [p [_ [_ Hx]]]]|
     [h [rest [p [_ [Hq0 [_ [_ [Hl Hx]]]]]]]]]]]; try (left; exact Hx).
  right. exists h. split; [exact Hx|].
  assert (Hin : In h (q s)) by (rewrite Hq0; left; reflexivity).
  split; [apply (h_live _ _ Hh); exact Hin|].
  split; [apply (h_notrun _ _ Hh); exact Hin|].
  split; [rewrite Hq0; reflexivity | exact Hl].
Qed.

(* what [live_after] means: the instance is live iff the last client call on its key was the
   Enqueue of this very instance *)
Lemma live_after_key evs : NoDup (map ikey (live_after evs)).
Proof.
  induction evs as [|e evs IH] using rev_ind; [constructor|].
  rewrite live_after_snoc. destruct e; cbn [live_step]; try exact IH.
  - cbn [map]. constructor; [apply remove_key_nokey | apply remove_key_keys; exact IH].
  - apply remove_key_keys; exact IH.
Qed.

Lemma live_after_enq evs r p : In r (live_after (evs ++ [EvEnq r p])).
Proof. rewrite live_after_snoc. left; reflexivity. Qed.

Lemma live_after_deq evs k p it : In it (live_after (evs ++ [EvDeq k p])) -> ikey it <> k.
Proof. rewrite live_after_snoc. cbn [live_step]. intros H. apply remove_key_In in H as [_ H]. exact H. Qed.

Lemma live_after_replaced evs r p it :
  In it (live_after (evs ++ [EvEnq r p])) -> ikey it = ikey r -> it = r.
Proof.
  rewrite live_after_snoc. cbn [live_step]. intros [<-|H] Hk; [reflexivity|].
  apply remove_key_In in H as [_ H]. contradiction.
Qed.

(* ---- C06_in_order ----------------------------------------------------------------------- *)

Lemma in_order v t evs s e s' it tm :
  run v (init_at t) evs = Some s -> step v s e = Some s' ->
  executed s' = (it, tm) :: executed s ->
  tm = clock s /\ In it (q s) /\ forall x, In x (q s) -> idue it <= idue x.
Proof.
  intros Hrun Hs Hx.
  assert (Hq : qinv s) by apply (ginv_run _ _ _ _ Hrun). destruct Hq as [_ Hm].
  destruct (step_q_exec _ _ _ _ Hs) as
    [[_ [Hx' _]]|[[r [p [_ [_ Hx']]]]|[[k [p [_ [_ Hx']]]]|
     [h [rest [p [_ [Hq0 [_ [_ [_ Hx']]]]]]]]]]];
    try (rewrite Hx' in Hx; exfalso; eapply cons_neq_self; exact Hx).
  rewrite Hx' in Hx. inversion Hx; subst it tm. rewrite Hq0 in *.
  split; [reflexivity|]. split; [left; reflexivity|]. apply hmin_all; exact Hm.
Qed.

(* ---- C06_not_early ---------------------------------------------------------------------- *)

Definition xinv (s : state) : Prop :=
  Forall (fun p => idue (fst p) - threshold < snd p /\ snd p <= clock s) (executed s).

Lemma xinv_step v s e s' : tinv s -> xinv s -> step v s e = Some s' -> xinv s'.
Proof.
  intros Ht Hx Hs. unfold xinv in *.
  assert (Hclk : clock s <= clock s').
  { destruct s as [q0 run0 rst0 stp0 sch0 clk0 lp0 ex0 cl0 exd0 cw0 cr0]. destruct e; cbn in Hs.
    all: open_step Hs; cbn; zb; lia. }
  assert (Hmono : Forall (fun p => idue (fst p) - threshold < snd p /\ snd p <= clock s') (executed s)).
  { eapply Forall_impl; [|exact Hx]. cbn beta. intros p [Ha Hb]. split; [exact Ha | lia]. }
  destruct (step_q_exec _ _ _ _ Hs) as
    [[_ [Hx' _]]|[[r [p [_ [_ Hx']]]]|[[k [p [_ [_ Hx']]]]|
     [h [rest [p [_ [_ [_ [Hl [_ Hx']]]]]]]]]]]; rewrite Hx'; try exact Hmono.
  constructor; [|exact Hmono]. cbn [fst snd]. unfold tinv in Ht. rewrite Hl in Ht. split; lia.
Qed.

Lemma not_early v t evs s it tm :
  run v (init_at t) evs = Some s -> In (it, tm) (executed s) ->
  idue it - half_ms < tm /\ tm <= clock s.
Proof.
  intros Hrun Hin.
  assert (H : ginv v s /\ xinv s).
  { refine (run_inv v (fun s => ginv v s /\ xinv s) _ evs (init_at t) s _ Hrun).
    - intros s0 e0 s1 [Hg Hx] Hs. split; [eapply ginv_step; eassumption|].
      eapply xinv_step; [apply Hg | exact Hx | exact Hs].
    - split; [apply ginv_init | constructor]. }
  destruct H as [_ Hx]. unfold xinv in Hx. rewrite Forall_forall in Hx.
  apply (Hx (it, tm) Hin).
Qed.

(* ---- C06_stale_wait_has_reset ----------------------------------------------------------- *)

Lemma stale_wait_has_reset v t evs s r :
  run v (init_at t) evs = Some s -> peeked (loop s) = Some r ->
  q_peek (q s) <> Some r -> reset s = true.
Proof.
  intros Hrun Hp Hne.
  assert (Hr : rinv s) by apply (ginv_run _ _ _ _ Hrun).
  unfold rinv in Hr. rewrite Hp in Hr. destruct Hr as [Hr|Hr]; [contradiction | exact Hr].
Qed.

(* the loop parked on a timer: it was armed for the peeked item, and never too early *)
Lemma waiting_deadline v t evs s r dl :
  run v (init_at t) evs = Some s -> loop s = LWaiting r dl -> idue r <= dl.
Proof.
  intros Hrun Hl. assert (Ht : tinv s) by apply (ginv_run _ _ _ _ Hrun).
  unfold tinv in Ht. rewrite Hl in Ht. exact Ht.
Qed.

(* ---- C06_close -------------------------------------------------------------------------- *)

Definition close_holds_token (s : state) : Prop := close s = CToken \/ close s = CReturned.

Lemma close_quiet_step v s e s' :
  sinv v s -> close_holds_token s -> step v s e = Some s' ->
  close_holds_token s' /\ loop s = LNone /\ executed s' = executed s /\
  (close s = CReturned -> close s' = CReturned).
Proof.
  intros HS Hc Hs.
  assert (Hl : loop s = LNone).
  { destruct HS as [HA _]. destruct Hc as [Hc|Hc]; rewrite Hc in HA;
      destruct (loop s); try reflexivity; destruct HA as [_ []]. }
  destruct (close_mono _ _ _ _ Hs) as [Hm1 Hm2].
  split; [destruct Hc as [Hc|Hc]; [apply Hm1; exact Hc | right; apply Hm2; exact Hc]|].
  split; [exact Hl|]. split; [|exact Hm2].
  destruct (step_q_exec _ _ _ _ Hs) as
    [[_ [Hx' _]]|[[r [p [_ [_ Hx']]]]|[[k [p [_ [_ Hx']]]]|
     [h [rest [p [_ [_ [_ [Hl' _]]]]]]]]]]; try exact Hx'.
  rewrite Hl in Hl'. discriminate.
Qed.

Lemma close_final v t evs s evs' s' :
  run v (init_at t) evs = Some s -> close_holds_token s -> run v s evs' = Some s' ->
  loop s' = LNone /\ executed s' = executed s /\ close_holds_token s' /\
  (close s = CReturned -> close s' = CReturned /\ exiting s' = 0%nat).
Proof.
  intros Hrun Hc Hrun'.
  assert (HS : sinv v s) by apply (ginv_run _ _ _ _ Hrun).
  assert (H : sinv v s' /\ close_holds_token s' /\ executed s' = executed s /\
              (close s = CReturned -> close s' = CReturned)).
  { refine (run_inv v (fun s' => sinv v s' /\ close_holds_token s' /\ executed s' = executed s /\
              (close s = CReturned -> close s' = CReturned)) _ evs' s s' _ Hrun').
    - intros s0 e0 s1 [HS0 [Hc0 [Hx0 Hr0]]] Hs.
      destruct (close_quiet_step _ _ _ _ HS0 Hc0 Hs) as [Hc1 [_ [Hx1 Hr1]]].
      split; [eapply sinv_step; eassumption|]. split; [exact Hc1|].
      split; [congruence | auto].
    - auto. }
  destruct H as [HS' [Hc' [Hx' Hr']]].
  split.
  { destruct HS' as [HA _]. destruct Hc' as [Hc'|Hc']; rewrite Hc' in HA;
      destruct (loop s'); try reflexivity; destruct HA as [_ []]. }
  split; [exact Hx'|]. split; [exact Hc'|].
  intros Hret. specialize (Hr' Hret). split; [exact Hr'|].
  destruct HS' as [_ [_ [_ [_ HE]]]]. rewrite Hr' in HE. exact HE.
Qed.

(* ---- C06_no_stranding (code after the fix) ---------------------------------------------- *)

Lemma no_stranding_strong t evs s :
  run Fixed (init_at t) evs = Some s -> stopch s = false -> q s <> [] ->
  serving s = true /\ running s = true.
Proof.
  intros Hrun Hst Hq.
  assert (HS : sinv Fixed s) by apply (ginv_run _ _ _ _ Hrun).
  destruct HS as [HA [HB [HC [HD _]]]]. unfold serving.
  destruct (running s) eqn:Er.
  - split; [|reflexivity].
    destruct (loop s); try reflexivity.
    + destruct (close s); try discriminate; destruct HB; congruence.
    + discriminate HC.
    + congruence.
  - destruct HD as [HD|HD]; [contradiction | congruence].
Qed.

Lemma no_stranding t evs s :
  run Fixed (init_at t) evs = Some s -> stopped s = false -> q s <> [] -> serving s = true.
Proof.
  intros Hrun Hst Hq.
  assert (HS : sinv Fixed s) by apply (ginv_run _ _ _ _ Hrun).
  assert (Hch : stopch s = false).
  { destruct HS as [_ [HB _]]. destruct (close s); destruct HB; congruence. }
  apply (no_stranding_strong t evs s Hrun Hch Hq).
Qed.

(* non-vacuity: a reachable, not stopped state with a non-empty queue *)
Example no_stranding_nonvacuous :
  exists evs s, run Fixed init evs = Some s /\ stopped s = false /\ q s <> [] /\ serving s = true.
Proof.
  exists [EvEnq (mkItem 1 1000000 7) 0; EvLoop ChStep 0],
    (mkState [mkItem 1 1000000 7] true false false false 0 (LChecked (mkItem 1 1000000 7)) 0 CNone [] 0 0).
  repeat split; try reflexivity. discriminate.
Qed.

(* ---- C06_stranding_refuted (code before the fix) ---------------------------------------- *)

Definition quiet_event (e : event) : Prop := internal e = true \/ exists d, e = EvAdvance d.

(* with no loop goroutine, no exiting goroutine and no Close in flight, nothing happens by itself,
   however long one waits *)
Lemma idle_forever v s evs s' :
  loop s = LNone -> exiting s = 0%nat -> close s = CNone ->
  Forall quiet_event evs -> run v s evs = Some s' ->
  q s' = q s /\ executed s' = executed s /\ loop s' = LNone.
Proof.
  intros Hl He Hc Hq Hrun.
  assert (H : (loop s' = LNone /\ exiting s' = 0%nat /\ close s' = CNone) /\
              q s' = q s /\ executed s' = executed s).
  { revert s Hl He Hc Hrun. induction Hq as [|e evs He0 _ IH]; intros s Hl He Hc Hrun; cbn [run] in Hrun.
    - inversion Hrun; subst. auto.
    - destruct (step v s e) as [s1|] eqn:Es; [|discriminate].
      assert (H1 : loop s1 = LNone /\ exiting s1 = 0%nat /\ close s1 = CNone /\
                   q s1 = q s /\ executed s1 = executed s).
      { destruct s as [q0 run0 rst0 stp0 sch0 clk0 lp0 ex0 cl0 exd0 cw0 cr0]. cbn in Hl, He, Hc. subst.
        destruct He0 as [Hi|[d ->]].
        - destruct e; cbn in Hi; try discriminate Hi; cbn in Es; try discriminate Es.
          destruct cw0; [discriminate Es|]. inversion Es; subst. cbn. auto.
        - cbn in Es. destruct (d <? 0); [discriminate|]. inversion Es; subst. cbn. auto. }
      destruct H1 as [Hl1 [He1 [Hc1 [Hq1 Hx1]]]].
      destruct (IH s1 Hl1 He1 Hc1 Hrun) as [Ha [Hb Hc']].
      split; [exact Ha|]. split; congruence. }
  destruct H as [[Hl' _] [Hq' Hx']]. auto.
Qed.

Definition strand_a : item := mkItem 1 0 1.
Definition strand_b : item := mkItem 2 0 2.

(* Enqueue a; the loop runs a and finds the queue empty; Enqueue b lands before the loop has
   released its running token ("already running": only a reset signal is sent); the loop
   releases the token and exits. *)
Definition strand_schedule : list event :=
  [ EvEnq strand_a 0;
    EvLoop ChStep 0; EvLoop ChStep 0; EvLoop ChStep 0; EvLoop ChStep 0; EvCbRet;
    EvLoop ChStep 0;            (* sees the queue empty, unlocks: LEmptyExit *)
    EvEnq strand_b 0;           (* token still held *)
    EvLoop ChStep 0;            (* deferred release of the token *)
    EvDone ].

Definition strand_state : state :=
  mkState [strand_b] false true false false 0 LNone 0 CNone [(strand_a, 0)] 0 0.

Lemma stranding_refuted :
  exists evs s b,
    fresh_ids evs /\ run Original init evs = Some s /\
    stopped s = false /\ In b (q s) /\ In b (live_after evs) /\ idue b <= clock s /\
    serving s = false /\
    (forall e, internal e = true -> step Original s e = None) /\
    (forall evs' s', Forall quiet_event evs' -> run Original s evs' = Some s' ->
       In b (q s') /\ ~ In b (map fst (executed s')) /\ loop s' = LNone).
Proof.
  exists strand_schedule, strand_state, strand_b.
  split. { unfold fresh_ids. cbn. repeat constructor; cbn; intuition discriminate. }
  split; [vm_compute; reflexivity|].
  split; [reflexivity|]. split; [left; reflexivity|]. split; [vm_compute; left; reflexivity|].
  split; [cbn; lia|]. split; [reflexivity|]. split.
  - intros e Hi. destruct e; cbn in Hi; try discriminate Hi; try reflexivity;
      destruct c; reflexivity.
  - intros evs' s' Hq Hrun.
    destruct (idle_forever Original strand_state evs' s' eq_refl eq_refl eq_refl Hq Hrun) as [Hq' [Hx' Hl']].
    rewrite Hq', Hx'. split; [left; reflexivity|]. split; [|exact Hl'].
    cbn. intros [H|[]]. discriminate H.
Qed.

(* the same schedule on the code after the fix: the second Enqueue starts a new loop *)
Example strand_schedule_fixed :
  option_map (fun s => (serving s, running s, q s)) (run Fixed init strand_schedule) = Some (true, true, [strand_b]).
Proof. vm_compute. reflexivity. Qed.

(* ---- C06_close for every further Close call ---------------------------------------------- *)

(* A Close call whose CompareAndSwap fails skips the if-body and only runs the deferred
   p.wg.Wait().  [EvClose2Ret] is that Wait returning. *)

(* the loop is absent or on a path that cannot reach execute() once the stop channel is closed *)
Definition cannot_execute (l : lpc) : Prop :=
  match l with LNone | LTop | LChecked _ | LStopExit | LEmptyExit => True | _ => False end.

Lemma stop_quiet_step v s e s' :
  stopch s = true -> cannot_execute (loop s) -> step v s e = Some s' ->
  stopch s' = true /\ cannot_execute (loop s') /\ executed s' = executed s.
Proof.
  destruct s as [q0 run0 rst0 stp0 sch0 clk0 lp0 ex0 cl0 exd0 cw0 cr0]. cbn [stopch loop executed].
  intros -> Hl Hs. destruct e; cbn in Hs.
  all: open_step Hs; cbn in *; auto; try contradiction.
Qed.

Definition not_client (e : event) : Prop :=
  match e with EvEnq _ _ | EvDeq _ _ => False | _ => True end.

Lemma no_loop_step v s e s' :
  loop s = LNone -> not_client e -> step v s e = Some s' ->
  loop s' = LNone /\ executed s' = executed s.
Proof.
  destruct s as [q0 run0 rst0 stp0 sch0 clk0 lp0 ex0 cl0 exd0 cw0 cr0]. cbn [loop executed].
  intros -> Hc Hs. destruct e; cbn in Hc; try contradiction; cbn in Hs.
  all: open_step Hs; cbn; auto.
Qed.

Lemma no_loop_run v : forall evs s s',
  loop s = LNone -> Forall not_client evs -> run v s evs = Some s' ->
  loop s' = LNone /\ executed s' = executed s.
Proof.
  induction evs as [|e evs IH]; intros s s' Hl Hf Hrun; cbn [run] in Hrun.
  - inversion Hrun; subst. auto.
  - inversion Hf as [|? ? He Hf']; subst.
    destruct (step v s e) as [s1|] eqn:Es; [|discriminate].
    destruct (no_loop_step _ _ _ _ Hl He Es) as [Hl1 Hx1].
    destruct (IH s1 s' Hl1 Hf' Hrun) as [Hl' Hx']. split; [exact Hl' | congruence].
Qed.

Lemma close2_final v s s1 evs' s' :
  step v s EvClose2Ret = Some s1 -> run v s1 evs' = Some s' ->
  (* when it returns no loop goroutine exists or is on its way out: no callback is running *)
  loop s = LNone /\ exiting s = 0%nat /\ cret s1 = S (cret s) /\
  (* and none will run: unconditionally once the stop channel is closed ... *)
  (stopch s = true -> executed s' = executed s) /\
  (* ... and, before that instant, unless the locked body of an Enqueue/Dequeue that passed the
     stopped test before Close was called runs afterwards *)
  (Forall not_client evs' -> executed s' = executed s /\ loop s' = LNone).
Proof.
  intros Hs Hrun.
  assert (H0 : loop s = LNone /\ exiting s = 0%nat /\ cret s1 = S (cret s) /\
               loop s1 = LNone /\ executed s1 = executed s /\ stopch s1 = stopch s).
  { destruct s as [q0 run0 rst0 stp0 sch0 clk0 lp0 ex0 cl0 exd0 cw0 cr0]. cbn in Hs.
    destruct cw0; [discriminate|]. destruct lp0; try discriminate. destruct ex0; [|discriminate].
    inversion Hs; subst. cbn. auto 10. }
  destruct H0 as [Hl [He [Hc [Hl1 [Hx1 Hst1]]]]].
  split; [exact Hl|]. split; [exact He|]. split; [exact Hc|]. split.
  - intros Hst.
    assert (H : stopch s' = true /\ cannot_execute (loop s') /\ executed s' = executed s).
    { refine (run_inv v (fun s' => stopch s' = true /\ cannot_execute (loop s') /\ executed s' = executed s)
                _ evs' s1 s' _ Hrun).
      - intros sa e sb [Ha [Hb Hd]] Hstep.
        destruct (stop_quiet_step _ _ _ _ Ha Hb Hstep) as [Ha' [Hb' Hd']].
        split; [exact Ha'|]. split; [exact Hb' | congruence].
      - rewrite Hst1, Hl1. split; [exact Hst|]. split; [exact I | exact Hx1]. }
    apply H.
  - intros Hf. destruct (no_loop_run v evs' s1 s' Hl1 Hf Hrun) as [Hl' Hx'].
    split; [congruence | exact Hl'].
Qed.

(* Why the second clause of [close2_final] has a side condition: a Close call that loses the
   CompareAndSwap can return BEFORE the winning call has closed the stop channel; an Enqueue whose
   unlocked stopped test was passed before Close was called and whose locked body runs after that
   return still starts a loop, and that loop still runs the item.  (Needs three goroutines in
   flight at once: Enqueue past its test, the winning Close between CompareAndSwap and
   close(stopCh), and the losing Close.  The winning call is not affected: it returns only after
   taking the running token.) *)
Example close2_inflight_enqueue :
  exists evs s, run Fixed init evs = Some s /\ cret s = 1%nat /\ stopch s = false /\
    exists evs' s', run Fixed s evs' = Some s' /\ executed s' <> executed s.
Proof.
  exists [EvCloseCAS; EvClose2; EvClose2Ret]. eexists. split; [vm_compute; reflexivity|].
  split; [reflexivity|]. split; [reflexivity|].
  exists [EvEnq (mkItem 1 0 1) 0; EvLoop ChStep 0; EvLoop ChStep 0; EvLoop ChStep 0; EvLoop ChStep 0].
  eexists. split; [vm_compute; reflexivity|]. cbn. discriminate.
Qed.

(* The in-flight Enqueue: an Enqueue that passed the unlocked stopped test before Close was called
   and whose locked body runs only after Close (the call that won the CompareAndSwap) took the
   running token - in particular after it returned: the item is queued and never run. *)
Lemma close_inflight_enqueue v t evs s r p s1 evs' s' :
  run v (init_at t) evs = Some s -> close_holds_token s ->
  step v s (EvEnq r p) = Some s1 -> run v s1 evs' = Some s' ->
  In r (q s1) /\ loop s' = LNone /\ executed s' = executed s.
Proof.
  intros Hrun Hc Hs Hrun'.
  assert (Hrun2 : run v s (EvEnq r p :: evs') = Some s') by (cbn [run]; rewrite Hs; exact Hrun').
  destruct (close_final v t evs s _ s' Hrun Hc Hrun2) as [Hl [Hx _]].
  split; [|split; assumption].
  cbn in Hs. inversion Hs; subst s1. unfold do_enqueue.
  assert (Hq : forall b x, q (process b x) = q x).
  { intros b x. unfold process. destruct (running x); [destruct b|]; reflexivity. }
  rewrite Hq. cbn. apply q_insert_In. left; reflexivity.
Qed.
