(* C06 — the on-time UPPER bound and the order theorem in trace form.

   Fairness hypothesis, stated on the schedule: [trun] ("timely run") is [run] restricted to
   schedules in which the clock is advanced only when no internal event is enabled — the timer
   delivery, the loop's steps, the callback's return and wg.Done all happen before time moves on.
   (Without it nothing of the kind can hold: a callback that does not return, or a loop goroutine
   that is not scheduled, delays everything behind it by any amount of clock.) *)
From Kit Require Import C06.Model C06.Spec C06.ProofsQueue C06.ProofsInv C06.Proofs C06.ProofsProgress.
From Coq Require Import Permutation Sorted.
Open Scope Z_scope.

Inductive trun (v : variant) : state -> list event -> state -> Prop :=
| trun_nil s : trun v s [] s
| trun_cons s e s1 evs s' :
    step v s e = Some s1 ->
    (forall d, e = EvAdvance d -> at_rest v s) ->
    trun v s1 evs s' -> trun v s (e :: evs) s'.

Lemma trun_run v s evs s' : trun v s evs s' -> run v s evs = Some s'.
Proof. induction 1 as [|s e s1 evs s' Hs _ _ IH]; cbn [run]; [reflexivity | rewrite Hs; exact IH]. Qed.

Lemma trun_inv v (P : state -> Prop) :
  (forall s e s1, P s -> step v s e = Some s1 -> (forall d, e = EvAdvance d -> at_rest v s) -> P s1) ->
  forall s0 evs s, trun v s0 evs s -> P s0 -> P s.
Proof. intros Hstep s0 evs s H. induction H as [|s e s1 evs s' Hs Hr _ IH]; intros H0; [exact H0|]. apply IH. eapply Hstep; eassumption. Qed.

(* ---- no drift: in a timely schedule the timer is armed for exactly the item's time ------ *)

Definition ndinv (s : state) : Prop :=
  match loop s with
  | LArming r d => d = idue r - clock s
  | LWaiting r dl => dl = idue r
  | _ => True
  end.

Lemma ndinv_step v s e s1 :
  ndinv s -> step v s e = Some s1 -> (forall d, e = EvAdvance d -> at_rest v s) -> ndinv s1.
Proof.
  destruct s as [q0 run0 rst0 stp0 sch0 clk0 lp0 ex0 cl0 exd0 cw0 cr0].
  intros H Hs Hr. unfold ndinv in *. destruct e; cbn in Hs.
  12: { (* EvAdvance: only at rest, and a loop between Now() and NewTimer() is never at rest *)
    specialize (Hr d eq_refl). pose proof (Hr (EvLoop ChStep 0) eq_refl) as R.
    open_step Hs. cbn in *. destruct lp0; try exact I; [discriminate R | exact H]. }
  all: clear Hr; open_step Hs; cbn in *; try exact I; try exact H; zb; try lia.
Qed.

Lemma ndinv_trun v t evs s : trun v (init_at t) evs s -> ndinv s.
Proof.
  intros H. refine (trun_inv v ndinv _ _ _ _ H _); [|exact I].
  intros s0 e s1 H0 Hs Hr. eapply ndinv_step; eassumption.
Qed.

(* ---- C06_on_time: at rest nothing that is queued is due --------------------------------- *)

Lemma on_time_rest t evs s :
  trun Fixed (init_at t) evs s -> at_rest Fixed s -> stopch s = false ->
  forall x, In x (q s) -> clock s < idue x.
Proof.
  intros Ht Hrest Hst x Hx.
  pose proof (trun_run _ _ _ _ Ht) as Hrun.
  destruct (rest_shape Fixed t evs s Hrun Hrest) as [_ [_ [_ [[Hl Hq]|[r [dl [Hl [Hp [_ [_ [Hlt _]]]]]]]]]]].
  - rewrite (Hq eq_refl Hst) in Hx. contradiction.
  - pose proof (ndinv_trun _ _ _ _ Ht) as Hn. unfold ndinv in Hn. rewrite Hl in Hn. subst dl.
    destruct (ginv_run _ _ _ _ Hrun) as [_ [[_ Hm] _]].
    destruct (q s) as [|h rest] eqn:Eq; [contradiction|]. cbn in Hp. inversion Hp; subst h.
    pose proof (hmin_all _ _ Hm x Hx). lia.
Qed.

(* the same whenever a loop goroutine is alive, for both versions of the code *)
Lemma on_time_rest_alive v t evs s :
  trun v (init_at t) evs s -> at_rest v s -> loop s <> LNone ->
  forall x, In x (q s) -> clock s < idue x.
Proof.
  intros Ht Hrest Hl x Hx.
  pose proof (trun_run _ _ _ _ Ht) as Hrun.
  destruct (rest_shape v t evs s Hrun Hrest) as [_ [_ [_ [[Hl' _]|[r [dl [Hl' [Hp [_ [_ [Hlt _]]]]]]]]]]];
    [contradiction|].
  pose proof (ndinv_trun _ _ _ _ Ht) as Hn. unfold ndinv in Hn. rewrite Hl' in Hn. subst dl.
  destruct (ginv_run _ _ _ _ Hrun) as [_ [[_ Hm] _]].
  destruct (q s) as [|h rest] eqn:Eq; [contradiction|]. cbn in Hp. inversion Hp; subst h.
  pose proof (hmin_all _ _ Hm x Hx). lia.
Qed.

(* ---- the execution timestamp ------------------------------------------------------------ *)

Definition not_advance (e : event) : Prop := match e with EvAdvance _ => False | _ => True end.

Lemma step_clock v s e s' : not_advance e -> step v s e = Some s' -> clock s' = clock s.
Proof.
  destruct s as [q0 run0 rst0 stp0 sch0 clk0 lp0 ex0 cl0 exd0 cw0 cr0].
  intros Hn Hs. destruct e; cbn in Hn; try contradiction; cbn in Hs.
  all: open_step Hs; reflexivity.
Qed.

Lemma run_clock v : forall evs s s', Forall not_advance evs -> run v s evs = Some s' -> clock s' = clock s.
Proof.
  induction evs as [|e evs IH]; intros s s' Hf Hrun; cbn [run] in Hrun.
  - inversion Hrun; reflexivity.
  - inversion Hf as [|? ? He Hf']; subst. destruct (step v s e) as [s1|] eqn:Es; [|discriminate].
    rewrite (IH s1 s' Hf' Hrun). eapply step_clock; eassumption.
Qed.

(* An item handed to the callback after a clock jump [s1 -d-> s2] (with no further jump before
   its pop) gets the clock value right after the jump as its timestamp; and if it was already
   queued before the jump it was NOT yet due before the jump: the timestamp is the first clock
   value at or after its scheduled time (or less than 0.5 ms before it, C06_not_early). *)
Lemma on_time_exec t evs1 s1 d s2 evs2 s3 e s4 it tm :
  trun Fixed (init_at t) evs1 s1 -> at_rest Fixed s1 -> stopch s1 = false ->
  step Fixed s1 (EvAdvance d) = Some s2 ->
  Forall not_advance evs2 -> run Fixed s2 evs2 = Some s3 ->
  step Fixed s3 e = Some s4 -> executed s4 = (it, tm) :: executed s3 ->
  tm = clock s1 + d /\ idue it - half_ms < tm /\ (In it (q s1) -> clock s1 < idue it).
Proof.
  intros Ht Hrest Hst Hadv Hna Hrun2 Hs Hx.
  assert (Hc2 : clock s2 = clock s1 + d).
  { destruct s1 as [q0 run0 rst0 stp0 sch0 clk0 lp0 ex0 cl0 exd0 cw0 cr0]. cbn in Hadv.
    destruct (d <? 0); [discriminate|]. inversion Hadv; reflexivity. }
  pose proof (run_clock _ _ _ _ Hna Hrun2) as Hc3.
  pose proof (trun_run _ _ _ _ Ht) as Hrun1.
  assert (Hrun3 : run Fixed (init_at t) (evs1 ++ EvAdvance d :: evs2) = Some s3).
  { rewrite run_app, Hrun1. cbn [run]. rewrite Hadv. exact Hrun2. }
  destruct (in_order Fixed t _ s3 e s4 it tm Hrun3 Hs Hx) as [Htm _].
  assert (Hrun4 : run Fixed (init_at t) ((evs1 ++ EvAdvance d :: evs2) ++ [e]) = Some s4).
  { rewrite run_app, Hrun3. cbn [run]. rewrite Hs. reflexivity. }
  assert (Hin : In (it, tm) (executed s4)) by (rewrite Hx; left; reflexivity).
  destruct (not_early Fixed t _ s4 it tm Hrun4 Hin) as [Hne _].
  split; [lia|]. split; [exact Hne|].
  intros Hq. eapply on_time_rest; eassumption.
Qed.

Lemma fresh_ids_app_l a b : fresh_ids (a ++ b) -> fresh_ids a.
Proof. unfold fresh_ids, enq_ids. rewrite flat_map_app. apply NoDup_app_l. Qed.

(* ---- the order theorem over the whole log ----------------------------------------------- *)

(* [ordered_since qs new]: reading the log entries [new] (newest first) that were appended after
   some moment at which the queue was [qs]: an item that was queued at that moment is handed to
   the callback only after everything handed over since then had an earlier or equal time. *)
Definition ordered_since (qs : list item) (new : list (item * Z)) : Prop :=
  forall l1 h th l2, new = l1 ++ (h, th) :: l2 -> In h qs ->
    forall a ta, In (a, ta) l2 -> idue a <= idue h.

(* invariant: everything executed since is no later than anything that was queued then and still is *)
Definition since_inv (s1 s : state) (new : list (item * Z)) : Prop :=
  executed s = new ++ executed s1 /\
  ordered_since (q s1) new /\
  forall a ta, In (a, ta) new -> forall x, In x (q s1) -> In x (q s) -> idue a <= idue x.

Lemma order_since v t evs1 s1 : forall evs2 s,
  fresh_ids (evs1 ++ evs2) -> run v (init_at t) evs1 = Some s1 -> run v s1 evs2 = Some s ->
  exists new, since_inv s1 s new.
Proof.
  intros evs2. induction evs2 as [|e evs2 IH] using rev_ind; intros s Hf Hrun1 Hrun2.
  - cbn in Hrun2. inversion Hrun2; subst s. exists []. split; [reflexivity|]. split.
    + intros l1 h th l2 E. destruct l1; discriminate E.
    + intros a ta [].
  - apply run_snoc in Hrun2 as [s0 [Hrun2 Hs]].
    rewrite app_assoc in Hf.
    destruct (IH s0 (fresh_ids_snoc _ _ Hf) Hrun1 Hrun2) as [new [Hx [Hord Hle]]].
    assert (Hrun0 : run v (init_at t) (evs1 ++ evs2) = Some s0) by (rewrite run_app, Hrun1; exact Hrun2).
    destruct (ginv_run _ _ _ _ Hrun0) as [_ [[Hk Hm] _]].
    destruct (step_q_exec _ _ _ _ Hs) as
      [[Hq [Hx' _]]|[[r [p [-> [Hq Hx']]]]|[[k [p [-> [Hq Hx']]]]|
       [h [rest [p [_ [Hq0 [Hq [_ [_ Hx']]]]]]]]]]].
    + exists new. split; [congruence|]. split; [exact Hord|]. rewrite Hq. exact Hle.
    + (* Enqueue r: r is a fresh object, so it was not in the queue at s1 *)
      exists new. split; [congruence|]. split; [exact Hord|].
      intros a ta Ha x Hx1 Hxq. rewrite Hq in Hxq. apply q_insert_In in Hxq as [->|[Hxq _]].
      * exfalso.
        pose proof (hinv_run v t evs1 s1 (fresh_ids_app_l _ _ (fresh_ids_app_l _ _ Hf)) Hrun1) as Hh1.
        assert (Hid : In (iid r) (enq_ids evs1)) by (apply (h_live_enq _ _ Hh1), (h_live _ _ Hh1); exact Hx1).
        unfold fresh_ids in Hf. rewrite enq_ids_snoc in Hf.
        eapply NoDup_app_disj; [exact Hf| |cbn; left; reflexivity].
        unfold enq_ids. rewrite flat_map_app. apply in_or_app. left. exact Hid.
      * eapply Hle; eassumption.
    + exists new. split; [congruence|]. split; [exact Hord|].
      intros a ta Ha x Hx1 Hxq. rewrite Hq in Hxq. apply (q_remove_In p k _ x Hk) in Hxq as [Hxq _].
      eapply Hle; eassumption.
    + (* the loop pops the head h *)
      exists ((h, clock s0) :: new). split; [rewrite Hx', Hx; reflexivity|].
      assert (Hsub : forall x, In x (q s) -> In x rest).
      { intros x Hxq. rewrite Hq in Hxq. eapply Permutation_in; [apply choose_head_perm | exact Hxq]. }
      rewrite Hq0 in Hm, Hle. split.
      * intros l1 h' th l2 E Hh' a ta Ha. destruct l1 as [|p1 l1]; cbn in E; inversion E; subst.
        -- eapply (Hle a ta Ha h'); [exact Hh' | left; reflexivity].
        -- eapply Hord; [reflexivity | exact Hh' | exact Ha].
      * intros a ta [Ea|Ha] x Hx1 Hxq.
        -- inversion Ea; subst a ta. apply Hm. apply Hsub; exact Hxq.
        -- eapply Hle; [exact Ha | exact Hx1 | right; apply Hsub; exact Hxq].
Qed.

(* the same as a sorted list: the entries appended since, oldest first, restricted to the items
   that were in the queue at that moment, are in scheduled-time order *)
Definition was_queued (qs : list item) (p : item * Z) : bool := existsb (item_eqb (fst p)) qs.

Lemma was_queued_In qs p : was_queued qs p = true <-> In (fst p) qs.
Proof.
  unfold was_queued. rewrite existsb_exists. split.
  - intros [x [Hx E]]. apply item_eqb_eq in E. subst x. exact Hx.
  - intros H. exists (fst p). split; [exact H | apply item_eqb_refl].
Qed.

Definition due_le (a b : item * Z) : Prop := idue (fst a) <= idue (fst b).

Lemma sorted_snoc {A} (R : A -> A -> Prop) l p :
  StronglySorted R l -> Forall (fun a => R a p) l -> StronglySorted R (l ++ [p]).
Proof.
  induction l as [|x l IH]; intros Hs Hf; cbn [app].
  - constructor; constructor.
  - inversion Hs as [|? ? Hs' Hx]; subst. inversion Hf as [|? ? Hxp Hf']; subst.
    constructor; [apply IH; assumption|]. apply Forall_app. split; [exact Hx | constructor; [exact Hxp | constructor]].
Qed.

Lemma ordered_since_sorted qs new :
  ordered_since qs new -> StronglySorted due_le (filter (was_queued qs) (rev new)).
Proof.
  induction new as [|[h th] new IH]; intros Ho; cbn [rev]; [constructor|].
  rewrite filter_app. cbn [filter].
  assert (Ho' : ordered_since qs new).
  { intros l1 h' th' l2 E Hh' a ta Ha. eapply (Ho ((h, th) :: l1)); [cbn; rewrite E; reflexivity | exact Hh' | exact Ha]. }
  specialize (IH Ho').
  destruct (was_queued qs (h, th)) eqn:Eq; [|rewrite app_nil_r; exact IH].
  apply sorted_snoc; [exact IH|].
  apply was_queued_In in Eq. cbn [fst] in Eq.
  apply Forall_forall. intros [a ta] Ha. apply filter_In in Ha as [Ha _]. apply in_rev in Ha.
  unfold due_le; cbn [fst]. eapply (Ho [] h th new); [reflexivity | exact Eq | exact Ha].
Qed.

Lemma order_sorted v t evs1 s1 evs2 s :
  fresh_ids (evs1 ++ evs2) -> run v (init_at t) evs1 = Some s1 -> run v s1 evs2 = Some s ->
  exists new, executed s = new ++ executed s1 /\
              ordered_since (q s1) new /\
              StronglySorted due_le (filter (was_queued (q s1)) (rev new)).
Proof.
  intros Hf H1 H2. destruct (order_since v t evs1 s1 evs2 s Hf H1 H2) as [new [Hx [Ho _]]].
  exists new. split; [exact Hx|]. split; [exact Ho | apply ordered_since_sorted; exact Ho].
Qed.

(* ---- non-vacuity ------------------------------------------------------------------------ *)

Definition ot_a : item := mkItem 1 1000000 7.
Definition ot_b : item := mkItem 2 3000000 8.
Definition ot_c : item := mkItem 3 2000000 9.

(* a is enqueued and the loop parks on its timer; b and c (both later than a, c before b) follow *)
Definition ot_park : list event :=
  [EvEnq ot_a 0; EvLoop ChStep 0; EvLoop ChStep 0; EvLoop ChStep 0; EvLoop ChStep 0;
   EvEnq ot_b 0; EvEnq ot_c 0].

Ltac rest_tac := intros e Hi; destruct e; cbn in Hi; try discriminate Hi; try reflexivity;
                 match goal with c : choice |- _ => destruct c; reflexivity end.

Example ot_timely_rest :
  exists s, trun Fixed init ot_park s /\ at_rest Fixed s /\ stopch s = false /\ q s <> [].
Proof.
  eexists. split.
  { unfold ot_park. repeat (eapply trun_cons; [vm_compute; reflexivity | intros d Hd; discriminate Hd |]).
    apply trun_nil. }
  split; [rest_tac|]. split; [reflexivity | discriminate].
Qed.

(* one jump past all three due times: they run in the order a, c, b, all stamped with the clock
   right after the jump *)
Example ot_after_jump :
  option_map (fun s => rev (executed s))
    (run Fixed init (ot_park ++ [EvAdvance 5000000; EvLoop ChTimer 0; EvLoop ChStep 0; EvCbRet;
                                 EvLoop ChStep 0; EvLoop ChStep 0; EvLoop ChStep 0; EvLoop ChStep 0; EvCbRet;
                                 EvLoop ChStep 0; EvLoop ChStep 0; EvLoop ChStep 0; EvLoop ChStep 0; EvCbRet]))
  = Some [(ot_a, 5000000); (ot_c, 5000000); (ot_b, 5000000)].
Proof. vm_compute. reflexivity. Qed.
