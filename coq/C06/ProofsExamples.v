(* C06 — non-vacuity: concrete schedules on which the hypotheses of the implication-shaped
   theorems of Properties/C06.v hold (each closed by computation). *)
From Kit Require Import C06.Model C06.Spec C06.ProofsQueue C06.ProofsInv C06.Proofs C06.ProofsProgress.
Open Scope Z_scope.

Definition ex_a : item := mkItem 1 1000000 7.   (* key 1, due at 1 ms *)
Definition ex_b : item := mkItem 2 400000 8.    (* key 2, due at 0.4 ms *)

(* Enqueue a; the loop peeks a, computes its deadline and parks on the timer *)
Definition ex_park : list event :=
  [EvEnq ex_a 0; EvLoop ChStep 0; EvLoop ChStep 0; EvLoop ChStep 0; EvLoop ChStep 0].

Example ex_park_state :
  option_map (fun s => (loop s, q s, reset s)) (run Fixed init ex_park)
  = Some (LWaiting ex_a 1000000, [ex_a], false).
Proof. vm_compute. reflexivity. Qed.

(* a pop: hypotheses of C06_exactly_once / C06_in_order (fresh ids, a step that extends the log) *)
Example ex_pop :
  exists evs e s s', fresh_ids (evs ++ [e]) /\ run Fixed init evs = Some s /\
    step Fixed s e = Some s' /\ executed s' = (ex_a, clock s) :: executed s.
Proof.
  exists (ex_park ++ [EvAdvance 1000000; EvLoop ChTimer 0]), (EvLoop ChStep 0).
  eexists. eexists. split; [|split; [vm_compute; reflexivity | split; vm_compute; reflexivity]].
  unfold fresh_ids. cbn. repeat constructor. intros [].
Qed.

(* a stale wait: while the loop sleeps on a's timer an earlier item b becomes the head; the reset
   token is there (hypotheses of C06_stale_wait_has_reset) *)
Example ex_stale_wait :
  option_map (fun s => (peeked (loop s), q_peek (q s), reset s)) (run Fixed init (ex_park ++ [EvEnq ex_b 0]))
  = Some (Some ex_a, Some ex_b, true).
Proof. vm_compute. reflexivity. Qed.

(* ... and b then runs at once, 0.4 ms before its time (inside the 0.5 ms window), before a *)
Example ex_early_window :
  option_map (fun s => map (fun p => (iid (fst p), snd p)) (executed s))
    (run Fixed init (ex_park ++ [EvEnq ex_b 0; EvLoop ChReset 0; EvLoop ChStep 0; EvLoop ChStep 0;
                                 EvLoop ChStep 0; EvLoop ChStep 0]))
  = Some [(8, 0)].
Proof. vm_compute. reflexivity. Qed.

(* Close while the loop sleeps: the loop leaves through the stop channel, Close takes the token
   and returns (hypotheses of C06_close); the queued item is never run *)
Definition ex_close : list event :=
  ex_park ++ [EvCloseCAS; EvCloseStop; EvLoop ChStop 0; EvLoop ChStep 0; EvCloseToken; EvDone; EvCloseRet].

Example ex_close_state :
  option_map (fun s => (close s, loop s, q s, executed s)) (run Fixed init ex_close)
  = Some (CReturned, LNone, [ex_a], []).
Proof. vm_compute. reflexivity. Qed.

(* a rest state with a sleeping loop (hypotheses of C06_rest) *)
Example ex_rest : exists s, run Fixed init ex_park = Some s /\ at_rest Fixed s.
Proof.
  eexists. split; [vm_compute; reflexivity|].
  intros e Hi. destruct e; cbn in Hi; try discriminate Hi; try reflexivity; destruct c; reflexivity.
Qed.

(* an internal step, for C06_progress_measure *)
Example ex_internal_step :
  exists s s', step Fixed s (EvLoop ChStep 0) = Some s' /\ (measure s' < measure s)%nat.
Proof.
  exists (mkState [ex_a] true false false false 0 LTop 0 CNone [] 0 0). eexists.
  split; [vm_compute; reflexivity | vm_compute; lia].
Qed.

(* two more Close calls while the first waits: all return once the loop is gone (hypotheses of
   C06_close_every_call) *)
Example ex_close_thrice :
  option_map (fun s => (close s, cwait s, cret s, loop s, executed s))
    (run Fixed init (ex_park ++ [EvCloseCAS; EvClose2; EvCloseStop; EvClose2; EvLoop ChStop 0; EvLoop ChStep 0;
                                 EvCloseToken; EvDone; EvClose2Ret; EvCloseRet; EvClose2Ret]))
  = Some (CReturned, 0%nat, 2%nat, LNone, []).
Proof. vm_compute. reflexivity. Qed.
