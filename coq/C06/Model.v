(* C06 — queue.Processor (events/queue/processor.go, queue.go): executable event-system model.

   Definitions only.  Time is in nanoseconds ([Z]); an [item] is one object handed to Enqueue
   (Go compares the peeked item with [==], i.e. by pointer: [iid] stands for the pointer).

   Atomic events.  Enqueue and Dequeue run entirely under [p.lock] (including [process]); they
   are single events, enabled at any time — this models a call that passed the unlocked
   [stopped.Load()] test earlier (the API-level "no-op after Close" is added in Check.v).
   The loop goroutine and Close have program counters; one event = the code between two points
   at which the goroutine releases the lock, blocks, reads the clock or touches a channel.

   Queue.  container/heap keeps a binary heap; the property does not talk about its tie order.
   The model keeps the heap ROOT first and the remaining entries as a bag.  Facts about
   container/heap used (up() swaps only when STRICTLY earlier, down() only when a child is
   strictly earlier):
     - Push / Fix of a non-root entry: it becomes the root iff it is strictly earlier than the
       current root; otherwise the root is unchanged;
     - Fix of the root after it was replaced: it stays the root iff no other entry is strictly
       earlier; otherwise SOME minimum-time entry of the others becomes the root;
     - Pop / Remove of the root: SOME minimum-time entry of the others becomes the root;
     - Remove of a non-root entry: root unchanged.
   "SOME" is resolved by the [pick] carried by the event, so theorems that quantify over all
   events quantify over every tie order the heap could produce. *)
From Kit Require Export Lib.Base.
Open Scope Z_scope.

Record item := mkItem { ikey : Z; idue : Z; iid : Z }.

Definition item_eqb (a b : item) : bool :=
  (ikey a =? ikey b) && (idue a =? idue b) && (iid a =? iid b).

(* 500 * time.Microsecond *)
Definition threshold : Z := 500000.

(* ------------------------------------------------------------------------------------ *)
(* queue.go, abstractly: root first *)

Definition remove_key (k : Z) (l : list item) : list item :=
  filter (fun x => negb (ikey x =? k)) l.

Fixpoint remove1 (h : item) (l : list item) : list item :=
  match l with
  | [] => []
  | x :: t => if item_eqb x h then t else x :: remove1 h t
  end.

(* [x] is no later than every entry of [l] *)
Definition is_min (x : item) (l : list item) : bool :=
  forallb (fun y => idue x <=? idue y) l.

Definition mins (l : list item) : list item := filter (fun x => is_min x l) l.

(* bring one of the minimum-time entries of [l] to the front *)
Definition choose_head (pick : nat) (l : list item) : list item :=
  match mins l with
  | [] => l
  | c :: cs => let h := nth (Nat.modulo pick (length (c :: cs))) (c :: cs) c in
               h :: remove1 h l
  end.

Definition q_peek (q : list item) : option item := hd_error q.

(* queue.Insert(r, true) *)
Definition q_insert (pick : nat) (r : item) (q : list item) : list item :=
  match q with
  | [] => [r]
  | h :: rest =>
      let rest' := remove_key (ikey r) rest in
      if ikey h =? ikey r then
        (* the root's value is replaced, heap.Fix(0) *)
        if is_min r rest' then r :: rest'
        else match choose_head pick rest' with
             | h' :: t => h' :: r :: t
             | [] => [r]
             end
      else
        (* new entry pushed, or a non-root entry replaced and fixed *)
        if idue r <? idue h then r :: h :: rest' else h :: r :: rest'
  end.

(* queue.Remove(key) *)
Definition q_remove (pick : nat) (k : Z) (q : list item) : list item :=
  match q with
  | [] => []
  | h :: rest => if ikey h =? k then choose_head pick rest else h :: remove_key k rest
  end.

(* queue.Pop(): the root and what is left *)
Definition q_pop (pick : nat) (q : list item) : option (item * list item) :=
  match q with
  | [] => None
  | h :: rest => Some (h, choose_head pick rest)
  end.

(* ------------------------------------------------------------------------------------ *)
(* state *)

(* program counter of the goroutine that holds the running token (processLoop) *)
Inductive lpc :=
| LNone                         (* no such goroutine *)
| LTop                          (* at the top of the for loop (also: just spawned) *)
| LChecked (r : item)           (* peeked r, lock released; before the first select *)
| LDeciding (r : item)          (* select took default; before p.clock.Now() *)
| LArming (r : item) (d : Z)    (* deadline d >= 500us computed; before p.clock.NewTimer(d) *)
| LWaiting (r : item) (dl : Z)  (* in the second select; the timer fires at clock dl *)
| LExecuting (r : item)         (* entering execute(r): before p.lock.Lock() *)
| LCallback (r : item)          (* r popped, lock released, executeFn(r) running *)
| LEmptyExit                    (* saw the queue empty, lock released, token still held *)
| LStopExit.                    (* saw stopCh closed; token still held *)

(* program counter of the Close call whose CompareAndSwap succeeds (the first one); every other
   Close call skips the if-body and goes straight to the deferred p.wg.Wait(): see [cwait] *)
Inductive cpc :=
| CNone        (* not called *)
| CStopped     (* stopped.CompareAndSwap(false, true) done *)
| CClosed      (* close(p.stopCh) done; blocked sending on processorRunningCh *)
| CToken       (* token taken; in the deferred p.wg.Wait() *)
| CReturned.

Record state := mkState {
  q : list item;             (* heap + key index: root first *)
  running : bool;            (* processorRunningCh holds a token *)
  reset : bool;              (* resetCh holds a token *)
  stopped : bool;            (* p.stopped *)
  stopch : bool;             (* p.stopCh closed *)
  clock : Z;
  loop : lpc;
  exiting : nat;             (* goroutines that released the token and have not yet run wg.Done *)
  close : cpc;
  executed : list (item * Z); (* ghost: (item, clock at its pop), newest first *)
  cwait : nat;               (* further Close calls (their CompareAndSwap failed) inside the deferred wg.Wait() *)
  cret : nat                 (* ghost: how many of those have returned *)
}.

Definition init : state :=
  mkState [] false false false false 0 LNone 0 CNone [] 0 0.

Definition init_at (t : Z) : state :=
  mkState [] false false false false t LNone 0 CNone [] 0 0.

Definition set_q (s : state) (x : list item) : state :=
  mkState x (running s) (reset s) (stopped s) (stopch s) (clock s) (loop s) (exiting s) (close s) (executed s) (cwait s) (cret s).
Definition set_running (s : state) (x : bool) : state :=
  mkState (q s) x (reset s) (stopped s) (stopch s) (clock s) (loop s) (exiting s) (close s) (executed s) (cwait s) (cret s).
Definition set_reset (s : state) (x : bool) : state :=
  mkState (q s) (running s) x (stopped s) (stopch s) (clock s) (loop s) (exiting s) (close s) (executed s) (cwait s) (cret s).
Definition set_stopped (s : state) (x : bool) : state :=
  mkState (q s) (running s) (reset s) x (stopch s) (clock s) (loop s) (exiting s) (close s) (executed s) (cwait s) (cret s).
Definition set_stopch (s : state) (x : bool) : state :=
  mkState (q s) (running s) (reset s) (stopped s) x (clock s) (loop s) (exiting s) (close s) (executed s) (cwait s) (cret s).
Definition set_clock (s : state) (x : Z) : state :=
  mkState (q s) (running s) (reset s) (stopped s) (stopch s) x (loop s) (exiting s) (close s) (executed s) (cwait s) (cret s).
Definition set_loop (s : state) (x : lpc) : state :=
  mkState (q s) (running s) (reset s) (stopped s) (stopch s) (clock s) x (exiting s) (close s) (executed s) (cwait s) (cret s).
Definition set_exiting (s : state) (x : nat) : state :=
  mkState (q s) (running s) (reset s) (stopped s) (stopch s) (clock s) (loop s) x (close s) (executed s) (cwait s) (cret s).
Definition set_close (s : state) (x : cpc) : state :=
  mkState (q s) (running s) (reset s) (stopped s) (stopch s) (clock s) (loop s) (exiting s) x (executed s) (cwait s) (cret s).
Definition set_cwait (s : state) (w r : nat) : state :=
  mkState (q s) (running s) (reset s) (stopped s) (stopch s) (clock s) (loop s) (exiting s) (close s) (executed s) w r.
Definition set_executed (s : state) (x : list (item * Z)) : state :=
  mkState (q s) (running s) (reset s) (stopped s) (stopch s) (clock s) (loop s) (exiting s) (close s) x (cwait s) (cret s).

(* ------------------------------------------------------------------------------------ *)
(* events *)

(* which ready case a select takes (Go picks among the ready ones at random) *)
Inductive choice := ChStep | ChTimer | ChReset | ChStop.

Inductive event :=
| EvEnq (r : item) (pick : nat)       (* locked body of Enqueue(r) *)
| EvDeq (k : Z) (pick : nat)          (* locked body of Dequeue(k) *)
| EvCloseCAS                          (* Close: stopped.CompareAndSwap(false, true) succeeds *)
| EvCloseStop                         (* Close: close(p.stopCh) *)
| EvCloseToken                        (* Close: p.processorRunningCh <- struct{}{} goes through *)
| EvCloseRet                          (* Close: deferred p.wg.Wait() returns *)
| EvClose2                            (* another Close call: CompareAndSwap fails, enters the deferred p.wg.Wait() *)
| EvClose2Ret                         (* ... and that p.wg.Wait() returns *)
| EvLoop (c : choice) (pick : nat)    (* one step of the loop goroutine *)
| EvCbRet                             (* executeFn returns *)
| EvDone                              (* an exiting goroutine runs wg.Done *)
| EvAdvance (d : Z).                  (* time passes *)

(* process(isNext), called with p.lock held *)
Definition process (isNext : bool) (s : state) : state :=
  if running s then
    (* "already running": non-blocking send on resetCh when isNext *)
    if isNext then set_reset s true else s
  else
    (* token taken, wg.Add(1), go processLoop() *)
    set_loop (set_running s true) LTop.

Definition is_head (r : item) (ql : list item) : bool :=
  match q_peek ql with Some h => item_eqb h r | None => false end.

Definition head_has_key (k : Z) (ql : list item) : bool :=
  match q_peek ql with Some h => ikey h =? k | None => false end.

Definition do_enqueue (r : item) (pick : nat) (s : state) : state :=
  let isFirst := head_has_key (ikey r) (q s) in
  let q' := q_insert pick r (q s) in
  let isFirst := isFirst || is_head r q' in
  process isFirst (set_q s q').

Definition do_dequeue (k : Z) (pick : nat) (s : state) : state :=
  let was_head := head_has_key k (q s) in
  let s' := set_q s (q_remove pick k (q s)) in
  if was_head then process true s' else s'.

(* the goroutine releases the running token and heads for wg.Done *)
Definition release_token (s : state) : state :=
  set_exiting (set_loop (set_running s false) LNone) (S (exiting s)).

Definition loop_step (v : variant) (c : choice) (pick : nat) (s : state) : option state :=
  match loop s, c with
  | LTop, ChStep =>
      (* p.lock.Lock(); r, ok = p.queue.Peek(); p.lock.Unlock(); if !ok { return } *)
      match q_peek (q s) with
      | Some r => Some (set_loop s (LChecked r))
      | None =>
          match v with
          | Original => Some (set_loop s LEmptyExit)   (* token released later, lock not held *)
          | Fixed => Some (release_token s)            (* token released before the unlock *)
          end
      end
  | LChecked r, ChStop => if stopch s then Some (set_loop s LStopExit) else None
  | LChecked r, ChReset => if reset s then Some (set_loop (set_reset s false) LTop) else None
  | LChecked r, ChStep =>
      if stopch s || reset s then None else Some (set_loop s (LDeciding r))
  | LDeciding r, ChStep =>
      (* deadline = scheduledTime.Sub(p.clock.Now()); if deadline < 500us { execute } *)
      let d := idue r - clock s in
      if d <? threshold then Some (set_loop s (LExecuting r)) else Some (set_loop s (LArming r d))
  | LArming r d, ChStep =>
      (* t = p.clock.NewTimer(deadline) *)
      Some (set_loop s (LWaiting r (clock s + d)))
  | LWaiting r dl, ChTimer => if dl <=? clock s then Some (set_loop s (LExecuting r)) else None
  | LWaiting r dl, ChReset => if reset s then Some (set_loop (set_reset s false) LTop) else None
  | LWaiting r dl, ChStop => if stopch s then Some (set_loop s LStopExit) else None
  | LExecuting r, ChStep =>
      (* execute: lock; peek; if !ok || peek != r { unlock; return }; pop; unlock *)
      match q_pop pick (q s) with
      | None => Some (set_loop s LTop)
      | Some (h, rest) =>
          if item_eqb h r then
            Some (set_loop (set_executed (set_q s rest) ((h, clock s) :: executed s)) (LCallback h))
          else Some (set_loop s LTop)
      end
  | LEmptyExit, ChStep => Some (release_token s)
  | LStopExit, ChStep => Some (release_token s)
  | _, _ => None
  end.

Definition step (v : variant) (s : state) (e : event) : option state :=
  match e with
  | EvEnq r pick => Some (do_enqueue r pick s)
  | EvDeq k pick => Some (do_dequeue k pick s)
  | EvCloseCAS =>
      match close s with
      | CNone => if stopped s then None else Some (set_close (set_stopped s true) CStopped)
      | _ => None
      end
  | EvCloseStop =>
      match close s with CStopped => Some (set_close (set_stopch s true) CClosed) | _ => None end
  | EvCloseToken =>
      match close s with
      | CClosed => if running s then None else Some (set_close (set_running s true) CToken)
      | _ => None
      end
  | EvCloseRet =>
      match close s, loop s, exiting s with
      | CToken, LNone, O => Some (set_close s CReturned)
      | _, _, _ => None
      end
  | EvClose2 => if stopped s then Some (set_cwait s (S (cwait s)) (cret s)) else None
  | EvClose2Ret =>
      (* wg.Wait(): the counter is zero iff no loop goroutine exists or is on its way to wg.Done *)
      match cwait s, loop s, exiting s with
      | S w, LNone, O => Some (set_cwait s w (S (cret s)))
      | _, _, _ => None
      end
  | EvLoop c pick => loop_step v c pick s
  | EvCbRet => match loop s with LCallback _ => Some (set_loop s LTop) | _ => None end
  | EvDone => match exiting s with S n => Some (set_exiting s n) | O => None end
  | EvAdvance d => if d <? 0 then None else Some (set_clock s (clock s + d))
  end.

Fixpoint run (v : variant) (s : state) (evs : list event) : option state :=
  match evs with
  | [] => Some s
  | e :: t => match step v s e with Some s' => run v s' t | None => None end
  end.

(* events that need no client and no passage of time *)
Definition internal (e : event) : bool :=
  match e with
  | EvLoop _ _ | EvCbRet | EvDone | EvCloseStop | EvCloseToken | EvCloseRet | EvClose2Ret => true
  | _ => false
  end.

(* the loop goroutine is alive and on a path that will look at the queue again *)
Definition serving (s : state) : bool :=
  match loop s with LNone | LEmptyExit | LStopExit => false | _ => true end.

(* ------------------------------------------------------------------------------------ *)
(* A natural-number measure that every internal event strictly decreases (ProofsProgress.v,
   measure_decreases).  It is defined here because the correspondence (Check.v) uses it as the
   fuel of its search for the rest points. *)

Definition rank (l : lpc) : nat :=
  match l with
  | LNone => 0 | LEmptyExit => 2 | LStopExit => 2 | LExecuting _ => 3 | LWaiting _ _ => 4
  | LArming _ _ => 5 | LDeciding _ => 6 | LChecked _ => 7 | LTop => 8 | LCallback _ => 9
  end.

Definition crank (c : cpc) : nat :=
  match c with CNone => 4 | CStopped => 3 | CClosed => 2 | CToken => 1 | CReturned => 0 end.

(* the loop carries an item that is no longer the head *)
Definition stale (s : state) : nat :=
  match loop s with
  | LChecked r | LDeciding r | LArming r _ | LWaiting r _ | LExecuting r =>
      if is_head r (q s) then 0 else 1
  | _ => 0
  end.

Definition measure (s : state) : nat :=
  16 * length (q s) + (if reset s then 8 else 0) + 8 * stale s + rank (loop s) + exiting s +
  crank (close s) + cwait s.

Example run_one_item :
  option_map (fun s => (map (fun p => iid (fst p)) (executed s), loop s, running s))
    (run Fixed init [EvEnq (mkItem 1 1000000 7) 0; EvLoop ChStep 0; EvLoop ChStep 0; EvLoop ChStep 0;
                     EvLoop ChStep 0; EvAdvance 1000000; EvLoop ChTimer 0; EvLoop ChStep 0;
                     EvCbRet; EvLoop ChStep 0; EvDone])
  = Some ([7], LNone, false).
Proof. reflexivity. Qed.
