(* C06 — what the property demands of queue.Processor, written from the property text
   (properties.jsonl, id C06) and the package documentation, not from the code.

   Two views:
   (A) event-system view (used by the theorems over all schedules): predicates on the model's
       state / ghost log are stated directly in Proofs.v/Properties (they need the model's
       vocabulary); the part that is independent of the code is [live_after]: which item
       instances the CLIENT calls alone leave live.
   (B) history view (used by the oracle on what the implementation was observed to do): a
       history is the list of client steps of a test script, each with what was observed once
       the processor had come to rest after it.

   Time is in nanoseconds.  "Not more than 0.5 ms before": [half_ms]. *)
From Kit Require Export C06.Model.
Open Scope Z_scope.

Definition half_ms : Z := 500000.

(* ------------------------------------------------------------------------------------ *)
(* (A) client-only view of liveness: Enqueue makes its instance the live one of its key
   (replacing any other), Dequeue ends the key's live instance.  Execution is not a client
   action and is deliberately ignored here. *)

Definition live_step (l : list item) (e : event) : list item :=
  match e with
  | EvEnq r _ => r :: remove_key (ikey r) l
  | EvDeq k _ => remove_key k l
  | _ => l
  end.

Definition live_after (evs : list event) : list item := fold_left live_step evs [].

Definition enq_ids (evs : list event) : list Z :=
  flat_map (fun e => match e with EvEnq r _ => [iid r] | _ => [] end) evs.

(* every Enqueue call hands over a distinct object *)
Definition fresh_ids (evs : list event) : Prop := NoDup (enq_ids evs).

(* ------------------------------------------------------------------------------------ *)
(* (B) histories *)

Inductive op :=
| OEnq (it : item)            (* p.Enqueue(it) *)
| OEnqHeld (it : item)        (* p.Enqueue(it) is called in its own goroutine and - if it got past the
                                 stopped test - held inside (in it.Key(), i.e. with p.lock held) *)
| OEnqGo (it : item)          (* the held Enqueue(it) is let go and completes *)
| ODeq (k : Z)                (* p.Dequeue(k) *)
| OAdv (t : Z)                (* the injected clock is set to t (never backwards) *)
| OClose                      (* p.Close() is called (in its own goroutine); may be called any number of times *)
| OGates (gn gt gc : bool)    (* test seam: hold the loop at Now() / NewTimer() / in the callback *)
| ORelease.                   (* test seam: let a held loop go on *)

(* SRace t o: the clock is set to t and o is issued at once, without waiting for the loop to
   come to rest in between *)
Inductive sstep := SOp (o : op) | SRace (t : Z) (o : op).

(* what was observed when everything had come to rest after the step:
   callbacks started during the step (item id, injected-clock time), in order;
   where the loop goroutine is: 0 none, 1 held at Now(), 2 held at NewTimer(), 3 parked on its
   timer, 4 inside a held callback, 5 waiting for p.lock (which a held Enqueue has); the timer's deadline (pos 3); how many of the Close calls made
   so far have returned *)
Record obs := mkObs { o_execs : list (Z * Z); o_pos : Z; o_dl : Z; o_closed : Z }.

Definition hist := list (sstep * obs).

Definition op_of (x : sstep) : op := match x with SOp o => o | SRace _ o => o end.
Definition is_race (x : sstep) : bool := match x with SRace _ _ => true | _ => false end.

Definition steps_ix (h : hist) : list (nat * (sstep * obs)) := combine (seq 0 (length h)) h.

Record xrec := mkX { x_step : nat; x_id : Z; x_time : Z }.

(* all callback starts, in global order *)
Definition execs_of (h : hist) : list xrec :=
  flat_map (fun jso : nat * (sstep * obs) =>
              map (fun e : Z * Z => mkX (fst jso) (fst e) (snd e)) (o_execs (snd (snd jso))))
           (steps_ix h).

Definition close_step (h : hist) : option nat :=
  option_map fst (find (fun jso : nat * (sstep * obs) =>
                          match op_of (fst (snd jso)) with OClose => true | _ => false end)
                       (steps_ix h)).

Definition before_close (h : hist) (j : nat) : bool :=
  match close_step h with Some c => (j <? c)%nat | None => true end.

(* the step at which the Enqueue completed by [OEnqGo] at step j was called: the last OEnqHeld
   before j *)
Definition held_call (h : hist) (j : nat) : option nat :=
  option_map fst (find (fun jso : nat * (sstep * obs) =>
                          match op_of (fst (snd jso)) with OEnqHeld _ => true | _ => false end)
                       (rev (firstn j (steps_ix h)))).

(* all Enqueue calls that were made before Close was called (later ones do nothing), with the step
   at which they took effect: (step, item).  A held Enqueue takes effect when it is let go,
   provided it was CALLED before Close was. *)
Definition enqs_of (h : hist) : list (nat * item) :=
  flat_map (fun jso : nat * (sstep * obs) =>
              match op_of (fst (snd jso)) with
              | OEnq it => if before_close h (fst jso) then [(fst jso, it)] else []
              | OEnqGo it =>
                  match held_call h (fst jso) with
                  | Some jh => if before_close h jh then [(fst jso, it)] else []
                  | None => []
                  end
              | _ => []
              end)
           (steps_ix h).

Definition removes (o : op) (k : Z) : bool :=
  match o with ODeq k' => k' =? k | OEnq it => ikey it =? k | OEnqGo it => ikey it =? k | _ => false end.

(* the first step after step j (and before Close is called) that dequeues or replaces key k *)
Definition removal_after (h : hist) (j : nat) (k : Z) : option (nat * sstep) :=
  option_map (fun jso : nat * (sstep * obs) => (fst jso, fst (snd jso)))
    (find (fun jso : nat * (sstep * obs) =>
             (j <? fst jso)%nat && before_close h (fst jso) && removes (op_of (fst (snd jso))) k)
          (steps_ix h)).

Definition step_clock (c : Z) (x : sstep) : Z :=
  match x with
  | SOp (OAdv t) => Z.max c t
  | SRace t _ => Z.max c t
  | _ => c
  end.

(* the injected clock once step j is over *)
Definition clock_at (c0 : Z) (h : hist) (j : nat) : Z :=
  fold_left (fun c so => step_clock c (fst so)) (firstn (S j) h) c0.

(* the loop is not held by a test seam: it has no goroutine or is parked on its timer *)
Definition free_pos (p : Z) : bool := (p =? 0) || (p =? 3).

(* The test clock was never moved while the loop was held between Now() and NewTimer()
   (with a real clock that gap is a few instructions; moving a virtual clock inside it makes
   the timer late by the jump, which says nothing about the code). *)
Fixpoint no_drift_from (prev_pos : Z) (h : hist) : bool :=
  match h with
  | [] => true
  | (x, o) :: t =>
      let moves := match x with SOp (OAdv _) => true | SRace _ _ => true | _ => false end in
      negb (moves && (prev_pos =? 2)) && no_drift_from (o_pos o) t
  end.

(* --- the clauses of the property ----------------------------------------------------- *)

(* exactly once: no instance is handed to the callback twice, and only instances that were
   enqueued (in that step or an earlier one) *)
Definition sp_once (h : hist) : Prop :=
  NoDup (map x_id (execs_of h)) /\
  Forall (fun e => Exists (fun ji : nat * item => iid (snd ji) = x_id e /\ (fst ji <= x_step e)%nat)
                          (enqs_of h)) (execs_of h).

(* not more than 0.5 ms before its scheduled time *)
Definition sp_not_early (h : hist) : Prop :=
  Forall (fun e => Forall (fun ji : nat * item => iid (snd ji) = x_id e ->
                                                  idue (snd ji) - half_ms <= x_time e)
                          (enqs_of h)) (execs_of h).

(* callbacks in scheduled-time order: if a starts before b and b had already been enqueued
   when a started, a is not scheduled later than b *)
Definition enq_before_exec (h : hist) (jb : nat) (a : xrec) : Prop :=
  (jb < x_step a)%nat \/
  (jb = x_step a /\ exists x o, nth_error h jb = Some (x, o) /\ is_race x = false).

Definition ordered_pair (h : hist) (a b : xrec) : Prop :=
  forall ja ia jb ib, In (ja, ia) (enqs_of h) -> In (jb, ib) (enqs_of h) ->
    iid ia = x_id a -> iid ib = x_id b -> enq_before_exec h jb a -> idue ia <= idue ib.

Definition sp_in_order (h : hist) : Prop := ForallOrdPairs (ordered_pair h) (execs_of h).

(* an instance dequeued or replaced before it became due is never executed: an execution of
   the instance lies in an earlier step than the removal, or in the very step of a racing
   removal whose clock jump made it due *)
Definition sp_removed (h : hist) : Prop :=
  forall j it jr xr e, In (j, it) (enqs_of h) -> removal_after h j (ikey it) = Some (jr, xr) ->
    In e (execs_of h) -> x_id e = iid it ->
    (x_step e < jr)%nat \/
    (x_step e = jr /\ exists t o, xr = SRace t o /\ idue it - half_ms <= t).

(* executed when the clock reaches the scheduled time / never stranded: whenever the processor
   has come to rest un-held (and Close was not called), every live instance whose time has
   come has been executed *)
Definition sp_on_time (c0 : Z) (h : hist) : Prop :=
  no_drift_from 0 h = true ->
  forall j x o ji it, nth_error h j = Some (x, o) -> free_pos (o_pos o) = true ->
    before_close h (S j) = true ->
    In (ji, it) (enqs_of h) -> (ji <= j)%nat ->
    (forall jr xr, removal_after h ji (ikey it) = Some (jr, xr) -> (j < jr)%nat) ->
    idue it <= clock_at c0 h j ->
    exists e, In e (execs_of h) /\ x_id e = iid it /\ (x_step e <= j)%nat.

(* how many Close calls were made in steps 0..j *)
Definition is_close (x : sstep) : bool := match op_of x with OClose => true | _ => false end.
Definition closes_upto (h : hist) (j : nat) : Z :=
  Z.of_nat (length (filter (fun so : sstep * obs => is_close (fst so)) (firstn (S j) h))).

(* once a Close call - any of them - has returned no callback is running or will run; and Close
   "blocks until the processor loop returns", no longer: when no loop goroutine is left every Close
   call made so far has returned *)
Definition sp_close (h : hist) : Prop :=
  forall j x o, nth_error h j = Some (x, o) ->
    (0 < o_closed o -> o_pos o = 0 /\ forall e, In e (execs_of h) -> (x_step e <= j)%nat) /\
    (o_pos o = 0 -> o_closed o = closes_upto h j).

Definition spec (c0 : Z) (h : hist) : Prop :=
  sp_once h /\ sp_not_early h /\ sp_in_order h /\ sp_removed h /\ sp_on_time c0 h /\ sp_close h.

(* --- the same clauses as executable tests ---------------------------------------------- *)

Fixpoint nodupb (l : list Z) : bool :=
  match l with
  | [] => true
  | x :: t => negb (existsb (Z.eqb x) t) && nodupb t
  end.

Definition or_once (h : hist) : bool :=
  nodupb (map x_id (execs_of h)) &&
  forallb (fun e => existsb (fun ji : nat * item => (iid (snd ji) =? x_id e) && (fst ji <=? x_step e)%nat)
                            (enqs_of h)) (execs_of h).

Definition or_not_early (h : hist) : bool :=
  forallb (fun e => forallb (fun ji : nat * item =>
                               implb (iid (snd ji) =? x_id e) (idue (snd ji) - half_ms <=? x_time e))
                            (enqs_of h)) (execs_of h).

Definition enq_before_execb (h : hist) (jb : nat) (a : xrec) : bool :=
  (jb <? x_step a)%nat ||
  ((jb =? x_step a)%nat && match nth_error h jb with Some (x, _) => negb (is_race x) | None => false end).

Definition ordered_pairb (h : hist) (a b : xrec) : bool :=
  forallb (fun ja : nat * item =>
    forallb (fun jb : nat * item =>
      implb ((iid (snd ja) =? x_id a) && (iid (snd jb) =? x_id b) && enq_before_execb h (fst jb) a)
            (idue (snd ja) <=? idue (snd jb)))
      (enqs_of h)) (enqs_of h).

Fixpoint ord_pairsb {A} (f : A -> A -> bool) (l : list A) : bool :=
  match l with
  | [] => true
  | a :: t => forallb (f a) t && ord_pairsb f t
  end.

Definition or_in_order (h : hist) : bool := ord_pairsb (ordered_pairb h) (execs_of h).

Definition or_removed (h : hist) : bool :=
  forallb (fun ji : nat * item =>
    match removal_after h (fst ji) (ikey (snd ji)) with
    | None => true
    | Some (jr, xr) =>
        forallb (fun e => implb (x_id e =? iid (snd ji))
                   ((x_step e <? jr)%nat ||
                    ((x_step e =? jr)%nat &&
                     match xr with SRace t _ => idue (snd ji) - half_ms <=? t | _ => false end)))
                (execs_of h)
    end) (enqs_of h).

Definition or_on_time (c0 : Z) (h : hist) : bool :=
  implb (no_drift_from 0 h)
   (forallb (fun jso : nat * (sstep * obs) =>
      let j := fst jso in
      implb (free_pos (o_pos (snd (snd jso))) && before_close h (S j))
        (forallb (fun ji : nat * item =>
           implb ((fst ji <=? j)%nat &&
                  match removal_after h (fst ji) (ikey (snd ji)) with
                  | Some (jr, _) => (j <? jr)%nat | None => true end &&
                  (idue (snd ji) <=? clock_at c0 h j))
                 (existsb (fun e => (x_id e =? iid (snd ji)) && (x_step e <=? j)%nat) (execs_of h)))
           (enqs_of h)))
      (steps_ix h)).

Definition or_close (h : hist) : bool :=
  forallb (fun jso : nat * (sstep * obs) =>
     implb (0 <? o_closed (snd (snd jso)))
           ((o_pos (snd (snd jso)) =? 0) &&
            forallb (fun e => (x_step e <=? fst jso)%nat) (execs_of h)) &&
     implb (o_pos (snd (snd jso)) =? 0) (o_closed (snd (snd jso)) =? closes_upto h (fst jso)))
    (steps_ix h).

Definition oracle (c0 : Z) (h : hist) : bool :=
  or_once h && or_not_early h && or_in_order h && or_removed h && or_on_time c0 h && or_close h.
