(* C06 — invariants of the Processor event system (Model.v), one step at a time.
   Each lemma has the shape  inv s -> step v s e = Some s' -> inv s'  and is used by Proofs.v
   through induction over the schedule. *)
From Kit Require Import C06.Model C06.Spec C06.ProofsQueue.
From Coq Require Import Permutation.
Open Scope Z_scope.

(* ---- schedules ------------------------------------------------------------------------ *)

Lemma run_inv (v : variant) (P : state -> Prop) :
  (forall s e s', P s -> step v s e = Some s' -> P s') ->
  forall evs s0 s, P s0 -> run v s0 evs = Some s -> P s.
Proof.
  intros Hstep. induction evs as [|e evs IH]; intros s0 s H0 Hrun; cbn [run] in Hrun.
  - inversion Hrun; subst; exact H0.
  - destruct (step v s0 e) as [s1|] eqn:E; [|discriminate].
    eapply IH; [|exact Hrun]. eapply Hstep; eassumption.
Qed.

Lemma run_app v s a b :
  run v s (a ++ b) = match run v s a with Some s' => run v s' b | None => None end.
Proof.
  revert s; induction a as [|e a IH]; intros s; cbn [run app]; [reflexivity|].
  destruct (step v s e); [apply IH | reflexivity].
Qed.

Lemma run_snoc v s0 evs e s' :
  run v s0 (evs ++ [e]) = Some s' -> exists s, run v s0 evs = Some s /\ step v s e = Some s'.
Proof.
  rewrite run_app. destruct (run v s0 evs) as [s|]; [|discriminate]. cbn [run].
  destruct (step v s e) as [s1|] eqn:E; [|discriminate]. intros H; inversion H; subst.
  exists s. split; [reflexivity | exact E].
Qed.

(* ---- tactics ---------------------------------------------------------------------------- *)

Ltac inv_some := repeat match goal with
  | H : Some _ = Some _ |- _ => inversion H; subst; clear H
  | H : None = Some _ |- _ => discriminate H
  end.

Ltac break_in H :=
  repeat (match type of H with
  | context [match ?x with _ => _ end] => destruct x eqn:?; cbn in H; try discriminate H
  end).

Ltac break_goal :=
  repeat (match goal with
  | |- context [match ?x with _ => _ end] => destruct x eqn:?; cbn in *; try discriminate
  | H : context [match ?x with _ => _ end] |- _ => destruct x eqn:?; cbn in *; try discriminate
  end).

Lemma q_peek_none ql : q_peek ql = None -> ql = [].
Proof. destruct ql; [reflexivity | discriminate]. Qed.

Ltac peek_none := repeat match goal with H : q_peek ?q = None |- _ => apply q_peek_none in H end.

Ltac zb := repeat match goal with
  | H : (_ <? _) = true |- _ => apply Z.ltb_lt in H
  | H : (_ <? _) = false |- _ => apply Z.ltb_ge in H
  | H : (_ <=? _) = true |- _ => apply Z.leb_le in H
  | H : (_ <=? _) = false |- _ => apply Z.leb_gt in H
  end.

Ltac open_step Hs :=
  unfold do_enqueue, do_dequeue, process, loop_step, release_token in Hs; cbn in Hs;
  break_in Hs; inv_some.

(* ---- (1) tokens, program counters, Close ------------------------------------------------ *)

(* - the running token is held exactly while a loop goroutine exists or Close has taken it;
   - the Close program counter agrees with the stopped flag and the stop channel;
   - a loop that saw the stop channel closed saw it closed; the "saw empty, token still held"
     point exists only in the code before the fix;
   - after the fix: no token held => queue empty (or the stop channel is closed);
   - Close has returned => every loop goroutine has finished (wg). *)
Definition sinv (v : variant) (s : state) : Prop :=
  match loop s with
  | LNone => match close s with CToken | CReturned => running s = true | _ => running s = false end
  | _ => running s = true /\ match close s with CToken | CReturned => False | _ => True end
  end /\
  match close s with
  | CNone => stopped s = false /\ stopch s = false
  | CStopped => stopped s = true /\ stopch s = false
  | _ => stopped s = true /\ stopch s = true
  end /\
  match loop s with LStopExit => stopch s = true | LEmptyExit => v = Original | _ => True end /\
  match v with
  | Fixed => if running s then True else q s = [] \/ stopch s = true
  | Original => True
  end /\
  match close s with CReturned => exiting s = 0%nat | _ => True end.

Lemma sinv_init v t : sinv v (init_at t).
Proof. unfold sinv, init_at; cbn. destruct v; intuition. Qed.

Lemma sinv_step v s e s' : sinv v s -> step v s e = Some s' -> sinv v s'.
Proof.
  destruct s as [q0 run0 rst0 stp0 sch0 clk0 lp0 ex0 cl0 exd0 cw0 cr0].
  intros H Hs. destruct e; cbn in Hs.
  all: open_step Hs.
  all: unfold sinv in *; cbn in *.
  all: break_goal.
  all: peek_none.
  all: solve [intuition (subst; cbn in *; try congruence; try discriminate)].
Qed.

(* a further Close call is inside wg.Wait only if the stopped flag is set *)
Definition winv (s : state) : Prop := cwait s = 0%nat \/ stopped s = true.

Lemma winv_step v s e s' : winv s -> step v s e = Some s' -> winv s'.
Proof.
  destruct s as [q0 run0 rst0 stp0 sch0 clk0 lp0 ex0 cl0 exd0 cw0 cr0].
  unfold winv. intros H Hs. destruct e; cbn in Hs.
  all: open_step Hs; cbn in *; auto.
  all: destruct H as [H|H]; try discriminate H; auto.
Qed.

(* ---- (2) what one step does to the queue and to the execution log ----------------------- *)

Lemma step_q_exec v s e s' : step v s e = Some s' ->
  (q s' = q s /\ executed s' = executed s /\ (forall l, live_step l e = l) /\
   enq_ids [e] = []) \/
  (exists r p, e = EvEnq r p /\ q s' = q_insert p r (q s) /\ executed s' = executed s) \/
  (exists k p, e = EvDeq k p /\ q s' = q_remove p k (q s) /\ executed s' = executed s) \/
  (exists h rest p, e = EvLoop ChStep p /\ q s = h :: rest /\ q s' = choose_head p rest /\
     loop s = LExecuting h /\ loop s' = LCallback h /\
     executed s' = (h, clock s) :: executed s).
Proof.
  destruct s as [q0 run0 rst0 stp0 sch0 clk0 lp0 ex0 cl0 exd0 cw0 cr0].
  intros Hs. destruct e; cbn in Hs.
  - right; left. exists r, pick. open_step Hs; cbn; auto.
  - right; right; left. exists k, pick. open_step Hs; cbn; auto.
  - left. open_step Hs; cbn; auto.
  - left. open_step Hs; cbn; auto.
  - left. open_step Hs; cbn; auto.
  - left. open_step Hs; cbn; auto.
  - left. open_step Hs; cbn; auto.
  - left. open_step Hs; cbn; auto.
  - unfold loop_step in Hs; cbn in Hs.
    destruct lp0; destruct c; try discriminate Hs.
    all: try (left; break_in Hs; inv_some; cbn; auto; fail).
    (* LExecuting, ChStep *)
    unfold q_pop in Hs. destruct q0 as [|h rest]; [left; inv_some; cbn; auto|].
    destruct (item_eqb h r) eqn:E.
    + apply item_eqb_eq in E. subst r. inv_some. right; right; right.
      exists h, rest, pick. cbn. auto 10.
    + left. inv_some. cbn. auto.
  - left. open_step Hs; cbn; auto.
  - left. open_step Hs; cbn; auto.
  - left. open_step Hs; cbn; auto.
Qed.

(* ---- (3) the queue: unique keys, a minimum-time entry at the root ----------------------- *)

Definition qinv (s : state) : Prop := NoDup (map ikey (q s)) /\ hmin (q s).

Lemma qinv_init t : qinv (init_at t).
Proof. split; cbn; [constructor | exact I]. Qed.

Lemma qinv_step v s e s' : qinv s -> step v s e = Some s' -> qinv s'.
Proof.
  intros [Hk Hm] Hs. unfold qinv.
  destruct (step_q_exec _ _ _ _ Hs) as [[Hq _]|[[r [p [_ [Hq _]]]]|[[k [p [_ [Hq _]]]]|
    [h [rest [p [_ [Hq0 [Hq _]]]]]]]]]; rewrite Hq.
  - split; assumption.
  - split; [apply q_insert_keys; exact Hk | apply q_insert_hmin; exact Hm].
  - split; [apply q_remove_keys; exact Hk | apply q_remove_hmin; exact Hm].
  - rewrite Hq0 in Hk. cbn [map] in Hk. inversion Hk; subst.
    split; [eapply perm_keys; [apply choose_head_perm | assumption] | apply choose_head_hmin].
Qed.

(* ---- (4) timing ----------------------------------------------------------------------- *)

(* a deadline computed from Now() is never too short, a timer never fires before the item's
   time, and execute(r) is entered only within the 0.5 ms window (the clock only moves forward) *)
Definition tinv (s : state) : Prop :=
  match loop s with
  | LArming r d => idue r - clock s <= d
  | LWaiting r dl => idue r <= dl
  | LExecuting r => idue r - clock s < threshold
  | _ => True
  end.

Lemma tinv_init t : tinv (init_at t).
Proof. exact I. Qed.

Lemma tinv_step v s e s' : tinv s -> step v s e = Some s' -> tinv s'.
Proof.
  destruct s as [q0 run0 rst0 stp0 sch0 clk0 lp0 ex0 cl0 exd0 cw0 cr0].
  intros H Hs. unfold tinv in *. destruct e; cbn in Hs.
  all: open_step Hs.
  all: cbn in *.
  all: try exact I; try exact H; zb; unfold threshold in *; try lia.
  destruct lp0; try exact I; lia.
Qed.

(* ---- (5) a stale peek is always accompanied by a reset signal --------------------------- *)

(* the item the loop peeked and is still working towards (before it enters execute) *)
Definition peeked (l : lpc) : option item :=
  match l with
  | LChecked r | LDeciding r | LArming r _ | LWaiting r _ => Some r
  | _ => None
  end.

Definition rinv (s : state) : Prop :=
  match peeked (loop s) with
  | Some r => q_peek (q s) = Some r \/ reset s = true
  | None => True
  end.

Lemma rinv_init t : rinv (init_at t).
Proof. exact I. Qed.

Lemma rinv_step v s e s' : sinv v s -> rinv s -> step v s e = Some s' -> rinv s'.
Proof.
  destruct s as [q0 run0 rst0 stp0 sch0 clk0 lp0 ex0 cl0 exd0 cw0 cr0].
  intros HS H Hs. unfold rinv in *. destruct e; cbn in Hs.
  - (* Enqueue *)
    inv_some. unfold do_enqueue, process. cbn.
    assert (Hrun : lp0 <> LNone -> run0 = true).
    { intros Hne. destruct HS as [HA _]. cbn in HA. destruct lp0; try contradiction; apply HA. }
    destruct run0.
    + cbn in *. destruct (head_has_key (ikey r) q0 || is_head r (q_insert pick r q0)) eqn:Ef; cbn.
      * destruct (peeked lp0); [right; reflexivity | exact I].
      * destruct (peeked lp0) as [r0|]; [|exact I].
        destruct H as [H|H]; [|right; exact H]. left.
        apply orb_false_iff in Ef as [Ef1 Ef2].
        destruct q0 as [|h rest]; [discriminate|]. cbn in H. inversion H; subst h.
        cbn in Ef1. unfold is_head in Ef2. cbn [q_insert] in *. rewrite Ef1 in *.
        destruct (idue r <? idue r0); cbn in Ef2 |- *.
        -- rewrite item_eqb_refl in Ef2. discriminate.
        -- reflexivity.
    + cbn. destruct lp0; cbn; try exact I; exfalso; assert (false = true) by (apply Hrun; discriminate); discriminate.
  - (* Dequeue *)
    inv_some. unfold do_dequeue, process. cbn.
    assert (Hrun : lp0 <> LNone -> run0 = true).
    { intros Hne. destruct HS as [HA _]. cbn in HA. destruct lp0; try contradiction; apply HA. }
    destruct (head_has_key k q0) eqn:Eh.
    + destruct run0; cbn.
      * destruct (peeked lp0); [right; reflexivity | exact I].
      * destruct lp0; cbn; try exact I; exfalso; assert (false = true) by (apply Hrun; discriminate); discriminate.
    + cbn in *. destruct (peeked lp0) as [r0|]; [|exact I].
      destruct H as [H|H]; [|right; exact H]. left.
      destruct q0 as [|h rest]; [discriminate|]. cbn in H. inversion H; subst h.
      cbn in Eh. cbn [q_remove]. rewrite Eh. reflexivity.
  - open_step Hs; cbn in *; exact H.
  - open_step Hs; cbn in *; exact H.
  - open_step Hs; cbn in *; exact H.
  - open_step Hs; cbn in *; exact H.
  - open_step Hs; cbn in *; exact H.
  - open_step Hs; cbn in *; exact H.
  - open_step Hs; cbn in *; try exact I; try exact H; try (left; assumption).
    all: try (destruct H as [H|H]; [left; exact H | congruence]).
  - open_step Hs; cbn in *; exact I.
  - open_step Hs; cbn in *; exact H.
  - open_step Hs; cbn in *; exact H.
Qed.

(* ---- (6) the Close program counter only moves forward ----------------------------------- *)

Lemma close_mono v s e s' : step v s e = Some s' ->
  (close s = CToken -> close s' = CToken \/ close s' = CReturned) /\
  (close s = CReturned -> close s' = CReturned).
Proof.
  destruct s as [q0 run0 rst0 stp0 sch0 clk0 lp0 ex0 cl0 exd0 cw0 cr0].
  intros Hs. destruct e; cbn in Hs.
  all: open_step Hs; cbn; split; intros; subst; auto; try discriminate.
Qed.

(* ---- all of it at once ------------------------------------------------------------------ *)

Definition ginv (v : variant) (s : state) : Prop := sinv v s /\ qinv s /\ tinv s /\ rinv s /\ winv s.

Lemma ginv_init v t : ginv v (init_at t).
Proof. split; [apply sinv_init | split; [apply qinv_init | split; [exact I | split; [exact I | left; reflexivity]]]]. Qed.

Lemma ginv_step v s e s' : ginv v s -> step v s e = Some s' -> ginv v s'.
Proof.
  intros [H1 [H2 [H3 [H4 H5]]]] Hs. split; [|split; [|split; [|split]]].
  - eapply sinv_step; eassumption.
  - eapply qinv_step; eassumption.
  - eapply tinv_step; eassumption.
  - eapply rinv_step; eassumption.
  - eapply winv_step; eassumption.
Qed.

Lemma ginv_run v t evs s : run v (init_at t) evs = Some s -> ginv v s.
Proof. apply run_inv; [apply ginv_step | apply ginv_init]. Qed.
