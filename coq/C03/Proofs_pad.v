(* C03 — proofs about the PKCS#7 model (crypto/padding) *)
From Kit Require Import C03.Model.
From Coq Require Import Lia Arith ZifyNat ZifyN.

Lemma forallb_eqb_repeat (p : N) (l : list N) :
  forallb (N.eqb p) l = true -> l = repeat p (length l).
Proof.
  induction l as [|x l IH]; cbn [forallb length repeat]; intro H; [reflexivity|].
  apply andb_true_iff in H as [Hx Hl]. apply N.eqb_eq in Hx. subst x.
  f_equal. now apply IH.
Qed.

Lemma forallb_eqb_repeat_true (p : N) (n : nat) : forallb (N.eqb p) (repeat p n) = true.
Proof.
  induction n as [|n IH]; cbn [repeat forallb]; [reflexivity|].
  now rewrite N.eqb_refl, IH.
Qed.

Lemma last_app_repeat (a : list N) (p : N) (n : nat) :
  0 < n -> last (a ++ repeat p n) 0%N = p.
Proof.
  intro Hn. destruct n as [|n]; [lia|].
  replace (S n) with (n + 1) by lia. rewrite repeat_app, app_assoc. cbn [repeat].
  apply last_last.
Qed.

Lemma size_ok_bounds size :
  pkcs7_size_ok size = true <-> (1 < size < 256)%Z.
Proof.
  unfold pkcs7_size_ok. rewrite andb_true_iff, !Z.ltb_lt. tauto.
Qed.

(* padding always succeeds for a valid block size, adds 1..size bytes, and the result is a
   whole number of blocks *)
Lemma pad_pkcs7_ok (b : list N) (size : Z) :
  (1 < size < 256)%Z ->
  let sz := Z.to_nat size in
  let k := sz - length b mod sz in
  pad_pkcs7 b size = Ok (b ++ repeat (N.of_nat k) k) /\ 1 <= k <= sz /\
  (length b + k) mod sz = 0.
Proof.
  intros Hs sz k. unfold pad_pkcs7.
  replace (pkcs7_size_ok size) with true by (symmetry; now apply size_ok_bounds).
  cbn [negb]. fold sz. unfold len. fold k.
  assert (Hsz : 2 <= sz) by (unfold sz; lia).
  pose proof (Nat.mod_upper_bound (length b) sz ltac:(lia)) as Hm.
  split; [reflexivity|]. split; [unfold k; lia|].
  unfold k.
  rewrite (Nat.div_mod (length b) sz) at 1 by lia.
  replace (sz * (length b / sz) + length b mod sz + (sz - length b mod sz))
    with ((length b / sz + 1) * sz) by nia.
  apply Nat.mod_mul. lia.
Qed.

Theorem pkcs7_roundtrip (b : list N) (size : Z) :
  (1 < size < 256)%Z ->
  exists p, pad_pkcs7 b size = Ok p /\ unpad_pkcs7 p size = Ok b.
Proof.
  intro Hs. destruct (pad_pkcs7_ok b size Hs) as (Hpad & Hk & Hmod).
  set (sz := Z.to_nat size) in *. set (k := sz - length b mod sz) in *.
  eexists; split; [exact Hpad|].
  unfold unpad_pkcs7.
  replace (pkcs7_size_ok size) with true by (symmetry; now apply size_ok_bounds).
  cbn [negb]. fold sz. unfold len.
  rewrite app_length, repeat_length.
  destruct (Nat.eqb_spec (length b + k) 0) as [H0|_]; [lia|].
  rewrite Hmod. cbn [Nat.eqb negb].
  rewrite last_app_repeat by lia. rewrite Nat2N.id.
  destruct (Nat.eqb_spec k 0) as [H0|_]; [lia|].
  destruct (Nat.ltb_spec sz k) as [Hlt|_]; [lia|]. cbn [orb].
  replace (length b + k - k) with (length b) by lia.
  rewrite skipn_app, skipn_all, Nat.sub_diag, skipn_O. cbn [app].
  rewrite forallb_eqb_repeat_true.
  rewrite firstn_app, firstn_all, Nat.sub_diag, firstn_O, app_nil_r. reflexivity.
Qed.

(* whatever unpadding accepts is the result followed by k bytes of value k, 1 <= k <= size
   (or the empty buffer, which the code returns unchanged) *)
Theorem pkcs7_unpad_sound (b b' : list N) (size : Z) :
  unpad_pkcs7 b size = Ok b' ->
  (1 < size < 256)%Z /\
  ((b = [] /\ b' = []) \/
   exists k, 1 <= k <= Z.to_nat size /\ b = b' ++ repeat (N.of_nat k) k /\
             length b mod Z.to_nat size = 0).
Proof.
  unfold unpad_pkcs7. destruct (pkcs7_size_ok size) eqn:Hs; cbn [negb]; [|discriminate].
  apply size_ok_bounds in Hs. intro H. split; [exact Hs|].
  set (sz := Z.to_nat size) in *. unfold len in H.
  destruct (Nat.eqb_spec (length b) 0) as [H0|Hne].
  - left. inversion H. split; [now apply length_zero_iff_nil | reflexivity].
  - destruct (Nat.eqb_spec (length b mod sz) 0) as [Hm|_]; cbn [negb] in H; [|discriminate].
    set (p := last b 0%N) in *. set (k := N.to_nat p) in *.
    destruct (Nat.eqb_spec k 0) as [|Hk0]; cbn [orb] in H; [discriminate|].
    destruct (Nat.ltb_spec sz k) as [|Hksz]; [discriminate|].
    destruct (forallb (N.eqb p) (skipn (length b - k) b)) eqn:Hall; [|discriminate].
    inversion H; subst b'. right. exists k. split; [lia|]. split; [|exact Hm].
    apply forallb_eqb_repeat in Hall.
    rewrite <- (firstn_skipn (length b - k) b) at 1. f_equal.
    rewrite Hall. rewrite skipn_length.
    assert (Hkb : k <= length b).
    { (* the buffer is a non-empty whole number of blocks, so it has at least sz >= k bytes *)
      destruct (Nat.le_gt_cases sz (length b)) as [Hle|Hgt]; [lia|].
      rewrite Nat.mod_small in Hm by lia. lia. }
    replace (length b - (length b - k)) with k by lia.
    unfold k. now rewrite N2Nat.id.
Qed.

(* non-vacuity: a concrete buffer that unpads *)
Example pkcs7_unpad_sound_nonvacuous :
  unpad_pkcs7 [1; 2; 3; 5; 5; 5; 5; 5]%N 8 = Ok [1; 2; 3]%N.
Proof. reflexivity. Qed.

(* bytes stay bytes (needed for the AES instances, where D (E b) = b holds on byte blocks) *)
Lemma forallb_byte_ok_repeat (v : N) (n : nat) :
  (v < 256)%N -> forallb byte_ok (repeat v n) = true.
Proof.
  intro Hv. induction n as [|n IH]; cbn [repeat forallb]; [reflexivity|].
  rewrite IH. unfold byte_ok. rewrite andb_true_r. now apply N.ltb_lt.
Qed.

Lemma pad_pkcs7_bytes_ok (b p : list N) :
  bytes_ok b = true -> pad_pkcs7 b 16 = Ok p -> bytes_ok p = true.
Proof.
  intros Hb Hp. destruct (pad_pkcs7_ok b 16 ltac:(lia)) as (Hpad & _ & _).
  rewrite Hpad in Hp.
  apply (f_equal (fun r : res (list N) => match r with Ok x => x | _ => [] end)) in Hp.
  cbv beta iota in Hp. subst p. unfold bytes_ok in *.
  rewrite forallb_app, Hb. cbn [andb].
  apply forallb_byte_ok_repeat.
  pose proof (Nat.le_sub_l (Z.to_nat 16) (length b mod Z.to_nat 16)) as Hle.
  revert Hle. generalize (Z.to_nat 16 - length b mod Z.to_nat 16). intros m Hle.
  change (Z.to_nat 16) with 16 in Hle. lia.
Qed.
