(* C03 — known-answer tests of the AES-CBC-HMAC-SHA2 model and of the reference composition of
   C03/Spec.v: the test cases of RFC 7518 appendix B.1 - B.3 (= draft-mcgrew-aead-aes-cbc-hmac-sha2-05
   sections 5.1, 5.2, 5.4) and the draft's section 5.3 (AES-256 / HMAC-SHA-384, reachable only
   through crypto/aescbcaead).  Vectors transcribed from the documents (the same strings appear
   in the repository's aescbcaead_test.go).  All closed by vm_compute inside the kernel. *)
From Kit Require Import C03.Model C03.Spec.
From Coq Require Import String.
Local Open Scope string_scope.

Definition kat_pt : list N := hex "41206369706865722073797374656d206d757374206e6f7420626520726571756972656420746f206265207365637265742c20616e64206974206d7573742062652061626c6520746f2066616c6c20696e746f207468652068616e6473206f662074686520656e656d7920776974686f757420696e636f6e76656e69656e6365".
Definition kat_iv : list N := hex "1af38c2dc2b96ffdd86694092341bc04".
Definition kat_aad : list N := hex "546865207365636f6e64207072696e6369706c65206f662041756775737465204b6572636b686f666673".

Definition kat_ch_128_256_key : list N := hex "000102030405060708090a0b0c0d0e0f101112131415161718191a1b1c1d1e1f".
Definition kat_ch_128_256_out : list N := hex "c80edfa32ddf39d5ef00c0b468834279a2e46a1b8049f792f76bfe54b903a9c9a94ac9b47ad2655c5f10f9aef71427e2fc6f9b3f399a221489f16362c703233609d45ac69864e3321cf82935ac4096c86e133314c54019e8ca7980dfa4b9cf1b384c486f3a54c51078158ee5d79de59fbd34d848b3d69550a67646344427ade54b8851ffb598f7f80074b9473c82e2db652c3fa36b0a7c5b3219fab3a30bc1c4".   (* E || T *)

(* Seal gives the published E || T, Open recovers the plaintext, and an altered last ciphertext
   byte is refused with the authentication error *)
Example ch_128_256_seal :
  option_map (fun c => aescbcaead_seal CH_128_256 c kat_iv kat_pt kat_aad) (aescbcaead_new CH_128_256 kat_ch_128_256_key)
  = Some (Ok kat_ch_128_256_out).
Proof. vm_compute. reflexivity. Qed.

Example ch_128_256_open : forall v,
  option_map (fun c => aescbcaead_open v CH_128_256 c kat_iv kat_ch_128_256_out kat_aad) (aescbcaead_new CH_128_256 kat_ch_128_256_key)
  = Some (Ok kat_pt).
Proof. intros [|]; vm_compute; reflexivity. Qed.

(* RFC 7518 B.1 through the dispatch layer and through the reference composition of the spec *)
Example ch_128_256_encrypt_symmetric :
  encrypt_symmetric Fixed "A128CBC-HS256" (KOct kat_ch_128_256_key) kat_iv kat_aad kat_pt
  = Ok (firstn (List.length kat_ch_128_256_out - 16) kat_ch_128_256_out, skipn (List.length kat_ch_128_256_out - 16) kat_ch_128_256_out).
Proof. vm_compute. reflexivity. Qed.

Example ch_128_256_decrypt_symmetric :
  decrypt_symmetric Fixed Fixed "A128CBC-HS256" (KOct kat_ch_128_256_key) kat_iv
    (skipn (List.length kat_ch_128_256_out - 16) kat_ch_128_256_out) kat_aad (firstn (List.length kat_ch_128_256_out - 16) kat_ch_128_256_out)
  = Ok kat_pt.
Proof. vm_compute. reflexivity. Qed.

Example ch_128_256_reference :
  option_map (fun st => ref_encrypt (ss_kind st) kat_ch_128_256_key kat_iv kat_aad kat_pt) (sym_std_of "A128CBC-HS256")
  = Some (firstn (List.length kat_ch_128_256_out - 16) kat_ch_128_256_out, skipn (List.length kat_ch_128_256_out - 16) kat_ch_128_256_out).
Proof. vm_compute. reflexivity. Qed.

Definition kat_ch_192_384_key : list N := hex "000102030405060708090a0b0c0d0e0f101112131415161718191a1b1c1d1e1f202122232425262728292a2b2c2d2e2f".
Definition kat_ch_192_384_out : list N := hex "ea65da6b59e61edb419be62d19712ae5d303eeb50052d0dfd6697f77224c8edb000d279bdc14c1072654bd30944230c657bed4ca0c9f4a8466f22b226d1746214bf8cfc2400add9f5126e479663fc90b3bed787a2f0ffcbf3904be2a641d5c2105bfe591bae23b1d7449e532eef60a9ac8bb6c6b01d35d49787bcd57ef484927f280adc91ac0c4e79c7b11efc60054e38490ac0e58949bfe51875d733f93ac2075168039ccc733d7".   (* E || T *)

(* Seal gives the published E || T, Open recovers the plaintext, and an altered last ciphertext
   byte is refused with the authentication error *)
Example ch_192_384_seal :
  option_map (fun c => aescbcaead_seal CH_192_384 c kat_iv kat_pt kat_aad) (aescbcaead_new CH_192_384 kat_ch_192_384_key)
  = Some (Ok kat_ch_192_384_out).
Proof. vm_compute. reflexivity. Qed.

Example ch_192_384_open : forall v,
  option_map (fun c => aescbcaead_open v CH_192_384 c kat_iv kat_ch_192_384_out kat_aad) (aescbcaead_new CH_192_384 kat_ch_192_384_key)
  = Some (Ok kat_pt).
Proof. intros [|]; vm_compute; reflexivity. Qed.

(* RFC 7518 B.2 through the dispatch layer and through the reference composition of the spec *)
Example ch_192_384_encrypt_symmetric :
  encrypt_symmetric Fixed "A192CBC-HS384" (KOct kat_ch_192_384_key) kat_iv kat_aad kat_pt
  = Ok (firstn (List.length kat_ch_192_384_out - 24) kat_ch_192_384_out, skipn (List.length kat_ch_192_384_out - 24) kat_ch_192_384_out).
Proof. vm_compute. reflexivity. Qed.

Example ch_192_384_decrypt_symmetric :
  decrypt_symmetric Fixed Fixed "A192CBC-HS384" (KOct kat_ch_192_384_key) kat_iv
    (skipn (List.length kat_ch_192_384_out - 24) kat_ch_192_384_out) kat_aad (firstn (List.length kat_ch_192_384_out - 24) kat_ch_192_384_out)
  = Ok kat_pt.
Proof. vm_compute. reflexivity. Qed.

Example ch_192_384_reference :
  option_map (fun st => ref_encrypt (ss_kind st) kat_ch_192_384_key kat_iv kat_aad kat_pt) (sym_std_of "A192CBC-HS384")
  = Some (firstn (List.length kat_ch_192_384_out - 24) kat_ch_192_384_out, skipn (List.length kat_ch_192_384_out - 24) kat_ch_192_384_out).
Proof. vm_compute. reflexivity. Qed.

Definition kat_ch_256_384_key : list N := hex "000102030405060708090a0b0c0d0e0f101112131415161718191a1b1c1d1e1f202122232425262728292a2b2c2d2e2f3031323334353637".
Definition kat_ch_256_384_out : list N := hex "893129b0f4ee9eb18d75eda6f2aaa9f3607c98c4ba0444d34162170d8961884e58f27d4a35a5e3e3234aa99404f327f5c2d78e986e5749858b88bcddc2ba05218f195112d6ad48fa3b1e89aa7f20d596682f10b3648d3bb0c983c3185f59e36d28f647c1c13988de8ea0d821198c150977e28ca768080bc78c35faed69d8c0b7d9f506232198a489a1a6ae03a319fb30dd131d05ab3467dd056f8e882bad70637f1e9a541d9c23e7".   (* E || T *)

(* Seal gives the published E || T, Open recovers the plaintext, and an altered last ciphertext
   byte is refused with the authentication error *)
Example ch_256_384_seal :
  option_map (fun c => aescbcaead_seal CH_256_384 c kat_iv kat_pt kat_aad) (aescbcaead_new CH_256_384 kat_ch_256_384_key)
  = Some (Ok kat_ch_256_384_out).
Proof. vm_compute. reflexivity. Qed.

Example ch_256_384_open : forall v,
  option_map (fun c => aescbcaead_open v CH_256_384 c kat_iv kat_ch_256_384_out kat_aad) (aescbcaead_new CH_256_384 kat_ch_256_384_key)
  = Some (Ok kat_pt).
Proof. intros [|]; vm_compute; reflexivity. Qed.

Definition kat_ch_256_512_key : list N := hex "000102030405060708090a0b0c0d0e0f101112131415161718191a1b1c1d1e1f202122232425262728292a2b2c2d2e2f303132333435363738393a3b3c3d3e3f".
Definition kat_ch_256_512_out : list N := hex "4affaaadb78c31c5da4b1b590d10ffbd3dd8d5d302423526912da037ecbcc7bd822c301dd67c373bccb584ad3e9279c2e6d12a1374b77f077553df829410446b36ebd97066296ae6427ea75c2e0846a11a09ccf5370dc80bfecbad28c73f09b3a3b75e662a2594410ae496b2e2e6609e31e6e02cc837f053d21f37ff4f51950bbe2638d09dd7a4930930806d0703b1f64dd3b4c088a7f45c216839645b2012bf2e6269a8c56a816dbc1b267761955bc5".   (* E || T *)

(* Seal gives the published E || T, Open recovers the plaintext, and an altered last ciphertext
   byte is refused with the authentication error *)
Example ch_256_512_seal :
  option_map (fun c => aescbcaead_seal CH_256_512 c kat_iv kat_pt kat_aad) (aescbcaead_new CH_256_512 kat_ch_256_512_key)
  = Some (Ok kat_ch_256_512_out).
Proof. vm_compute. reflexivity. Qed.

Example ch_256_512_open : forall v,
  option_map (fun c => aescbcaead_open v CH_256_512 c kat_iv kat_ch_256_512_out kat_aad) (aescbcaead_new CH_256_512 kat_ch_256_512_key)
  = Some (Ok kat_pt).
Proof. intros [|]; vm_compute; reflexivity. Qed.

(* RFC 7518 B.3 through the dispatch layer and through the reference composition of the spec *)
Example ch_256_512_encrypt_symmetric :
  encrypt_symmetric Fixed "A256CBC-HS512" (KOct kat_ch_256_512_key) kat_iv kat_aad kat_pt
  = Ok (firstn (List.length kat_ch_256_512_out - 32) kat_ch_256_512_out, skipn (List.length kat_ch_256_512_out - 32) kat_ch_256_512_out).
Proof. vm_compute. reflexivity. Qed.

Example ch_256_512_decrypt_symmetric :
  decrypt_symmetric Fixed Fixed "A256CBC-HS512" (KOct kat_ch_256_512_key) kat_iv
    (skipn (List.length kat_ch_256_512_out - 32) kat_ch_256_512_out) kat_aad (firstn (List.length kat_ch_256_512_out - 32) kat_ch_256_512_out)
  = Ok kat_pt.
Proof. vm_compute. reflexivity. Qed.

Example ch_256_512_reference :
  option_map (fun st => ref_encrypt (ss_kind st) kat_ch_256_512_key kat_iv kat_aad kat_pt) (sym_std_of "A256CBC-HS512")
  = Some (firstn (List.length kat_ch_256_512_out - 32) kat_ch_256_512_out, skipn (List.length kat_ch_256_512_out - 32) kat_ch_256_512_out).
Proof. vm_compute. reflexivity. Qed.

(* the three RFC 7518 appendix B cases, as one statement for Properties/C03.v *)
Definition rfc7518_b_holds : Prop :=
  encrypt_symmetric Fixed "A128CBC-HS256" (KOct kat_ch_128_256_key) kat_iv kat_aad kat_pt
    = Ok (firstn (List.length kat_ch_128_256_out - 16) kat_ch_128_256_out,
          skipn (List.length kat_ch_128_256_out - 16) kat_ch_128_256_out) /\
  encrypt_symmetric Fixed "A192CBC-HS384" (KOct kat_ch_192_384_key) kat_iv kat_aad kat_pt
    = Ok (firstn (List.length kat_ch_192_384_out - 24) kat_ch_192_384_out,
          skipn (List.length kat_ch_192_384_out - 24) kat_ch_192_384_out) /\
  encrypt_symmetric Fixed "A256CBC-HS512" (KOct kat_ch_256_512_key) kat_iv kat_aad kat_pt
    = Ok (firstn (List.length kat_ch_256_512_out - 32) kat_ch_256_512_out,
          skipn (List.length kat_ch_256_512_out - 32) kat_ch_256_512_out).

Lemma rfc7518_b : rfc7518_b_holds.
Proof.
  split; [apply ch_128_256_encrypt_symmetric|].
  split; [apply ch_192_384_encrypt_symmetric | apply ch_256_512_encrypt_symmetric].
Qed.
