(* C03 — source-table tie: the data harness/srctab03 regenerates from the text of
   /repo/crypto/{crypto.go,symmetric.go,asymmetric_enc.go,asymmetric_sig.go},
   /repo/crypto/aescbcaead and /repo/crypto/padding, each item tested against the definition the
   model (Model.v) itself uses.  The model holds the switch statements as classification
   FUNCTIONS (sym_family_of, generic_route, sig_family_of, rsa_enc_scheme_of, es_curve, …): they
   are evaluated on every label of the regenerated switch and must send it where the source
   sends it; the number of labels must be the number the model knows.
   Not in /repo (so not regenerated): the nonce / tag / key sizes of AES-GCM and
   (X)ChaCha20-Poly1305 and aes.BlockSize (Go standard library, golang.org/x/crypto). *)
From Kit Require Import Lib.SrcTab C03.Model.
From Coq Require Import String.
Local Open Scope string_scope.

Definition str_in (s : string) (l : list string) : bool := existsb (String.eqb s) l.

(* which Go function a family / scheme / route is served by *)
Definition sym_callee (enc : bool) (f : sym_family) : string :=
  (if enc then "encryptSymmetric" else "decryptSymmetric") ++
  match f with
  | FCbcPad | FCbcNoPad => "AESCBC" | FGcm => "AESGCM" | FCbcHmac => "AESCBCHMAC" | FKw => "AESKW"
  | FChaCha | FXChaCha => "ChaCha20Poly1305"
  end.

Definition sym_ok (enc : bool) (name callee : tv) : bool :=
  match name, callee with
  | TS n, TS c => match sym_family_of n with Some f => String.eqb (sym_callee enc f) c | None => false end
  | _, _ => false
  end.

Definition route_ok (sym asym : string) (name callee : tv) : bool :=
  match name, callee with
  | TS n, TS c => match generic_route n with
                  | RouteSym => String.eqb c sym
                  | RouteAsym => String.eqb c asym
                  | RouteNone => false
                  end
  | _, _ => false
  end.

Definition rsa_ok (pre : string) (name callee : tv) : bool :=
  match name, callee with
  | TS n, TS c => match rsa_enc_scheme_of n with
                  | Some SchemePKCS1 => String.eqb c (pre ++ "RSAPKCS1v15")
                  | Some (SchemeOAEP _) => String.eqb c (pre ++ "RSAOAEP")
                  | None => false
                  end
  | _, _ => false
  end.

(* digest sizes of the crypto.Hash values (Go standard library) *)
Definition hash_size (src : string) : option nat :=
  if String.eqb src "crypto.SHA1" then Some 20 else if String.eqb src "crypto.SHA256" then Some 32
  else if String.eqb src "crypto.SHA384" then Some 48 else if String.eqb src "crypto.SHA512" then Some 64
  else None.

(* the hash handed to the OAEP functions: given explicitly, or getSHAHash(algorithm) *)
Definition oaep_hash_ok (name hash : tv) : bool :=
  match name, hash with
  | TS n, TS h =>
      match rsa_enc_scheme_of n with
      | Some (SchemeOAEP k) =>
          if String.eqb h "getSHAHash(algorithm)" then Nat.eqb k (sha_hash_size n)
          else match hash_size h with Some k' => Nat.eqb k k' | None => false end
      | _ => false
      end
  | _, _ => false
  end.

Definition sha_ok (suffix hash : tv) : bool :=
  match suffix, hash with
  | TS s, TS h => match hash_size h with
                  | Some k => Nat.eqb (sha_hash_size ("XX" ++ s)) k && Nat.eqb (sha_hash_size ("RSA-OAEP-" ++ s)) k
                  | None => false
                  end
  | _, _ => false
  end.

Definition sig_ok (pre : string) (name callee : tv) : bool :=
  match name, callee with
  | TS n, TS c => match sig_family_of n with
                  | Some SigRS => String.eqb c (pre ++ "RSAPKCS1v15")
                  | Some SigPS => String.eqb c (pre ++ "RSAPSS")
                  | Some SigES => String.eqb c (pre ++ "ECDSA")
                  | Some SigEd => String.eqb c (pre ++ "EdDSA")
                  | None => false
                  end
  | _, _ => false
  end.

Definition chacha_ok (name ctor : tv) : bool :=
  match name, ctor with
  | TS n, TS c => match sym_family_of n with
                  | Some FChaCha => String.eqb c "chacha20poly1305.New"
                  | Some FXChaCha => String.eqb c "chacha20poly1305.NewX"
                  | _ => false
                  end
  | _, _ => false
  end.

Definition curve_ok (name fn : tv) : bool :=
  match name, fn with
  | TS n, TS c => match es_curve n with
                  | Some P256 => String.eqb c "elliptic.P256"
                  | Some P384 => String.eqb c "elliptic.P384"
                  | Some P521 => String.eqb c "elliptic.P521"
                  | None => false
                  end
  | _, _ => false
  end.

Definition keysize_ok (digits size : tv) : bool :=
  match digits, size with
  | TS d, TZ z => (Z.of_nat (expected_key_size ("A" ++ d ++ "GCM")) =? z)%Z
                  && (Z.of_nat (expected_key_size ("A" ++ d ++ "CBC-NOPAD")) =? z)%Z
  | _, _ => false
  end.

(* the names treated as un-padded by encrypt/decryptSymmetricAESCBC = the FCbcNoPad family *)
Definition nopad_ok (v : tv) : bool :=
  match v with
  | TL l => tv_set_eqb l (map TS (filter (fun n => match sym_family_of n with
                                                   | Some f => is_nopad f | None => false end)
                                         supported_symmetric))
  | _ => false
  end.

Definition cbchmac_ctor (k : cbchmac_kind) : string :=
  match k with
  | CH_128_256 => "NewAESCBC128SHA256" | CH_192_384 => "NewAESCBC192SHA384"
  | CH_256_384 => "NewAESCBC256SHA384" | CH_256_512 => "NewAESCBC256SHA512"
  end.

Definition cbchmac_ok (name v : tv) : bool :=
  match name, v with
  | TS n, TL [TZ keylen; TS ctor] =>
      match cbchmac_kind_of n with
      | Some k => (Z.of_nat (cbchmac_total_key k) =? keylen)%Z
                  && String.eqb ctor ("aescbcaead." ++ cbchmac_ctor k)
      | None => false
      end
  | _, _ => false
  end.

Definition mac_src (m : mac_alg) : string :=
  match m with MacSHA256 => "crypto.SHA256.New" | MacSHA384 => "crypto.SHA384.New"
          | MacSHA512 => "crypto.SHA512.New" end.

Definition params_tv (k : cbchmac_kind) : tv :=
  let '(e, m, t, h) := cbchmac_sizes k in TL [tnat e; tnat m; tnat t; TS (mac_src h)].

(* the names the model's OAEP schemes, hash-suffix and key-size functions distinguish *)
Definition oaep_names : list string :=
  filter (fun n => match rsa_enc_scheme_of n with Some (SchemeOAEP _) => true | _ => false end)
         supported_asymmetric.
Definition sha_suffixes : list string :=
  filter (fun d => negb (Nat.eqb (sha_hash_size ("XX" ++ d)) 0)) ["128"; "192"; "256"; "384"; "512"].
Definition key_digits : list string :=
  filter (fun d => negb (Nat.eqb (expected_key_size ("A" ++ d ++ "KW")) 0)) ["128"; "192"; "256"; "384"; "512"].

(* size <= lo || size >= hi is refused *)
Definition pkcs7_ok (v : tv) : bool :=
  match v with
  | TL [TZ lo; TZ hi] =>
      negb (pkcs7_size_ok lo) && pkcs7_size_ok (lo + 1) && pkcs7_size_ok (hi - 1) && negb (pkcs7_size_ok hi)
  | _ => false
  end.

Definition routed_names : list string :=
  filter (fun n => match generic_route n with RouteNone => false | _ => true end)
         (names_cbc_pad ++ names_cbc_nopad ++ names_gcm ++ names_cbc_hmac ++ names_kw
          ++ names_chacha ++ names_xchacha ++ names_gcmkw ++ names_ecdh ++ names_rsa_enc
          ++ names_rs ++ names_ps ++ names_es ++ ["EdDSA"])%list.

Definition count (l : list string) : tv -> bool := eqv (tnat (List.length l)).

Definition table : list entry :=
  [ ("crypto.SupportedSymmetricAlgorithms[]", nth_of (map TS supported_symmetric));
    ("crypto.SupportedSymmetricAlgorithms[#]", count supported_symmetric);
    ("crypto.SupportedAsymmetricAlgorithms[]", nth_of (map TS supported_asymmetric));
    ("crypto.SupportedAsymmetricAlgorithms[#]", count supported_asymmetric);
    ("crypto.SupportedSignatureAlgorithms[]", nth_of (map TS supported_signature));
    ("crypto.SupportedSignatureAlgorithms[#]", count supported_signature);
    ("crypto.Encrypt[]", on_pair (route_ok "EncryptSymmetric" "EncryptPublicKey"));
    ("crypto.Encrypt[#]", count routed_names);
    ("crypto.Decrypt[]", on_pair (route_ok "DecryptSymmetric" "DecryptPrivateKey"));
    ("crypto.Decrypt[#]", count routed_names);
    ("crypto.EncryptSymmetric[]", on_pair (sym_ok true));
    ("crypto.EncryptSymmetric[#]", count supported_symmetric);
    ("crypto.DecryptSymmetric[]", on_pair (sym_ok false));
    ("crypto.DecryptSymmetric[#]", count supported_symmetric);
    ("crypto.EncryptPublicKey[]", on_pair (rsa_ok "encryptPublicKey"));
    ("crypto.EncryptPublicKey[#]", count supported_asymmetric);
    ("crypto.DecryptPrivateKey[]", on_pair (rsa_ok "decryptPrivateKey"));
    ("crypto.DecryptPrivateKey[#]", count supported_asymmetric);
    ("crypto.SignPrivateKey[]", on_pair (sig_ok "signPrivateKey"));
    ("crypto.SignPrivateKey[#]", count supported_signature);
    ("crypto.VerifyPublicKey[]", on_pair (sig_ok "verifyPublicKey"));
    ("crypto.VerifyPublicKey[#]", count supported_signature);
    ("crypto.getChaCha20Poly1305Cipher[]", on_pair chacha_ok);
    ("crypto.getChaCha20Poly1305Cipher[#]", count (names_chacha ++ names_xchacha)%list);
    ("crypto.getECDSACurve[]", on_pair curve_ok);
    ("crypto.getECDSACurve[#]", count names_es);
    ("crypto.EncryptPublicKey.oaepHash[]", on_pair oaep_hash_ok);
    ("crypto.EncryptPublicKey.oaepHash[#]", count oaep_names);
    ("crypto.DecryptPrivateKey.oaepHash[]", on_pair oaep_hash_ok);
    ("crypto.DecryptPrivateKey.oaepHash[#]", count oaep_names);
    ("crypto.getSHAHash[]", on_pair sha_ok);
    ("crypto.getSHAHash[#]", count sha_suffixes);
    ("crypto.expectedKeySize[]", on_pair keysize_ok);
    ("crypto.expectedKeySize[#]", count key_digits);
    ("crypto.encryptSymmetricAESCBC.nopad1", nopad_ok);
    ("crypto.encryptSymmetricAESCBC.nopad2", nopad_ok);
    ("crypto.decryptSymmetricAESCBC.nopad1", nopad_ok);
    ("crypto.getAESCBCHMACCipher[]", on_pair cbchmac_ok);
    ("crypto.getAESCBCHMACCipher[#]", count names_cbc_hmac);
    ("aescbcaead.NewAESCBC128SHA256", eqv (params_tv CH_128_256));
    ("aescbcaead.NewAESCBC192SHA384", eqv (params_tv CH_192_384));
    ("aescbcaead.NewAESCBC256SHA384", eqv (params_tv CH_256_384));
    ("aescbcaead.NewAESCBC256SHA512", eqv (params_tv CH_256_512));
    ("padding.PadPKCS7.size", pkcs7_ok);
    ("padding.UnpadPKCS7.size", pkcs7_ok) ].

Definition run_cases := run_tab table.
