(* C03 — the headline round trip at the level of EncryptSymmetric / DecryptSymmetric: for every
   algorithm name, whatever EncryptSymmetric returns decrypts back to the plaintext under the
   same key, nonce and associated data.  Inside the Section the AES families use the hypothesis
   that AES decryption inverts AES encryption ([aes_inverts]); C03/Proofs_AES.v proves it for the
   Gallina AES of Kit.Crypto, and the theorems at the end of this file are premise-free. *)
From Kit Require Import C03.Model C03.Proofs_pad C03.Proofs_schemes C03.Proofs C03.Proofs_AES.
From Coq Require Import Lia Arith.

Notation length := List.length.

Lemma ok_inj {A} (x y : A) : @Ok A sentinel x = Ok y -> x = y.
Proof. intro H. now injection H. Qed.

(* the helpers, with possibly different (but equally sized) AEAD objects on the two sides *)
Lemma aead_helper_roundtrip2 (a a' : aead) (pt nonce aad ct tag : list N) :
  ad_nonce_size a' = ad_nonce_size a -> ad_overhead a' = ad_overhead a ->
  (forall out, length nonce = ad_nonce_size a -> ad_seal a nonce pt aad = Ok out ->
               ad_overhead a <= length out /\ ad_open a' nonce out aad = Ok pt) ->
  encrypt_aead a pt nonce aad = Ok (ct, tag) ->
  decrypt_aead a' ct nonce tag aad = Ok pt.
Proof.
  intros Hns Hov Hopen. unfold encrypt_aead, decrypt_aead, len. rewrite Hns, Hov.
  destruct (Nat.eqb_spec (length nonce) (ad_nonce_size a)) as [Hn|]; cbn [negb]; [|discriminate].
  destruct (ad_seal a nonce pt aad) as [out|e|] eqn:Hseal; try discriminate.
  destruct (Hopen out Hn eq_refl) as [Hlen Hback].
  intro H. apply ok_inj in H. injection H as <- <-.
  rewrite skipn_length. replace (length out - (length out - ad_overhead a)) with (ad_overhead a) by lia.
  rewrite Nat.eqb_refl. cbn [negb]. now rewrite firstn_skipn.
Qed.

Section WithAES.
  Hypothesis aes_correct : forall key, aes_inverts key.

  Lemma cbc_family_roundtrip alg nopad kb iv pt ct tag :
    bytes_ok iv = true -> bytes_ok pt = true ->
    encrypt_cbc alg nopad kb iv pt = Ok (ct, tag) -> decrypt_cbc alg nopad kb iv ct = Ok pt.
  Proof.
    intros Hokiv Hokpt. unfold encrypt_cbc, decrypt_cbc.
    destruct (Nat.eqb (len kb) (expected_key_size alg)); cbn [negb]; [|discriminate].
    destruct (Nat.eqb_spec (len iv) 16) as [Hiv|]; cbn [negb]; [|discriminate].
    destruct nopad; cbn [andb].
    - destruct (Nat.eqb_spec (len pt mod 16) 0) as [Hpt|]; cbn [negb]; [|discriminate].
      destruct (aes_key_ok kb); cbn [negb]; [|discriminate].
      destruct (go_cbc_roundtrip_gen aesE aesD byte_ok byte_ok_lxor kb (aes_correct kb)
                  (aesE_length kb) (aesE_ok kb) iv pt Hiv Hokiv Hpt Hokpt) as (ct' & Henc & Hl & Hdec).
      rewrite Henc. intro H. apply ok_inj in H. injection H as <- _.
      unfold len in *. rewrite Hl, Hpt. cbn [Nat.eqb negb]. now rewrite Hdec.
    - destruct (aes_key_ok kb); cbn [negb]; [|discriminate].
      destruct (pkcs7_roundtrip pt 16 ltac:(lia)) as (p & Hp & Hun).
      destruct (pad_pkcs7_ok pt 16 ltac:(lia)) as (Hpad & _ & Hmod).
      assert (Hlp : length p mod 16 = 0).
      { rewrite Hpad in Hp. apply ok_inj in Hp. subst p.
        rewrite app_length, repeat_length. exact Hmod. }
      assert (Hokp : bytes_ok p = true) by (eapply pad_pkcs7_bytes_ok; eauto).
      rewrite Hp.
      destruct (go_cbc_roundtrip_gen aesE aesD byte_ok byte_ok_lxor kb (aes_correct kb)
                  (aesE_length kb) (aesE_ok kb) iv p Hiv Hokiv Hlp Hokp) as (ct' & Henc & Hl & Hdec).
      rewrite Henc. intro H. apply ok_inj in H. injection H as <- _.
      unfold len in *. rewrite Hl, Hlp. cbn [Nat.eqb negb]. now rewrite Hdec.
  Qed.

  Lemma gcm_family_roundtrip alg kb nonce aad pt ct tag :
    encrypt_gcm alg kb nonce aad pt = Ok (ct, tag) -> decrypt_gcm alg kb nonce tag aad ct = Ok pt.
  Proof.
    unfold encrypt_gcm, decrypt_gcm.
    destruct (Nat.eqb (len kb) (expected_key_size alg)); cbn [negb]; [|discriminate].
    destruct (aes_key_ok kb); cbn [negb]; [|discriminate].
    apply aead_helper_roundtrip2; try reflexivity.
    intros out _ Hseal. cbn [gcm_aead ad_seal ad_open ad_overhead] in *.
    apply ok_inj in Hseal. subst out. rewrite gcm_seal_length, gcm_open_seal. split; [lia | reflexivity].
  Qed.

  Lemma cbchmac_family_roundtrip v alg kb nonce aad pt ct tag :
    bytes_ok nonce = true -> bytes_ok pt = true ->
    encrypt_cbchmac alg kb nonce aad pt = Ok (ct, tag) ->
    decrypt_cbchmac v alg kb nonce tag aad ct = Ok pt.
  Proof.
    intros Hokn Hokpt. unfold encrypt_cbchmac, decrypt_cbchmac.
    destruct (get_cbchmac alg kb) as [[k c]|e|] eqn:Hget; try discriminate.
    assert (Hnew : aescbcaead_new k kb = Some c).
    { unfold get_cbchmac in Hget. destruct (cbchmac_kind_of alg) as [k0|]; [|discriminate].
      destruct (negb (Nat.eqb (len kb) (cbchmac_total_key k0))); [discriminate|].
      destruct (aescbcaead_new k0 kb) as [c0|] eqn:Hn0; [|discriminate].
      apply ok_inj in Hget. injection Hget as <- <-. exact Hn0. }
    apply aead_helper_roundtrip2; try reflexivity.
    intros out Hn Hseal. cbn [aescbcaead_aead cbchmac_aead ad_seal ad_open ad_overhead ad_nonce_size] in *.
    destruct (aescbcaead_roundtrip v k kb nonce pt aad c Hnew (aes_correct _) Hn Hokn Hokpt)
      as (out' & Hseal' & Hopen').
    unfold aescbcaead_seal, aescbcaead_open in *.
    rewrite Hseal in Hseal'. apply ok_inj in Hseal'. subst out'. split; [|exact Hopen'].
    (* the output ends in a tag of ch_tag bytes *)
    destruct (cbchmac_seal_shape _ _ _ _ _ _ _ _ Hseal) as (ct0 & ->).
    rewrite app_length. unfold cbchmac_tag. rewrite firstn_length.
    assert (Htag : ch_tag c <= length (aescbcaead_mac k (ch_mac_key c)
                      (aad ++ nonce ++ ct0 ++ be64 (8 * lenN aad)))).
    { unfold aescbcaead_new, cbchmac_new in Hnew.
      destruct k; cbn in Hnew;
        match type of Hnew with (if ?b then _ else _) = _ => destruct b; [|discriminate] end;
        injection Hnew as <-; cbn [ch_tag ch_mac_key aescbcaead_mac cbchmac_sizes mac_fn];
        rewrite ?hmac_sha256_length, ?hmac_sha384_length, ?hmac_sha512_length; lia. }
    lia.
  Qed.

  Lemma kw_family_roundtrip v alg kb pt ct tag :
    bytes_ok pt = true ->
    encrypt_kw Fixed alg kb pt = Ok (ct, tag) -> decrypt_kw v alg kb ct = Ok pt.
  Proof.
    intros Hokpt. unfold encrypt_kw, decrypt_kw.
    destruct (Nat.eqb (len kb) (expected_key_size alg)); cbn [negb]; [|discriminate].
    destruct (aes_key_ok kb); cbn [negb]; [|discriminate].
    destruct (aeskw_wrap Fixed kb pt) as [c|e|] eqn:Hw; try discriminate.
    intro H. apply ok_inj in H. injection H as <- _.
    exact (aeskw_roundtrip v kb pt c (aes_correct kb) Hokpt Hw).
  Qed.

  Lemma chacha_family_roundtrip x kb nonce aad pt ct tag :
    encrypt_chacha x kb nonce aad pt = Ok (ct, tag) -> decrypt_chacha x kb nonce tag aad ct = Ok pt.
  Proof.
    intro Henc.
    assert (Hk : length kb = 32 /\ length nonce = chacha_nonce_size x).
    { unfold encrypt_chacha, len in Henc.
      destruct (Nat.eqb_spec (length kb) 32); cbn [negb] in Henc; [|discriminate].
      destruct (Nat.eqb_spec (length nonce) (chacha_nonce_size x)); cbn [negb] in Henc; [|discriminate].
      auto. }
    destruct Hk as [Hk Hn].
    destruct (chacha_roundtrip x kb nonce aad pt Hk Hn) as (ct' & tag' & Henc' & Hdec).
    rewrite Henc in Henc'. apply ok_inj in Henc'. injection Henc' as <- <-. exact Hdec.
  Qed.

  (* DecryptSymmetric inverts EncryptSymmetric on the current tree: every algorithm name, every
     key, nonce, associated data and plaintext made of bytes - whenever encryption succeeds at
     all; no special case (empty key data is refused by key wrap, so it never "succeeds"). *)
  Theorem symmetric_roundtrip (vkw vopen : variant) (alg : string) (key : keyobj)
          (nonce aad pt ct tag : list N) :
    bytes_ok nonce = true -> bytes_ok pt = true ->
    encrypt_symmetric Fixed alg key nonce aad pt = Ok (ct, tag) ->
    decrypt_symmetric vkw vopen alg key nonce tag aad ct = Ok pt.
  Proof.
    intros Hokn Hokpt. unfold encrypt_symmetric, decrypt_symmetric.
    destruct key as [kb| | | | | |]; try discriminate.
    destruct (sym_family_of alg) as [[]|]; try discriminate.
    - now apply cbc_family_roundtrip.
    - now apply cbc_family_roundtrip.
    - apply gcm_family_roundtrip.
    - now apply cbchmac_family_roundtrip.
    - now apply kw_family_roundtrip.
    - apply chacha_family_roundtrip.
    - apply chacha_family_roundtrip.
  Qed.
End WithAES.

(* ------------------------------------------------------------------------------------- *)
(** * The premise discharged: AES decryption inverts AES encryption (C03/Proofs_AES.v), so the
      AES instances hold unconditionally *)

Theorem aes_inverts_holds (key : list N) : aes_inverts key.
Proof.
  intros b Hl Hok. unfold aesD, aesE.
  apply aes_decrypt_encrypt_block_ks; auto using aes_expand_bst.
Qed.

Theorem symmetric_roundtrip_aes (vkw vopen : variant) (alg : string) (key : keyobj)
        (nonce aad pt ct tag : list N) :
  bytes_ok nonce = true -> bytes_ok pt = true ->
  encrypt_symmetric Fixed alg key nonce aad pt = Ok (ct, tag) ->
  decrypt_symmetric vkw vopen alg key nonce tag aad ct = Ok pt.
Proof. exact (symmetric_roundtrip aes_inverts_holds vkw vopen alg key nonce aad pt ct tag). Qed.

(* AES-CBC with and without PKCS#7 as EncryptSymmetric drives it *)
Theorem aes_cbc_roundtrip (alg : string) (nopad : bool) (key iv pt ct tag : list N) :
  bytes_ok iv = true -> bytes_ok pt = true ->
  encrypt_cbc alg nopad key iv pt = Ok (ct, tag) -> decrypt_cbc alg nopad key iv ct = Ok pt.
Proof. exact (cbc_family_roundtrip aes_inverts_holds alg nopad key iv pt ct tag). Qed.

(* aeskw.Wrap / Unwrap over AES *)
Theorem aeskw_roundtrip_aes (v : variant) (key cek c : list N) :
  bytes_ok cek = true -> aeskw_wrap Fixed key cek = Ok c -> aeskw_unwrap v key c = Ok cek.
Proof. exact (aeskw_roundtrip v key cek c (aes_inverts_holds key)). Qed.

Theorem aeskw_wrap_succeeds_aes (vw v : variant) (key cek : list N) :
  length cek mod 8 = 0 -> 8 <= length cek -> bytes_ok cek = true ->
  exists c, aeskw_wrap vw key cek = Ok c /\ aeskw_unwrap v key c = Ok cek.
Proof. exact (aeskw_wrap_succeeds vw v key cek (aes_inverts_holds key)). Qed.

(* the four aescbcaead AEADs over AES *)
Theorem aescbcaead_roundtrip_aes (v : variant) (k : cbchmac_kind) (key nonce pt aad : list N) (c : cbchmac) :
  aescbcaead_new k key = Some c -> length nonce = 16 -> bytes_ok nonce = true -> bytes_ok pt = true ->
  exists out, aescbcaead_seal k c nonce pt aad = Ok out /\ aescbcaead_open v k c nonce out aad = Ok pt.
Proof.
  intros Hnew. exact (aescbcaead_roundtrip v k key nonce pt aad c Hnew (aes_inverts_holds _)).
Qed.

Print Assumptions symmetric_roundtrip_aes.

(* non-vacuity: an encryption that succeeds (RFC 3394 4.1 through the A128KW name) *)
Example symmetric_roundtrip_nonvacuous :
  exists ct, encrypt_symmetric Fixed "A128KW"%string (KOct (hex "000102030405060708090A0B0C0D0E0F")) [] []
               (hex "00112233445566778899AABBCCDDEEFF") = Ok (ct, []).
Proof. eexists. vm_compute. reflexivity. Qed.
