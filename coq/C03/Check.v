(* C03 — executable correspondence interface: the Go harness prints [case] terms holding the
   input AND what the implementation was observed to do; [check_case] compares with the model
   (current tree = Fixed everywhere) and evaluates the spec oracle on the observation. *)
From Kit Require Export C03.Model C03.Spec Lib.CheckLib.
From Coq Require Import Uint63.

(* Packed byte strings of the case files: a byte string of [n] bytes is written as groups of
   primitive 63-bit integers holding seven bytes each, most significant first (the last one
   padded with zero bytes on the right).  Only a matter of how the harness prints long inputs:
   a list of [N] literals costs the parser about 100 us per byte, this form about 7 us. *)
Definition unpack7 (w : int) : list N :=
  [N_of_int8 (w >> 48); N_of_int8 (w >> 40); N_of_int8 (w >> 32); N_of_int8 (w >> 24);
   N_of_int8 (w >> 16); N_of_int8 (w >> 8); N_of_int8 w]%uint63.
Definition pk (n : Z) (groups : list (list int)) : list N :=
  firstn (Z.to_nat n) (flat_map unpack7 (concat groups)).

Example pk_example :
  pk 9 [[0x01020304050607; 0x08ff0000000000]%uint63] = [1; 2; 3; 4; 5; 6; 7; 8; 255]%N.
Proof. vm_compute. reflexivity. Qed.

Inductive case :=
(* EncryptSymmetric ([generic] = through Encrypt of crypto.go) *)
| CSymEnc (generic : bool) (alg : string) (key : keyobj) (nonce aad pt : list N)
          (o : obs (list N * list N))
(* DecryptSymmetric / Decrypt *)
| CSymDec (generic : bool) (alg : string) (key : keyobj) (nonce tag aad ct : list N)
          (o : obs (list N))
(* padding.PadPKCS7 / UnpadPKCS7 *)
| CPad (unpad : bool) (buf : list N) (size : Z) (o : obs (list N))
(* aeskw.Wrap / Unwrap with aes.NewCipher(key), key of 16/24/32 bytes *)
| CKw (unwrap : bool) (key data : list N) (o : obs (list N))
(* aescbcaead.New…(key) then Seal(nil, nonce, data, aad) / Open(nil, nonce, data, aad) *)
| CCbcHs (open : bool) (kind : cbchmac_kind) (key nonce data aad : list N) (o : obs (list N))
(* EncryptPublicKey / Encrypt; [xcheck]: Go's rsa.Decrypt* recovered the plaintext *)
| CPubEnc (generic : bool) (alg : string) (key : keyobj) (ptlen : Z) (o : obs unit) (xcheck : bool)
(* DecryptPrivateKey / Decrypt *)
| CPrivDec (generic : bool) (alg : string) (key : keyobj) (genuine : bool) (o : obs unit)
           (ptmatch : bool)
(* SignPrivateKey; [xcheck]: Go's verification primitive accepted the signature *)
| CSign (alg : string) (key : keyobj) (dlen : Z) (o : obs unit) (xcheck : bool)
(* VerifyPublicKey *)
| CVerify (alg : string) (key : keyobj) (genuine : bool) (valid : bool) (o : obs unit).

(* model result vs observation: same outcome class, same sentinel, same bytes *)
Definition res_agrees {A} (eqb : A -> A -> bool) (r : res A) (o : obs A) : bool :=
  match r, o with
  | Ok a, ObsOk b => eqb a b
  | Err s, ObsErr s' _ => sentinel_eqb s s'
  | Panic, ObsPanic => true
  | _, _ => false
  end.

Definition unit_eqb (_ _ : unit) : bool := true.

Definition enc_out_eqb (a : enc_out) (b : list N * list N) : bool :=
  match a with EOBytes ct tag => pair_eqb (ct, tag) b | EORandom => false end.

Definition model_agrees (c : case) : bool :=
  match c with
  | CSymEnc false alg key nonce aad pt o =>
      res_agrees pair_eqb (encrypt_symmetric Fixed alg key nonce aad pt) o
  | CSymEnc true alg key nonce aad pt o =>
      match encrypt_generic Fixed alg key nonce aad pt, o with
      | Ok a, ObsOk b => enc_out_eqb a b
      | Err s, ObsErr s' _ => sentinel_eqb s s'
      | Panic, ObsPanic => true
      | _, _ => false
      end
  | CSymDec false alg key nonce tag aad ct o =>
      res_agrees eqb_listN (decrypt_symmetric Fixed Fixed alg key nonce tag aad ct) o
  | CSymDec true alg key nonce tag aad ct o =>
      match decrypt_generic Fixed Fixed alg key nonce tag aad ct false, o with
      | Ok (DOBytes p), ObsOk p' => eqb_listN p p'
      | Err s, ObsErr s' _ => sentinel_eqb s s'
      | Panic, ObsPanic => true
      | _, _ => false
      end
  | CPad false buf size o => res_agrees eqb_listN (pad_pkcs7 buf size) o
  | CPad true buf size o => res_agrees eqb_listN (unpad_pkcs7 buf size) o
  | CKw false key data o => res_agrees eqb_listN (aeskw_wrap Fixed key data) o
  | CKw true key data o => res_agrees eqb_listN (aeskw_unwrap Fixed key data) o
  | CCbcHs open kind key nonce data aad o =>
      match aescbcaead_new kind key with
      | None => match o with ObsErr s _ => sentinel_eqb s ErrOther | _ => false end
      | Some c =>
          if open then res_agrees eqb_listN (aescbcaead_open Fixed kind c nonce data aad) o
          else res_agrees eqb_listN (aescbcaead_seal kind c nonce data aad) o
      end
  | CPubEnc false alg key ptlen o _ =>
      res_agrees unit_eqb (encrypt_public_key alg key (Z.to_nat ptlen)) o
  | CPubEnc true alg key ptlen o _ =>
      match encrypt_generic Fixed alg key [] [] (repeat 0%N (Z.to_nat ptlen)), o with
      | Ok EORandom, ObsOk _ => true
      | Err s, ObsErr s' _ => sentinel_eqb s s'
      | _, _ => false
      end
  | CPrivDec false alg key genuine o _ =>
      res_agrees unit_eqb (decrypt_private_key alg key genuine) o
  | CPrivDec true alg key genuine o _ =>
      match decrypt_generic Fixed Fixed alg key [] [] [] [] genuine, o with
      | Ok DOOpaque, ObsOk _ => true
      | Err s, ObsErr s' _ => sentinel_eqb s s'
      | _, _ => false
      end
  | CSign alg key dlen o _ =>
      res_agrees unit_eqb (sign_private_key Fixed alg key (Z.to_nat dlen)) o
  | CVerify alg key genuine valid o =>
      res_agrees unit_eqb (verify_public_key Fixed alg key) o
      && match o with ObsOk _ => Bool.eqb valid genuine | _ => negb valid end
  end.

Definition oracle (c : case) : bool :=
  match c with
  | CSymEnc generic alg key nonce aad pt o =>
      (generic && declinedb o) || sym_enc_oracle alg key nonce aad pt o
  | CSymDec generic alg key nonce tag aad ct o =>
      (generic && declinedb o) || sym_dec_oracle alg key nonce tag aad ct o
  | CPad false buf size o => pad_oracle buf size o
  | CPad true buf size o => unpad_oracle buf size o
  | CKw unwrap key data o => kw_oracle unwrap key data o
  | CCbcHs open kind key nonce data aad o => cbchs_oracle open kind key nonce data aad o
  | CPubEnc generic alg key ptlen o x =>
      (generic && declinedb o) || pub_enc_oracle alg key (Z.to_nat ptlen) o x
  | CPrivDec generic alg key genuine o m =>
      (generic && declinedb o) || priv_dec_oracle alg key genuine o m
  | CSign alg key dlen o x => sign_oracle alg key (Z.to_nat dlen) o x
  | CVerify alg key genuine valid o => verify_oracle alg key genuine valid o
  end.

(* 0 = agree and oracle holds; 1 = model and implementation differ (oracle holds);
   2 = the implementation's observed behaviour violates the spec and the model reproduces that
   behaviour (a defect of the code the model mirrors - the only kind a known finding may absorb);
   3 = it violates the spec and the model does NOT reproduce it (e.g. an edit of the code). *)
Definition check_case (c : case) : Z :=
  if negb (oracle c) then (if model_agrees c then 2 else 3)
  else if negb (model_agrees c) then 1 else 0.

Definition run_cases (cs : list (Z * case)) : list (Z * Z) := failures check_case cs.
