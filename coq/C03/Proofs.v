(* C03 — the theorems of the property, assembled: instances of the scheme proofs
   (Proofs_schemes.v) for the plain premise [D key (E key b) = b] and for AES, the AEAD helper
   laws, the unconditional round trips of the GCM and (X)ChaCha20-Poly1305 entry points, the
   [_refuted] witnesses of the two defects, and the statements Properties/C03.v exports. *)
From Kit Require Import C03.Model C03.Spec C03.Proofs_pad C03.Proofs_schemes C03.KAT.
From Coq Require Import Lia Arith.

Local Open Scope string_scope.
Notation length := List.length.

(* ------------------------------------------------------------------------------------- *)
(** * Instances for an arbitrary block cipher with [D key (E key b) = b] *)

Section Plain.
  Variables E D : list N -> list N -> list N.
  Variable key : list N.
  Hypothesis DE : forall b, length b = 16 -> D key (E key b) = b.
  Hypothesis E_length : forall b, length (E key b) = 16.

  (* Wrap succeeds on n >= 1 whole 64-bit blocks (both variants of Wrap and of Unwrap) and
     Unwrap gives the key data back *)
  Theorem kw_wrap_succeeds (vw v : variant) (cek : list N) :
    length cek mod 8 = 0 -> 8 <= length cek ->
    exists c, kw_wrap E vw key cek = Ok c /\ length c = length cek + 8 /\
              kw_unwrap D v key c = Ok cek.
  Proof.
    intros Hmod Hlen.
    apply (kw_roundtrip_gen E D (fun _ => true) (fun _ => true)); auto using forallb_true.
  Qed.

  (* current tree: whatever Wrap returns, Unwrap inverts - no condition on the length *)
  Theorem kw_roundtrip (v : variant) (cek c : list N) :
    kw_wrap E Fixed key cek = Ok c -> kw_unwrap D v key c = Ok cek.
  Proof.
    apply (kw_wrap_unwrap_gen E D (fun _ => true) (fun _ => true)); auto using forallb_true.
  Qed.

  (* CBC without padding (the NOPAD algorithms) and with PKCS#7 padding *)
  Theorem cbc_roundtrip (iv pt : list N) :
    length iv = 16 -> length pt mod 16 = 0 ->
    exists ct, go_cbc_encrypt E key iv pt = Ok ct /\ go_cbc_decrypt D key iv ct = Ok pt.
  Proof.
    intros Hiv Hpt.
    destruct (go_cbc_roundtrip_gen E D (fun _ => true) (fun _ _ _ _ => eq_refl) key
                (fun b Hb _ => DE b Hb) E_length (fun b => forallb_true _) iv pt Hiv
                (forallb_true _) Hpt (forallb_true _)) as (ct & H1 & _ & H2).
    exists ct. auto.
  Qed.

  Theorem cbc_pkcs7_roundtrip (iv pt : list N) :
    length iv = 16 ->
    exists padded ct, pad_pkcs7 pt 16 = Ok padded /\ go_cbc_encrypt E key iv padded = Ok ct /\
                      exists out, go_cbc_decrypt D key iv ct = Ok out /\ unpad_pkcs7 out 16 = Ok pt.
  Proof.
    intro Hiv.
    destruct (pkcs7_roundtrip pt 16 ltac:(lia)) as (p & Hp & Hun).
    destruct (pad_pkcs7_ok pt 16 ltac:(lia)) as (Hpad & _ & Hmod).
    assert (Hlp : length p mod 16 = 0).
    { rewrite Hpad in Hp.
      apply (f_equal (fun r : res (list N) => match r with Ok x => x | _ => [] end)) in Hp.
      cbv beta iota in Hp. subst p. rewrite app_length, repeat_length. exact Hmod. }
    destruct (cbc_roundtrip iv p Hiv Hlp) as (ct & Henc & Hdec).
    exists p, ct. repeat split; auto. exists p. auto.
  Qed.

  Variable Kok : list N -> bool.
  Variable mac : list N -> list N -> list N.
  Variable c : cbchmac.
  Hypothesis mac_length : forall k m, ch_tag c <= length (mac k m).
  Hypothesis key_is_enc : ch_enc_key c = key.
  Hypothesis key_ok : Kok key = true.

  Theorem cbchmac_roundtrip (v : variant) (nonce pt aad : list N) :
    length nonce = 16 ->
    exists out, cbchmac_seal E Kok mac c nonce pt aad = Ok out /\
                cbchmac_open D Kok mac v c nonce out aad = Ok pt.
  Proof.
    intro Hn.
    apply (cbchmac_roundtrip_gen E D Kok (fun _ => true) (fun _ _ _ _ => eq_refl)
             (fun _ _ => eq_refl) key (fun b Hb _ => DE b Hb) E_length (fun b => forallb_true _)
             mac c mac_length key_is_enc key_ok v nonce pt aad Hn (forallb_true _) (forallb_true _)).
  Qed.
End Plain.

(* non-vacuity of the premise: the identity "cipher" on 16-element blocks *)
Example plain_premise_nonvacuous :
  let E := fun (_ : list N) b => take_pad 16 b in
  (forall key b, length b = 16 -> E key (E key b) = b) /\ (forall key b, length (E key b) = 16).
Proof.
  split.
  - intros key b Hb. cbv beta. rewrite <- Hb. now rewrite !take_pad_exact.
  - intros key b. apply take_pad_length.
Qed.

(* ------------------------------------------------------------------------------------- *)
(** * AES instances.  "AES decryption inverts AES encryption under this key" is the premise
      (tested by the FIPS-197 KATs and the differential runs, not proved in Kit.Crypto). *)

Definition aes_inverts (key : list N) : Prop :=
  forall b, length b = 16 -> bytes_ok b = true -> aesD key (aesE key b) = b.

Lemma aesE_length key b : length (aesE key b) = 16.
Proof. apply aes_encrypt_block_ks_length. Qed.
Lemma aesE_ok key b : bytes_ok (aesE key b) = true.
Proof. apply aes_encrypt_block_ks_ok. Qed.
Lemma kw_iv_ok : bytes_ok kw_iv = true.
Proof. reflexivity. Qed.
Lemma small_byte_ok v : (v <= 16)%N -> byte_ok v = true.
Proof. intro H. unfold byte_ok. apply N.ltb_lt. lia. Qed.

Theorem aeskw_wrap_succeeds (vw v : variant) (key cek : list N) :
  aes_inverts key -> length cek mod 8 = 0 -> 8 <= length cek -> bytes_ok cek = true ->
  exists c, aeskw_wrap vw key cek = Ok c /\ aeskw_unwrap v key c = Ok cek.
Proof.
  intros Hinv Hmod Hlen Hok.
  destruct (kw_roundtrip_gen aesE aesD aes_key_ok byte_ok byte_ok_lxor be64_ok kw_iv_ok key Hinv
              (aesE_length key) (aesE_ok key) vw v cek Hmod Hlen Hok) as (c & H1 & _ & H2).
  exists c. auto.
Qed.

Theorem aeskw_roundtrip (v : variant) (key cek c : list N) :
  aes_inverts key -> bytes_ok cek = true ->
  aeskw_wrap Fixed key cek = Ok c -> aeskw_unwrap v key c = Ok cek.
Proof.
  intros Hinv Hok.
  exact (kw_wrap_unwrap_gen aesE aesD aes_key_ok byte_ok byte_ok_lxor be64_ok kw_iv_ok key Hinv
           (aesE_length key) (aesE_ok key) v cek c Hok).
Qed.

Theorem aescbcaead_roundtrip (v : variant) (k : cbchmac_kind) (key nonce pt aad : list N) (c : cbchmac) :
  aescbcaead_new k key = Some c -> aes_inverts (ch_enc_key c) ->
  length nonce = 16 -> bytes_ok nonce = true -> bytes_ok pt = true ->
  exists out, aescbcaead_seal k c nonce pt aad = Ok out /\
              aescbcaead_open v k c nonce out aad = Ok pt.
Proof.
  intros Hnew Hinv Hn Hokn Hokpt.
  assert (Htag : forall kk m, ch_tag c <= length (aescbcaead_mac k kk m)).
  { unfold aescbcaead_new, cbchmac_new in Hnew. intros kk m.
    destruct k; cbn in Hnew;
      match type of Hnew with (if ?b then _ else _) = _ => destruct b; [|discriminate] end;
      injection Hnew as <-; cbn [ch_tag aescbcaead_mac cbchmac_sizes mac_fn];
      rewrite ?hmac_sha256_length, ?hmac_sha384_length, ?hmac_sha512_length; lia. }
  assert (Hkok : aes_key_ok (ch_enc_key c) = true).
  { unfold aescbcaead_new, cbchmac_new in Hnew. unfold aes_key_ok.
    destruct k; cbn in Hnew;
      match type of Hnew with (if Nat.eqb ?a ?b then _ else _) = _ =>
        destruct (Nat.eqb_spec a b) as [Hl|]; [|discriminate] end;
      injection Hnew as <-; cbn [ch_enc_key]; unfold len in *; rewrite skipn_length, Hl;
      reflexivity. }
  unfold aescbcaead_seal, aescbcaead_open.
  apply (cbchmac_roundtrip_gen aesE aesD aes_key_ok byte_ok byte_ok_lxor small_byte_ok
           (ch_enc_key c) Hinv (aesE_length _) (aesE_ok _) (aescbcaead_mac k) c Htag eq_refl Hkok);
    assumption.
Qed.

(* ------------------------------------------------------------------------------------- *)
(** * The AEAD split/join helpers of symmetric.go *)

(* for ANY cipher.AEAD whose Open inverts its Seal on nonces of its size and whose Seal output
   is at least the overhead long *)
Theorem aead_helper_roundtrip (a : aead) (pt nonce aad : list N) :
  (forall n p ad, length n = ad_nonce_size a ->
     exists out, ad_seal a n p ad = Ok out /\ ad_overhead a <= length out /\
                 ad_open a n out ad = Ok p) ->
  length nonce = ad_nonce_size a ->
  exists ct tag, encrypt_aead a pt nonce aad = Ok (ct, tag) /\ length tag = ad_overhead a /\
                 decrypt_aead a ct nonce tag aad = Ok pt.
Proof.
  intros Hopen Hn. destruct (Hopen nonce pt aad Hn) as (out & Hseal & Hlen & Hback).
  unfold encrypt_aead, decrypt_aead, len. rewrite Hn, Nat.eqb_refl. cbn [negb]. rewrite Hseal.
  eexists _, _. split; [reflexivity|].
  assert (Ht : length (skipn (length out - ad_overhead a) out) = ad_overhead a)
    by (rewrite skipn_length; lia).
  split; [exact Ht|]. rewrite Ht, Nat.eqb_refl. cbn [negb].
  now rewrite firstn_skipn.
Qed.

(* structural half of tamper rejection: a nonce or tag of the wrong length is refused with the
   sentinel before the cipher is consulted, for every AEAD - no premise *)
Theorem aead_helper_wrong_nonce (a : aead) (ct nonce tag aad pt : list N) :
  length nonce <> ad_nonce_size a ->
  decrypt_aead a ct nonce tag aad = Err ErrInvalidNonce /\
  encrypt_aead a pt nonce aad = Err ErrInvalidNonce.
Proof.
  intro Hn. unfold decrypt_aead, encrypt_aead, len.
  destruct (Nat.eqb_spec (length nonce) (ad_nonce_size a)); [contradiction|]. auto.
Qed.

Theorem aead_helper_wrong_tag (a : aead) (ct nonce tag aad : list N) :
  length nonce = ad_nonce_size a -> length tag <> ad_overhead a ->
  decrypt_aead a ct nonce tag aad = Err ErrInvalidTag.
Proof.
  intros Hn Ht. unfold decrypt_aead, len. rewrite Hn, Nat.eqb_refl. cbn [negb].
  destruct (Nat.eqb_spec (length tag) (ad_overhead a)); [contradiction|]. reflexivity.
Qed.

(* instance: AES-GCM as the code builds it - Open inverts Seal with NO cryptographic premise
   (gcm_open_seal is proved in Kit.Crypto.GCM) *)
Lemma gcm_aead_open_seal key n p ad : length n = ad_nonce_size (gcm_aead key) ->
  exists out, ad_seal (gcm_aead key) n p ad = Ok out /\ ad_overhead (gcm_aead key) <= length out /\
              ad_open (gcm_aead key) n out ad = Ok p.
Proof.
  intros _. cbn [gcm_aead ad_seal ad_open ad_overhead]. eexists; split; [reflexivity|].
  split; [rewrite gcm_seal_length; lia|]. now rewrite gcm_open_seal.
Qed.

Theorem gcm_roundtrip (alg : string) (key nonce aad pt : list N) :
  length key = expected_key_size alg -> aes_key_ok key = true -> length nonce = 12 ->
  exists ct tag, encrypt_gcm alg key nonce aad pt = Ok (ct, tag) /\
                 decrypt_gcm alg key nonce tag aad ct = Ok pt.
Proof.
  intros Hk Hok Hn. unfold encrypt_gcm, decrypt_gcm, len. rewrite Hk, Nat.eqb_refl, Hok.
  cbn [negb].
  destruct (aead_helper_roundtrip (gcm_aead key) pt nonce aad (gcm_aead_open_seal key) Hn)
    as (ct & tag & H1 & _ & H2).
  exists ct, tag. auto.
Qed.

(* (X)ChaCha20-Poly1305 entry points: unconditional as well *)
Theorem chacha_roundtrip (x : bool) (key nonce aad pt : list N) :
  length key = 32 -> length nonce = chacha_nonce_size x ->
  exists ct tag, encrypt_chacha x key nonce aad pt = Ok (ct, tag) /\
                 decrypt_chacha x key nonce tag aad ct = Ok pt.
Proof.
  intros Hk Hn. unfold encrypt_chacha, decrypt_chacha, len. rewrite Hk, Hn, !Nat.eqb_refl.
  cbn [negb].
  set (out := if x then xchacha20poly1305_seal key nonce aad pt
              else chacha20poly1305_seal key nonce aad pt).
  assert (Hl : 16 <= length out).
  { unfold out. destruct x.
    - unfold xchacha20poly1305_seal. rewrite chacha20poly1305_seal_length. lia.
    - rewrite chacha20poly1305_seal_length. lia. }
  eexists _, _. split; [reflexivity|].
  rewrite skipn_length. replace (length out - (length out - 16)) with 16 by lia.
  cbn [Nat.eqb negb]. rewrite firstn_skipn. unfold out.
  destruct x; [rewrite xchacha20poly1305_open_seal | rewrite chacha20poly1305_open_seal];
    reflexivity.
Qed.

(* ------------------------------------------------------------------------------------- *)
(** * Key wrap: the length check *)

(* current tree: whatever Unwrap accepts is a whole number (at least two) of 64-bit blocks -
   for any block cipher *)
Theorem kw_length_strict (D : list N -> list N -> list N) (key c p : list N) :
  kw_unwrap D Fixed key c = Ok p -> length c mod 8 = 0 /\ 16 <= length c.
Proof.
  unfold kw_unwrap, len. cbn [is_fixed andb].
  destruct (Nat.eqb_spec (length c mod 8) 0) as [Hm|]; cbn [negb orb]; [|discriminate].
  destruct (Nat.ltb_spec (length c) 16) as [|Hl]; [discriminate|]. auto.
Qed.

(* the code before 11855a3: the RFC 3394 section 4.1 wrapped key followed by three arbitrary
   bytes unwraps to the key *)
Theorem kw_length_refuted :
  exists key c p, length c mod 8 <> 0 /\ aeskw_unwrap Original key c = Ok p.
Proof.
  exists (hex "000102030405060708090A0B0C0D0E0F"),
         (hex "1FA68B0A8112B447AEF34BD8FB5A7B829D3E862371D2CFE5AABBCC"),
         (hex "00112233445566778899AABBCCDDEEFF").
  split; [vm_compute; discriminate | vm_compute; reflexivity].
Qed.

(* the code before fixes/C03-kw-wrap-empty.patch: the EMPTY key data "wraps" to the bare 8-byte
   integrity check value, which Unwrap (either variant that does not panic) refuses - an output
   that cannot be decrypted; on the current tree Wrap refuses the empty input *)
Theorem kw_wrap_empty_refuted :
  exists key c, aeskw_wrap Original key [] = Ok c /\ aeskw_unwrap Fixed key c = Err ErrOther /\
                encrypt_symmetric Original "A128KW" (KOct key) [] [] [] = Ok (c, []) /\
                decrypt_symmetric Fixed Fixed "A128KW" (KOct key) [] [] [] c = Err ErrOther.
Proof.
  exists (hex "000102030405060708090A0B0C0D0E0F"), kw_iv.
  repeat split; vm_compute; reflexivity.
Qed.

Example kw_wrap_empty_refused : forall key,
  aeskw_wrap Fixed key [] = Err ErrOther.
Proof. reflexivity. Qed.

(* and the same input on the current tree is refused *)
Example kw_trailing_bytes_refused :
  aeskw_unwrap Fixed (hex "000102030405060708090A0B0C0D0E0F")
    (hex "1FA68B0A8112B447AEF34BD8FB5A7B829D3E862371D2CFE5AABBCC") = Err ErrOther.
Proof. vm_compute. reflexivity. Qed.

(* ------------------------------------------------------------------------------------- *)
(** * ES256 / ES384 / ES512 and the curve of the key (RFC 7518 section 3.4) *)

(* after the fix: signing and verifying succeed only with a key on the curve the name stands
   for; every other EC key is ErrKeyTypeMismatch *)
Theorem es_curve_checked (alg : string) (c0 c : curve) (dlen : nat) :
  es_curve alg = Some c0 ->
  (sign_private_key Fixed alg (KEcPriv c) dlen = Ok tt <-> c = c0) /\
  (c <> c0 -> sign_private_key Fixed alg (KEcPriv c) dlen = Err ErrKeyTypeMismatch) /\
  (verify_public_key Fixed alg (KEcPub c) = Ok tt <-> c = c0) /\
  (c <> c0 -> verify_public_key Fixed alg (KEcPub c) = Err ErrKeyTypeMismatch /\
              verify_public_key Fixed alg (KEcPriv c) = Err ErrKeyTypeMismatch).
Proof.
  unfold es_curve. intro Hes.
  destruct (String.eqb_spec alg "ES256") as [->|];
    [|destruct (String.eqb_spec alg "ES384") as [->|];
      [|destruct (String.eqb_spec alg "ES512") as [->|]; [|discriminate]]];
    injection Hes as <-; destruct c; vm_compute;
    repeat split; intros; try reflexivity; try congruence; try discriminate.
Qed.

(* the code as it stands in /repo before the fix: ES256 signs and verifies with a P-384 key *)
Theorem es_curve_refuted :
  exists alg c c0 dlen, es_curve alg = Some c0 /\ c <> c0 /\
    sign_private_key Original alg (KEcPriv c) dlen = Ok tt /\
    verify_public_key Original alg (KEcPub c) = Ok tt.
Proof.
  exists "ES256", P384, P256, 32. repeat split; try reflexivity. discriminate.
Qed.
