(* C03 — oracle soundness: every boolean oracle of [Kit.C03.Spec] decides exactly the Prop it
   stands for, and [Check.oracle] decides [case_spec], the per-constructor spec Prop.
   Stdlib style; no axioms (see [Print Assumptions] at the end).

   The spec Props and the oracles share their [if]/[match] skeleton, so every proof is:
   unfold both, destruct the shared scrutinees, close the leaves with the reflection lemmas of
   the first two sections.  Nothing below ever reduces a cryptographic primitive: scrutinees
   are abstracted with [destruct], never computed. *)
From Kit Require Import C03.Check.
From Coq Require Import ZArith NArith List Lia Bool Setoid.
Import ListNotations.

(* refute a hypothesis that equates (possibly under [exists] / a conjunction) observations or
   booleans with different head constructors *)
Ltac absurd_hyp H :=
  let s' := fresh "s'" in let H' := fresh "H'" in
  lazymatch type of H with
  | _ = _ => discriminate H
  | exists _, _ /\ _ => destruct H as [s' [H' _]]; discriminate H'
  | exists _, _ => destruct H as [s' H']; discriminate H'
  | _ /\ _ => destruct H as [H' _]; discriminate H'
  end.

(* ------------------------------------------------------------------------------------- *)
(** * Reflection of the helper predicates *)

Lemma sentinel_eqb_sound (a b : sentinel) : sentinel_eqb a b = true <-> a = b.
Proof.
  destruct a, b; cbn [sentinel_eqb]; split; intro H;
    first [reflexivity | discriminate H].
Qed.

Lemma is_clean_errorb_sound {A} (o : obs A) : is_clean_errorb o = true <-> is_clean_error o.
Proof.
  unfold is_clean_error.
  destruct o as [a|s [|]|]; cbn [is_clean_errorb]; split; intro H;
    try absurd_hyp H.
  - exists s; reflexivity.
  - reflexivity.
Qed.

Lemma sentinel_in_sound (s : sentinel) (l : list sentinel) : sentinel_in s l = true <-> In s l.
Proof.
  unfold sentinel_in. rewrite existsb_exists. split.
  - intros [x [Hin Heq]]. apply sentinel_eqb_sound in Heq. subst x. exact Hin.
  - intro Hin. exists s. split; [exact Hin | apply sentinel_eqb_sound; reflexivity].
Qed.

Lemma err_amongb_sound {A} (ps : list sentinel) (o : obs A) :
  err_amongb ps o = true <-> err_among ps o.
Proof.
  unfold err_among.
  destruct o as [a|s [|]|]; cbn [err_amongb]; split; intro H;
    try absurd_hyp H.
  - exists s. split; [reflexivity | apply sentinel_in_sound; exact H].
  - destruct H as [s' [Heq Hin]]. inversion Heq; subst s'. apply sentinel_in_sound; exact Hin.
Qed.

Lemma declinedb_sound {A} (o : obs A) : declinedb o = true <-> declined o.
Proof.
  unfold declined.
  destruct o as [a|s [|]|]; try destruct s; cbn [declinedb]; split; intro H;
    first [reflexivity | discriminate H].
Qed.

Lemma pair_eqb_sound (a b : list N * list N) : pair_eqb a b = true <-> a = b.
Proof.
  destruct a as [a1 a2], b as [b1 b2]. unfold pair_eqb. cbn [fst snd].
  rewrite andb_true_iff, !eqb_listN_spec. split.
  - intros [H1 H2]. subst. reflexivity.
  - intro H. inversion H. split; reflexivity.
Qed.

Lemma not_padding_errorb_sound (s : sentinel) :
  not_padding_errorb s = true <-> not_padding_error s.
Proof.
  unfold not_padding_error, not_padding_errorb.
  destruct s; cbn [sentinel_eqb negb andb]; split; intro H;
    try discriminate H;
    try reflexivity;
    try (split; intro H'; discriminate H');
    try (destruct H as [H1 H2]; first [elim H1; reflexivity | elim H2; reflexivity]).
Qed.

(* ------------------------------------------------------------------------------------- *)
(** * Reflection of the leaves of the oracles (the [match o with ...] forms) *)

Lemma leaf_ok_list (o : obs (list N)) (p : list N) :
  match o with ObsOk p' => eqb_listN p' p | _ => false end = true <-> o = ObsOk p.
Proof.
  destruct o as [a|s b|]; split; intro H; try discriminate H.
  - apply eqb_listN_spec in H. subst a. reflexivity.
  - inversion H. apply eqb_listN_spec. reflexivity.
Qed.

Lemma leaf_ok_pair (o : obs (list N * list N)) (p : list N * list N) :
  match o with ObsOk out => pair_eqb out p | _ => false end = true <-> o = ObsOk p.
Proof.
  destruct o as [a|s b|]; split; intro H; try discriminate H.
  - apply pair_eqb_sound in H. subst a. reflexivity.
  - inversion H. apply pair_eqb_sound. reflexivity.
Qed.

Lemma leaf_ok_nil_or_clean (o : obs (list N)) :
  match o with ObsOk [] => true | _ => is_clean_errorb o end = true
  <-> o = ObsOk [] \/ is_clean_error o.
Proof.
  destruct o as [[|x a]|s b|].
  - split; intro H; [left; reflexivity | reflexivity].
  - rewrite is_clean_errorb_sound. split; intro H.
    + right; exact H.
    + destruct H as [H | H]; [discriminate H | exact H].
  - rewrite is_clean_errorb_sound. split; intro H.
    + right; exact H.
    + destruct H as [H | H]; [discriminate H | exact H].
  - rewrite is_clean_errorb_sound. split; intro H.
    + right; exact H.
    + destruct H as [H | H]; [discriminate H | exact H].
Qed.

Lemma leaf_panic_or_clean (o : obs (list N)) :
  match o with ObsPanic => true | _ => is_clean_errorb o end = true
  <-> o = ObsPanic \/ is_clean_error o.
Proof.
  destruct o as [a|s b|].
  - rewrite is_clean_errorb_sound. split; intro H.
    + right; exact H.
    + destruct H as [H | H]; [discriminate H | exact H].
  - rewrite is_clean_errorb_sound. split; intro H.
    + right; exact H.
    + destruct H as [H | H]; [discriminate H | exact H].
  - split; intro H; [left; reflexivity | reflexivity].
Qed.

Lemma leaf_not_padding {A} (o : obs A) :
  match o with ObsErr s true => not_padding_errorb s | _ => false end = true
  <-> exists s, o = ObsErr s true /\ not_padding_error s.
Proof.
  destruct o as [a|s [|]|]; split; intro H;
    try absurd_hyp H.
  - exists s. split; [reflexivity | apply not_padding_errorb_sound; exact H].
  - destruct H as [s' [Heq Hnp]]. inversion Heq; subst s'.
    apply not_padding_errorb_sound; exact Hnp.
Qed.

(* the leaves that demand one particular sentinel *)
Ltac exact_sentinel_leaf o :=
  let a := fresh "a" in let s := fresh "s" in let H := fresh "H" in
  destruct o as [a|s [|]|]; try destruct s; split; intro H;
    first [reflexivity | discriminate H].

Lemma leaf_err_blocksize {A} (o : obs A) :
  match o with ObsErr ErrPkcs7BlockSize true => true | _ => false end = true
  <-> o = ObsErr ErrPkcs7BlockSize true.
Proof. exact_sentinel_leaf o. Qed.

Lemma leaf_err_padding {A} (o : obs A) :
  match o with ObsErr ErrPkcs7Padding true => true | _ => false end = true
  <-> o = ObsErr ErrPkcs7Padding true.
Proof. exact_sentinel_leaf o. Qed.

Lemma leaf_err_keytype {A} (o : obs A) :
  match o with ObsErr ErrKeyTypeMismatch true => true | _ => false end = true
  <-> o = ObsErr ErrKeyTypeMismatch true.
Proof. exact_sentinel_leaf o. Qed.

Lemma leaf_err_unsupported {A} (o : obs A) :
  match o with ObsErr ErrUnsupportedAlgorithm true => true | _ => false end = true
  <-> o = ObsErr ErrUnsupportedAlgorithm true.
Proof. exact_sentinel_leaf o. Qed.

Lemma leaf_ok_unit (o : obs unit) (x : bool) :
  match o with ObsOk _ => x | _ => false end = true <-> o = ObsOk tt /\ x = true.
Proof.
  destruct o as [[]|s b|]; split; intro H;
    try absurd_hyp H.
  - split; [reflexivity | exact H].
  - destruct H as [_ H]. exact H.
Qed.

Lemma leaf_ok_unit_eqb (o : obs unit) (valid genuine : bool) :
  match o with ObsOk _ => Bool.eqb valid genuine | _ => false end = true
  <-> o = ObsOk tt /\ valid = genuine.
Proof.
  destruct o as [[]|s b|]; split; intro H;
    try absurd_hyp H.
  - split; [reflexivity | apply eqb_prop; exact H].
  - destruct H as [_ H]. subst valid. apply eqb_reflx.
Qed.

Lemma leaf_err_unsupported_invalid (o : obs unit) (valid : bool) :
  match o with ObsErr ErrUnsupportedAlgorithm true => negb valid | _ => false end = true
  <-> o = ObsErr ErrUnsupportedAlgorithm true /\ valid = false.
Proof.
  destruct o as [a|s [|]|]; try destruct s; split; intro H;
    try absurd_hyp H.
  - split; [reflexivity | apply negb_true_iff; exact H].
  - destruct H as [_ H]. apply negb_true_iff; exact H.
Qed.

Lemma leaf_err_keytype_invalid (o : obs unit) (valid : bool) :
  match o with ObsErr ErrKeyTypeMismatch true => negb valid | _ => false end = true
  <-> o = ObsErr ErrKeyTypeMismatch true /\ valid = false.
Proof.
  destruct o as [a|s [|]|]; try destruct s; split; intro H;
    try absurd_hyp H.
  - split; [reflexivity | apply negb_true_iff; exact H].
  - destruct H as [_ H]. apply negb_true_iff; exact H.
Qed.

(* PKCS#1 v1.5, altered ciphertext: no panic, and an error carries no output *)
Lemma leaf_pkcs1_altered (o : obs unit) :
  match o with ObsOk _ => true | ObsErr _ b => b | ObsPanic => false end = true
  <-> o <> ObsPanic /\ (forall s b, o = ObsErr s b -> b = true).
Proof.
  destruct o as [a|s b|]; split; intro H.
  - split; [intro H'; discriminate H' | intros s' b' H'; discriminate H'].
  - reflexivity.
  - split; [intro H'; discriminate H' |].
    intros s' b' H'. inversion H'; subst. reflexivity.
  - destruct H as [_ H]. apply (H s b). reflexivity.
  - discriminate H.
  - destruct H as [H _]. elim H. reflexivity.
Qed.

Lemma leaf_false : false = true <-> False.
Proof. split; intro H; [discriminate H | contradiction]. Qed.

(* close any leaf *)
Ltac leaf :=
  first
    [ apply is_clean_errorb_sound
    | apply err_amongb_sound
    | apply leaf_ok_list
    | apply leaf_ok_pair
    | apply leaf_ok_nil_or_clean
    | apply leaf_panic_or_clean
    | apply leaf_not_padding
    | apply leaf_err_blocksize
    | apply leaf_err_padding
    | apply leaf_err_keytype
    | apply leaf_err_unsupported
    | apply leaf_ok_unit
    | apply leaf_ok_unit_eqb
    | apply leaf_err_unsupported_invalid
    | apply leaf_err_keytype_invalid
    | apply leaf_pkcs1_altered
    | apply leaf_false ].

(* ------------------------------------------------------------------------------------- *)
(** * The ten oracles *)

Lemma sym_enc_oracle_sound alg key nonce aad pt o :
  sym_enc_oracle alg key nonce aad pt o = true <-> sym_enc_spec alg key nonce aad pt o.
Proof.
  unfold sym_enc_oracle, sym_enc_spec.
  destruct (sym_problems false alg key nonce [] pt) as [|s0 ps] eqn:Hps; [| leaf].
  destruct (sym_std_of alg) as [st|] eqn:Hst; [| leaf].
  destruct (data_unnamed_problem false (ss_kind st) (List.length pt)) eqn:Hdu; leaf.
Qed.

Lemma sym_dec_oracle_sound alg key nonce tag aad ct o :
  sym_dec_oracle alg key nonce tag aad ct o = true <-> sym_dec_spec alg key nonce tag aad ct o.
Proof.
  unfold sym_dec_oracle, sym_dec_spec.
  destruct (sym_problems true alg key nonce tag ct) as [|s0 ps] eqn:Hps; [| leaf].
  destruct (sym_std_of alg) as [st|] eqn:Hst; [| leaf].
  cbv zeta.
  destruct (data_unnamed_problem true (ss_kind st) (List.length ct)) eqn:Hdu; [leaf |].
  destruct (negb (ref_tag_ok (ss_kind st) (key_bytes key) nonce tag aad ct)) eqn:Htag; [leaf |].
  destruct (padded_kind (ss_kind st) && Nat.eqb (List.length ct) 0) eqn:Hempty; [leaf |].
  destruct (ref_decrypt (ss_kind st) (key_bytes key) nonce tag aad ct) as [p|] eqn:Hdec; leaf.
Qed.

Lemma pad_oracle_sound buf size o : pad_oracle buf size o = true <-> pad_spec buf size o.
Proof.
  unfold pad_oracle, pad_spec.
  destruct ((1 <? size) && (size <? 256))%Z eqn:Hsize; leaf.
Qed.

Lemma unpad_oracle_sound buf size o : unpad_oracle buf size o = true <-> unpad_spec buf size o.
Proof.
  unfold unpad_oracle, unpad_spec.
  destruct ((1 <? size) && (size <? 256))%Z eqn:Hsize; [| leaf].
  destruct buf as [|x buf']; [leaf |].
  destruct (ref_unpad (Z.to_nat size) (x :: buf')) as [p|] eqn:Hun; leaf.
Qed.

Lemma kw_oracle_sound unwrap key data o :
  kw_oracle unwrap key data o = true <-> kw_spec unwrap key data o.
Proof.
  unfold kw_oracle, kw_spec.
  destruct (data_unnamed_problem unwrap SK_Kw (List.length data)) eqn:Hdu; [leaf |].
  destruct unwrap; [| leaf].
  destruct (aes_kw_unwrap key data) as [p|] eqn:Hun; leaf.
Qed.

Lemma cbchs_oracle_sound open kind key nonce data aad o :
  cbchs_oracle open kind key nonce data aad o = true
  <-> cbchs_spec open kind key nonce data aad o.
Proof.
  unfold cbchs_oracle, cbchs_spec. cbv zeta.
  generalize (cbchs_kind_std kind); intro k.
  destruct (negb (Nat.eqb (List.length key) (sk_key_len k))) eqn:Hkey; [leaf |].
  destruct (negb open) eqn:Hopen.
  - destruct (Nat.eqb (List.length nonce) 16) eqn:Hnonce; leaf.
  - generalize (sk_tag_len k); intro t.
    destruct (Nat.ltb (List.length data) t || negb (Nat.eqb ((List.length data - t) mod 16) 0))
      eqn:Hlen; [leaf |].
    generalize (firstn (List.length data - t) data) (skipn (List.length data - t) data); intros ct tag.
    destruct (negb (ref_tag_ok k key nonce tag aad ct)) eqn:Htag; [leaf |].
    destruct (Nat.eqb (List.length ct) 0) eqn:Hempty; [leaf |].
    destruct (ref_decrypt k key nonce tag aad ct) as [p|] eqn:Hdec; leaf.
Qed.

Lemma pub_enc_oracle_sound alg key ptlen o xcheck :
  pub_enc_oracle alg key ptlen o xcheck = true <-> pub_enc_spec alg key ptlen o xcheck.
Proof.
  unfold pub_enc_oracle, pub_enc_spec.
  destruct (lookup alg rsa_enc_table) as [sc|] eqn:Hsc; [| leaf].
  destruct (rsa_modulus_bytes key) as [k|] eqn:Hk; [| leaf].
  destruct (rsa_enc_fits sc k ptlen) eqn:Hfits; leaf.
Qed.

Lemma priv_dec_oracle_sound alg key genuine o ptmatch :
  priv_dec_oracle alg key genuine o ptmatch = true <-> priv_dec_spec alg key genuine o ptmatch.
Proof.
  unfold priv_dec_oracle, priv_dec_spec.
  destruct (lookup alg rsa_enc_table) as [sc|] eqn:Hsc; [| leaf].
  destruct key as [kb|kbytes|kbytes|c|c|c|c]; try leaf.
  destruct genuine; [leaf |].
  destruct sc as [|hlen]; leaf.
Qed.

Lemma sign_oracle_sound alg key dlen o xcheck :
  sign_oracle alg key dlen o xcheck = true <-> Spec.sign_spec alg key dlen o xcheck.
Proof.
  unfold sign_oracle, Spec.sign_spec.
  destruct (lookup alg sig_table) as [g|] eqn:Hg; [| leaf].
  destruct (negb (sig_key_ok g true key)) eqn:Hkey; [leaf |].
  destruct (sig_fits g key dlen) eqn:Hfits; leaf.
Qed.

Lemma verify_oracle_sound alg key genuine valid o :
  verify_oracle alg key genuine valid o = true <-> verify_spec alg key genuine valid o.
Proof.
  unfold verify_oracle, verify_spec.
  destruct (lookup alg sig_table) as [g|] eqn:Hg; [| leaf].
  destruct (negb (sig_key_ok g false key)) eqn:Hkey; leaf.
Qed.

(* ------------------------------------------------------------------------------------- *)
(** * [Check.oracle] decides [case_spec] *)

(* The Prop the oracle decides, per constructor, mirroring [Check.oracle]: through the generic
   router a name may be declined, otherwise the call must satisfy the specific function's spec. *)
Definition case_spec (c : case) : Prop :=
  match c with
  | CSymEnc generic alg key nonce aad pt o =>
      (generic = true /\ declined o) \/ sym_enc_spec alg key nonce aad pt o
  | CSymDec generic alg key nonce tag aad ct o =>
      (generic = true /\ declined o) \/ sym_dec_spec alg key nonce tag aad ct o
  | CPad false buf size o => pad_spec buf size o
  | CPad true buf size o => unpad_spec buf size o
  | CKw unwrap key data o => kw_spec unwrap key data o
  | CCbcHs open kind key nonce data aad o => cbchs_spec open kind key nonce data aad o
  | CPubEnc generic alg key ptlen o x =>
      (generic = true /\ declined o) \/ pub_enc_spec alg key (Z.to_nat ptlen) o x
  | CPrivDec generic alg key genuine o m =>
      (generic = true /\ declined o) \/ priv_dec_spec alg key genuine o m
  | CSign alg key dlen o x => Spec.sign_spec alg key (Z.to_nat dlen) o x
  | CVerify alg key genuine valid o => verify_spec alg key genuine valid o
  end.

Lemma generic_or_sound {A} (g : bool) (o : obs A) (b : bool) (P : Prop) :
  (b = true <-> P) ->
  ((g && declinedb o) || b = true <-> (g = true /\ declined o) \/ P).
Proof.
  intro Hb. rewrite orb_true_iff, andb_true_iff, declinedb_sound, Hb. reflexivity.
Qed.

Theorem oracle_sound : forall c, oracle c = true <-> case_spec c.
Proof.
  intros [generic alg key nonce aad pt o
         |generic alg key nonce tag aad ct o
         |unpad buf size o
         |unwrap key data o
         |open kind key nonce data aad o
         |generic alg key ptlen o x
         |generic alg key genuine o m
         |alg key dlen o x
         |alg key genuine valid o]; cbn [oracle case_spec].
  - apply generic_or_sound, sym_enc_oracle_sound.
  - apply generic_or_sound, sym_dec_oracle_sound.
  - destruct unpad; [apply unpad_oracle_sound | apply pad_oracle_sound].
  - apply kw_oracle_sound.
  - apply cbchs_oracle_sound.
  - apply generic_or_sound, pub_enc_oracle_sound.
  - apply generic_or_sound, priv_dec_oracle_sound.
  - apply sign_oracle_sound.
  - apply verify_oracle_sound.
Qed.

(* Non-vacuity: both directions are exercised on concrete cases (padding only, so nothing
   cryptographic is computed). *)
Example case_spec_holds :
  case_spec (CPad false [1%N; 2%N] 4%Z (ObsOk [1%N; 2%N; 2%N; 2%N])).
Proof. apply oracle_sound. vm_compute. reflexivity. Qed.

Example case_spec_fails :
  ~ case_spec (CPad false [1%N; 2%N] 4%Z (ObsOk [1%N; 2%N; 2%N])).
Proof. intro H. apply oracle_sound in H. vm_compute in H. discriminate H. Qed.

Example case_spec_declined_generic :
  case_spec (CSymEnc true String.EmptyString (KOct []) [] [] [] (ObsErr ErrUnsupportedAlgorithm true)).
Proof. left. split; reflexivity. Qed.

(* No axiom is used by any proof above.  [Print Assumptions] of the lemmas whose STATEMENT does
   not mention a symmetric primitive says "Closed under the global context".  For the others
   (and hence for [oracle_sound]) it lists only Coq's kernel primitive 63-bit integers
   ([PrimInt63.int], [add], [lxor], ... : [Primitive] declarations of the standard library, not
   assumptions of this development), on which the reference ciphers of [Kit.Crypto] are
   built: [Print Assumptions sym_enc_spec] - a bare definition of Spec.v - prints the very
   same list. *)
Print Assumptions pad_oracle_sound.
Print Assumptions unpad_oracle_sound.
Print Assumptions pub_enc_oracle_sound.
Print Assumptions priv_dec_oracle_sound.
Print Assumptions sign_oracle_sound.
Print Assumptions verify_oracle_sound.
Print Assumptions oracle_sound.
