(* C03 — crypto: executable model of dapr/kit's [crypto] package (symmetric.go, crypto.go,
   asymmetric_enc.go, asymmetric_sig.go) and of the kit-owned algorithms in [crypto/padding],
   [crypto/aeskw], [crypto/aescbcaead].  Definitions only.

   Three layers:
   (i)   the DISPATCH layer as functions of (algorithm name, key kind, lengths) returning the
         sentinel the code returns, with the checks in the order the code performs them;
   (ii)  line-by-line models of the kit-owned algorithms (PKCS#7, RFC 3394 key wrap,
         AES-CBC-HMAC-SHA2, the AEAD split/join helpers), generic in the block cipher and the
         MAC so that the scheme-level theorems need only [D (E b) = b];
   (iii) the composition with the concrete primitives of [Kit.Crypto] (the parts the code
         delegates to Go's standard library and x/crypto).

   Variants (fixes by other properties that change behaviour visible here):
   [kw_unwrap v]    Original = no length check (trailing bytes ignored, panics below 16 bytes),
                    Fixed = rejects len mod 8 <> 0 or len < 16          (C07 aeskw fix)
   [cbchmac_open v] Original = no block-multiple check (CryptBlocks panics on a valid tag),
                    Fixed = rejects (len - tag) mod 16 <> 0            (C07 aescbcaead fix)
   [kw_wrap v]      Original = empty key data wraps to the bare 8-byte IV (which Unwrap refuses),
                    Fixed = empty key data is an error                 (C03 fix, aeskw.Wrap)
   [ec_curve_ok v]  Original = ES256/384/512 accept any EC key, Fixed = curve must match
                                                                        (C03 fix) *)
From Kit Require Export Lib.Base.
From Kit Require Export Crypto.Words Crypto.AES Crypto.CBC Crypto.KW Crypto.GCM Crypto.HMAC
  Crypto.SHA256 Crypto.SHA512 Crypto.AEADChaCha.
From Coq Require Export String List.
Export ListNotations.

(* ------------------------------------------------------------------------------------- *)
(** * Errors: the six sentinels of crypto/consts.go, the two exported by crypto/padding, and
      [ErrOther] for every error value that is none of them (errors.New texts of aeskw /
      aescbcaead, errors of crypto/cipher, crypto/rsa, x/crypto). *)

Inductive sentinel :=
| ErrKeyTypeMismatch | ErrInvalidNonce | ErrInvalidTag | ErrInvalidPlaintextLength
| ErrInvalidCiphertextLength | ErrUnsupportedAlgorithm
| ErrPkcs7BlockSize | ErrPkcs7Padding
| ErrOther.

Definition sentinel_eqb (a b : sentinel) : bool :=
  match a, b with
  | ErrKeyTypeMismatch, ErrKeyTypeMismatch | ErrInvalidNonce, ErrInvalidNonce
  | ErrInvalidTag, ErrInvalidTag | ErrInvalidPlaintextLength, ErrInvalidPlaintextLength
  | ErrInvalidCiphertextLength, ErrInvalidCiphertextLength
  | ErrUnsupportedAlgorithm, ErrUnsupportedAlgorithm
  | ErrPkcs7BlockSize, ErrPkcs7BlockSize | ErrPkcs7Padding, ErrPkcs7Padding
  | ErrOther, ErrOther => true
  | _, _ => false
  end.

Definition res (A : Type) : Type := result A sentinel.

Definition len {A} (l : list A) : nat := List.length l.

(* ------------------------------------------------------------------------------------- *)
(** * crypto/padding (pkcs7_padding.go) *)

Definition pkcs7_size_ok (size : Z) : bool := (1 <? size)%Z && (size <? 256)%Z.

(* PadPKCS7: padLen := size - len(buf)%size; append padLen bytes of value padLen *)
Definition pad_pkcs7 (buf : list N) (size : Z) : res (list N) :=
  if negb (pkcs7_size_ok size) then Err ErrPkcs7BlockSize
  else
    let sz := Z.to_nat size in
    let pad_len := sz - (len buf mod sz) in
    Ok (buf ++ repeat (N.of_nat pad_len) pad_len).

(* UnpadPKCS7: empty input is returned as it is; otherwise the length must be a multiple of
   [size], the last byte p must satisfy 0 < p <= size and the last p bytes must all be p. *)
Definition unpad_pkcs7 (buf : list N) (size : Z) : res (list N) :=
  if negb (pkcs7_size_ok size) then Err ErrPkcs7BlockSize
  else
    let sz := Z.to_nat size in
    let l := len buf in
    if Nat.eqb l 0 then Ok []
    else if negb (Nat.eqb (l mod sz) 0) then Err ErrPkcs7Padding
    else
      let p := last buf 0%N in
      let pad_len := N.to_nat p in
      if Nat.eqb pad_len 0 || Nat.ltb sz pad_len then Err ErrPkcs7Padding
      else if forallb (N.eqb p) (skipn (l - pad_len) buf)
           then Ok (firstn (l - pad_len) buf)
           else Err ErrPkcs7Padding.

(* ------------------------------------------------------------------------------------- *)
(** * Generic in the block cipher: [E key] / [D key] are the forward / inverse cipher under
      [key] (crypto/aes Block.Encrypt / Block.Decrypt), [Kok key] says whether
      aes.NewCipher(key) succeeds. *)

Section Schemes.
  Variables E D : list N -> list N -> list N.
  Variable Kok : list N -> bool.

  (** ** crypto/cipher CBC BlockMode as the code uses it: NewCBCEncrypter panics unless the IV
         is one block, CryptBlocks panics unless the input is whole blocks. *)
  Definition go_cbc_encrypt (key iv src : list N) : res (list N) :=
    if negb (Nat.eqb (len iv) 16) then Panic
    else if negb (Nat.eqb (len src mod 16) 0) then Panic
    else let e := E key in Ok (cbc_encrypt_with e iv src).

  Definition go_cbc_decrypt (key iv src : list N) : res (list N) :=
    if negb (Nat.eqb (len iv) 16) then Panic
    else if negb (Nat.eqb (len src mod 16) 0) then Panic
    else let d := D key in Ok (cbc_decrypt_with d iv src).

  (** ** crypto/aeskw (keywrap.go), line by line.  The registers r[0..n-1] are a list of
         8-byte blocks; one pass of the inner loop [for i := 1; i <= n; i++] walks the list
         from the left; the inner loop of Unwrap [for i := n; i >= 1; i--] walks it from the
         right, which the recursion below does by processing the tail first.
         [nj] is n*j, so t = nj + i. *)
  Fixpoint kw_wrap_pass (e : list N -> list N) (nj i : nat) (a : list N) (rs : list (list N))
    : list N * list (list N) :=
    match rs with
    | [] => (a, [])
    | r :: rest =>
        let b := e (a ++ r) in                                   (* b := arrConcat(a, r[i-1]); Encrypt *)
        let a' := xor_bytes (firstn 8 b) (be64 (N.of_nat (nj + i))) in  (* copy(a, arrXor(b[:8], tBytes)) *)
        let '(a'', rest') := kw_wrap_pass e nj (S i) a' rest in
        (a'', skipn 8 b :: rest')                                (* copy(r[i-1], b[8:]) *)
    end.

  Fixpoint kw_unwrap_pass (d : list N -> list N) (nj i : nat) (a : list N) (rs : list (list N))
    : list N * list (list N) :=
    match rs with
    | [] => (a, [])
    | r :: rest =>
        let '(a1, rest') := kw_unwrap_pass d nj (S i) a rest in  (* indices n .. i+1 first *)
        let b := d (xor_bytes a1 (be64 (N.of_nat (nj + i))) ++ r) in
        (firstn 8 b, skipn 8 b :: rest')
    end.

  Definition kw_js_up : list nat := [0; 1; 2; 3; 4; 5].
  Definition kw_js_down : list nat := [5; 4; 3; 2; 1; 0].

  Definition kw_wrap_loop (e : list N -> list N) (n : nat) (st : list N * list (list N)) :=
    fold_left (fun st j => kw_wrap_pass e (n * j) 1 (fst st) (snd st)) kw_js_up st.
  Definition kw_unwrap_loop (d : list N -> list N) (n : nat) (st : list N * list (list N)) :=
    fold_left (fun st j => kw_unwrap_pass d (n * j) 1 (fst st) (snd st)) kw_js_down st.

  (* Wrap(block, cek) *)
  Definition kw_wrap (v : variant) (key cek : list N) : res (list N) :=
    if negb (Nat.eqb (len cek mod 8) 0) || (is_fixed v && Nat.eqb (len cek) 0)
    then Err ErrOther                                  (* "cek must be in 8-byte blocks [and not empty]" *)
    else
      let n := Nat.div (len cek) 8 in
      let rs := chunks 8 cek in
      let e := E key in
      let '(a, rs') := kw_wrap_loop e n (kw_iv, rs) in
      Ok (a ++ concat rs').

  (* Unwrap(block, cipherText) *)
  Definition kw_unwrap (v : variant) (key c : list N) : res (list N) :=
    let l := len c in
    if is_fixed v && (negb (Nat.eqb (l mod 8) 0) || Nat.ltb l 16) then Err ErrOther
    else if Nat.ltb l 8 then Panic                      (* n = -1: make([][]byte, n) panics *)
    else
      let n := Nat.div l 8 - 1 in
      let rs := firstn n (chunks 8 (skipn 8 c)) in      (* r[i] = cipherText[(i+1)*8 : (i+2)*8] *)
      let a := firstn 8 c in
      let d := D key in
      let '(a', rs') := kw_unwrap_loop d n (a, rs) in
      if negb (eqb_listN a' kw_iv) then Err ErrOther    (* "integrity check failed" *)
      else match rs' with
           | [] => Panic                                (* arrConcat(r...) reads arrays[0] *)
           | _ => Ok (concat rs')
           end.

  (** ** crypto/aescbcaead (aescbcaead.go), generic in the MAC *)
  Section CbcHmac.
    Variable mac : list N -> list N -> list N.        (* hmac.New(macAlg, key) over the message *)

    Record cbchmac := { ch_tag : nat; ch_enc_key : list N; ch_mac_key : list N }.

    (* NewAESCBCAEAD: the key is MAC_KEY || ENC_KEY *)
    Definition cbchmac_new (enc_size mac_size tag_size : nat) (key : list N) : option cbchmac :=
      if Nat.eqb (len key) (enc_size + mac_size)
      then Some {| ch_tag := tag_size;
                   ch_enc_key := skipn (len key - enc_size) key;
                   ch_mac_key := firstn mac_size key |}
      else None.

    (* hmacTag: HMAC over A || nonce || ciphertext || AL, AL = bit length of A as 64-bit
       big-endian, truncated to the tag size *)
    Definition cbchmac_tag (c : cbchmac) (aad nonce ct : list N) : list N :=
      firstn (ch_tag c) (mac (ch_mac_key c) (aad ++ nonce ++ ct ++ be64 (8 * lenN aad))).

    (* Seal(nil, nonce, plaintext, additionalData) *)
    Definition cbchmac_seal (c : cbchmac) (nonce pt aad : list N) : res (list N) :=
      if negb (Nat.eqb (len nonce) 16) then Panic                  (* panic("invalid nonce") *)
      else if negb (Kok (ch_enc_key c)) then Panic                 (* panic(err) *)
      else
        match pad_pkcs7 pt 16 with
        | Ok padded =>
            match go_cbc_encrypt (ch_enc_key c) nonce padded with
            | Ok ct => Ok (ct ++ cbchmac_tag c aad nonce ct)
            | Err e => Err e
            | Panic => Panic
            end
        | Err _ => Panic
        | Panic => Panic
        end.

    (* Open(nil, nonce, ciphertext, additionalData): the tag is checked BEFORE anything is
       decrypted or unpadded. *)
    Definition cbchmac_open (v : variant) (c : cbchmac) (nonce ctt aad : list N) : res (list N) :=
      let l := len ctt in
      if Nat.ltb l (ch_tag c) then Err ErrOther                    (* "invalid ciphertext size" *)
      else if is_fixed v && negb (Nat.eqb ((l - ch_tag c) mod 16) 0) then Err ErrOther
      else
        let tag := skipn (l - ch_tag c) ctt in
        let ct := firstn (l - ch_tag c) ctt in
        if negb (eqb_listN tag (cbchmac_tag c aad nonce ct)) then Err ErrOther
        else if negb (Kok (ch_enc_key c)) then Err ErrOther
        else
          match go_cbc_decrypt (ch_enc_key c) nonce ct with
          | Ok out => unpad_pkcs7 out 16
          | Err e => Err e
          | Panic => Panic
          end.
  End CbcHmac.

  (** ** cipher.AEAD as symmetric.go uses it, and the split/join helpers
         encryptSymmetricAEAD / decryptSymmetricAEAD *)
  Record aead := {
    ad_nonce_size : nat;
    ad_overhead : nat;
    ad_seal : list N -> list N -> list N -> res (list N);     (* nonce, plaintext, aad *)
    ad_open : list N -> list N -> list N -> res (list N) }.   (* nonce, ciphertext||tag, aad *)

  Definition encrypt_aead (a : aead) (pt nonce aad : list N) : res (list N * list N) :=
    if negb (Nat.eqb (len nonce) (ad_nonce_size a)) then Err ErrInvalidNonce
    else
      match ad_seal a nonce pt aad with
      | Ok out => let k := len out - ad_overhead a in Ok (firstn k out, skipn k out)
      | Err e => Err e
      | Panic => Panic
      end.

  Definition decrypt_aead (a : aead) (ct nonce tag aad : list N) : res (list N) :=
    if negb (Nat.eqb (len nonce) (ad_nonce_size a)) then Err ErrInvalidNonce
    else if negb (Nat.eqb (len tag) (ad_overhead a)) then Err ErrInvalidTag
    else ad_open a nonce (ct ++ tag) aad.

  Definition cbchmac_aead (mac : list N -> list N -> list N) (v : variant) (c : cbchmac) : aead :=
    {| ad_nonce_size := 16; ad_overhead := ch_tag c;
       ad_seal := cbchmac_seal mac c;
       ad_open := cbchmac_open mac v c |}.
End Schemes.

Arguments ch_tag : clear implicits.
Arguments ch_enc_key : clear implicits.
Arguments ch_mac_key : clear implicits.

(* ------------------------------------------------------------------------------------- *)
(** * The concrete primitives (what the code takes from crypto/aes, crypto/cipher,
      crypto/hmac, crypto/sha256, crypto/sha512 and x/crypto/chacha20poly1305) *)

(* the key schedule is computed once per key, as aes.NewCipher does *)
Definition aesE (key : list N) : list N -> list N :=
  let ks := aes_expand key in aes_encrypt_block_ks ks.
Definition aesD (key : list N) : list N -> list N :=
  let ks := aes_expand key in aes_decrypt_block_ks ks.

Inductive mac_alg := MacSHA256 | MacSHA384 | MacSHA512.
Definition mac_fn (m : mac_alg) : list N -> list N -> list N :=
  match m with MacSHA256 => hmac_sha256 | MacSHA384 => hmac_sha384 | MacSHA512 => hmac_sha512 end.

(* the four exported constructors of aescbcaead: (enc key, mac key, tag) sizes and the hash *)
Inductive cbchmac_kind := CH_128_256 | CH_192_384 | CH_256_384 | CH_256_512.
Definition cbchmac_sizes (k : cbchmac_kind) : nat * nat * nat * mac_alg :=
  match k with
  | CH_128_256 => (16, 16, 16, MacSHA256)
  | CH_192_384 => (24, 24, 24, MacSHA384)
  | CH_256_384 => (32, 24, 24, MacSHA384)
  | CH_256_512 => (32, 32, 32, MacSHA512)
  end.

Definition aescbcaead_new (k : cbchmac_kind) (key : list N) : option cbchmac :=
  let '(e, m, t, _) := cbchmac_sizes k in cbchmac_new e m t key.
Definition aescbcaead_mac (k : cbchmac_kind) : list N -> list N -> list N :=
  let '(_, _, _, h) := cbchmac_sizes k in mac_fn h.
Definition aescbcaead_seal (k : cbchmac_kind) (c : cbchmac) (nonce pt aad : list N) : res (list N) :=
  cbchmac_seal aesE aes_key_ok (aescbcaead_mac k) c nonce pt aad.
Definition aescbcaead_open (v : variant) (k : cbchmac_kind) (c : cbchmac) (nonce ctt aad : list N)
  : res (list N) :=
  cbchmac_open aesD aes_key_ok (aescbcaead_mac k) v c nonce ctt aad.

Definition aeskw_wrap (v : variant) (key cek : list N) : res (list N) := kw_wrap aesE v key cek.
Definition aeskw_unwrap (v : variant) (key c : list N) : res (list N) := kw_unwrap aesD v key c.

Definition opt_res {A} (o : option A) : res A :=
  match o with Some a => Ok a | None => Err ErrOther end.

(* cipher.NewGCM(block): standard nonce (12) and tag (16) sizes *)
Definition gcm_aead (key : list N) : aead :=
  {| ad_nonce_size := 12; ad_overhead := 16;
     ad_seal := fun nonce pt aad => Ok (gcm_seal key nonce aad pt);
     ad_open := fun nonce ctt aad => opt_res (gcm_open key nonce aad ctt) |}.

Definition aescbcaead_aead (v : variant) (k : cbchmac_kind) (c : cbchmac) : aead :=
  cbchmac_aead aesE aesD aes_key_ok (aescbcaead_mac k) v c.

(* ------------------------------------------------------------------------------------- *)
(** * Algorithm names (consts.go) and their classification by the switch statements *)

Local Open Scope string_scope.

Definition mem_str (s : string) (l : list string) : bool := existsb (String.eqb s) l.

Definition names_cbc_pad : list string := ["A128CBC"; "A192CBC"; "A256CBC"].
Definition names_cbc_nopad : list string := ["A128CBC-NOPAD"; "A192CBC-NOPAD"; "A256CBC-NOPAD"].
Definition names_gcm : list string := ["A128GCM"; "A192GCM"; "A256GCM"].
Definition names_cbc_hmac : list string := ["A128CBC-HS256"; "A192CBC-HS384"; "A256CBC-HS512"].
Definition names_kw : list string := ["A128KW"; "A192KW"; "A256KW"].
Definition names_chacha : list string := ["C20P"; "C20PKW"].
Definition names_xchacha : list string := ["XC20P"; "XC20PKW"].
Definition names_gcmkw : list string := ["A128GCMKW"; "A192GCMKW"; "A256GCMKW"].
Definition names_ecdh : list string :=
  ["ECDH-ES"; "ECDH-ES+A128KW"; "ECDH-ES+A192KW"; "ECDH-ES+A256KW"].
Definition names_rsa_enc : list string :=
  ["RSA1_5"; "RSA-OAEP"; "RSA-OAEP-256"; "RSA-OAEP-384"; "RSA-OAEP-512"].
Definition names_rs : list string := ["RS256"; "RS384"; "RS512"].
Definition names_ps : list string := ["PS256"; "PS384"; "PS512"].
Definition names_es : list string := ["ES256"; "ES384"; "ES512"].

(* SupportedSymmetricAlgorithms / SupportedAsymmetricAlgorithms / SupportedSignatureAlgorithms *)
Definition supported_symmetric : list string :=
  names_cbc_pad ++ names_cbc_nopad ++ names_gcm ++ names_cbc_hmac ++ names_kw
  ++ ["C20P"; "C20PKW"; "XC20P"; "XC20PKW"].
Definition supported_asymmetric : list string := names_rsa_enc.
Definition supported_signature : list string := names_rs ++ names_ps ++ names_es ++ ["EdDSA"].

Inductive sym_family := FCbcPad | FCbcNoPad | FGcm | FCbcHmac | FKw | FChaCha | FXChaCha.

(* the switch of EncryptSymmetric / DecryptSymmetric *)
Definition sym_family_of (alg : string) : option sym_family :=
  if mem_str alg names_cbc_pad then Some FCbcPad
  else if mem_str alg names_cbc_nopad then Some FCbcNoPad
  else if mem_str alg names_gcm then Some FGcm
  else if mem_str alg names_cbc_hmac then Some FCbcHmac
  else if mem_str alg names_kw then Some FKw
  else if mem_str alg names_chacha then Some FChaCha
  else if mem_str alg names_xchacha then Some FXChaCha
  else None.

(* expectedKeySize: switch alg[1:4] *)
Definition expected_key_size (alg : string) : nat :=
  let s := substring 1 3 alg in
  if String.eqb s "128" then 16
  else if String.eqb s "192" then 24
  else if String.eqb s "256" then 32
  else 0.

(* getAESCBCHMACCipher: the key is checked against 32 / 48 / 64 *)
Definition cbchmac_kind_of (alg : string) : option cbchmac_kind :=
  if String.eqb alg "A128CBC-HS256" then Some CH_128_256
  else if String.eqb alg "A192CBC-HS384" then Some CH_192_384
  else if String.eqb alg "A256CBC-HS512" then Some CH_256_512
  else None.
Definition cbchmac_total_key (k : cbchmac_kind) : nat :=
  let '(e, m, _, _) := cbchmac_sizes k in e + m.

(* ------------------------------------------------------------------------------------- *)
(** * Key objects (jwk.Key): what the dispatch looks at *)

Inductive curve := P256 | P384 | P521.
Inductive okp_curve := Ed25519 | X25519.

Inductive keyobj :=
| KOct (k : list N)                    (* kty = oct, raw bytes *)
| KRsaPriv (kbytes : nat)              (* modulus size in bytes *)
| KRsaPub (kbytes : nat)
| KEcPriv (c : curve) | KEcPub (c : curve)
| KOkpPriv (c : okp_curve) | KOkpPub (c : okp_curve).

Definition curve_eqb (a b : curve) : bool :=
  match a, b with P256, P256 | P384, P384 | P521, P521 => true | _, _ => false end.

(* ------------------------------------------------------------------------------------- *)
(** * symmetric.go *)

Definition is_nopad (f : sym_family) : bool := match f with FCbcNoPad => true | _ => false end.

(* encryptSymmetricAESCBC *)
Definition encrypt_cbc (alg : string) (nopad : bool) (key iv pt : list N) : res (list N * list N) :=
  if negb (Nat.eqb (len key) (expected_key_size alg)) then Err ErrKeyTypeMismatch
  else if negb (Nat.eqb (len iv) 16) then Err ErrInvalidNonce
  else if nopad && negb (Nat.eqb (len pt mod 16) 0) then Err ErrInvalidPlaintextLength
  else if negb (aes_key_ok key) then Err ErrKeyTypeMismatch
  else
    match (if nopad then Ok pt else pad_pkcs7 pt 16) with
    | Ok padded =>
        match go_cbc_encrypt aesE key iv padded with
        | Ok ct => Ok (ct, [])
        | Err e => Err e
        | Panic => Panic
        end
    | Err e => Err e
    | Panic => Panic
    end.

(* decryptSymmetricAESCBC *)
Definition decrypt_cbc (alg : string) (nopad : bool) (key iv ct : list N) : res (list N) :=
  if negb (Nat.eqb (len key) (expected_key_size alg)) then Err ErrKeyTypeMismatch
  else if negb (Nat.eqb (len iv) 16) then Err ErrInvalidNonce
  else if negb (Nat.eqb (len ct mod 16) 0) then Err ErrInvalidCiphertextLength
  else if negb (aes_key_ok key) then Err ErrKeyTypeMismatch
  else
    match go_cbc_decrypt aesD key iv ct with
    | Ok out => if nopad then Ok out else unpad_pkcs7 out 16
    | Err e => Err e
    | Panic => Panic
    end.

(* encryptSymmetricAESGCM / decryptSymmetricAESGCM *)
Definition encrypt_gcm (alg : string) (key nonce aad pt : list N) : res (list N * list N) :=
  if negb (Nat.eqb (len key) (expected_key_size alg)) then Err ErrKeyTypeMismatch
  else if negb (aes_key_ok key) then Err ErrKeyTypeMismatch
  else encrypt_aead (gcm_aead key) pt nonce aad.

Definition decrypt_gcm (alg : string) (key nonce tag aad ct : list N) : res (list N) :=
  if negb (Nat.eqb (len key) (expected_key_size alg)) then Err ErrKeyTypeMismatch
  else if negb (aes_key_ok key) then Err ErrKeyTypeMismatch
  else decrypt_aead (gcm_aead key) ct nonce tag aad.

(* getAESCBCHMACCipher + encryptSymmetricAESCBCHMAC / decryptSymmetricAESCBCHMAC *)
Definition get_cbchmac (alg : string) (key : list N) : res (cbchmac_kind * cbchmac) :=
  match cbchmac_kind_of alg with
  | None => Err ErrOther                                   (* errors.New("invalid algorithm") *)
  | Some k =>
      if negb (Nat.eqb (len key) (cbchmac_total_key k)) then Err ErrKeyTypeMismatch
      else match aescbcaead_new k key with
           | Some c => Ok (k, c)
           | None => Err ErrKeyTypeMismatch
           end
  end.

Definition encrypt_cbchmac (alg : string) (key nonce aad pt : list N) : res (list N * list N) :=
  match get_cbchmac alg key with
  | Ok (k, c) => encrypt_aead (aescbcaead_aead Fixed k c) pt nonce aad
  | Err e => Err e
  | Panic => Panic
  end.

Definition decrypt_cbchmac (v : variant) (alg : string) (key nonce tag aad ct : list N) : res (list N) :=
  match get_cbchmac alg key with
  | Ok (k, c) => decrypt_aead (aescbcaead_aead v k c) ct nonce tag aad
  | Err e => Err e
  | Panic => Panic
  end.

(* encryptSymmetricAESKW / decryptSymmetricAESKW: nonce, tag and aad are not looked at *)
Definition encrypt_kw (v : variant) (alg : string) (key pt : list N) : res (list N * list N) :=
  if negb (Nat.eqb (len key) (expected_key_size alg)) then Err ErrKeyTypeMismatch
  else if negb (aes_key_ok key) then Err ErrKeyTypeMismatch
  else match aeskw_wrap v key pt with
       | Ok c => Ok (c, [])
       | Err e => Err e
       | Panic => Panic
       end.

Definition decrypt_kw (v : variant) (alg : string) (key ct : list N) : res (list N) :=
  if negb (Nat.eqb (len key) (expected_key_size alg)) then Err ErrKeyTypeMismatch
  else if negb (aes_key_ok key) then Err ErrKeyTypeMismatch
  else aeskw_unwrap v key ct.

(* encryptSymmetricChaCha20Poly1305 / decryptSymmetricChaCha20Poly1305 with
   getChaCha20Poly1305Cipher: key size, then nonce size (12 / 24), then tag size *)
Definition chacha_nonce_size (x : bool) : nat := if x then 24 else 12.

Definition encrypt_chacha (x : bool) (key nonce aad pt : list N) : res (list N * list N) :=
  if negb (Nat.eqb (len key) 32) then Err ErrKeyTypeMismatch
  else if negb (Nat.eqb (len nonce) (chacha_nonce_size x)) then Err ErrInvalidNonce
  else
    let out := if x then xchacha20poly1305_seal key nonce aad pt
               else chacha20poly1305_seal key nonce aad pt in
    let k := len out - 16 in
    Ok (firstn k out, skipn k out).

Definition decrypt_chacha (x : bool) (key nonce tag aad ct : list N) : res (list N) :=
  if negb (Nat.eqb (len key) 32) then Err ErrKeyTypeMismatch
  else if negb (Nat.eqb (len nonce) (chacha_nonce_size x)) then Err ErrInvalidNonce
  else if negb (Nat.eqb (len tag) 16) then Err ErrInvalidTag
  else opt_res (if x then xchacha20poly1305_open key nonce aad (ct ++ tag)
                else chacha20poly1305_open key nonce aad (ct ++ tag)).

(* EncryptSymmetric: key kind, then the algorithm switch ([v]: variant of aeskw.Wrap) *)
Definition encrypt_symmetric (v : variant) (alg : string) (key : keyobj) (nonce aad pt : list N)
  : res (list N * list N) :=
  match key with
  | KOct kb =>
      match sym_family_of alg with
      | Some FCbcPad => encrypt_cbc alg false kb nonce pt
      | Some FCbcNoPad => encrypt_cbc alg true kb nonce pt
      | Some FGcm => encrypt_gcm alg kb nonce aad pt
      | Some FCbcHmac => encrypt_cbchmac alg kb nonce aad pt
      | Some FKw => encrypt_kw v alg kb pt
      | Some FChaCha => encrypt_chacha false kb nonce aad pt
      | Some FXChaCha => encrypt_chacha true kb nonce aad pt
      | None => Err ErrUnsupportedAlgorithm
      end
  | _ => Err ErrKeyTypeMismatch
  end.

(* DecryptSymmetric *)
Definition decrypt_symmetric (vkw vopen : variant) (alg : string) (key : keyobj)
           (nonce tag aad ct : list N) : res (list N) :=
  match key with
  | KOct kb =>
      match sym_family_of alg with
      | Some FCbcPad => decrypt_cbc alg false kb nonce ct
      | Some FCbcNoPad => decrypt_cbc alg true kb nonce ct
      | Some FGcm => decrypt_gcm alg kb nonce tag aad ct
      | Some FCbcHmac => decrypt_cbchmac vopen alg kb nonce tag aad ct
      | Some FKw => decrypt_kw vkw alg kb ct
      | Some FChaCha => decrypt_chacha false kb nonce tag aad ct
      | Some FXChaCha => decrypt_chacha true kb nonce tag aad ct
      | None => Err ErrUnsupportedAlgorithm
      end
  | _ => Err ErrKeyTypeMismatch
  end.

(* ------------------------------------------------------------------------------------- *)
(** * The dispatch layer alone (current tree): which sentinel (if any) the checks above return, as a
      function of the algorithm name, the key kind and the LENGTHS only.  [None] = every
      check passed and the primitive runs.  (Related to the full functions by
      [C03/Proofs.v: encrypt_symmetric_dispatch, decrypt_symmetric_dispatch].) *)

Record shape := {
  sh_oct : bool;         (* the key object is an octet sequence *)
  sh_key : nat;          (* its length *)
  sh_nonce : nat;
  sh_tag : nat;
  sh_data : nat }.       (* plaintext (encrypt) / ciphertext (decrypt) length *)

Definition aes_size_ok (n : nat) : bool := Nat.eqb n 16 || Nat.eqb n 24 || Nat.eqb n 32.

Definition dispatch_encrypt (alg : string) (s : shape) : option sentinel :=
  if negb (sh_oct s) then Some ErrKeyTypeMismatch
  else
    match sym_family_of alg with
    | None => Some ErrUnsupportedAlgorithm
    | Some FCbcPad | Some FCbcNoPad =>
        if negb (Nat.eqb (sh_key s) (expected_key_size alg)) then Some ErrKeyTypeMismatch
        else if negb (Nat.eqb (sh_nonce s) 16) then Some ErrInvalidNonce
        else if mem_str alg names_cbc_nopad && negb (Nat.eqb (sh_data s mod 16) 0)
             then Some ErrInvalidPlaintextLength
        else None
    | Some FGcm =>
        if negb (Nat.eqb (sh_key s) (expected_key_size alg)) then Some ErrKeyTypeMismatch
        else if negb (Nat.eqb (sh_nonce s) 12) then Some ErrInvalidNonce
        else None
    | Some FCbcHmac =>
        match cbchmac_kind_of alg with
        | None => Some ErrOther
        | Some k =>
            if negb (Nat.eqb (sh_key s) (cbchmac_total_key k)) then Some ErrKeyTypeMismatch
            else if negb (Nat.eqb (sh_nonce s) 16) then Some ErrInvalidNonce
            else None
        end
    | Some FKw =>
        if negb (Nat.eqb (sh_key s) (expected_key_size alg)) then Some ErrKeyTypeMismatch
        else if negb (Nat.eqb (sh_data s mod 8) 0) || Nat.eqb (sh_data s) 0 then Some ErrOther
        else None
    | Some FChaCha =>
        if negb (Nat.eqb (sh_key s) 32) then Some ErrKeyTypeMismatch
        else if negb (Nat.eqb (sh_nonce s) 12) then Some ErrInvalidNonce
        else None
    | Some FXChaCha =>
        if negb (Nat.eqb (sh_key s) 32) then Some ErrKeyTypeMismatch
        else if negb (Nat.eqb (sh_nonce s) 24) then Some ErrInvalidNonce
        else None
    end.

(* decryption: the checks made before any primitive runs; for KW and CBC-HMAC the length
   checks of Unwrap / Open (Fixed) are part of it *)
Definition dispatch_decrypt (alg : string) (s : shape) : option sentinel :=
  if negb (sh_oct s) then Some ErrKeyTypeMismatch
  else
    match sym_family_of alg with
    | None => Some ErrUnsupportedAlgorithm
    | Some FCbcPad | Some FCbcNoPad =>
        if negb (Nat.eqb (sh_key s) (expected_key_size alg)) then Some ErrKeyTypeMismatch
        else if negb (Nat.eqb (sh_nonce s) 16) then Some ErrInvalidNonce
        else if negb (Nat.eqb (sh_data s mod 16) 0) then Some ErrInvalidCiphertextLength
        else None
    | Some FGcm =>
        if negb (Nat.eqb (sh_key s) (expected_key_size alg)) then Some ErrKeyTypeMismatch
        else if negb (Nat.eqb (sh_nonce s) 12) then Some ErrInvalidNonce
        else if negb (Nat.eqb (sh_tag s) 16) then Some ErrInvalidTag
        else None
    | Some FCbcHmac =>
        match cbchmac_kind_of alg with
        | None => Some ErrOther
        | Some k =>
            if negb (Nat.eqb (sh_key s) (cbchmac_total_key k)) then Some ErrKeyTypeMismatch
            else if negb (Nat.eqb (sh_nonce s) 16) then Some ErrInvalidNonce
            else if negb (Nat.eqb (sh_tag s) (snd (fst (cbchmac_sizes k)))) then Some ErrInvalidTag
            else if negb (Nat.eqb (sh_data s mod 16) 0) then Some ErrOther
            else None
        end
    | Some FKw =>
        if negb (Nat.eqb (sh_key s) (expected_key_size alg)) then Some ErrKeyTypeMismatch
        else if negb (Nat.eqb (sh_data s mod 8) 0) || Nat.ltb (sh_data s) 16 then Some ErrOther
        else None
    | Some FChaCha =>
        if negb (Nat.eqb (sh_key s) 32) then Some ErrKeyTypeMismatch
        else if negb (Nat.eqb (sh_nonce s) 12) then Some ErrInvalidNonce
        else if negb (Nat.eqb (sh_tag s) 16) then Some ErrInvalidTag
        else None
    | Some FXChaCha =>
        if negb (Nat.eqb (sh_key s) 32) then Some ErrKeyTypeMismatch
        else if negb (Nat.eqb (sh_nonce s) 24) then Some ErrInvalidNonce
        else if negb (Nat.eqb (sh_tag s) 16) then Some ErrInvalidTag
        else None
    end.

Definition key_is_oct (k : keyobj) : bool := match k with KOct _ => true | _ => false end.
Definition key_len (k : keyobj) : nat := match k with KOct b => len b | _ => 0 end.

Definition shape_of (key : keyobj) (nonce tag data : list N) : shape :=
  {| sh_oct := key_is_oct key; sh_key := key_len key; sh_nonce := len nonce;
     sh_tag := len tag; sh_data := len data |}.

(* ------------------------------------------------------------------------------------- *)
(** * asymmetric_enc.go, asymmetric_sig.go: dispatch, key-kind checks, error mapping.
      The RSA / ECDSA / Ed25519 primitives themselves are Go's; the model says whether the
      call succeeds or which error class it returns. *)

(* getSHAHash: switch alg[len-3:] *)
Definition sha_hash_size (alg : string) : nat :=
  let s := substring (String.length alg - 3) 3 alg in
  if String.eqb s "256" then 32 else if String.eqb s "384" then 48
  else if String.eqb s "512" then 64 else 0.

(* key.PublicKey(): defined for every key kind that can be built here *)
Definition public_of (k : keyobj) : keyobj :=
  match k with
  | KRsaPriv n => KRsaPub n
  | KEcPriv c => KEcPub c
  | KOkpPriv c => KOkpPub c
  | other => other
  end.

Inductive rsa_enc_scheme := SchemePKCS1 | SchemeOAEP (hash_len : nat).

Definition rsa_enc_scheme_of (alg : string) : option rsa_enc_scheme :=
  if String.eqb alg "RSA1_5" then Some SchemePKCS1
  else if String.eqb alg "RSA-OAEP" then Some (SchemeOAEP 20)
  else if mem_str alg ["RSA-OAEP-256"; "RSA-OAEP-384"; "RSA-OAEP-512"]
       then Some (SchemeOAEP (sha_hash_size alg))
  else None.

(* rsa.EncryptPKCS1v15: len(msg) > k-11 is ErrMessageTooLong; rsa.EncryptOAEP: len(msg) >
   k - 2*hLen - 2 *)
Definition rsa_msg_fits (sc : rsa_enc_scheme) (k msg_len : nat) : bool :=
  match sc with
  | SchemePKCS1 => Nat.leb (msg_len + 11) k
  | SchemeOAEP h => Nat.leb (msg_len + 2 * h + 2) k
  end.

(* EncryptPublicKey: outcome class.  [Ok tt] = a ciphertext is returned. *)
Definition encrypt_public_key (alg : string) (key : keyobj) (pt_len : nat) : res unit :=
  let key := public_of key in
  match rsa_enc_scheme_of alg with
  | None => Err ErrUnsupportedAlgorithm
  | Some sc =>
      match key with
      | KRsaPub k => if rsa_msg_fits sc k pt_len then Ok tt else Err ErrOther
      | _ => Err ErrKeyTypeMismatch
      end
  end.

(* DecryptPrivateKey on a ciphertext: [genuine] = it was produced by the matching public key
   under the same algorithm and label (then Go's decryption returns the plaintext), otherwise
   rsa.ErrDecryption (not a sentinel of this package). *)
Definition decrypt_private_key (alg : string) (key : keyobj) (genuine : bool) : res unit :=
  match rsa_enc_scheme_of alg with
  | None => Err ErrUnsupportedAlgorithm
  | Some _ =>
      match key with
      | KRsaPriv _ => if genuine then Ok tt else Err ErrOther
      | _ => Err ErrKeyTypeMismatch
      end
  end.

Inductive sig_family := SigRS | SigPS | SigES | SigEd.
Definition sig_family_of (alg : string) : option sig_family :=
  if mem_str alg names_rs then Some SigRS
  else if mem_str alg names_ps then Some SigPS
  else if mem_str alg names_es then Some SigES
  else if String.eqb alg "EdDSA" then Some SigEd
  else None.

(* the curve an ES* name stands for (RFC 7518 section 3.4) *)
Definition es_curve (alg : string) : option curve :=
  if String.eqb alg "ES256" then Some P256
  else if String.eqb alg "ES384" then Some P384
  else if String.eqb alg "ES512" then Some P521
  else None.

(* Original: signPrivateKeyECDSA / verifyPublicKeyECDSA only require an EC key.
   Fixed: the key's curve must be the one the algorithm names. *)
Definition ec_curve_ok (v : variant) (alg : string) (c : curve) : bool :=
  match v with
  | Original => true
  | Fixed => match es_curve alg with Some c' => curve_eqb c c' | None => false end
  end.

(* rsa.SignPKCS1v15: the digest must have the hash's size and k >= 19 + hLen + 11;
   rsa.SignPSS with nil options (salt length auto): digest size, and k - 2 - hLen >= 0 *)
Definition rsa_sign_fits (f : sig_family) (k hlen digest_len : nat) : bool :=
  match f with
  | SigRS => Nat.eqb digest_len hlen && Nat.leb (19 + hlen + 11) k
  | SigPS => Nat.eqb digest_len hlen && Nat.leb (hlen + 2) k
  | _ => true
  end.

(* SignPrivateKey: outcome class *)
Definition sign_private_key (v : variant) (alg : string) (key : keyobj) (digest_len : nat) : res unit :=
  match sig_family_of alg with
  | None => Err ErrUnsupportedAlgorithm
  | Some SigRS | Some SigPS =>
      match key with
      | KRsaPriv k =>
          let f := if mem_str alg names_rs then SigRS else SigPS in
          if rsa_sign_fits f k (sha_hash_size alg) digest_len then Ok tt else Err ErrOther
      | _ => Err ErrKeyTypeMismatch
      end
  | Some SigES =>
      match key with
      | KEcPriv c => if ec_curve_ok v alg c then Ok tt else Err ErrKeyTypeMismatch
      | _ => Err ErrKeyTypeMismatch
      end
  | Some SigEd =>
      match key with
      | KOkpPriv Ed25519 => Ok tt
      | _ => Err ErrKeyTypeMismatch
      end
  end.

(* VerifyPublicKey: [Ok tt] = returns (valid, nil) — every verification failure of the
   primitive is mapped to (false, nil); [Err s] = returns (false, s). *)
Definition verify_public_key (v : variant) (alg : string) (key : keyobj) : res unit :=
  let key := public_of key in
  match sig_family_of alg with
  | None => Err ErrUnsupportedAlgorithm
  | Some SigRS | Some SigPS =>
      match key with KRsaPub _ => Ok tt | _ => Err ErrKeyTypeMismatch end
  | Some SigES =>
      match key with
      | KEcPub c => if ec_curve_ok v alg c then Ok tt else Err ErrKeyTypeMismatch
      | _ => Err ErrKeyTypeMismatch
      end
  | Some SigEd =>
      match key with KOkpPub Ed25519 => Ok tt | _ => Err ErrKeyTypeMismatch end
  end.

(* ------------------------------------------------------------------------------------- *)
(** * crypto.go: the generic Encrypt / Decrypt route by name lists of their own.  The
      NOPAD names are not in them (so Encrypt answers ErrUnsupportedAlgorithm for them although
      EncryptSymmetric supports them); the GCMKW and ECDH-ES names are routed and then refused
      by the callee. *)

Inductive route := RouteSym | RouteAsym | RouteNone.

Definition generic_route (alg : string) : route :=
  if mem_str alg (names_cbc_pad ++ names_gcm ++ names_cbc_hmac ++ names_kw ++ names_gcmkw
                  ++ ["C20P"; "XC20P"; "C20PKW"; "XC20PKW"]) then RouteSym
  else if mem_str alg (names_ecdh ++ names_rsa_enc) then RouteAsym
  else RouteNone.

(* what an encryption returns: bytes the model predicts, or (asymmetric, randomised) a
   ciphertext whose bytes are not modelled *)
Inductive enc_out := EOBytes (ct tag : list N) | EORandom.
(* decryption: the plaintext, or (asymmetric) "the plaintext Go's primitive recovers" *)
Inductive dec_out := DOBytes (pt : list N) | DOOpaque.

Definition res_map {A B} (f : A -> B) (r : res A) : res B :=
  match r with Ok a => Ok (f a) | Err e => Err e | Panic => Panic end.

(* Encrypt *)
Definition encrypt_generic (v : variant) (alg : string) (key : keyobj) (nonce aad pt : list N) : res enc_out :=
  match generic_route alg with
  | RouteSym => res_map (fun ct => EOBytes (fst ct) (snd ct)) (encrypt_symmetric v alg key nonce aad pt)
  | RouteAsym => res_map (fun _ => EORandom) (encrypt_public_key alg key (len pt))
  | RouteNone => Err ErrUnsupportedAlgorithm
  end.

(* Decrypt; [genuine] is only looked at on the asymmetric route *)
Definition decrypt_generic (vkw vopen : variant) (alg : string) (key : keyobj)
           (nonce tag aad ct : list N) (genuine : bool) : res dec_out :=
  match generic_route alg with
  | RouteSym => res_map DOBytes (decrypt_symmetric vkw vopen alg key nonce tag aad ct)
  | RouteAsym => res_map (fun _ => DOOpaque) (decrypt_private_key alg key genuine)
  | RouteNone => Err ErrUnsupportedAlgorithm
  end.
