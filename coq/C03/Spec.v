(* C03 — what the property demands of the crypto package, written from the property text and
   from the standards it names (NIST SP 800-38A/D, RFC 5652 section 6.3 (PKCS#7 padding),
   RFC 7518 sections 3.4, 5.2 and appendix B, RFC 3394, RFC 8439, RFC 8017), NOT from the code.

   The "independent implementations of the same standards" are the primitives of [Kit.Crypto]
   (written from the published specifications, validated by their own KATs), composed here the
   way the standards say.  [Kit.C03.Model] is imported for the TYPES it declares (sentinel,
   keyobj, curve names); no function of the model is used below except [key_is_oct],
   [mac_fn] (the name -> HMAC table) and the key-object projections. *)
From Kit Require Export C03.Model.

Local Open Scope string_scope.

(* What the harness observed a call to do.  [ObsErr s no_output]: an error whose class is [s]
   ([ErrOther] = none of the package's sentinels) and whether every returned slice was empty. *)
Inductive obs (A : Type) :=
| ObsOk (a : A)
| ObsErr (s : sentinel) (no_output : bool)
| ObsPanic.
Arguments ObsOk {A} a.
Arguments ObsErr {A} s no_output.
Arguments ObsPanic {A}.

(* "an error and no output" with an unspecified error value *)
Definition is_clean_error {A} (o : obs A) : Prop := exists s, o = ObsErr s true.
Definition is_clean_errorb {A} (o : obs A) : bool :=
  match o with ObsErr _ true => true | _ => false end.

(* ------------------------------------------------------------------------------------- *)
(** * The standards table of the 19 symmetric names *)

Inductive sym_kind :=
| SK_Cbc (pad : bool)                       (* SP 800-38A CBC, with / without PKCS#7 *)
| SK_Gcm                                    (* SP 800-38D, 96-bit IV, 128-bit tag (RFC 7518 5.3) *)
| SK_CbcHs (enc mac tag : nat) (h : mac_alg)  (* RFC 7518 5.2.3 - 5.2.5 *)
| SK_Kw                                     (* RFC 3394 *)
| SK_C20 | SK_XC20.                         (* RFC 8439 / draft-irtf-cfrg-xchacha *)

Record sym_std := {
  ss_kind : sym_kind;
  ss_key : nat;                 (* key length in bytes *)
  ss_nonce : option nat;        (* IV / nonce length where the algorithm takes one *)
  ss_tag : option nat }.        (* authentication tag length where there is one *)

Definition mk_std k key nonce tag :=
  {| ss_kind := k; ss_key := key; ss_nonce := nonce; ss_tag := tag |}.

Definition sym_table : list (string * sym_std) := [
  ("A128CBC", mk_std (SK_Cbc true) 16 (Some 16) None);
  ("A192CBC", mk_std (SK_Cbc true) 24 (Some 16) None);
  ("A256CBC", mk_std (SK_Cbc true) 32 (Some 16) None);
  ("A128CBC-NOPAD", mk_std (SK_Cbc false) 16 (Some 16) None);
  ("A192CBC-NOPAD", mk_std (SK_Cbc false) 24 (Some 16) None);
  ("A256CBC-NOPAD", mk_std (SK_Cbc false) 32 (Some 16) None);
  ("A128GCM", mk_std SK_Gcm 16 (Some 12) (Some 16));
  ("A192GCM", mk_std SK_Gcm 24 (Some 12) (Some 16));
  ("A256GCM", mk_std SK_Gcm 32 (Some 12) (Some 16));
  ("A128CBC-HS256", mk_std (SK_CbcHs 16 16 16 MacSHA256) 32 (Some 16) (Some 16));
  ("A192CBC-HS384", mk_std (SK_CbcHs 24 24 24 MacSHA384) 48 (Some 16) (Some 24));
  ("A256CBC-HS512", mk_std (SK_CbcHs 32 32 32 MacSHA512) 64 (Some 16) (Some 32));
  ("A128KW", mk_std SK_Kw 16 None None);
  ("A192KW", mk_std SK_Kw 24 None None);
  ("A256KW", mk_std SK_Kw 32 None None);
  ("C20P", mk_std SK_C20 32 (Some 12) (Some 16));
  ("C20PKW", mk_std SK_C20 32 (Some 12) (Some 16));
  ("XC20P", mk_std SK_XC20 32 (Some 24) (Some 16));
  ("XC20PKW", mk_std SK_XC20 32 (Some 24) (Some 16)) ].

Fixpoint lookup {A} (s : string) (t : list (string * A)) : option A :=
  match t with
  | [] => None
  | (n, a) :: rest => if String.eqb s n then Some a else lookup s rest
  end.

Definition sym_std_of (alg : string) : option sym_std := lookup alg sym_table.

(* ------------------------------------------------------------------------------------- *)
(** * Reference algorithms *)

(* RFC 5652 section 6.3: pad at the trailing end with k - (lth mod k) octets all having value
   k - (lth mod k) *)
Definition ref_pad (k : nat) (m : list N) : list N :=
  let p := k - length m mod k in m ++ repeat (N.of_nat p) p.

(* the inverse: a whole number of blocks whose last octet p satisfies 1 <= p <= k and whose
   last p octets all equal p *)
Definition ref_unpad (k : nat) (m : list N) : option (list N) :=
  let p := last m 0%N in
  let n := N.to_nat p in
  if Nat.eqb (length m mod k) 0 && Nat.leb 1 n && Nat.leb n k && Nat.leb n (length m)
     && forallb (N.eqb p) (skipn (length m - n) m)
  then Some (firstn (length m - n) m) else None.

Definition split_tail (n : nat) (l : list N) : list N * list N :=
  (firstn (length l - n) l, skipn (length l - n) l).

(* RFC 7518 section 5.2.2.1: MAC_KEY = initial octets, ENC_KEY = final octets of K;
   E = CBC-PKCS7(ENC_KEY, IV, P); AL = bit length of A as a 64-bit big-endian integer;
   M = MAC(MAC_KEY, A || IV || E || AL); T = first T_LEN octets of M *)
Definition ref_cbchs_tag (m t : nat) (h : mac_alg) (key nonce aad ct : list N) : list N :=
  firstn t (mac_fn h (firstn m key) (aad ++ nonce ++ ct ++ be64 (8 * lenN aad))).

Definition ref_encrypt (k : sym_kind) (key nonce aad pt : list N) : list N * list N :=
  match k with
  | SK_Cbc pad => (aes_cbc_encrypt key nonce (if pad then ref_pad 16 pt else pt), [])
  | SK_Gcm => split_tail 16 (gcm_seal key nonce aad pt)
  | SK_CbcHs e m t h =>
      let ct := aes_cbc_encrypt (skipn (length key - e) key) nonce (ref_pad 16 pt) in
      (ct, ref_cbchs_tag m t h key nonce aad ct)
  | SK_Kw => (aes_kw_wrap key pt, [])
  | SK_C20 => split_tail 16 (chacha20poly1305_seal key nonce aad pt)
  | SK_XC20 => split_tail 16 (xchacha20poly1305_seal key nonce aad pt)
  end.

(* the tag presented with a ciphertext is the one the standard computes (only meaningful for the
   encrypt-then-MAC scheme, where the tag is a function of the ciphertext) *)
Definition ref_tag_ok (k : sym_kind) (key nonce tag aad ct : list N) : bool :=
  match k with
  | SK_CbcHs e m t h => eqb_listN tag (ref_cbchs_tag m t h key nonce aad ct)
  | _ => true
  end.

Definition ref_decrypt (k : sym_kind) (key nonce tag aad ct : list N) : option (list N) :=
  match k with
  | SK_Cbc pad =>
      let p := aes_cbc_decrypt key nonce ct in if pad then ref_unpad 16 p else Some p
  | SK_Gcm => gcm_open key nonce aad (ct ++ tag)
  | SK_CbcHs e m t h =>
      if eqb_listN tag (ref_cbchs_tag m t h key nonce aad ct)
      then ref_unpad 16 (aes_cbc_decrypt (skipn (length key - e) key) nonce ct)
      else None
  | SK_Kw => aes_kw_unwrap key ct
  | SK_C20 => chacha20poly1305_open key nonce aad (ct ++ tag)
  | SK_XC20 => xchacha20poly1305_open key nonce aad (ct ++ tag)
  end.

(* ------------------------------------------------------------------------------------- *)
(** * Which inputs are of the wrong kind or size, and which sentinel the property names *)

Definition len_problem (want : option nat) (got : nat) (s : sentinel) : list sentinel :=
  match want with
  | Some w => if Nat.eqb got w then [] else [s]
  | None => []
  end.

(* wrong data length for which the package defines a sentinel *)
Definition data_problem (dec : bool) (k : sym_kind) (n : nat) : list sentinel :=
  match k with
  | SK_Cbc pad =>
      if Nat.eqb (n mod 16) 0 then []
      else if dec then [ErrInvalidCiphertextLength]
      else if pad then [] else [ErrInvalidPlaintextLength]
  | _ => []
  end.

(* wrong data length for which it defines none (the error values belong to the sub-packages):
   key data to wrap that is empty or not a whole number of 64-bit blocks (RFC 3394 wraps n >= 2
   blocks, the package also n = 1; nothing cannot be wrapped), a wrapped key that is not at
   least two of them, an encrypt-then-MAC ciphertext that is not whole AES blocks *)
Definition data_unnamed_problem (dec : bool) (k : sym_kind) (n : nat) : bool :=
  match k with
  | SK_Kw => negb (Nat.eqb (n mod 8) 0) || (if dec then Nat.ltb n 16 else Nat.eqb n 0)
  | SK_CbcHs _ _ _ _ => dec && negb (Nat.eqb (n mod 16) 0)
  | _ => false
  end.

Definition key_bytes (key : keyobj) : list N := match key with KOct b => b | _ => [] end.

(* every sentinel that applies to the input; [dec] says whether a tag is part of the input *)
Definition sym_problems (dec : bool) (alg : string) (key : keyobj) (nonce tag data : list N)
  : list sentinel :=
  (if key_is_oct key then [] else [ErrKeyTypeMismatch]) ++
  match sym_std_of alg with
  | None => [ErrUnsupportedAlgorithm]
  | Some st =>
      (if key_is_oct key && negb (Nat.eqb (length (key_bytes key)) (ss_key st))
       then [ErrKeyTypeMismatch] else []) ++
      len_problem (ss_nonce st) (length nonce) ErrInvalidNonce ++
      (if dec then len_problem (ss_tag st) (length tag) ErrInvalidTag else []) ++
      data_problem dec (ss_kind st) (length data)
  end.

Definition padded_kind (k : sym_kind) : bool :=
  match k with SK_Cbc true | SK_CbcHs _ _ _ _ => true | _ => false end.

(* ------------------------------------------------------------------------------------- *)
(** * EncryptSymmetric / DecryptSymmetric *)

Definition sentinel_in (s : sentinel) (l : list sentinel) : bool := existsb (sentinel_eqb s) l.

(* an error, no output, and the sentinel is one of those that apply *)
Definition err_among {A} (ps : list sentinel) (o : obs A) : Prop :=
  exists s, o = ObsErr s true /\ In s ps.
Definition err_amongb {A} (ps : list sentinel) (o : obs A) : bool :=
  match o with ObsErr s true => sentinel_in s ps | _ => false end.

Definition sym_enc_spec (alg : string) (key : keyobj) (nonce aad pt : list N)
           (o : obs (list N * list N)) : Prop :=
  match sym_problems false alg key nonce [] pt with
  | (_ :: _) as ps => err_among ps o
  | [] =>
      match sym_std_of alg with
      | None => False
      | Some st =>
          if data_unnamed_problem false (ss_kind st) (length pt) then is_clean_error o
          else o = ObsOk (ref_encrypt (ss_kind st) (key_bytes key) nonce aad pt)
      end
  end.

Definition pair_eqb (a b : list N * list N) : bool :=
  eqb_listN (fst a) (fst b) && eqb_listN (snd a) (snd b).

Definition sym_enc_oracle (alg : string) (key : keyobj) (nonce aad pt : list N)
           (o : obs (list N * list N)) : bool :=
  match sym_problems false alg key nonce [] pt with
  | (_ :: _) as ps => err_amongb ps o
  | [] =>
      match sym_std_of alg with
      | None => false
      | Some st =>
          if data_unnamed_problem false (ss_kind st) (length pt) then is_clean_errorb o
          else match o with
               | ObsOk out => pair_eqb out (ref_encrypt (ss_kind st) (key_bytes key) nonce aad pt)
               | _ => false
               end
      end
  end.

(* Decryption of well-sized input: exactly what the reference decryption yields; a rejection is
   an error with no output; for the encrypt-then-MAC scheme a wrong tag must not be reported as
   a padding failure (the tag is checked first - no padding oracle).
   Not judged (DESIGN section 6, "mirrored, not flagged"): the EMPTY ciphertext under a padded
   mode with an acceptable tag, which the package decrypts to the empty plaintext. *)
Definition not_padding_error (s : sentinel) : Prop := s <> ErrPkcs7Padding /\ s <> ErrPkcs7BlockSize.
Definition not_padding_errorb (s : sentinel) : bool :=
  negb (sentinel_eqb s ErrPkcs7Padding) && negb (sentinel_eqb s ErrPkcs7BlockSize).

Definition sym_dec_spec (alg : string) (key : keyobj) (nonce tag aad ct : list N)
           (o : obs (list N)) : Prop :=
  match sym_problems true alg key nonce tag ct with
  | (_ :: _) as ps => err_among ps o
  | [] =>
      match sym_std_of alg with
      | None => False
      | Some st =>
          let k := ss_kind st in
          let kb := key_bytes key in
          if data_unnamed_problem true k (length ct) then is_clean_error o
          else if negb (ref_tag_ok k kb nonce tag aad ct)
          then exists s, o = ObsErr s true /\ not_padding_error s
          else if padded_kind k && Nat.eqb (length ct) 0
          then o = ObsOk [] \/ is_clean_error o
          else match ref_decrypt k kb nonce tag aad ct with
               | Some p => o = ObsOk p
               | None => is_clean_error o
               end
      end
  end.

Definition sym_dec_oracle (alg : string) (key : keyobj) (nonce tag aad ct : list N)
           (o : obs (list N)) : bool :=
  match sym_problems true alg key nonce tag ct with
  | (_ :: _) as ps => err_amongb ps o
  | [] =>
      match sym_std_of alg with
      | None => false
      | Some st =>
          let k := ss_kind st in
          let kb := key_bytes key in
          if data_unnamed_problem true k (length ct) then is_clean_errorb o
          else if negb (ref_tag_ok k kb nonce tag aad ct)
          then match o with ObsErr s true => not_padding_errorb s | _ => false end
          else if padded_kind k && Nat.eqb (length ct) 0
          then match o with ObsOk [] => true | _ => is_clean_errorb o end
          else match ref_decrypt k kb nonce tag aad ct with
               | Some p => match o with ObsOk p' => eqb_listN p' p | _ => false end
               | None => is_clean_errorb o
               end
      end
  end.

(* The generic Encrypt / Decrypt of crypto.go route by name.  The property fixes the behaviour
   of the algorithms, not which of them the router knows: it may decline a name with
   ErrUnsupportedAlgorithm, otherwise the call must behave as the specific function. *)
Definition declined {A} (o : obs A) : Prop := o = ObsErr ErrUnsupportedAlgorithm true.
Definition declinedb {A} (o : obs A) : bool :=
  match o with ObsErr ErrUnsupportedAlgorithm true => true | _ => false end.

(* ------------------------------------------------------------------------------------- *)
(** * crypto/padding as exported *)

Definition pad_spec (buf : list N) (size : Z) (o : obs (list N)) : Prop :=
  if ((1 <? size) && (size <? 256))%Z then o = ObsOk (ref_pad (Z.to_nat size) buf)
  else o = ObsErr ErrPkcs7BlockSize true.

Definition pad_oracle (buf : list N) (size : Z) (o : obs (list N)) : bool :=
  if ((1 <? size) && (size <? 256))%Z
  then match o with ObsOk out => eqb_listN out (ref_pad (Z.to_nat size) buf) | _ => false end
  else match o with ObsErr ErrPkcs7BlockSize true => true | _ => false end.

(* unpadding: the empty buffer is not judged (see above) *)
Definition unpad_spec (buf : list N) (size : Z) (o : obs (list N)) : Prop :=
  if ((1 <? size) && (size <? 256))%Z then
    match buf with
    | [] => o = ObsOk [] \/ is_clean_error o
    | _ => match ref_unpad (Z.to_nat size) buf with
           | Some p => o = ObsOk p
           | None => o = ObsErr ErrPkcs7Padding true
           end
    end
  else o = ObsErr ErrPkcs7BlockSize true.

Definition unpad_oracle (buf : list N) (size : Z) (o : obs (list N)) : bool :=
  if ((1 <? size) && (size <? 256))%Z then
    match buf with
    | [] => match o with ObsOk [] => true | _ => is_clean_errorb o end
    | _ => match ref_unpad (Z.to_nat size) buf with
           | Some p => match o with ObsOk p' => eqb_listN p' p | _ => false end
           | None => match o with ObsErr ErrPkcs7Padding true => true | _ => false end
           end
    end
  else match o with ObsErr ErrPkcs7BlockSize true => true | _ => false end.

(* ------------------------------------------------------------------------------------- *)
(** * crypto/aeskw as exported (the block cipher is AES under a valid key) *)

Definition kw_spec (unwrap : bool) (key data : list N) (o : obs (list N)) : Prop :=
  if data_unnamed_problem unwrap SK_Kw (length data) then is_clean_error o
  else if unwrap then
    match aes_kw_unwrap key data with
    | Some p => o = ObsOk p
    | None => is_clean_error o
    end
  else o = ObsOk (aes_kw_wrap key data).

Definition kw_oracle (unwrap : bool) (key data : list N) (o : obs (list N)) : bool :=
  if data_unnamed_problem unwrap SK_Kw (length data) then is_clean_errorb o
  else if unwrap then
    match aes_kw_unwrap key data with
    | Some p => match o with ObsOk p' => eqb_listN p' p | _ => false end
    | None => is_clean_errorb o
    end
  else match o with ObsOk c => eqb_listN c (aes_kw_wrap key data) | _ => false end.

(* ------------------------------------------------------------------------------------- *)
(** * crypto/aescbcaead as exported: the four constructors, Seal and Open.
      A key of the wrong length makes the constructor fail; a nonce that is not one AES block
      makes Seal panic (documented: cipher.AEAD cannot return an error) and Open fail. *)

Definition cbchs_kind_std (k : cbchmac_kind) : sym_kind :=
  match k with
  | CH_128_256 => SK_CbcHs 16 16 16 MacSHA256
  | CH_192_384 => SK_CbcHs 24 24 24 MacSHA384
  | CH_256_384 => SK_CbcHs 32 24 24 MacSHA384      (* draft-mcgrew-aead-aes-cbc-hmac-sha2 *)
  | CH_256_512 => SK_CbcHs 32 32 32 MacSHA512
  end.
Definition sk_key_len (k : sym_kind) : nat :=
  match k with SK_CbcHs e m _ _ => e + m | _ => 0 end.
Definition sk_tag_len (k : sym_kind) : nat :=
  match k with SK_CbcHs _ _ t _ => t | _ => 0 end.

(* [data] = plaintext (Seal) / ciphertext || tag (Open) *)
Definition cbchs_spec (open : bool) (kind : cbchmac_kind) (key nonce data aad : list N)
           (o : obs (list N)) : Prop :=
  let k := cbchs_kind_std kind in
  if negb (Nat.eqb (length key) (sk_key_len k)) then is_clean_error o
  else if negb open then
    if Nat.eqb (length nonce) 16
    then o = ObsOk (let r := ref_encrypt k key nonce aad data in (fst r ++ snd r)%list)
    else o = ObsPanic \/ is_clean_error o
  else
    let t := sk_tag_len k in
    if Nat.ltb (length data) t || negb (Nat.eqb ((length data - t) mod 16) 0)
    then is_clean_error o
    else
      let ct := firstn (length data - t) data in
      let tag := skipn (length data - t) data in
      if negb (ref_tag_ok k key nonce tag aad ct)
      then exists s, o = ObsErr s true /\ not_padding_error s
      else if Nat.eqb (length ct) 0 then o = ObsOk [] \/ is_clean_error o
      else match ref_decrypt k key nonce tag aad ct with
           | Some p => o = ObsOk p
           | None => is_clean_error o
           end.

Definition cbchs_oracle (open : bool) (kind : cbchmac_kind) (key nonce data aad : list N)
           (o : obs (list N)) : bool :=
  let k := cbchs_kind_std kind in
  if negb (Nat.eqb (length key) (sk_key_len k)) then is_clean_errorb o
  else if negb open then
    if Nat.eqb (length nonce) 16
    then match o with
         | ObsOk out => eqb_listN out (let r := ref_encrypt k key nonce aad data in (fst r ++ snd r)%list)
         | _ => false
         end
    else match o with ObsPanic => true | _ => is_clean_errorb o end
  else
    let t := sk_tag_len k in
    if Nat.ltb (length data) t || negb (Nat.eqb ((length data - t) mod 16) 0)
    then is_clean_errorb o
    else
      let ct := firstn (length data - t) data in
      let tag := skipn (length data - t) data in
      if negb (ref_tag_ok k key nonce tag aad ct)
      then match o with ObsErr s true => not_padding_errorb s | _ => false end
      else if Nat.eqb (length ct) 0
      then match o with ObsOk [] => true | _ => is_clean_errorb o end
      else match ref_decrypt k key nonce tag aad ct with
           | Some p => match o with ObsOk p' => eqb_listN p' p | _ => false end
           | None => is_clean_errorb o
           end.

(* ------------------------------------------------------------------------------------- *)
(** * Asymmetric encryption and signatures: key kinds per algorithm (RFC 7518 sections 3.3 -
      3.5, 4.2, 4.3; RFC 8037), size limits of RFC 8017.  The primitives are Go's; the
      observation carries the outcome of the harness's cross-check against direct use of
      crypto/rsa, crypto/ecdsa, crypto/ed25519. *)

Inductive rsa_enc_std := RE_PKCS1 | RE_OAEP (hlen : nat).
Definition rsa_enc_table : list (string * rsa_enc_std) := [
  ("RSA1_5", RE_PKCS1); ("RSA-OAEP", RE_OAEP 20); ("RSA-OAEP-256", RE_OAEP 32);
  ("RSA-OAEP-384", RE_OAEP 48); ("RSA-OAEP-512", RE_OAEP 64) ].

(* RFC 8017 7.2.1 step 1: mLen <= k - 11; 7.1.1 step 1b: mLen <= k - 2hLen - 2 *)
Definition rsa_enc_fits (sc : rsa_enc_std) (k mlen : nat) : bool :=
  match sc with
  | RE_PKCS1 => Nat.leb (mlen + 11) k
  | RE_OAEP h => Nat.leb (mlen + 2 * h + 2) k
  end.

Definition rsa_modulus_bytes (key : keyobj) : option nat :=
  match key with KRsaPriv k | KRsaPub k => Some k | _ => None end.

(* EncryptPublicKey: [xcheck] = Go's rsa.Decrypt* with the private key recovered the plaintext *)
Definition pub_enc_spec (alg : string) (key : keyobj) (ptlen : nat) (o : obs unit) (xcheck : bool)
  : Prop :=
  match lookup alg rsa_enc_table with
  | None => err_among ((if rsa_modulus_bytes key then [] else [ErrKeyTypeMismatch])
                         ++ [ErrUnsupportedAlgorithm]) o
  | Some sc =>
      match rsa_modulus_bytes key with
      | None => o = ObsErr ErrKeyTypeMismatch true
      | Some k => if rsa_enc_fits sc k ptlen then o = ObsOk tt /\ xcheck = true
                  else is_clean_error o
      end
  end.

Definition pub_enc_oracle (alg : string) (key : keyobj) (ptlen : nat) (o : obs unit) (xcheck : bool)
  : bool :=
  match lookup alg rsa_enc_table with
  | None => err_amongb ((if rsa_modulus_bytes key then [] else [ErrKeyTypeMismatch])
                          ++ [ErrUnsupportedAlgorithm]) o
  | Some sc =>
      match rsa_modulus_bytes key with
      | None => match o with ObsErr ErrKeyTypeMismatch true => true | _ => false end
      | Some k => if rsa_enc_fits sc k ptlen
                  then match o with ObsOk _ => xcheck | _ => false end
                  else is_clean_errorb o
      end
  end.

(* DecryptPrivateKey.  [genuine]: the ciphertext was made by an independent implementation (or
   by the package) for this key, algorithm and label; [authenticated]: a non-genuine ciphertext
   cannot decrypt (OAEP: yes; PKCS#1 v1.5 has no integrity, nothing is demanded of altered
   ciphertexts); [ptmatch]: the returned bytes equal the original plaintext. *)
Definition priv_dec_spec (alg : string) (key : keyobj) (genuine : bool) (o : obs unit)
           (ptmatch : bool) : Prop :=
  match lookup alg rsa_enc_table with
  | None => err_among ((match key with KRsaPriv _ => [] | _ => [ErrKeyTypeMismatch] end)
                         ++ [ErrUnsupportedAlgorithm]) o
  | Some sc =>
      match key with
      | KRsaPriv _ =>
          if genuine then o = ObsOk tt /\ ptmatch = true
          else match sc with
               | RE_OAEP _ => is_clean_error o
               | RE_PKCS1 => o <> ObsPanic /\ (forall s b, o = ObsErr s b -> b = true)
               end
      | _ => o = ObsErr ErrKeyTypeMismatch true
      end
  end.

Definition priv_dec_oracle (alg : string) (key : keyobj) (genuine : bool) (o : obs unit)
           (ptmatch : bool) : bool :=
  match lookup alg rsa_enc_table with
  | None => err_amongb ((match key with KRsaPriv _ => [] | _ => [ErrKeyTypeMismatch] end)
                          ++ [ErrUnsupportedAlgorithm]) o
  | Some sc =>
      match key with
      | KRsaPriv _ =>
          if genuine then match o with ObsOk _ => ptmatch | _ => false end
          else match sc with
               | RE_OAEP _ => is_clean_errorb o
               | RE_PKCS1 => match o with ObsOk _ => true | ObsErr _ b => b | ObsPanic => false end
               end
      | _ => match o with ObsErr ErrKeyTypeMismatch true => true | _ => false end
      end
  end.

(* signatures *)
Inductive sig_std :=
| SG_RS (hlen : nat) | SG_PS (hlen : nat) | SG_ES (c : curve) | SG_Ed.

Definition sig_table : list (string * sig_std) := [
  ("RS256", SG_RS 32); ("RS384", SG_RS 48); ("RS512", SG_RS 64);
  ("PS256", SG_PS 32); ("PS384", SG_PS 48); ("PS512", SG_PS 64);
  ("ES256", SG_ES P256); ("ES384", SG_ES P384); ("ES512", SG_ES P521);   (* RFC 7518 3.4 *)
  ("EdDSA", SG_Ed) ].

(* the key is of the kind the algorithm is defined for; [priv]: a private key is required *)
Definition sig_key_ok (g : sig_std) (priv : bool) (key : keyobj) : bool :=
  match g, key with
  | (SG_RS _ | SG_PS _), KRsaPriv _ => true
  | (SG_RS _ | SG_PS _), KRsaPub _ => negb priv
  | SG_ES c, KEcPriv c' => curve_eqb c c'
  | SG_ES c, KEcPub c' => negb priv && curve_eqb c c'
  | SG_Ed, KOkpPriv Ed25519 => true
  | SG_Ed, KOkpPub Ed25519 => negb priv
  | _, _ => false
  end.

(* RFC 8017 9.2 step 3: emLen >= tLen + 11 with tLen = 19 + hLen for the SHA-2 DigestInfo;
   9.1.1 step 3 with the longest salt that fits: emLen >= hLen + 2.  The input must be a digest
   of the algorithm's hash.  ECDSA and EdDSA take any input length. *)
Definition sig_fits (g : sig_std) (key : keyobj) (dlen : nat) : bool :=
  match g, rsa_modulus_bytes key with
  | SG_RS h, Some k => Nat.eqb dlen h && Nat.leb (19 + h + 11) k
  | SG_PS h, Some k => Nat.eqb dlen h && Nat.leb (h + 2) k
  | _, _ => true
  end.

(* SignPrivateKey: [xcheck] = direct use of Go's verification primitive with the public key
   accepted the signature over the same digest *)
Definition sign_spec (alg : string) (key : keyobj) (dlen : nat) (o : obs unit) (xcheck : bool)
  : Prop :=
  match lookup alg sig_table with
  | None => o = ObsErr ErrUnsupportedAlgorithm true
  | Some g =>
      if negb (sig_key_ok g true key) then o = ObsErr ErrKeyTypeMismatch true
      else if sig_fits g key dlen then o = ObsOk tt /\ xcheck = true
      else is_clean_error o
  end.

Definition sign_oracle (alg : string) (key : keyobj) (dlen : nat) (o : obs unit) (xcheck : bool)
  : bool :=
  match lookup alg sig_table with
  | None => match o with ObsErr ErrUnsupportedAlgorithm true => true | _ => false end
  | Some g =>
      if negb (sig_key_ok g true key)
      then match o with ObsErr ErrKeyTypeMismatch true => true | _ => false end
      else if sig_fits g key dlen then match o with ObsOk _ => xcheck | _ => false end
      else is_clean_errorb o
  end.

(* VerifyPublicKey: [genuine] = the signature was made (by direct use of Go's primitives, or by
   the package) with the matching private key over the same digest under this algorithm;
   [valid] = the boolean the call returned.  "accepts exactly the signatures made by the
   matching private key over the same digest". *)
Definition verify_spec (alg : string) (key : keyobj) (genuine : bool) (valid : bool) (o : obs unit)
  : Prop :=
  match lookup alg sig_table with
  | None => o = ObsErr ErrUnsupportedAlgorithm true /\ valid = false
  | Some g =>
      if negb (sig_key_ok g false key) then o = ObsErr ErrKeyTypeMismatch true /\ valid = false
      else o = ObsOk tt /\ valid = genuine
  end.

Definition verify_oracle (alg : string) (key : keyobj) (genuine : bool) (valid : bool) (o : obs unit)
  : bool :=
  match lookup alg sig_table with
  | None => match o with ObsErr ErrUnsupportedAlgorithm true => negb valid | _ => false end
  | Some g =>
      if negb (sig_key_ok g false key)
      then match o with ObsErr ErrKeyTypeMismatch true => negb valid | _ => false end
      else match o with ObsOk _ => Bool.eqb valid genuine | _ => false end
  end.
