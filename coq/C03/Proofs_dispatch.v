(* C03 — dispatch totality: for each algorithm name and EVERY key / nonce / tag / data length
   the model returns exactly the sentinel the specification names; unknown names give
   ErrUnsupportedAlgorithm; an error carries no output ([Err e] has no payload, by
   construction of [Kit.Lib.Base.result]).

   Stdlib style only.  No axioms. *)
From Kit Require Import C03.Model C03.Spec.
From Coq Require Import String List Lia Bool Arith.
From Coq Require Import ZifyBool ZifyNat.
Import ListNotations.
Local Open Scope string_scope.

Local Ltac Zify.zify_post_hook ::= Z.div_mod_to_equations.

(* ------------------------------------------------------------------------------------- *)
(** * Classification of an arbitrary algorithm name *)

(* repeated case analysis on [alg = "<literal>"] for every literal the goal compares [alg]
   with; [closed] finishes the branch where [alg] has become a literal *)
Local Ltac split_names alg closed :=
  repeat match goal with
         | |- context [String.eqb alg ?s] =>
             let Hne := fresh "Hne" in
             destruct (String.eqb_spec alg s) as [-> | Hne]; [ closed | ]
         end.

Local Ltac in_tac := cbn [In app]; repeat first [ left; reflexivity | right ].

(* everything the proofs below need to know about a name, by family *)
Definition sym_facts (alg : string) : Prop :=
  match sym_family_of alg with
  | Some FCbcPad =>
      aes_size_ok (expected_key_size alg) = true /\ mem_str alg names_cbc_nopad = false /\
      sym_std_of alg = Some (mk_std (SK_Cbc true) (expected_key_size alg) (Some 16) None)
  | Some FCbcNoPad =>
      aes_size_ok (expected_key_size alg) = true /\ mem_str alg names_cbc_nopad = true /\
      sym_std_of alg = Some (mk_std (SK_Cbc false) (expected_key_size alg) (Some 16) None)
  | Some FGcm =>
      aes_size_ok (expected_key_size alg) = true /\
      sym_std_of alg = Some (mk_std SK_Gcm (expected_key_size alg) (Some 12) (Some 16))
  | Some FCbcHmac =>
      exists k, cbchmac_kind_of alg = Some k /\
                sym_std_of alg = Some (mk_std (cbchs_kind_std k) (cbchmac_total_key k) (Some 16)
                                              (Some (snd (fst (cbchmac_sizes k)))))
  | Some FKw =>
      aes_size_ok (expected_key_size alg) = true /\
      sym_std_of alg = Some (mk_std SK_Kw (expected_key_size alg) None None)
  | Some FChaCha => sym_std_of alg = Some (mk_std SK_C20 32 (Some 12) (Some 16))
  | Some FXChaCha => sym_std_of alg = Some (mk_std SK_XC20 32 (Some 24) (Some 16))
  | None => sym_std_of alg = None
  end.

Lemma sym_facts_all alg : sym_facts alg.
Proof.
  unfold sym_facts, sym_family_of, sym_std_of, sym_table, mem_str, cbchmac_kind_of,
    names_cbc_pad, names_cbc_nopad, names_gcm, names_cbc_hmac, names_kw, names_chacha,
    names_xchacha.
  cbn [existsb lookup].
  split_names alg ltac:(vm_compute; try (eexists; split; reflexivity); repeat split; reflexivity).
  cbn [orb]. reflexivity.
Qed.

Lemma supported_symmetric_family alg :
  In alg supported_symmetric <-> sym_family_of alg <> None.
Proof.
  unfold sym_family_of, mem_str, supported_symmetric,
    names_cbc_pad, names_cbc_nopad, names_gcm, names_cbc_hmac, names_kw, names_chacha,
    names_xchacha.
  cbn [existsb app].
  split_names alg ltac:(vm_compute; split; [ intros _; discriminate | intros _; in_tac ]).
  cbn [orb In]. split; [ intro Hin | intro Hnn; now contradiction Hnn ].
  repeat (destruct Hin as [Heq | Hin]; [ symmetry in Heq; contradiction | ]).
  contradiction.
Qed.

Lemma family_none_iff_std_none alg : sym_family_of alg = None <-> sym_std_of alg = None.
Proof.
  pose proof (sym_facts_all alg) as HF. unfold sym_facts in HF.
  destruct (sym_family_of alg) as [[]|].
  all: split; intro H; try reflexivity; try discriminate; try assumption.
  all: try (destruct HF as (? & ? & HS); rewrite HS in H; discriminate).
  all: try (destruct HF as (? & HS); rewrite HS in H; discriminate).
  all: rewrite HF in H; discriminate.
Qed.

(* 4b: the 19 supported names are exactly the names of the standards table *)
Theorem supported_symmetric_known alg :
  In alg supported_symmetric <-> sym_std_of alg <> None.
Proof.
  rewrite supported_symmetric_family. now rewrite family_none_iff_std_none.
Qed.
Print Assumptions supported_symmetric_known.

Example supported_symmetric_count : List.length supported_symmetric = 19.
Proof. reflexivity. Qed.

(* ------------------------------------------------------------------------------------- *)
(** * Facts about the pieces the symmetric functions are made of *)

Lemma aes_size_ok_iff n : aes_size_ok n = true <-> n = 16 \/ n = 24 \/ n = 32.
Proof. unfold aes_size_ok. lia. Qed.

Lemma aes_key_ok_size key : aes_key_ok key = aes_size_ok (len key).
Proof. reflexivity. Qed.

Lemma aes_key_ok_of_len key n :
  len key = n -> aes_size_ok n = true -> aes_key_ok key = true.
Proof. intros Hl Hn. rewrite aes_key_ok_size, Hl. exact Hn. Qed.

(* PadPKCS7(_, 16) always succeeds and yields whole blocks *)
Lemma pad16_ok pt : exists p, pad_pkcs7 pt 16 = Ok p /\ len p mod 16 = 0.
Proof.
  unfold pad_pkcs7.
  change (pkcs7_size_ok 16) with true. change (Z.to_nat 16) with 16. cbn [negb].
  eexists; split; [reflexivity|].
  unfold len. rewrite app_length, repeat_length. lia.
Qed.

Lemma go_cbc_encrypt_ok E key iv src :
  len iv = 16 -> len src mod 16 = 0 -> exists ct, go_cbc_encrypt E key iv src = Ok ct.
Proof.
  intros Hiv Hsrc. unfold go_cbc_encrypt. rewrite Hiv, Hsrc. cbn [Nat.eqb negb].
  eexists; reflexivity.
Qed.

Lemma go_cbc_decrypt_ok D key iv src :
  len iv = 16 -> len src mod 16 = 0 -> exists pt, go_cbc_decrypt D key iv src = Ok pt.
Proof.
  intros Hiv Hsrc. unfold go_cbc_decrypt. rewrite Hiv, Hsrc. cbn [Nat.eqb negb].
  eexists; reflexivity.
Qed.

(* UnpadPKCS7 returns a value or an error, it never panics *)
Lemma unpad16_no_panic b : unpad_pkcs7 b 16 <> Panic.
Proof.
  unfold unpad_pkcs7. change (pkcs7_size_ok 16) with true. cbn [negb].
  repeat match goal with |- context [if ?c then _ else _] => destruct c end; discriminate.
Qed.

(* the four constructors of aescbcaead accept exactly their key length; the encryption key
   they cut off is an AES key *)
Lemma aescbcaead_new_some k key :
  len key = cbchmac_total_key k ->
  exists c, aescbcaead_new k key = Some c /\ ch_tag c = snd (fst (cbchmac_sizes k)) /\
            aes_key_ok (ch_enc_key c) = true.
Proof.
  intro Hl. unfold aescbcaead_new, cbchmac_new.
  destruct k; cbn [cbchmac_sizes cbchmac_total_key] in *; rewrite Hl, Nat.eqb_refl;
    (eexists; split; [reflexivity|]; cbn [ch_tag ch_enc_key fst snd]; split; [reflexivity|]);
    unfold aes_key_ok; rewrite skipn_length; unfold len in Hl; rewrite Hl; reflexivity.
Qed.

(* ------------------------------------------------------------------------------------- *)
(** * Encryption, family by family: the checks of the dispatch layer are exactly the checks
      the function makes, in the same order, and when they all pass a result is returned *)

Local Ltac eqb_cases :=
  repeat match goal with
         | |- context [Nat.eqb ?a ?b] =>
             let Heq := fresh "Heq" in let Hne := fresh "Hne" in
             destruct (Nat.eqb_spec a b) as [Heq | Hne]
         | |- context [Nat.ltb ?a ?b] =>
             let Hlt := fresh "Hlt" in let Hge := fresh "Hge" in
             destruct (Nat.ltb_spec a b) as [Hlt | Hge]
         end.

Lemma encrypt_cbc_cases alg nopad kb iv pt :
  aes_size_ok (expected_key_size alg) = true ->
  match (if negb (Nat.eqb (len kb) (expected_key_size alg)) then Some ErrKeyTypeMismatch
         else if negb (Nat.eqb (len iv) 16) then Some ErrInvalidNonce
         else if nopad && negb (Nat.eqb (len pt mod 16) 0) then Some ErrInvalidPlaintextLength
         else None) with
  | Some e => encrypt_cbc alg nopad kb iv pt = Err e
  | None => exists out, encrypt_cbc alg nopad kb iv pt = Ok out
  end.
Proof.
  intro Hsz. unfold encrypt_cbc.
  destruct (Nat.eqb_spec (len kb) (expected_key_size alg)) as [Hk|Hk]; cbn [negb]; [|reflexivity].
  destruct (Nat.eqb_spec (len iv) 16) as [Hiv|Hiv]; cbn [negb]; [|reflexivity].
  rewrite (aes_key_ok_of_len kb _ Hk Hsz). cbn [negb].
  destruct nopad; cbn [andb].
  - destruct (Nat.eqb_spec (len pt mod 16) 0) as [Hpt|Hpt]; cbn [negb]; [|reflexivity].
    destruct (go_cbc_encrypt_ok aesE kb iv pt Hiv Hpt) as [ct ->]. eexists; reflexivity.
  - destruct (pad16_ok pt) as (p & -> & Hp).
    destruct (go_cbc_encrypt_ok aesE kb iv p Hiv Hp) as [ct ->]. eexists; reflexivity.
Qed.

Lemma encrypt_gcm_cases alg kb nonce aad pt :
  aes_size_ok (expected_key_size alg) = true ->
  match (if negb (Nat.eqb (len kb) (expected_key_size alg)) then Some ErrKeyTypeMismatch
         else if negb (Nat.eqb (len nonce) 12) then Some ErrInvalidNonce
         else None) with
  | Some e => encrypt_gcm alg kb nonce aad pt = Err e
  | None => exists out, encrypt_gcm alg kb nonce aad pt = Ok out
  end.
Proof.
  intro Hsz. unfold encrypt_gcm.
  destruct (Nat.eqb_spec (len kb) (expected_key_size alg)) as [Hk|Hk]; cbn [negb]; [|reflexivity].
  rewrite (aes_key_ok_of_len kb _ Hk Hsz). cbn [negb].
  unfold encrypt_aead, gcm_aead. cbn [ad_nonce_size ad_overhead ad_seal].
  destruct (Nat.eqb_spec (len nonce) 12) as [Hn|Hn]; cbn [negb]; [|reflexivity].
  eexists; reflexivity.
Qed.

Lemma encrypt_cbchmac_cases alg k kb nonce aad pt :
  cbchmac_kind_of alg = Some k ->
  match (if negb (Nat.eqb (len kb) (cbchmac_total_key k)) then Some ErrKeyTypeMismatch
         else if negb (Nat.eqb (len nonce) 16) then Some ErrInvalidNonce
         else None) with
  | Some e => encrypt_cbchmac alg kb nonce aad pt = Err e
  | None => exists out, encrypt_cbchmac alg kb nonce aad pt = Ok out
  end.
Proof.
  intro Hk. unfold encrypt_cbchmac, get_cbchmac. rewrite Hk.
  destruct (Nat.eqb_spec (len kb) (cbchmac_total_key k)) as [Hl|Hl]; cbn [negb]; [|reflexivity].
  destruct (aescbcaead_new_some k kb Hl) as (c & -> & Htag & Hkok).
  unfold encrypt_aead, aescbcaead_aead, cbchmac_aead. cbn [ad_nonce_size ad_overhead ad_seal].
  destruct (Nat.eqb_spec (len nonce) 16) as [Hn|Hn]; cbn [negb]; [|reflexivity].
  unfold cbchmac_seal. rewrite Hn, Hkok. cbn [Nat.eqb negb].
  destruct (pad16_ok pt) as (p & -> & Hp).
  destruct (go_cbc_encrypt_ok aesE (ch_enc_key c) nonce p Hn Hp) as [ct ->].
  eexists; reflexivity.
Qed.

Lemma encrypt_kw_cases alg kb pt :
  aes_size_ok (expected_key_size alg) = true ->
  match (if negb (Nat.eqb (len kb) (expected_key_size alg)) then Some ErrKeyTypeMismatch
         else if negb (Nat.eqb (len pt mod 8) 0) || Nat.eqb (len pt) 0 then Some ErrOther
         else None) with
  | Some e => encrypt_kw Fixed alg kb pt = Err e
  | None => exists out, encrypt_kw Fixed alg kb pt = Ok out
  end.
Proof.
  intro Hsz. unfold encrypt_kw.
  destruct (Nat.eqb_spec (len kb) (expected_key_size alg)) as [Hk|Hk]; cbn [negb]; [|reflexivity].
  rewrite (aes_key_ok_of_len kb _ Hk Hsz). cbn [negb].
  unfold aeskw_wrap, kw_wrap. cbn [is_fixed andb].
  destruct (negb (Nat.eqb (len pt mod 8) 0) || Nat.eqb (len pt) 0); [reflexivity|].
  destruct (kw_wrap_loop _ _ _) as [a rs']. eexists; reflexivity.
Qed.

Lemma encrypt_chacha_cases x kb nonce aad pt :
  match (if negb (Nat.eqb (len kb) 32) then Some ErrKeyTypeMismatch
         else if negb (Nat.eqb (len nonce) (chacha_nonce_size x)) then Some ErrInvalidNonce
         else None) with
  | Some e => encrypt_chacha x kb nonce aad pt = Err e
  | None => exists out, encrypt_chacha x kb nonce aad pt = Ok out
  end.
Proof.
  unfold encrypt_chacha.
  destruct (Nat.eqb_spec (len kb) 32) as [Hk|Hk]; cbn [negb]; [|reflexivity].
  destruct (Nat.eqb_spec (len nonce) (chacha_nonce_size x)) as [Hn|Hn]; cbn [negb]; [|reflexivity].
  eexists; reflexivity.
Qed.

(** 1. The model of EncryptSymmetric never panics; it fails exactly when a check of the dispatch
       layer fails, with that check's sentinel, and otherwise returns a ciphertext. *)
Theorem dispatch_encrypt_sound : forall alg key nonce aad pt,
  match dispatch_encrypt alg (shape_of key nonce [] pt) with
  | Some e => encrypt_symmetric Fixed alg key nonce aad pt = Err e
  | None => exists out, encrypt_symmetric Fixed alg key nonce aad pt = Ok out
  end.
Proof.
  intros alg key nonce aad pt.
  unfold dispatch_encrypt, encrypt_symmetric, shape_of.
  cbn [sh_oct sh_key sh_nonce sh_tag sh_data].
  destruct key as [kb|n|n|c|c|c|c]; cbn [key_is_oct key_len negb]; try reflexivity.
  pose proof (sym_facts_all alg) as HF. unfold sym_facts in HF.
  destruct (sym_family_of alg) as [[]|].
  - destruct HF as (Hsz & Hnp & _). rewrite Hnp. exact (encrypt_cbc_cases alg false kb nonce pt Hsz).
  - destruct HF as (Hsz & Hnp & _). rewrite Hnp. exact (encrypt_cbc_cases alg true kb nonce pt Hsz).
  - destruct HF as (Hsz & _). exact (encrypt_gcm_cases alg kb nonce aad pt Hsz).
  - destruct HF as (k & Hk & _). rewrite Hk. exact (encrypt_cbchmac_cases alg k kb nonce aad pt Hk).
  - destruct HF as (Hsz & _). exact (encrypt_kw_cases alg kb pt Hsz).
  - exact (encrypt_chacha_cases false kb nonce aad pt).
  - exact (encrypt_chacha_cases true kb nonce aad pt).
  - reflexivity.
Qed.
Print Assumptions dispatch_encrypt_sound.

(* ------------------------------------------------------------------------------------- *)
(** * Decryption, family by family *)

Lemma decrypt_cbc_cases alg nopad kb iv ct :
  aes_size_ok (expected_key_size alg) = true ->
  match (if negb (Nat.eqb (len kb) (expected_key_size alg)) then Some ErrKeyTypeMismatch
         else if negb (Nat.eqb (len iv) 16) then Some ErrInvalidNonce
         else if negb (Nat.eqb (len ct mod 16) 0) then Some ErrInvalidCiphertextLength
         else None) with
  | Some e => decrypt_cbc alg nopad kb iv ct = Err e
  | None => decrypt_cbc alg nopad kb iv ct <> Panic
  end.
Proof.
  intro Hsz. unfold decrypt_cbc.
  destruct (Nat.eqb_spec (len kb) (expected_key_size alg)) as [Hk|Hk]; cbn [negb]; [|reflexivity].
  destruct (Nat.eqb_spec (len iv) 16) as [Hiv|Hiv]; cbn [negb]; [|reflexivity].
  destruct (Nat.eqb_spec (len ct mod 16) 0) as [Hct|Hct]; cbn [negb]; [|reflexivity].
  rewrite (aes_key_ok_of_len kb _ Hk Hsz). cbn [negb].
  destruct (go_cbc_decrypt_ok aesD kb iv ct Hiv Hct) as [out ->].
  destruct nopad; [discriminate | apply unpad16_no_panic].
Qed.

Lemma opt_res_no_panic {A} (o : option A) : opt_res o <> Panic.
Proof. destruct o; discriminate. Qed.

Lemma decrypt_gcm_cases alg kb nonce tag aad ct :
  aes_size_ok (expected_key_size alg) = true ->
  match (if negb (Nat.eqb (len kb) (expected_key_size alg)) then Some ErrKeyTypeMismatch
         else if negb (Nat.eqb (len nonce) 12) then Some ErrInvalidNonce
         else if negb (Nat.eqb (len tag) 16) then Some ErrInvalidTag
         else None) with
  | Some e => decrypt_gcm alg kb nonce tag aad ct = Err e
  | None => decrypt_gcm alg kb nonce tag aad ct <> Panic
  end.
Proof.
  intro Hsz. unfold decrypt_gcm.
  destruct (Nat.eqb_spec (len kb) (expected_key_size alg)) as [Hk|Hk]; cbn [negb]; [|reflexivity].
  rewrite (aes_key_ok_of_len kb _ Hk Hsz). cbn [negb].
  unfold decrypt_aead, gcm_aead. cbn [ad_nonce_size ad_overhead ad_open].
  destruct (Nat.eqb_spec (len nonce) 12) as [Hn|Hn]; cbn [negb]; [|reflexivity].
  destruct (Nat.eqb_spec (len tag) 16) as [Ht|Ht]; cbn [negb]; [|reflexivity].
  apply opt_res_no_panic.
Qed.

(* Open (after the C07 fix): a ciphertext that is not whole blocks is refused before the tag is
   looked at; otherwise the outcome is a value or an error *)
Lemma cbchmac_open_fixed_cases mac c nonce ct tag aad :
  len nonce = 16 -> len tag = ch_tag c ->
  if negb (Nat.eqb (len ct mod 16) 0)
  then cbchmac_open aesD aes_key_ok mac Fixed c nonce (ct ++ tag)%list aad = Err ErrOther
  else cbchmac_open aesD aes_key_ok mac Fixed c nonce (ct ++ tag)%list aad <> Panic.
Proof.
  intros Hn Ht. unfold cbchmac_open. cbn [is_fixed andb].
  assert (Hl : len (ct ++ tag)%list = len ct + ch_tag c)
    by (unfold len in *; rewrite app_length; lia).
  rewrite Hl.
  destruct (Nat.ltb_spec (len ct + ch_tag c) (ch_tag c)) as [Hlt|_]; [lia|].
  replace (len ct + ch_tag c - ch_tag c) with (len ct) by lia.
  destruct (Nat.eqb_spec (len ct mod 16) 0) as [Hct|Hct]; cbn [negb]; [|reflexivity].
  destruct (eqb_listN _ _); cbn [negb]; [|discriminate].
  destruct (aes_key_ok _); cbn [negb]; [|discriminate].
  assert (Hf : len (firstn (len ct) (ct ++ tag)%list) mod 16 = 0).
  { unfold len in *. rewrite firstn_length, app_length.
    replace (Nat.min (List.length ct) (List.length ct + List.length tag)) with (List.length ct) by lia.
    exact Hct. }
  destruct (go_cbc_decrypt_ok aesD (ch_enc_key c) nonce _ Hn Hf) as [out ->].
  apply unpad16_no_panic.
Qed.

Lemma decrypt_cbchmac_cases alg k kb nonce tag aad ct :
  cbchmac_kind_of alg = Some k ->
  match (if negb (Nat.eqb (len kb) (cbchmac_total_key k)) then Some ErrKeyTypeMismatch
         else if negb (Nat.eqb (len nonce) 16) then Some ErrInvalidNonce
         else if negb (Nat.eqb (len tag) (snd (fst (cbchmac_sizes k)))) then Some ErrInvalidTag
         else if negb (Nat.eqb (len ct mod 16) 0) then Some ErrOther
         else None) with
  | Some e => decrypt_cbchmac Fixed alg kb nonce tag aad ct = Err e
  | None => decrypt_cbchmac Fixed alg kb nonce tag aad ct <> Panic
  end.
Proof.
  intro Hk. unfold decrypt_cbchmac, get_cbchmac. rewrite Hk.
  destruct (Nat.eqb_spec (len kb) (cbchmac_total_key k)) as [Hl|Hl]; cbn [negb]; [|reflexivity].
  destruct (aescbcaead_new_some k kb Hl) as (c & -> & Htag & Hkok).
  unfold decrypt_aead, aescbcaead_aead, cbchmac_aead. cbn [ad_nonce_size ad_overhead ad_open].
  rewrite Htag.
  destruct (Nat.eqb_spec (len nonce) 16) as [Hn|Hn]; cbn [negb]; [|reflexivity].
  destruct (Nat.eqb_spec (len tag) (snd (fst (cbchmac_sizes k)))) as [Ht|Ht]; cbn [negb]; [|reflexivity].
  rewrite <- Htag in Ht.
  pose proof (cbchmac_open_fixed_cases (aescbcaead_mac k) c nonce ct tag aad Hn Ht) as Hopen.
  destruct (negb (Nat.eqb (len ct mod 16) 0)); exact Hopen.
Qed.

(* the passes of Unwrap keep the number of registers *)
Lemma kw_unwrap_pass_length d nj rs : forall i a,
  List.length (snd (kw_unwrap_pass d nj i a rs)) = List.length rs.
Proof.
  induction rs as [|r rest IH]; intros i a; cbn [kw_unwrap_pass]; [reflexivity|].
  specialize (IH (S i) a).
  destruct (kw_unwrap_pass d nj (S i) a rest) as [a1 rest'].
  cbn [snd List.length] in *. now rewrite IH.
Qed.

Lemma kw_unwrap_loop_length d n st :
  List.length (snd (kw_unwrap_loop d n st)) = List.length (snd st).
Proof.
  unfold kw_unwrap_loop. generalize kw_js_down as js. intro js. revert st.
  induction js as [|j js IH]; intro st; cbn [fold_left]; [reflexivity|].
  rewrite IH. apply kw_unwrap_pass_length.
Qed.

Lemma chunks_nonempty {A} k (l : list A) : l <> [] -> chunks k l <> [].
Proof.
  unfold chunks. destruct l as [|x l]; [congruence|]. intros _.
  cbn [List.length chunks_fuel]. discriminate.
Qed.

Lemma decrypt_kw_cases alg kb ct :
  aes_size_ok (expected_key_size alg) = true ->
  match (if negb (Nat.eqb (len kb) (expected_key_size alg)) then Some ErrKeyTypeMismatch
         else if negb (Nat.eqb (len ct mod 8) 0) || Nat.ltb (len ct) 16 then Some ErrOther
         else None) with
  | Some e => decrypt_kw Fixed alg kb ct = Err e
  | None => decrypt_kw Fixed alg kb ct <> Panic
  end.
Proof.
  intro Hsz. unfold decrypt_kw.
  destruct (Nat.eqb_spec (len kb) (expected_key_size alg)) as [Hk|Hk]; cbn [negb]; [|reflexivity].
  rewrite (aes_key_ok_of_len kb _ Hk Hsz). cbn [negb].
  unfold aeskw_unwrap, kw_unwrap. cbn [is_fixed andb].
  destruct (negb (Nat.eqb (len ct mod 8) 0) || Nat.ltb (len ct) 16) eqn:Hchk; [reflexivity|].
  assert (Hge : 16 <= len ct) by lia.
  destruct (Nat.ltb_spec (len ct) 8) as [Hlt|_]; [lia|].
  pose proof (kw_unwrap_loop_length (aesD kb) (len ct / 8 - 1)
                (firstn 8 ct, firstn (len ct / 8 - 1) (chunks 8 (skipn 8 ct)))) as Hlen.
  destruct (kw_unwrap_loop _ _ _) as [a' rs'].
  destruct (eqb_listN a' kw_iv); cbn [negb]; [|discriminate].
  destruct rs' as [|r rs']; [|discriminate].
  exfalso. cbn [snd List.length] in Hlen.
  assert (Hne : chunks 8 (skipn 8 ct) <> []).
  { apply chunks_nonempty. intro Hnil. apply (f_equal (@List.length N)) in Hnil.
    rewrite skipn_length in Hnil. unfold len in Hge. cbn [List.length] in Hnil. lia. }
  destruct (chunks 8 (skipn 8 ct)) as [|c0 cs]; [congruence|].
  assert (Hq : 2 <= len ct / 8) by (unfold len in *; lia).
  destruct (len ct / 8 - 1) as [|m] eqn:Hm; [lia|].
  cbn [firstn List.length] in Hlen. discriminate.
Qed.

Lemma decrypt_chacha_cases x kb nonce tag aad ct :
  match (if negb (Nat.eqb (len kb) 32) then Some ErrKeyTypeMismatch
         else if negb (Nat.eqb (len nonce) (chacha_nonce_size x)) then Some ErrInvalidNonce
         else if negb (Nat.eqb (len tag) 16) then Some ErrInvalidTag
         else None) with
  | Some e => decrypt_chacha x kb nonce tag aad ct = Err e
  | None => decrypt_chacha x kb nonce tag aad ct <> Panic
  end.
Proof.
  unfold decrypt_chacha.
  destruct (Nat.eqb_spec (len kb) 32) as [Hk|Hk]; cbn [negb]; [|reflexivity].
  destruct (Nat.eqb_spec (len nonce) (chacha_nonce_size x)) as [Hn|Hn]; cbn [negb]; [|reflexivity].
  destruct (Nat.eqb_spec (len tag) 16) as [Ht|Ht]; cbn [negb]; [|reflexivity].
  apply opt_res_no_panic.
Qed.

(** 2. The model of DecryptSymmetric (current tree) fails with the sentinel of the first failing
       check of the dispatch layer, and when every check passes it returns a value or an error
       of the primitive: it never panics. *)
Theorem dispatch_decrypt_sound : forall alg key nonce tag aad ct,
  match dispatch_decrypt alg (shape_of key nonce tag ct) with
  | Some e => decrypt_symmetric Fixed Fixed alg key nonce tag aad ct = Err e
  | None => decrypt_symmetric Fixed Fixed alg key nonce tag aad ct <> Panic
  end.
Proof.
  intros alg key nonce tag aad ct.
  unfold dispatch_decrypt, decrypt_symmetric, shape_of.
  cbn [sh_oct sh_key sh_nonce sh_tag sh_data].
  destruct key as [kb|n|n|c|c|c|c]; cbn [key_is_oct key_len negb]; try reflexivity.
  pose proof (sym_facts_all alg) as HF. unfold sym_facts in HF.
  destruct (sym_family_of alg) as [[]|].
  - destruct HF as (Hsz & _). exact (decrypt_cbc_cases alg false kb nonce ct Hsz).
  - destruct HF as (Hsz & _). exact (decrypt_cbc_cases alg true kb nonce ct Hsz).
  - destruct HF as (Hsz & _). exact (decrypt_gcm_cases alg kb nonce tag aad ct Hsz).
  - destruct HF as (k & Hk & _). rewrite Hk.
    exact (decrypt_cbchmac_cases alg k kb nonce tag aad ct Hk).
  - destruct HF as (Hsz & _). exact (decrypt_kw_cases alg kb ct Hsz).
  - exact (decrypt_chacha_cases false kb nonce tag aad ct).
  - exact (decrypt_chacha_cases true kb nonce tag aad ct).
  - reflexivity.
Qed.
Print Assumptions dispatch_decrypt_sound.

(* the Original Unwrap (before the C07 aeskw fix) does panic on a short input, which is why
   the theorem above is about the current tree *)
Example dispatch_decrypt_original_panics :
  dispatch_decrypt "A128KW" (shape_of (KOct (repeat 0%N 16)) [] [] []) = Some ErrOther /\
  decrypt_symmetric Original Fixed "A128KW" (KOct (repeat 0%N 16)) [] [] [] [] = Panic.
Proof. split; vm_compute; reflexivity. Qed.

(* ------------------------------------------------------------------------------------- *)
(** * The dispatch layer against the standards table of the specification *)

Local Ltac spec_ex :=
  eexists; split; [reflexivity|];
  cbn [ss_kind mk_std data_unnamed_problem cbchs_kind_std]; lia.
Local Ltac spec_fin :=
  cbn [app In];
  first [ solve [ left; repeat first [ left; reflexivity | right ] ]
        | solve [ right; split; [reflexivity|]; split; [reflexivity|]; spec_ex ]
        | solve [ split; [reflexivity|]; spec_ex ] ].

(** 3a. Encryption: the sentinel the dispatch returns is one the specification lists for the
        input ([sym_problems]); [ErrOther] is returned only where the specification has no
        named sentinel but an "unnamed" data-length problem; and the dispatch passes exactly
        when the specification sees no problem at all. *)
Theorem dispatch_encrypt_spec : forall alg key nonce pt,
  let ps := sym_problems false alg key nonce [] pt in
  match dispatch_encrypt alg (shape_of key nonce [] pt) with
  | Some e => In e ps \/
              (ps = [] /\ e = ErrOther /\
               exists st, sym_std_of alg = Some st /\
                          data_unnamed_problem false (ss_kind st) (List.length pt) = true)
  | None => ps = [] /\
            exists st, sym_std_of alg = Some st /\
                       data_unnamed_problem false (ss_kind st) (List.length pt) = false
  end.
Proof.
  intros alg key nonce pt. cbv zeta.
  unfold dispatch_encrypt, sym_problems, shape_of.
  cbn [sh_oct sh_key sh_nonce sh_tag sh_data].
  destruct key as [kb|n|n|c|c|c|c]; cbn [key_is_oct key_len key_bytes negb andb];
    try (left; cbn [app In]; left; reflexivity).
  pose proof (sym_facts_all alg) as HF. unfold sym_facts in HF. unfold len.
  destruct (sym_family_of alg) as [[]|].
  - destruct HF as (Hsz & Hnp & ->). rewrite Hnp.
    cbn [mk_std ss_kind ss_key ss_nonce ss_tag len_problem data_problem data_unnamed_problem andb].
    eqb_cases; cbn [negb]; spec_fin.
  - destruct HF as (Hsz & Hnp & ->). rewrite Hnp.
    cbn [mk_std ss_kind ss_key ss_nonce ss_tag len_problem data_problem data_unnamed_problem andb].
    eqb_cases; cbn [negb]; spec_fin.
  - destruct HF as (Hsz & ->).
    cbn [mk_std ss_kind ss_key ss_nonce ss_tag len_problem data_problem data_unnamed_problem andb].
    eqb_cases; cbn [negb]; spec_fin.
  - destruct HF as (k & -> & ->).
    destruct k;
    cbn [mk_std ss_kind ss_key ss_nonce ss_tag len_problem data_problem data_unnamed_problem
         cbchs_kind_std andb];
    eqb_cases; cbn [negb]; spec_fin.
  - destruct HF as (Hsz & ->).
    cbn [mk_std ss_kind ss_key ss_nonce ss_tag len_problem data_problem data_unnamed_problem andb orb].
    eqb_cases; cbn [negb orb]; spec_fin.
  - rewrite HF.
    cbn [mk_std ss_kind ss_key ss_nonce ss_tag len_problem data_problem data_unnamed_problem andb].
    eqb_cases; cbn [negb]; spec_fin.
  - rewrite HF.
    cbn [mk_std ss_kind ss_key ss_nonce ss_tag len_problem data_problem data_unnamed_problem andb].
    eqb_cases; cbn [negb]; spec_fin.
  - rewrite HF. left. cbn [app In]. left; reflexivity.
Qed.
Print Assumptions dispatch_encrypt_spec.

(** 3b. Decryption, the same three-way agreement (the tag length is now part of the input). *)
Theorem dispatch_decrypt_spec : forall alg key nonce tag ct,
  let ps := sym_problems true alg key nonce tag ct in
  match dispatch_decrypt alg (shape_of key nonce tag ct) with
  | Some e => In e ps \/
              (ps = [] /\ e = ErrOther /\
               exists st, sym_std_of alg = Some st /\
                          data_unnamed_problem true (ss_kind st) (List.length ct) = true)
  | None => ps = [] /\
            exists st, sym_std_of alg = Some st /\
                       data_unnamed_problem true (ss_kind st) (List.length ct) = false
  end.
Proof.
  intros alg key nonce tag ct. cbv zeta.
  unfold dispatch_decrypt, sym_problems, shape_of.
  cbn [sh_oct sh_key sh_nonce sh_tag sh_data].
  destruct key as [kb|n|n|c|c|c|c]; cbn [key_is_oct key_len key_bytes negb andb];
    try (left; cbn [app In]; left; reflexivity).
  pose proof (sym_facts_all alg) as HF. unfold sym_facts in HF. unfold len.
  destruct (sym_family_of alg) as [[]|].
  - destruct HF as (Hsz & Hnp & ->).
    cbn [mk_std ss_kind ss_key ss_nonce ss_tag len_problem data_problem data_unnamed_problem andb].
    eqb_cases; cbn [negb]; spec_fin.
  - destruct HF as (Hsz & Hnp & ->).
    cbn [mk_std ss_kind ss_key ss_nonce ss_tag len_problem data_problem data_unnamed_problem andb].
    eqb_cases; cbn [negb]; spec_fin.
  - destruct HF as (Hsz & ->).
    cbn [mk_std ss_kind ss_key ss_nonce ss_tag len_problem data_problem data_unnamed_problem andb].
    eqb_cases; cbn [negb]; spec_fin.
  - destruct HF as (k & -> & ->).
    destruct k;
    cbn [mk_std ss_kind ss_key ss_nonce ss_tag len_problem data_problem data_unnamed_problem
         cbchs_kind_std andb];
    eqb_cases; cbn [negb]; spec_fin.
  - destruct HF as (Hsz & ->).
    cbn [mk_std ss_kind ss_key ss_nonce ss_tag len_problem data_problem data_unnamed_problem andb orb].
    eqb_cases; cbn [negb orb]; spec_fin.
  - rewrite HF.
    cbn [mk_std ss_kind ss_key ss_nonce ss_tag len_problem data_problem data_unnamed_problem andb].
    eqb_cases; cbn [negb]; spec_fin.
  - rewrite HF.
    cbn [mk_std ss_kind ss_key ss_nonce ss_tag len_problem data_problem data_unnamed_problem andb].
    eqb_cases; cbn [negb]; spec_fin.
  - rewrite HF. left. cbn [app In]. left; reflexivity.
Qed.
Print Assumptions dispatch_decrypt_spec.

(** 4a. A name that is not in the standards table is refused with ErrUnsupportedAlgorithm
        whatever the key bytes, nonce, tag and data are. *)
Theorem unknown_name_unsupported : forall alg key nonce aad pt,
  sym_std_of alg = None -> key_is_oct key = true ->
  encrypt_symmetric Fixed alg key nonce aad pt = Err ErrUnsupportedAlgorithm.
Proof.
  intros alg key nonce aad pt Hs Hk. apply family_none_iff_std_none in Hs.
  destruct key; try discriminate. unfold encrypt_symmetric. now rewrite Hs.
Qed.
Print Assumptions unknown_name_unsupported.

Theorem unknown_name_unsupported_decrypt : forall vkw vopen alg key nonce tag aad ct,
  sym_std_of alg = None -> key_is_oct key = true ->
  decrypt_symmetric vkw vopen alg key nonce tag aad ct = Err ErrUnsupportedAlgorithm.
Proof.
  intros vkw vopen alg key nonce tag aad ct Hs Hk. apply family_none_iff_std_none in Hs.
  destruct key; try discriminate. unfold decrypt_symmetric. now rewrite Hs.
Qed.
Print Assumptions unknown_name_unsupported_decrypt.

(* non-vacuity: a name of consts.go that neither function supports, with an octet key *)
Example unknown_name_instance :
  sym_std_of "A128GCMKW" = None /\ key_is_oct (KOct [1%N; 2%N]) = true /\
  encrypt_symmetric Fixed "A128GCMKW" (KOct [1%N; 2%N]) [] [] [3%N] = Err ErrUnsupportedAlgorithm /\
  decrypt_symmetric Fixed Fixed "A128GCMKW" (KOct [1%N; 2%N]) [] [] [] [3%N]
    = Err ErrUnsupportedAlgorithm.
Proof. repeat split; vm_compute; reflexivity. Qed.

(* a key that is not an octet sequence is refused first, known name or not *)
Theorem non_oct_key_mismatch : forall alg key nonce tag aad data,
  key_is_oct key = false ->
  encrypt_symmetric Fixed alg key nonce aad data = Err ErrKeyTypeMismatch /\
  (forall vkw vopen, decrypt_symmetric vkw vopen alg key nonce tag aad data = Err ErrKeyTypeMismatch).
Proof.
  intros alg key nonce tag aad data Hk. destruct key; try discriminate; split; reflexivity.
Qed.

(* ------------------------------------------------------------------------------------- *)
(** * Signatures and RSA encryption: name classification against the tables of the
      specification, then finite case analysis on the key object *)

Definition sig_facts (alg : string) : Prop :=
  match lookup alg sig_table with
  | Some (SG_RS h) => sig_family_of alg = Some SigRS /\ mem_str alg names_rs = true /\
                      sha_hash_size alg = h
  | Some (SG_PS h) => sig_family_of alg = Some SigPS /\ mem_str alg names_rs = false /\
                      sha_hash_size alg = h
  | Some (SG_ES c) => sig_family_of alg = Some SigES /\ es_curve alg = Some c
  | Some SG_Ed => sig_family_of alg = Some SigEd
  | None => sig_family_of alg = None
  end.

Lemma sig_facts_all alg : sig_facts alg.
Proof.
  unfold sig_facts, sig_family_of, es_curve, sig_table, mem_str, names_rs, names_ps, names_es.
  cbn [existsb lookup].
  split_names alg ltac:(vm_compute; repeat split; reflexivity).
  cbn [orb]. reflexivity.
Qed.

Lemma curve_eqb_sym a b : curve_eqb a b = curve_eqb b a.
Proof. destruct a, b; reflexivity. Qed.

(** 5a. SignPrivateKey (current tree): unknown name -> ErrUnsupportedAlgorithm; a key of the
        wrong kind (or, for ES*, the wrong curve) -> ErrKeyTypeMismatch; otherwise success
        exactly when the RFC 8017 size conditions hold, else an error that is not a sentinel. *)
Theorem sign_dispatch_spec : forall alg key dlen,
  match lookup alg sig_table with
  | None => sign_private_key Fixed alg key dlen = Err ErrUnsupportedAlgorithm
  | Some g =>
      if negb (sig_key_ok g true key)
      then sign_private_key Fixed alg key dlen = Err ErrKeyTypeMismatch
      else if sig_fits g key dlen
           then sign_private_key Fixed alg key dlen = Ok tt
           else sign_private_key Fixed alg key dlen = Err ErrOther
  end.
Proof.
  intros alg key dlen.
  pose proof (sig_facts_all alg) as HF. unfold sig_facts in HF. unfold sign_private_key.
  destruct (lookup alg sig_table) as [[h|h|c|]|].
  - destruct HF as (-> & Hrs & Hh). rewrite Hrs, Hh.
    destruct key as [kb|k|k|c|c|c|c];
      cbn [sig_key_ok negb sig_fits rsa_modulus_bytes rsa_sign_fits]; try reflexivity.
    destruct (Nat.eqb dlen h && Nat.leb (19 + h + 11) k); reflexivity.
  - destruct HF as (-> & Hrs & Hh). rewrite Hrs, Hh.
    destruct key as [kb|k|k|c|c|c|c];
      cbn [sig_key_ok negb sig_fits rsa_modulus_bytes rsa_sign_fits]; try reflexivity.
    destruct (Nat.eqb dlen h && Nat.leb (h + 2) k); reflexivity.
  - destruct HF as (-> & Hc). unfold ec_curve_ok. rewrite Hc.
    destruct key as [kb|k|k|c'|c'|c'|c'];
      cbn [sig_key_ok negb sig_fits rsa_modulus_bytes]; try reflexivity.
    rewrite (curve_eqb_sym c c'). destruct (curve_eqb c' c); reflexivity.
  - rewrite HF.
    destruct key as [kb|k|k|c'|c'|[]|[]];
      cbn [sig_key_ok negb sig_fits rsa_modulus_bytes]; reflexivity.
  - rewrite HF. reflexivity.
Qed.
Print Assumptions sign_dispatch_spec.

(** 5b. VerifyPublicKey (current tree): [Ok tt] stands for "(valid, nil) is returned". *)
Theorem verify_dispatch_spec : forall alg key,
  match lookup alg sig_table with
  | None => verify_public_key Fixed alg key = Err ErrUnsupportedAlgorithm
  | Some g =>
      if negb (sig_key_ok g false key)
      then verify_public_key Fixed alg key = Err ErrKeyTypeMismatch
      else verify_public_key Fixed alg key = Ok tt
  end.
Proof.
  intros alg key.
  pose proof (sig_facts_all alg) as HF. unfold sig_facts in HF. unfold verify_public_key.
  destruct (lookup alg sig_table) as [[h|h|c|]|].
  - destruct HF as (-> & _).
    destruct key as [kb|k|k|c|c|c|c]; cbn [public_of sig_key_ok negb]; reflexivity.
  - destruct HF as (-> & _).
    destruct key as [kb|k|k|c|c|c|c]; cbn [public_of sig_key_ok negb]; reflexivity.
  - destruct HF as (-> & Hc). unfold ec_curve_ok. rewrite Hc.
    destruct key as [kb|k|k|c'|c'|c'|c']; cbn [public_of sig_key_ok negb andb]; try reflexivity;
      rewrite (curve_eqb_sym c c'); destruct (curve_eqb c' c); reflexivity.
  - rewrite HF.
    destruct key as [kb|k|k|c'|c'|[]|[]]; cbn [public_of sig_key_ok negb]; reflexivity.
  - rewrite HF. reflexivity.
Qed.
Print Assumptions verify_dispatch_spec.

(* the curve check is what the C03 fix added: before it, ES256 signed with a P-384 key *)
Example sign_original_wrong_curve :
  sign_private_key Original "ES256" (KEcPriv P384) 32 = Ok tt /\
  sign_private_key Fixed "ES256" (KEcPriv P384) 32 = Err ErrKeyTypeMismatch /\
  verify_public_key Original "ES256" (KEcPub P384) = Ok tt /\
  verify_public_key Fixed "ES256" (KEcPub P384) = Err ErrKeyTypeMismatch.
Proof. repeat split; vm_compute; reflexivity. Qed.

Definition rsa_facts (alg : string) : Prop :=
  match lookup alg rsa_enc_table with
  | Some RE_PKCS1 => rsa_enc_scheme_of alg = Some SchemePKCS1
  | Some (RE_OAEP h) => rsa_enc_scheme_of alg = Some (SchemeOAEP h)
  | None => rsa_enc_scheme_of alg = None
  end.

Lemma rsa_facts_all alg : rsa_facts alg.
Proof.
  unfold rsa_facts, rsa_enc_scheme_of, rsa_enc_table, mem_str.
  cbn [existsb lookup].
  split_names alg ltac:(vm_compute; reflexivity).
  cbn [orb]. reflexivity.
Qed.

(** 5c. EncryptPublicKey: an unknown name is refused whatever the key; a key without an RSA
        modulus is a key-type mismatch; otherwise success exactly when the message fits
        (RFC 8017 7.1.1 / 7.2.1), else an error that is not a sentinel. *)
Theorem pub_enc_dispatch_spec : forall alg key ptlen,
  match lookup alg rsa_enc_table with
  | None => encrypt_public_key alg key ptlen = Err ErrUnsupportedAlgorithm
  | Some sc =>
      match rsa_modulus_bytes key with
      | None => encrypt_public_key alg key ptlen = Err ErrKeyTypeMismatch
      | Some k => if rsa_enc_fits sc k ptlen
                  then encrypt_public_key alg key ptlen = Ok tt
                  else encrypt_public_key alg key ptlen = Err ErrOther
      end
  end.
Proof.
  intros alg key ptlen.
  pose proof (rsa_facts_all alg) as HF. unfold rsa_facts in HF. unfold encrypt_public_key.
  destruct (lookup alg rsa_enc_table) as [[|h]|]; rewrite HF; [| |reflexivity].
  - destruct key as [kb|k|k|c|c|c|c];
      cbn [public_of rsa_modulus_bytes rsa_enc_fits rsa_msg_fits]; try reflexivity;
      destruct (Nat.leb (ptlen + 11) k); reflexivity.
  - destruct key as [kb|k|k|c|c|c|c];
      cbn [public_of rsa_modulus_bytes rsa_enc_fits rsa_msg_fits]; try reflexivity;
      destruct (Nat.leb (ptlen + 2 * h + 2) k); reflexivity.
Qed.
Print Assumptions pub_enc_dispatch_spec.

(** 5d. DecryptPrivateKey: [genuine] = the ciphertext was made for this key, name and label. *)
Theorem priv_dec_dispatch_spec : forall alg key genuine,
  match lookup alg rsa_enc_table with
  | None => decrypt_private_key alg key genuine = Err ErrUnsupportedAlgorithm
  | Some _ =>
      match key with
      | KRsaPriv _ => if genuine then decrypt_private_key alg key genuine = Ok tt
                      else decrypt_private_key alg key genuine = Err ErrOther
      | _ => decrypt_private_key alg key genuine = Err ErrKeyTypeMismatch
      end
  end.
Proof.
  intros alg key genuine.
  pose proof (rsa_facts_all alg) as HF. unfold rsa_facts in HF. unfold decrypt_private_key.
  destruct (lookup alg rsa_enc_table) as [[|h]|]; rewrite HF; [| |reflexivity].
  - destruct key as [kb|k|k|c|c|c|c]; try reflexivity. destruct genuine; reflexivity.
  - destruct key as [kb|k|k|c|c|c|c]; try reflexivity. destruct genuine; reflexivity.
Qed.
Print Assumptions priv_dec_dispatch_spec.

(* the name lists of consts.go are exactly the names of the two tables *)
Theorem supported_signature_known alg :
  In alg supported_signature <-> lookup alg sig_table <> None.
Proof.
  unfold supported_signature, names_rs, names_ps, names_es, sig_table.
  cbn [app lookup].
  split_names alg ltac:(vm_compute; split; [ intros _; discriminate | intros _; in_tac ]).
  cbn [In]. split; [ intro Hin | intro Hnn; now contradiction Hnn ].
  repeat (destruct Hin as [Heq | Hin]; [ symmetry in Heq; contradiction | ]).
  contradiction.
Qed.

Theorem supported_asymmetric_known alg :
  In alg supported_asymmetric <-> lookup alg rsa_enc_table <> None.
Proof.
  unfold supported_asymmetric, names_rsa_enc, rsa_enc_table.
  cbn [lookup].
  split_names alg ltac:(vm_compute; split; [ intros _; discriminate | intros _; in_tac ]).
  cbn [In]. split; [ intro Hin | intro Hnn; now contradiction Hnn ].
  repeat (destruct Hin as [Heq | Hin]; [ symmetry in Heq; contradiction | ]).
  contradiction.
Qed.
Print Assumptions supported_signature_known.
Print Assumptions supported_asymmetric_known.

(* ------------------------------------------------------------------------------------- *)
(** * crypto.go: the generic Encrypt / Decrypt inherit the above on each route *)

Theorem encrypt_generic_dispatch : forall alg key nonce aad pt,
  match generic_route alg with
  | RouteSym =>
      match dispatch_encrypt alg (shape_of key nonce [] pt) with
      | Some e => encrypt_generic Fixed alg key nonce aad pt = Err e
      | None => exists ct tag, encrypt_generic Fixed alg key nonce aad pt = Ok (EOBytes ct tag)
      end
  | RouteAsym =>
      match lookup alg rsa_enc_table with
      | None => encrypt_generic Fixed alg key nonce aad pt = Err ErrUnsupportedAlgorithm
      | Some sc =>
          match rsa_modulus_bytes key with
          | None => encrypt_generic Fixed alg key nonce aad pt = Err ErrKeyTypeMismatch
          | Some k => if rsa_enc_fits sc k (List.length pt)
                      then encrypt_generic Fixed alg key nonce aad pt = Ok EORandom
                      else encrypt_generic Fixed alg key nonce aad pt = Err ErrOther
          end
      end
  | RouteNone => encrypt_generic Fixed alg key nonce aad pt = Err ErrUnsupportedAlgorithm
  end.
Proof.
  intros alg key nonce aad pt. unfold encrypt_generic.
  destruct (generic_route alg); [| |reflexivity].
  - pose proof (dispatch_encrypt_sound alg key nonce aad pt) as H.
    destruct (dispatch_encrypt alg (shape_of key nonce [] pt)) as [e|].
    + rewrite H. reflexivity.
    + destruct H as [[ct tag] ->]. exists ct, tag. reflexivity.
  - pose proof (pub_enc_dispatch_spec alg key (len pt)) as H. unfold len in *.
    destruct (lookup alg rsa_enc_table) as [sc|]; [|rewrite H; reflexivity].
    destruct (rsa_modulus_bytes key) as [k|]; [|rewrite H; reflexivity].
    destruct (rsa_enc_fits sc k (List.length pt)); rewrite H; reflexivity.
Qed.
Print Assumptions encrypt_generic_dispatch.

Theorem decrypt_generic_dispatch : forall alg key nonce tag aad ct genuine,
  match generic_route alg with
  | RouteSym =>
      match dispatch_decrypt alg (shape_of key nonce tag ct) with
      | Some e => decrypt_generic Fixed Fixed alg key nonce tag aad ct genuine = Err e
      | None => decrypt_generic Fixed Fixed alg key nonce tag aad ct genuine <> Panic
      end
  | RouteAsym =>
      match lookup alg rsa_enc_table with
      | None => decrypt_generic Fixed Fixed alg key nonce tag aad ct genuine
                = Err ErrUnsupportedAlgorithm
      | Some _ =>
          match key with
          | KRsaPriv _ =>
              if genuine then decrypt_generic Fixed Fixed alg key nonce tag aad ct genuine = Ok DOOpaque
              else decrypt_generic Fixed Fixed alg key nonce tag aad ct genuine = Err ErrOther
          | _ => decrypt_generic Fixed Fixed alg key nonce tag aad ct genuine = Err ErrKeyTypeMismatch
          end
      end
  | RouteNone => decrypt_generic Fixed Fixed alg key nonce tag aad ct genuine
                 = Err ErrUnsupportedAlgorithm
  end.
Proof.
  intros alg key nonce tag aad ct genuine. unfold decrypt_generic.
  destruct (generic_route alg); [| |reflexivity].
  - pose proof (dispatch_decrypt_sound alg key nonce tag aad ct) as H.
    destruct (dispatch_decrypt alg (shape_of key nonce tag ct)) as [e|].
    + rewrite H. reflexivity.
    + destruct (decrypt_symmetric Fixed Fixed alg key nonce tag aad ct);
        [discriminate | discriminate | congruence].
  - pose proof (priv_dec_dispatch_spec alg key genuine) as H.
    destruct (lookup alg rsa_enc_table) as [sc|]; [|rewrite H; reflexivity].
    destruct key; try (rewrite H; reflexivity).
    destruct genuine; rewrite H; reflexivity.
Qed.
Print Assumptions decrypt_generic_dispatch.

(* the names the router knows but no callee supports, and the names a callee supports but the
   router does not know: all answered with ErrUnsupportedAlgorithm for an octet key *)
Example generic_route_gaps :
  let k := KOct (repeat 0%N 16) in
  map (fun a => encrypt_generic Fixed a k [] [] [])
      ["A128GCMKW"; "ECDH-ES"; "ECDH-ES+A128KW"; "A128CBC-NOPAD"; "no-such-alg"]
  = repeat (Err ErrUnsupportedAlgorithm) 5.
Proof. vm_compute. reflexivity. Qed.
