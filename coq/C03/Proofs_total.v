(* C03 — dispatch totality, stated directly between the model's EncryptSymmetric /
   DecryptSymmetric and the specification's table of wrong-kind / wrong-size inputs
   ([sym_problems], C03/Spec.v): the combination of [dispatch_*_sound] (the full functions do
   what the dispatch layer says) and [dispatch_*_spec] (the dispatch layer names the sentinel
   the property names) of Proofs_dispatch.v. *)
From Kit Require Import C03.Model C03.Spec C03.Proofs_dispatch.

(* For EVERY algorithm name, key object, nonce, associated data and plaintext:
   - some input is of the wrong kind or size with a sentinel defined for it  =>  an error (no
     output) whose sentinel is one of those that apply;
   - nothing is wrong  =>  the name is one of the 19, and the call returns output, except for empty or
     partial-block key data (refused with the sub-package's own error).  Current tree. *)
Theorem dispatch_total_encrypt : forall alg key nonce aad pt,
  let ps := sym_problems false alg key nonce [] pt in
  (ps <> [] -> exists e, encrypt_symmetric Fixed alg key nonce aad pt = Err e /\ In e ps) /\
  (ps = [] -> exists st, sym_std_of alg = Some st /\
      if data_unnamed_problem false (ss_kind st) (List.length pt)
      then encrypt_symmetric Fixed alg key nonce aad pt = Err ErrOther
      else exists out, encrypt_symmetric Fixed alg key nonce aad pt = Ok out).
Proof.
  intros alg key nonce aad pt ps.
  pose proof (dispatch_encrypt_sound alg key nonce aad pt) as Hs.
  pose proof (dispatch_encrypt_spec alg key nonce pt) as Hp. cbv zeta in Hp. fold ps in Hp.
  destruct (dispatch_encrypt alg (shape_of key nonce [] pt)) as [e|].
  - split; intro H.
    + destruct Hp as [Hin | (Hnil & _)]; [exists e; auto | contradiction].
    + destruct Hp as [Hin | (_ & He & st & Hst & Hun)].
      * rewrite H in Hin. destruct Hin.
      * exists st. split; [exact Hst|]. rewrite Hun. subst e. exact Hs.
  - destruct Hp as (Hnil & st & Hst & Hun). split; intro H; [contradiction|].
    exists st. split; [exact Hst|]. rewrite Hun. exact Hs.
Qed.

(* the same for decryption on the current tree; when nothing is wrong with kinds and sizes the
   primitive runs and the call returns the plaintext or an error - never a panic *)
Theorem dispatch_total_decrypt : forall alg key nonce tag aad ct,
  let ps := sym_problems true alg key nonce tag ct in
  (ps <> [] -> exists e, decrypt_symmetric Fixed Fixed alg key nonce tag aad ct = Err e /\ In e ps) /\
  (ps = [] -> exists st, sym_std_of alg = Some st /\
      if data_unnamed_problem true (ss_kind st) (List.length ct)
      then decrypt_symmetric Fixed Fixed alg key nonce tag aad ct = Err ErrOther
      else decrypt_symmetric Fixed Fixed alg key nonce tag aad ct <> Panic).
Proof.
  intros alg key nonce tag aad ct ps.
  pose proof (dispatch_decrypt_sound alg key nonce tag aad ct) as Hs.
  pose proof (dispatch_decrypt_spec alg key nonce tag ct) as Hp. cbv zeta in Hp. fold ps in Hp.
  destruct (dispatch_decrypt alg (shape_of key nonce tag ct)) as [e|].
  - split; intro H.
    + destruct Hp as [Hin | (Hnil & _)]; [exists e; auto | contradiction].
    + destruct Hp as [Hin | (_ & He & st & Hst & Hun)].
      * rewrite H in Hin. destruct Hin.
      * exists st. split; [exact Hst|]. rewrite Hun. subst e. exact Hs.
  - destruct Hp as (Hnil & st & Hst & Hun). split; intro H; [contradiction|].
    exists st. split; [exact Hst|]. rewrite Hun. exact Hs.
Qed.

(* non-vacuity: a call with two things wrong (key of 8 bytes, nonce of 3) *)
Example dispatch_total_encrypt_nonvacuous :
  sym_problems false "A128GCM"%string (KOct (repeat 0%N 8)) (repeat 0%N 3) [] []
  = [ErrKeyTypeMismatch; ErrInvalidNonce] /\
  encrypt_symmetric Fixed "A128GCM"%string (KOct (repeat 0%N 8)) (repeat 0%N 3) [] [] = Err ErrKeyTypeMismatch.
Proof. split; reflexivity. Qed.
