(* C03 — proofs about the kit-owned schemes of the model: RFC 3394 key wrap (crypto/aeskw),
   CBC as the code drives it, AES-CBC-HMAC-SHA2 (crypto/aescbcaead) and the AEAD split/join
   helpers of symmetric.go.

   Everything is proved once, inside a Section over an abstract keyed block cipher [E]/[D] and
   a predicate [okb] saying which list elements are valid; the only cryptographic premise is
   the Section hypothesis [DE : D key (E key b) = b] on valid 16-element blocks.  Two
   instances are exported: [okb := fun _ => true] (the plain statement) and [okb := byte_ok]
   (the one AES can satisfy on [list N]). *)
From Kit Require Import C03.Model C03.Proofs_pad.
From Coq Require Import Lia Arith.

Lemma firstn_app_len {A} (a b : list A) k : length a = k -> firstn k (a ++ b) = a.
Proof. intros <-. now rewrite firstn_app, Nat.sub_diag, firstn_all, firstn_O, app_nil_r. Qed.

Lemma skipn_app_len {A} (a b : list A) k : length a = k -> skipn k (a ++ b) = b.
Proof. intros <-. now rewrite skipn_app, Nat.sub_diag, skipn_all, skipn_O. Qed.

Section SchemeProofs.
  Variables E D : list N -> list N -> list N.
  Variable Kok : list N -> bool.
  Variable okb : N -> bool.
  Let ok (l : list N) : Prop := forallb okb l = true.

  Hypothesis okb_xor : forall x y, okb x = true -> okb y = true -> okb (N.lxor x y) = true.
  Hypothesis ok_counter : forall t, ok (be64 t).
  Hypothesis ok_iv : ok kw_iv.
  Hypothesis ok_small : forall v, (v <= 16)%N -> okb v = true.

  Variable key : list N.
  Hypothesis DE : forall b, length b = 16 -> ok b -> D key (E key b) = b.
  Hypothesis E_length : forall b, length (E key b) = 16.
  Hypothesis E_ok : forall b, ok (E key b).

  (* --------------------------------------------------------------------------------- *)
  (** * RFC 3394 key wrap *)

  Definition blk8 (r : list N) : Prop := length r = 8 /\ ok r.

  Lemma ok_app a b : ok a -> ok b -> ok (a ++ b).
  Proof. unfold ok. intros Ha Hb. now rewrite forallb_app, Ha, Hb. Qed.

  (* one pass of Unwrap's inner loop undoes one pass of Wrap's *)
  Lemma kw_pass_inverse nj rs : forall i a, blk8 a -> Forall blk8 rs ->
    blk8 (fst (kw_wrap_pass (E key) nj i a rs)) /\
    Forall blk8 (snd (kw_wrap_pass (E key) nj i a rs)) /\
    length (snd (kw_wrap_pass (E key) nj i a rs)) = length rs /\
    kw_unwrap_pass (D key) nj i (fst (kw_wrap_pass (E key) nj i a rs))
                   (snd (kw_wrap_pass (E key) nj i a rs)) = (a, rs).
  Proof.
    induction rs as [|r rest IH]; intros i a Ha Hrs; cbn [kw_wrap_pass].
    - cbn [fst snd kw_unwrap_pass length]. repeat split; auto; apply Ha.
    - inversion Hrs as [|? ? Hr Hrest]; subst. destruct Ha as [Hla Hoa]. destruct Hr as [Hlr Hor].
      set (b := E key (a ++ r)).
      set (t := be64 (N.of_nat (nj + i))).
      set (a1 := xor_bytes (firstn 8 b) t).
      assert (Hlb : length b = 16) by apply E_length.
      assert (Hob : ok b) by apply E_ok.
      assert (Hf8 : length (firstn 8 b) = 8) by (rewrite firstn_length; lia).
      assert (Ha1 : blk8 a1).
      { split.
        - unfold a1. rewrite xor_bytes_length, Hf8. reflexivity.
        - apply forallb_xor_bytes; [exact okb_xor | now apply forallb_firstn | apply ok_counter]. }
      specialize (IH (S i) a1 Ha1 Hrest).
      destruct (kw_wrap_pass (E key) nj (S i) a1 rest) as [a2 rest'] eqn:Hw.
      cbn [fst snd] in *. destruct IH as (Ha2 & Hrest' & Hlen & Hun).
      repeat split; try apply Ha2.
      + constructor; [|exact Hrest'].
        split; [rewrite skipn_length; lia | now apply forallb_skipn].
      + cbn [length]. now rewrite Hlen.
      + cbn [kw_unwrap_pass]. rewrite Hun. fold t.
        unfold a1. rewrite xor_bytes_involutive by (rewrite Hf8; reflexivity).
        rewrite firstn_skipn. unfold b.
        rewrite DE; [| rewrite app_length; lia | now apply ok_app].
        rewrite firstn_app_len, skipn_app_len by exact Hla. reflexivity.
  Qed.

  Definition wrap_step (n : nat) (st : list N * list (list N)) (j : nat) :=
    kw_wrap_pass (E key) (n * j) 1 (fst st) (snd st).
  Definition unwrap_step (n : nat) (st : list N * list (list N)) (j : nat) :=
    kw_unwrap_pass (D key) (n * j) 1 (fst st) (snd st).

  Lemma kw_loops_inverse n js : forall a rs, blk8 a -> Forall blk8 rs ->
    blk8 (fst (fold_left (wrap_step n) js (a, rs))) /\
    Forall blk8 (snd (fold_left (wrap_step n) js (a, rs))) /\
    length (snd (fold_left (wrap_step n) js (a, rs))) = length rs /\
    fold_left (unwrap_step n) (rev js) (fold_left (wrap_step n) js (a, rs)) = (a, rs).
  Proof.
    induction js as [|j js IH]; intros a rs Ha Hrs; cbn [fold_left rev].
    - cbn [fst snd]. auto.
    - destruct (kw_pass_inverse (n * j) rs 1 a Ha Hrs) as (Ha1 & Hrs1 & Hlen1 & Hun1).
      unfold wrap_step at 2 4 6 8. cbn [fst snd].
      destruct (kw_wrap_pass (E key) (n * j) 1 a rs) as [a1 rs1] eqn:Hw. cbn [fst snd] in *.
      destruct (IH a1 rs1 Ha1 Hrs1) as (Ha2 & Hrs2 & Hlen2 & Hun2).
      repeat split; try assumption; try apply Ha2.
      + now rewrite Hlen2.
      + rewrite fold_left_app, Hun2. cbn [fold_left]. unfold unwrap_step. cbn [fst snd].
        exact Hun1.
  Qed.

  Theorem kw_roundtrip_gen (vw v : variant) (cek : list N) :
    length cek mod 8 = 0 -> 8 <= length cek -> ok cek ->
    exists c, kw_wrap E vw key cek = Ok c /\ length c = length cek + 8 /\
              kw_unwrap D v key c = Ok cek.
  Proof.
    intros Hmod Hlen Hokc. unfold kw_wrap, len. rewrite Hmod. cbn [Nat.eqb negb orb].
    destruct (Nat.eqb_spec (length cek) 0) as [H0|_]; [lia|]. rewrite andb_false_r.
    set (rs := chunks 8 cek).
    assert (Hrs8 : Forall (fun r => length r = 8) rs) by (apply chunks_Forall; [lia | assumption]).
    assert (Hokrs : Forall (fun r => ok r) rs) by now apply forallb_chunks.
    assert (Hrs : Forall blk8 rs).
    { apply Forall_forall. intros r Hr. split; [eapply Forall_forall in Hrs8 | eapply Forall_forall in Hokrs]; eauto. }
    assert (Hcat : concat rs = cek) by (apply chunks_concat; lia).
    assert (Hn : length cek = 8 * length rs).
    { rewrite <- Hcat at 1. now apply concat_length_const. }
    assert (Hdiv : length cek / 8 = length rs).
    { rewrite Hn, Nat.mul_comm. apply Nat.div_mul. lia. }
    rewrite Hdiv. set (n := length rs) in *.
    assert (Hiv : blk8 kw_iv) by (split; [reflexivity | exact ok_iv]).
    destruct (kw_loops_inverse n kw_js_up kw_iv rs Hiv Hrs) as (Ha & Hrs' & Hlen' & Hback).
    unfold kw_wrap_loop. change (fun st j => kw_wrap_pass (E key) (n * j) 1 (fst st) (snd st))
      with (wrap_step n).
    destruct (fold_left (wrap_step n) kw_js_up (kw_iv, rs)) as [a rs'] eqn:Hfold.
    cbn [fst snd] in *. destruct Ha as [Hla Hoa].
    assert (Hrs'8 : Forall (fun r => length r = 8) rs').
    { eapply Forall_impl; [|exact Hrs']. now intros r [Hr _]. }
    assert (Hlc : length (a ++ concat rs') = 8 * n + 8).
    { rewrite app_length, (concat_length_const 8) by assumption. lia. }
    eexists; split; [reflexivity|]. split; [lia|].
    unfold kw_unwrap, len. rewrite Hlc.
    assert (Hm8 : (8 * n + 8) mod 8 = 0).
    { replace (8 * n + 8) with ((n + 1) * 8) by lia. apply Nat.mod_mul. lia. }
    assert (Hn1 : 1 <= n) by lia.
    rewrite Hm8. cbn [Nat.eqb negb orb].
    destruct (Nat.ltb_spec (8 * n + 8) 16) as [Hlt|_]; [lia|].
    rewrite andb_false_r.
    destruct (Nat.ltb_spec (8 * n + 8) 8) as [Hlt|_]; [lia|].
    assert (Hd : (8 * n + 8) / 8 - 1 = n).
    { replace (8 * n + 8) with ((n + 1) * 8) by lia. rewrite Nat.div_mul by lia. lia. }
    rewrite Hd.
    rewrite skipn_app_len by exact Hla.
    rewrite chunks_of_concat by (try lia; assumption).
    rewrite (firstn_all2 (n := n) rs') by lia.
    rewrite firstn_app_len by exact Hla.
    unfold kw_unwrap_loop.
    change (fun st j => kw_unwrap_pass (D key) (n * j) 1 (fst st) (snd st)) with (unwrap_step n).
    change kw_js_down with (rev kw_js_up). rewrite Hback.
    replace (eqb_listN kw_iv kw_iv) with true by (symmetry; apply eqb_listN_spec; reflexivity).
    cbn [negb]. destruct rs as [|r0 rs0]; [cbn [length] in *; lia|].
    now rewrite Hcat.
  Qed.

  (* current tree: WHATEVER Wrap returns, Unwrap turns back into the key data - no side
     condition on the length (empty key data and partial blocks are errors of Wrap) *)
  Theorem kw_wrap_unwrap_gen (v : variant) (cek c : list N) :
    ok cek -> kw_wrap E Fixed key cek = Ok c -> kw_unwrap D v key c = Ok cek.
  Proof.
    intros Hok Hw.
    assert (Hlen : length cek mod 8 = 0 /\ 8 <= length cek).
    { unfold kw_wrap, len in Hw. cbn [is_fixed andb] in Hw.
      destruct (Nat.eqb_spec (length cek mod 8) 0) as [Hm|]; cbn [negb orb] in Hw; [|discriminate].
      destruct (Nat.eqb_spec (length cek) 0) as [|Hn]; [discriminate|].
      split; [exact Hm|].
      destruct (Nat.le_gt_cases 8 (length cek)) as [|Hlt]; [assumption|].
      rewrite Nat.mod_small in Hm by lia. lia. }
    destruct Hlen as [Hm Hl].
    destruct (kw_roundtrip_gen Fixed v cek Hm Hl Hok) as (c' & Hw' & _ & Hu).
    rewrite Hw in Hw'. congruence.
  Qed.

  (* --------------------------------------------------------------------------------- *)
  (** * CBC as the code drives it (crypto/cipher BlockMode) *)

  Theorem go_cbc_roundtrip_gen (iv src : list N) :
    length iv = 16 -> ok iv -> length src mod 16 = 0 -> ok src ->
    exists ct, go_cbc_encrypt E key iv src = Ok ct /\ length ct = length src /\
               go_cbc_decrypt D key iv ct = Ok src.
  Proof.
    intros Hiv Hokiv Hsrc Hoksrc. unfold go_cbc_encrypt, go_cbc_decrypt, len.
    rewrite Hiv, Hsrc. cbn [Nat.eqb negb].
    assert (Hl : length (cbc_encrypt_with (E key) iv src) = length src)
      by (apply cbc_encrypt_with_length; [exact E_length | exact Hsrc]).
    eexists; split; [reflexivity|]. split; [exact Hl|].
    rewrite Hl, Hsrc. cbn [Nat.eqb negb]. f_equal.
    apply (cbc_roundtrip_gen (E key) (D key) okb); auto.
  Qed.

  (* --------------------------------------------------------------------------------- *)
  (** * AES-CBC-HMAC-SHA2 (encrypt-then-MAC) *)

  Variable mac : list N -> list N -> list N.
  Variable c : cbchmac.
  Hypothesis mac_length : forall k m, ch_tag c <= length (mac k m).
  Hypothesis key_is_enc : ch_enc_key c = key.
  Hypothesis key_ok : Kok key = true.

  Lemma cbchmac_tag_length aad nonce ct : length (cbchmac_tag mac c aad nonce ct) = ch_tag c.
  Proof. unfold cbchmac_tag. rewrite firstn_length. pose proof (mac_length (ch_mac_key c) (aad ++ nonce ++ ct ++ be64 (8 * lenN aad))). lia. Qed.

  Lemma ok_pad (pt p : list N) : ok pt -> pad_pkcs7 pt 16 = Ok p -> ok p.
  Proof.
    intros Hpt Hp. destruct (pad_pkcs7_ok pt 16 ltac:(lia)) as (Hpad & Hk & _).
    rewrite Hpad in Hp.
    apply (f_equal (fun r : res (list N) => match r with Ok x => x | _ => [] end)) in Hp.
    cbv beta iota in Hp. subst p. apply ok_app; [exact Hpt|].
    assert (Hv : okb (N.of_nat (Z.to_nat 16 - length pt mod Z.to_nat 16)) = true).
    { apply ok_small.
      pose proof (Nat.le_sub_l (Z.to_nat 16) (length pt mod Z.to_nat 16)) as Hle.
      revert Hle. generalize (Z.to_nat 16 - length pt mod Z.to_nat 16). intros m Hle.
      change (Z.to_nat 16) with 16 in Hle. lia. }
    revert Hv. generalize (N.of_nat (Z.to_nat 16 - length pt mod Z.to_nat 16)). intros v Hv.
    generalize (Z.to_nat 16 - length pt mod Z.to_nat 16). intro n.
    unfold ok. induction n as [|n IH]; cbn [repeat forallb]; [reflexivity|]. now rewrite Hv, IH.
  Qed.

  Theorem cbchmac_roundtrip_gen (v : variant) (nonce pt aad : list N) :
    length nonce = 16 -> ok nonce -> ok pt ->
    exists out, cbchmac_seal E Kok mac c nonce pt aad = Ok out /\
                cbchmac_open D Kok mac v c nonce out aad = Ok pt.
  Proof.
    intros Hn Hokn Hokpt. unfold cbchmac_seal, len. rewrite Hn, key_is_enc, key_ok.
    cbn [Nat.eqb negb].
    destruct (pad_pkcs7_ok pt 16 ltac:(lia)) as (Hpad & Hk & Hmod).
    pose proof (pkcs7_roundtrip pt 16 ltac:(lia)) as (p & Hp & Hunpad).
    rewrite Hp.
    assert (Hlp : length p mod 16 = 0).
    { rewrite Hpad in Hp.
      apply (f_equal (fun r : res (list N) => match r with Ok x => x | _ => [] end)) in Hp.
      cbv beta iota in Hp. subst p. rewrite app_length, repeat_length. exact Hmod. }
    assert (Hokp : ok p) by (eapply ok_pad; eauto).
    destruct (go_cbc_roundtrip_gen nonce p Hn Hokn Hlp Hokp) as (ct & Henc & Hlct & Hdec).
    rewrite Henc. eexists; split; [reflexivity|].
    unfold cbchmac_open, len.
    set (tag := cbchmac_tag mac c aad nonce ct).
    assert (Htl : length tag = ch_tag c) by apply cbchmac_tag_length.
    rewrite app_length, Htl.
    destruct (Nat.ltb_spec (length ct + ch_tag c) (ch_tag c)) as [Hlt|_]; [lia|].
    replace (length ct + ch_tag c - ch_tag c) with (length ct) by lia.
    rewrite Hlct, Hlp. cbn [Nat.eqb negb]. rewrite andb_false_r.
    rewrite skipn_app_len, firstn_app_len by exact Hlct.
    fold tag.
    replace (eqb_listN tag tag) with true by (symmetry; apply eqb_listN_spec; reflexivity).
    cbn [negb]. rewrite key_is_enc, key_ok. cbn [negb]. rewrite Hdec. exact Hunpad.
  Qed.
End SchemeProofs.

(* ------------------------------------------------------------------------------------- *)
(** * Tag first, and tampering: for any block cipher, any MAC and any key *)

Section TamperProofs.
  Variables E D : list N -> list N -> list N.
  Variable Kok : list N -> bool.
  Variable mac : list N -> list N -> list N.
  Variable c : cbchmac.

  (* the tag is checked before anything is decrypted or unpadded: a presented tag that is not
     the recomputed one gives the authentication error whatever the ciphertext decrypts to
     (never a padding error, never output) - holds for any cipher, MAC and key *)
  Theorem cbchmac_tag_first (v : variant) (c' : cbchmac) (nonce ctt aad : list N) :
    let l := length ctt in
    skipn (l - ch_tag c') ctt <> cbchmac_tag mac c' aad nonce (firstn (l - ch_tag c') ctt) ->
    cbchmac_open D Kok mac v c' nonce ctt aad = Err ErrOther.
  Proof.
    intros l Hne. unfold cbchmac_open, len. fold l.
    destruct (Nat.ltb l (ch_tag c')); [reflexivity|].
    destruct (is_fixed v && negb (Nat.eqb ((l - ch_tag c') mod 16) 0)); [reflexivity|].
    destruct (eqb_listN (skipn (l - ch_tag c') ctt)
                        (cbchmac_tag mac c' aad nonce (firstn (l - ch_tag c') ctt))) eqn:Heq.
    - apply eqb_listN_spec in Heq. contradiction.
    - reflexivity.
  Qed.

  (** ** Tampering with a sealed message.  [no_collision]: the (truncated) MAC does not take the
         same value on the two different inputs - the cryptographic assumption, a hypothesis of
         this Section, never an axiom. *)
  Hypothesis no_collision : forall a n x a' n' x',
    (a, n, x) <> (a', n', x') -> cbchmac_tag mac c a n x <> cbchmac_tag mac c a' n' x'.

  (* what Seal returns: the CBC ciphertext followed by its tag *)
  Lemma cbchmac_seal_shape (nonce pt aad out : list N) :
    cbchmac_seal E Kok mac c nonce pt aad = Ok out ->
    exists ct, out = ct ++ cbchmac_tag mac c aad nonce ct.
  Proof.
    unfold cbchmac_seal. intro Hseal.
    destruct (negb (Nat.eqb (len nonce) 16)); [discriminate|].
    destruct (negb (Kok (ch_enc_key c))); [discriminate|].
    destruct (pad_pkcs7 pt 16) as [p|e|]; try discriminate.
    destruct (go_cbc_encrypt E (ch_enc_key c) nonce p) as [ct|e|]; try discriminate.
    exists ct. congruence.
  Qed.

  (* [tag] is the authentic tag of (aad, nonce, ct).  Presenting anything else of the same shape
     is refused when the tag was kept (some of nonce / aad / ciphertext changed: needs
     [no_collision]) and when only the tag was changed (needs nothing).  A changed tag over
     changed data is a forgery attempt: excluding it is unforgeability of the MAC, which is
     not a statement about this code. *)
  Theorem cbchmac_tamper_rejected (v : variant) (nonce aad ct nonce' aad' ct' tag' : list N) :
    let tag := cbchmac_tag mac c aad nonce ct in
    length tag' = ch_tag c ->
    (nonce', aad', ct', tag') <> (nonce, aad, ct, tag) ->
    tag' = tag \/ (nonce', aad', ct') = (nonce, aad, ct) ->
    cbchmac_open D Kok mac v c nonce' (ct' ++ tag') aad' = Err ErrOther.
  Proof.
    intros tag Hlen Hne Hcase.
    apply cbchmac_tag_first. cbv zeta.
    rewrite app_length, Hlen.
    replace (length ct' + ch_tag c - ch_tag c) with (length ct') by lia.
    rewrite skipn_app_len, firstn_app_len by reflexivity.
    intro Heq.
    destruct Hcase as [Htag | Hsame].
    - (* tag kept: the recomputed tag over the presented data equals the authentic one *)
      destruct (list_eq_dec N.eq_dec aad' aad) as [Ha|Ha];
      [destruct (list_eq_dec N.eq_dec nonce' nonce) as [Hn|Hn];
       [destruct (list_eq_dec N.eq_dec ct' ct) as [Hc|Hc]|]|].
      + apply Hne. congruence.
      + apply (no_collision aad' nonce' ct' aad nonce ct); [congruence|]. fold tag. congruence.
      + apply (no_collision aad' nonce' ct' aad nonce ct); [congruence|]. fold tag. congruence.
      + apply (no_collision aad' nonce' ct' aad nonce ct); [congruence|]. fold tag. congruence.
    - (* only the tag changed *)
      apply Hne. injection Hsame as Hn Ha Hc. subst. reflexivity.
  Qed.
End TamperProofs.
