(* C03 — AES decryption inverts AES encryption, for the Gallina AES of Kit.Crypto.AES exactly as
   it is written (FIPS 197 cipher and straightforward inverse cipher over primitive 63-bit
   integers).  This discharges the premise [aes_inverts] of the AES instances of the round-trip
   theorems.

   Method.  No lemma about [Uint63] is used (the standard library's are axioms): a byte of the
   state is characterised as [int_of_N n] for some n < 256, and every primitive operation the
   cipher applies to bytes (xor, xtime, the S-boxes) is tabulated once on all 256 (or 256 x 256)
   byte values by [vm_compute] and read back pointwise.  The algebra (associativity and
   commutativity of xor, needed for InvMixColumns o MixColumns = id) is done on [N], where the
   standard library proves it; GF(2^8) enters only through tabulated facts about single bytes:
   xtime-polynomials are additive, and the 16 entries of the matrix product are the identity
   matrix.  The round structure is an induction over the list of round keys, which is opaque
   (any list of byte round keys). *)
From Kit Require Import Lib.Base Crypto.Words Crypto.AES.
From Coq Require Import Btauto Lia.

Local Notation psi := int_of_N.
Local Notation phi := N_of_int8.

(* ------------------------------------------------------------------------------------- *)
(** * Tabulation *)

Definition NB : list N := map N.of_nat (seq 0 256).

Lemma in_NB (n : N) : (n < 256)%N -> In n NB.
Proof.
  intro H. unfold NB. rewrite <- (N2Nat.id n). apply in_map. apply in_seq. lia.
Qed.

Lemma tab_pointwise {A B} (f g : A -> B) (l : list A) :
  map f l = map g l -> forall x, In x l -> f x = g x.
Proof.
  induction l as [|a l IH]; cbn [map In]; intros H x Hx; [contradiction|].
  injection H as Ha Hl. destruct Hx as [<-|Hx]; [exact Ha | now apply IH].
Qed.

Lemma tab1 {B} (f g : N -> B) :
  map f NB = map g NB -> forall n, (n < 256)%N -> f n = g n.
Proof. intros H n Hn. apply (tab_pointwise f g NB H). now apply in_NB. Qed.

Lemma tab2 {B} (f g : N -> N -> B) :
  map (fun m => map (f m) NB) NB = map (fun m => map (g m) NB) NB ->
  forall m n, (m < 256)%N -> (n < 256)%N -> f m n = g m n.
Proof.
  intros H m n Hm Hn.
  pose proof (tab_pointwise _ _ NB H m (in_NB m Hm)) as Hrow. cbv beta in Hrow.
  exact (tab_pointwise _ _ NB Hrow n (in_NB n Hn)).
Qed.

(* ------------------------------------------------------------------------------------- *)
(** * The byte operations of the cipher, transported to [N] *)

Definition XN (m : N) : N := phi (xtime (psi m)).
Definition SN (m : N) : N := phi (sbox (psi m)).
Definition ISN (m : N) : N := phi (inv_sbox (psi m)).

Lemma phi_lt (x : Uint63.int) : (phi x < 256)%N.
Proof. exact (N_of_int_bits_lt 8 x). Qed.
Lemma XN_lt m : (XN m < 256)%N. Proof. apply phi_lt. Qed.
Lemma SN_lt m : (SN m < 256)%N. Proof. apply phi_lt. Qed.
Lemma ISN_lt m : (ISN m < 256)%N. Proof. apply phi_lt. Qed.

Lemma phi_psi n : (n < 256)%N -> phi (psi n) = n.
Proof. revert n. apply (tab1 (fun n => phi (psi n)) (fun n => n)). vm_compute. reflexivity. Qed.

Lemma lxor_psi m n : (m < 256)%N -> (n < 256)%N ->
  Uint63.lxor (psi m) (psi n) = psi (N.lxor m n).
Proof.
  revert m n. apply (tab2 (fun m n => Uint63.lxor (psi m) (psi n)) (fun m n => psi (N.lxor m n))).
  vm_compute. reflexivity.
Qed.

Lemma xtime_psi m : (m < 256)%N -> xtime (psi m) = psi (XN m).
Proof. revert m. apply (tab1 (fun m => xtime (psi m)) (fun m => psi (XN m))). vm_compute. reflexivity. Qed.

Lemma sbox_psi m : (m < 256)%N -> sbox (psi m) = psi (SN m).
Proof. revert m. apply (tab1 (fun m => sbox (psi m)) (fun m => psi (SN m))). vm_compute. reflexivity. Qed.

Lemma inv_sbox_psi m : (m < 256)%N -> inv_sbox (psi m) = psi (ISN m).
Proof. revert m. apply (tab1 (fun m => inv_sbox (psi m)) (fun m => psi (ISN m))). vm_compute. reflexivity. Qed.

(* InvSubBytes inverts SubBytes on every byte *)
Lemma ISN_SN m : (m < 256)%N -> ISN (SN m) = m.
Proof. revert m. apply (tab1 (fun m => ISN (SN m)) (fun m => m)). vm_compute. reflexivity. Qed.

Lemma lxor_lt m n : (m < 256)%N -> (n < 256)%N -> (N.lxor m n < 256)%N.
Proof.
  intros Hm Hn.
  assert (H : forallb (fun m => forallb (fun n => N.ltb (N.lxor m n) 256) NB) NB = true)
    by (vm_compute; reflexivity).
  rewrite forallb_forall in H. specialize (H m (in_NB m Hm)).
  rewrite forallb_forall in H. specialize (H n (in_NB n Hn)). now apply N.ltb_lt in H.
Qed.

Create HintDb b256.
#[local] Hint Resolve XN_lt SN_lt ISN_lt lxor_lt : b256.

(* ------------------------------------------------------------------------------------- *)
(** * MixColumns and InvMixColumns on [N] *)

(* the multiplications by 01 02 03 (MixColumns) and 09 0b 0d 0e (InvMixColumns), as the cipher
   computes them from xtime *)
Definition m1 (a : N) : N := a.
Definition m2 (a : N) : N := XN a.
Definition m3 (a : N) : N := N.lxor (XN a) a.
Definition m9 (a : N) : N := let a2 := XN a in let a4 := XN a2 in let a8 := XN a4 in N.lxor a8 a.
Definition mb (a : N) : N :=
  let a2 := XN a in let a4 := XN a2 in let a8 := XN a4 in N.lxor (N.lxor a8 a2) a.
Definition md (a : N) : N :=
  let a2 := XN a in let a4 := XN a2 in let a8 := XN a4 in N.lxor (N.lxor a8 a4) a.
Definition me (a : N) : N :=
  let a2 := XN a in let a4 := XN a2 in let a8 := XN a4 in N.lxor (N.lxor a8 a4) a2.

(* f0 a0 + f1 a1 + f2 a2 + f3 a3, nested the way the cipher writes its rows *)
Definition lin4 (f0 f1 f2 f3 : N -> N) (a0 a1 a2 a3 : N) : N :=
  N.lxor (N.lxor (N.lxor (f0 a0) (f1 a1)) (f2 a2)) (f3 a3).

Definition mixN (a0 a1 a2 a3 : N) : N * N * N * N :=
  (lin4 m2 m3 m1 m1 a0 a1 a2 a3, lin4 m1 m2 m3 m1 a0 a1 a2 a3,
   lin4 m1 m1 m2 m3 a0 a1 a2 a3, lin4 m3 m1 m1 m2 a0 a1 a2 a3).
Definition inv_mixN (a0 a1 a2 a3 : N) : N * N * N * N :=
  (lin4 me mb md m9 a0 a1 a2 a3, lin4 m9 me mb md a0 a1 a2 a3,
   lin4 md m9 me mb a0 a1 a2 a3, lin4 mb md m9 me a0 a1 a2 a3).

(* byte-preserving and additive (GF(2)-linear) unary maps *)
Definition bp (f : N -> N) : Prop := forall x, (x < 256)%N -> (f x < 256)%N.
Definition additive (f : N -> N) : Prop :=
  forall x y, (x < 256)%N -> (y < 256)%N -> f (N.lxor x y) = N.lxor (f x) (f y).

Lemma bp_m1 : bp m1. Proof. intros x H; exact H. Qed.
Lemma bp_m2 : bp m2. Proof. intros x _; apply XN_lt. Qed.
Lemma bp_m3 : bp m3. Proof. intros x H; unfold m3; auto with b256. Qed.
Lemma bp_m9 : bp m9. Proof. intros x H; unfold m9; cbv zeta; auto with b256. Qed.
Lemma bp_mb : bp mb. Proof. intros x H; unfold mb; cbv zeta; auto 6 with b256. Qed.
Lemma bp_md : bp md. Proof. intros x H; unfold md; cbv zeta; auto 6 with b256. Qed.
Lemma bp_me : bp me. Proof. intros x H; unfold me; cbv zeta; auto 6 with b256. Qed.

Lemma additive_tab (f : N -> N) :
  map (fun x => map (fun y => f (N.lxor x y)) NB) NB
  = map (fun x => map (fun y => N.lxor (f x) (f y)) NB) NB -> additive f.
Proof. intros H x y. revert x y. exact (tab2 _ _ H). Qed.

Lemma add_m9 : additive m9. Proof. apply additive_tab. vm_compute. reflexivity. Qed.
Lemma add_mb : additive mb. Proof. apply additive_tab. vm_compute. reflexivity. Qed.
Lemma add_md : additive md. Proof. apply additive_tab. vm_compute. reflexivity. Qed.
Lemma add_me : additive me. Proof. apply additive_tab. vm_compute. reflexivity. Qed.

#[local] Hint Resolve bp_m1 bp_m2 bp_m3 bp_m9 bp_mb bp_md bp_me add_m9 add_mb add_md add_me : b256.

Lemma lin4_lt f0 f1 f2 f3 a0 a1 a2 a3 :
  bp f0 -> bp f1 -> bp f2 -> bp f3 ->
  (a0 < 256)%N -> (a1 < 256)%N -> (a2 < 256)%N -> (a3 < 256)%N ->
  (lin4 f0 f1 f2 f3 a0 a1 a2 a3 < 256)%N.
Proof. intros. unfold lin4. auto 8 with b256. Qed.

(* an additive map distributes over a row *)
Lemma additive_lin4 g f0 f1 f2 f3 a0 a1 a2 a3 :
  additive g -> bp f0 -> bp f1 -> bp f2 -> bp f3 ->
  (a0 < 256)%N -> (a1 < 256)%N -> (a2 < 256)%N -> (a3 < 256)%N ->
  g (lin4 f0 f1 f2 f3 a0 a1 a2 a3)
  = N.lxor (N.lxor (N.lxor (g (f0 a0)) (g (f1 a1))) (g (f2 a2))) (g (f3 a3)).
Proof.
  intros Hg H0 H1 H2 H3 Ha0 Ha1 Ha2 Ha3. unfold lin4.
  rewrite Hg by auto 6 with b256. rewrite Hg by auto 6 with b256. rewrite Hg by auto with b256.
  reflexivity.
Qed.

(* regrouping a 4 x 4 xor sum by columns instead of rows *)
Lemma xor16_transpose (c00 c01 c02 c03 c10 c11 c12 c13 c20 c21 c22 c23 c30 c31 c32 c33 : N) :
  N.lxor (N.lxor (N.lxor (N.lxor (N.lxor (N.lxor c00 c01) c02) c03)
                         (N.lxor (N.lxor (N.lxor c10 c11) c12) c13))
                 (N.lxor (N.lxor (N.lxor c20 c21) c22) c23))
         (N.lxor (N.lxor (N.lxor c30 c31) c32) c33)
  = N.lxor (N.lxor (N.lxor (N.lxor (N.lxor (N.lxor c00 c10) c20) c30)
                           (N.lxor (N.lxor (N.lxor c01 c11) c21) c31))
                   (N.lxor (N.lxor (N.lxor c02 c12) c22) c32))
           (N.lxor (N.lxor (N.lxor c03 c13) c23) c33).
Proof.
  apply N.bits_inj. intro n. rewrite !N.lxor_spec. btauto.
Qed.

(* a row of the inverse matrix applied to the four rows of a matrix: the row of the product *)
Lemma compose4 (t0 t1 t2 t3 : N -> N)
      (f00 f01 f02 f03 f10 f11 f12 f13 f20 f21 f22 f23 f30 f31 f32 f33 : N -> N) a0 a1 a2 a3 :
  additive t0 -> additive t1 -> additive t2 -> additive t3 ->
  bp f00 -> bp f01 -> bp f02 -> bp f03 -> bp f10 -> bp f11 -> bp f12 -> bp f13 ->
  bp f20 -> bp f21 -> bp f22 -> bp f23 -> bp f30 -> bp f31 -> bp f32 -> bp f33 ->
  (a0 < 256)%N -> (a1 < 256)%N -> (a2 < 256)%N -> (a3 < 256)%N ->
  lin4 t0 t1 t2 t3 (lin4 f00 f01 f02 f03 a0 a1 a2 a3) (lin4 f10 f11 f12 f13 a0 a1 a2 a3)
                   (lin4 f20 f21 f22 f23 a0 a1 a2 a3) (lin4 f30 f31 f32 f33 a0 a1 a2 a3)
  = lin4 (fun x => lin4 t0 t1 t2 t3 (f00 x) (f10 x) (f20 x) (f30 x))
         (fun x => lin4 t0 t1 t2 t3 (f01 x) (f11 x) (f21 x) (f31 x))
         (fun x => lin4 t0 t1 t2 t3 (f02 x) (f12 x) (f22 x) (f32 x))
         (fun x => lin4 t0 t1 t2 t3 (f03 x) (f13 x) (f23 x) (f33 x)) a0 a1 a2 a3.
Proof.
  intros. unfold lin4 at 1.
  rewrite !additive_lin4 by assumption.
  rewrite xor16_transpose. reflexivity.
Qed.

(* the 16 entries of (0e 0b 0d 09) x (02 03 01 01): identity on the diagonal, zero elsewhere *)
Lemma product_entries :
  forall x, (x < 256)%N ->
  lin4 me mb md m9 (m2 x) (m1 x) (m1 x) (m3 x) = x /\ lin4 me mb md m9 (m3 x) (m2 x) (m1 x) (m1 x) = 0%N /\
  lin4 me mb md m9 (m1 x) (m3 x) (m2 x) (m1 x) = 0%N /\ lin4 me mb md m9 (m1 x) (m1 x) (m3 x) (m2 x) = 0%N /\
  lin4 m9 me mb md (m2 x) (m1 x) (m1 x) (m3 x) = 0%N /\ lin4 m9 me mb md (m3 x) (m2 x) (m1 x) (m1 x) = x /\
  lin4 m9 me mb md (m1 x) (m3 x) (m2 x) (m1 x) = 0%N /\ lin4 m9 me mb md (m1 x) (m1 x) (m3 x) (m2 x) = 0%N /\
  lin4 md m9 me mb (m2 x) (m1 x) (m1 x) (m3 x) = 0%N /\ lin4 md m9 me mb (m3 x) (m2 x) (m1 x) (m1 x) = 0%N /\
  lin4 md m9 me mb (m1 x) (m3 x) (m2 x) (m1 x) = x /\ lin4 md m9 me mb (m1 x) (m1 x) (m3 x) (m2 x) = 0%N /\
  lin4 mb md m9 me (m2 x) (m1 x) (m1 x) (m3 x) = 0%N /\ lin4 mb md m9 me (m3 x) (m2 x) (m1 x) (m1 x) = 0%N /\
  lin4 mb md m9 me (m1 x) (m3 x) (m2 x) (m1 x) = 0%N /\ lin4 mb md m9 me (m1 x) (m1 x) (m3 x) (m2 x) = x.
Proof.
  intros x Hx.
  assert (H : forallb (fun x =>
    N.eqb (lin4 me mb md m9 (m2 x) (m1 x) (m1 x) (m3 x)) x && N.eqb (lin4 me mb md m9 (m3 x) (m2 x) (m1 x) (m1 x)) 0 &&
    N.eqb (lin4 me mb md m9 (m1 x) (m3 x) (m2 x) (m1 x)) 0 && N.eqb (lin4 me mb md m9 (m1 x) (m1 x) (m3 x) (m2 x)) 0 &&
    N.eqb (lin4 m9 me mb md (m2 x) (m1 x) (m1 x) (m3 x)) 0 && N.eqb (lin4 m9 me mb md (m3 x) (m2 x) (m1 x) (m1 x)) x &&
    N.eqb (lin4 m9 me mb md (m1 x) (m3 x) (m2 x) (m1 x)) 0 && N.eqb (lin4 m9 me mb md (m1 x) (m1 x) (m3 x) (m2 x)) 0 &&
    N.eqb (lin4 md m9 me mb (m2 x) (m1 x) (m1 x) (m3 x)) 0 && N.eqb (lin4 md m9 me mb (m3 x) (m2 x) (m1 x) (m1 x)) 0 &&
    N.eqb (lin4 md m9 me mb (m1 x) (m3 x) (m2 x) (m1 x)) x && N.eqb (lin4 md m9 me mb (m1 x) (m1 x) (m3 x) (m2 x)) 0 &&
    N.eqb (lin4 mb md m9 me (m2 x) (m1 x) (m1 x) (m3 x)) 0 && N.eqb (lin4 mb md m9 me (m3 x) (m2 x) (m1 x) (m1 x)) 0 &&
    N.eqb (lin4 mb md m9 me (m1 x) (m3 x) (m2 x) (m1 x)) 0 && N.eqb (lin4 mb md m9 me (m1 x) (m1 x) (m3 x) (m2 x)) x) NB = true)
    by (vm_compute; reflexivity).
  rewrite forallb_forall in H. specialize (H x (in_NB x Hx)).
  repeat (apply andb_true_iff in H; destruct H as [H ?]).
  repeat match goal with E : N.eqb _ _ = true |- _ => apply N.eqb_eq in E end.
  repeat split; assumption.
Qed.


(* InvMixColumns o MixColumns = id on one column of bytes *)
Theorem inv_mixN_mixN a0 a1 a2 a3 :
  (a0 < 256)%N -> (a1 < 256)%N -> (a2 < 256)%N -> (a3 < 256)%N ->
  (let '(b0, b1, b2, b3) := mixN a0 a1 a2 a3 in inv_mixN b0 b1 b2 b3) = (a0, a1, a2, a3).
Proof.
  intros H0 H1 H2 H3. unfold mixN. cbv beta iota. unfold inv_mixN.
  rewrite (compose4 me mb md m9 m2 m3 m1 m1 m1 m2 m3 m1 m1 m1 m2 m3 m3 m1 m1 m2 a0 a1 a2 a3
     add_me add_mb add_md add_m9 bp_m2 bp_m3 bp_m1 bp_m1 bp_m1 bp_m2 bp_m3 bp_m1 bp_m1 bp_m1 bp_m2 bp_m3 bp_m3 bp_m1 bp_m1 bp_m2 H0 H1 H2 H3).
  rewrite (compose4 m9 me mb md m2 m3 m1 m1 m1 m2 m3 m1 m1 m1 m2 m3 m3 m1 m1 m2 a0 a1 a2 a3
     add_m9 add_me add_mb add_md bp_m2 bp_m3 bp_m1 bp_m1 bp_m1 bp_m2 bp_m3 bp_m1 bp_m1 bp_m1 bp_m2 bp_m3 bp_m3 bp_m1 bp_m1 bp_m2 H0 H1 H2 H3).
  rewrite (compose4 md m9 me mb m2 m3 m1 m1 m1 m2 m3 m1 m1 m1 m2 m3 m3 m1 m1 m2 a0 a1 a2 a3
     add_md add_m9 add_me add_mb bp_m2 bp_m3 bp_m1 bp_m1 bp_m1 bp_m2 bp_m3 bp_m1 bp_m1 bp_m1 bp_m2 bp_m3 bp_m3 bp_m1 bp_m1 bp_m2 H0 H1 H2 H3).
  rewrite (compose4 mb md m9 me m2 m3 m1 m1 m1 m2 m3 m1 m1 m1 m2 m3 m3 m1 m1 m2 a0 a1 a2 a3
     add_mb add_md add_m9 add_me bp_m2 bp_m3 bp_m1 bp_m1 bp_m1 bp_m2 bp_m3 bp_m1 bp_m1 bp_m1 bp_m2 bp_m3 bp_m3 bp_m1 bp_m1 bp_m2 H0 H1 H2 H3).
  destruct (product_entries a0 H0) as (E00 & E01 & E02 & E03 & E10 & E11 & E12 & E13 &
                                       E20 & E21 & E22 & E23 & E30 & E31 & E32 & E33).
  destruct (product_entries a1 H1) as (F00 & F01 & F02 & F03 & F10 & F11 & F12 & F13 &
                                       F20 & F21 & F22 & F23 & F30 & F31 & F32 & F33).
  destruct (product_entries a2 H2) as (G00 & G01 & G02 & G03 & G10 & G11 & G12 & G13 &
                                       G20 & G21 & G22 & G23 & G30 & G31 & G32 & G33).
  destruct (product_entries a3 H3) as (K00 & K01 & K02 & K03 & K10 & K11 & K12 & K13 &
                                       K20 & K21 & K22 & K23 & K30 & K31 & K32 & K33).
  unfold lin4 at 1. cbv beta. rewrite E00, F01, G02, K03.
  unfold lin4 at 1. cbv beta. rewrite E10, F11, G12, K13.
  unfold lin4 at 1. cbv beta. rewrite E20, F21, G22, K23.
  unfold lin4 at 1. cbv beta. rewrite E30, F31, G32, K33.
  rewrite !N.lxor_0_r, !N.lxor_0_l. reflexivity.
Qed.

(* ------------------------------------------------------------------------------------- *)
(** * The column operations on primitive integers that are bytes *)

Lemma mix_column_psi a0 a1 a2 a3 :
  (a0 < 256)%N -> (a1 < 256)%N -> (a2 < 256)%N -> (a3 < 256)%N ->
  mix_column (psi a0) (psi a1) (psi a2) (psi a3)
  = (psi (lin4 m2 m3 m1 m1 a0 a1 a2 a3), psi (lin4 m1 m2 m3 m1 a0 a1 a2 a3),
     psi (lin4 m1 m1 m2 m3 a0 a1 a2 a3), psi (lin4 m3 m1 m1 m2 a0 a1 a2 a3)).
Proof.
  intros H0 H1 H2 H3. unfold mix_column, lin4, m1, m2, m3. cbv zeta.
  rewrite !xtime_psi by assumption.
  repeat rewrite lxor_psi by auto 8 with b256.
  reflexivity.
Qed.

Lemma inv_mix_column_psi a0 a1 a2 a3 :
  (a0 < 256)%N -> (a1 < 256)%N -> (a2 < 256)%N -> (a3 < 256)%N ->
  inv_mix_column (psi a0) (psi a1) (psi a2) (psi a3)
  = (psi (lin4 me mb md m9 a0 a1 a2 a3), psi (lin4 m9 me mb md a0 a1 a2 a3),
     psi (lin4 md m9 me mb a0 a1 a2 a3), psi (lin4 mb md m9 me a0 a1 a2 a3)).
Proof.
  intros H0 H1 H2 H3. unfold inv_mix_column, lin4, m9, mb, md, me. cbv zeta beta.
  repeat rewrite xtime_psi by auto with b256.
  repeat rewrite lxor_psi by auto 8 with b256.
  reflexivity.
Qed.

(* ------------------------------------------------------------------------------------- *)
(** * States of bytes and the four round transformations *)

Definition isb (x : Uint63.int) : Prop := exists n, (n < 256)%N /\ x = psi n.

Definition bst (s : st16) : Prop :=
  let '(St16 x0 x1 x2 x3 x4 x5 x6 x7 x8 x9 x10 x11 x12 x13 x14 x15) := s in
  isb x0 /\ isb x1 /\ isb x2 /\ isb x3 /\ isb x4 /\ isb x5 /\ isb x6 /\ isb x7 /\
  isb x8 /\ isb x9 /\ isb x10 /\ isb x11 /\ isb x12 /\ isb x13 /\ isb x14 /\ isb x15.

Lemma isb_psi n : (n < 256)%N -> isb (psi n).
Proof. intro H. exists n. auto. Qed.

(* open a byte state: sixteen N below 256 *)
Ltac open_bst s H :=
  destruct s; cbn [bst] in H;
  destruct H as ((?n & ?Hn & ->) & (?n & ?Hn & ->) & (?n & ?Hn & ->) & (?n & ?Hn & ->) &
                 (?n & ?Hn & ->) & (?n & ?Hn & ->) & (?n & ?Hn & ->) & (?n & ?Hn & ->) &
                 (?n & ?Hn & ->) & (?n & ?Hn & ->) & (?n & ?Hn & ->) & (?n & ?Hn & ->) &
                 (?n & ?Hn & ->) & (?n & ?Hn & ->) & (?n & ?Hn & ->) & (?n & ?Hn & ->)).

(* side conditions "... < 256", decided on the head symbol only (never by conversion: unifying
   two different table look-ups would evaluate both tables) *)
Ltac b256 :=
  repeat lazymatch goal with
  | |- (XN _ < 256)%N => apply XN_lt
  | |- (SN _ < 256)%N => apply SN_lt
  | |- (ISN _ < 256)%N => apply ISN_lt
  | |- (N.lxor _ _ < 256)%N => apply lxor_lt
  | |- (lin4 _ _ _ _ _ _ _ _ < 256)%N => apply lin4_lt
  | |- bp m1 => exact bp_m1 | |- bp m2 => exact bp_m2 | |- bp m3 => exact bp_m3
  | |- bp m9 => exact bp_m9 | |- bp mb => exact bp_mb | |- bp md => exact bp_md
  | |- bp me => exact bp_me
  | |- (_ < 256)%N => assumption
  end.

Ltac close_bst := cbn [bst]; repeat (apply conj); apply isb_psi; b256.

Lemma St16_ext x0 x1 x2 x3 x4 x5 x6 x7 x8 x9 x10 x11 x12 x13 x14 x15
      y0 y1 y2 y3 y4 y5 y6 y7 y8 y9 y10 y11 y12 y13 y14 y15 :
  x0 = y0 -> x1 = y1 -> x2 = y2 -> x3 = y3 -> x4 = y4 -> x5 = y5 -> x6 = y6 -> x7 = y7 ->
  x8 = y8 -> x9 = y9 -> x10 = y10 -> x11 = y11 -> x12 = y12 -> x13 = y13 -> x14 = y14 ->
  x15 = y15 ->
  St16 x0 x1 x2 x3 x4 x5 x6 x7 x8 x9 x10 x11 x12 x13 x14 x15
  = St16 y0 y1 y2 y3 y4 y5 y6 y7 y8 y9 y10 y11 y12 y13 y14 y15.
Proof. intros; subst; reflexivity. Qed.

(* per-byte facts, tabulated directly *)
Lemma inv_sbox_sbox_psi n : (n < 256)%N -> inv_sbox (sbox (psi n)) = psi n.
Proof.
  revert n. apply (tab1 (fun n => inv_sbox (sbox (psi n))) (fun n => psi n)). vm_compute. reflexivity.
Qed.

Lemma lxor_lxor_psi m k : (m < 256)%N -> (k < 256)%N ->
  Uint63.lxor (Uint63.lxor (psi m) (psi k)) (psi k) = psi m.
Proof.
  revert m k.
  apply (tab2 (fun m k => Uint63.lxor (Uint63.lxor (psi m) (psi k)) (psi k)) (fun m _ => psi m)).
  vm_compute. reflexivity.
Qed.

Lemma sub_shift_bst s : bst s -> bst (sub_shift s).
Proof.
  intro H. open_bst s H. cbn [sub_shift]. do 16 rewrite sbox_psi by assumption. close_bst.
Qed.

Lemma inv_shift_sub_sub_shift s : bst s -> inv_shift_sub (sub_shift s) = s.
Proof.
  intro H. open_bst s H. cbn [sub_shift inv_shift_sub].
  apply St16_ext; apply inv_sbox_sbox_psi; assumption.
Qed.

Lemma add_round_key_bst s k : bst s -> bst k -> bst (add_round_key s k).
Proof.
  intros H K. open_bst s H. open_bst k K. cbn [add_round_key st16_map2].
  do 16 rewrite lxor_psi by assumption. close_bst.
Qed.

Lemma add_round_key_involutive s k : bst s -> bst k -> add_round_key (add_round_key s k) k = s.
Proof.
  intros H K. open_bst s H. open_bst k K. cbn [add_round_key st16_map2].
  apply St16_ext; apply lxor_lxor_psi; assumption.
Qed.

Lemma mix_columns_bst s : bst s -> bst (mix_columns s).
Proof.
  intro H. open_bst s H. cbn [mix_columns].
  do 4 rewrite mix_column_psi by assumption. cbv beta iota. close_bst.
Qed.

Lemma inv_mix_columns_mix_columns s : bst s -> inv_mix_columns (mix_columns s) = s.
Proof.
  intro H. open_bst s H. cbn [mix_columns].
  do 4 rewrite mix_column_psi by assumption. cbv beta iota. cbn [inv_mix_columns].
  do 4 rewrite inv_mix_column_psi by b256. cbv beta iota.
  pose proof (inv_mixN_mixN n n0 n1 n2 Hn Hn0 Hn1 Hn2) as C0.
  pose proof (inv_mixN_mixN n3 n4 n5 n6 Hn3 Hn4 Hn5 Hn6) as C1.
  pose proof (inv_mixN_mixN n7 n8 n9 n10 Hn7 Hn8 Hn9 Hn10) as C2.
  pose proof (inv_mixN_mixN n11 n12 n13 n14 Hn11 Hn12 Hn13 Hn14) as C3.
  unfold mixN, inv_mixN in C0, C1, C2, C3. cbv beta iota in C0, C1, C2, C3.
  injection C0 as -> -> -> ->. injection C1 as -> -> -> ->.
  injection C2 as -> -> -> ->. injection C3 as -> -> -> ->.
  reflexivity.
Qed.

(* ------------------------------------------------------------------------------------- *)
(** * The round structure: the inverse cipher undoes the cipher, for ANY list of byte round
      keys (the key schedule is opaque here) *)

Lemma aes_rounds_step x k ks : ks <> [] ->
  aes_rounds x (k :: ks) = aes_rounds (add_round_key (mix_columns (sub_shift x)) k) ks.
Proof. destruct ks; [congruence | reflexivity]. Qed.

Lemma aes_inv_rounds_step t k ks : ks <> [] ->
  aes_inv_rounds t (k :: ks) = aes_inv_rounds (inv_mix_columns (add_round_key (inv_shift_sub t) k)) ks.
Proof. destruct ks; [congruence | reflexivity]. Qed.

Lemma rounds_inverse mids : forall x kn tail,
  bst x -> Forall bst mids -> bst kn -> tail <> [] ->
  aes_inv_rounds (add_round_key (aes_rounds x (mids ++ [kn])) kn) (rev mids ++ tail)
  = aes_inv_rounds (sub_shift x) tail.
Proof.
  induction mids as [|k ms IH]; intros x kn tail Hx Hms Hkn Htail.
  - cbn [app rev aes_rounds].
    rewrite add_round_key_involutive by auto using sub_shift_bst. reflexivity.
  - inversion Hms as [|? ? Hk Hms']; subst.
    cbn [app]. rewrite aes_rounds_step by (destruct ms; discriminate).
    cbn [rev]. rewrite <- app_assoc. cbn [app].
    set (x' := add_round_key (mix_columns (sub_shift x)) k).
    assert (Hx' : bst x') by (apply add_round_key_bst; auto using mix_columns_bst, sub_shift_bst).
    rewrite IH by (auto; discriminate).
    rewrite aes_inv_rounds_step by assumption.
    rewrite inv_shift_sub_sub_shift by assumption.
    unfold x'. rewrite add_round_key_involutive by auto using mix_columns_bst, sub_shift_bst.
    rewrite inv_mix_columns_mix_columns by auto using sub_shift_bst. reflexivity.
Qed.

Theorem aes_decrypt_encrypt_st (ks : aes_ks) (s : st16) :
  Forall bst ks -> bst s -> aes_decrypt_st ks (aes_encrypt_st ks s) = s.
Proof.
  intros Hks Hs. destruct ks as [|k0 rest]; [reflexivity|].
  inversion Hks as [|? ? Hk0 Hrest]; subst.
  unfold aes_encrypt_st, aes_decrypt_st.
  destruct rest as [|r rest'].
  - (* a single round key *)
    cbn [rev app aes_rounds aes_inv_rounds]. now apply add_round_key_involutive.
  - destruct (@exists_last _ (r :: rest') ltac:(discriminate)) as (mids & kn & Heq).
    rewrite Heq in *. clear Heq r rest'.
    apply Forall_app in Hrest as [Hmids Hkn]. inversion Hkn; subst.
    replace (rev (k0 :: mids ++ [kn])) with (kn :: rev mids ++ [k0])
      by (cbn [rev]; rewrite rev_app_distr; reflexivity).
    assert (Hx : bst (add_round_key s k0)) by now apply add_round_key_bst.
    rewrite rounds_inverse by (auto; discriminate).
    cbn [aes_inv_rounds]. rewrite inv_shift_sub_sub_shift by assumption.
    now apply add_round_key_involutive.
Qed.

(* ------------------------------------------------------------------------------------- *)
(** * Blocks of bytes in and out, and the key schedule *)

Lemma aes_rounds_bst ks : forall x, bst x -> Forall bst ks -> bst (aes_rounds x ks).
Proof.
  induction ks as [|k ks IH]; intros x Hx Hks; [exact Hx|].
  inversion Hks as [|? ? Hk Hks']; subst.
  destruct ks as [|k' ks'].
  - cbn [aes_rounds]. apply add_round_key_bst; auto using sub_shift_bst.
  - rewrite aes_rounds_step by discriminate.
    apply IH; [|assumption]. apply add_round_key_bst; auto using mix_columns_bst, sub_shift_bst.
Qed.

Lemma aes_encrypt_st_bst ks s : Forall bst ks -> bst s -> bst (aes_encrypt_st ks s).
Proof.
  intros Hks Hs. destruct ks as [|k0 rest]; [exact Hs|].
  inversion Hks; subst. cbn [aes_encrypt_st]. apply aes_rounds_bst; [|assumption].
  now apply add_round_key_bst.
Qed.

Lemma isb_nth (bs : list N) i : Forall (fun b => (b < 256)%N) bs -> isb (nth i (map psi bs) (psi 0)).
Proof.
  intro H. rewrite map_nth. apply isb_psi.
  destruct (nth_in_or_default i bs 0%N) as [Hin | ->]; [|reflexivity].
  rewrite Forall_forall in H. now apply H.
Qed.

Lemma st16_of_list_bst (bs : list N) :
  Forall (fun b => (b < 256)%N) bs -> bst (st16_of_list (map psi bs)).
Proof.
  intro H. unfold st16_of_list. cbn [bst].
  change (Uint63.of_Z 0) with (psi 0) || idtac.
  repeat (apply conj); apply (isb_nth bs _ H).
Qed.

Lemma bytes_ok_Forall (b : list N) : bytes_ok b = true -> Forall (fun x => (x < 256)%N) b.
Proof.
  unfold bytes_ok. rewrite forallb_forall, Forall_forall. intros H x Hx.
  specialize (H x Hx). unfold byte_ok in H. now apply N.ltb_lt.
Qed.

Lemma st16_of_bytes_bst (b : list N) : bytes_ok b = true -> bst (st16_of_bytes b).
Proof. intro H. apply st16_of_list_bst. now apply bytes_ok_Forall. Qed.

(* every round key the key expansion produces is a state of bytes, whatever the words are *)
Lemma round_key_bst (ws : list Uint63.int) : bst (round_key_of_words ws).
Proof.
  unfold round_key_of_words, ints_of_bytes, bytes_of_words_be. apply st16_of_list_bst.
  induction ws as [|w ws IH]; cbn [flat_map]; [constructor|].
  unfold word_be_bytes at 1. cbn [app].
  repeat (constructor; [apply phi_lt|]). exact IH.
Qed.

Lemma aes_expand_bst (key : list N) : Forall bst (aes_expand key).
Proof.
  unfold aes_expand. destruct (aes_key_ok key); [|constructor].
  apply Forall_forall. intros k Hk. apply in_map_iff in Hk as (ws & <- & _). apply round_key_bst.
Qed.

Lemma st16_of_bytes_of_st16 s : bst s -> st16_of_bytes (bytes_of_st16 s) = s.
Proof.
  intro H. open_bst s H.
  unfold bytes_of_st16, bytes_of_ints, st16_of_bytes, ints_of_bytes, st16_of_list.
  cbn [st16_to_list map nth]. apply St16_ext; f_equal; apply phi_psi; assumption.
Qed.

Lemma bytes_of_st16_of_bytes (b : list N) :
  length b = 16 -> bytes_ok b = true -> bytes_of_st16 (st16_of_bytes b) = b.
Proof.
  intros Hl Hok. apply bytes_ok_Forall in Hok.
  do 16 (destruct b as [|?x b]; [discriminate|]). destruct b; [|discriminate].
  unfold bytes_of_st16, bytes_of_ints, st16_of_bytes, ints_of_bytes, st16_of_list.
  cbn [st16_to_list map nth].
  repeat match goal with H : Forall _ (_ :: _) |- _ => inversion H; clear H; subst end.
  rewrite !phi_psi by assumption. reflexivity.
Qed.

(* AES decryption inverts AES encryption: every schedule of byte round keys (in particular the
   one of every key, of any length), every block of sixteen bytes *)
Theorem aes_decrypt_encrypt_block_ks (ks : aes_ks) (b : list N) :
  Forall bst ks -> length b = 16 -> bytes_ok b = true ->
  aes_decrypt_block_ks ks (aes_encrypt_block_ks ks b) = b.
Proof.
  intros Hks Hl Hok. unfold aes_decrypt_block_ks, aes_encrypt_block_ks.
  pose proof (st16_of_bytes_bst b Hok) as Hs.
  rewrite st16_of_bytes_of_st16 by now apply aes_encrypt_st_bst.
  rewrite aes_decrypt_encrypt_st by assumption.
  now apply bytes_of_st16_of_bytes.
Qed.

Theorem aes_decrypt_encrypt_block (key b : list N) :
  length b = 16 -> bytes_ok b = true ->
  aes_decrypt_block key (aes_encrypt_block key b) = b.
Proof.
  intros Hl Hok. unfold aes_decrypt_block, aes_encrypt_block.
  apply aes_decrypt_encrypt_block_ks; auto using aes_expand_bst.
Qed.

From Coq Require Import String.

(* non-vacuity and a sanity check against FIPS 197 appendix C.1 *)
Example aes_decrypt_encrypt_block_c1 :
  aes_encrypt_block (hex "000102030405060708090a0b0c0d0e0f"%string)
                    (hex "00112233445566778899aabbccddeeff"%string)
  = hex "69c4e0d86a7b0430d8cdb78070b4c55a"%string.
Proof. vm_compute. reflexivity. Qed.

Print Assumptions aes_decrypt_encrypt_block.
