(* Shared base definitions for every model of the development. Definitions only. *)
From Coq Require Export List NArith ZArith Bool Lia.
Export ListNotations.

(* Which version of the Go code a step function describes: [Original] is the pinned tree
   before a [fix:] commit, [Fixed] the tree after it (the current tree). *)
Inductive variant := Original | Fixed.

Definition is_fixed (v : variant) : bool :=
  match v with Fixed => true | Original => false end.

(* Result of a Go computation that may fail with an error value or panic at run time. *)
Inductive result (A E : Type) :=
| Ok (a : A)
| Err (e : E)
| Panic.
Arguments Ok {A E} a.
Arguments Err {A E} e.
Arguments Panic {A E}.

Definition is_panic {A E} (r : result A E) : bool :=
  match r with Panic => true | _ => false end.

Definition bind {A B E} (r : result A E) (f : A -> result B E) : result B E :=
  match r with Ok a => f a | Err e => Err e | Panic => Panic end.

(* A byte is an [N] below 256; byte strings are [list N]. *)
Definition byte_ok (b : N) : bool := (b <? 256)%N.
Definition bytes_ok (bs : list N) : bool := forallb byte_ok bs.

(* list equality on N / Z, executable *)
Fixpoint eqb_listN (a b : list N) : bool :=
  match a, b with
  | [], [] => true
  | x :: a', y :: b' => (x =? y)%N && eqb_listN a' b'
  | _, _ => false
  end.

Fixpoint eqb_listZ (a b : list Z) : bool :=
  match a, b with
  | [], [] => true
  | x :: a', y :: b' => (x =? y)%Z && eqb_listZ a' b'
  | _, _ => false
  end.

Lemma eqb_listN_spec a b : eqb_listN a b = true <-> a = b.
Proof.
  revert b; induction a as [|x a IH]; intros [|y b]; cbn [eqb_listN]; split; intro H;
    try reflexivity; try discriminate.
  - apply andb_true_iff in H as [H1 H2]. apply N.eqb_eq in H1. apply IH in H2. congruence.
  - inversion H; subst. apply andb_true_iff; split; [apply N.eqb_refl | apply IH; reflexivity].
Qed.

Lemma eqb_listZ_spec a b : eqb_listZ a b = true <-> a = b.
Proof.
  revert b; induction a as [|x a IH]; intros [|y b]; cbn [eqb_listZ]; split; intro H;
    try reflexivity; try discriminate.
  - apply andb_true_iff in H as [H1 H2]. apply Z.eqb_eq in H1. apply IH in H2. congruence.
  - inversion H; subst. apply andb_true_iff; split; [apply Z.eqb_refl | apply IH; reflexivity].
Qed.

(* prefix test, executable *)
Fixpoint prefixb (a b : list N) : bool :=
  match a, b with
  | [], _ => true
  | x :: a', y :: b' => (x =? y)%N && prefixb a' b'
  | _ :: _, [] => false
  end.

Lemma prefixb_spec a b : prefixb a b = true <-> exists c, b = a ++ c.
Proof.
  revert b; induction a as [|x a IH]; intros b; cbn [prefixb].
  - split; [intros _; exists b; reflexivity | reflexivity].
  - destruct b as [|y b].
    + split; [discriminate | intros [c Hc]; discriminate].
    + split.
      * intro H. apply andb_true_iff in H as [H1 H2]. apply N.eqb_eq in H1.
        apply IH in H2 as [c Hc]. exists c. cbn. congruence.
      * intros [c Hc]. cbn in Hc. inversion Hc; subst.
        apply andb_true_iff; split; [apply N.eqb_refl | apply IH; exists c; reflexivity].
Qed.
