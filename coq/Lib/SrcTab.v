(* Source-table tie (shared part).  The harness binaries harness/srctabXX regenerate, from the
   SOURCE TEXT of /repo's working tree, the plain data the models copy from the code (constants,
   name tables, switch tables, literals inlined in calls) and print it as [case] terms; the
   per-property file Cxx/SrcTab.v holds one [entry] per item: its name and a boolean test of the
   regenerated value AGAINST THE MODEL'S OWN DEFINITION (never against a second copy).
   Verdict 0 = equal, 1 = the source no longer says what the model uses (a correspondence break;
   there is no spec oracle here, the behavioural check decides whether the property fails).
   Definitions only. *)
From Coq Require Import String Ascii ZArith NArith List Bool.
From Kit Require Import Lib.CheckLib.
Import ListNotations.

(* regenerated values: integers (durations in nanoseconds), strings, lists, pairs *)
Inductive tv :=
| TZ (z : Z)
| TS (s : string)
| TL (l : list tv)
| TP (a b : tv).

Fixpoint tv_eqb (a b : tv) : bool :=
  match a, b with
  | TZ x, TZ y => Z.eqb x y
  | TS x, TS y => String.eqb x y
  | TP a1 a2, TP b1 b2 => tv_eqb a1 b1 && tv_eqb a2 b2
  | TL x, TL y =>
      (fix go (x y : list tv) : bool :=
         match x, y with
         | [], [] => true
         | h :: t, h' :: t' => tv_eqb h h' && go t t'
         | _, _ => false
         end) x y
  | _, _ => false
  end.

Definition tv_mem (x : tv) (l : list tv) : bool := existsb (tv_eqb x) l.

(* equality of two lists as sets without repetition: same length and mutual inclusion *)
Definition tv_set_eqb (a b : list tv) : bool :=
  Nat.eqb (List.length a) (List.length b) && forallb (fun x => tv_mem x b) a && forallb (fun x => tv_mem x a) b.

(* ---- building the model's side of a comparison ---- *)

Definition string_of_bytes (l : list N) : string :=
  fold_right (fun b s => String (ascii_of_N b) s) EmptyString l.
Definition bytes_of_string (s : string) : list N :=
  map N_of_ascii (list_ascii_of_string s).

Definition tnat (n : nat) : tv := TZ (Z.of_nat n).
Definition tN (n : N) : tv := TZ (Z.of_N n).
Definition tbytes (l : list N) : tv := TS (string_of_bytes l).
Definition tstrs (l : list string) : tv := TL (map TS l).
Definition tpairs {A B} (f : A -> tv) (g : B -> tv) (l : list (A * B)) : list tv :=
  map (fun ab => TP (f (fst ab)) (g (snd ab))) l.

(* ---- tests ---- *)

(* the regenerated value equals the model's *)
Definition eqv (m : tv) : tv -> bool := tv_eqb m.
(* … equals it as a set (maps, switch tables: no order in the source) *)
Definition same_set (m : list tv) : tv -> bool :=
  fun v => match v with TL l => tv_set_eqb m l | _ => false end.
(* the regenerated value is a list of [n] pairs, each accepted by [f] (a model FUNCTION is
   compared with a source table by evaluating it on every key of the table) *)
Definition each_pair (n : nat) (f : tv -> tv -> bool) : tv -> bool :=
  fun v => match v with
           | TL l => Nat.eqb (List.length l) n
                     && forallb (fun p => match p with TP a b => f a b | _ => false end) l
           | _ => false
           end.
Definition on_Z (f : Z -> bool) : tv -> bool := fun v => match v with TZ z => f z | _ => false end.
Definition on_S (f : string -> bool) : tv -> bool := fun v => match v with TS s => f s | _ => false end.

(* a keyed item: one [TP key value] of a table whose model side is the list [m] … *)
Definition in_list (m : list tv) : tv -> bool := fun v => tv_mem v m.
(* … or a function evaluated on the key *)
Definition on_pair (f : tv -> tv -> bool) : tv -> bool :=
  fun v => match v with TP a b => f a b | _ => false end.
(* element [i] of an ordered list: [TP (TZ i) x] *)
Definition nth_of (m : list tv) : tv -> bool :=
  fun v => match v with
           | TP (TZ i) x => (0 <=? i)%Z && Nat.ltb (Z.to_nat i) (List.length m)
                            && tv_eqb (nth (Z.to_nat i) m (TZ 0)) x
           | _ => false
           end.

(* ---- cases and the checker ---- *)

Inductive case :=
| CTab (name : string) (v : tv)        (* item [name] regenerated from the source as [v] *)
| CNames (names : list string).        (* all items the harness regenerated in this run *)

(* An entry named "t[]" tests every item "t[<key>]" (one per key of a regenerated table, the
   value being the pair [TP key value]); the number of keys is the separate item "t[#]". *)
Definition entry : Type := string * (tv -> bool).

Definition table_of (n : string) : option string :=
  match index 0 "[" n with
  | Some i => Some (substring 0 i n ++ "[]")%string
  | None => None
  end.

Definition lookup (tab : list entry) (n : string) : option entry :=
  match find (fun e : entry => String.eqb (fst e) n) tab with
  | Some e => Some e
  | None => match table_of n with
            | Some t => find (fun e : entry => String.eqb (fst e) t) tab
            | None => None
            end
  end.

Definition check_tab (tab : list entry) (c : case) : Z :=
  match c with
  | CTab n v =>
      match lookup tab n with
      | Some e => if snd e v then 0%Z else 1%Z
      | None => 1%Z                       (* an item the model side does not know *)
      end
  | CNames ns =>
      (* every item of the model-side table was regenerated *)
      if forallb (fun e : entry =>
                    existsb (fun n => String.eqb (fst e) n
                                      || match table_of n with
                                         | Some t => String.eqb (fst e) t
                                         | None => false
                                         end) ns) tab
      then 0%Z else 1%Z
  end.

Definition run_tab (tab : list entry) (cs : list (Z * case)) : list (Z * Z) :=
  failures (check_tab tab) cs.
