(* Scripted io.Reader model: a reader is a script of read results; "for every chunking" is
   "for every script with the same data".  Definitions only (lemmas in ReaderFacts.v). *)
From Kit Require Export Lib.Base.

(* One script item = what the next call(s) to Read can return.
   [Data bs]    : bytes available without EOF; a read of [want] bytes returns min(want,|bs|)
                  of them with a nil error, the remainder stays at the head of the script;
   [Zero]       : one read returns (0, nil);
   [DataEOF bs] : like [Data bs] but the read that returns the last byte returns io.EOF with it;
   [Fail]       : the read returns (0, some non-EOF error), and so does every later read. *)
Inductive rd := Data (bs : list N) | Zero | DataEOF (bs : list N) | Fail.

(* Error classes: never error texts. *)
Inductive err := ENil | EEOF | EFail | ETooLarge | EClosedPipe | EWriter.

Definition err_eqb (a b : err) : bool :=
  match a, b with
  | ENil, ENil | EEOF, EEOF | EFail, EFail | ETooLarge, ETooLarge
  | EClosedPipe, EClosedPipe | EWriter, EWriter => true
  | _, _ => false
  end.

Record reader := mkReader { script : list rd; closes : nat }.

Definition with_script (r : reader) (s : list rd) : reader :=
  {| script := s; closes := closes r |}.

Definition close_reader (r : reader) : reader :=
  {| script := script r; closes := S (closes r) |}.

(* One call Read(p) with len(p) = want. *)
Definition read (want : nat) (r : reader) : list N * err * reader :=
  match want with
  | O => ([], ENil, r)
  | _ =>
    match script r with
    | [] => ([], EEOF, r)
    | Zero :: t => ([], ENil, with_script r t)
    | Fail :: _ => ([], EFail, r)
    | Data bs :: t =>
        if Nat.leb (length bs) want then (bs, ENil, with_script r t)
        else (firstn want bs, ENil, with_script r (Data (skipn want bs) :: t))
    | DataEOF bs :: t =>
        if Nat.leb (length bs) want then (bs, EEOF, with_script r [])
        else (firstn want bs, ENil, with_script r (DataEOF (skipn want bs) :: t))
    end
  end.

(* The bytes a script carries (up to its first EOF or failure). *)
Fixpoint data_of (s : list rd) : list N :=
  match s with
  | [] => []
  | Data bs :: t => bs ++ data_of t
  | Zero :: t => data_of t
  | DataEOF bs :: _ => bs
  | Fail :: _ => []
  end.

(* The script ends in EOF (no failure before it). *)
Fixpoint ends_eof (s : list rd) : bool :=
  match s with
  | [] => true
  | Data _ :: t | Zero :: t => ends_eof t
  | DataEOF _ :: _ => true
  | Fail :: _ => false
  end.

(* A bound on the number of reads (with want > 0) needed to reach EOF/failure. *)
Fixpoint script_fuel (s : list rd) : nat :=
  match s with
  | [] => 1
  | Data bs :: t => S (length bs) + script_fuel t
  | Zero :: t => S (script_fuel t)
  | DataEOF bs :: _ => S (S (length bs))
  | Fail :: _ => 1
  end.

(* A consumer: the list of buffer sizes of its successive Read calls, then [dflt] forever.
   [sizes_next] gives the size of the next call and the rest. *)
Record consumer := mkConsumer { csizes : list nat; cdflt : nat }.

Definition next_size (c : consumer) : nat * consumer :=
  match csizes c with
  | [] => (cdflt c, c)
  | n :: t => (n, {| csizes := t; cdflt := cdflt c |})
  end.

Definition consumer_pos (c : consumer) : Prop :=
  Forall (fun n => 0 < n) (csizes c) /\ 0 < cdflt c.

Definition consumer_posb (c : consumer) : bool :=
  forallb (fun n => Nat.ltb 0 n) (csizes c) && Nat.ltb 0 (cdflt c).

(* The generic read loop "for { n, err := r.Read(buf); out = append(out, buf[:n]...); if err != nil
   { return } }" over any stateful reader [rdf], on fuel.  Returns the bytes delivered, the final
   error ([None] = out of fuel, which theorems exclude) and the final reader state. *)
Fixpoint consume {S : Type} (rdf : nat -> S -> list N * err * S)
         (fuel : nat) (c : consumer) (s : S) (acc : list N) : list N * option err * S :=
  match fuel with
  | O => (acc, None, s)
  | Datatypes.S fuel' =>
      let '(want, c') := next_size c in
      let '(bs, e, s') := rdf want s in
      match e with
      | ENil => consume rdf fuel' c' s' (acc ++ bs)
      | _ => (acc ++ bs, Some e, s')
      end
  end.
