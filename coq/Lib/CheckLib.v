(* Generic driver for correspondence shards: run a per-case checker over indexed cases and
   return the (index, verdict) pairs whose verdict is not 0. *)
From Coq Require Import List ZArith.
Import ListNotations.

Definition failures {C : Type} (chk : C -> Z) (cs : list (Z * C)) : list (Z * Z) :=
  flat_map (fun ic : Z * C => let r := chk (snd ic) in
                              if (r =? 0)%Z then [] else [(fst ic, r)]) cs.
