(* Generic facts about the scripted reader model of Lib/Reader.v: what one [read] does to the
   script, and a loop rule (invariant + measure) for [consume] over any stateful reader. *)
From Kit Require Export Lib.Reader.

Lemma script_fuel_pos s : 0 < script_fuel s.
Proof. destruct s as [|[bs| |bs|] t]; cbn [script_fuel]; lia. Qed.

Lemma err_eqb_spec a b : err_eqb a b = true <-> a = b.
Proof. destruct a, b; cbn [err_eqb]; split; intro H; try reflexivity; discriminate H. Qed.

(* [firstn] of exactly the length of the left operand. *)
Lemma firstn_exact {A} (a b : list A) k : length a = k -> firstn k (a ++ b) = a.
Proof.
  intros <-. rewrite firstn_app, Nat.sub_diag, firstn_all. cbn [firstn]. apply app_nil_r.
Qed.

(* One call of [read] with a non-empty buffer. *)
Lemma read_step want r bs e r' :
  0 < want -> read want r = (bs, e, r') ->
  data_of (script r) = bs ++ data_of (script r') /\
  closes r' = closes r /\
  length bs <= want /\
  match e with
  | ENil => ends_eof (script r') = ends_eof (script r) /\
            script_fuel (script r') < script_fuel (script r)
  | EEOF => data_of (script r') = [] /\ ends_eof (script r) = true
  | EFail => bs = [] /\ data_of (script r) = [] /\ ends_eof (script r) = false /\ r' = r
  | _ => False
  end.
Proof.
  intros Hw Hr. unfold read in Hr.
  destruct want as [|w]; [lia|]. remember (S w) as want eqn:Hwant. clear Hwant w.
  destruct (script r) as [|[d| |d|] t] eqn:Hs.
  - (* [] *)
    injection Hr as <- <- <-. rewrite Hs. cbn [data_of ends_eof app length]. repeat split; lia.
  - (* Data d *)
    destruct (Nat.leb (length d) want) eqn:Hle.
    + apply Nat.leb_le in Hle. injection Hr as <- <- <-.
      cbn [with_script script closes data_of ends_eof script_fuel]. repeat split; lia.
    + apply Nat.leb_gt in Hle. injection Hr as <- <- <-.
      cbn [with_script script closes data_of ends_eof script_fuel].
      rewrite app_assoc, firstn_skipn, skipn_length.
      repeat split; try lia. apply firstn_le_length.
  - (* Zero *)
    injection Hr as <- <- <-.
    cbn [with_script script closes data_of ends_eof script_fuel app length]. repeat split; lia.
  - (* DataEOF d *)
    destruct (Nat.leb (length d) want) eqn:Hle.
    + apply Nat.leb_le in Hle. injection Hr as <- <- <-.
      cbn [with_script script closes data_of ends_eof]. rewrite app_nil_r. repeat split; lia.
    + apply Nat.leb_gt in Hle. injection Hr as <- <- <-.
      cbn [with_script script closes data_of ends_eof script_fuel].
      rewrite firstn_skipn, skipn_length.
      repeat split; try lia. apply firstn_le_length.
  - (* Fail *)
    injection Hr as <- <- <-. rewrite Hs. cbn [data_of ends_eof app length]. repeat split; lia.
Qed.

Lemma next_size_pos c want c' :
  consumer_pos c -> next_size c = (want, c') -> 0 < want /\ consumer_pos c'.
Proof.
  intros [Hs Hd] Hn. unfold next_size in Hn.
  destruct (csizes c) as [|n t] eqn:Hc.
  - injection Hn as <- <-. split; [exact Hd|]. split; [rewrite Hc; constructor | exact Hd].
  - injection Hn as <- <-. inversion Hs as [|x l Hx Hl]; subst.
    split; [exact Hx|]. split; cbn [csizes cdflt]; assumption.
Qed.

(* Loop rule for [consume]: an invariant on (state, bytes so far), a measure that every
   nil-error read decreases, and a postcondition established by every non-nil read. *)
Lemma consume_rule {St : Type} (rdf : nat -> St -> list N * err * St)
      (Inv : St -> list N -> Prop) (mu : St -> nat) (Post : list N -> err -> St -> Prop) :
  (forall want s acc bs e s', 0 < want -> Inv s acc -> rdf want s = (bs, e, s') ->
     match e with
     | ENil => Inv s' (acc ++ bs) /\ mu s' < mu s
     | _ => Post (acc ++ bs) e s'
     end) ->
  forall fuel c s acc, consumer_pos c -> Inv s acc -> mu s < fuel ->
  exists out e s', consume rdf fuel c s acc = (out, Some e, s') /\ Post out e s'.
Proof.
  intros Hstep. induction fuel as [|fuel IH]; intros c s acc Hc Hinv Hmu; [lia|].
  cbn [consume].
  destruct (next_size c) as [want c'] eqn:Hn.
  destruct (next_size_pos _ _ _ Hc Hn) as [Hw Hc'].
  destruct (rdf want s) as [[bs e] s'] eqn:Hr.
  specialize (Hstep want s acc bs e s' Hw Hinv Hr).
  destruct e;
    try (exists (acc ++ bs); eexists; exists s'; split; [reflexivity | exact Hstep]).
  destruct Hstep as [Hinv' Hmu']. apply IH; [exact Hc' | exact Hinv' | lia].
Qed.
