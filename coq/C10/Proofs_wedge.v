(* C10 — departures never wedge the batcher; Close is clean.

   * [Inv]: bookkeeping invariant of every reachable state (both variants).
   * [no_wedge] (Fixed): a state in which no internal event is enabled is either AT REST (lock free,
     no callback in progress, no Subscribe or Close call pending) or a delivery is blocked on a
     subscriber that is still subscribed, whose context has NOT ended, whose buffer is full and
     whose consumer is not reading (back-pressure of a live subscriber: the only excuse).
   * [internal_decreases] (both): every internal event strictly decreases [measure], so from any
     state internal activity stops after at most [measure s] steps: pending calls complete
     without further help from the environment unless a live stalled subscriber holds them up.
   * [wedge_refuted] (Original): a schedule that ends in a state from which NO continuation, by
     anyone, ever lets Close return or the lock be released.
   * [close_clean], [close_frozen]: after Close has returned.                                   *)
From Kit Require Import C10.Model.
From Coq Require Import Lia.

(* ---------------------------------------------------------------------------------------- *)
(* lists *)

Lemma nth_error_upd_nth_eq {A} i (x : A) l b :
  nth_error l i = Some b -> nth_error (upd_nth i x l) i = Some x.
Proof.
  revert i; induction l as [|h t IH]; intros [|i] H; cbn in *; try discriminate; auto.
Qed.

Lemma nth_error_upd_nth_ne {A} i j (x : A) l :
  i <> j -> nth_error (upd_nth i x l) j = nth_error l j.
Proof.
  revert i j; induction l as [|h t IH]; intros [|i] [|j] H; cbn; auto; try congruence.
Qed.

Lemma length_upd_nth {A} i (x : A) l : length (upd_nth i x l) = length l.
Proof. revert i; induction l as [|h t IH]; intros [|i]; cbn; auto. Qed.

Lemma Forall_upd_nth {A} (P : A -> Prop) i x l :
  Forall P l -> P x -> Forall P (upd_nth i x l).
Proof.
  revert i; induction l as [|h t IH]; intros [|i] HF Hx; cbn; auto;
    inversion HF; subst; constructor; auto.
Qed.

Lemma Forall_nth_error {A} (P : A -> Prop) l i b :
  Forall P l -> nth_error l i = Some b -> P b.
Proof. intros HF H. apply nth_error_In in H. rewrite Forall_forall in HF. auto. Qed.

Lemma with_sub_inv s i g s' :
  with_sub s i g = Some s' ->
  exists b b', nth_error (subs s) i = Some b /\ g b = Some b' /\
               s' = set_subs s (upd_nth i b' (subs s)).
Proof.
  unfold with_sub. destruct (nth_error (subs s) i) as [b|]; [|discriminate].
  destruct (g b) as [b'|] eqn:Hg; [|discriminate]. intros H; inversion H. eauto.
Qed.

(* ---------------------------------------------------------------------------------------- *)
(* the invariant *)

Definition sub_ok (vr : variant) (b : sub) : Prop :=
  (fwd b = ExitWantLock -> is_fixed vr = true -> exit_closed b = true) /\
  (fwd b = Exited -> registered b = false) /\
  (fwd b = Exited -> accepted b = true -> user_closed b = true).

Lemma In_upd_nth {A} j (y : A) l x : In x (upd_nth j y l) -> x = y \/ In x l.
Proof.
  revert j; induction l as [|h t IH]; intros [|j] H; cbn in *; auto.
  - destruct H as [H|H]; auto.
  - destruct H as [H|H]; auto. destruct (IH _ H); auto.
Qed.

Lemma In_upd_nth_keep {A} j (y z : A) l x :
  In x l -> nth_error l j = Some z -> x <> z -> In x (upd_nth j y l).
Proof.
  revert j; induction l as [|h t IH]; intros [|j] Hin Hn Hne; cbn in *; try discriminate.
  - inversion Hn; subst. destruct Hin as [H|H]; [congruence|auto].
  - destruct Hin as [H|H]; [left; exact H|right; eapply IH; eauto].
Qed.

(* a Close call — the first or a later one — has returned *)
Definition any_returned (s : st) : Prop :=
  cl s = CReturned \/ exists id, In (id, K2Returned) (cl2 s).
Definition all_exited (s : st) : Prop := Forall (fun b => fwd b = Exited) (subs s).
Definition k2_locked (c : close2pc) : bool :=
  match c with K2WaitFwd | K2Returned => true | _ => false end.

(* control part: flags and program counters *)
Record Ctl (s : st) : Prop := {
  c_closed1 : cl s = CWaitFwd \/ cl s = CReturned -> closed s = true;
  c_closed2 : forall id c, In (id, c) (cl2 s) -> k2_locked c = true -> closed s = true;
  c_cdead : closed s = true -> loop_dead s = true;
  c_dead : loop_dead s = true <-> (cl s = CWantLock \/ cl s = CWaitFwd \/ cl s = CReturned);
  c_dead2 : forall id c, In (id, c) (cl2 s) -> c <> K2WaitLoop -> loop_dead s = true;
  c_stop : cl s <> CNone -> qstopped s = true;
  c_idle : loop_dead s = true -> proc s = PIdle;
  c_lock : forall v idx, lock s = Exec v idx -> proc s = PCall v;
  c_cl2 : cl s = CNone -> cl2 s = []
}.

Record Inv (vr : variant) (s : st) : Prop := {
  i_ctl : Ctl s;
  i_subs : Forall (sub_ok vr) (subs s);
  i_ret : any_returned s -> all_exited s
}.

Lemma Ctl_frame s s' :
  cl s' = cl s -> cl2 s' = cl2 s -> closed s' = closed s -> loop_dead s' = loop_dead s ->
  qstopped s' = qstopped s -> proc s' = proc s -> lock s' = lock s -> Ctl s -> Ctl s'.
Proof.
  intros E1 E2 E3 E4 E5 E6 E7 [H1 H2 H3 H4 H5 H6 H7 H8 H9].
  constructor; rewrite ?E1, ?E2, ?E3, ?E4, ?E5, ?E6, ?E7; auto.
Qed.

Lemma returned_closed s : Ctl s -> any_returned s -> closed s = true.
Proof.
  intros HC [H|[id H]].
  - apply (c_closed1 _ HC); auto.
  - apply (c_closed2 _ HC id K2Returned); auto.
Qed.

Lemma inv_init vr : Inv vr init.
Proof.
  constructor; [constructor|constructor|]; cbn; try tauto; try discriminate.
  - intros H; destruct H; discriminate.
  - split; [discriminate|]. intros [H|[H|H]]; discriminate.
  - intros [H|[id []]]. discriminate.
Qed.

(* events that only rewrite one subscriber record *)
Lemma inv_with_sub vr s i g s' :
  Inv vr s -> with_sub s i g = Some s' ->
  (forall b b', nth_error (subs s) i = Some b -> g b = Some b' -> sub_ok vr b ->
     sub_ok vr b' /\ (fwd b = Exited -> fwd b' = Exited)) ->
  Inv vr s'.
Proof.
  intros [HC HS HR] Hw Hg.
  apply with_sub_inv in Hw as (b & b' & Hn & Hgb & ->).
  destruct (Hg b b' Hn Hgb (Forall_nth_error _ _ _ _ HS Hn)) as [Hok Hex].
  constructor.
  - eapply Ctl_frame; [..|exact HC]; reflexivity.
  - cbn. apply Forall_upd_nth; auto.
  - intros Hc. specialize (HR Hc). unfold all_exited in *. cbn.
    apply Forall_upd_nth; [exact HR|]. apply Hex. exact (Forall_nth_error _ _ _ _ HR Hn).
Qed.

Ltac inv_some :=
  cbv beta in *; match goal with H : Some _ = Some _ |- _ => inversion H; subst; clear H end.

(* events that leave subscribers and all Close program counters alone *)
Lemma inv_same_subs vr s s' :
  Inv vr s -> subs s' = subs s -> cl s' = cl s -> cl2 s' = cl2 s -> Ctl s' -> Inv vr s'.
Proof.
  intros [HC HS HR] E1 E2 E3 HC'. constructor; auto.
  - rewrite E1; auto.
  - unfold any_returned, all_exited. rewrite E1, E2, E3. exact HR.
Qed.

Lemma inv_step vr iv s e s' : Inv vr s -> step vr iv s e = Some s' -> Inv vr s'.
Proof.
  intros HI Hs. pose proof (i_ctl _ _ HI) as HC. destruct e; unfold step in Hs.
  - (* Batch *)
    destruct (qstopped s) eqn:Hq; inv_some; auto.
    eapply inv_same_subs; eauto. eapply Ctl_frame; [..|exact HC]; reflexivity.
  - (* Advance *)
    destruct (d <? 0)%Z; [discriminate|]. inv_some.
    eapply inv_same_subs; eauto. eapply Ctl_frame; [..|exact HC]; reflexivity.
  - (* SubscribeCall *)
    inv_some. eapply inv_same_subs; eauto. eapply Ctl_frame; [..|exact HC]; reflexivity.
  - (* CancelPending *)
    destruct (nth_error (pend_subs s) j) as [[id [p c]]|]; try discriminate. inv_some.
    eapply inv_same_subs; eauto. eapply Ctl_frame; [..|exact HC]; reflexivity.
  - (* Cancel *) eapply inv_with_sub; eauto. intros b b' _ Hg Hok; cbv beta in Hg. inv_some.
    unfold sub_ok in *; cbn; tauto.
  - (* Want *) eapply inv_with_sub; eauto. intros b b' _ Hg Hok; cbv beta in Hg. inv_some.
    unfold sub_ok in *; cbn; tauto.
  - (* WantAll *) eapply inv_with_sub; eauto. intros b b' _ Hg Hok; cbv beta in Hg. inv_some.
    unfold sub_ok in *; cbn; tauto.
  - (* CloseCall *)
    destruct (cl s) eqn:Hcl; try discriminate. inv_some.
    destruct HI as [_ HS HR]. destruct HC as [H1 H2 H3 H4 H5 H6 H7 H8 H9].
    assert (E2 : cl2 s = []) by auto.
    constructor; [constructor|exact HS|]; cbn; rewrite ?E2; auto.
    + intros [H|H]; discriminate.
    + rewrite H4, Hcl. split; intros [H|[H|H]]; discriminate.
    + intros [H|[id H]]; [discriminate|]. cbn in H. rewrite E2 in H. destruct H.
  - (* Pop *)
    destruct (proc s) eqn:Hp; try discriminate.
    destruct (loop_dead s) eqn:Hld; try discriminate.
    destruct (plookup k (pending s)) as [p|]; try discriminate.
    destruct (_ && _); try discriminate. inv_some.
    eapply inv_same_subs; eauto.
    destruct HC as [H1 H2 H3 H4 H5 H6 H7 H8 H9]. constructor; cbn; auto.
    + rewrite Hld. discriminate.
    + intros v idx Hl. specialize (H8 v idx Hl). congruence.
  - (* ExecBegin *)
    destruct (proc s) eqn:Hp; try discriminate.
    destruct (lock s) eqn:Hl; try discriminate.
    destruct (closed s) eqn:Hc; inv_some; (eapply inv_same_subs; eauto);
      destruct HC as [H1 H2 H3 H4 H5 H6 H7 H8 H9]; constructor; cbn; auto.
    + intros v0 idx H; congruence.
    + intros v0 idx H; inversion H; subst; auto.
  - (* ExecSend *)
    destruct (lock s) as [|v idx] eqn:Hl; try discriminate.
    destruct (nth_error (subs s) idx) as [b|] eqn:Hn; try discriminate.
    destruct (_ && _); try discriminate. inv_some.
    destruct HI as [_ HS HR]. pose proof (Forall_nth_error _ _ _ _ HS Hn) as Hok.
    constructor.
    + destruct HC as [H1 H2 H3 H4 H5 H6 H7 H8 H9]. constructor; cbn; auto.
      intros v0 idx0 H; inversion H; subst; eauto.
    + cbn. apply Forall_upd_nth; auto; unfold sub_ok in *; cbn; tauto.
    + intros Hc. specialize (HR Hc). unfold all_exited in *. cbn.
      apply Forall_upd_nth; [exact HR|]. cbn. exact (Forall_nth_error _ _ _ _ HR Hn).
  - (* ExecSkip *)
    destruct (lock s) as [|v idx] eqn:Hl; try discriminate.
    destruct (nth_error (subs s) idx) as [b|] eqn:Hn; try discriminate.
    destruct (_ && _); try discriminate. inv_some.
    destruct HI as [_ HS HR]. pose proof (Forall_nth_error _ _ _ _ HS Hn) as Hok.
    constructor.
    + destruct HC as [H1 H2 H3 H4 H5 H6 H7 H8 H9]. constructor; cbn; auto.
      intros v0 idx0 H; inversion H; subst; eauto.
    + cbn. apply Forall_upd_nth; auto; unfold sub_ok in *; cbn; tauto.
    + intros Hc. specialize (HR Hc). unfold all_exited in *. cbn.
      apply Forall_upd_nth; [exact HR|]. cbn. exact (Forall_nth_error _ _ _ _ HR Hn).
  - (* ExecPass *)
    destruct (lock s) as [|v idx] eqn:Hl; try discriminate.
    destruct (nth_error (subs s) idx) as [b|] eqn:Hn; try discriminate.
    destruct (registered b); try discriminate. inv_some.
    eapply inv_same_subs; eauto.
    destruct HC as [H1 H2 H3 H4 H5 H6 H7 H8 H9]. constructor; cbn; auto.
    intros v0 idx0 H; inversion H; subst; eauto.
  - (* ExecEnd *)
    destruct (lock s) as [|v idx] eqn:Hl; try discriminate.
    destruct (nth_error (subs s) idx) as [b|] eqn:Hn; try discriminate. inv_some.
    eapply inv_same_subs; eauto.
    destruct HC as [H1 H2 H3 H4 H5 H6 H7 H8 H9]. constructor; cbn; auto.
    intros v0 idx0 H; discriminate.
  - (* FwdTake *) eapply inv_with_sub; eauto. intros b b' _ Hg Hok; cbv beta in Hg.
    destruct (fwd b) eqn:Hf; try discriminate. destruct (buf b); try discriminate. inv_some.
    unfold sub_ok in *; cbn. repeat split; intros; discriminate.
  - (* FwdDeliver *) eapply inv_with_sub; eauto. intros b b' _ Hg Hok; cbv beta in Hg.
    destruct (fwd b) eqn:Hf; try discriminate. destruct (consumer_ready b); try discriminate.
    inv_some. unfold sub_ok in *; cbn. repeat split; intros; discriminate.
  - (* FwdDrop *) eapply inv_with_sub; eauto. intros b b' _ Hg Hok; cbv beta in Hg.
    destruct (fwd b) eqn:Hf; try discriminate. destruct (departing s b); try discriminate.
    inv_some. unfold sub_ok in *; cbn. repeat split; intros; discriminate.
  - (* FwdSeeDone *) eapply inv_with_sub; eauto. intros b b' _ Hg Hok; cbv beta in Hg.
    destruct (fwd b) eqn:Hf; try discriminate. destruct (departing s b); try discriminate.
    inv_some. unfold sub_ok in *; cbn. repeat split; intros; try discriminate; auto.
  - (* FwdExitLocked *)
    destruct (lock s) eqn:Hl; try discriminate.
    eapply inv_with_sub; eauto. intros b b' _ Hg Hok; cbv beta in Hg.
    destruct (fwd b) eqn:Hf; try discriminate. inv_some.
    unfold sub_ok in *; cbn. repeat split; intros; try discriminate; auto.
  - (* ConsSeeClosed *) eapply inv_with_sub; eauto. intros b b' _ Hg Hok; cbv beta in Hg.
    destruct (_ && _); try discriminate. inv_some. unfold sub_ok in *; cbn; tauto.
  - (* SubscribeLocked *)
    destruct (lock s) eqn:Hl; try discriminate.
    destruct (nth_error (pend_subs s) j) as [[id p]|]; try discriminate. inv_some.
    destruct HI as [_ HS HR]. constructor.
    + eapply Ctl_frame; [..|exact HC]; reflexivity.
    + cbn. apply Forall_app; split; auto. constructor; [|constructor].
      unfold mk_sub. destruct (closed s); unfold sub_ok; cbn; repeat split; intros; try discriminate; auto.
    + intros Hc. assert (Hc0 : any_returned s) by exact Hc.
      unfold all_exited. cbn. apply Forall_app; split; [exact (HR Hc0)|].
      constructor; [|constructor]. unfold mk_sub. rewrite (returned_closed _ HC Hc0). reflexivity.
  - (* CloseLoopDone *)
    destruct (cl s) eqn:Hcl; try discriminate. destruct (proc s) eqn:Hp; try discriminate.
    inv_some. destruct HI as [_ HS HR]. destruct HC as [H1 H2 H3 H4 H5 H6 H7 H8 H9].
    constructor; [constructor|exact HS|]; cbn; auto.
    + intros [H|H]; discriminate.
    + split; auto.
    + intros _. apply H6. congruence.
    + discriminate.
    + intros [H|H]; [discriminate|]. apply HR. right. exact H.
  - (* CloseLock *)
    destruct (cl s) eqn:Hcl; try discriminate. destruct (lock s) eqn:Hl; try discriminate.
    inv_some. destruct HI as [_ HS HR]. destruct HC as [H1 H2 H3 H4 H5 H6 H7 H8 H9].
    assert (Hd : loop_dead s = true) by (apply H4; auto).
    constructor; [constructor|exact HS|]; cbn; auto.
    + rewrite Hd. split; auto.
    + intros _. apply H6. congruence.
    + discriminate.
    + intros [H|H]; [discriminate|]. apply HR. right. exact H.
  - (* CloseWait *)
    destruct (cl s) eqn:Hcl; try discriminate.
    destruct (forallb _ _) eqn:Hall; try discriminate. inv_some.
    destruct HI as [_ HS HR]. destruct HC as [H1 H2 H3 H4 H5 H6 H7 H8 H9].
    assert (Hd : loop_dead s = true) by (apply H4; auto).
    constructor; [constructor|exact HS|]; cbn; auto.
    + rewrite Hd. split; auto.
    + intros _. apply H6. congruence.
    + discriminate.
    + intros _. rewrite forallb_forall in Hall. apply Forall_forall. intros b Hb.
      specialize (Hall b Hb). destruct (fwd b); try discriminate; auto.
  - (* Close2Call *)
    destruct (cl s) eqn:Hcl; try discriminate; inv_some;
      destruct HI as [_ HS HR]; destruct HC as [H1 H2 H3 H4 H5 H6 H7 H8 H9];
      (constructor; [constructor|exact HS|]; cbn; rewrite ?Hcl in *; auto;
       try (intros id0 c Hin; apply in_app_or in Hin as [Hin|[Hin|[]]];
            [eauto|inversion Hin; subst; cbn; intros; try discriminate; congruence]);
       try discriminate;
       try (intros [H|[id0 H]]; [apply HR; left; exact H|];
            apply in_app_or in H as [H|[H|[]]]; [apply HR; right; eauto|discriminate])).
  - (* Close2LoopDone *)
    destruct (nth_error (cl2 s) j) as [[id c]|] eqn:Hn; try discriminate.
    destruct c; try discriminate. destruct (loop_dead s) eqn:Hd; try discriminate. inv_some.
    destruct HI as [_ HS HR]. destruct HC as [H1 H2 H3 H4 H5 H6 H7 H8 H9].
    constructor; [constructor|exact HS|]; cbn; auto.
    + intros id0 c Hin. apply In_upd_nth in Hin as [Hin|Hin]; [inversion Hin; subst; discriminate|eauto].
    + intros Hc. specialize (H9 Hc). rewrite H9 in Hn. destruct j; discriminate.
    + intros [H|[id0 H]]; [apply HR; left; exact H|].
      apply In_upd_nth in H as [H|H]; [discriminate|]. apply HR; right; eauto.
  - (* Close2Lock *)
    destruct (nth_error (cl2 s) j) as [[id c]|] eqn:Hn; try discriminate.
    destruct c; try discriminate. destruct (lock s) eqn:Hl; try discriminate. inv_some.
    destruct HI as [_ HS HR]. destruct HC as [H1 H2 H3 H4 H5 H6 H7 H8 H9].
    assert (Hd : loop_dead s = true).
    { apply (H5 id K2WantLock); [eapply nth_error_In; eauto|discriminate]. }
    constructor; [constructor|exact HS|]; cbn; auto.
    + intros Hc. specialize (H9 Hc). rewrite H9 in Hn. destruct j; discriminate.
    + intros [H|[id0 H]]; [apply HR; left; exact H|].
      apply In_upd_nth in H as [H|H]; [discriminate|]. apply HR; right; eauto.
  - (* Close2Wait *)
    destruct (nth_error (cl2 s) j) as [[id c]|] eqn:Hn; try discriminate.
    destruct c; try discriminate.
    destruct (forallb _ _) eqn:Hall; try discriminate. inv_some.
    destruct HI as [_ HS HR]. destruct HC as [H1 H2 H3 H4 H5 H6 H7 H8 H9].
    pose proof (nth_error_In _ _ Hn) as Hin0.
    constructor; [constructor|exact HS|]; cbn; auto.
    + intros id0 c Hin _. apply (H2 id K2WaitFwd); auto.
    + intros id0 c Hin _. apply (H5 id K2WaitFwd); auto. discriminate.
    + intros Hc. specialize (H9 Hc). rewrite H9 in Hn. destruct j; discriminate.
    + intros _. rewrite forallb_forall in Hall. apply Forall_forall. intros b Hb.
      specialize (Hall b Hb). destruct (fwd b); try discriminate; auto.
Qed.

Lemma inv_reachable vr iv s : reachable vr iv s -> Inv vr s.
Proof. induction 1; eauto using inv_init, inv_step. Qed.

Lemma inv_run vr iv s es s' : Inv vr s -> run vr iv s es = Some s' -> Inv vr s'.
Proof.
  revert s; induction es as [|e r IH]; cbn; intros s HI H.
  - inversion H; subst; auto.
  - destruct (step vr iv s e) eqn:Hs; [|discriminate]. eauto using inv_step.
Qed.

Lemma reachable_run vr iv s es s' :
  reachable vr iv s -> run vr iv s es = Some s' -> reachable vr iv s'.
Proof.
  revert s; induction es as [|e r IH]; cbn; intros s HR H.
  - inversion H; subst; auto.
  - destruct (step vr iv s e) as [s0|] eqn:Hs; [|discriminate]. apply (IH s0); auto.
    econstructor; eauto.
Qed.

(* ---------------------------------------------------------------------------------------- *)
(* no wedge (Fixed): what a state with no enabled internal event looks like *)

(* nothing in progress: lock free, no callback running, no Subscribe or Close call pending *)
Definition at_rest (s : st) : Prop :=
  lock s = Free /\ proc s = PIdle /\ pend_subs s = [] /\ (cl s = CNone \/ cl s = CReturned) /\
  (forall id c, In (id, c) (cl2 s) -> c = K2Returned).

(* a fan-out is blocked on subscriber [idx], which is still subscribed, whose context has NOT
   ended (and the batcher is not closed), whose buffer is full, whose forwarder is blocked handing
   a value to a consumer that is not receiving: back-pressure from a live subscriber *)
Definition blocked_on_live (s : st) : Prop :=
  exists v idx b w,
    lock s = Exec v idx /\ nth_error (subs s) idx = Some b /\ registered b = true /\
    ctx_done b = false /\ closed s = false /\ exit_closed b = false /\
    (bufcap <= length (buf b))%nat /\ fwd b = Holding w /\ consumer_ready b = false.

Lemma with_sub_none s i g b :
  with_sub s i g = None -> nth_error (subs s) i = Some b -> g b = None.
Proof.
  unfold with_sub. intros H Hn. rewrite Hn in H. destruct (g b); [discriminate|reflexivity].
Qed.

Theorem no_wedge : forall iv s,
  reachable Fixed iv s -> stuck Fixed iv s -> at_rest s \/ blocked_on_live s.
Proof.
  intros iv s HR Hst. pose proof (inv_reachable _ _ _ HR) as [HCtl HS HRet].
  destruct (lock s) as [|v idx] eqn:Hl.
  - (* lock free *) left.
    assert (Hps : pend_subs s = []).
    { destruct (pend_subs s) as [|[id p] r] eqn:Hp; auto.
      pose proof (Hst (SubscribeLocked 0) eq_refl) as H. unfold step in H.
      rewrite Hl, Hp in H. cbn in H. discriminate. }
    assert (Hpr : proc s = PIdle).
    { destruct (proc s) as [|v] eqn:Hp; auto.
      pose proof (Hst ExecBegin eq_refl) as H. unfold step in H. rewrite Hp, Hl in H.
      destruct (closed s); discriminate. }
    (* once the batcher is closed and the lock is free, every forwarder gets out *)
    assert (Hout : closed s = true -> forallb (fun b => is_exited (fwd b)) (subs s) = true).
    { intros Hc. apply forallb_forall.
      intros b Hb. apply In_nth_error in Hb as [i Hi].
      destruct (fwd b) as [|w| |] eqn:Hf; auto; exfalso.
      * pose proof (Hst (FwdSeeDone i) eq_refl) as H. unfold step in H.
        eapply with_sub_none in H; eauto. cbv beta in H. rewrite Hf in H.
        unfold departing in H. rewrite Hc, Bool.orb_true_r in H. discriminate.
      * pose proof (Hst (FwdDrop i) eq_refl) as H. unfold step in H.
        eapply with_sub_none in H; eauto. cbv beta in H. rewrite Hf in H.
        unfold departing in H. rewrite Hc, Bool.orb_true_r in H. discriminate.
      * pose proof (Hst (FwdExitLocked i) eq_refl) as H. unfold step in H. rewrite Hl in H.
        eapply with_sub_none in H; eauto. cbv beta in H. rewrite Hf in H. discriminate. }
    assert (Hcl1 : cl s = CNone \/ cl s = CReturned).
    { destruct (cl s) eqn:Hcl; auto; exfalso.
      + pose proof (Hst CloseLoopDone eq_refl) as H. unfold step in H. rewrite Hcl, Hpr in H.
        discriminate.
      + pose proof (Hst CloseLock eq_refl) as H. unfold step in H. rewrite Hcl, Hl in H.
        discriminate.
      + assert (Hc : closed s = true) by (apply (c_closed1 _ HCtl); auto).
        pose proof (Hst CloseWait eq_refl) as H. unfold step in H. rewrite Hcl, (Hout Hc) in H.
        discriminate. }
    repeat split; auto.
    (* the further Close calls *)
    intros id c Hin. apply In_nth_error in Hin as [j Hj].
    destruct c; auto; exfalso.
    + assert (Hd : loop_dead s = true).
      { apply (c_dead _ HCtl). destruct Hcl1 as [Hn|Hr]; auto.
        rewrite (c_cl2 _ HCtl Hn) in Hj. destruct j; discriminate. }
      pose proof (Hst (Close2LoopDone j) eq_refl) as H. unfold step in H. rewrite Hj, Hd in H.
      discriminate.
    + pose proof (Hst (Close2Lock j) eq_refl) as H. unfold step in H. rewrite Hj, Hl in H.
      discriminate.
    + assert (Hc : closed s = true).
      { apply (c_closed2 _ HCtl id K2WaitFwd); auto. eapply nth_error_In; eauto. }
      pose proof (Hst (Close2Wait j) eq_refl) as H. unfold step in H. rewrite Hj, (Hout Hc) in H.
      discriminate.
  - (* a fan-out holds the lock *) right.
    destruct (nth_error (subs s) idx) as [b|] eqn:Hn.
    2:{ pose proof (Hst ExecEnd eq_refl) as H. unfold step in H. rewrite Hl, Hn in H.
        discriminate. }
    pose proof (Forall_nth_error _ _ _ _ HS Hn) as (Hok1 & Hok2 & _).
    destruct (registered b) eqn:Hreg.
    2:{ pose proof (Hst ExecPass eq_refl) as H. unfold step in H. rewrite Hl, Hn, Hreg in H.
        discriminate. }
    pose proof (Hst ExecSend eq_refl) as Hsend. unfold step in Hsend.
    rewrite Hl, Hn, Hreg in Hsend. cbn [andb] in Hsend.
    destruct (length (buf b) <? bufcap)%nat eqn:Hfull; [discriminate|]. clear Hsend.
    apply Nat.ltb_ge in Hfull.
    pose proof (Hst ExecSkip eq_refl) as Hskip. unfold step in Hskip.
    rewrite Hl, Hn, Hreg in Hskip. cbn [andb is_fixed] in Hskip.
    destruct (closed s) eqn:Hc; [discriminate|].
    destruct (exit_closed b) eqn:Hec; [discriminate|]. clear Hskip.
    assert (Hctx : ctx_done b = false).
    { destruct (ctx_done b) eqn:Hcd; auto. exfalso.
      destruct (fwd b) as [|w| |] eqn:Hf.
      - pose proof (Hst (FwdSeeDone idx) eq_refl) as H. unfold step in H.
        eapply with_sub_none in H; eauto. cbv beta in H. rewrite Hf in H.
        unfold departing in H. rewrite Hcd in H. discriminate.
      - pose proof (Hst (FwdDrop idx) eq_refl) as H. unfold step in H.
        eapply with_sub_none in H; eauto. cbv beta in H. rewrite Hf in H.
        unfold departing in H. rewrite Hcd in H. discriminate.
      - specialize (Hok1 eq_refl eq_refl). congruence.
      - specialize (Hok2 eq_refl). congruence. }
    destruct (fwd b) as [|w| |] eqn:Hf.
    + exfalso. pose proof (Hst (FwdTake idx) eq_refl) as H. unfold step in H.
      eapply with_sub_none in H; eauto. cbv beta in H. rewrite Hf in H.
      destruct (buf b) eqn:Hb; [|discriminate]. cbn in Hfull. unfold bufcap in Hfull. lia.
    + exists v, idx, b, w. repeat split; auto.
      destruct (consumer_ready b) eqn:Hcr; auto. exfalso.
      pose proof (Hst (FwdDeliver idx) eq_refl) as H. unfold step in H.
      eapply with_sub_none in H; eauto. cbv beta in H. rewrite Hf, Hcr in H. discriminate.
    + specialize (Hok1 eq_refl eq_refl). congruence.
    + specialize (Hok2 eq_refl). congruence.
Qed.

(* non-vacuity: a reachable stuck state of each kind exists (see [rest_example], [live_example]
   at the end of the file) *)

(* ---------------------------------------------------------------------------------------- *)
(* internal activity terminates: every internal event strictly decreases [measure] *)

Lemma list_sum_upd_nth {A} (f : A -> nat) i b b' l :
  nth_error l i = Some b ->
  (list_sum (map f (upd_nth i b' l)) + f b = list_sum (map f l) + f b')%nat.
Proof.
  unfold list_sum. revert i; induction l as [|h t IH]; intros [|i] H; cbn in *; try discriminate.
  - inversion H; subst. lia.
  - specialize (IH _ H). lia.
Qed.

Lemma length_remove_nth {A} j (l : list A) x :
  nth_error l j = Some x -> S (length (remove_nth j l)) = length l.
Proof.
  revert j; induction l as [|h t IH]; intros [|j] H; cbn in *; try discriminate; auto.
Qed.

Lemma premove_shorter k l p :
  plookup k l = Some p -> (length (premove k l) < length l)%nat.
Proof.
  unfold plookup, premove. induction l as [|[k0 p0] t IH]; cbn; [discriminate|].
  destruct (k0 =? k)%Z eqn:Hk; cbn.
  - intros _. clear IH. assert (length (filter (fun e => negb (fst e =? k)%Z) t) <= length t)%nat.
    { clear. induction t as [|a t IH]; cbn; auto. destruct (negb _); cbn; lia. }
    unfold lt. apply le_n_S. exact H.
  - intros H. specialize (IH H). unfold lt in *. apply le_n_S. exact IH.
Qed.

Lemma measure_with_sub s i g s' :
  with_sub s i g = Some s' ->
  (forall b b', g b = Some b' -> (sub_cost b' < sub_cost b)%nat) ->
  (measure s' < measure s)%nat.
Proof.
  intros Hw Hg. apply with_sub_inv in Hw as (b & b' & Hn & Hgb & ->).
  specialize (Hg _ _ Hgb).
  pose proof (list_sum_upd_nth sub_cost i b b' (subs s) Hn) as Hsum.
  unfold measure, exec_cost, total_subs. cbn [pending subs lock proc pend_subs cl cl2 set_subs].
  rewrite length_upd_nth. lia.
Qed.

Theorem internal_decreases : forall vr iv s e s',
  internal e = true -> step vr iv s e = Some s' -> (measure s' < measure s)%nat.
Proof.
  intros vr iv s e s' Hint Hs. destruct e; try discriminate Hint; clear Hint; unfold step in Hs.
  - (* Pop *)
    destruct (proc s) eqn:Hp; try discriminate.
    destruct (loop_dead s); try discriminate.
    destruct (plookup k (pending s)) as [p|] eqn:Hlk; try discriminate.
    destruct (_ && _); try discriminate. inv_some.
    apply premove_shorter in Hlk.
    unfold measure, exec_cost, total_subs.
    cbn [pending subs lock proc pend_subs cl cl2 set_fired set_pending set_proc].
    rewrite Hp. set (T := (length (subs s) + length (pend_subs s))%nat).
    set (a' := length (premove k (pending s))) in *. set (a := length (pending s)) in *.
    assert ((a' + 1) * (3 * T + 3) <= a * (3 * T + 3))%nat by (apply Nat.mul_le_mono_r; lia).
    destruct (lock s); lia.
  - (* ExecBegin *)
    destruct (proc s) eqn:Hp; try discriminate.
    destruct (lock s) eqn:Hl; try discriminate.
    destruct (closed s); inv_some; unfold measure, exec_cost, total_subs;
      cbn [pending subs lock proc pend_subs cl cl2 set_proc set_fanout set_lock];
      rewrite ?Hp, ?Hl; lia.
  - (* ExecSend *)
    destruct (lock s) as [|v idx] eqn:Hl; try discriminate.
    destruct (nth_error (subs s) idx) as [b|] eqn:Hn; try discriminate.
    destruct (_ && _); try discriminate. inv_some.
    pose proof (list_sum_upd_nth sub_cost idx b (sb_buf b (buf b ++ [v])) (subs s) Hn) as Hsum.
    assert (Hlt : (idx < length (subs s))%nat) by (apply nth_error_Some; congruence).
    assert (Hc : sub_cost (sb_buf b (buf b ++ [v])) = (sub_cost b + 2)%nat).
    { unfold sub_cost. cbn [buf fwd closed_seen sb_buf]. rewrite app_length. cbn. lia. }
    unfold measure, exec_cost, total_subs.
    cbn [pending subs lock proc pend_subs cl cl2 set_subs set_lock].
    rewrite length_upd_nth, Hl. lia.
  - (* ExecSkip *)
    destruct (lock s) as [|v idx] eqn:Hl; try discriminate.
    destruct (nth_error (subs s) idx) as [b|] eqn:Hn; try discriminate.
    destruct (_ && _); try discriminate. inv_some.
    pose proof (list_sum_upd_nth sub_cost idx b (sb_gap b true) (subs s) Hn) as Hsum.
    assert (Hlt : (idx < length (subs s))%nat) by (apply nth_error_Some; congruence).
    assert (Hc : sub_cost (sb_gap b true) = sub_cost b) by reflexivity.
    unfold measure, exec_cost, total_subs.
    cbn [pending subs lock proc pend_subs cl cl2 set_subs set_lock].
    rewrite length_upd_nth, Hl. lia.
  - (* ExecPass *)
    destruct (lock s) as [|v idx] eqn:Hl; try discriminate.
    destruct (nth_error (subs s) idx) as [b|] eqn:Hn; try discriminate.
    destruct (registered b); try discriminate. inv_some.
    assert (Hlt : (idx < length (subs s))%nat) by (apply nth_error_Some; congruence).
    unfold measure, exec_cost, total_subs.
    cbn [pending subs lock proc pend_subs cl cl2 set_lock]. rewrite Hl. lia.
  - (* ExecEnd *)
    destruct (lock s) as [|v idx] eqn:Hl; try discriminate.
    destruct (nth_error (subs s) idx) as [b|] eqn:Hn; try discriminate. inv_some.
    unfold measure, exec_cost, total_subs.
    cbn [pending subs lock proc pend_subs cl cl2 set_lock set_proc]. rewrite Hl. lia.
  - (* FwdTake *) eapply measure_with_sub; eauto. intros b b' Hg; cbv beta in Hg.
    destruct (fwd b) eqn:Hf; try discriminate. destruct (buf b) eqn:Hb; try discriminate.
    inv_some. unfold sub_cost. cbn [buf fwd closed_seen sb_buf sb_fwd]. rewrite Hf, Hb. cbn. lia.
  - (* FwdDeliver *) eapply measure_with_sub; eauto. intros b b' Hg; cbv beta in Hg.
    destruct (fwd b) eqn:Hf; try discriminate. destruct (consumer_ready b); try discriminate.
    inv_some. unfold sub_cost. cbn [buf fwd closed_seen sb_fwd sb_received sb_wants].
    rewrite Hf. cbn. lia.
  - (* FwdDrop *) eapply measure_with_sub; eauto. intros b b' Hg; cbv beta in Hg.
    destruct (fwd b) eqn:Hf; try discriminate. destruct (departing s b); try discriminate.
    inv_some. unfold sub_cost. cbn [buf fwd closed_seen sb_fwd sb_gap]. rewrite Hf. cbn. lia.
  - (* FwdSeeDone *) eapply measure_with_sub; eauto. intros b b' Hg; cbv beta in Hg.
    destruct (fwd b) eqn:Hf; try discriminate. destruct (departing s b); try discriminate.
    inv_some. unfold sub_cost. cbn [buf fwd closed_seen sb_fwd sb_exit_closed]. rewrite Hf.
    cbn. lia.
  - (* FwdExitLocked *)
    destruct (lock s); try discriminate.
    eapply measure_with_sub; eauto. intros b b' Hg; cbv beta in Hg.
    destruct (fwd b) eqn:Hf; try discriminate. inv_some. unfold sub_cost.
    cbn [buf fwd closed_seen sb_fwd sb_user_closed sb_registered]. rewrite Hf. cbn. lia.
  - (* ConsSeeClosed *) eapply measure_with_sub; eauto. intros b b' Hg; cbv beta in Hg.
    destruct (user_closed b); cbn [andb] in Hg; try discriminate.
    destruct (closed_seen b) eqn:Hcs; cbn [andb negb] in Hg; try discriminate.
    destruct (consumer_ready b); try discriminate. inv_some. unfold sub_cost.
    cbn [buf fwd closed_seen sb_closed_seen]. rewrite Hcs. lia.
  - (* SubscribeLocked *)
    destruct (lock s) eqn:Hl; try discriminate.
    destruct (nth_error (pend_subs s) j) as [[id p]|] eqn:Hn; try discriminate. inv_some.
    apply length_remove_nth in Hn.
    unfold measure, exec_cost, total_subs.
    cbn [pending subs lock proc pend_subs cl cl2 set_subs set_pend_subs].
    rewrite Hl, map_app, list_sum_app, app_length. cbn [length map list_sum].
    assert (sub_cost (mk_sub (closed s) p (length (fanout s))) <= 3)%nat
      by (unfold mk_sub; destruct (closed s); cbn; lia).
    replace (length (subs s) + 1 + length (remove_nth j (pend_subs s)))%nat
      with (length (subs s) + length (pend_subs s))%nat by lia.
    unfold list_sum in *. cbn [fold_right].
    destruct (proc s); lia.
  - (* CloseLoopDone *)
    destruct (cl s) eqn:Hcl; try discriminate. destruct (proc s) eqn:Hp; try discriminate.
    inv_some. unfold measure, exec_cost, total_subs.
    cbn [pending subs lock proc pend_subs cl cl2 set_cl set_loop_dead]. rewrite Hcl, Hp. cbn. lia.
  - (* CloseLock *)
    destruct (cl s) eqn:Hcl; try discriminate. destruct (lock s) eqn:Hl; try discriminate.
    inv_some. unfold measure, exec_cost, total_subs.
    cbn [pending subs lock proc pend_subs cl cl2 set_cl set_closed]. rewrite Hcl, Hl. cbn. lia.
  - (* CloseWait *)
    destruct (cl s) eqn:Hcl; try discriminate. destruct (forallb _ _); try discriminate.
    inv_some. unfold measure, exec_cost, total_subs.
    cbn [pending subs lock proc pend_subs cl cl2 set_cl]. rewrite Hcl. cbn. lia.
  - (* Close2LoopDone *)
    destruct (nth_error (cl2 s) j) as [[id c]|] eqn:Hn; try discriminate.
    destruct c; try discriminate. destruct (loop_dead s); try discriminate. inv_some.
    pose proof (list_sum_upd_nth (fun e : Z * close2pc => close2_cost (snd e)) j _
                  (id, K2WantLock) (cl2 s) Hn) as Hsum. cbn [snd close2_cost] in Hsum.
    unfold measure, exec_cost, total_subs.
    cbn [pending subs lock proc pend_subs cl cl2 set_cl2]. lia.
  - (* Close2Lock *)
    destruct (nth_error (cl2 s) j) as [[id c]|] eqn:Hn; try discriminate.
    destruct c; try discriminate. destruct (lock s) eqn:Hl; try discriminate. inv_some.
    pose proof (list_sum_upd_nth (fun e : Z * close2pc => close2_cost (snd e)) j _
                  (id, K2WaitFwd) (cl2 s) Hn) as Hsum. cbn [snd close2_cost] in Hsum.
    unfold measure, exec_cost, total_subs.
    cbn [pending subs lock proc pend_subs cl cl2 set_cl2 set_closed]. rewrite Hl. lia.
  - (* Close2Wait *)
    destruct (nth_error (cl2 s) j) as [[id c]|] eqn:Hn; try discriminate.
    destruct c; try discriminate. destruct (forallb _ _); try discriminate. inv_some.
    pose proof (list_sum_upd_nth (fun e : Z * close2pc => close2_cost (snd e)) j _
                  (id, K2Returned) (cl2 s) Hn) as Hsum. cbn [snd close2_cost] in Hsum.
    unfold measure, exec_cost, total_subs.
    cbn [pending subs lock proc pend_subs cl cl2 set_cl2]. lia.
Qed.

(* ---------------------------------------------------------------------------------------- *)
(* the wedge on the code before the fix *)

(* execute holds the lock, blocked on the full buffer of a subscriber whose forwarder has left its
   loop and waits for that same lock; Close waits for the callback to end *)
Definition wedged (s : st) : Prop :=
  exists v idx b,
    lock s = Exec v idx /\ proc s = PCall v /\ nth_error (subs s) idx = Some b /\
    registered b = true /\ fwd b = ExitWantLock /\ (bufcap <= length (buf b))%nat /\
    closed s = false /\ cl s = CWaitLoop /\ loop_dead s = false.

Lemma with_sub_at s i g s' idx b :
  with_sub s i g = Some s' -> nth_error (subs s) idx = Some b ->
  exists x b2, s' = set_subs s x /\ nth_error x idx = Some b2 /\
               ((i <> idx /\ b2 = b) \/ (i = idx /\ g b = Some b2)).
Proof.
  intros Hw Hn. apply with_sub_inv in Hw as (b0 & b' & Hn0 & Hg & ->).
  destruct (Nat.eq_dec i idx) as [->|Hne].
  - exists (upd_nth idx b' (subs s)), b'. rewrite Hn in Hn0. inversion Hn0; subst.
    repeat split; auto. eapply nth_error_upd_nth_eq; eauto.
  - exists (upd_nth i b' (subs s)), b. repeat split; auto.
    rewrite nth_error_upd_nth_ne; auto.
Qed.

(* NO event — of the environment or of the batcher — leads out of a wedged state *)
Lemma wedged_step iv s e s' : wedged s -> step Original iv s e = Some s' -> wedged s'.
Proof.
  intros (v & idx & b & Hl & Hp & Hn & Hreg & Hf & Hfull & Hc & Hcl & Hld) Hs.
  assert (Hsub : forall i g, with_sub s i g = Some s' ->
            (forall b2, g b = Some b2 ->
               registered b2 = true /\ fwd b2 = ExitWantLock /\ buf b2 = buf b) ->
            wedged s').
  { intros i g Hw Hg. destruct (with_sub_at _ _ _ _ _ _ Hw Hn) as (x & b2 & -> & Hn2 & Hcase).
    destruct Hcase as [[_ ->]|[_ Hgb]].
    - exists v, idx, b. cbn. repeat split; auto.
    - destruct (Hg _ Hgb) as (H1 & H2 & H3). exists v, idx, b2. cbn. rewrite H3.
      repeat split; auto. }
  destruct e; unfold step in Hs;
    try (eapply Hsub; [exact Hs|]; intros b2 Hg; cbv beta in Hg; rewrite ?Hf in Hg;
         try discriminate; inversion Hg; subst; cbn; auto; fail).
  - (* Batch *) destruct (qstopped s); inv_some; [exists v, idx, b; repeat split; auto|].
    exists v, idx, b. cbn. repeat split; auto.
  - (* Advance *) destruct (d <? 0)%Z; [discriminate|]. inv_some.
    exists v, idx, b. cbn. repeat split; auto.
  - (* SubscribeCall *) inv_some. exists v, idx, b. cbn. repeat split; auto.
  - (* CancelPending *)
    destruct (nth_error (pend_subs s) j) as [[id [p c]]|]; try discriminate. inv_some.
    exists v, idx, b. cbn. repeat split; auto.
  - (* CloseCall *) rewrite Hcl in Hs. discriminate.
  - (* Pop *) rewrite Hp in Hs. discriminate.
  - (* ExecBegin *) rewrite Hp, Hl in Hs. discriminate.
  - (* ExecSend *) rewrite Hl, Hn, Hreg in Hs. cbn [andb] in Hs.
    apply Nat.ltb_ge in Hfull. rewrite Hfull in Hs. discriminate.
  - (* ExecSkip *) rewrite Hl, Hn, Hreg, Hc in Hs. cbn in Hs. discriminate.
  - (* ExecPass *) rewrite Hl, Hn, Hreg in Hs. discriminate.
  - (* ExecEnd *) rewrite Hl, Hn in Hs. discriminate.
  - (* FwdExitLocked *) rewrite Hl in Hs. discriminate.
  - (* ConsSeeClosed *) eapply Hsub; [exact Hs|]. intros b2 Hg; cbv beta in Hg.
    destruct (_ && _); [|discriminate]. inversion Hg; subst; cbn; auto.
  - (* SubscribeLocked *) rewrite Hl in Hs. discriminate.
  - (* CloseLoopDone *) rewrite Hcl, Hp in Hs. discriminate.
  - (* CloseLock *) rewrite Hcl in Hs. discriminate.
  - (* CloseWait *) rewrite Hcl in Hs. discriminate.
  - (* Close2Call: a further Close call just joins the wait *)
    rewrite Hcl in Hs. inv_some. exists v, idx, b. cbn. repeat split; auto.
  - (* Close2LoopDone *) rewrite Hld in Hs.
    destruct (nth_error (cl2 s) j) as [[id [| | |]]|]; discriminate.
  - (* Close2Lock *) rewrite Hl in Hs.
    destruct (nth_error (cl2 s) j) as [[id [| | |]]|]; discriminate.
  - (* Close2Wait *)
    destruct (nth_error (cl2 s) j) as [[id [| | |]]|]; try discriminate.
    destruct (forallb (fun b0 => is_exited (fwd b0)) (subs s)) eqn:Hall; [|discriminate].
    rewrite forallb_forall in Hall. specialize (Hall b (nth_error_In _ _ Hn)).
    rewrite Hf in Hall. discriminate.
Qed.

Lemma wedged_forever iv s es s' : wedged s -> run Original iv s es = Some s' -> wedged s'.
Proof.
  revert s; induction es as [|e r IH]; cbn; intros s Hw H.
  - inversion H; subst; auto.
  - destruct (step Original iv s e) as [s0|] eqn:Hs; [|discriminate].
    eauto using wedged_step.
Qed.

(* the schedule: the priority scheduler of Model.v, with the events it fires recorded *)
Fixpoint qtrace (fuel : nat) (vr : variant) (iv : Z) (s : st) : list ev * st :=
  match fuel with
  | O => ([], s)
  | S f => match first_enabled vr iv s with
           | Some e => match step vr iv s e with
                       | Some s1 => let '(t, s2) := qtrace f vr iv s1 in (e :: t, s2)
                       | None => ([], s)
                       end
           | None => ([], s)
           end
  end.

Fixpoint sched (vr : variant) (iv : Z) (s : st) (envs : list ev) : list ev :=
  match envs with
  | [] => []
  | e :: r => match step vr iv s e with
              | Some s1 => let '(t, s2) := qtrace (measure s1) vr iv s1 in
                           e :: t ++ sched vr iv s2 r
              | None => []
              end
  end.

(* Subscribe (consumer never reads); 52 values, one per interval: 51 are absorbed (1 held by the
   forwarder + 50 buffered), the 52nd delivery blocks; the subscriber's context ends; Close. *)
Definition wedge_env : list ev :=
  SubscribeCall 0%Z false false
  :: flat_map (fun n => [Batch 0%Z (Z.of_nat n); Advance 2%Z]) (seq 1 52) ++ [Cancel 0; CloseCall].

Definition wedge_es : list ev := Eval vm_compute in sched Original 2%Z init wedge_env.

Definition wedgedb (s : st) : bool :=
  match lock s, proc s with
  | Exec v idx, PCall v' =>
      (v =? v')%Z &&
      match nth_error (subs s) idx with
      | Some b => registered b && ctx_done b
                  && match fwd b with ExitWantLock => true | _ => false end
                  && (bufcap <=? length (buf b))%nat && negb (closed s)
                  && match cl s with CWaitLoop => true | _ => false end
                  && negb (loop_dead s)
      | None => false
      end
  | _, _ => false
  end.

Lemma wedgedb_sound s : wedgedb s = true -> wedged s.
Proof.
  unfold wedgedb, wedged. destruct (lock s) as [|v idx]; [discriminate|].
  destruct (proc s) as [|v']; [discriminate|].
  destruct (nth_error (subs s) idx) as [b|] eqn:Hn; [|rewrite Bool.andb_false_r; discriminate].
  intros H.
  destruct (Z.eqb_spec v v') as [->|]; [|discriminate]. cbn [andb] in H.
  destruct (registered b) eqn:Hreg; [|discriminate]. cbn [andb] in H.
  destruct (ctx_done b); [|discriminate]. cbn [andb] in H.
  destruct (fwd b) eqn:Hf; try discriminate. cbn [andb] in H.
  destruct (bufcap <=? length (buf b))%nat eqn:Hb; [|discriminate]. cbn [andb] in H.
  destruct (closed s) eqn:Hc; [discriminate|]. cbn [andb negb] in H.
  destruct (cl s) eqn:Hcl; try discriminate. cbn [andb] in H.
  destruct (loop_dead s) eqn:Hld; [discriminate|].
  exists v', idx, b. repeat split; auto; apply Nat.leb_le; auto.
Qed.

Lemma wedge_run : match run Original 2%Z init wedge_es with
                  | Some s => wedgedb s | None => false end = true.
Proof. vm_compute. reflexivity. Qed.

(* There is a schedule of the code before the fix after which Close has been called, the context
   of the only subscriber has ended, and — whatever happens next, for ever — Close has not
   returned and the batcher lock is held (so no delivery, no Subscribe can proceed). *)
Theorem wedge_refuted :
  exists es s, run Original 2%Z init es = Some s /\ reachable Original 2%Z s /\
    (forall b, In b (subs s) -> ctx_done b = true) /\
    forall es' s', run Original 2%Z s es' = Some s' -> cl s' = CWaitLoop /\ lock s' <> Free.
Proof.
  pose proof wedge_run as H.
  destruct (run Original 2%Z init wedge_es) as [s|] eqn:Hr; [|discriminate].
  exists wedge_es, s. split; auto. split.
  { eapply reachable_run; [constructor|exact Hr]. }
  split.
  { assert (Hall : forallb ctx_done (subs s) = true).
    { revert Hr. vm_compute. intros Hr; inversion Hr; reflexivity. }
    rewrite forallb_forall in Hall. exact Hall. }
  intros es' s' Hr'. apply wedgedb_sound in H.
  destruct (wedged_forever _ _ _ _ H Hr') as (v & idx & b & Hl & _ & _ & _ & _ & _ & _ & Hcl & _).
  split; auto. congruence.
Qed.

(* the same environment script on the code after the fix: Close returns, the channel is closed *)
Example fixed_same_script :
  match run Fixed 2%Z init (sched Fixed 2%Z init wedge_env) with
  | Some s => match cl s with CReturned => forallb user_closed (subs s) | _ => false end
  | None => false
  end = true.
Proof. vm_compute. reflexivity. Qed.

(* ---------------------------------------------------------------------------------------- *)
(* Close is clean *)

(* Once ANY Close call — the first or a later, overlapping or subsequent one — has returned: the
   batcher is closed, the queue loop is gone, nothing is in progress, every forwarder has exited
   and deregistered, and the channel of every subscription that was accepted has been closed. *)
Theorem close_clean : forall vr iv s,
  reachable vr iv s -> any_returned s ->
  closed s = true /\ loop_dead s = true /\ proc s = PIdle /\ lock s = Free /\
  forall b, In b (subs s) ->
    fwd b = Exited /\ registered b = false /\ (accepted b = true -> user_closed b = true).
Proof.
  intros vr iv s HR Hret. pose proof (inv_reachable _ _ _ HR) as [HC HS HRet].
  assert (Hc : closed s = true) by (apply returned_closed; auto).
  assert (Hd : loop_dead s = true) by (apply (c_cdead _ HC); auto).
  assert (Hp : proc s = PIdle) by (apply (c_idle _ HC); auto).
  specialize (HRet Hret). unfold all_exited in HRet. rewrite Forall_forall in HRet, HS.
  repeat split; auto.
  - destruct (lock s) as [|v idx] eqn:Hl; auto.
    pose proof (c_lock _ HC _ _ Hl). congruence.
  - destruct (HS b H) as (_ & H2 & _). auto.
  - destruct (HS b H) as (_ & _ & H3). auto.
Qed.

(* what subscriber i has received so far ([] if there is no such subscriber) *)
Definition recv_of (s : st) (i : nat) : list val :=
  match nth_error (subs s) i with Some b => received b | None => [] end.

Lemma frozen_with_sub s i g s' :
  with_sub s i g = Some s' ->
  (forall b b', nth_error (subs s) i = Some b -> g b = Some b' -> received b' = received b) ->
  cl s' = cl s /\ cl2 s' = cl2 s /\ fanout s' = fanout s /\ forall j, recv_of s' j = recv_of s j.
Proof.
  intros Hw Hg. apply with_sub_inv in Hw as (b & b' & Hn & Hgb & ->).
  repeat split; auto. intros j. unfold recv_of. cbn [subs set_subs].
  destruct (Nat.eq_dec i j) as [->|Hne].
  - rewrite (nth_error_upd_nth_eq _ _ _ _ Hn), Hn. eauto.
  - rewrite nth_error_upd_nth_ne; auto.
Qed.

Lemma any_returned_same s s' : cl s' = cl s -> cl2 s' = cl2 s -> any_returned s -> any_returned s'.
Proof. unfold any_returned. intros -> ->. auto. Qed.

Lemma close_frozen_step vr iv s e s' :
  reachable vr iv s -> any_returned s -> step vr iv s e = Some s' ->
  any_returned s' /\ fanout s' = fanout s /\ forall i, recv_of s' i = recv_of s i.
Proof.
  intros HR Hret Hs.
  destruct (close_clean _ _ _ HR Hret) as (Hc & Hd & Hp & Hl & Hsubs).
  assert (Hex : forall i b, nth_error (subs s) i = Some b -> fwd b = Exited).
  { intros i b Hn. apply nth_error_In in Hn. apply Hsubs; auto. }
  assert (Hws : forall i g,
            with_sub s i g = Some s' ->
            (forall b b', nth_error (subs s) i = Some b -> g b = Some b' ->
                          received b' = received b) ->
            any_returned s' /\ fanout s' = fanout s /\ forall i, recv_of s' i = recv_of s i).
  { intros i g Hw Hg. destruct (frozen_with_sub _ _ _ _ Hw Hg) as (E1 & E2 & E3 & E4).
    split; [eapply any_returned_same; eauto|auto]. }
  (* a Close program counter moves: the returned one stays returned *)
  assert (Hmove : forall j id c c', nth_error (cl2 s) j = Some (id, c) -> c <> K2Returned ->
            any_returned (set_cl2 s (upd_nth j (id, c') (cl2 s)))).
  { intros j id c c' Hn Hne. destruct Hret as [H|[id0 H]]; [left; exact H|right].
    exists id0. cbn. eapply In_upd_nth_keep; eauto. congruence. }
  destruct e; unfold step in Hs;
    try (eapply Hws; [exact Hs|]; intros b b' Hn Hg; cbv beta in Hg;
         rewrite ?(Hex _ _ Hn) in Hg; try discriminate; inversion Hg; subst; reflexivity).
  - (* Batch *) destruct (qstopped s); inv_some; auto.
  - (* Advance *) destruct (d <? 0)%Z; [discriminate|]. inv_some. auto.
  - (* SubscribeCall *) inv_some. auto.
  - (* CancelPending *)
    destruct (nth_error (pend_subs s) j) as [[id [p c]]|]; try discriminate. inv_some. auto.
  - (* CloseCall *) destruct (cl s) eqn:Hcl; try discriminate. inv_some.
    pose proof (c_cl2 _ (i_ctl _ _ (inv_reachable _ _ _ HR)) Hcl) as E.
    destruct Hret as [H|[id H]]; [congruence|]. rewrite E in H. destruct H.
  - (* Pop *) rewrite Hp, Hd in Hs. discriminate.
  - (* ExecBegin *) rewrite Hp in Hs. discriminate.
  - rewrite Hl in Hs. discriminate.
  - rewrite Hl in Hs. discriminate.
  - rewrite Hl in Hs. discriminate.
  - rewrite Hl in Hs. discriminate.
  - (* FwdExitLocked *) rewrite Hl in Hs.
    eapply Hws; [exact Hs|]. intros b b' Hn Hg; cbv beta in Hg.
    rewrite (Hex _ _ Hn) in Hg. discriminate.
  - (* ConsSeeClosed *) eapply Hws; [exact Hs|]. intros b b' Hn Hg; cbv beta in Hg.
    destruct (_ && _); [|discriminate]. inversion Hg; subst; reflexivity.
  - (* SubscribeLocked: only silently dropped subscriptions are added *)
    rewrite Hl in Hs. destruct (nth_error (pend_subs s) j) as [[id p]|]; [|discriminate].
    inv_some. repeat split; auto. intros i. unfold recv_of. cbn [subs set_subs set_pend_subs].
    unfold mk_sub. rewrite Hc. destruct (Nat.lt_ge_cases i (length (subs s))) as [Hlt|Hge].
    + rewrite nth_error_app1; auto.
    + rewrite nth_error_app2; auto.
      assert (nth_error (subs s) i = None) as -> by (apply nth_error_None; auto).
      destruct (i - length (subs s))%nat as [|n]; cbn; auto. destruct n; reflexivity.
  - (* CloseLoopDone *) destruct (cl s) eqn:Hcl; try discriminate.
    destruct (proc s); try discriminate. inv_some.
    destruct Hret as [H|H]; [congruence|]. split; [right; exact H|auto].
  - (* CloseLock *) destruct (cl s) eqn:Hcl; try discriminate.
    destruct (lock s); try discriminate. inv_some.
    destruct Hret as [H|H]; [congruence|]. split; [right; exact H|auto].
  - (* CloseWait *) destruct (cl s) eqn:Hcl; try discriminate.
    destruct (forallb _ _); try discriminate. inv_some. split; [left; reflexivity|auto].
  - (* Close2Call *) destruct (cl s) eqn:Hcl; try discriminate; inv_some;
      (split; [|auto]); (destruct Hret as [H|[id0 H]]; [left; exact H|right; exists id0; cbn;
        apply in_or_app; auto]).
  - (* Close2LoopDone *)
    destruct (nth_error (cl2 s) j) as [[id c]|] eqn:Hn; try discriminate.
    destruct c; try discriminate. destruct (loop_dead s); try discriminate. inv_some.
    split; [eapply Hmove; eauto; discriminate|auto].
  - (* Close2Lock *)
    destruct (nth_error (cl2 s) j) as [[id c]|] eqn:Hn; try discriminate.
    destruct c; try discriminate. rewrite Hl in Hs. inv_some.
    split; [|auto]. eapply any_returned_same; [| |eapply (Hmove j id K2WantLock K2WaitFwd); eauto; discriminate]; reflexivity.
  - (* Close2Wait *)
    destruct (nth_error (cl2 s) j) as [[id c]|] eqn:Hn; try discriminate.
    destruct c; try discriminate. destruct (forallb _ _); try discriminate. inv_some.
    split; [eapply Hmove; eauto; discriminate|auto].
Qed.

(* After a Close call has returned, NO continuation — further Batch / Subscribe / Close calls, clock
   advances, reads, cancellations, in any order — fans anything out or makes any consumer receive
   anything. *)
Theorem close_frozen : forall vr iv es s s',
  reachable vr iv s -> any_returned s -> run vr iv s es = Some s' ->
  any_returned s' /\ fanout s' = fanout s /\ forall i, recv_of s' i = recv_of s i.
Proof.
  intros vr iv es. induction es as [|e r IH]; cbn; intros s s' HR Hcl H.
  - inversion H; subst; auto.
  - destruct (step vr iv s e) as [s0|] eqn:Hs; [|discriminate].
    destruct (close_frozen_step _ _ _ _ _ HR Hcl Hs) as (H1 & H2 & H3).
    assert (HR0 : reachable vr iv s0) by (econstructor; eauto).
    destruct (IH _ _ HR0 H1 H) as (H4 & H5 & H6).
    split; [auto|]. split; [congruence|]. intros i. rewrite H6. auto.
Qed.

(* Close does return (non-vacuity of the two theorems above, and of [no_wedge]): *)
Example close_example :
  let es := sched Fixed 10%Z init
              [SubscribeCall 0%Z true false; Batch 1%Z 7%Z; Advance 10%Z; CloseCall; Batch 1%Z 8%Z;
               Advance 10%Z; SubscribeCall 5%Z true false] in
  match run Fixed 10%Z init es with
  | Some s => match cl s with
              | CReturned => eqb_listZ (fanout s) [7%Z] && eqb_listZ (recv_of s 0) [7%Z]
                             && eqb_listZ (recv_of s 1) []
              | _ => false end
  | None => false
  end = true.
Proof. vm_compute. reflexivity. Qed.

(* a reachable stuck state that is blocked on a LIVE stalled subscriber (the excuse of [no_wedge]
   is satisfiable): 52 values for a subscriber that never reads *)
Example live_example :
  match run Fixed 2%Z init
          (sched Fixed 2%Z init
             (SubscribeCall 0%Z false false
              :: flat_map (fun n => [Batch 0%Z (Z.of_nat n); Advance 2%Z]) (seq 1 52))) with
  | Some s => match lock s, first_enabled Fixed 2%Z s with
              | Exec v idx, None => (v =? 52)%Z && (idx =? 0)%nat
              | _, _ => false end
  | None => false
  end = true.
Proof. vm_compute. reflexivity. Qed.

(* ---------------------------------------------------------------------------------------- *)
(* the batcher comes to rest by itself: running its own steps (here: in the priority order of
   [candidates]; by [internal_decreases] ANY order stops) ends in a state with no enabled internal
   event, which by [no_wedge] is at rest or blocked on a live stalled subscriber *)

Lemma candidates_complete vr iv s e s' :
  internal e = true -> step vr iv s e = Some s' -> In e (candidates s).
Proof.
  intros Hint Hs. unfold candidates.
  assert (Hsub : forall i g, with_sub s i g = Some s' -> In i (seq 0 (length (subs s)))).
  { intros i g Hw. apply with_sub_inv in Hw as (b & _ & Hn & _). apply in_seq. split; [lia|].
    cbn. apply nth_error_Some. congruence. }
  destruct e; try discriminate Hint; unfold step in Hs; rewrite !in_app_iff.
  - (* Pop *) do 7 right.
    destruct (proc s); try discriminate. destruct (loop_dead s); try discriminate.
    unfold plookup in Hs.
    destruct (find (fun e => (fst e =? k)%Z) (pending s)) as [e|] eqn:Hf; try discriminate.
    apply find_some in Hf as [Hin Hk]. apply Z.eqb_eq in Hk. subst k.
    apply in_map_iff. exists e; auto.
  - do 6 right; left. cbn; auto.
  - left. cbn; auto.
  - left. cbn; auto.
  - left. cbn; auto.
  - left. cbn; auto.
  - right; left. apply in_flat_map. exists i. split; [eapply Hsub; eauto|]. cbn; auto.
  - right; left. apply in_flat_map. exists i. split; [eapply Hsub; eauto|]. cbn; auto.
  - right; left. apply in_flat_map. exists i. split; [eapply Hsub; eauto|]. cbn; auto.
  - right; left. apply in_flat_map. exists i. split; [eapply Hsub; eauto|]. cbn; auto.
  - do 3 right; left. destruct (lock s); try discriminate. apply in_map. eapply Hsub; eauto.
  - right; left. apply in_flat_map. exists i. split; [eapply Hsub; eauto|]. cbn; auto 6.
  - do 2 right; left. destruct (lock s); try discriminate.
    destruct (nth_error (pend_subs s) j) eqn:Hn; try discriminate.
    apply in_map. apply in_seq. split; [lia|]. cbn. apply nth_error_Some. congruence.
  - do 4 right; left. cbn; auto.
  - do 4 right; left. cbn; auto.
  - do 4 right; left. cbn; auto.
  - do 5 right; left. apply in_flat_map. exists j. split; [|cbn; auto].
    destruct (nth_error (cl2 s) j) eqn:Hn; try discriminate.
    apply in_seq. split; [lia|]. cbn. apply nth_error_Some. congruence.
  - do 5 right; left. apply in_flat_map. exists j. split; [|cbn; auto].
    destruct (nth_error (cl2 s) j) eqn:Hn; try discriminate.
    apply in_seq. split; [lia|]. cbn. apply nth_error_Some. congruence.
  - do 5 right; left. apply in_flat_map. exists j. split; [|cbn; auto].
    destruct (nth_error (cl2 s) j) eqn:Hn; try discriminate.
    apply in_seq. split; [lia|]. cbn. apply nth_error_Some. congruence.
Qed.

Lemma candidates_internal s e : In e (candidates s) -> internal e = true.
Proof.
  unfold candidates. rewrite !in_app_iff. intros H.
  repeat match goal with H : _ \/ _ |- _ => destruct H as [H|H] end.
  - cbn in H. repeat (destruct H as [<-|H]; [reflexivity|]). destruct H.
  - apply in_flat_map in H as (i & _ & H). cbn in H.
    repeat (destruct H as [<-|H]; [reflexivity|]). destruct H.
  - apply in_map_iff in H as (i & <- & _). reflexivity.
  - apply in_map_iff in H as (i & <- & _). reflexivity.
  - cbn in H. repeat (destruct H as [<-|H]; [reflexivity|]). destruct H.
  - apply in_flat_map in H as (i & _ & H). cbn in H.
    repeat (destruct H as [<-|H]; [reflexivity|]). destruct H.
  - cbn in H. repeat (destruct H as [<-|H]; [reflexivity|]). destruct H.
  - apply in_map_iff in H as (i & <- & _). reflexivity.
Qed.

Lemma first_enabled_none_stuck vr iv s : first_enabled vr iv s = None -> stuck vr iv s.
Proof.
  unfold first_enabled, stuck. intros Hf e Hint.
  destruct (step vr iv s e) as [s'|] eqn:Hs; auto. exfalso.
  pose proof (find_none _ _ Hf e (candidates_complete _ _ _ _ _ Hint Hs)) as H.
  unfold enabledb in H. rewrite Hs in H. discriminate.
Qed.

Lemma first_enabled_some vr iv s e :
  first_enabled vr iv s = Some e -> internal e = true /\ exists s', step vr iv s e = Some s'.
Proof.
  unfold first_enabled. intros Hf. apply find_some in Hf as [Hin Hen]. split.
  - eapply candidates_internal; eauto.
  - unfold enabledb in Hen. destruct (step vr iv s e); [eauto|discriminate].
Qed.

Lemma quiesce_fuel_spec vr iv : forall fuel s,
  reachable vr iv s -> (measure s <= fuel)%nat ->
  reachable vr iv (quiesce_fuel fuel vr iv s) /\ stuck vr iv (quiesce_fuel fuel vr iv s).
Proof.
  induction fuel as [|f IH]; intros s HR Hm; cbn [quiesce_fuel].
  - split; auto. apply first_enabled_none_stuck.
    destruct (first_enabled vr iv s) as [e|] eqn:Hf; auto. exfalso.
    apply first_enabled_some in Hf as [Hint [s' Hs]].
    pose proof (internal_decreases _ _ _ _ _ Hint Hs). lia.
  - destruct (first_enabled vr iv s) as [e|] eqn:Hf.
    + destruct (first_enabled_some _ _ _ _ Hf) as [Hint [s' Hs]]. rewrite Hs.
      pose proof (internal_decreases _ _ _ _ _ Hint Hs). apply IH; [econstructor; eauto|lia].
    + split; auto. apply first_enabled_none_stuck; auto.
Qed.

(* Current code: from EVERY reachable state, the batcher's own steps lead — with no further help
   from callers, clock, consumers or contexts — to a state that is at rest (all calls returned) or
   held up by a live subscriber that does not read. *)
Theorem comes_to_rest : forall iv s, reachable Fixed iv s ->
  reachable Fixed iv (quiesce Fixed iv s) /\
  (at_rest (quiesce Fixed iv s) \/ blocked_on_live (quiesce Fixed iv s)).
Proof.
  intros iv s HR. unfold quiesce.
  destruct (quiesce_fuel_spec Fixed iv (measure s) s HR (le_n _)) as [H1 H2].
  split; auto. apply (no_wedge iv); auto.
Qed.

(* two overlapping Close calls while a delivery is blocked on a live stalled subscriber: neither
   returns (first: K... CWaitLoop, second: K2WaitLoop) until the subscriber goes away; then BOTH
   return, with the channel closed (non-vacuity of [any_returned] through a later Close call) *)
Example close2_example :
  let env1 := SubscribeCall 0%Z false false
              :: flat_map (fun n => [Batch 0%Z (Z.of_nat n); Advance 2%Z]) (seq 1 52)
              ++ [CloseCall; Close2Call 7%Z] in
  match run Fixed 2%Z init (sched Fixed 2%Z init env1),
        run Fixed 2%Z init (sched Fixed 2%Z init (env1 ++ [Cancel 0])) with
  | Some s1, Some s2 =>
      match cl s1, cl2 s1, cl s2, cl2 s2 with
      | CWaitLoop, [(_, K2WaitLoop)], CReturned, [(_, K2Returned)] => forallb user_closed (subs s2)
      | _, _, _, _ => false
      end
  | _, _ => false
  end = true.
Proof. vm_compute. reflexivity. Qed.

(* ---------------------------------------------------------------------------------------- *)
(* degenerate subscriptions: a context that has already ended *)

(* Subscribe on an OPEN batcher always registers the subscriber with a running forwarder — also
   when the context passed has already ended ([c] = true), or ended while the call was waiting for
   the lock: there is no "nothing to do" fast path *)
Theorem subscribe_open_registers : forall vr iv s j s',
  step vr iv s (SubscribeLocked j) = Some s' -> closed s = false ->
  exists id p c b, nth_error (pend_subs s) j = Some (id, (p, c)) /\ subs s' = subs s ++ [b] /\
    accepted b = true /\ registered b = true /\ fwd b = Idle /\ ctx_done b = c /\
    user_closed b = false.
Proof.
  intros vr iv s j s' Hs Hc. unfold step in Hs. destruct (lock s); [|discriminate].
  destruct (nth_error (pend_subs s) j) as [[id [p c]]|]; [|discriminate]. inv_some.
  exists id, p, c, (mk_sub (closed s) (p, c) (length (fanout s))).
  unfold mk_sub. rewrite Hc. cbn. repeat split; auto.
Qed.

(* ... and whenever the batcher has come to rest with the lock free, the channel of EVERY accepted
   subscription whose context has ended — before, during or after Subscribe — has been closed and
   its forwarder is gone (both variants) *)
Theorem departed_closed : forall vr iv s,
  reachable vr iv s -> stuck vr iv s -> lock s = Free ->
  forall b, In b (subs s) -> accepted b = true -> ctx_done b = true ->
    fwd b = Exited /\ user_closed b = true /\ registered b = false.
Proof.
  intros vr iv s HR Hst Hl b Hb Hacc Hcd.
  pose proof (inv_reachable _ _ _ HR) as [_ HS _].
  rewrite Forall_forall in HS. destruct (HS b Hb) as (_ & H2 & H3).
  apply In_nth_error in Hb as [i Hi].
  destruct (fwd b) as [|w| |] eqn:Hf; auto; exfalso.
  - pose proof (Hst (FwdSeeDone i) eq_refl) as H. unfold step in H.
    eapply with_sub_none in H; eauto. cbv beta in H. rewrite Hf in H.
    unfold departing in H. rewrite Hcd in H. discriminate.
  - pose proof (Hst (FwdDrop i) eq_refl) as H. unfold step in H.
    eapply with_sub_none in H; eauto. cbv beta in H. rewrite Hf in H.
    unfold departing in H. rewrite Hcd in H. discriminate.
  - pose proof (Hst (FwdExitLocked i) eq_refl) as H. unfold step in H. rewrite Hl in H.
    eapply with_sub_none in H; eauto. cbv beta in H. rewrite Hf in H. discriminate.
Qed.

(* non-vacuity: Subscribe with an ended context on an open batcher: registered, then closed *)
Example born_done_example :
  match run Fixed 5%Z init (sched Fixed 5%Z init [SubscribeCall 0%Z true true]) with
  | Some s => match subs s with
              | [b] => accepted b && ctx_done b && user_closed b && closed_seen b
                       && negb (registered b) && negb (closed s)
              | _ => false end
  | None => false
  end = true.
Proof. vm_compute. reflexivity. Qed.

(* A Subscribe call that takes the lock after ANY Close call has returned is silently dropped: no
   subscriber is registered, no forwarder runs, and its channel is not closed — neither then nor
   (by [close_frozen]: the state is frozen) ever after. So a channel is either closed by the time
   Close returns or never: "open at the return, closed a little later" cannot happen. *)
Theorem subscribe_after_close_dropped : forall vr iv s j s',
  reachable vr iv s -> any_returned s -> step vr iv s (SubscribeLocked j) = Some s' ->
  exists b, subs s' = subs s ++ [b] /\ accepted b = false /\ registered b = false /\
            fwd b = Exited /\ user_closed b = false /\ any_returned s'.
Proof.
  intros vr iv s j s' HR Hret Hs.
  pose proof (returned_closed _ (i_ctl _ _ (inv_reachable _ _ _ HR)) Hret) as Hc.
  unfold step in Hs. destruct (lock s); [|discriminate].
  destruct (nth_error (pend_subs s) j) as [[id pc]|]; [|discriminate]. inv_some.
  exists (mk_sub (closed s) pc (length (fanout s))). unfold mk_sub. rewrite Hc. cbn.
  repeat split; auto.
Qed.
