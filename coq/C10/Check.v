(* C10 — executable correspondence interface.

   The harness runs a script (Spec.op list) against the real batcher, waiting after every step
   until every goroutine is parked, and reports what was observed after each step. The model's
   prediction for the same script is obtained from the event system of Model.v itself: the step's
   environment event, then internal events (in the priority order of [candidates]) until none is
   enabled ([quiesce]). Observations are read off the model state by comparing it before and after
   the step. Where the outcome depends on an order the Go runtime does not fix (two goroutines
   contending for the mutex with an observable difference; two keys due at the same instant; Close
   closing closeCh while a value is on its way to a reading consumer) the run is flagged and only
   the spec oracle is applied. *)
From Kit Require Export C10.Model C10.Spec Lib.CheckLib.

Inductive case := Case (interval : Z) (script : list op) (observed : obs).

(* ---------------------------------------------------------------------------------------- *)
(* run to quiescence, noting order-dependent choices *)

Definition is_pcall (p : procst) : bool := match p with PCall _ => true | PIdle => false end.

Definition order_dependent (s : st) (e : ev) : bool :=
  match e with
  | SubscribeLocked _ =>
      (1 <? length (pend_subs s))%nat
      || (negb (closed s)
          && (match cl s with CWaitLoop | CWantLock => true | _ => false end
              || existsb (fun e => match snd e with K2WaitLoop | K2WantLock => true | _ => false end)
                         (cl2 s)))
      || is_pcall (proc s)
      || (negb (loop_dead s) && existsb (fun e' => (p_due (snd e') <=? now s)%Z) (pending s))
  (* a departing forwarder and the queue's next callback both want the lock: if the callback wins
     and then blocks on a live stalled subscriber, the departing subscriber's channel is closed
     only later *)
  | FwdExitLocked _ =>
      is_pcall (proc s)
      || (negb (loop_dead s) && existsb (fun e' => (p_due (snd e') <=? now s)%Z) (pending s))
  | Pop k =>
      match plookup k (pending s) with
      | Some p => existsb (fun e' => negb (fst e' =? k)%Z && (p_due (snd e') =? p_due p)%Z) (pending s)
      | None => false
      end
  | _ => false
  end.

(* A value on its way to a reading consumer while Close is about to close closeCh: the forwarder's
   selects choose at random between handing it over and dropping it. In the priority schedule the
   forwarders run first, so the race shows as "CloseLock fires in a phase in which a forwarder
   moved a value". *)
Definition is_move (e : ev) : bool :=
  match e with FwdTake _ | FwdDeliver _ => true | _ => false end.
Definition is_closelock (e : ev) : bool :=
  match e with CloseLock | Close2Lock _ => true | _ => false end.

Fixpoint quiesce_amb (fuel : nat) (vr : variant) (iv : Z) (s : st) (amb moved : bool) : st * bool :=
  match fuel with
  | O => (s, amb)
  | S f => match first_enabled vr iv s with
           | Some e => match step vr iv s e with
                       | Some s' => quiesce_amb f vr iv s'
                                      (amb || order_dependent s e || (is_closelock e && moved))
                                      (moved || is_move e)
                       | None => (s, amb)
                       end
           | None => (s, amb)
           end
  end.

(* ---------------------------------------------------------------------------------------- *)
(* one script step *)

Definition env_event (n : Z) (o : op) : ev :=
  match o with
  | OSub p => SubscribeCall n p false
  | OSubDone p => SubscribeCall n p true
  | OBatch k => Batch k n
  | OAdv d | OAdvBatch d _ => Advance d
  | ORead i => Want (Z.to_nat i)
  | OReadAll i => WantAll (Z.to_nat i)
  | OCancel i => Cancel (Z.to_nat i)
  | OClose => CloseCall
  end.

Definition op_ok (o : op) : bool :=
  match o with
  | OAdv d | OAdvBatch d _ => (0 <? d)%Z
  | ORead i | OReadAll i | OCancel i => (0 <=? i)%Z
  | _ => true
  end.

Fixpoint insertZ (x : Z) (l : list Z) : list Z :=
  match l with
  | [] => [x]
  | y :: r => if (y <=? x)%Z then y :: insertZ x r else x :: l
  end.
Definition sortZ (l : list Z) : list Z := fold_left (fun acc x => insertZ x acc) l [].

(* what the consumers observed between two states, subscriber by subscriber *)
Definition sub_events (n : Z) (before after : list sub) : list (Z * oev) :=
  flat_map (fun ib : nat * sub =>
     let i := Z.of_nat (fst ib) in
     let b1 := snd ib in
     let '(old_n, old_closed) :=
        match nth_error before (fst ib) with
        | Some b0 => (length (received b0), closed_seen b0)
        | None => (O, false)
        end in
     map (fun v => (n, ERecv i v)) (skipn old_n (received b1))
     ++ (if closed_seen b1 && negb old_closed then [(n, EClosed i)] else []))
   (combine (seq 0 (length after)) after).

Definition is_returned (c : closepc) : bool := match c with CReturned => true | _ => false end.

(* the further Close calls that have returned: their call ids *)
Definition returned2 (s : st) : list Z :=
  map fst (filter (fun e => match snd e with K2Returned => true | _ => false end) (cl2 s)).

Definition done_events (n : Z) (o : op) (close_id : option Z) (s0 s_env s1 : st) : list (Z * oev) :=
  let subs_done := filter (fun id => negb (existsb (fun e => (fst e =? id)%Z) (pend_subs s1)))
                          (map fst (pend_subs s_env)) in
  let batch_done := match o with OBatch _ | OAdvBatch _ _ => [n] | _ => [] end in
  let close_done := match close_id with
                    | Some c => if is_returned (cl s1) && negb (is_returned (cl s0)) then [c] else []
                    | None => [] end in
  let close2_done := filter (fun id => negb (memZ id (returned2 s0))) (returned2 s1) in
  (* what the caller of a returning Close call finds when it probes, at that moment, the channels
     nobody is receiving from (consumer on command, no read outstanding): only a subscription that
     was silently dropped (Subscribe on a closed batcher) can still be open *)
  let open_subs := flat_map (fun ib : nat * sub =>
                      let b := snd ib in
                      if negb (prompt b) && (wants b =? 0)%nat && negb (user_closed b)
                      then [Z.of_nat (fst ib)] else [])
                     (combine (seq 0 (length (subs s1))) (subs s1)) in
  map (fun c => (n, EDone c)) (sortZ (subs_done ++ batch_done ++ close_done ++ close2_done))
  ++ flat_map (fun c => map (fun i => (n, EOpen c i)) open_subs) (sortZ (close_done ++ close2_done)).

Record drv := mkDrv {
  d_st : st;
  d_close : option Z;       (* step of the first Close call *)
  d_amb : bool;             (* an order-dependent choice was met *)
  d_bad : bool;             (* the script left the model's domain (e.g. touches a subscriber whose
                               Subscribe has not returned) *)
  d_obs : list (Z * oev);
  d_e2e : bool              (* [e2e_okb] (after every step that left the lock free) and
                               [close_final_okb] held throughout (they must: Proofs_e2e) *)
}.

(* OAdvBatch: the advance and the Batch call with NO internal step in between *)
Definition env_step (vr : variant) (iv : Z) (s : st) (n : Z) (o : op) : option st :=
  match o with
  | OAdvBatch d k => match step vr iv s (Advance d) with
                     | Some s1 => step vr iv s1 (Batch k n)
                     | None => None
                     end
  (* the first Close call, or a further one (any number, overlapping or not) *)
  | OClose => match cl s with
              | CNone => step vr iv s CloseCall
              | _ => step vr iv s (Close2Call n)
              end
  (* the context of subscriber i ends: i may still be waiting for the lock inside Subscribe (then it
     is the (i - number of registered ones)-th waiting call, calls being served in order) *)
  | OCancel i =>
      let k := Z.to_nat i in
      if (k <? length (subs s))%nat then step vr iv s (Cancel k)
      else step vr iv s (CancelPending (k - length (subs s)))
  | _ => step vr iv s (env_event n o)
  end.

(* ... which on the implementation races the timer of a pending value of that key that the advance
   makes due: popped first (delivered) or replaced first — the model takes "replaced" *)
Definition races_timer (s0 : st) (o : op) : bool :=
  match o with
  | OAdvBatch d k => match plookup k (pending s0) with
                     | Some p => (p_due p <=? now s0 + d)%Z
                     | None => false
                     end
  | _ => false
  end.

Definition drive_step (vr : variant) (iv : Z) (d : drv) (n : Z) (o : op) : drv :=
  let s0 := d_st d in
  match (if op_ok o then env_step vr iv s0 n o else None) with
  | None => mkDrv s0 (d_close d) (d_amb d) true (d_obs d) (d_e2e d)
  | Some s_env =>
      let close_id := match o, d_close d with OClose, None => Some n | _, x => x end in
      let '(s1, amb) := quiesce_amb (measure s_env) vr iv s_env (d_amb d || races_timer s0 o) false in
      mkDrv s1 close_id amb (d_bad d)
            (d_obs d ++ sub_events n (subs s0) (subs s1) ++ done_events n o close_id s0 s_env s1)
            (d_e2e d && match lock s1 with Free => e2e_okb s1 | _ => true end && close_final_okb s1)
  end.

Definition drive (vr : variant) (iv : Z) (sc : list op) : drv :=
  fold_left (fun d no => drive_step vr iv d (fst no) (snd no)) (zindex sc)
            (mkDrv init None false false [] true).

Definition oev_eqb (a b : oev) : bool :=
  match a, b with
  | ERecv i v, ERecv j w => (i =? j)%Z && (v =? w)%Z
  | EClosed i, EClosed j => (i =? j)%Z
  | EDone c, EDone d => (c =? d)%Z
  | EOpen c i, EOpen d j => (c =? d)%Z && (i =? j)%Z
  | _, _ => false
  end.

Fixpoint obs_eqb (a b : list (Z * oev)) : bool :=
  match a, b with
  | [], [] => true
  | x :: a', y :: b' => (fst x =? fst y)%Z && oev_eqb (snd x) (snd y) && obs_eqb a' b'
  | _, _ => false
  end.

Definition model_obs (vr : variant) (iv : Z) (sc : list op) : obs := d_obs (drive vr iv sc).

(* 0 = agree and the oracle holds; 1 = model and implementation differ (or the script is outside
   the model's domain); 2 = the implementation's observed behaviour violates the spec. *)
Definition check_case (c : case) : Z :=
  match c with
  | Case iv sc ob =>
      if negb ((0 <? iv)%Z && oracle iv sc ob) then 2
      else let d := drive Fixed iv sc in
           if d_bad d then 1
           else if negb (d_e2e d) then 1
           else if d_amb d then 0
           else if obs_eqb (d_obs d) ob then 0 else 1
  end.

Definition run_cases (cs : list (Z * case)) : list (Z * Z) := failures check_case cs.
