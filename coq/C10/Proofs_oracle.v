(* C10 — oracle soundness: the boolean [oracle] of C10/Spec.v decides the declarative [spec].

   One lemma per conjunct ([o_X_sound : o_X = true <-> s_X]), then [oracle_sound].

   Nine of the ten conjuncts are equivalent to their boolean on their own. The tenth,
   [o_no_wedge] / [s_no_wedge], is equivalent only for observations whose [EDone] events are
   recorded at a step of the script (which [s_valid] guarantees): the boolean checks
   [may_block] on the whole range [c, done_step c) while the Prop only looks at steps
   [r < nsteps]. [o_no_wedge_sound] therefore takes [s_valid] as a hypothesis (the direction
   oracle -> spec, [o_no_wedge_sound_partial], needs nothing), and
   [no_wedge_iff_refuted] exhibits the observation on which the unconditional "<-" fails.
   The combined theorem [oracle_sound] is a full equivalence, since [s_valid] is a conjunct of
   both sides. *)
From Coq Require Import List ZArith Bool Lia.
From Kit Require Import C10.Spec.
Import ListNotations.
Open Scope Z_scope.

(* ---------------------------------------------------------------------------------------- *)
(* generic helpers *)

Lemma memZ_In : forall x l, memZ x l = true <-> In x l.
Proof.
  intros x l. unfold memZ. rewrite existsb_exists. split.
  - intros [y [Hin Heq]]. apply Z.eqb_eq in Heq. subst y. exact Hin.
  - intros Hin. exists x. split; [exact Hin | apply Z.eqb_refl].
Qed.

Lemma memZ_false_notIn : forall x l, memZ x l = false <-> ~ In x l.
Proof.
  intros x l. rewrite <- memZ_In. destruct (memZ x l).
  - split; intro H; [discriminate H | exfalso; apply H; reflexivity].
  - split; intro H; [intro H'; discriminate H' | reflexivity].
Qed.

Lemma nodupb_NoDup : forall l, nodupb l = true <-> NoDup l.
Proof.
  induction l as [|x l IH].
  - split; intros _; [constructor | reflexivity].
  - cbn [nodupb]. rewrite andb_true_iff, negb_true_iff, memZ_false_notIn, IH. split.
    + intros [Hn Hd]. constructor; assumption.
    + intros Hnd. inversion Hnd as [|x' l' Hn Hd]; subst. split; assumption.
Qed.

Lemma sorted_by_cons2 : forall f x y l,
  sorted_by f (x :: y :: l) = (f x <=? f y) && sorted_by f (y :: l).
Proof. reflexivity. Qed.

Lemma sorted_by_iff : forall f l,
  sorted_by f l = true <-> (forall a x y b, l = a ++ x :: y :: b -> f x <= f y).
Proof.
  intros f l. induction l as [|x l IH].
  - split; [|reflexivity]. intros _ a x y b Heq. destruct a; discriminate Heq.
  - destruct l as [|y l'].
    + split; [|reflexivity]. intros _ a x0 y0 b Heq.
      destruct a as [|a0 a]; [discriminate Heq|]. destruct a; discriminate Heq.
    + rewrite sorted_by_cons2, andb_true_iff, Z.leb_le, IH. split.
      * intros [Hxy Hrest] a x0 y0 b Heq. destruct a as [|a0 a].
        -- cbn [app] in Heq. injection Heq as -> -> _. exact Hxy.
        -- cbn [app] in Heq. injection Heq as _ Heq. exact (Hrest a x0 y0 b Heq).
      * intros H. split.
        -- apply (H [] x y l'). reflexivity.
        -- intros a x0 y0 b Heq. apply (H (x :: a) x0 y0 b). cbn [app]. rewrite Heq. reflexivity.
Qed.

Lemma eqb_lz_eq : forall a b, eqb_lz a b = true <-> a = b.
Proof.
  induction a as [|x a IH]; intros [|y b]; cbn [eqb_lz].
  - split; reflexivity.
  - split; intro H; discriminate H.
  - split; intro H; discriminate H.
  - rewrite andb_true_iff, Z.eqb_eq, IH. split.
    + intros [-> ->]. reflexivity.
    + intros H. injection H as -> ->. split; reflexivity.
Qed.

(* a boolean that only looks at the first component, over a list of pairs *)
Lemma forallb_fst : forall {A} (l : list (Z * A)) (P : Z -> bool),
  forallb (fun e => P (fst e)) l = true <-> (forall i, In i (map fst l) -> P i = true).
Proof.
  intros A l P. rewrite forallb_forall. split.
  - intros H i Hin. apply in_map_iff in Hin. destruct Hin as [e [<- Hin]]. exact (H e Hin).
  - intros H e Hin. apply H. apply in_map. exact Hin.
Qed.

Lemma In_zrange : forall a b r, In r (zrange a b) <-> a <= r < b.
Proof.
  intros a b r. unfold zrange. rewrite in_map_iff. split.
  - intros [n [Hn Hin]]. apply in_seq in Hin. lia.
  - intros Hr. exists (Z.to_nat (r - a)). split; [lia|]. apply in_seq. lia.
Qed.

Lemma existsb_false_forall : forall {A} (f : A -> bool) l,
  existsb f l = false <-> (forall x, In x l -> f x = false).
Proof.
  intros A f l. split.
  - intros H x Hin. destruct (f x) eqn:E; [|reflexivity].
    assert (Ht : existsb f l = true) by (apply existsb_exists; exists x; split; assumption).
    congruence.
  - intros H. destruct (existsb f l) eqn:E; [|reflexivity].
    apply existsb_exists in E. destruct E as [x [Hin Hx]]. rewrite (H x Hin) in Hx. discriminate Hx.
Qed.

(* ---------------------------------------------------------------------------------------- *)
(* 0. valid *)

Lemma o_valid_sound : forall sc ob, o_valid sc ob = true <-> s_valid sc ob.
Proof. intros sc ob. unfold o_valid, s_valid. apply forallb_forall. Qed.

(* 1. once *)
Lemma o_once_sound : forall sc ob, o_once sc ob = true <-> s_once sc ob.
Proof.
  intros sc ob. unfold o_once, s_once.
  rewrite (forallb_fst (isubs sc) (fun i => nodupb (vals ob i))).
  split; intros H i Hin; apply nodupb_NoDup; exact (H i Hin).
Qed.

(* 2. not early *)
Lemma o_not_early_sound : forall iv sc ob, o_not_early iv sc ob = true <-> s_not_early iv sc ob.
Proof.
  intros iv sc ob. unfold o_not_early, s_not_early. rewrite forallb_forall. split.
  - intros H r i v Hin. specialize (H (r, ERecv i v) Hin). cbn [fst snd] in H.
    apply Z.leb_le. exact H.
  - intros H [r [i v|i|c|c i0]] Hin; cbn [fst snd]; try reflexivity.
    apply Z.leb_le. exact (H r i v Hin).
Qed.

(* 3. suppress *)
Lemma o_suppress_sound : forall iv sc ob, o_suppress iv sc ob = true <-> s_suppress iv sc ob.
Proof.
  intros iv sc ob. unfold o_suppress, s_suppress. rewrite forallb_forall. split.
  - intros H r i v k Hin Hk v' Hb Hlt. specialize (H (r, ERecv i v) Hin). cbn [fst snd] in H.
    apply negb_true_iff in H. unfold superseded_inside in H. rewrite Hk in H. cbv zeta in H.
    pose proof (proj1 (existsb_false_forall _ _) H (v', k) Hb) as Hf. cbn [fst snd] in Hf.
    rewrite (proj2 (Z.ltb_lt v v') Hlt), Z.eqb_refl in Hf. cbn [andb] in Hf.
    apply Z.ltb_ge in Hf. exact Hf.
  - intros H [r [i v|i|c|c i0]] Hin; cbn [fst snd]; try reflexivity.
    apply negb_true_iff. unfold superseded_inside.
    destruct (batch_key sc v) as [k|] eqn:Hk; [|reflexivity]. cbv zeta.
    apply existsb_false_forall. intros [v' k'] Hb. cbn [fst snd].
    destruct (v <? v') eqn:Hlt; [|reflexivity].
    destruct (k' =? k) eqn:Hkk; [|reflexivity]. cbn [andb].
    apply Z.ltb_lt in Hlt. apply Z.eqb_eq in Hkk. subst k'.
    apply Z.ltb_ge. exact (H r i v k Hin Hk v' Hb Hlt).
Qed.

(* 4a. due order *)
Lemma o_due_order_sound : forall iv sc ob, o_due_order iv sc ob = true <-> s_due_order iv sc ob.
Proof.
  intros iv sc ob. unfold o_due_order, s_due_order.
  rewrite (forallb_fst (isubs sc) (fun i => sorted_by (due iv sc) (vals ob i))).
  split; intros H i Hin; apply sorted_by_iff; exact (H i Hin).
Qed.

(* 4b. same order *)
Lemma o_same_order_sound : forall sc ob, o_same_order sc ob = true <-> s_same_order sc ob.
Proof.
  intros sc ob. unfold o_same_order, s_same_order.
  rewrite (forallb_fst (isubs sc)
    (fun i => forallb (fun e2 => eqb_lz (common (vals ob i) (vals ob (fst e2)))
                                        (common (vals ob (fst e2)) (vals ob i))) (isubs sc))).
  split.
  - intros H i j Hi Hj. specialize (H i Hi).
    rewrite (forallb_fst (isubs sc)
      (fun j => eqb_lz (common (vals ob i) (vals ob j)) (common (vals ob j) (vals ob i)))) in H.
    apply eqb_lz_eq. exact (H j Hj).
  - intros H i Hi.
    apply (forallb_fst (isubs sc)
      (fun j => eqb_lz (common (vals ob i) (vals ob j)) (common (vals ob j) (vals ob i)))).
    intros j Hj. apply eqb_lz_eq. exact (H i j Hi Hj).
Qed.

(* 4c. no hole *)
Lemma o_no_hole_sound : forall sc ob, o_no_hole sc ob = true <-> s_no_hole sc ob.
Proof.
  intros sc ob. unfold o_no_hole, s_no_hole.
  rewrite (forallb_fst (isubs sc)
    (fun i => negb (stays sc i) ||
       forallb (fun e2 => forallb (fun x => memZ x (vals ob i))
                                  (between (open_vals sc ob i) (vals ob (fst e2)))) (isubs sc))).
  split.
  - intros H i j Hi Hj Hc x Hx. specialize (H i Hi). unfold stays in H. rewrite Hc in H.
    cbn [negb orb] in H.
    rewrite (forallb_fst (isubs sc)
      (fun j => forallb (fun x => memZ x (vals ob i)) (between (open_vals sc ob i) (vals ob j)))) in H.
    specialize (H j Hj). rewrite forallb_forall in H. apply memZ_In. exact (H x Hx).
  - intros H i Hi. unfold stays. destruct (cancel_step sc i) as [s|] eqn:Hc; [reflexivity|].
    cbn [negb orb].
    apply (forallb_fst (isubs sc)
      (fun j => forallb (fun x => memZ x (vals ob i)) (between (open_vals sc ob i) (vals ob j)))).
    intros j Hj. apply forallb_forall. intros x Hx. apply memZ_In. exact (H i j Hi Hj Hc x Hx).
Qed.

(* 5. no wedge *)
Lemma o_no_wedge_sound_partial : forall sc ob, o_no_wedge sc ob = true -> s_no_wedge sc ob.
Proof.
  intros sc ob H. unfold o_no_wedge in H. rewrite forallb_forall in H.
  intros c Hc Hcall r Hcr Hd Hr. specialize (H c Hc). rewrite Hcall in H.
  unfold call_ok in H. cbv zeta in H. rewrite forallb_forall in H. apply H.
  apply In_zrange. split; [exact Hcr|].
  destruct (done_step ob c) as [d|] eqn:Ed; [exact (Hd d eq_refl) | exact Hr].
Qed.

(* what [s_valid] gives: a call is seen to return at a step of the script *)
Lemma done_step_In : forall ob c d, done_step ob c = Some d -> In (d, EDone c) ob.
Proof.
  intros ob c d H. unfold done_step in H.
  destruct (find (fun e : Z * oev => match snd e with EDone c' => c' =? c | _ => false end) ob)
    as [[d' ev]|] eqn:Ef; [|discriminate H].
  apply find_some in Ef. destruct Ef as [Hin Hev]. cbn [fst snd] in *.
  injection H as ->. destruct ev as [i v|i|c'|c' i0]; try discriminate Hev.
  apply Z.eqb_eq in Hev. subst c'. exact Hin.
Qed.

Lemma s_valid_done_lt : forall sc ob c d,
  s_valid sc ob -> done_step ob c = Some d -> d < nsteps sc.
Proof.
  intros sc ob c d Hv Hd. apply done_step_In in Hd. specialize (Hv _ Hd).
  unfold ev_valid in Hv. cbn [fst snd] in Hv. cbv zeta in Hv.
  apply andb_true_iff in Hv. destruct Hv as [Hv _].
  apply andb_true_iff in Hv. destruct Hv as [_ Hv]. apply Z.ltb_lt. exact Hv.
Qed.

Lemma o_no_wedge_sound : forall sc ob,
  s_valid sc ob -> (o_no_wedge sc ob = true <-> s_no_wedge sc ob).
Proof.
  intros sc ob Hv. split; [apply o_no_wedge_sound_partial|].
  intros H. unfold o_no_wedge. apply forallb_forall. intros c Hc.
  destruct (is_call sc c) eqn:Hcall; [|reflexivity].
  unfold call_ok. cbv zeta. apply forallb_forall. intros r Hr. apply In_zrange in Hr.
  destruct Hr as [Hcr Hrd].
  destruct (done_step ob c) as [d|] eqn:Ed.
  - pose proof (s_valid_done_lt sc ob c d Hv Ed) as Hdn.
    apply (H c Hc Hcall r Hcr); [|lia].
    intros d' Hd'. rewrite Ed in Hd'. injection Hd' as <-. exact Hrd.
  - apply (H c Hc Hcall r Hcr); [|exact Hrd].
    intros d' Hd'. rewrite Ed in Hd'. discriminate Hd'.
Qed.

(* 6. complete *)
Lemma o_complete_sound : forall iv sc ob, o_complete iv sc ob = true <-> s_complete iv sc ob.
Proof.
  intros iv sc ob. unfold o_complete, s_complete. cbv zeta. rewrite forallb_forall. split.
  - intros H i p Hin r Hr Hpr Hrb Hbef. specialize (H r Hr).
    rewrite (proj2 (Z.ltb_lt r (block_from sc ob)) Hrb) in H.
    rewrite forallb_forall in H. specialize (H (i, (p, true)) Hin). cbn [fst snd] in H.
    rewrite (proj2 (Z.ltb_lt p r) Hpr), Hbef in H. cbn [andb negb] in H. exact H.
  - intros H r Hr. destruct (r <? block_from sc ob) eqn:Hrb; [|reflexivity].
    apply Z.ltb_lt in Hrb. apply forallb_forall. intros [i [p pr]] Hin. cbn [fst snd].
    destruct pr; [|reflexivity]. cbn [andb].
    destruct (p <? r) eqn:Hpr; [|reflexivity]. cbn [andb].
    destruct (before (cancel_step sc i) r) eqn:Hbef; [reflexivity|]. cbn [negb].
    apply Z.ltb_lt in Hpr. exact (H i p Hin r Hr Hpr Hrb Hbef).
Qed.

(* 7. close *)
Lemma o_close_sound : forall sc ob, o_close sc ob = true <-> s_close sc ob.
Proof.
  intros sc ob. unfold o_close, s_close.
  destruct (close_step sc) as [c0|] eqn:Ec.
  2:{ split; [|reflexivity]. intros _ c0 c d Hc. discriminate Hc. }
  rewrite forallb_forall. split.
  - intros Hall c0' c d Hc Hin Ed. injection Hc as <-. specialize (Hall c Hin).
    unfold close_ok in Hall. rewrite Ed in Hall. apply andb_true_iff in Hall as [HA HB].
    rewrite forallb_forall in HA. rewrite forallb_forall in HB. split.
    + intros r i v Hin'. specialize (HA (r, ERecv i v) Hin'). cbn [fst snd] in HA.
      apply Z.leb_le. exact HA.
    + intros i p pr q Hin' Hq Hqc x Hx. specialize (HB (i, (p, pr)) Hin').
      cbv zeta in HB. cbn [fst snd] in HB. rewrite Hq in HB.
      rewrite (proj2 (Z.ltb_lt q c0) Hqc) in HB. cbn [negb orb] in HB. rewrite Hx in HB.
      destruct (closed_step ob i) as [y|]; [|discriminate HB].
      exists y. split; [reflexivity|]. apply Z.leb_le. exact HB.
  - intros H c Hin. unfold close_ok. destruct (done_step ob c) as [d|] eqn:Ed; [|reflexivity].
    destruct (H c0 c d eq_refl Hin Ed) as [HA HB]. apply andb_true_iff.
    split; apply forallb_forall.
    + intros [r [i v|i|c'|c' i0]] Hin'; cbn [fst snd]; try reflexivity.
      apply Z.leb_le. exact (HA r i v Hin').
    + intros [i [p pr]] Hin'. cbv zeta. cbn [fst snd].
      destruct (done_step ob p) as [q|] eqn:Eq; [|reflexivity].
      destruct (q <? c0) eqn:Eqc; [|reflexivity]. cbn [negb orb].
      apply Z.ltb_lt in Eqc.
      destruct (if pr then Some p else readall_step sc i) as [x|] eqn:Ex; [|reflexivity].
      destruct (HB i p pr q Hin' Eq Eqc x Ex) as [y [Hy Hle]]. rewrite Hy.
      apply Z.leb_le. exact Hle.
Qed.

(* 8. departure *)
Lemma o_depart_sound : forall sc ob, o_depart sc ob = true <-> s_depart sc ob.
Proof.
  intros sc ob. unfold o_depart, s_depart. rewrite forallb_forall. split.
  - intros H e Hin x y q Hx Hy Hq Hacc r Hr Hle Hmb. specialize (H e Hin).
    unfold depart_ok in H. rewrite Hx, Hy, Hq, Hacc in H. cbv zeta in H.
    rewrite forallb_forall in H. specialize (H r Hr).
    rewrite (proj2 (Z.leb_le _ _) Hle), Hmb in H.
    destruct (closed_step ob (fst e)) as [z|]; [|discriminate H].
    exists z. split; [reflexivity|]. apply Z.leb_le. exact H.
  - intros H e Hin. unfold depart_ok.
    destruct (cancel_step sc (fst e)) as [x|] eqn:Hx; [|reflexivity].
    destruct (reader_start sc e) as [y|] eqn:Hy; [|reflexivity].
    destruct (done_step ob (fst (snd e))) as [q|] eqn:Hq; [|reflexivity].
    destruct (accepted_for_sure sc ob (fst (snd e))) eqn:Hacc; [|reflexivity].
    cbv zeta. apply forallb_forall. intros r Hr.
    destruct (Z.max x (Z.max y q) <=? r) eqn:Hle; [|reflexivity].
    destruct (may_block sc ob r) eqn:Hmb; [reflexivity|].
    apply Z.leb_le in Hle.
    destruct (H e Hin x y q Hx Hy Hq Hacc r Hr Hle Hmb) as [z [Hz Hzr]]. rewrite Hz.
    apply Z.leb_le. exact Hzr.
Qed.

(* 9. at the return of Close *)
Lemma o_at_return_sound : forall sc ob, o_at_return sc ob = true <-> s_at_return sc ob.
Proof.
  intros sc ob. unfold o_at_return, s_at_return. rewrite forallb_forall. split.
  - intros H r c i Hin. specialize (H (r, EOpen c i) Hin). cbn [snd] in H.
    destruct (sub_accepted sc ob i); [discriminate H|reflexivity].
  - intros H [r [i v|i|c|c i]] Hin; cbn [snd]; try reflexivity.
    rewrite (H r c i Hin). reflexivity.
Qed.

(* 10. nothing is lost *)
Lemma o_eventual_sound : forall iv sc ob, o_eventual iv sc ob = true <-> s_eventual iv sc ob.
Proof.
  intros iv sc ob. unfold o_eventual, s_eventual.
  destruct (eventual_active sc ob) eqn:Hact.
  2:{ split; [intros _ H; discriminate H|reflexivity]. }
  rewrite forallb_forall. split.
  - intros H _ e Hin Hc y q Hy Hq b Hb Hob. specialize (H e Hin).
    rewrite Hc, Hy, Hq in H. rewrite forallb_forall in H. specialize (H b Hb).
    rewrite Hob in H. apply memZ_In. exact H.
  - intros H e Hin.
    destruct (cancel_step sc (fst e)) as [x|] eqn:Hc; [reflexivity|].
    destruct (reader_start sc e) as [y|] eqn:Hy; [|reflexivity].
    destruct (done_step ob (fst (snd e))) as [q|] eqn:Hq; [|reflexivity].
    apply forallb_forall. intros b Hb. destruct (owed iv sc q b) eqn:Hob; [|reflexivity].
    apply memZ_In. exact (H eq_refl e Hin Hc y q Hy Hq b Hb Hob).
Qed.

(* ---------------------------------------------------------------------------------------- *)
(* the oracle decides the spec *)

Theorem oracle_sound : forall iv sc ob, oracle iv sc ob = true <-> spec iv sc ob.
Proof.
  intros iv sc ob. unfold oracle, spec. rewrite !andb_true_iff.
  rewrite o_valid_sound, o_once_sound, o_not_early_sound, o_suppress_sound, o_due_order_sound,
    o_same_order_sound, o_no_hole_sound, o_complete_sound, o_close_sound, o_depart_sound,
    o_at_return_sound, o_eventual_sound.
  split.
  - intros [[[[[[[[[[[[H0 H1] H2] H3] H4] H5] H6] H7] H8] H9] H10] H11] H12].
    pose proof (proj1 (o_no_wedge_sound sc ob H0) H7) as H7'.
    exact (conj H0 (conj H1 (conj H2 (conj H3 (conj H4 (conj H5 (conj H6 (conj H7' (conj H8 (conj H9 (conj H10 (conj H11 H12)))))))))))).
  - intros [H0 [H1 [H2 [H3 [H4 [H5 [H6 [H7 [H8 [H9 [H10 [H11 H12]]]]]]]]]]]].
    pose proof (proj2 (o_no_wedge_sound sc ob H0) H7) as H7'.
    exact (conj (conj (conj (conj (conj (conj (conj (conj (conj (conj (conj (conj H0 H1) H2) H3) H4) H5) H6) H7') H8) H9) H10) H11) H12).
Qed.

(* Non-vacuity: both sides hold on a concrete run (one prompt subscriber, one Batch, the clock
   advanced past the interval, the value delivered, Close, channel closed). *)
Example oracle_sound_ex :
  let sc := [OSub true; OBatch 7; OAdv 10; OClose] in
  let ob := [(0, EDone 0); (1, EDone 1); (2, ERecv 0 1); (3, EDone 3); (3, EClosed 0)] in
  oracle 10 sc ob = true /\ spec 10 sc ob.
Proof.
  cbv zeta. assert (H : oracle 10 [OSub true; OBatch 7; OAdv 10; OClose]
    [(0, EDone 0); (1, EDone 1); (2, ERecv 0 1); (3, EDone 3); (3, EClosed 0)] = true)
    by (vm_compute; reflexivity).
  split; [exact H | apply oracle_sound; exact H].
Qed.

(* ---------------------------------------------------------------------------------------- *)
(* Why [o_no_wedge_sound] needs [s_valid]: without it the "<-" direction is false. A subscriber
   that reads only on command, 52 Batch calls (each seen to return at its own step), then Close at
   step 53, seen to return at "step" 100 — beyond the 54-step script — with a value received at
   "step" 60. Back-pressure is possible at step 53 (52 outstanding), so [s_no_wedge], which only
   looks at steps < nsteps, holds; but [o_no_wedge] also asks for [may_block 60], which is false
   (51 outstanding). *)
Definition wedge_sc : list op := OSub false :: map OBatch (zrange 1 53) ++ [OClose].
Definition wedge_ob : obs :=
  map (fun c => (c, EDone c)) (zrange 0 53) ++ [(60, ERecv 0 1); (100, EDone 53)].

Lemma no_wedge_iff_refuted :
  exists sc ob, s_no_wedge sc ob /\ o_no_wedge sc ob = false.
Proof.
  exists wedge_sc, wedge_ob. split; [|vm_compute; reflexivity].
  intros c Hc Hcall r Hcr Hd Hr.
  assert (Hn : nsteps wedge_sc = 54) by (vm_compute; reflexivity).
  assert (Hsteps : steps wedge_sc = zrange 0 54) by (vm_compute; reflexivity).
  rewrite Hsteps in Hc. apply In_zrange in Hc. rewrite Hn in Hr.
  assert (Hall : forallb (fun c =>
            match done_step wedge_ob c with
            | Some d => (d =? c) || ((c =? 53) && (d =? 100))
            | None => false end) (zrange 0 54) = true) by (vm_compute; reflexivity).
  rewrite forallb_forall in Hall. specialize (Hall c (proj2 (In_zrange 0 54 c) Hc)).
  destruct (done_step wedge_ob c) as [d|] eqn:Ed; [|discriminate Hall].
  specialize (Hd d eq_refl).
  apply orb_true_iff in Hall. destruct Hall as [Hdc | Hdc].
  - apply Z.eqb_eq in Hdc. lia.
  - apply andb_true_iff in Hdc. destruct Hdc as [Hc53 _]. apply Z.eqb_eq in Hc53.
    assert (r = 53) by lia. subst r. vm_compute. reflexivity.
Qed.
