(* C10 — events/batcher.Batcher as an event system (definitions only).

   Faithful to /repo/events/batcher/batcher.go; the queue.Processor underneath is modelled by its
   SPEC (C06): "the callback fires for key k with the last enqueued value once its due time has
   come, in due order, one callback at a time; after Close has taken the loop down no callback".

   Goroutines and where they block (= where events are split):
   * the processor loop: [proc] = PIdle (waiting for a due item) | PCall v (inside executeFn =
     Batcher.execute: first waiting for b.lock, then — [lock] = Exec v idx — sending v to the
     idx-th subscriber buffer, a send that blocks while that buffer is full);
   * one forwarder per subscriber: [fwd] = Idle (outer select) | Holding v (inner select, blocked
     on the user's channel) | ExitWantLock (left the loop, deferred function waits for b.lock) |
     Exited;
   * Subscribe callers blocked on b.lock: [pend_subs];
   * the FIRST Close caller: [cl] = CWaitLoop (inside queue.Close, waiting for the loop to end) |
     CWantLock | CWaitFwd (wg.Wait) | CReturned; further Close callers: [cl2].
   Critical sections that cannot block (Subscribe's, the forwarder's deregistration, Close's)
   are single events that require the lock to be free.

   [variant]: Original = before the fix (execute selects on {send, closeCh} only);
   Fixed = current tree (per-subscriber exit channel, closed by the forwarder BEFORE it asks for
   the lock, selected on in execute). *)
From Kit Require Export Lib.Base.

Definition val := Z.
Definition key := Z.

(* make(chan T, 50) *)
Definition bufcap : nat := 50.

Inductive fwdst := Idle | Holding (v : val) | ExitWantLock | Exited.
Inductive lockst := Free | Exec (v : val) (idx : nat).
Inductive procst := PIdle | PCall (v : val).
Inductive closepc := CNone | CWaitLoop | CWantLock | CWaitFwd | CReturned.
(* a further Close call (queue.Close's CompareAndSwap fails): waits for the queue loop to be gone
   (deferred p.wg.Wait()), takes the lock (closes closeCh if nobody has yet), waits for forwarders *)
Inductive close2pc := K2WaitLoop | K2WantLock | K2WaitFwd | K2Returned.

Record sub := mkSub {
  prompt : bool;        (* consumer: receives whenever something is offered *)
  wants : nat;          (* consumer on command: number of outstanding receive commands *)
  buf : list val;       (* bufferedCh *)
  fwd : fwdst;
  ctx_done : bool;
  exit_closed : bool;   (* Fixed only: the subscriber's exit channel has been closed *)
  registered : bool;    (* member of b.eventChs *)
  user_closed : bool;   (* close(ch) has happened *)
  closed_seen : bool;   (* the consumer has observed the closure *)
  received : list val;  (* what the consumer got, in order *)
  (* ghost *)
  accepted : bool;      (* false: Subscribe after Close — silently dropped, no forwarder *)
  start : nat;          (* length of [fanout] when the subscription took effect *)
  gap : bool            (* some value was dropped on the way to this subscriber *)
}.

(* pending queue entry: value, due time, ghost instance number (index of the Batch call in hist) *)
Definition pend := (val * Z * nat)%type.
Definition p_val (p : pend) : val := fst (fst p).
Definition p_due (p : pend) : Z := snd (fst p).
Definition p_id (p : pend) : nat := snd p.

Record st := mkSt {
  subs : list sub;               (* every subscriber ever, index = order of lock acquisition *)
  lock : lockst;                 (* b.lock: Free, or held by execute *)
  proc : procst;
  pending : list (key * pend);   (* the processor's queue: at most one entry per key *)
  now : Z;
  qstopped : bool;               (* queue.Close has set stopped / closed stopCh *)
  loop_dead : bool;              (* the processor loop has ended for good *)
  closed : bool;                 (* b.closed / closeCh closed *)
  cl : closepc;
  pend_subs : list (Z * (bool * bool)); (* Subscribe calls waiting for the lock: call id, (prompt
                                    consumer, the context passed has already ended) *)
  (* ghost *)
  fanout : list val;             (* values for which execute started to fan out, in order *)
  hist : list (key * val * Z);   (* accepted Batch calls: key, value, time of the call *)
  fired : list (nat * Z);        (* callbacks: instance number, time of the pop *)
  (* further Close calls in progress, in the order they were issued: call id, where it is *)
  cl2 : list (Z * close2pc)
}.

Definition init : st :=
  mkSt [] Free PIdle [] 0 false false false CNone [] [] [] [] [].

(* ---------------------------------------------------------------------------------------- *)
(* setters *)

Definition set_subs (s : st) (x : list sub) : st :=
  mkSt x (lock s) (proc s) (pending s) (now s) (qstopped s) (loop_dead s) (closed s) (cl s)
       (pend_subs s) (fanout s) (hist s) (fired s) (cl2 s).
Definition set_lock (s : st) (x : lockst) : st :=
  mkSt (subs s) x (proc s) (pending s) (now s) (qstopped s) (loop_dead s) (closed s) (cl s)
       (pend_subs s) (fanout s) (hist s) (fired s) (cl2 s).
Definition set_proc (s : st) (x : procst) : st :=
  mkSt (subs s) (lock s) x (pending s) (now s) (qstopped s) (loop_dead s) (closed s) (cl s)
       (pend_subs s) (fanout s) (hist s) (fired s) (cl2 s).
Definition set_pending (s : st) (x : list (key * pend)) : st :=
  mkSt (subs s) (lock s) (proc s) x (now s) (qstopped s) (loop_dead s) (closed s) (cl s)
       (pend_subs s) (fanout s) (hist s) (fired s) (cl2 s).
Definition set_now (s : st) (x : Z) : st :=
  mkSt (subs s) (lock s) (proc s) (pending s) x (qstopped s) (loop_dead s) (closed s) (cl s)
       (pend_subs s) (fanout s) (hist s) (fired s) (cl2 s).
Definition set_qstopped (s : st) (x : bool) : st :=
  mkSt (subs s) (lock s) (proc s) (pending s) (now s) x (loop_dead s) (closed s) (cl s)
       (pend_subs s) (fanout s) (hist s) (fired s) (cl2 s).
Definition set_loop_dead (s : st) (x : bool) : st :=
  mkSt (subs s) (lock s) (proc s) (pending s) (now s) (qstopped s) x (closed s) (cl s)
       (pend_subs s) (fanout s) (hist s) (fired s) (cl2 s).
Definition set_closed (s : st) (x : bool) : st :=
  mkSt (subs s) (lock s) (proc s) (pending s) (now s) (qstopped s) (loop_dead s) x (cl s)
       (pend_subs s) (fanout s) (hist s) (fired s) (cl2 s).
Definition set_cl (s : st) (x : closepc) : st :=
  mkSt (subs s) (lock s) (proc s) (pending s) (now s) (qstopped s) (loop_dead s) (closed s) x
       (pend_subs s) (fanout s) (hist s) (fired s) (cl2 s).
Definition set_pend_subs (s : st) (x : list (Z * (bool * bool))) : st :=
  mkSt (subs s) (lock s) (proc s) (pending s) (now s) (qstopped s) (loop_dead s) (closed s) (cl s)
       x (fanout s) (hist s) (fired s) (cl2 s).
Definition set_fanout (s : st) (x : list val) : st :=
  mkSt (subs s) (lock s) (proc s) (pending s) (now s) (qstopped s) (loop_dead s) (closed s) (cl s)
       (pend_subs s) x (hist s) (fired s) (cl2 s).
Definition set_hist (s : st) (x : list (key * val * Z)) : st :=
  mkSt (subs s) (lock s) (proc s) (pending s) (now s) (qstopped s) (loop_dead s) (closed s) (cl s)
       (pend_subs s) (fanout s) x (fired s) (cl2 s).
Definition set_fired (s : st) (x : list (nat * Z)) : st :=
  mkSt (subs s) (lock s) (proc s) (pending s) (now s) (qstopped s) (loop_dead s) (closed s) (cl s)
       (pend_subs s) (fanout s) (hist s) x (cl2 s).
Definition set_cl2 (s : st) (x : list (Z * close2pc)) : st :=
  mkSt (subs s) (lock s) (proc s) (pending s) (now s) (qstopped s) (loop_dead s) (closed s) (cl s)
       (pend_subs s) (fanout s) (hist s) (fired s) x.

Definition sb_wants (b : sub) (x : nat) : sub :=
  mkSub (prompt b) x (buf b) (fwd b) (ctx_done b) (exit_closed b) (registered b) (user_closed b)
        (closed_seen b) (received b) (accepted b) (start b) (gap b).
Definition sb_prompt (b : sub) (x : bool) : sub :=
  mkSub x (wants b) (buf b) (fwd b) (ctx_done b) (exit_closed b) (registered b) (user_closed b)
        (closed_seen b) (received b) (accepted b) (start b) (gap b).
Definition sb_buf (b : sub) (x : list val) : sub :=
  mkSub (prompt b) (wants b) x (fwd b) (ctx_done b) (exit_closed b) (registered b) (user_closed b)
        (closed_seen b) (received b) (accepted b) (start b) (gap b).
Definition sb_fwd (b : sub) (x : fwdst) : sub :=
  mkSub (prompt b) (wants b) (buf b) x (ctx_done b) (exit_closed b) (registered b) (user_closed b)
        (closed_seen b) (received b) (accepted b) (start b) (gap b).
Definition sb_ctx_done (b : sub) (x : bool) : sub :=
  mkSub (prompt b) (wants b) (buf b) (fwd b) x (exit_closed b) (registered b) (user_closed b)
        (closed_seen b) (received b) (accepted b) (start b) (gap b).
Definition sb_exit_closed (b : sub) (x : bool) : sub :=
  mkSub (prompt b) (wants b) (buf b) (fwd b) (ctx_done b) x (registered b) (user_closed b)
        (closed_seen b) (received b) (accepted b) (start b) (gap b).
Definition sb_registered (b : sub) (x : bool) : sub :=
  mkSub (prompt b) (wants b) (buf b) (fwd b) (ctx_done b) (exit_closed b) x (user_closed b)
        (closed_seen b) (received b) (accepted b) (start b) (gap b).
Definition sb_user_closed (b : sub) (x : bool) : sub :=
  mkSub (prompt b) (wants b) (buf b) (fwd b) (ctx_done b) (exit_closed b) (registered b) x
        (closed_seen b) (received b) (accepted b) (start b) (gap b).
Definition sb_closed_seen (b : sub) (x : bool) : sub :=
  mkSub (prompt b) (wants b) (buf b) (fwd b) (ctx_done b) (exit_closed b) (registered b)
        (user_closed b) x (received b) (accepted b) (start b) (gap b).
Definition sb_received (b : sub) (x : list val) : sub :=
  mkSub (prompt b) (wants b) (buf b) (fwd b) (ctx_done b) (exit_closed b) (registered b)
        (user_closed b) (closed_seen b) x (accepted b) (start b) (gap b).
Definition sb_gap (b : sub) (x : bool) : sub :=
  mkSub (prompt b) (wants b) (buf b) (fwd b) (ctx_done b) (exit_closed b) (registered b)
        (user_closed b) (closed_seen b) (received b) (accepted b) (start b) x.

(* a subscription that took effect while open / one dropped because the batcher was closed *)
Definition new_sub (p : bool) (st0 : nat) : sub :=
  mkSub p 0 [] Idle false false true false false [] true st0 false.
Definition dropped_sub (p : bool) (st0 : nat) : sub :=
  mkSub p 0 [] Exited false false false false false [] false st0 false.

(* what Subscribe registers under the lock: nothing (silently dropped) once the batcher is closed;
   otherwise a subscriber with its forwarder — ALSO when the context passed has already ended (the
   forwarder then sees ctx.Done() at its first select, deregisters and closes the channel) *)
Definition mk_sub (is_closed : bool) (pc : bool * bool) (st0 : nat) : sub :=
  if is_closed then dropped_sub (fst pc) st0 else sb_ctx_done (new_sub (fst pc) st0) (snd pc).

Fixpoint upd_nth {A} (i : nat) (x : A) (l : list A) : list A :=
  match l, i with
  | [], _ => []
  | _ :: t, O => x :: t
  | h :: t, S j => h :: upd_nth j x t
  end.

Fixpoint remove_nth {A} (i : nat) (l : list A) : list A :=
  match l, i with
  | [], _ => []
  | _ :: t, O => t
  | h :: t, S j => h :: remove_nth j t
  end.

(* the processor's queue *)
Definition plookup (k : key) (p : list (key * pend)) : option pend :=
  match find (fun e => (fst e =? k)%Z) p with Some e => Some (snd e) | None => None end.
Definition premove (k : key) (p : list (key * pend)) : list (key * pend) :=
  filter (fun e => negb (fst e =? k)%Z) p.
Definition pupsert (k : key) (x : pend) (p : list (key * pend)) : list (key * pend) :=
  (k, x) :: premove k p.

(* ---------------------------------------------------------------------------------------- *)
(* events *)

Inductive ev :=
(* environment: API calls being issued, the clock, the subscribers' contexts and consumers *)
| Batch (k : key) (v : val)
| Advance (d : Z)
| SubscribeCall (id : Z) (p : bool) (c : bool)  (* c: with a context that has ALREADY ended *)
| CancelPending (j : nat)   (* the context of a Subscribe call still waiting for the lock ends *)
| Cancel (i : nat)
| Want (i : nat)
| WantAll (i : nat)
| CloseCall
(* internal: steps of the batcher's own goroutines and of calls in progress *)
| Pop (k : key)
| ExecBegin | ExecSend | ExecSkip | ExecPass | ExecEnd
| FwdTake (i : nat) | FwdDeliver (i : nat) | FwdDrop (i : nat) | FwdSeeDone (i : nat)
| FwdExitLocked (i : nat)
| ConsSeeClosed (i : nat)
| SubscribeLocked (j : nat)
| CloseLoopDone | CloseLock | CloseWait
(* a further Close call (any number, each from its own goroutine) *)
| Close2Call (id : Z)
| Close2LoopDone (j : nat) | Close2Lock (j : nat) | Close2Wait (j : nat).

Definition internal (e : ev) : bool :=
  match e with
  | Batch _ _ | Advance _ | SubscribeCall _ _ _ | CancelPending _ | Cancel _ | Want _ | WantAll _
  | CloseCall
  | Close2Call _ => false
  | _ => true
  end.

Definition with_sub (s : st) (i : nat) (g : sub -> option sub) : option st :=
  match nth_error (subs s) i with
  | Some b => match g b with
              | Some b' => Some (set_subs s (upd_nth i b' (subs s)))
              | None => None
              end
  | None => None
  end.

Definition departing (s : st) (b : sub) : bool := ctx_done b || closed s.
Definition consumer_ready (b : sub) : bool := prompt b || (0 <? wants b)%nat.

Definition is_exited (f : fwdst) : bool := match f with Exited => true | _ => false end.

Definition step (vr : variant) (iv : Z) (s : st) (e : ev) : option st :=
  match e with
  (* Batch: queue.Enqueue — no-op once the queue is stopped; otherwise insert-or-replace with
     due = now + interval. Never touches b.lock. *)
  | Batch k v =>
      if qstopped s then Some s
      else Some (set_hist (set_pending s (pupsert k (v, (now s + iv)%Z, length (hist s)) (pending s)))
                          (hist s ++ [(k, v, now s)]))
  | Advance d => if (d <? 0)%Z then None else Some (set_now s (now s + d)%Z)
  | SubscribeCall id p c => Some (set_pend_subs s (pend_subs s ++ [(id, (p, c))]))
  | CancelPending j =>
      match nth_error (pend_subs s) j with
      | Some (id, (p, _)) => Some (set_pend_subs s (upd_nth j (id, (p, true)) (pend_subs s)))
      | None => None
      end
  | Cancel i => with_sub s i (fun b => Some (sb_ctx_done b true))
  | Want i => with_sub s i (fun b => Some (sb_wants b (S (wants b))))
  | WantAll i => with_sub s i (fun b => Some (sb_prompt b true))
  (* Close, first part: queue.Close sets stopped and closes stopCh, then waits for the loop *)
  | CloseCall =>
      match cl s with
      | CNone => Some (set_qstopped (set_cl s CWaitLoop) true)
      | _ => None
      end
  (* the processor (by its spec): a due entry with minimal due time is popped and handed to the
     callback; only one callback at a time; none once the loop is dead *)
  | Pop k =>
      match proc s, loop_dead s, plookup k (pending s) with
      | PIdle, false, Some p =>
          if (p_due p <=? now s)%Z
             && forallb (fun e' => (p_due p <=? p_due (snd e'))%Z) (pending s)
          then Some (set_fired (set_pending (set_proc s (PCall (p_val p))) (premove k (pending s)))
                               (fired s ++ [(p_id p, now s)]))
          else None
      | _, _, _ => None
      end
  (* execute: b.lock.Lock(); if closed return; for each subscriber: select {...} *)
  | ExecBegin =>
      match proc s, lock s with
      | PCall v, Free =>
          if closed s then Some (set_proc s PIdle)
          else Some (set_fanout (set_lock s (Exec v 0)) (fanout s ++ [v]))
      | _, _ => None
      end
  | ExecSend =>
      match lock s with
      | Exec v idx =>
          match nth_error (subs s) idx with
          | Some b =>
              if registered b && (length (buf b) <? bufcap)%nat
              then Some (set_lock (set_subs s (upd_nth idx (sb_buf b (buf b ++ [v])) (subs s)))
                                  (Exec v (S idx)))
              else None
          | None => None
          end
      | Free => None
      end
  (* the other ready cases of the select: closeCh, and (Fixed) the subscriber's exit channel *)
  | ExecSkip =>
      match lock s with
      | Exec v idx =>
          match nth_error (subs s) idx with
          | Some b =>
              if registered b && (closed s || (is_fixed vr && exit_closed b))
              then Some (set_lock (set_subs s (upd_nth idx (sb_gap b true) (subs s)))
                                  (Exec v (S idx)))
              else None
          | None => None
          end
      | Free => None
      end
  (* subscribers that have deregistered are not in b.eventChs: the loop does not see them *)
  | ExecPass =>
      match lock s with
      | Exec v idx =>
          match nth_error (subs s) idx with
          | Some b => if registered b then None else Some (set_lock s (Exec v (S idx)))
          | None => None
          end
      | Free => None
      end
  | ExecEnd =>
      match lock s with
      | Exec v idx =>
          match nth_error (subs s) idx with
          | Some _ => None
          | None => Some (set_proc (set_lock s Free) PIdle)
          end
      | Free => None
      end
  (* forwarder, outer select: case env := <-bufferedCh (ready whenever the buffer is non-empty,
     also when ctx.Done()/closeCh are ready: select chooses at random) *)
  | FwdTake i =>
      with_sub s i (fun b =>
        match fwd b, buf b with
        | Idle, v :: r => Some (sb_fwd (sb_buf b r) (Holding v))
        | _, _ => None
        end)
  (* inner select: case ch <- env *)
  | FwdDeliver i =>
      with_sub s i (fun b =>
        match fwd b with
        | Holding v =>
            if consumer_ready b
            then Some (sb_fwd (sb_received (sb_wants b (if prompt b then wants b else pred (wants b)))
                                           (received b ++ [v])) Idle)
            else None
        | _ => None
        end)
  (* inner select: case <-ctx.Done() / case <-b.closeCh — the value is dropped and the loop goes
     round again (it does NOT return here) *)
  | FwdDrop i =>
      with_sub s i (fun b =>
        match fwd b with
        | Holding _ => if departing s b then Some (sb_gap (sb_fwd b Idle) true) else None
        | _ => None
        end)
  (* outer select: case <-ctx.Done() / <-b.closeCh: return; the deferred function starts:
     Fixed closes the exit channel first; then both wait for b.lock *)
  | FwdSeeDone i =>
      with_sub s i (fun b =>
        match fwd b with
        | Idle => if departing s b
                  then Some (sb_exit_closed (sb_fwd b ExitWantLock) (is_fixed vr))
                  else None
        | _ => None
        end)
  (* deferred function under the lock: close(ch), remove from eventChs; unlock; wg.Done *)
  | FwdExitLocked i =>
      match lock s with
      | Free =>
          with_sub s i (fun b =>
            match fwd b with
            | ExitWantLock => Some (sb_registered (sb_user_closed (sb_fwd b Exited) true) false)
            | _ => None
            end)
      | _ => None
      end
  | ConsSeeClosed i =>
      with_sub s i (fun b =>
        if user_closed b && negb (closed_seen b) && consumer_ready b
        then Some (sb_closed_seen b true) else None)
  (* Subscribe under the lock: dropped silently when closed, else appended with its forwarder *)
  | SubscribeLocked j =>
      match lock s, nth_error (pend_subs s) j with
      | Free, Some (_, pc) =>
          Some (set_subs (set_pend_subs s (remove_nth j (pend_subs s)))
                         (subs s ++ [mk_sub (closed s) pc (length (fanout s))]))
      | _, _ => None
      end
  (* queue.Close returns once the loop has ended; the loop cannot end inside a callback *)
  | CloseLoopDone =>
      match cl s, proc s with
      | CWaitLoop, PIdle => Some (set_loop_dead (set_cl s CWantLock) true)
      | _, _ => None
      end
  (* b.lock.Lock(); closed = true; close(closeCh); b.lock.Unlock() *)
  | CloseLock =>
      match cl s, lock s with
      | CWantLock, Free => Some (set_closed (set_cl s CWaitFwd) true)
      | _, _ => None
      end
  (* deferred b.wg.Wait() *)
  | CloseWait =>
      match cl s with
      | CWaitFwd => if forallb (fun b => is_exited (fwd b)) (subs s)
                    then Some (set_cl s CReturned) else None
      | _ => None
      end
  (* A further Close call while / after a first one: b.queue.Close() finds the queue already
     stopped and only waits (p.wg.Wait()) for the loop goroutine to be gone ... *)
  | Close2Call id =>
      match cl s with
      | CNone => None
      | _ => Some (set_cl2 s (cl2 s ++ [(id, K2WaitLoop)]))
      end
  | Close2LoopDone j =>
      match nth_error (cl2 s) j with
      | Some (id, K2WaitLoop) =>
          if loop_dead s then Some (set_cl2 s (upd_nth j (id, K2WantLock) (cl2 s))) else None
      | _ => None
      end
  (* ... then b.lock.Lock(); the CompareAndSwap on closed (closing closeCh if this call is the
     first to get here); b.lock.Unlock() ... *)
  | Close2Lock j =>
      match nth_error (cl2 s) j, lock s with
      | Some (id, K2WantLock), Free =>
          Some (set_closed (set_cl2 s (upd_nth j (id, K2WaitFwd) (cl2 s))) true)
      | _, _ => None
      end
  (* ... and the deferred b.wg.Wait() *)
  | Close2Wait j =>
      match nth_error (cl2 s) j with
      | Some (id, K2WaitFwd) =>
          if forallb (fun b => is_exited (fwd b)) (subs s)
          then Some (set_cl2 s (upd_nth j (id, K2Returned) (cl2 s))) else None
      | _ => None
      end
  end.

Fixpoint run (vr : variant) (iv : Z) (s : st) (es : list ev) : option st :=
  match es with
  | [] => Some s
  | e :: r => match step vr iv s e with Some s' => run vr iv s' r | None => None end
  end.

Inductive reachable (vr : variant) (iv : Z) : st -> Prop :=
| reach_init : reachable vr iv init
| reach_step s e s' : reachable vr iv s -> step vr iv s e = Some s' -> reachable vr iv s'.

(* ---------------------------------------------------------------------------------------- *)
(* quiescence: no internal event enabled; executable through a complete candidate list *)

Definition stuck (vr : variant) (iv : Z) (s : st) : Prop :=
  forall e, internal e = true -> step vr iv s e = None.

Definition sub_cands (i : nat) : list ev :=
  [FwdDeliver i; FwdDrop i; FwdSeeDone i; FwdTake i; ConsSeeClosed i].

(* Priority order = the order in which the run-to-quiescence scheduler of Check.v fires events.
   Every enabled internal event is in the list (candidates_complete in Proofs). *)
Definition candidates (s : st) : list ev :=
  [ExecSend; ExecSkip; ExecPass; ExecEnd]
  ++ flat_map sub_cands (seq 0 (length (subs s)))
  ++ map SubscribeLocked (seq 0 (length (pend_subs s)))
  ++ map FwdExitLocked (seq 0 (length (subs s)))
  ++ [CloseLoopDone; CloseLock; CloseWait]
  ++ flat_map (fun j => [Close2LoopDone j; Close2Lock j; Close2Wait j]) (seq 0 (length (cl2 s)))
  ++ [ExecBegin]
  ++ map (fun e => Pop (fst e)) (pending s).

Definition enabledb (vr : variant) (iv : Z) (s : st) (e : ev) : bool :=
  match step vr iv s e with Some _ => true | None => false end.

Definition first_enabled (vr : variant) (iv : Z) (s : st) : option ev :=
  find (enabledb vr iv s) (candidates s).

(* termination measure of internal activity (internal_decreases in Proofs) *)
Definition fwd_cost (f : fwdst) : nat :=
  match f with Idle => 2 | Holding _ => 3 | ExitWantLock => 1 | Exited => 0 end.
Definition sub_cost (b : sub) : nat :=
  2 * length (buf b) + fwd_cost (fwd b) + (if closed_seen b then 0 else 1).
Definition total_subs (s : st) : nat := length (subs s) + length (pend_subs s).
Definition exec_cost (s : st) : nat :=
  match lock s with
  | Exec _ idx => 3 * (total_subs s - idx) + 1
  | Free => match proc s with PCall _ => 3 * total_subs s + 2 | PIdle => 0 end
  end.
Definition close_cost (c : closepc) : nat :=
  match c with CNone => 0 | CWaitLoop => 3 | CWantLock => 2 | CWaitFwd => 1 | CReturned => 0 end.
Definition close2_cost (c : close2pc) : nat :=
  match c with K2WaitLoop => 3 | K2WantLock => 2 | K2WaitFwd => 1 | K2Returned => 0 end.
Definition measure (s : st) : nat :=
  length (pending s) * (3 * total_subs s + 3) + exec_cost s
  + list_sum (map sub_cost (subs s)) + 4 * length (pend_subs s) + close_cost (cl s)
  + list_sum (map (fun e => close2_cost (snd e)) (cl2 s)).

(* run internal events (in candidate priority order) until none is enabled *)
Fixpoint quiesce_fuel (fuel : nat) (vr : variant) (iv : Z) (s : st) : st :=
  match fuel with
  | O => s
  | S f => match first_enabled vr iv s with
           | Some e => match step vr iv s e with
                       | Some s' => quiesce_fuel f vr iv s'
                       | None => s
                       end
           | None => s
           end
  end.

Definition quiesce (vr : variant) (iv : Z) (s : st) : st := quiesce_fuel (measure s) vr iv s.

(* ---------------------------------------------------------------------------------------- *)
(* end to end: the values of the Batch calls the queue has handed over, in hand-over order *)
Definition batch_val (s : st) (id : nat) : val :=
  match nth_error (hist s) id with Some h => snd (fst h) | None => 0%Z end.
Definition fired_vals (s : st) : list val := map (fun f => batch_val s (fst f)) (fired s).

(* a subscriber that stays subscribed (accepted, context alive, batcher open) and whose consumer
   is receiving *)
Definition staying_readerb (s : st) (b : sub) : bool :=
  accepted b && negb (ctx_done b) && negb (closed s) && consumer_ready b.

(* what [Proofs_e2e.at_rest_received] promises, as a boolean: evaluated by the correspondence on
   the model state after every script step at which the lock is free *)
Definition e2e_okb (s : st) : bool :=
  forallb (fun b => if staying_readerb s b
                    then eqb_listZ (received b) (skipn (start b) (fired_vals s)) else true)
          (subs s).

(* what [Proofs_e2e.close_state_final] promises about the state itself, as a boolean: once a Close
   call has returned, a channel has been closed iff its subscription was accepted *)
Definition any_returnedb (s : st) : bool :=
  match cl s with CReturned => true | _ => false end
  || existsb (fun e => match snd e with K2Returned => true | _ => false end) (cl2 s).
Definition close_final_okb (s : st) : bool :=
  if any_returnedb s then forallb (fun b => Bool.eqb (accepted b) (user_closed b)) (subs s)
  else true.
