(* C10 — the property, written from its text (properties.jsonl, id C10) and the package docs,
   NOT from the code:

     "While the batcher is open, for each key the value of the most recent Batch call is
      delivered exactly once to every subscriber that stays subscribed, one interval after that
      call; earlier values for the key inside the interval are suppressed, and all subscribers see
      the same sequence. A subscriber whose context ends — even with undelivered events buffered
      for it — never blocks delivery to the others, later Batch calls or Close; after Close
      returns nothing more is sent and every subscriber channel has been closed."

   It is stated over what an observer of a scripted run sees: a script of environment steps and,
   per step, the events observed once the batcher has come to rest after that step. Nothing here
   mentions locks, buffers' contents, forwarders or the processor. The only number taken from the
   implementation's documentation is the per-subscriber buffer of 50: a subscriber that is alive,
   does not read and may have 52 or more values outstanding (1 in flight to its channel + 50
   buffered + 1 being handed over) may legitimately hold up the batcher (back-pressure); nothing
   else may. *)
From Coq Require Import List ZArith Bool Lia.
Import ListNotations.
Open Scope Z_scope.

(* ---------------------------------------------------------------------------------------- *)
(* scripts and observations *)

Inductive op :=
| OSub (p : bool)     (* Subscribe a new channel; its consumer reads promptly (true) or on command *)
| OSubDone (p : bool) (* Subscribe a new channel with a context that has ALREADY ended *)
| OBatch (k : Z)      (* Batch(k, v) where v = the step number of this op *)
| OAdv (d : Z)        (* the clock advances by d > 0 *)
| OAdvBatch (d k : Z) (* the clock advances by d > 0 and Batch(k, v) is called AT ONCE, without
                         waiting for the batcher to come to rest in between (v = this step) *)
| ORead (i : Z)       (* the consumer of subscriber i is told to receive one value *)
| OReadAll (i : Z)    (* ... to receive everything from now on *)
| OCancel (i : Z)     (* subscriber i's context ends *)
| OClose.             (* Close() *)

Inductive oev :=
| ERecv (i v : Z)     (* subscriber i's consumer received v *)
| EClosed (i : Z)     (* subscriber i's consumer saw its channel closed *)
| EDone (c : Z)       (* the call issued at step c (Subscribe / Batch / Close) returned *)
| EOpen (c i : Z).    (* at the very moment the Close call issued at step c returned, its caller found
                         subscriber i's channel still OPEN (probed for the subscribers whose consumer
                         was not receiving at that moment) *)

(* (step after which it was observed, event) *)
Definition obs := list (Z * oev).

(* a list paired with the positions 0, 1, 2, ... of its elements *)
Fixpoint zindex_from {A} (n : Z) (l : list A) : list (Z * A) :=
  match l with [] => [] | x :: r => (n, x) :: zindex_from (n + 1) r end.
Definition zindex {A} (l : list A) : list (Z * A) := zindex_from 0 l.

Section Spec.
Variable iv : Z.                (* the batcher's interval *)
Variable sc : list op.          (* the script *)
Variable ob : obs.              (* the observation *)

Definition isc : list (Z * op) := zindex sc.
Definition nsteps : Z := Z.of_nat (length sc).
Definition steps : list Z := map fst isc.

(* virtual time once step r has been carried out *)
Definition time_after (r : Z) : Z :=
  fold_left (fun acc e => match snd e with
                          | OAdv d | OAdvBatch d _ => if fst e <=? r then acc + d else acc
                          | _ => acc end) isc 0.

(* Batch calls: (step = value, key) *)
Definition batches : list (Z * Z) :=
  flat_map (fun e => match snd e with OBatch k | OAdvBatch _ k => [(fst e, k)] | _ => [] end) isc.

Definition batch_key (v : Z) : option Z :=
  match find (fun b => fst b =? v) batches with Some b => Some (snd b) | None => None end.

(* the instant one interval after the Batch call that carried value v *)
Definition due (v : Z) : Z := time_after v + iv.

(* subscribers, in the order of the Subscribe calls: (step of the call, prompt consumer) *)
Definition subscribers : list (Z * bool) :=
  flat_map (fun e => match snd e with OSub p | OSubDone p => [(fst e, p)] | _ => [] end) isc.
(* the subscribers whose context had ended before Subscribe was called: their Subscribe steps *)
Definition born_done : list Z :=
  flat_map (fun e => match snd e with OSubDone _ => [fst e] | _ => [] end) isc.
Definition isubs : list (Z * (Z * bool)) := zindex subscribers.

Definition first_step (f : op -> bool) : option Z :=
  match find (fun e => f (snd e)) isc with Some e => Some (fst e) | None => None end.

(* the step at which subscriber i's context ended: its own Subscribe step if it was born ended *)
Definition cancel_step (i : Z) : option Z :=
  match find (fun e => fst e =? i) isubs with
  | Some (_, (p, _)) =>
      if existsb (Z.eqb p) born_done then Some p
      else first_step (fun o => match o with OCancel j => j =? i | _ => false end)
  | None => first_step (fun o => match o with OCancel j => j =? i | _ => false end)
  end.
Definition readall_step (i : Z) : option Z :=
  first_step (fun o => match o with OReadAll j => j =? i | _ => false end).
Definition close_step : option Z :=
  first_step (fun o => match o with OClose => true | _ => false end).

Definition before (o : option Z) (r : Z) : bool :=   (* happened at a step <= r *)
  match o with Some x => x <=? r | None => false end.

(* observations *)
Definition recvs (i : Z) : list (Z * Z) :=           (* (step, value) received by subscriber i *)
  flat_map (fun e => match snd e with
                     | ERecv j v => if j =? i then [(fst e, v)] else []
                     | _ => [] end) ob.
Definition vals (i : Z) : list Z := map snd (recvs i).
Definition recv_at (i r : Z) : list Z :=
  map snd (filter (fun e => fst e =? r) (recvs i)).
Definition recv_count_upto (i r : Z) : Z :=
  Z.of_nat (length (filter (fun e => fst e <=? r) (recvs i))).
Definition closed_step (i : Z) : option Z :=
  match find (fun e => match snd e with EClosed j => j =? i | _ => false end) ob with
  | Some e => Some (fst e) | None => None end.
Definition done_step (c : Z) : option Z :=
  match find (fun e => match snd e with EDone c' => c' =? c | _ => false end) ob with
  | Some e => Some (fst e) | None => None end.

Definition memZ (x : Z) (l : list Z) : bool := existsb (Z.eqb x) l.

(* ---------------------------------------------------------------------------------------- *)
(* 0. the observation is about this script: received values are values of earlier Batch calls,
      subscribers exist, returned calls were issued *)

Definition is_call (c : Z) : bool :=
  match nth_error sc (Z.to_nat c) with
  | Some (OSub _) | Some (OSubDone _) | Some (OBatch _) | Some (OAdvBatch _ _) | Some OClose => (0 <=? c)
  | _ => false
  end.

Definition sub_exists_by (i r : Z) : bool :=
  existsb (fun e => (fst e =? i) && (fst (snd e) <=? r)) isubs.

Definition ev_valid (e : Z * oev) : bool :=
  let r := fst e in
  (0 <=? r) && (r <? nsteps) &&
  match snd e with
  | ERecv i v => sub_exists_by i r && (v <? r) && match batch_key v with Some _ => true | None => false end
  | EClosed i => sub_exists_by i r
  | EDone c => is_call c && (c <=? r)
  | EOpen c i => is_call c && (c <=? r) && sub_exists_by i r
  end.
Definition o_valid : bool := forallb ev_valid ob.
Definition s_valid : Prop := forall e, In e ob -> ev_valid e = true.

(* ---------------------------------------------------------------------------------------- *)
(* 1. "exactly once": no subscriber receives the value of one Batch call twice *)

Fixpoint nodupb (l : list Z) : bool :=
  match l with [] => true | x :: r => negb (memZ x r) && nodupb r end.
Definition o_once : bool := forallb (fun e => nodupb (vals (fst e))) isubs.
Definition s_once : Prop := forall i, In i (map fst isubs) -> NoDup (vals i).

(* 2. "one interval after that call": never before the interval has elapsed *)
Definition o_not_early : bool :=
  forallb (fun e => match snd e with ERecv _ v => due v <=? time_after (fst e) | _ => true end) ob.
Definition s_not_early : Prop :=
  forall r i v, In (r, ERecv i v) ob -> due v <= time_after r.

(* 3. "earlier values for the key inside the interval are suppressed": a received value was not
      followed by another Batch of its key before its interval had elapsed. (A Batch at exactly
      the due instant races the timer: allowed either way.) *)
Definition superseded_inside (v : Z) : bool :=
  match batch_key v with
  | Some k => let dv := due v in
              existsb (fun b => if (v <? fst b) && (snd b =? k) then time_after (fst b) <? dv
                                else false) batches
  | None => false
  end.
Definition o_suppress : bool :=
  forallb (fun e => match snd e with ERecv _ v => negb (superseded_inside v) | _ => true end) ob.
Definition s_suppress : Prop :=
  forall r i v k, In (r, ERecv i v) ob -> batch_key v = Some k ->
    forall v', In (v', k) batches -> v < v' -> due v <= time_after v'.

(* 4. "all subscribers see the same sequence": (a) every subscriber receives in due order;
      (b) any two subscribers receive their common values in the same order; (c) a subscriber
      whose context never ends has no hole while the batcher is open: whatever another subscriber received between two
      values this one received, this one received too. *)
Fixpoint sorted_by (f : Z -> Z) (l : list Z) : bool :=
  match l with
  | x :: ((y :: _) as r) => (f x <=? f y) && sorted_by f r
  | _ => true
  end.
Definition o_due_order : bool := forallb (fun e => sorted_by due (vals (fst e))) isubs.
Definition s_due_order : Prop :=
  forall i, In i (map fst isubs) ->
    forall a x y b, vals i = a ++ x :: y :: b -> due x <= due y.

Fixpoint eqb_lz (a b : list Z) : bool :=
  match a, b with
  | [], [] => true
  | x :: a', y :: b' => (x =? y) && eqb_lz a' b'
  | _, _ => false
  end.
Definition common (a b : list Z) : list Z := filter (fun x => memZ x b) a.
Definition o_same_order : bool :=
  forallb (fun e1 => forallb (fun e2 =>
     eqb_lz (common (vals (fst e1)) (vals (fst e2))) (common (vals (fst e2)) (vals (fst e1)))) isubs) isubs.
Definition s_same_order : Prop :=
  forall i j, In i (map fst isubs) -> In j (map fst isubs) ->
    common (vals i) (vals j) = common (vals j) (vals i).

Fixpoint drop_until (f : Z -> bool) (l : list Z) : list Z :=
  match l with [] => [] | x :: r => if f x then l else drop_until f r end.
(* the part of [b] from its first to its last element that is in [a] *)
Definition between (a b : list Z) : list Z :=
  rev (drop_until (fun x => memZ x a) (rev (drop_until (fun x => memZ x a) b))).
Definition stays (i : Z) : bool := match cancel_step i with None => true | Some _ => false end.
(* "While the batcher is open": values still on their way to a consumer when Close is called may be
   handed over or dropped one by one (the forwarder's selects choose at random once closeCh is
   closed), so the no-hole requirement is about what a subscriber had received BEFORE the step at
   which Close was called: nothing another subscriber got between two of THOSE values is missing. *)
Definition open_vals (i : Z) : list Z :=
  match close_step with
  | None => vals i
  | Some c => map snd (filter (fun e => fst e <? c) (recvs i))
  end.
Definition o_no_hole : bool :=
  forallb (fun e1 => negb (stays (fst e1)) ||
     forallb (fun e2 => forallb (fun x => memZ x (vals (fst e1))) (between (open_vals (fst e1)) (vals (fst e2)))) isubs)
    isubs.
Definition s_no_hole : Prop :=
  forall i j, In i (map fst isubs) -> In j (map fst isubs) -> cancel_step i = None ->
    forall x, In x (between (open_vals i) (vals j)) -> In x (vals i).

(* ---------------------------------------------------------------------------------------- *)
(* back-pressure: at step r some subscriber that is alive and reads only on command may have 52 or
   more values outstanding (an over-approximation: every Batch call so far counts) *)
Definition batches_upto (r : Z) : Z := Z.of_nat (length (filter (fun b => fst b <=? r) batches)).
Definition may_block (r : Z) : bool :=
  existsb (fun e => let i := fst e in let p := fst (snd e) in
     negb (snd (snd e)) && (p <=? r) && negb (before (cancel_step i) r)
     && negb (before (readall_step i) r) && (52 <=? batches_upto r - recv_count_upto i r)) isubs.

(* 5. "never blocks ... later Batch calls or Close" (and Subscribe): while a call has not
      returned, back-pressure from a LIVE subscriber is the only excuse, at every step. *)
Definition zrange (a b : Z) : list Z := map (fun n => a + Z.of_nat n) (seq 0 (Z.to_nat (b - a))).
Definition call_ok (c : Z) : bool :=
  let d := match done_step c with Some d => d | None => nsteps end in
  forallb may_block (zrange c d).
Definition o_no_wedge : bool := forallb (fun c => if is_call c then call_ok c else true) steps.
Definition s_no_wedge : Prop :=
  forall c, In c steps -> is_call c = true ->
    forall r, c <= r -> (forall d, done_step c = Some d -> r < d) -> r < nsteps -> may_block r = true.

(* 6. "delivered exactly once to every subscriber that stays subscribed, one interval after that
      call" — the positive half, required on the prefix of the script on which back-pressure is
      impossible: after the step at which the clock first reaches the due instant of a Batch call
      that has not been superseded in between and was not cut off by Close, every prompt
      subscriber subscribed before that step (and not cancelled by then) has received exactly
      those values, in due order (values with equal due instants: in any order). *)
(* [tr], [tr1]: the virtual time after step r and after step r-1. A Batch of the same key issued
   within step r itself (OAdvBatch: the clock reaches the due instant and Batch is called before the
   batcher has come to rest) RACES the timer: the old value may be delivered or replaced — it is
   not required ([fires_at]) but allowed ([races_at]). *)
Definition fires_at (r tr tr1 : Z) (b : Z * Z) : bool :=
  let v := fst b in
  if v <? r then
    let dv := due v in
    if dv <=? tr then
      if tr1 <? dv then
        if existsb (fun b' => (v <? fst b') && (fst b' <=? r) && (snd b' =? snd b)) batches then false
        else negb (before close_step r)
      else false
    else false
  else false.
Definition races_at (r tr tr1 : Z) (b : Z * Z) : bool :=
  let v := fst b in
  if v <? r then
    let dv := due v in
    if dv <=? tr then
      if tr1 <? dv then
        if existsb (fun b' => (v <? fst b') && (fst b' <? r) && (snd b' =? snd b)) batches then false
        else existsb (fun b' => (fst b' =? r) && (snd b' =? snd b)) batches
      else false
    else false
  else false.

Fixpoint insert_by (f : Z -> Z) (x : Z) (l : list Z) : list Z :=
  match l with
  | [] => [x]
  | y :: r => if f y <=? f x then y :: insert_by f x r else x :: l
  end.
Definition sort_by (f : Z -> Z) (l : list Z) : list Z := fold_left (fun acc x => insert_by f x acc) l [].

Definition expected_at (r : Z) : list Z :=
  sort_by due (map fst (filter (fires_at r (time_after r) (time_after (r - 1))) batches)).
Definition optional_at (r : Z) : list Z :=
  map fst (filter (races_at r (time_after r) (time_after (r - 1))) batches).
(* what was received at step r, leaving out the values that were allowed but not required *)
Definition required_part (r : Z) (got : list Z) : list Z :=
  let opt := optional_at r in filter (fun x => negb (memZ x opt)) got.
Fixpoint has_tie (l : list Z) : bool :=
  match l with
  | x :: ((y :: _) as r) => (due x =? due y) || has_tie r
  | _ => false
  end.
Definition same_delivery (got want : list Z) : bool :=
  if has_tie want then eqb_lz (sort_by (fun x => x) got) (sort_by (fun x => x) want)
  else eqb_lz got want.

(* the first step at which back-pressure is possible (the script's length if there is none) *)
Definition block_from : Z := match find may_block steps with Some r => r | None => nsteps end.
Definition o_complete : bool :=
  let bf := block_from in
  forallb (fun r =>
     if r <? bf then
       let want := expected_at r in
       forallb (fun e => let i := fst e in let p := fst (snd e) in
          if snd (snd e) && (p <? r) && negb (before (cancel_step i) r)
          then same_delivery (required_part r (recv_at i r)) want else true) isubs
     else true) steps.
Definition s_complete : Prop :=
  forall i p, In (i, (p, true)) isubs ->
    forall r, In r steps -> p < r -> r < block_from -> before (cancel_step i) r = false ->
      same_delivery (required_part r (recv_at i r)) (expected_at r) = true.
(* what [block_from] is: no step before it admits back-pressure *)
Definition s_block_from : Prop :=
  forall r, In r steps -> r < block_from -> may_block r = false.

(* 7. "after Close returns nothing more is sent and every subscriber channel has been closed":
      nothing is received after the step at which a Close call was seen to return; every subscriber
      whose Subscribe had returned before Close was called, and whose consumer is reading, has
      seen its channel closed by then (by the time it started reading everything, if later). *)
(* Close may be called any number of times, from different goroutines; EVERY call that returns must
   meet the clause. [c0] = the step of the first Close call (subscriptions whose Subscribe had
   returned before it are certainly accepted), [c] = the step of the call considered. *)
Definition close_steps : list Z :=
  flat_map (fun e => match snd e with OClose => [fst e] | _ => [] end) isc.
Definition close_ok (c0 c : Z) : bool :=
  match done_step c with
  | None => true
  | Some d =>
      forallb (fun e : Z * oev => match snd e with ERecv _ _ => fst e <=? d | _ => true end) ob
      && forallb (fun e : Z * (Z * bool) => let i := fst e in let p := fst (snd e) in
           negb (match done_step p with Some q => q <? c0 | None => false end) ||
           match (if snd (snd e) then Some p else readall_step i) with
           | None => true
           | Some x => match closed_step i with
                       | Some y => y <=? Z.max d x
                       | None => false end
           end) isubs
  end.
Definition o_close : bool :=
  match close_step with
  | None => true
  | Some c0 => forallb (close_ok c0) close_steps
  end.
Definition s_close : Prop :=
  forall c0 c d, close_step = Some c0 -> In c close_steps -> done_step c = Some d ->
    (forall r i v, In (r, ERecv i v) ob -> r <= d) /\
    (forall i p pr q, In (i, (p, pr)) isubs -> done_step p = Some q -> q < c0 ->
       forall x, (if pr then Some p else readall_step i) = Some x ->
         exists y, closed_step i = Some y /\ y <= Z.max d x).

(* 8. a subscriber whose context has ended — before, during or after its Subscribe call — gets its
      channel closed: for a subscription that was certainly accepted (its Subscribe returned, and
      did so before the first Close call if there is one) and whose consumer is reading, at every
      step from then on at which back-pressure from a live stalled subscriber is impossible the
      consumer has seen the closure. *)
Definition reader_start (e : Z * (Z * bool)) : option Z :=
  if snd (snd e) then Some (fst (snd e)) else readall_step (fst e).
Definition accepted_for_sure (p : Z) : bool :=
  match done_step p with
  | Some q => match close_step with Some c0 => q <? c0 | None => true end
  | None => false
  end.
Definition depart_ok (e : Z * (Z * bool)) : bool :=
  match cancel_step (fst e), reader_start e, done_step (fst (snd e)) with
  | Some x, Some y, Some q =>
      if accepted_for_sure (fst (snd e)) then
        let t := Z.max x (Z.max y q) in
        forallb (fun r => if t <=? r then
                            if may_block r then true
                            else match closed_step (fst e) with Some z => z <=? r | None => false end
                          else true) steps
      else true
  | _, _, _ => true
  end.
Definition o_depart : bool := forallb depart_ok isubs.
Definition s_depart : Prop :=
  forall e, In e isubs ->
    forall x y q, cancel_step (fst e) = Some x -> reader_start e = Some y ->
      done_step (fst (snd e)) = Some q -> accepted_for_sure (fst (snd e)) = true ->
      forall r, In r steps -> Z.max x (Z.max y q) <= r -> may_block r = false ->
        exists z, closed_step (fst e) = Some z /\ z <= r.

(* 9. "after Close returns ... every subscriber channel HAS BEEN closed" — at the moment of the
      return, not a little later: the caller of a Close call never finds the channel of a certainly
      accepted subscription still open when that call returns. *)
Definition sub_accepted (i : Z) : bool :=
  match find (fun e => fst e =? i) isubs with
  | Some (_, (p, _)) => accepted_for_sure p
  | None => false
  end.
Definition o_at_return : bool :=
  forallb (fun e => match snd e with EOpen _ i => negb (sub_accepted i) | _ => true end) ob.
Definition s_at_return : Prop :=
  forall r c i, In (r, EOpen c i) ob -> sub_accepted i = false.

(* 10. nothing is lost, also after back-pressure: in a script without Close, if at its end no
       back-pressure is possible any more, then every subscriber that never left, whose consumer
       reads and whose Subscribe had returned before a Batch call that is the LAST one of its key and
       whose interval has elapsed by the end, has received that value (at some step). *)
Definition last_of_key (b : Z * Z) : bool :=
  negb (existsb (fun b' => (fst b <? fst b') && (snd b' =? snd b)) batches).
Definition final_step : Z := nsteps - 1.
Definition eventual_active : bool :=
  match close_step with
  | None => if 0 <? nsteps then negb (may_block final_step) else false
  | Some _ => false
  end.
Definition owed (q : Z) (b : Z * Z) : bool :=
  if q <? fst b then if last_of_key b then due (fst b) <=? time_after final_step else false else false.
Definition o_eventual : bool :=
  if eventual_active then
    forallb (fun e : Z * (Z * bool) =>
       match cancel_step (fst e), reader_start e, done_step (fst (snd e)) with
       | None, Some _, Some q =>
           forallb (fun b => if owed q b then memZ (fst b) (vals (fst e)) else true) batches
       | _, _, _ => true
       end) isubs
  else true.
Definition s_eventual : Prop :=
  eventual_active = true ->
  forall e, In e isubs -> cancel_step (fst e) = None ->
    forall y q, reader_start e = Some y -> done_step (fst (snd e)) = Some q ->
      forall b, In b batches -> owed q b = true -> In (fst b) (vals (fst e)).

Definition oracle : bool :=
  o_valid && o_once && o_not_early && o_suppress && o_due_order && o_same_order && o_no_hole
  && o_no_wedge && o_complete && o_close && o_depart && o_at_return && o_eventual.

Definition spec : Prop :=
  s_valid /\ s_once /\ s_not_early /\ s_suppress /\ s_due_order /\ s_same_order /\ s_no_hole
  /\ s_no_wedge /\ s_complete /\ s_close /\ s_depart /\ s_at_return /\ s_eventual.

End Spec.
