(* C10 — "all subscribers see the same sequence, each value exactly once".

   For BOTH variants and ALL schedules (induction on [reachable]): what a subscriber has in its
   pipeline (received ++ held by the forwarder ++ buffered) is a sublist of the segment of
   [fanout] starting at its subscription point, and it is exactly that segment as long as the
   subscriber is registered and no value was dropped for it ([gap = false]); a subscriber that
   stays subscribed (accepted, context not cancelled, batcher open) is registered and gap-free.

   Stdlib only; closed under the global context. *)
From Kit Require Import C10.Model.

(* ---------------------------------------------------------------------------------------- *)
(* definitions of the statement *)

Definition hold (f : fwdst) : list val := match f with Holding v => [v] | _ => [] end.
Definition pipeline (b : sub) : list val := received b ++ hold (fwd b) ++ buf b.

Definition offered_at (lk : lockst) (fo : list val) (i : nat) : list val :=
  match lk with
  | Exec _ idx => if (idx <=? i)%nat then removelast fo else fo
  | Free => fo
  end.

(* what has been offered to subscriber i so far: all of fanout, except the value currently being
   fanned out if execute has not reached index i yet *)
Definition offered (s : st) (i : nat) : list val :=
  match lock s with
  | Exec _ idx => if (idx <=? i)%nat then removelast (fanout s) else fanout s
  | Free => fanout s
  end.

Lemma offered_eq s i : offered s i = offered_at (lock s) (fanout s) i.
Proof. reflexivity. Qed.

Inductive sublist {A} : list A -> list A -> Prop :=
| sl_nil : sublist [] []
| sl_skip x l1 l2 : sublist l1 l2 -> sublist l1 (x :: l2)
| sl_keep x l1 l2 : sublist l1 l2 -> sublist (x :: l1) (x :: l2).

(* ---------------------------------------------------------------------------------------- *)
(* list lemmas *)

Lemma sublist_nil_l {A} (l : list A) : sublist [] l.
Proof. induction l; [apply sl_nil | apply sl_skip; assumption]. Qed.

Lemma sublist_refl {A} (l : list A) : sublist l l.
Proof. induction l; [apply sl_nil | apply sl_keep; assumption]. Qed.

Lemma sublist_app {A} (a b c d : list A) :
  sublist a b -> sublist c d -> sublist (a ++ c) (b ++ d).
Proof.
  intros Hab Hcd. induction Hab; cbn.
  - assumption.
  - apply sl_skip. assumption.
  - apply sl_keep. assumption.
Qed.

Lemma sublist_trans {A} (a b c : list A) : sublist a b -> sublist b c -> sublist a c.
Proof.
  intros Hab Hbc. revert a Hab.
  induction Hbc as [|x l1 l2 Hbc IH|x l1 l2 Hbc IH]; intros a Hab.
  - exact Hab.
  - apply sl_skip. apply IH. exact Hab.
  - inversion Hab; subst.
    + apply sl_skip. apply IH. assumption.
    + apply sl_keep. apply IH. assumption.
Qed.

Lemma sublist_snoc_skip {A} (p l : list A) v : sublist p l -> sublist p (l ++ [v]).
Proof.
  intro H. rewrite <- (app_nil_r p). apply sublist_app; [exact H | apply sublist_nil_l].
Qed.

Lemma sublist_snoc_keep {A} (p l : list A) v : sublist p l -> sublist (p ++ [v]) (l ++ [v]).
Proof. intro H. apply sublist_app; [exact H | apply sublist_refl]. Qed.

Lemma sublist_drop_mid {A} (a b l : list A) x : sublist (a ++ x :: b) l -> sublist (a ++ b) l.
Proof.
  intro H. eapply sublist_trans; [|exact H].
  apply sublist_app; [apply sublist_refl | apply sl_skip; apply sublist_refl].
Qed.

Lemma skipn_sublist {A} n (l : list A) : sublist (skipn n l) l.
Proof.
  revert l; induction n as [|n IH]; intros l; cbn.
  - apply sublist_refl.
  - destruct l as [|x l]; [apply sl_nil | apply sl_skip; apply IH].
Qed.

Lemma removelast_sublist {A} (l : list A) : sublist (removelast l) l.
Proof.
  induction l as [|x l _] using rev_ind.
  - cbn. constructor.
  - rewrite removelast_last. apply sublist_snoc_skip, sublist_refl.
Qed.

Lemma skipn_snoc {A} n (l : list A) v : (n <= length l)%nat -> skipn n (l ++ [v]) = skipn n l ++ [v].
Proof.
  intro H. rewrite skipn_app. replace (n - length l)%nat with 0%nat by lia. reflexivity.
Qed.

Lemma nth_error_upd_nth {A} i (x : A) l j :
  nth_error (upd_nth i x l) j =
  if (i =? j)%nat then match nth_error l j with Some _ => Some x | None => None end
  else nth_error l j.
Proof.
  revert i j; induction l as [|h t IH]; intros i j.
  - destruct i as [|i], j as [|j]; cbn; try reflexivity. destruct (i =? j)%nat; reflexivity.
  - destruct i as [|i], j as [|j]; cbn; try reflexivity. apply IH.
Qed.

Lemma upd_nth_same {A} i (x : A) l : nth_error l i = Some x -> upd_nth i x l = l.
Proof.
  revert i; induction l as [|h t IH]; intros i H.
  - destruct i; reflexivity.
  - destruct i as [|i]; cbn in *.
    + inversion H; reflexivity.
    + f_equal. apply IH. exact H.
Qed.

Lemma length_upd_nth {A} i (x : A) l : length (upd_nth i x l) = length l.
Proof.
  revert i; induction l as [|h t IH]; intros i; [destruct i; reflexivity|].
  destruct i; cbn; [reflexivity | f_equal; apply IH].
Qed.

(* ---------------------------------------------------------------------------------------- *)
(* the invariant *)

Definition dep (cz : bool) (b : sub) : Prop := ctx_done b = true \/ cz = true.

(* per-subscriber part, relative to the list [o] offered to it and the closed flag [cz] *)
Definition Qo (o : list val) (cz : bool) (b : sub) : Prop :=
  (start b <= length o)%nat /\
  sublist (pipeline b) (skipn (start b) o) /\
  (registered b = true -> gap b = false -> pipeline b = skipn (start b) o) /\
  (gap b = true -> dep cz b) /\
  (exit_closed b = true -> dep cz b) /\
  (fwd b = ExitWantLock -> dep cz b) /\
  (registered b = false -> accepted b = false \/ dep cz b).

Definition Qb (lk : lockst) (fo : list val) (cz : bool) (i : nat) (b : sub) : Prop :=
  Qo (offered_at lk fo i) cz b.

Definition Inv (s : st) : Prop :=
  (forall v idx, lock s = Exec v idx -> exists l, fanout s = l ++ [v]) /\
  (forall i b, nth_error (subs s) i = Some b -> Qb (lock s) (fanout s) (closed s) i b).

(* ---------------------------------------------------------------------------------------- *)
(* per-subscriber transitions *)

Ltac qo_start b :=
  destruct b as [pr wa bu fw cd ec rg uc cs rc ac st0 gp];
  unfold Qo, dep, pipeline in *; cbn in *.

Lemma Qo_cancel o cz b : Qo o cz b -> Qo o cz (sb_ctx_done b true).
Proof. qo_start b. intuition auto. Qed.

Lemma Qo_wants o cz b n : Qo o cz b -> Qo o cz (sb_wants b n).
Proof. qo_start b. intuition auto. Qed.

Lemma Qo_prompt o cz b p : Qo o cz b -> Qo o cz (sb_prompt b p).
Proof. qo_start b. intuition auto. Qed.

Lemma Qo_closed_seen o cz b p : Qo o cz b -> Qo o cz (sb_closed_seen b p).
Proof. qo_start b. intuition auto. Qed.

Lemma Qo_close o cz b : Qo o cz b -> Qo o true b.
Proof. qo_start b. intuition auto. Qed.

Lemma Qo_send o cz b v : Qo o cz b -> Qo (o ++ [v]) cz (sb_buf b (buf b ++ [v])).
Proof.
  qo_start b. intros (H1 & H2 & H3 & H4 & H5 & H6 & H7).
  rewrite (skipn_snoc _ _ _ H1), app_length.
  replace (rc ++ hold fw ++ bu ++ [v]) with ((rc ++ hold fw ++ bu) ++ [v])
    by (now rewrite <- !app_assoc).
  repeat split; auto.
  - lia.
  - apply sublist_snoc_keep. exact H2.
  - intros Hr Hg. rewrite (H3 Hr Hg). reflexivity.
Qed.

Lemma Qo_skip o cz b v : Qo o cz b -> dep cz b -> Qo (o ++ [v]) cz (sb_gap b true).
Proof.
  qo_start b. intros (H1 & H2 & H3 & H4 & H5 & H6 & H7) Hd.
  rewrite (skipn_snoc _ _ _ H1), app_length.
  repeat split; auto.
  - lia.
  - apply sublist_snoc_skip. exact H2.
  - intros _ Hg; discriminate.
Qed.

Lemma Qo_pass o cz b v : Qo o cz b -> registered b = false -> Qo (o ++ [v]) cz b.
Proof.
  qo_start b. intros (H1 & H2 & H3 & H4 & H5 & H6 & H7) Hr.
  rewrite (skipn_snoc _ _ _ H1), app_length.
  repeat split; auto.
  - lia.
  - apply sublist_snoc_skip. exact H2.
  - intros Hr'; congruence.
Qed.

Lemma Qo_take o cz b v r :
  fwd b = Idle -> buf b = v :: r -> Qo o cz b -> Qo o cz (sb_fwd (sb_buf b r) (Holding v)).
Proof.
  qo_start b. intros -> -> (H1 & H2 & H3 & H4 & H5 & H6 & H7). cbn in *.
  repeat split; auto; try (intros; discriminate).
Qed.

Lemma Qo_deliver o cz b v w :
  fwd b = Holding v -> Qo o cz b ->
  Qo o cz (sb_fwd (sb_received (sb_wants b w) (received b ++ [v])) Idle).
Proof.
  qo_start b. intros -> (H1 & H2 & H3 & H4 & H5 & H6 & H7). cbn in *.
  replace ((rc ++ [v]) ++ bu) with (rc ++ v :: bu) by (now rewrite <- app_assoc).
  repeat split; auto; try (intros; discriminate).
Qed.

Lemma Qo_drop o cz b v :
  fwd b = Holding v -> dep cz b -> Qo o cz b -> Qo o cz (sb_gap (sb_fwd b Idle) true).
Proof.
  qo_start b. intros -> Hd (H1 & H2 & H3 & H4 & H5 & H6 & H7). cbn in *.
  repeat split; auto; try (intros; discriminate).
  eapply sublist_drop_mid. exact H2.
Qed.

Lemma Qo_seedone o cz b x :
  fwd b = Idle -> dep cz b -> Qo o cz b -> Qo o cz (sb_exit_closed (sb_fwd b ExitWantLock) x).
Proof.
  qo_start b. intros -> Hd (H1 & H2 & H3 & H4 & H5 & H6 & H7). cbn in *.
  repeat split; auto.
Qed.

Lemma Qo_exit o cz b :
  fwd b = ExitWantLock -> Qo o cz b ->
  Qo o cz (sb_registered (sb_user_closed (sb_fwd b Exited) true) false).
Proof.
  qo_start b. intros -> (H1 & H2 & H3 & H4 & H5 & H6 & H7). cbn in *.
  repeat split; auto; try (intros; discriminate).
Qed.

Lemma departing_dep s b : departing s b = true -> dep (closed s) b.
Proof. unfold departing, dep. intro H. apply orb_true_iff in H. exact H. Qed.

(* ---------------------------------------------------------------------------------------- *)
(* state-level transitions *)

(* the invariant only looks at subs, lock, fanout, closed *)
Lemma Inv_frame s s' :
  subs s' = subs s -> lock s' = lock s -> fanout s' = fanout s -> closed s' = closed s ->
  Inv s -> Inv s'.
Proof.
  intros E1 E2 E3 E4 [HL HQ]. unfold Inv. rewrite E1, E2, E3, E4. split; assumption.
Qed.

Lemma with_sub_inv s i g s' :
  Inv s -> with_sub s i g = Some s' ->
  (forall b b' o, nth_error (subs s) i = Some b -> g b = Some b' ->
     Qo o (closed s) b -> Qo o (closed s) b') ->
  Inv s'.
Proof.
  intros [HL HQ] Hw Hg. unfold with_sub in Hw.
  destruct (nth_error (subs s) i) as [b|] eqn:Hb; [|discriminate].
  destruct (g b) as [b'|] eqn:Hgb; [|discriminate].
  inversion Hw; subst s'; clear Hw. split; cbn [lock fanout closed subs set_subs].
  - exact HL.
  - intros j bj Hj. rewrite nth_error_upd_nth in Hj. destruct (Nat.eqb_spec i j) as [->|Hne].
    + rewrite Hb in Hj. inversion Hj; subst bj. unfold Qb. eapply Hg; eauto. apply HQ; exact Hb.
    + apply HQ; exact Hj.
Qed.

Lemma leb_S_self n : (S n <=? n)%nat = false.
Proof. apply Nat.leb_gt. lia. Qed.

Lemma exec_advance s s' v idx b b' :
  Inv s -> lock s = Exec v idx -> nth_error (subs s) idx = Some b ->
  (forall o, Qo o (closed s) b -> Qo (o ++ [v]) (closed s) b') ->
  subs s' = upd_nth idx b' (subs s) -> lock s' = Exec v (S idx) ->
  fanout s' = fanout s -> closed s' = closed s ->
  Inv s'.
Proof.
  intros [HL HQ] Hlk Hb Hstep E1 E2 E3 E4.
  destruct (HL _ _ Hlk) as [l Hfo]. split.
  - intros v' idx' H. rewrite E2 in H. inversion H; subst. rewrite E3. eauto.
  - intros j bj Hj. rewrite E1, nth_error_upd_nth in Hj. rewrite E2, E3, E4.
    destruct (Nat.eqb_spec idx j) as [<-|Hne].
    + rewrite Hb in Hj. inversion Hj; subst bj. specialize (HQ _ _ Hb).
      unfold Qb in *. rewrite Hlk, Hfo in HQ. rewrite Hfo.
      cbn [offered_at] in *. rewrite Nat.leb_refl, removelast_last in HQ.
      rewrite leb_S_self. apply Hstep. exact HQ.
    + specialize (HQ _ _ Hj). unfold Qb in *. rewrite Hlk in HQ. cbn [offered_at] in *.
      destruct (Nat.leb_spec idx j), (Nat.leb_spec (S idx) j); try lia; exact HQ.
Qed.

Lemma exec_begin_inv s v :
  Inv s -> lock s = Free -> Inv (set_fanout (set_lock s (Exec v 0)) (fanout s ++ [v])).
Proof.
  intros [HL HQ] Hlk. split; cbn [lock fanout closed subs set_fanout set_lock].
  - intros v' idx' H. inversion H; subst. eauto.
  - intros j bj Hj. specialize (HQ _ _ Hj). unfold Qb in *. rewrite Hlk in HQ.
    cbn [offered_at Nat.leb] in *. rewrite removelast_last. exact HQ.
Qed.

Lemma exec_end_inv s v idx :
  Inv s -> lock s = Exec v idx -> nth_error (subs s) idx = None ->
  Inv (set_proc (set_lock s Free) PIdle).
Proof.
  intros [HL HQ] Hlk Hn. split; cbn [lock fanout closed subs set_proc set_lock].
  - intros v' idx' H. discriminate.
  - intros j bj Hj. specialize (HQ _ _ Hj). unfold Qb in *. rewrite Hlk in HQ.
    cbn [offered_at] in *. apply nth_error_None in Hn.
    assert (Hlt : (j < length (subs s))%nat) by (apply nth_error_Some; congruence).
    destruct (Nat.leb_spec idx j); [lia | exact HQ].
Qed.

Lemma Qo_new fo cz p : Qo fo cz (new_sub p (length fo)).
Proof.
  unfold Qo, dep, pipeline, new_sub; cbn. rewrite skipn_all.
  repeat split; auto; try (intros; discriminate). apply sl_nil.
Qed.

Lemma Qo_new_done fo cz p c : Qo fo cz (sb_ctx_done (new_sub p (length fo)) c).
Proof.
  unfold Qo, dep, pipeline, new_sub; cbn. rewrite skipn_all.
  repeat split; auto; try (intros; discriminate). apply sl_nil.
Qed.

Lemma Qo_dropped fo cz p : Qo fo cz (dropped_sub p (length fo)).
Proof.
  unfold Qo, dep, pipeline, dropped_sub; cbn. rewrite skipn_all.
  repeat split; auto; try (intros; discriminate). apply sl_nil.
Qed.

Lemma subscribe_inv s ps nb :
  Inv s -> lock s = Free -> Qo (fanout s) (closed s) nb ->
  Inv (set_subs (set_pend_subs s ps) (subs s ++ [nb])).
Proof.
  intros [HL HQ] Hlk Hnb. split; cbn [lock fanout closed subs set_subs set_pend_subs].
  - exact HL.
  - intros j bj Hj. destruct (Nat.lt_ge_cases j (length (subs s))) as [Hlt|Hge].
    + rewrite nth_error_app1 in Hj by exact Hlt. apply HQ; exact Hj.
    + rewrite nth_error_app2 in Hj by exact Hge.
      destruct (j - length (subs s))%nat as [|k]; cbn in Hj.
      * inversion Hj; subst bj. unfold Qb. rewrite Hlk. cbn [offered_at]. exact Hnb.
      * destruct k; discriminate.
Qed.

(* setting closed (by the first Close or by a further one) with subs, lock, fanout untouched *)
Lemma close_frame_inv s s' :
  subs s' = subs s -> lock s' = lock s -> fanout s' = fanout s -> closed s' = true ->
  Inv s -> Inv s'.
Proof.
  intros E1 E2 E3 E4 [HL HQ]. unfold Inv. rewrite E1, E2, E3, E4. split.
  - exact HL.
  - intros j bj Hj. unfold Qb. eapply Qo_close. apply HQ; exact Hj.
Qed.

Lemma close_lock_inv s c : Inv s -> Inv (set_closed (set_cl s c) true).
Proof. apply close_frame_inv; reflexivity. Qed.

Lemma close2_lock_inv s c2 : Inv s -> Inv (set_closed (set_cl2 s c2) true).
Proof. apply close_frame_inv; reflexivity. Qed.

(* ---------------------------------------------------------------------------------------- *)
(* every step preserves the invariant *)

Lemma Inv_init : Inv init.
Proof.
  split; cbn.
  - intros v idx H; discriminate.
  - intros i b H. destruct i; discriminate.
Qed.

Lemma step_inv vr iv s e s' : Inv s -> step vr iv s e = Some s' -> Inv s'.
Proof.
  intros HI Hs. destruct e; cbn [step] in Hs.
  - (* Batch *)
    destruct (qstopped s); inversion Hs; subst; exact HI.
  - (* Advance *)
    destruct (d <? 0)%Z; inversion Hs; subst; exact HI.
  - (* SubscribeCall *)
    inversion Hs; subst; exact HI.
  - (* CancelPending *)
    destruct (nth_error (pend_subs s) j) as [[id [p c]]|]; [|discriminate].
    inversion Hs; subst; exact HI.
  - (* Cancel *)
    eapply with_sub_inv; [exact HI | exact Hs |].
    intros b b' o _ Hg HQ. inversion Hg; subst. apply Qo_cancel; exact HQ.
  - (* Want *)
    eapply with_sub_inv; [exact HI | exact Hs |].
    intros b b' o _ Hg HQ. inversion Hg; subst. apply Qo_wants; exact HQ.
  - (* WantAll *)
    eapply with_sub_inv; [exact HI | exact Hs |].
    intros b b' o _ Hg HQ. inversion Hg; subst. apply Qo_prompt; exact HQ.
  - (* CloseCall *)
    destruct (cl s); inversion Hs; subst; exact HI.
  - (* Pop *)
    destruct (proc s); [|discriminate]. destruct (loop_dead s); [discriminate|].
    destruct (plookup k (pending s)) as [p|]; [|discriminate].
    destruct (_ && _); inversion Hs; subst; exact HI.
  - (* ExecBegin *)
    destruct (proc s) as [|v]; [discriminate|].
    destruct (lock s) eqn:Hlk; [|discriminate].
    destruct (closed s); inversion Hs; subst.
    + exact HI.
    + apply exec_begin_inv; assumption.
  - (* ExecSend *)
    destruct (lock s) as [|v idx] eqn:Hlk; [discriminate|].
    destruct (nth_error (subs s) idx) as [b|] eqn:Hb; [|discriminate].
    destruct (registered b && _) eqn:Hc; inversion Hs; subst.
    eapply exec_advance; [exact HI | exact Hlk | exact Hb | | reflexivity..].
    intros o HQ. apply Qo_send; exact HQ.
  - (* ExecSkip *)
    destruct (lock s) as [|v idx] eqn:Hlk; [discriminate|].
    destruct (nth_error (subs s) idx) as [b|] eqn:Hb; [|discriminate].
    destruct (registered b && _) eqn:Hc; inversion Hs; subst.
    eapply exec_advance; [exact HI | exact Hlk | exact Hb | | reflexivity..].
    intros o HQ. apply Qo_skip; [exact HQ|].
    apply andb_true_iff in Hc as [_ Hc]. apply orb_true_iff in Hc as [Hc|Hc].
    + right; exact Hc.
    + apply andb_true_iff in Hc as [_ Hc]. destruct HQ as (_ & _ & _ & _ & H5 & _). auto.
  - (* ExecPass *)
    destruct (lock s) as [|v idx] eqn:Hlk; [discriminate|].
    destruct (nth_error (subs s) idx) as [b|] eqn:Hb; [|discriminate].
    destruct (registered b) eqn:Hr; inversion Hs; subst.
    eapply (exec_advance s _ v idx b b); [exact HI | exact Hlk | exact Hb | | | reflexivity..].
    + intros o HQ. apply Qo_pass; assumption.
    + cbn [subs set_lock]. symmetry. apply upd_nth_same; exact Hb.
  - (* ExecEnd *)
    destruct (lock s) as [|v idx] eqn:Hlk; [discriminate|].
    destruct (nth_error (subs s) idx) as [b|] eqn:Hb; [discriminate|].
    inversion Hs; subst. eapply exec_end_inv; eassumption.
  - (* FwdTake *)
    eapply with_sub_inv; [exact HI | exact Hs |].
    intros b b' o _ Hg HQ. cbn beta in Hg.
    destruct (fwd b) eqn:Hf; try discriminate. destruct (buf b) as [|v r] eqn:Hbuf; [discriminate|].
    inversion Hg; subst. apply Qo_take; assumption.
  - (* FwdDeliver *)
    eapply with_sub_inv; [exact HI | exact Hs |].
    intros b b' o _ Hg HQ. cbn beta in Hg.
    destruct (fwd b) eqn:Hf; try discriminate. destruct (consumer_ready b); [|discriminate].
    inversion Hg; subst. apply Qo_deliver; assumption.
  - (* FwdDrop *)
    eapply with_sub_inv; [exact HI | exact Hs |].
    intros b b' o _ Hg HQ. cbn beta in Hg.
    destruct (fwd b) eqn:Hf; try discriminate. destruct (departing s b) eqn:Hd; [|discriminate].
    inversion Hg; subst. eapply Qo_drop; [exact Hf | apply departing_dep; exact Hd | exact HQ].
  - (* FwdSeeDone *)
    eapply with_sub_inv; [exact HI | exact Hs |].
    intros b b' o _ Hg HQ. cbn beta in Hg.
    destruct (fwd b) eqn:Hf; try discriminate. destruct (departing s b) eqn:Hd; [|discriminate].
    inversion Hg; subst. apply Qo_seedone; [exact Hf | apply departing_dep; exact Hd | exact HQ].
  - (* FwdExitLocked *)
    destruct (lock s) eqn:Hlk; [|discriminate].
    eapply with_sub_inv; [exact HI | exact Hs |].
    intros b b' o _ Hg HQ. cbn beta in Hg.
    destruct (fwd b) eqn:Hf; try discriminate.
    inversion Hg; subst. apply Qo_exit; assumption.
  - (* ConsSeeClosed *)
    eapply with_sub_inv; [exact HI | exact Hs |].
    intros b b' o _ Hg HQ. cbn beta in Hg.
    destruct (_ && _); [|discriminate]. inversion Hg; subst. apply Qo_closed_seen; exact HQ.
  - (* SubscribeLocked *)
    destruct (lock s) eqn:Hlk; [|discriminate].
    destruct (nth_error (pend_subs s) j) as [[id p]|]; [|discriminate].
    inversion Hs; subst. apply subscribe_inv; [exact HI | exact Hlk |].
    unfold mk_sub. destruct (closed s); [apply Qo_dropped | apply Qo_new_done].
  - (* CloseLoopDone *)
    destruct (cl s); try discriminate. destruct (proc s); inversion Hs; subst; exact HI.
  - (* CloseLock *)
    destruct (cl s); try discriminate. destruct (lock s); inversion Hs; subst.
    apply close_lock_inv; exact HI.
  - (* CloseWait *)
    destruct (cl s); try discriminate. destruct (forallb _ _); inversion Hs; subst; exact HI.
  - (* Close2Call *)
    destruct (cl s); try discriminate; inversion Hs; subst;
      (eapply Inv_frame; [reflexivity.. | exact HI]).
  - (* Close2LoopDone *)
    destruct (nth_error (cl2 s) j) as [[id []]|]; try discriminate.
    destruct (loop_dead s); inversion Hs; subst.
    eapply Inv_frame; [reflexivity.. | exact HI].
  - (* Close2Lock *)
    destruct (nth_error (cl2 s) j) as [[id []]|]; try discriminate.
    destruct (lock s); inversion Hs; subst.
    apply close2_lock_inv; exact HI.
  - (* Close2Wait *)
    destruct (nth_error (cl2 s) j) as [[id []]|]; try discriminate.
    destruct (forallb _ _); inversion Hs; subst.
    eapply Inv_frame; [reflexivity.. | exact HI].
Qed.

Theorem Inv_reachable vr iv s : reachable vr iv s -> Inv s.
Proof.
  induction 1 as [|s e s' _ IH Hs]; [apply Inv_init | eapply step_inv; eassumption].
Qed.

(* ---------------------------------------------------------------------------------------- *)
(* auxiliary invariants, in reusable form *)

Lemma exec_fanout_last vr iv s v idx :
  reachable vr iv s -> lock s = Exec v idx -> exists l, fanout s = l ++ [v].
Proof. intros Hr. apply (proj1 (Inv_reachable _ _ _ Hr)). Qed.

Lemma exec_removelast_fanout vr iv s v idx :
  reachable vr iv s -> lock s = Exec v idx -> removelast (fanout s) ++ [v] = fanout s.
Proof.
  intros Hr Hlk. destruct (exec_fanout_last _ _ _ _ _ Hr Hlk) as [l ->].
  rewrite removelast_last. reflexivity.
Qed.

Lemma sub_flags vr iv s i b :
  reachable vr iv s -> nth_error (subs s) i = Some b ->
  (gap b = true -> ctx_done b = true \/ closed s = true) /\
  (exit_closed b = true -> ctx_done b = true \/ closed s = true) /\
  (fwd b = ExitWantLock -> ctx_done b = true \/ closed s = true) /\
  (registered b = false -> accepted b = false \/ ctx_done b = true \/ closed s = true).
Proof.
  intros Hr Hb. destruct (proj2 (Inv_reachable _ _ _ Hr) _ _ Hb) as (_ & _ & _ & H).
  exact H.
Qed.

(* ---------------------------------------------------------------------------------------- *)
(* the theorems *)

Theorem same_sequence : forall vr iv s, reachable vr iv s ->
  forall i b, nth_error (subs s) i = Some b ->
    (start b <= length (offered s i))%nat /\
    sublist (pipeline b) (skipn (start b) (offered s i)) /\
    (registered b = true -> gap b = false -> pipeline b = skipn (start b) (offered s i)).
Proof.
  intros vr iv s Hr i b Hb.
  destruct (proj2 (Inv_reachable _ _ _ Hr) _ _ Hb) as (H1 & H2 & H3 & _).
  rewrite offered_eq. repeat split; assumption.
Qed.

Theorem staying_subscriber : forall vr iv s, reachable vr iv s ->
  forall i b, nth_error (subs s) i = Some b ->
    accepted b = true -> ctx_done b = false -> closed s = false ->
    registered b = true /\ gap b = false.
Proof.
  intros vr iv s Hr i b Hb Ha Hc Hz.
  destruct (sub_flags _ _ _ _ _ Hr Hb) as (Hg & _ & _ & Hreg). split.
  - destruct (registered b); [reflexivity|].
    destruct (Hreg eq_refl) as [H|[H|H]]; congruence.
  - destruct (gap b); [|reflexivity].
    destruct (Hg eq_refl) as [H|H]; congruence.
Qed.

(* the two together: a subscriber that stays subscribed while the batcher is open has, in its
   pipeline, exactly the contiguous segment of the fan-out sequence from its subscription point *)
Corollary staying_exact : forall vr iv s, reachable vr iv s ->
  forall i b, nth_error (subs s) i = Some b ->
    accepted b = true -> ctx_done b = false -> closed s = false ->
    pipeline b = skipn (start b) (offered s i).
Proof.
  intros vr iv s Hr i b Hb Ha Hc Hz.
  destruct (staying_subscriber _ _ _ Hr _ _ Hb Ha Hc Hz) as [H1 H2].
  destruct (same_sequence _ _ _ Hr _ _ Hb) as (_ & _ & H3). auto.
Qed.

Lemma offered_sublist_fanout s i : sublist (offered s i) (fanout s).
Proof.
  unfold offered. destruct (lock s) as [|v idx]; [apply sublist_refl|].
  destruct (idx <=? i)%nat; [apply removelast_sublist | apply sublist_refl].
Qed.

Corollary pipeline_sublist_fanout : forall vr iv s, reachable vr iv s ->
  forall i b, nth_error (subs s) i = Some b -> sublist (pipeline b) (fanout s).
Proof.
  intros vr iv s Hr i b Hb. destruct (same_sequence _ _ _ Hr _ _ Hb) as (_ & H & _).
  eapply sublist_trans; [exact H|].
  eapply sublist_trans; [apply skipn_sublist | apply offered_sublist_fanout].
Qed.

Corollary received_sublist_fanout : forall vr iv s, reachable vr iv s ->
  forall i b, nth_error (subs s) i = Some b -> sublist (received b) (fanout s).
Proof.
  intros vr iv s Hr i b Hb.
  eapply sublist_trans; [|eapply pipeline_sublist_fanout; eassumption].
  unfold pipeline. rewrite <- (app_nil_r (received b)) at 1.
  apply sublist_app; [apply sublist_refl | apply sublist_nil_l].
Qed.

(* ---------------------------------------------------------------------------------------- *)
(* non-vacuity *)

Lemma run_reachable vr iv es : forall s s',
  reachable vr iv s -> run vr iv s es = Some s' -> reachable vr iv s'.
Proof.
  induction es as [|e r IH]; intros s s' Hr Hrun; cbn in Hrun.
  - inversion Hrun; subst; exact Hr.
  - destruct (step vr iv s e) as [s1|] eqn:Hs; [|discriminate].
    eapply IH; [|exact Hrun]. eapply reach_step; eassumption.
Qed.

(* two subscribers (the second one subscribing after the first value went out), three values,
   everything delivered to the first, the second still has one value in flight *)
Definition demo_script : list ev :=
  [SubscribeCall 1%Z true false; SubscribeLocked 0;
   Batch 1%Z 7%Z; Advance 10%Z; Pop 1%Z; ExecBegin; ExecSend; ExecEnd; FwdTake 0; FwdDeliver 0;
   SubscribeCall 2%Z true false; SubscribeLocked 0;
   Batch 1%Z 8%Z; Advance 10%Z; Pop 1%Z; ExecBegin; ExecSend; ExecSend; ExecEnd;
   Batch 2%Z 9%Z; Advance 10%Z; Pop 2%Z; ExecBegin; ExecSend;
   FwdTake 0; FwdDeliver 0; FwdTake 0; FwdDeliver 0; FwdTake 1].

Example demo_reachable vr :
  exists s b0 b1, reachable vr 10%Z s /\
    nth_error (subs s) 0 = Some b0 /\ nth_error (subs s) 1 = Some b1 /\
    accepted b0 = true /\ ctx_done b0 = false /\
    accepted b1 = true /\ ctx_done b1 = false /\ closed s = false /\
    registered b0 = true /\ gap b0 = false /\ registered b1 = true /\ gap b1 = false /\
    lock s = Exec 9%Z 1 /\ fanout s = [7; 8; 9]%Z /\
    received b0 = [7; 8; 9]%Z /\ start b1 = 1%nat /\ offered s 1 = [7; 8]%Z /\
    received b1 = [] /\ pipeline b1 = [8]%Z.
Proof.
  destruct (run vr 10%Z init demo_script) as [s|] eqn:Hrun.
  2:{ destruct vr; vm_compute in Hrun; discriminate. }
  assert (Hr : reachable vr 10%Z s) by (eapply run_reachable; [apply reach_init | exact Hrun]).
  destruct vr; vm_compute in Hrun; inversion Hrun; subst s;
    (eexists; eexists; eexists; split; [exact Hr|]; vm_compute; repeat split; reflexivity).
Qed.

(* a gap really occurs (so the [gap = false] premise of the exactness part is needed): the
   context is cancelled while the forwarder holds a value, and the forwarder drops it *)
Example demo_gap vr :
  exists s b, reachable vr 10%Z s /\ nth_error (subs s) 0 = Some b /\
    registered b = true /\ gap b = true /\ fanout s = [7]%Z /\ pipeline b = [].
Proof.
  destruct (run vr 10%Z init
     [SubscribeCall 1%Z false false; SubscribeLocked 0; Batch 1%Z 7%Z; Advance 10%Z; Pop 1%Z; ExecBegin;
      ExecSend; ExecEnd; FwdTake 0; Cancel 0; FwdDrop 0]) as [s|] eqn:Hrun.
  2:{ destruct vr; vm_compute in Hrun; discriminate. }
  assert (Hr : reachable vr 10%Z s) by (eapply run_reachable; [apply reach_init | exact Hrun]).
  destruct vr; vm_compute in Hrun; inversion Hrun; subst s;
    (eexists; eexists; split; [exact Hr|]; vm_compute; repeat split; reflexivity).
Qed.
