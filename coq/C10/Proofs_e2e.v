(* C10 — end to end: from the Batch call to the consumer.

   The chain Batch -> queue hand-over ([fired]) -> fan-out ([fanout]) -> buffer -> forwarder ->
   consumer ([received]) is settled link by link in Proofs_debounce / Proofs_seq / Proofs_wedge.
   Here the links are composed: whenever the batcher is at rest with the lock free, a subscriber
   that stayed and whose consumer is reading has RECEIVED — nothing left in its buffer or with its
   forwarder — exactly the values the queue has handed over since it subscribed, each once, in
   that order; and the most recent Batch call of every key whose interval has elapsed is among
   them. Both variants, every schedule. *)
From Kit Require Import C10.Model.
From Kit Require C10.Proofs_seq C10.Proofs_debounce C10.Proofs_wedge.
From Coq Require Import Lia.

Definition staying_reader (s : st) (b : sub) : Prop :=
  accepted b = true /\ ctx_done b = false /\ closed s = false /\ consumer_ready b = true.

Lemma staying_readerb_spec s b : staying_readerb s b = true <-> staying_reader s b.
Proof.
  unfold staying_readerb, staying_reader. rewrite !Bool.andb_true_iff, !Bool.negb_true_iff. tauto.
Qed.

Lemma nth_error_skipn_ge {A} (l : list A) m n x :
  nth_error l n = Some x -> (m <= n)%nat -> In x (skipn m l).
Proof.
  revert m n; induction l as [|h t IH]; intros m n Hn Hle.
  - destruct n; discriminate.
  - destruct m as [|m]; cbn [skipn].
    + eapply nth_error_In; eauto.
    + destruct n as [|n]; [lia|]. cbn in Hn. eapply IH; eauto. lia.
Qed.

(* at rest with the lock free: a staying reader has everything, and nothing is in transit *)
Theorem at_rest_received : forall vr iv s,
  reachable vr iv s -> stuck vr iv s -> lock s = Free ->
  forall i b, nth_error (subs s) i = Some b -> staying_reader s b ->
    fwd b = Idle /\ buf b = [] /\ received b = skipn (start b) (fired_vals s).
Proof.
  intros vr iv s HR Hst Hl i b Hi (Hacc & Hctx & Hcl & Hrdy).
  (* nothing is waiting for the lock *)
  assert (Hp : proc s = PIdle).
  { destruct (proc s) as [|v] eqn:Hp; auto. exfalso.
    pose proof (Hst ExecBegin eq_refl) as H. unfold step in H. rewrite Hp, Hl, Hcl in H.
    discriminate. }
  (* the pipeline is the segment of the fan-out sequence *)
  pose proof (Proofs_seq.staying_exact vr iv s HR i b Hi Hacc Hctx Hcl) as Hpipe.
  unfold Proofs_seq.offered in Hpipe. rewrite Hl in Hpipe.
  pose proof (Proofs_debounce.fanout_is_fired vr iv s HR) as Hfan.
  rewrite Hp, app_nil_r in Hfan.
  change (fired_vals s = fanout s) in Hfan.
  (* the forwarder is idle with an empty buffer *)
  destruct (Proofs_seq.staying_subscriber vr iv s HR i b Hi Hacc Hctx Hcl) as [Hreg _].
  destruct (Proofs_seq.sub_flags vr iv s i b HR Hi) as (_ & _ & Hew & _).
  pose proof (Proofs_wedge.inv_reachable vr iv s HR) as HI.
  pose proof (Proofs_wedge.Forall_nth_error _ _ _ _ (Proofs_wedge.i_subs _ _ HI) Hi)
    as (_ & Hex & _).
  destruct (fwd b) as [|w| |] eqn:Hf.
  - destruct (buf b) as [|x r] eqn:Hb.
    + repeat split; auto. unfold Proofs_seq.pipeline in Hpipe. rewrite Hf, Hb in Hpipe.
      cbn in Hpipe. rewrite app_nil_r in Hpipe. rewrite Hfan. exact Hpipe.
    + exfalso. pose proof (Hst (FwdTake i) eq_refl) as H. unfold step in H.
      eapply Proofs_wedge.with_sub_none in H; eauto. cbv beta in H. rewrite Hf, Hb in H.
      discriminate.
  - exfalso. pose proof (Hst (FwdDeliver i) eq_refl) as H. unfold step in H.
    eapply Proofs_wedge.with_sub_none in H; eauto. cbv beta in H. rewrite Hf, Hrdy in H.
    discriminate.
  - exfalso. destruct (Hew eq_refl); congruence.
  - exfalso. specialize (Hex eq_refl). congruence.
Qed.

(* ... and the most recent Batch call of every key whose interval has elapsed is among them *)
Theorem end_to_end : forall vr iv s,
  reachable vr iv s -> stuck vr iv s -> lock s = Free -> loop_dead s = false ->
  forall id k v t, nth_error (hist s) id = Some (k, v, t) ->
    (forall id' v' t', (id < id')%nat -> nth_error (hist s) id' <> Some (k, v', t')) ->
    (t + iv <= now s)%Z ->
    exists n tp, nth_error (fired s) n = Some (id, tp) /\ (t + iv <= tp)%Z /\
      forall i b, nth_error (subs s) i = Some b -> staying_reader s b -> (start b <= n)%nat ->
        In v (received b).
Proof.
  intros vr iv s HR Hst Hl Hld id k v t Hh Hlast Hel.
  pose proof (Proofs_debounce.debounce_delivered vr iv s HR Hst Hl Hld id k v t Hh Hlast Hel) as Hin.
  apply in_map_iff in Hin as [[id0 tp] [E Hin]]. cbn [fst] in E; subst id0.
  apply In_nth_error in Hin as [n Hn]. exists n, tp. split; auto.
  destruct (Proofs_debounce.debounce_fired vr iv s HR id tp (nth_error_In _ _ Hn))
    as (k0 & v0 & t0 & Hh0 & Hiv & _). rewrite Hh in Hh0. inversion Hh0; subst k0 v0 t0.
  split; auto. intros i b Hi Hsr Hle.
  destruct (at_rest_received vr iv s HR Hst Hl i b Hi Hsr) as (_ & _ & Hrec). rewrite Hrec.
  apply (nth_error_skipn_ge _ _ n); auto.
  unfold fired_vals. rewrite nth_error_map, Hn. cbn. unfold batch_val. rewrite Hh. reflexivity.
Qed.

(* the executable form ([Model.e2e_okb]) that the correspondence evaluates on every case *)
Theorem e2e_okb_holds : forall vr iv s,
  reachable vr iv s -> stuck vr iv s -> lock s = Free -> e2e_okb s = true.
Proof.
  intros vr iv s HR Hst Hl. unfold e2e_okb. apply forallb_forall. intros b Hb.
  destruct (staying_readerb s b) eqn:Hsr; auto. apply staying_readerb_spec in Hsr.
  apply In_nth_error in Hb as [i Hi].
  destruct (at_rest_received vr iv s HR Hst Hl i b Hi Hsr) as (_ & _ & Hrec).
  apply eqb_listZ_spec. exact Hrec.
Qed.

(* non-vacuity: two keys, a re-Batch inside the interval, two prompt subscribers (the second joins
   after the first value): at rest both theorems' premises hold and the values are there *)
Example e2e_example :
  let es := Proofs_wedge.sched Fixed 10%Z init
              [SubscribeCall 0%Z true false; Batch 1%Z 5%Z; Advance 4%Z; Batch 1%Z 6%Z; Advance 10%Z;
               SubscribeCall 5%Z true false; Batch 2%Z 7%Z; Advance 10%Z] in
  match run Fixed 10%Z init es with
  | Some s => match first_enabled Fixed 10%Z s, lock s, subs s with
              | None, Free, [b0; b1] =>
                  staying_readerb s b0 && staying_readerb s b1 && negb (loop_dead s)
                  && eqb_listZ (fired_vals s) [6; 7]%Z
                  && eqb_listZ (received b0) [6; 7]%Z && eqb_listZ (received b1) [7]%Z
                  && e2e_okb s
              | _, _, _ => false end
  | None => false
  end = true.
Proof. vm_compute. reflexivity. Qed.

(* ---------------------------------------------------------------------------------------- *)
(* the state of every subscriber channel at the moment a Close call has returned is FINAL *)

Import Proofs_wedge.

(* whether the batcher has closed subscriber i's channel (false if there is no such subscriber) *)
Definition uclosed_of (s : st) (i : nat) : bool :=
  match nth_error (subs s) i with Some b => user_closed b | None => false end.

(* a subscription that was silently dropped has no forwarder and its channel is never closed *)
Definition dropped_ok (b : sub) : Prop :=
  accepted b = false -> user_closed b = false /\ fwd b = Exited.

Lemma dropped_inv vr iv s : reachable vr iv s -> Forall dropped_ok (subs s).
Proof.
  induction 1 as [|s e s' HR IH Hs]; [constructor|].
  assert (Hws : forall i g, with_sub s i g = Some s' ->
            (forall b b', g b = Some b' -> dropped_ok b -> dropped_ok b') ->
            Forall dropped_ok (subs s')).
  { intros i g Hw Hg. apply with_sub_inv in Hw as (b & b' & Hn & Hgb & ->). cbn.
    apply Forall_upd_nth; auto. eapply Hg; eauto. eapply Forall_nth_error; eauto. }
  assert (Hsame : subs s' = subs s -> Forall dropped_ok (subs s')) by (intros ->; exact IH).
  destruct e; unfold step in Hs;
    try (eapply Hws; [exact Hs|]; intros b b' Hg Hd; cbv beta in Hg;
         unfold dropped_ok in *;
         repeat match type of Hg with
                | context [match ?x with _ => _ end] => destruct x eqn:?; try discriminate
                | context [if ?x then _ else _] => destruct x eqn:?; try discriminate
                end;
         inversion Hg; subst; cbn in *; intros Ha; specialize (Hd Ha); destruct Hd; try congruence;
         split; auto; fail).
  - destruct (qstopped s); inv_some; auto.
  - destruct (d <? 0)%Z; [discriminate|]. inv_some; auto.
  - inv_some; auto.
  - destruct (nth_error (pend_subs s) j) as [[id [p c]]|]; try discriminate. inv_some; auto.
  - destruct (cl s); try discriminate; inv_some; auto.
  - destruct (proc s); try discriminate. destruct (loop_dead s); try discriminate.
    destruct (plookup k (pending s)); try discriminate. destruct (_ && _); try discriminate.
    inv_some; auto.
  - destruct (proc s); try discriminate. destruct (lock s); try discriminate.
    destruct (closed s); inv_some; auto.
  - (* ExecSend *) destruct (lock s) as [|v idx]; try discriminate.
    destruct (nth_error (subs s) idx) as [b|] eqn:Hn; try discriminate.
    destruct (_ && _); try discriminate. inv_some. cbn. apply Forall_upd_nth; auto.
    pose proof (Forall_nth_error _ _ _ _ IH Hn) as Hd. unfold dropped_ok in *. cbn. exact Hd.
  - (* ExecSkip *) destruct (lock s) as [|v idx]; try discriminate.
    destruct (nth_error (subs s) idx) as [b|] eqn:Hn; try discriminate.
    destruct (_ && _); try discriminate. inv_some. cbn. apply Forall_upd_nth; auto.
    pose proof (Forall_nth_error _ _ _ _ IH Hn) as Hd. unfold dropped_ok in *. cbn. exact Hd.
  - destruct (lock s) as [|v idx]; try discriminate.
    destruct (nth_error (subs s) idx) as [b|]; try discriminate.
    destruct (registered b); try discriminate. inv_some; auto.
  - destruct (lock s) as [|v idx]; try discriminate.
    destruct (nth_error (subs s) idx) as [b|]; try discriminate. inv_some; auto.
  - (* FwdExitLocked *) destruct (lock s); try discriminate.
    eapply Hws; [exact Hs|]. intros b b' Hg Hd; cbv beta in Hg.
    destruct (fwd b) eqn:Hf; try discriminate. inversion Hg; subst. unfold dropped_ok in *. cbn.
    intros Ha. destruct (Hd Ha). congruence.
  - (* SubscribeLocked *) destruct (lock s); try discriminate.
    destruct (nth_error (pend_subs s) j) as [[id pc]|]; try discriminate. inv_some. cbn.
    apply Forall_app; split; auto. constructor; [|constructor].
    unfold mk_sub, dropped_ok. destruct (closed s); cbn; intros; try discriminate; auto.
  - destruct (cl s); try discriminate. destruct (proc s); try discriminate. inv_some; auto.
  - destruct (cl s); try discriminate. destruct (lock s); try discriminate. inv_some; auto.
  - destruct (cl s); try discriminate. destruct (forallb _ _); try discriminate. inv_some; auto.
  - destruct (cl s); try discriminate; inv_some; auto.
  - destruct (nth_error (cl2 s) j) as [[id [| | |]]|]; try discriminate.
    destruct (loop_dead s); try discriminate. inv_some; auto.
  - destruct (nth_error (cl2 s) j) as [[id [| | |]]|]; try discriminate.
    destruct (lock s); try discriminate. inv_some; auto.
  - destruct (nth_error (cl2 s) j) as [[id [| | |]]|]; try discriminate.
    destruct (forallb _ _); try discriminate. inv_some; auto.
Qed.

Lemma uclosed_same s s' : subs s' = subs s -> forall i, uclosed_of s' i = uclosed_of s i.
Proof. intros E i. unfold uclosed_of. rewrite E. reflexivity. Qed.

Lemma frozen_uclosed_step vr iv s e s' :
  reachable vr iv s -> any_returned s -> step vr iv s e = Some s' ->
  forall i, uclosed_of s' i = uclosed_of s i.
Proof.
  intros HR Hret Hs.
  destruct (close_clean _ _ _ HR Hret) as (Hc & Hd & Hp & Hl & Hsubs).
  assert (Hex : forall i b, nth_error (subs s) i = Some b -> fwd b = Exited).
  { intros i b Hn. apply nth_error_In in Hn. apply Hsubs; auto. }
  assert (Hws : forall i g, with_sub s i g = Some s' ->
            (forall b b', nth_error (subs s) i = Some b -> g b = Some b' ->
                          user_closed b' = user_closed b) ->
            forall j, uclosed_of s' j = uclosed_of s j).
  { intros i g Hw Hg. apply with_sub_inv in Hw as (b & b' & Hn & Hgb & ->).
    intros j. unfold uclosed_of. cbn [subs set_subs].
    destruct (Nat.eq_dec i j) as [->|Hne].
    - rewrite (nth_error_upd_nth_eq _ _ _ _ Hn), Hn. eauto.
    - rewrite nth_error_upd_nth_ne; auto. }
  destruct e; unfold step in Hs;
    try (eapply Hws; [exact Hs|]; intros b b' Hn Hg; cbv beta in Hg;
         rewrite ?(Hex _ _ Hn) in Hg; try discriminate; inversion Hg; subst; reflexivity).
  - destruct (qstopped s); inv_some; auto using uclosed_same.
  - destruct (d <? 0)%Z; [discriminate|]. inv_some. auto using uclosed_same.
  - inv_some. auto using uclosed_same.
  - destruct (nth_error (pend_subs s) j) as [[id [p c]]|]; try discriminate. inv_some.
    auto using uclosed_same.
  - destruct (cl s); try discriminate; inv_some; auto using uclosed_same.
  - rewrite Hp, Hd in Hs. discriminate.
  - rewrite Hp in Hs. discriminate.
  - rewrite Hl in Hs. discriminate.
  - rewrite Hl in Hs. discriminate.
  - rewrite Hl in Hs. discriminate.
  - rewrite Hl in Hs. discriminate.
  - rewrite Hl in Hs. eapply Hws; [exact Hs|]. intros b b' Hn Hg; cbv beta in Hg.
    rewrite (Hex _ _ Hn) in Hg. discriminate.
  - eapply Hws; [exact Hs|]. intros b b' Hn Hg; cbv beta in Hg.
    destruct (_ && _); [|discriminate]. inversion Hg; subst; reflexivity.
  - (* SubscribeLocked: only silently dropped subscriptions are added: never closed *)
    rewrite Hl in Hs. destruct (nth_error (pend_subs s) j) as [[id p]|]; [|discriminate].
    inv_some. intros i. unfold uclosed_of. cbn [subs set_subs set_pend_subs].
    unfold mk_sub. rewrite Hc. destruct (Nat.lt_ge_cases i (length (subs s))) as [Hlt|Hge].
    + rewrite nth_error_app1; auto.
    + rewrite nth_error_app2; auto.
      assert (nth_error (subs s) i = None) as -> by (apply nth_error_None; auto).
      destruct (i - length (subs s))%nat as [|n]; cbn; auto. destruct n; reflexivity.
  - destruct (cl s); try discriminate. destruct (proc s); try discriminate. inv_some.
    auto using uclosed_same.
  - destruct (cl s); try discriminate. destruct (lock s); try discriminate. inv_some.
    auto using uclosed_same.
  - destruct (cl s); try discriminate. destruct (forallb _ _); try discriminate. inv_some.
    auto using uclosed_same.
  - destruct (cl s); try discriminate; inv_some; auto using uclosed_same.
  - destruct (nth_error (cl2 s) j) as [[id [| | |]]|]; try discriminate.
    destruct (loop_dead s); try discriminate. inv_some. auto using uclosed_same.
  - destruct (nth_error (cl2 s) j) as [[id [| | |]]|]; try discriminate.
    destruct (lock s); try discriminate. inv_some. auto using uclosed_same.
  - destruct (nth_error (cl2 s) j) as [[id [| | |]]|]; try discriminate.
    destruct (forallb _ _); try discriminate. inv_some. auto using uclosed_same.
Qed.

(* Once ANY Close call has returned, every subscriber channel ever handed to Subscribe is in its
   FINAL state: closed (the subscription was accepted) or open for ever (it was silently dropped) —
   and whatever happens afterwards, in any order and for ever, no channel changes state: not those
   existing at the return, not those subscribed later. "Open when Close returned, closed a little
   later" is impossible. (This is what the harness samples in its race and mass families: the
   channel state at the instant Close returns and again at rest.) *)
Theorem close_state_final : forall vr iv s,
  reachable vr iv s -> any_returned s ->
  (forall b, In b (subs s) ->
     (accepted b = true /\ user_closed b = true) \/ (accepted b = false /\ user_closed b = false)) /\
  forall es s', run vr iv s es = Some s' ->
    any_returned s' /\ forall i, uclosed_of s' i = uclosed_of s i.
Proof.
  intros vr iv s HR Hret. split.
  - intros b Hb. destruct (close_clean _ _ _ HR Hret) as (_ & _ & _ & _ & Hsubs).
    destruct (Hsubs b Hb) as (_ & _ & Hacc).
    destruct (accepted b) eqn:Ha; [left; auto|right; split; auto].
    pose proof (dropped_inv _ _ _ HR) as HD. rewrite Forall_forall in HD.
    destruct (HD b Hb Ha); auto.
  - intros es. revert s HR Hret. induction es as [|e r IH]; cbn; intros s HR Hret s' H.
    + inversion H; subst; auto.
    + destruct (step vr iv s e) as [s0|] eqn:Hs; [|discriminate].
      destruct (close_frozen_step _ _ _ _ _ HR Hret Hs) as (Hret0 & _ & _).
      pose proof (frozen_uclosed_step _ _ _ _ _ HR Hret Hs) as Hu.
      assert (HR0 : reachable vr iv s0) by (econstructor; eauto).
      destruct (IH _ HR0 Hret0 _ H) as (H1 & H2). split; auto.
      intros i. rewrite H2. auto.
Qed.

(* Batch, Subscribe (the call itself), cancellation and consumer commands are ALWAYS possible:
   in particular "later Batch calls" are never blocked by anything — Batch takes no batcher lock *)
Theorem calls_never_blocked : forall vr iv s,
  (forall k v, exists s', step vr iv s (Batch k v) = Some s') /\
  (forall id p c, exists s', step vr iv s (SubscribeCall id p c) = Some s').
Proof.
  intros vr iv s. split.
  - intros k v. unfold step. destruct (qstopped s); eauto.
  - intros id p c. unfold step. eauto.
Qed.

(* non-vacuity of [close_state_final]: one accepted subscriber (closed) and one Subscribe after
   Close (dropped, open), then more calls: nothing changes *)
Example final_example :
  let es1 := sched Fixed 10%Z init
               [SubscribeCall 0%Z false false; Batch 1%Z 5%Z; CloseCall; SubscribeCall 3%Z false false] in
  let es2 := [Batch 1%Z 6%Z; Advance 50%Z; Close2Call 9%Z; Close2LoopDone 0; Close2Lock 0; Close2Wait 0;
              Cancel 1; Want 1] in
  match run Fixed 10%Z init es1 with
  | Some s => match run Fixed 10%Z s es2 with
              | Some s' => match cl s with
                           | CReturned => uclosed_of s 0 && negb (uclosed_of s 1)
                                          && uclosed_of s' 0 && negb (uclosed_of s' 1)
                           | _ => false end
              | None => false end
  | None => false
  end = true.
Proof. vm_compute. reflexivity. Qed.

Lemma any_returnedb_spec s : any_returnedb s = true <-> any_returned s.
Proof.
  unfold any_returnedb, any_returned. rewrite Bool.orb_true_iff, existsb_exists. split.
  - intros [H|[[id c] [Hin H]]].
    + left. destruct (cl s); try discriminate; reflexivity.
    + right. exists id. cbn in H. destruct c; try discriminate. exact Hin.
  - intros [H|[id H]]; [left; rewrite H; reflexivity|right].
    exists (id, K2Returned). split; auto.
Qed.

Theorem close_final_okb_holds : forall vr iv s, reachable vr iv s -> close_final_okb s = true.
Proof.
  intros vr iv s HR. unfold close_final_okb. destruct (any_returnedb s) eqn:Hr; auto.
  apply any_returnedb_spec in Hr. destruct (close_state_final vr iv s HR Hr) as [H _].
  apply forallb_forall. intros b Hb. destruct (H b Hb) as [[-> ->]|[-> ->]]; reflexivity.
Qed.
