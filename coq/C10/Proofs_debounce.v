(* C10 — the debounce law of the batcher model, for BOTH variants and ALL schedules.

   "For each key the value of the most recent Batch call is handed to fan-out exactly once, not
   before one interval after that call; earlier values for the key inside the interval are
   suppressed."  Proved by one combined invariant ([Inv] = [InvD] /\ [InvC]) over [reachable].
   No axioms. *)
From Kit Require Import C10.Model.

Local Open Scope Z_scope.

(* ---------------------------------------------------------------------------------------- *)
(* facts about the processor queue (plookup / premove / pupsert) *)

Lemma plookup_cons k k0 p0 l :
  plookup k ((k0, p0) :: l) = if (k0 =? k)%Z then Some p0 else plookup k l.
Proof. unfold plookup. cbn [find fst]. destruct (k0 =? k)%Z; reflexivity. Qed.

Lemma premove_cons k k0 p0 l :
  premove k ((k0, p0) :: l) = if (k0 =? k)%Z then premove k l else (k0, p0) :: premove k l.
Proof. unfold premove. cbn [filter fst]. destruct (k0 =? k)%Z; reflexivity. Qed.

Lemma premove_In k l k' p : In (k', p) (premove k l) <-> In (k', p) l /\ k' <> k.
Proof.
  unfold premove. rewrite filter_In. cbn [fst]. rewrite negb_true_iff, Z.eqb_neq. tauto.
Qed.

Lemma plookup_In k l p : plookup k l = Some p -> In (k, p) l.
Proof.
  induction l as [|[k0 p0] l IH]; [discriminate|].
  rewrite plookup_cons. destruct (Z.eqb_spec k0 k) as [->|Hne].
  - intros [= ->]. left; reflexivity.
  - intro H. right. auto.
Qed.

Lemma plookup_nodup l : NoDup (map fst l) -> forall k p, In (k, p) l -> plookup k l = Some p.
Proof.
  induction l as [|[k0 p0] l IH]; cbn [map fst]; intros ND k p Hin; [destruct Hin|].
  inversion ND as [|? ? Hni ND']; subst. rewrite plookup_cons.
  destruct (Z.eqb_spec k0 k) as [->|Hne].
  - destruct Hin as [E|Hin]; [inversion E; reflexivity|].
    exfalso. apply Hni. apply in_map_iff. exists (k, p). split; [reflexivity|assumption].
  - destruct Hin as [E|Hin]; [inversion E; congruence|]. apply IH; assumption.
Qed.

Lemma plookup_premove_same k l : plookup k (premove k l) = None.
Proof.
  induction l as [|[k0 p0] l IH]; [reflexivity|].
  rewrite premove_cons. destruct (Z.eqb_spec k0 k) as [->|Hne]; [assumption|].
  rewrite plookup_cons. destruct (Z.eqb_spec k0 k); [contradiction|assumption].
Qed.

Lemma plookup_premove_other k k' l : k' <> k -> plookup k' (premove k l) = plookup k' l.
Proof.
  intro Hne. induction l as [|[k0 p0] l IH]; [reflexivity|].
  rewrite premove_cons, plookup_cons. destruct (Z.eqb_spec k0 k) as [->|Hne0].
  - destruct (Z.eqb_spec k k'); [congruence|assumption].
  - rewrite plookup_cons. rewrite IH. reflexivity.
Qed.

Lemma plookup_pupsert_same k x l : plookup k (pupsert k x l) = Some x.
Proof. unfold pupsert. rewrite plookup_cons, Z.eqb_refl. reflexivity. Qed.

Lemma plookup_pupsert_other k k' x l : k' <> k -> plookup k' (pupsert k x l) = plookup k' l.
Proof.
  intro Hne. unfold pupsert. rewrite plookup_cons.
  destruct (Z.eqb_spec k k'); [congruence|]. apply plookup_premove_other; assumption.
Qed.

Lemma premove_length k l p : plookup k l = Some p -> (length (premove k l) < length l)%nat.
Proof.
  assert (Hle : forall l', (length (premove k l') <= length l')%nat).
  { intro l'. unfold premove. induction l' as [|a l' IH]; cbn [filter length]; [lia|].
    destruct (negb _); cbn [length]; lia. }
  induction l as [|[k0 p0] l IH]; [discriminate|].
  rewrite plookup_cons, premove_cons. destruct (Z.eqb_spec k0 k) as [->|Hne]; cbn [length].
  - intros _. specialize (Hle l). lia.
  - intro H. apply IH in H. lia.
Qed.

Lemma premove_keys_nodup k l : NoDup (map fst l) -> NoDup (map fst (premove k l)).
Proof.
  induction l as [|[k0 p0] l IH]; cbn [map fst]; intro ND; [constructor|].
  inversion ND as [|? ? Hni ND']; subst. rewrite premove_cons.
  destruct (k0 =? k)%Z; [auto|]. cbn [map fst]. constructor; [|auto].
  intro Hin. apply Hni. apply in_map_iff in Hin as [[k1 p1] [E Hin]]. cbn [fst] in E. subst k1.
  apply premove_In in Hin as [Hin _]. apply in_map_iff. exists (k0, p1). split; [reflexivity|assumption].
Qed.

Lemma premove_key_absent k l : ~ In k (map fst (premove k l)).
Proof.
  intro Hin. apply in_map_iff in Hin as [[k1 p1] [E Hin]]. cbn [fst] in E. subst k1.
  apply premove_In in Hin as [_ Hne]. congruence.
Qed.

Lemma NoDup_snoc {A} (l : list A) a : NoDup l -> ~ In a l -> NoDup (l ++ [a]).
Proof.
  induction l as [|b l IH]; cbn [app]; intros ND Hni.
  - constructor; [intros []|constructor].
  - inversion ND as [|? ? Hb ND']; subst. constructor.
    + rewrite in_app_iff. intros [H|[H|[]]]; [contradiction|]. subst. apply Hni. left; reflexivity.
    + apply IH; [assumption|]. intro H. apply Hni. right; assumption.
Qed.

(* an element minimising a Z-valued function over a non-empty list *)
Lemma argmin_Z {A} (f : A -> Z) (l : list A) :
  l <> [] -> exists e, In e l /\ forall e', In e' l -> f e <= f e'.
Proof.
  induction l as [|a l IH]; [congruence|]. intros _.
  destruct l as [|b l].
  - exists a. split; [left; reflexivity|]. intros e' [<-|[]]. lia.
  - destruct IH as [e [Hin Hmin]]; [discriminate|].
    destruct (Z_le_gt_dec (f a) (f e)) as [Hle|Hgt].
    + exists a. split; [left; reflexivity|]. intros e' [<-|Hin']; [lia|].
      specialize (Hmin e' Hin'). lia.
    + exists e. split; [right; assumption|]. intros e' [<-|Hin']; [lia|]. auto.
Qed.

Lemma nth_error_snoc_old {A} (l : list A) x i :
  (i < length l)%nat -> nth_error (l ++ [x]) i = nth_error l i.
Proof. intro H. apply nth_error_app1; assumption. Qed.

Lemma nth_error_snoc_new {A} (l : list A) x : nth_error (l ++ [x]) (length l) = Some x.
Proof. rewrite nth_error_app2 by lia. rewrite Nat.sub_diag. reflexivity. Qed.

Lemma nth_error_snoc_cases {A} (l : list A) x i y :
  nth_error (l ++ [x]) i = Some y ->
  ((i < length l)%nat /\ nth_error l i = Some y) \/ (i = length l /\ y = x).
Proof.
  intro H. destruct (Nat.lt_ge_cases i (length l)) as [Hlt|Hge].
  - left. split; [assumption|]. rewrite nth_error_app1 in H; assumption.
  - right. assert (Hl : (i < length (l ++ [x]))%nat) by (apply nth_error_Some; congruence).
    rewrite app_length in Hl; cbn [length] in Hl. assert (i = length l) by lia. subst i.
    rewrite nth_error_snoc_new in H. split; congruence.
Qed.

Lemma In_upd_nth {A} (l : list A) j x y : In x (upd_nth j y l) -> x = y \/ In x l.
Proof.
  revert j. induction l as [|a l IH]; intros j H; [destruct j; destruct H|].
  destruct j as [|j]; cbn [upd_nth] in H.
  - destruct H as [<-|H]; [left; reflexivity|right; right; assumption].
  - destruct H as [<-|H]; [right; left; reflexivity|].
    destruct (IH _ H) as [->|Hin]; [left; reflexivity|right; right; assumption].
Qed.

Lemma nth_error_lt {A} (l : list A) i y : nth_error l i = Some y -> (i < length l)%nat.
Proof. intro H. apply nth_error_Some. congruence. Qed.

(* ---------------------------------------------------------------------------------------- *)
(* the invariant *)

(* value of the Batch call a pop refers to *)
Definition fval (h : list (key * val * Z)) (f : nat * Z) : val :=
  match nth_error h (fst f) with Some x => snd (fst x) | None => 0%Z end.

(* the popped value still waiting for b.lock *)
Definition tailv (s : st) : list val :=
  match proc s, lock s with PCall v, Free => [v] | _, _ => [] end.

(* data part: pending / hist / fired / now *)
Record InvD (iv : Z) (s : st) : Prop := {
  D_pend : forall k p, In (k, p) (pending s) ->
    nth_error (hist s) (p_id p) = Some (k, p_val p, p_due p - iv) /\
    (forall id' v' t', (p_id p < id')%nat -> nth_error (hist s) id' <> Some (k, v', t')) /\
    ~ In (p_id p) (map fst (fired s));
  D_keys : NoDup (map fst (pending s));
  D_fired : forall id tp, In (id, tp) (fired s) ->
    exists k v t, nth_error (hist s) id = Some (k, v, t) /\ t + iv <= tp /\ tp <= now s /\
      forall id' v' t', (id < id')%nat -> nth_error (hist s) id' = Some (k, v', t') -> tp <= t';
  D_once : NoDup (map fst (fired s));
  D_latest : forall id k v t, nth_error (hist s) id = Some (k, v, t) ->
    (forall id' v' t', (id < id')%nat -> nth_error (hist s) id' <> Some (k, v', t')) ->
    In id (map fst (fired s)) \/ plookup k (pending s) = Some (v, t + iv, id)
}.

(* control part: who holds what *)
Record InvC (s : st) : Prop := {
  C_lock : forall v idx, lock s = Exec v idx -> proc s = PCall v;
  C_dead : loop_dead s = true -> proc s = PIdle;
  C_closed : closed s = true -> loop_dead s = true;
  C_cl : cl s = CWantLock -> loop_dead s = true;
  C_fan : map (fval (hist s)) (fired s) = fanout s ++ tailv s;
  (* a further Close call that is past queue.Close has seen the loop dead *)
  C_cl2 : forall id c, In (id, c) (cl2 s) -> c <> K2WaitLoop -> loop_dead s = true
}.

Definition Inv (iv : Z) (s : st) : Prop := InvD iv s /\ InvC s.

Lemma InvD_frame iv s s' :
  pending s' = pending s -> hist s' = hist s -> fired s' = fired s -> now s' = now s ->
  InvD iv s -> InvD iv s'.
Proof.
  intros Hp Hh Hf Hn [d1 d2 d3 d4 d5].
  constructor; rewrite ?Hp, ?Hh, ?Hf, ?Hn; assumption.
Qed.

Lemma InvC_frame s s' :
  hist s' = hist s -> fired s' = fired s -> fanout s' = fanout s -> proc s' = proc s ->
  lock s' = lock s -> loop_dead s' = loop_dead s -> closed s' = closed s -> cl s' = cl s ->
  cl2 s' = cl2 s ->
  InvC s -> InvC s'.
Proof.
  intros Hh Hf Hfo Hp Hl Hd Hc Hcl Hcl2 [c1 c2 c3 c4 c5 c6].
  constructor; unfold tailv; rewrite ?Hh, ?Hf, ?Hfo, ?Hp, ?Hl, ?Hd, ?Hc, ?Hcl, ?Hcl2; assumption.
Qed.

Lemma Inv_init iv : Inv iv init.
Proof.
  split; constructor; cbn.
  - intros k p [].
  - constructor.
  - intros i tp [].
  - constructor.
  - intros i k v t H. destruct i; discriminate.
  - discriminate.
  - discriminate.
  - discriminate.
  - discriminate.
  - reflexivity.
  - intros id c [].
Qed.

(* ---------------------------------------------------------------------------------------- *)
(* preservation, event by event *)

Ltac sset :=
  cbn [subs lock proc pending now qstopped loop_dead closed cl pend_subs fanout hist fired cl2
       set_subs set_lock set_proc set_pending set_now set_qstopped set_loop_dead set_closed
       set_cl set_pend_subs set_fanout set_hist set_fired set_cl2] in *.

Lemma fired_ids_lt iv s : InvD iv s ->
  forall i tp, In (i, tp) (fired s) -> (i < length (hist s))%nat.
Proof.
  intros [_ _ d3 _ _] i tp Hin. destruct (d3 _ _ Hin) as (k0 & v0 & t0 & Hn & _).
  eapply nth_error_lt; eassumption.
Qed.

Lemma batch_InvD iv s k v :
  InvD iv s ->
  InvD iv (set_hist (set_pending s (pupsert k (v, now s + iv, length (hist s)) (pending s)))
                    (hist s ++ [(k, v, now s)])).
Proof.
  intro HD. pose proof (fired_ids_lt iv s HD) as Hflt. destruct HD as [d1 d2 d3 d4 d5].
  constructor; sset.
  - intros k0 p Hin. unfold pupsert in Hin. destruct Hin as [E|Hin].
    + inversion E; subst k0 p. unfold p_id, p_val, p_due; cbn [fst snd]. split; [|split].
      * rewrite nth_error_snoc_new. replace (now s + iv - iv) with (now s) by lia. reflexivity.
      * intros id' v' t' Hlt Hn. apply nth_error_lt in Hn. rewrite app_length in Hn.
        cbn [length] in Hn. lia.
      * intro Hi. apply in_map_iff in Hi as [[i' tp] [E' Hin]]. cbn [fst] in E'; subst i'.
        apply Hflt in Hin. lia.
    + apply premove_In in Hin as [Hin Hne]. destruct (d1 _ _ Hin) as (Hn & Hlast & Hnf).
      split; [|split].
      * rewrite nth_error_snoc_old; [assumption|eapply nth_error_lt; eassumption].
      * intros id' v' t' Hlt Hn'. apply nth_error_snoc_cases in Hn' as [[_ Hn']|[_ E]].
        -- eapply Hlast; eassumption.
        -- inversion E; congruence.
      * assumption.
  - unfold pupsert; cbn [map fst]. constructor.
    + apply premove_key_absent.
    + apply premove_keys_nodup; assumption.
  - intros i tp Hin. destruct (d3 _ _ Hin) as (k0 & v0 & t0 & Hn & Hiv & Hnow & Hlater).
    exists k0, v0, t0. split; [|split; [|split]]; try assumption.
    + rewrite nth_error_snoc_old; [assumption|eapply nth_error_lt; eassumption].
    + intros id' v' t' Hlt Hn'. apply nth_error_snoc_cases in Hn' as [[_ Hn']|[_ E]].
      * eapply Hlater; eassumption.
      * inversion E; subst. assumption.
  - assumption.
  - intros i k0 v0 t0 Hn Hlast. apply nth_error_snoc_cases in Hn as [[Hlt Hn]|[Hi E]].
    + destruct (Z.eq_dec k0 k) as [->|Hne].
      * exfalso. apply (Hlast (length (hist s)) v (now s) Hlt). apply nth_error_snoc_new.
      * rewrite plookup_pupsert_other by assumption. apply d5; [assumption|].
        intros id' v' t' Hlt' Hn'. apply (Hlast id' v' t' Hlt').
        rewrite nth_error_snoc_old; [assumption|eapply nth_error_lt; eassumption].
    + inversion E; subst. right. rewrite plookup_pupsert_same. reflexivity.
Qed.

Lemma pop_InvD iv s k p :
  InvD iv s -> plookup k (pending s) = Some p -> p_due p <= now s ->
  InvD iv (set_fired (set_pending (set_proc s (PCall (p_val p))) (premove k (pending s)))
                     (fired s ++ [(p_id p, now s)])).
Proof.
  intros [d1 d2 d3 d4 d5] Hl Hdue. pose proof (plookup_In _ _ _ Hl) as Hin.
  destruct (d1 _ _ Hin) as (Hn & Hlast & Hnf). constructor; sset.
  - intros k0 p0 Hin0. apply premove_In in Hin0 as [Hin0 Hne].
    destruct (d1 _ _ Hin0) as (Hn0 & Hlast0 & Hnf0). split; [|split]; try assumption.
    rewrite map_app, in_app_iff. cbn [map fst In]. intros [H|[H|[]]]; [contradiction|].
    rewrite H in Hn. rewrite Hn in Hn0. inversion Hn0. congruence.
  - apply premove_keys_nodup; assumption.
  - intros i tp Hi. apply in_app_iff in Hi as [Hi|[E|[]]]; [apply d3; assumption|].
    inversion E; subst i tp. exists k, (p_val p), (p_due p - iv).
    split; [assumption|]. split; [lia|]. split; [lia|].
    intros id' v' t' Hlt Hn'. exfalso. eapply Hlast; eassumption.
  - rewrite map_app. cbn [map fst]. apply NoDup_snoc; assumption.
  - intros i k0 v0 t0 Hn0 Hlast0. rewrite map_app, in_app_iff.
    destruct (d5 _ _ _ _ Hn0 Hlast0) as [Hf|Hpl]; [left; left; assumption|].
    destruct (Z.eq_dec k0 k) as [->|Hne].
    + left; right. rewrite Hl in Hpl. injection Hpl as ->. cbn [map fst p_id snd In]. left; reflexivity.
    + right. rewrite plookup_premove_other by assumption. assumption.
Qed.

Lemma advance_InvD iv s d : 0 <= d -> InvD iv s -> InvD iv (set_now s (now s + d)).
Proof.
  intros Hd [d1 d2 d3 d4 d5]. constructor; sset; try assumption.
  intros i tp Hi. destruct (d3 _ _ Hi) as (k & v & t & Hn & Hiv & Hnow & Hl).
  exists k, v, t. split; [assumption|]. split; [assumption|]. split; [lia|assumption].
Qed.

Lemma tailv_exec s v idx : lock s = Exec v idx -> tailv s = [].
Proof. unfold tailv. intros ->. destruct (proc s); reflexivity. Qed.

Lemma tailv_idle s : proc s = PIdle -> tailv s = [].
Proof. unfold tailv. intros ->. reflexivity. Qed.

Lemma tailv_call s v : proc s = PCall v -> lock s = Free -> tailv s = [v].
Proof. unfold tailv. intros -> ->. reflexivity. Qed.

Lemma batch_InvC iv s k v x :
  InvD iv s -> InvC s ->
  InvC (set_hist (set_pending s x) (hist s ++ [(k, v, now s)])).
Proof.
  intros HD [c1 c2 c3 c4 c5 c6]. constructor; sset; try assumption.
  change (tailv (set_hist (set_pending s x) (hist s ++ [(k, v, now s)]))) with (tailv s).
  rewrite <- c5. apply map_ext_in. intros [i tp] Hi. unfold fval; cbn [fst].
  rewrite nth_error_snoc_old; [reflexivity|]. eapply fired_ids_lt; eassumption.
Qed.

Lemma pop_InvC iv s k p :
  InvD iv s -> InvC s -> proc s = PIdle -> loop_dead s = false ->
  plookup k (pending s) = Some p ->
  InvC (set_fired (set_pending (set_proc s (PCall (p_val p))) (premove k (pending s)))
                  (fired s ++ [(p_id p, now s)])).
Proof.
  intros [d1 _ _ _ _] [c1 c2 c3 c4 c5 c6] P LD Hl.
  assert (L : lock s = Free).
  { destruct (lock s) eqn:L; [reflexivity|]. specialize (c1 _ _ eq_refl). congruence. }
  destruct (d1 _ _ (plookup_In _ _ _ Hl)) as (Hn & _ & _).
  constructor; sset; try assumption.
  - intros v idx HL. congruence.
  - intro; congruence.
  - rewrite map_app, c5, (tailv_idle s P), app_nil_r. cbn [map]. f_equal.
    rewrite (tailv_call _ (p_val p)) by (sset; auto).
    unfold fval; cbn [fst]. rewrite Hn. reflexivity.
Qed.

Lemma exec_adv_Inv iv s v idx x :
  Inv iv s -> lock s = Exec v idx -> Inv iv (set_lock (set_subs s x) (Exec v (S idx))).
Proof.
  intros [HD [c1 c2 c3 c4 c5 c6]] L. split.
  - apply (InvD_frame iv s); [reflexivity..|exact HD].
  - constructor; sset; try assumption.
    + intros v0 idx0 [= <- _]. eapply c1; eassumption.
    + rewrite (tailv_exec _ v (S idx)) by reflexivity.
      rewrite (tailv_exec _ _ _ L) in c5. exact c5.
Qed.

Lemma with_sub_some s i g s' : with_sub s i g = Some s' -> exists x, s' = set_subs s x.
Proof.
  unfold with_sub. destruct (nth_error (subs s) i) as [b|]; [|discriminate].
  destruct (g b); [|discriminate]. intros [= <-]. eexists; reflexivity.
Qed.

Ltac framed HD HC s :=
  split; [apply (InvD_frame _ s); [reflexivity..|exact HD]
         |apply (InvC_frame s); [reflexivity..|exact HC]].

Lemma step_Inv vr iv s e s' : Inv iv s -> step vr iv s e = Some s' -> Inv iv s'.
Proof.
  intros [HD HC]. destruct e; unfold step.
  - (* Batch *)
    destruct (qstopped s); intros [= <-]; [split; assumption|].
    split; [apply batch_InvD | eapply batch_InvC]; eassumption.
  - (* Advance *)
    destruct (Z.ltb_spec d 0); [discriminate|]. intros [= <-]. split.
    + apply advance_InvD; assumption.
    + apply (InvC_frame s); [reflexivity..|exact HC].
  - (* SubscribeCall *) intros [= <-]. framed HD HC s.
  - (* CancelPending *)
    destruct (nth_error (pend_subs s) j) as [[id [p c]]|]; [|discriminate]. intros [= <-].
    framed HD HC s.
  - (* Cancel *) intro H. apply with_sub_some in H as [x ->]. framed HD HC s.
  - (* Want *) intro H. apply with_sub_some in H as [x ->]. framed HD HC s.
  - (* WantAll *) intro H. apply with_sub_some in H as [x ->]. framed HD HC s.
  - (* CloseCall *)
    destruct (cl s) eqn:C; try discriminate. intros [= <-]. split.
    + apply (InvD_frame iv s); [reflexivity..|exact HD].
    + destruct HC as [c1 c2 c3 c4 c5 c6]. constructor; sset; try assumption. discriminate.
  - (* Pop *)
    destruct (proc s) eqn:P; [|discriminate]. destruct (loop_dead s) eqn:LD; [discriminate|].
    destruct (plookup k (pending s)) as [p|] eqn:Hl; [|discriminate].
    destruct (_ && _) eqn:Hc; [|discriminate]. intros [= <-].
    apply andb_true_iff in Hc as [Hdue _]. apply Z.leb_le in Hdue.
    split; [apply pop_InvD | eapply pop_InvC]; eassumption.
  - (* ExecBegin *)
    destruct (proc s) as [|v] eqn:P; [discriminate|]. destruct (lock s) eqn:L; [|discriminate].
    destruct HC as [c1 c2 c3 c4 c5 c6].
    destruct (closed s) eqn:Cl; intros [= <-].
    + exfalso. rewrite (c2 (c3 eq_refl)) in P. discriminate.
    + split; [apply (InvD_frame iv s); [reflexivity..|exact HD]|].
      constructor; sset; try assumption.
      * intros v0 idx [= <- _]. exact P.
      * intro H0; congruence.
      * rewrite (tailv_exec _ v 0%nat) by reflexivity.
        rewrite (tailv_call s v P L) in c5. rewrite app_nil_r. exact c5.
  - (* ExecSend *)
    destruct (lock s) as [|v idx] eqn:L; [discriminate|].
    destruct (nth_error (subs s) idx) as [b|]; [|discriminate].
    destruct (_ && _); [|discriminate]. intros [= <-].
    apply exec_adv_Inv; [split; assumption|assumption].
  - (* ExecSkip *)
    destruct (lock s) as [|v idx] eqn:L; [discriminate|].
    destruct (nth_error (subs s) idx) as [b|]; [|discriminate].
    destruct (_ && _); [|discriminate]. intros [= <-].
    apply exec_adv_Inv; [split; assumption|assumption].
  - (* ExecPass *)
    destruct (lock s) as [|v idx] eqn:L; [discriminate|].
    destruct (nth_error (subs s) idx) as [b|]; [|discriminate].
    destruct (registered b); [discriminate|]. intros [= <-].
    apply (exec_adv_Inv iv s v idx (subs s)); [split; assumption|assumption].
  - (* ExecEnd *)
    destruct (lock s) as [|v idx] eqn:L; [discriminate|].
    destruct (nth_error (subs s) idx) as [b|]; [discriminate|]. intros [= <-].
    split; [apply (InvD_frame iv s); [reflexivity..|exact HD]|].
    destruct HC as [c1 c2 c3 c4 c5 c6]. constructor; sset; try assumption.
    + discriminate.
    + reflexivity.
    + rewrite tailv_idle by reflexivity. rewrite (tailv_exec _ _ _ L) in c5. exact c5.
  - (* FwdTake *) intro H. apply with_sub_some in H as [x ->]. framed HD HC s.
  - (* FwdDeliver *) intro H. apply with_sub_some in H as [x ->]. framed HD HC s.
  - (* FwdDrop *) intro H. apply with_sub_some in H as [x ->]. framed HD HC s.
  - (* FwdSeeDone *) intro H. apply with_sub_some in H as [x ->]. framed HD HC s.
  - (* FwdExitLocked *)
    destruct (lock s); [|discriminate]. intro H. apply with_sub_some in H as [x ->].
    framed HD HC s.
  - (* ConsSeeClosed *) intro H. apply with_sub_some in H as [x ->]. framed HD HC s.
  - (* SubscribeLocked *)
    destruct (lock s); [|discriminate].
    destruct (nth_error (pend_subs s) j) as [[c p]|]; [|discriminate]. intros [= <-].
    framed HD HC s.
  - (* CloseLoopDone *)
    destruct (cl s) eqn:C; try discriminate. destruct (proc s) eqn:P; [|discriminate].
    intros [= <-]. split; [apply (InvD_frame iv s); [reflexivity..|exact HD]|].
    destruct HC as [c1 c2 c3 c4 c5 c6]. constructor; sset; try assumption.
    all: try (intros _; exact P).
    all: try (intros; reflexivity).
  - (* CloseLock *)
    destruct (cl s) eqn:C; try discriminate. destruct (lock s) eqn:L; [|discriminate].
    intros [= <-]. split; [apply (InvD_frame iv s); [reflexivity..|exact HD]|].
    destruct HC as [c1 c2 c3 c4 c5 c6]. constructor; sset; try assumption.
    + intros _. apply c4. exact C.
    + discriminate.
  - (* CloseWait *)
    destruct (cl s) eqn:C; try discriminate. destruct (forallb _ _); [|discriminate].
    intros [= <-]. split; [apply (InvD_frame iv s); [reflexivity..|exact HD]|].
    destruct HC as [c1 c2 c3 c4 c5 c6]. constructor; sset; try assumption. discriminate.
  - (* Close2Call *)
    destruct (cl s) eqn:C; try discriminate.
    all: intros [= <-]; split; [apply (InvD_frame iv s); [reflexivity..|exact HD]|].
    all: destruct HC as [c1 c2 c3 c4 c5 c6]; constructor; sset; try assumption.
    all: intros id0 c Hin Hc; apply in_app_iff in Hin as [Hin|[E|[]]];
      [eapply c6; eassumption|inversion E; congruence].
  - (* Close2LoopDone *)
    destruct (nth_error (cl2 s) j) as [[id c]|] eqn:N; [|discriminate].
    destruct c; try discriminate. destruct (loop_dead s) eqn:LD; [|discriminate].
    intros [= <-]. split; [apply (InvD_frame iv s); [reflexivity..|exact HD]|].
    destruct HC as [c1 c2 c3 c4 c5 c6]. constructor; sset; try assumption.
    intros; exact LD.
  - (* Close2Lock *)
    destruct (nth_error (cl2 s) j) as [[id c]|] eqn:N; [|discriminate].
    destruct c; try discriminate. destruct (lock s) eqn:L; [|discriminate].
    intros [= <-]. split; [apply (InvD_frame iv s); [reflexivity..|exact HD]|].
    destruct HC as [c1 c2 c3 c4 c5 c6].
    assert (LD : loop_dead s = true).
    { apply (c6 id K2WantLock); [eapply nth_error_In; eassumption|discriminate]. }
    constructor; sset; try assumption; intros; exact LD.
  - (* Close2Wait *)
    destruct (nth_error (cl2 s) j) as [[id c]|] eqn:N; [|discriminate].
    destruct c; try discriminate. destruct (forallb _ _); [|discriminate].
    intros [= <-]. split; [apply (InvD_frame iv s); [reflexivity..|exact HD]|].
    destruct HC as [c1 c2 c3 c4 c5 c6].
    assert (LD : loop_dead s = true).
    { apply (c6 id K2WaitFwd); [eapply nth_error_In; eassumption|discriminate]. }
    constructor; sset; try assumption; intros; exact LD.
Qed.

Theorem reachable_Inv vr iv s : reachable vr iv s -> Inv iv s.
Proof.
  induction 1 as [|s e s' _ IH Hs]; [apply Inv_init|]. eapply step_Inv; eassumption.
Qed.

(* ---------------------------------------------------------------------------------------- *)
(* the debounce law *)

(* 1. every pop is of a recorded Batch call, not early, and no later Batch of the same key
      happened before the pop *)
Theorem debounce_fired : forall vr iv s, reachable vr iv s ->
  forall id tp, In (id, tp) (fired s) ->
    exists k v t, nth_error (hist s) id = Some (k, v, t) /\ (t + iv <= tp)%Z /\ (tp <= now s)%Z /\
      forall id' v' t', (id < id')%nat -> nth_error (hist s) id' = Some (k, v', t') -> (tp <= t')%Z.
Proof. intros vr iv s HR. exact (D_fired _ _ (proj1 (reachable_Inv vr iv s HR))). Qed.

(* a Batch call followed, strictly inside its interval, by another one for the same key is
   suppressed: it is never handed to the callback *)
Corollary debounce_suppressed : forall vr iv s, reachable vr iv s ->
  forall id id' k v v' t t', (id < id')%nat ->
    nth_error (hist s) id = Some (k, v, t) -> nth_error (hist s) id' = Some (k, v', t') ->
    (t' < t + iv)%Z -> ~ In id (map fst (fired s)).
Proof.
  intros vr iv s HR id id' k v v' t t' Hlt Hn Hn' Ht Hin.
  apply in_map_iff in Hin as [[i tp] [E Hin]]. cbn [fst] in E; subst i.
  destruct (debounce_fired vr iv s HR _ _ Hin) as (k0 & v0 & t0 & Hn0 & Hiv & _ & Hlater).
  rewrite Hn in Hn0. injection Hn0 as <- <- <-.
  specialize (Hlater id' v' t' Hlt Hn'). lia.
Qed.

(* 2. exactly once *)
Theorem debounce_once : forall vr iv s, reachable vr iv s -> NoDup (map fst (fired s)).
Proof. intros vr iv s HR. exact (D_once _ _ (proj1 (reachable_Inv vr iv s HR))). Qed.

(* 3. nothing is lost: the latest Batch call of each key is either already fired or still
      pending with due = its time + iv *)
Theorem debounce_latest : forall vr iv s, reachable vr iv s ->
  forall id k v t, nth_error (hist s) id = Some (k, v, t) ->
    (forall id' v' t', (id < id')%nat -> nth_error (hist s) id' <> Some (k, v', t')) ->
    In id (map fst (fired s)) \/ plookup k (pending s) = Some (v, (t + iv)%Z, id).
Proof. intros vr iv s HR. exact (D_latest _ _ (proj1 (reachable_Inv vr iv s HR))). Qed.

(* 4. at rest with the lock free and the queue loop alive, nothing pending is due *)
Theorem debounce_quiescent : forall vr iv s, reachable vr iv s -> stuck vr iv s ->
  lock s = Free -> loop_dead s = false ->
  forall k p, In (k, p) (pending s) -> (now s < p_due p)%Z.
Proof.
  intros vr iv s HR Hst L LD k p Hin.
  destruct (Z_lt_ge_dec (now s) (p_due p)) as [Hlt|Hge]; [assumption|exfalso].
  pose proof (D_keys _ _ (proj1 (reachable_Inv vr iv s HR))) as Hkeys.
  (* the processor is idle, else ExecBegin is enabled *)
  assert (P : proc s = PIdle).
  { pose proof (Hst ExecBegin eq_refl) as HB. unfold step in HB. rewrite L in HB.
    destruct (proc s); [reflexivity|]. destruct (closed s); discriminate. }
  (* an entry of minimal due time *)
  destruct (argmin_Z (fun e : key * pend => p_due (snd e)) (pending s)) as [[k0 p0] [Hin0 Hmin]].
  { intro E. rewrite E in Hin. destruct Hin. }
  cbn [snd] in Hmin.
  pose proof (plookup_nodup _ Hkeys _ _ Hin0) as Hl.
  pose proof (Hst (Pop k0) eq_refl) as HP. unfold step in HP. rewrite P, LD, Hl in HP.
  assert (Hc : ((p_due p0 <=? now s)%Z
                && forallb (fun e' : key * pend => (p_due p0 <=? p_due (snd e'))%Z) (pending s))
               = true).
  { apply andb_true_iff. split.
    - apply Z.leb_le. specialize (Hmin _ Hin). cbn [snd] in Hmin. lia.
    - apply forallb_forall. intros e' He'. apply Z.leb_le. apply Hmin; assumption. }
  rewrite Hc in HP. discriminate.
Qed.

(* 3 + 4: at rest (lock free, loop alive) the latest value of every key whose interval has
   elapsed HAS been handed to the callback *)
Corollary debounce_delivered : forall vr iv s, reachable vr iv s -> stuck vr iv s ->
  lock s = Free -> loop_dead s = false ->
  forall id k v t, nth_error (hist s) id = Some (k, v, t) ->
    (forall id' v' t', (id < id')%nat -> nth_error (hist s) id' <> Some (k, v', t')) ->
    (t + iv <= now s)%Z -> In id (map fst (fired s)).
Proof.
  intros vr iv s HR Hst L LD id k v t Hn Hlast Hel.
  destruct (debounce_latest vr iv s HR _ _ _ _ Hn Hlast) as [Hf|Hpl]; [assumption|exfalso].
  apply plookup_In in Hpl.
  pose proof (debounce_quiescent vr iv s HR Hst L LD _ _ Hpl) as Hq.
  unfold p_due in Hq; cbn [fst snd] in Hq. lia.
Qed.

(* 5. what fan-out sees is exactly what was popped, in pop order (the last popped value may
      still be waiting for b.lock) *)
Theorem fanout_is_fired : forall vr iv s, reachable vr iv s ->
  map (fun f => match nth_error (hist s) (fst f) with Some h => snd (fst h) | None => 0%Z end)
      (fired s)
  = fanout s ++ (match proc s, lock s with PCall v, Free => [v] | _, _ => [] end).
Proof. intros vr iv s HR. exact (C_fan _ (proj2 (reachable_Inv vr iv s HR))). Qed.

(* control invariants used above, exported *)
Theorem exec_holds_call : forall vr iv s, reachable vr iv s ->
  forall v idx, lock s = Exec v idx -> proc s = PCall v.
Proof. intros vr iv s HR. exact (C_lock _ (proj2 (reachable_Inv vr iv s HR))). Qed.

Theorem dead_loop_idle : forall vr iv s, reachable vr iv s -> loop_dead s = true -> proc s = PIdle.
Proof. intros vr iv s HR. exact (C_dead _ (proj2 (reachable_Inv vr iv s HR))). Qed.

Theorem closed_loop_dead : forall vr iv s, reachable vr iv s -> closed s = true -> loop_dead s = true.
Proof. intros vr iv s HR. exact (C_closed _ (proj2 (reachable_Inv vr iv s HR))). Qed.

Theorem pending_keys_unique : forall vr iv s, reachable vr iv s -> NoDup (map fst (pending s)).
Proof. intros vr iv s HR. exact (D_keys _ _ (proj1 (reachable_Inv vr iv s HR))). Qed.

Theorem pending_is_latest : forall vr iv s, reachable vr iv s ->
  forall k p, In (k, p) (pending s) ->
    nth_error (hist s) (p_id p) = Some (k, p_val p, (p_due p - iv)%Z) /\
    (forall id' v' t', (p_id p < id')%nat -> nth_error (hist s) id' <> Some (k, v', t')) /\
    ~ In (p_id p) (map fst (fired s)).
Proof. intros vr iv s HR. exact (D_pend _ _ (proj1 (reachable_Inv vr iv s HR))). Qed.

(* ---------------------------------------------------------------------------------------- *)
(* non-vacuity: a concrete schedule (interval 10): key 1 gets value 5 at time 0 and value 6 at
   time 3 (inside the interval: 5 is suppressed); key 2 gets 7 at time 4; at 13 the entry of
   key 1 is popped and fanned out; key 2 is still pending. *)

Lemma run_reachable vr iv es : forall s s', reachable vr iv s -> run vr iv s es = Some s' ->
  reachable vr iv s'.
Proof.
  induction es as [|e es IH]; cbn [run]; intros s s' HR H.
  - injection H as <-. exact HR.
  - destruct (step vr iv s e) as [s1|] eqn:Hs; [|discriminate].
    eapply IH; [|exact H]. eapply reach_step; eassumption.
Qed.

Definition ex_events : list ev :=
  [Batch 1 5; Advance 3; Batch 1 6; Advance 1; Batch 2 7; Advance 9; Pop 1; ExecBegin; ExecEnd].

Definition ex_state : st :=
  mkSt [] Free PIdle [(2, (7, 14, 2%nat))] 13 false false false CNone [] [6]
       [(1, 5, 0); (1, 6, 3); (2, 7, 4)] [(1%nat, 13)] [].

Example ex_run : forall vr, run vr 10 init ex_events = Some ex_state.
Proof. intros []; vm_compute; reflexivity. Qed.

Example ex_reachable : forall vr, reachable vr 10 ex_state.
Proof. intro vr. eapply run_reachable; [apply reach_init|apply ex_run]. Qed.

(* hypotheses of debounce_fired / debounce_once / fanout_is_fired: a pop exists *)
Example ex_fired : In (1%nat, 13) (fired ex_state) /\ fanout ex_state = [6].
Proof. split; [left; reflexivity|reflexivity]. Qed.

(* hypotheses of debounce_suppressed: calls 0 and 1, same key, 3 < 0 + 10 *)
Example ex_suppressed :
  nth_error (hist ex_state) 0 = Some (1, 5, 0) /\ nth_error (hist ex_state) 1 = Some (1, 6, 3) /\
  3 < 0 + 10 /\ ~ In 0%nat (map fst (fired ex_state)).
Proof.
  split; [reflexivity|]. split; [reflexivity|]. split; [lia|].
  exact (debounce_suppressed Fixed 10 ex_state (ex_reachable Fixed) 0%nat 1%nat 1 5 6 0 3
           (Nat.lt_0_succ 0) eq_refl eq_refl eq_refl).
Qed.

(* hypotheses of debounce_latest, both outcomes: call 1 (latest of key 1) fired, call 2 (latest
   of key 2) pending *)
Example ex_latest :
  In 1%nat (map fst (fired ex_state)) /\ plookup 2 (pending ex_state) = Some (7, 4 + 10, 2%nat).
Proof. split; [left; reflexivity|reflexivity]. Qed.

(* hypotheses of debounce_quiescent / debounce_delivered: the example state is at rest *)
Example ex_stuck : forall vr, stuck vr 10 ex_state.
Proof.
  intros vr e He. destruct e; try discriminate He; try reflexivity.
  all: try (unfold step, with_sub; cbn [subs ex_state]; destruct i; reflexivity).
  - (* Pop *) unfold step. cbn [proc loop_dead pending ex_state now].
    rewrite plookup_cons. destruct (Z.eqb_spec 2 k) as [<-|Hne]; reflexivity.
  - (* SubscribeLocked *) unfold step. cbn [lock pend_subs ex_state]. destruct j; reflexivity.
  - (* Close2LoopDone *) unfold step. cbn [cl2 ex_state]. destruct j; reflexivity.
  - (* Close2Lock *) unfold step. cbn [cl2 ex_state]. destruct j; reflexivity.
  - (* Close2Wait *) unfold step. cbn [cl2 ex_state]. destruct j; reflexivity.
Qed.

Example ex_quiescent : forall k p, In (k, p) (pending ex_state) -> now ex_state < p_due p.
Proof.
  exact (debounce_quiescent Fixed 10 ex_state (ex_reachable Fixed) (ex_stuck Fixed) eq_refl eq_refl).
Qed.
