(* C10 — source-table tie: harness/srctab10 regenerates, from the text of
   /repo/events/batcher/batcher.go, the capacity of `bufferedCh := make(chan T, 50)` in
   subscribe (an inline literal, located through the AST); it must be the [bufcap] of Model.v. *)
From Kit Require Import Lib.SrcTab C10.Model.
From Coq Require Import String.
Local Open Scope string_scope.

Definition table : list entry :=
  [ ("batcher.subscribe.bufferSize", eqv (tnat bufcap)) ].

Definition run_cases := run_tab table.
