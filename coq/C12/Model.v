(* C12 — concurrency.RunnerManager / RunnerCloserManager (/repo/concurrency/runner.go, closer.go)
   as two nested event systems.  Definitions only.

   ERRORS are [Z] codes; [canceled] (0) stands for context.Canceled (or anything for which
   errors.Is(_, context.Canceled) holds).  A Go error value that is a join is a [list err] of its
   leaves; [[]] is the nil error (errors.Join of nothing but nils is nil).

   ---------------------------------------------------------------------------------------------
   1. RunnerManager  (runner.go)

     Add(runner)   45-53   if r.running.Load() { return ErrManagerAlreadyStarted }          [RAddCheck]
                           r.lock.Lock(); r.runners = append(r.runners, runner); Unlock()   [RAddAppend]
                           Fixed: after taking the lock, running is checked AGAIN.
     Run(ctx)      58-97   if !r.running.CompareAndSwap(false,true) { return ErrStarted }   [RRunCas]
                           ctx, cancel := WithCancel(ctx); defer cancel()
                           for _, runner := range r.runners { go ... }                       [RSpawn]
                             (the range expression is evaluated once: a snapshot of the slice;
                              Fixed: the snapshot is taken under r.lock and used by both loops)
                           each goroutine: rErr := runner(ctx)                               [RRunnerReturn i]
                                           errCh <- (rErr unless nil / Canceled)  -- unbuffered: a rendezvous
                                           deferred cancel()                                 [RCollect i: the
                                              receive of the main loop, followed by that goroutine's cancel]
                           for i := 0; i < len(r.runners); i++ { err := <-errCh ... }        [RCollect i]
                             Original: len(r.runners) is RE-READ every iteration (so it sees a late
                             append); Fixed: the length of the snapshot.
                           return errors.Join(errObjs...)  (deferred cancel())               [RRunReturn]

   Runners are environment processes with a scripted behaviour [beh]: [Free r] returns r whenever
   the environment says so, [OnCancel r] returns r only once its context is cancelled,
   [CtxErr] returns ctx.Err() once its context is cancelled, [CloseRunner] is the runner
   RunnerCloserManager.Run injects (returns nil when its context is cancelled or closeCh is
   closed).  [RCtxCancel e] = the context passed to Run ends and reports e from then on
   ([canceled]: cancelled, with or without a cause; [deadline]: its deadline passed);
   [RCloseCh] = closeCh gets closed (by RunnerCloserManager.Close; environment from here).

   The send on the unbuffered channel and the deferred cancel() of the sending goroutine are one
   event with the receive: between them the goroutine neither blocks nor takes a lock.
   Go statement + start of the runner are one step ([RSpawn] creates every goroutine [Running]).
*)
From Kit Require Export Lib.Base.
From Coq Require Export Permutation.

Definition err := Z.
Definition canceled : err := 0%Z.
Definition err_started : err := (-1)%Z.   (* ErrManagerAlreadyStarted *)
Definition err_closed : err := (-2)%Z.    (* ErrManagerAlreadyClosed *)
Definition deadline : err := (-3)%Z.      (* context.DeadlineExceeded *)

(* what the runner goroutine sends: nil and Canceled become nil *)
Definition filt (r : option err) : option err :=
  match r with
  | Some e => if (e =? canceled)%Z then None else Some e
  | None => None
  end.

Definition olist {A} (o : option A) : list A := match o with Some a => [a] | None => [] end.

Fixpoint upd {A} (i : nat) (f : A -> A) (l : list A) : list A :=
  match l, i with
  | [], _ => []
  | x :: t, O => f x :: t
  | x :: t, S j => x :: upd j f t
  end.

Inductive beh :=
| Free (r : option err)        (* returns r when the environment says so *)
| OnCancel (r : option err)    (* returns r once its context is cancelled *)
| CtxErr                       (* returns ctx.Err() once its context is cancelled *)
| CloseRunner.                 (* the runner RunnerCloserManager.Run injects *)

(* what a runner with behaviour [b] returns when its context reports [cerr] *)
Definition result_of (cerr : err) (b : beh) : option err :=
  match b with Free r | OnCancel r => r | CtxErr => Some cerr | CloseRunner => None end.

Inductive pst := Running | Sending | Done.
(* [p_res]: what the runner returned (None while it runs, and for a nil result) *)
Record rproc := mkp { p_beh : beh; p_st : pst; p_res : option err }.

Definition sent (p : rproc) : list err := olist (filt (p_res p)).

Inductive rpc :=
| RIdle                                   (* Run not called *)
| RStarted                                (* CAS won, goroutines not yet created *)
| RCollecting (k : nat) (errs : list err) (* in the collection loop, k results received *)
| RReturned (errs : list err).            (* Run has returned errors.Join(errs) *)

Inductive addst :=
| AChecked (b : beh)       (* Add passed its running.Load() test, has not yet taken the lock *)
| AAccepted (b : beh)      (* Add returned nil *)
| ARejected.               (* Add returned ErrManagerAlreadyStarted *)

Record rstate := mkr {
  r_running : bool;
  r_runners : list beh;        (* r.runners *)
  r_pc : rpc;                  (* the (only successful) Run call *)
  r_procs : list rproc;        (* one goroutine per element of the snapshot *)
  r_cancelled : bool;          (* the context handed to the runners is cancelled *)
  r_cerr : err;                (* ... and this is what its Err() reports (set by the FIRST cancellation:
                                  the caller's context ending with Canceled / DeadlineExceeded, or the
                                  manager's own cancel() = Canceled) *)
  r_parent : bool;             (* ghost: the caller's context has ended *)
  r_closech : bool;            (* closeCh is closed (RunnerCloserManager only) *)
  r_adds : list addst;         (* Add calls so far *)
  r_rejected : nat             (* ghost: Run calls that returned ErrManagerAlreadyStarted *)
}.

Inductive revt :=
| RAddCheck (b : beh)
| RAddAppend (a : nat)
| RRunCas
| RSpawn
| RRunnerReturn (i : nat)
| RCollect (i : nat)
| RRunReturn
| RCtxCancel (e : err)      (* the caller's context ends; its Err() is e from then on *)
| RCloseCh.

(* the bound of the collection loop *)
Definition target (v : variant) (s : rstate) : nat :=
  match v with
  | Original => length (r_runners s)
  | Fixed => length (r_procs s)
  end.

Definition may_return (s : rstate) (b : beh) : bool :=
  match b with
  | Free _ => true
  | OnCancel _ | CtxErr => r_cancelled s
  | CloseRunner => r_cancelled s || r_closech s
  end.

Definition set_st (st : pst) (p : rproc) : rproc := mkp (p_beh p) st (p_res p).
Definition ret_with (r : option err) (p : rproc) : rproc := mkp (p_beh p) Sending r.

(* the context's error after a cancellation with error [e]: the first one wins *)
Definition cerr_after (s : rstate) (e : err) : err := if r_cancelled s then r_cerr s else e.

Definition step_r (v : variant) (s : rstate) (e : revt) : option rstate :=
  match e with
  | RAddCheck b =>
      Some (mkr (r_running s) (r_runners s) (r_pc s) (r_procs s) (r_cancelled s) (r_cerr s)
                (r_parent s) (r_closech s)
                (r_adds s ++ [if r_running s then ARejected else AChecked b]) (r_rejected s))
  | RAddAppend a =>
      match nth_error (r_adds s) a with
      | Some (AChecked b) =>
          if is_fixed v && r_running s
          then Some (mkr (r_running s) (r_runners s) (r_pc s) (r_procs s) (r_cancelled s) (r_cerr s)
                         (r_parent s) (r_closech s) (upd a (fun _ => ARejected) (r_adds s))
                         (r_rejected s))
          else Some (mkr (r_running s) (r_runners s ++ [b]) (r_pc s) (r_procs s) (r_cancelled s)
                         (r_cerr s) (r_parent s) (r_closech s)
                         (upd a (fun _ => AAccepted b) (r_adds s)) (r_rejected s))
      | _ => None
      end
  | RRunCas =>
      if r_running s
      then Some (mkr true (r_runners s) (r_pc s) (r_procs s) (r_cancelled s) (r_cerr s) (r_parent s)
                     (r_closech s) (r_adds s) (S (r_rejected s)))
      else Some (mkr true (r_runners s) RStarted (r_procs s) (r_cancelled s) (r_cerr s) (r_parent s)
                     (r_closech s) (r_adds s) (r_rejected s))
  | RSpawn =>
      match r_pc s with
      | RStarted =>
          Some (mkr (r_running s) (r_runners s) (RCollecting 0 [])
                    (map (fun b => mkp b Running None) (r_runners s))
                    (r_cancelled s) (r_cerr s) (r_parent s) (r_closech s) (r_adds s) (r_rejected s))
      | _ => None
      end
  | RRunnerReturn i =>
      match nth_error (r_procs s) i with
      | Some p =>
          match p_st p with
          | Running =>
              if may_return s (p_beh p)
              then Some (mkr (r_running s) (r_runners s) (r_pc s)
                             (upd i (ret_with (result_of (r_cerr s) (p_beh p))) (r_procs s))
                             (r_cancelled s) (r_cerr s) (r_parent s) (r_closech s) (r_adds s)
                             (r_rejected s))
              else None
          | _ => None
          end
      | None => None
      end
  | RCollect i =>
      match r_pc s, nth_error (r_procs s) i with
      | RCollecting k errs, Some p =>
          match p_st p with
          | Sending =>
              if (k <? target v s)%nat
              then Some (mkr (r_running s) (r_runners s) (RCollecting (S k) (errs ++ sent p))
                             (upd i (set_st Done) (r_procs s))
                             true (cerr_after s canceled) (r_parent s) (r_closech s) (r_adds s)
                             (r_rejected s))
              else None
          | _ => None
          end
      | _, _ => None
      end
  | RRunReturn =>
      match r_pc s with
      | RCollecting k errs =>
          if (k <? target v s)%nat then None
          else Some (mkr (r_running s) (r_runners s) (RReturned errs) (r_procs s)
                         true (cerr_after s canceled) (r_parent s) (r_closech s) (r_adds s)
                         (r_rejected s))
      | _ => None
      end
  | RCtxCancel e =>
      Some (mkr (r_running s) (r_runners s) (r_pc s) (r_procs s) true (cerr_after s e) true
                (r_closech s) (r_adds s) (r_rejected s))
  | RCloseCh =>
      Some (mkr (r_running s) (r_runners s) (r_pc s) (r_procs s) (r_cancelled s) (r_cerr s)
                (r_parent s) true (r_adds s) (r_rejected s))
  end.

(* NewRunnerManager(bs...) *)
Definition new_rm (bs : list beh) : rstate := mkr false bs RIdle [] false canceled false false [] 0.

Fixpoint run_r (v : variant) (s : rstate) (es : list revt) : option rstate :=
  match es with
  | [] => Some s
  | e :: es' => match step_r v s e with Some s' => run_r v s' es' | None => None end
  end.


Definition all_done (ps : list rproc) : Prop := forall p, In p ps -> p_st p = Done.

(* the errors the finished goroutines have handed over *)
Definition collected (ps : list rproc) : list err :=
  flat_map (fun p => match p_st p with Done => sent p | _ => [] end) ps.

(* Run is stuck for ever: it waits for one more result, every goroutine has delivered, and none
   of the manager's / runners' own events is enabled. *)
Definition r_wedged (v : variant) (s : rstate) : Prop :=
  (exists k errs, r_pc s = RCollecting k errs) /\ all_done (r_procs s) /\
  step_r v s RRunReturn = None /\ step_r v s RSpawn = None /\
  (forall i, step_r v s (RCollect i) = None) /\ (forall i, step_r v s (RRunnerReturn i) = None).

(* ---------------------------------------------------------------------------------------------
   2. RunnerCloserManager  (closer.go)

     New(grace, runners...)   mngr = NewRunnerManager(runners...); if grace != nil the FIRST closer is
                              the fatal-shutdown closer: t := clock.NewTimer(grace);
                              select { <-t.C(): fatalShutdownFn() | <-closeFatalShutdown: }
     AddCloser(c)   94-126    if c.closing.Load() { return ErrManagerAlreadyClosed }         [CAddCloserCheck]
                              c.mngr.lock.Lock(); c.closers = append(...); Unlock()          [CAddCloserAppend]
                              Fixed: closing is checked AGAIN under the lock.
     Run(ctx)      129-182    if !running.CAS(false,true) { return ErrStarted }              [CRunCas]
                              defer close(stopped)
                              if len(mngr.runners) > 0 {              (read WITHOUT the lock)         [CSetupLen]
                                 mngr.Add(close-runner) }
                              go func() { errCh <- mngr.Run(ctx) }()                          [CSetup: the Add
                                 of the close-runner and the inner manager's CompareAndSwap; nothing but an Add
                                 of the same manager can tell them apart, and that Add either lands before
                                 both - between CSetupLen and CSetup - or is refused]
                              rErr := <-errCh            (the inner manager's events: [CInner e])
                              mngr.lock.Lock(); closing.Store(true)
                              for each closer: go func() { errCh <- closer() }                [CClosing]
                              for i := 1; i < len(closers)+1; i++ {
                                 if i == len(closers) { close(closeFatalShutdown) }          [CCloseFatalCh]
                                 errs[i] = <-errCh }                                         [CCollectCloser j]
                              retErr = Join(errs); Unlock; close(stopped); return             [CRunReturn]
     Add(runner)   84-91     if c.running.Load() { return ErrManagerAlreadyStarted }        [CAddCheck, which in the
                              return c.mngr.Add(runner)       same step does the inner manager's own test]
                              ... the inner Add's locked append                              [CAddAppend k]
                              After the third fix: the lock-free test [CAddCheck]; then, under mngr.lock,
                              running tested again and c.mngr.runners appended directly [CAddAppend k]; and
                              Run reads len(mngr.runners) and appends the close-runner under the same lock
                              [CSetupLen], then starts the inner manager [CSetup].
     Close()       185-195    if closed.CAS(false,true) { close(closeCh) }                    [CCloseBegin]
                              if running.CAS(false,true) { close(stopped) }                   [CCloseStep c, 1st]
                              <-stopped; return retErr                                        [CCloseStep c, 2nd]

   Closers are environment processes: [CCloserStart j] (the goroutine begins to execute the
   closer; for the fatal closer: creates the timer), [CCloserReturn j] (a user closer returns its
   scripted result; its send into the buffered errCh makes the result available to the loop).
   The fatal closer: [CAdvance d] = the clock advances by d >= 0; [CFire] = the clock delivers the
   grace timer (enabled once it has advanced by the grace period since the timer was created - at
   once when the grace period is 0 or negative); [CFatal] = its select takes the
   timer branch and calls the fatal action; [CFatalQuit] = its select takes the closeFatalShutdown
   branch.  When both branches are ready Go's select picks either: both events are enabled and
   the ghost flag [tie] records that this happened.
   mngr.lock is held by Run exactly while [c_pc] is [CCollect]. *)

(* [Fatal d]: the fatal-shutdown closer of a manager created with grace period d (nanoseconds; any
   integer: NewRunnerCloserManager registers it for every non-nil pointer, also to 0 or a negative
   duration) *)
Inductive cl := Fatal (d : Z) | User (r : option err).
Inductive cst := CSpawned | CRunning | CRet | CColl.
Record cproc := mkc { c_cl : cl; c_st : cst; c_starts : nat }.

Inductive cpc :=
| CIdle
| CStarted
| CDecided (w : bool)      (* Run has read len(mngr.runners) > 0 = w; close-runner not yet added *)
| CWaitInner
| CCollect (n i : nat) (errs : list err)
| CDone (errs : list err).

Inductive acst :=
| ACChecked (r : option err)
| ACAccepted (idx : nat)      (* AddCloser returned nil; the closer sits at c.closers[idx] *)
| ACRejected.                 (* ErrManagerAlreadyClosed *)

Inductive kst :=
| KA                          (* Close: closed CAS done *)
| KB                          (* running CAS done; blocked on <-stopped *)
| KRet (errs : list err).     (* Close returned errs *)

(* a RunnerCloserManager.Add call: refused by its running test, or handed on to the inner
   manager's Add (call number [a] there); after the third fix: waiting for the lock with runner b *)
Inductive cadd := CARefused | CAPassed (a : nat) | CAPending (b : beh).

Record cstate := mkcs {
  inner : rstate;
  c_running : bool;
  c_closing : bool;
  c_stopped : bool;
  closers : list cl;            (* c.closers *)
  c_pc : cpc;
  c_procs : list cproc;         (* closer goroutines, one per closer present at [CClosing] *)
  fch_closed : bool;            (* closeFatalShutdown closed *)
  timer_fired : bool;
  fired_early : bool;           (* ghost: the timer was delivered while closeFatalShutdown was open *)
  fatal_count : nat;            (* calls of the fatal action *)
  tie : bool;                   (* ghost: the fatal closer's select ran with both branches ready *)
  reterr : list err;            (* c.retErr *)
  addcl : list acst;
  closes : list kst;
  run_rejected : nat;           (* ghost: Run calls that returned ErrManagerAlreadyStarted *)
  cadds : list cadd;            (* RunnerCloserManager.Add calls so far *)
  elapsed : Z                   (* how far the clock has advanced since the grace timer was created *)
}.

Inductive cev :=
| CRunCas
| CSetupLen
| CSetup
| CInner (e : revt)
| CClosing
| CCloserStart (j : nat)
| CCloserReturn (j : nat)
| CAdvance (d : Z)
| CFire
| CFatal
| CFatalQuit
| CCloseFatalCh
| CCollectCloser (j : nat)
| CRunReturn
| CCloseBegin
| CCloseStep (c : nat)
| CAddCloserCheck (r : option err)
| CAddCloserAppend (a : nat)
| CAddCheck (b : beh)
| CAddAppend (k : nat).

Definition lock_held (s : cstate) : bool :=
  match c_pc s with CCollect _ _ _ => true | _ => false end.

Definition w_inner (s : cstate) (x : rstate) : cstate :=
  mkcs x (c_running s) (c_closing s) (c_stopped s) (closers s) (c_pc s) (c_procs s) (fch_closed s)
       (timer_fired s) (fired_early s) (fatal_count s) (tie s) (reterr s) (addcl s) (closes s)
       (run_rejected s) (cadds s) (elapsed s).
Definition w_pc (s : cstate) (x : cpc) : cstate :=
  mkcs (inner s) (c_running s) (c_closing s) (c_stopped s) (closers s) x (c_procs s) (fch_closed s)
       (timer_fired s) (fired_early s) (fatal_count s) (tie s) (reterr s) (addcl s) (closes s)
       (run_rejected s) (cadds s) (elapsed s).
Definition w_procs (s : cstate) (x : list cproc) : cstate :=
  mkcs (inner s) (c_running s) (c_closing s) (c_stopped s) (closers s) (c_pc s) x (fch_closed s)
       (timer_fired s) (fired_early s) (fatal_count s) (tie s) (reterr s) (addcl s) (closes s)
       (run_rejected s) (cadds s) (elapsed s).
Definition w_addcl (s : cstate) (x : list acst) : cstate :=
  mkcs (inner s) (c_running s) (c_closing s) (c_stopped s) (closers s) (c_pc s) (c_procs s)
       (fch_closed s) (timer_fired s) (fired_early s) (fatal_count s) (tie s) (reterr s) x (closes s)
       (run_rejected s) (cadds s) (elapsed s).
Definition w_closes (s : cstate) (x : list kst) : cstate :=
  mkcs (inner s) (c_running s) (c_closing s) (c_stopped s) (closers s) (c_pc s) (c_procs s)
       (fch_closed s) (timer_fired s) (fired_early s) (fatal_count s) (tie s) (reterr s) (addcl s) x
       (run_rejected s) (cadds s) (elapsed s).

Definition w_elapsed (s : cstate) (x : Z) : cstate :=
  mkcs (inner s) (c_running s) (c_closing s) (c_stopped s) (closers s) (c_pc s) (c_procs s)
       (fch_closed s) (timer_fired s) (fired_early s) (fatal_count s) (tie s) (reterr s) (addcl s)
       (closes s) (run_rejected s) (cadds s) x.

Definition w_cadds (s : cstate) (x : list cadd) : cstate :=
  mkcs (inner s) (c_running s) (c_closing s) (c_stopped s) (closers s) (c_pc s) (c_procs s)
       (fch_closed s) (timer_fired s) (fired_early s) (fatal_count s) (tie s) (reterr s) (addcl s)
       (closes s) (run_rejected s) x (elapsed s).

Definition cset_st (st : cst) (p : cproc) : cproc := mkc (c_cl p) st (c_starts p).
Definition cstart (p : cproc) : cproc := mkc (c_cl p) CRunning (S (c_starts p)).

Definition is_fatal (c : cl) : bool := match c with Fatal _ => true | User _ => false end.
Definition cl_result (c : cl) : option err := match c with Fatal _ => None | User r => r end.

(* the grace period of the (first) fatal closer among the goroutines *)
Fixpoint fatal_grace (ps : list cproc) : option Z :=
  match ps with
  | [] => None
  | p :: t => match c_cl p with Fatal d => Some d | User _ => fatal_grace t end
  end.

(* the timer is due: the clock has advanced by at least the grace period since it was created
   (at once for a grace period of 0 or less) *)
Definition grace_elapsed (s : cstate) : bool :=
  match fatal_grace (c_procs s) with Some d => (d <=? elapsed s)%Z | None => false end.

(* index of the fatal closer's goroutine in a state where it is [CRunning] *)
Fixpoint find_fatal_running (ps : list cproc) (i : nat) : option nat :=
  match ps with
  | [] => None
  | p :: t => if is_fatal (c_cl p) then (match c_st p with CRunning => Some i | _ => None end)
              else find_fatal_running t (S i)
  end.

(* events of the inner manager that happen on their own inside RunnerCloserManager.Run (the
   others are issued by [CSetup] / [CCloseBegin]) *)
Definition inner_allowed (e : revt) : bool :=
  match e with
  | RSpawn | RRunnerReturn _ | RCollect _ | RRunReturn | RCtxCancel _ => true
  | _ => false
  end.

(* [v]: the AddCloser / RunnerManager fixes; [u]: the third fix (RunnerCloserManager.Add appends, and
   Run decides about the close-runner, under mngr.lock) *)
Definition step_c_gen (v u : variant) (s : cstate) (e : cev) : option cstate :=
  match e with
  | CRunCas =>
      if c_running s
      then Some (mkcs (inner s) true (c_closing s) (c_stopped s) (closers s) (c_pc s) (c_procs s)
                      (fch_closed s) (timer_fired s) (fired_early s) (fatal_count s) (tie s)
                      (reterr s) (addcl s) (closes s) (S (run_rejected s)) (cadds s) (elapsed s))
      else Some (mkcs (inner s) true (c_closing s) (c_stopped s) (closers s) CStarted (c_procs s)
                      (fch_closed s) (timer_fired s) (fired_early s) (fatal_count s) (tie s)
                      (reterr s) (addcl s) (closes s) (run_rejected s) (cadds s) (elapsed s))
  | CSetupLen =>
      match c_pc s with
      | CStarted =>
          let w := match r_runners (inner s) with [] => false | _ => true end in
          if is_fixed u
          then (* under the lock: read the length AND append the close-runner *)
               let i0 := inner s in
               let i1 := if w
                         then match step_r v i0 (RAddCheck CloseRunner) with
                              | Some x => step_r v x (RAddAppend (length (r_adds i0)))
                              | None => None
                              end
                         else Some i0 in
               match i1 with
               | Some x => Some (w_pc (w_inner s x) (CDecided w))
               | None => None
               end
          else Some (w_pc s (CDecided w))
      | _ => None
      end
  | CSetup =>
      match c_pc s with
      | CDecided w =>
          let i0 := inner s in
          let i1 := if w && negb (is_fixed u)
                    then match step_r v i0 (RAddCheck CloseRunner) with
                         | Some x => step_r v x (RAddAppend (length (r_adds i0)))
                         | None => None
                         end
                    else Some i0 in
          match i1 with
          | Some x => match step_r v x RRunCas with
                      | Some y => Some (w_pc (w_inner s y) CWaitInner)
                      | None => None
                      end
          | None => None
          end
      | _ => None
      end
  | CInner e =>
      if inner_allowed e
      then match step_r v (inner s) e with
           | Some x => Some (w_inner s x)
           | None => None
           end
      else None
  | CClosing =>
      match c_pc s, r_pc (inner s) with
      | CWaitInner, RReturned rerrs =>
          Some (mkcs (inner s) (c_running s) true (c_stopped s) (closers s)
                     (CCollect (length (closers s)) 1 rerrs)
                     (map (fun c => mkc c CSpawned 0) (closers s))
                     (fch_closed s) (timer_fired s) (fired_early s) (fatal_count s) (tie s)
                     (reterr s) (addcl s) (closes s) (run_rejected s) (cadds s) (elapsed s))
      | _, _ => None
      end
  | CCloserStart j =>
      match nth_error (c_procs s) j with
      | Some p => match c_st p with
                  | CSpawned =>
                      (* the fatal closer creates its timer now: the grace period counts from here *)
                      Some (w_elapsed (w_procs s (upd j cstart (c_procs s)))
                                      (if is_fatal (c_cl p) then 0%Z else elapsed s))
                  | _ => None
                  end
      | None => None
      end
  | CAdvance d =>
      if (0 <=? d)%Z then Some (w_elapsed s (elapsed s + d)%Z) else None
  | CCloserReturn j =>
      match nth_error (c_procs s) j with
      | Some p => match c_st p, c_cl p with
                  | CRunning, User _ => Some (w_procs s (upd j (cset_st CRet) (c_procs s)))
                  | _, _ => None
                  end
      | None => None
      end
  | CFire =>
      match find_fatal_running (c_procs s) 0 with
      | Some _ =>
          if timer_fired s || negb (grace_elapsed s) then None
          else Some (mkcs (inner s) (c_running s) (c_closing s) (c_stopped s) (closers s) (c_pc s)
                          (c_procs s) (fch_closed s) true (negb (fch_closed s)) (fatal_count s)
                          (tie s) (reterr s) (addcl s) (closes s) (run_rejected s) (cadds s) (elapsed s))
      | None => None
      end
  | CFatal =>
      match find_fatal_running (c_procs s) 0 with
      | Some j =>
          if timer_fired s
          then Some (mkcs (inner s) (c_running s) (c_closing s) (c_stopped s) (closers s) (c_pc s)
                          (upd j (cset_st CRet) (c_procs s)) (fch_closed s) (timer_fired s)
                          (fired_early s) (S (fatal_count s)) (tie s || fch_closed s)
                          (reterr s) (addcl s) (closes s) (run_rejected s) (cadds s) (elapsed s))
          else None
      | None => None
      end
  | CFatalQuit =>
      match find_fatal_running (c_procs s) 0 with
      | Some j =>
          if fch_closed s
          then Some (mkcs (inner s) (c_running s) (c_closing s) (c_stopped s) (closers s) (c_pc s)
                          (upd j (cset_st CRet) (c_procs s)) (fch_closed s) (timer_fired s)
                          (fired_early s) (fatal_count s) (tie s || timer_fired s)
                          (reterr s) (addcl s) (closes s) (run_rejected s) (cadds s) (elapsed s))
          else None
      | None => None
      end
  | CCloseFatalCh =>
      match c_pc s with
      | CCollect n i errs =>
          if (i =? n)%nat && negb (fch_closed s)
          then Some (mkcs (inner s) (c_running s) (c_closing s) (c_stopped s) (closers s) (c_pc s)
                          (c_procs s) true (timer_fired s) (fired_early s) (fatal_count s) (tie s)
                          (reterr s) (addcl s) (closes s) (run_rejected s) (cadds s) (elapsed s))
          else None
      | _ => None
      end
  | CCollectCloser j =>
      match c_pc s, nth_error (c_procs s) j with
      | CCollect n i errs, Some p =>
          match c_st p with
          | CRet =>
              if (i <=? n)%nat && (negb (i =? n)%nat || fch_closed s)
              then Some (w_pc (w_procs s (upd j (cset_st CColl) (c_procs s)))
                              (CCollect n (S i) (errs ++ olist (cl_result (c_cl p)))))
              else None
          | _ => None
          end
      | _, _ => None
      end
  | CRunReturn =>
      match c_pc s with
      | CCollect n i errs =>
          if (i <=? n)%nat then None
          else Some (mkcs (inner s) (c_running s) (c_closing s) true (closers s) (CDone errs)
                          (c_procs s) (fch_closed s) (timer_fired s) (fired_early s) (fatal_count s)
                          (tie s) errs (addcl s) (closes s) (run_rejected s) (cadds s) (elapsed s))
      | _ => None
      end
  | CCloseBegin =>
      match step_r v (inner s) RCloseCh with
      | Some x => Some (w_closes (w_inner s x) (closes s ++ [KA]))
      | None => None
      end
  | CCloseStep c =>
      match nth_error (closes s) c with
      | Some KA =>
          Some (mkcs (inner s) true (c_closing s) (if c_running s then c_stopped s else true)
                     (closers s) (c_pc s) (c_procs s) (fch_closed s) (timer_fired s) (fired_early s)
                     (fatal_count s) (tie s) (reterr s) (addcl s)
                     (upd c (fun _ => KB) (closes s)) (run_rejected s) (cadds s) (elapsed s))
      | Some KB =>
          if c_stopped s
          then Some (w_closes s (upd c (fun _ => KRet (reterr s)) (closes s)))
          else None
      | _ => None
      end
  | CAddCloserCheck r =>
      Some (w_addcl s (addcl s ++ [if c_closing s then ACRejected else ACChecked r]))
  | CAddCloserAppend a =>
      match nth_error (addcl s) a with
      | Some (ACChecked r) =>
          if lock_held s then None
          else if is_fixed v && c_closing s
          then Some (w_addcl s (upd a (fun _ => ACRejected) (addcl s)))
          else Some (mkcs (inner s) (c_running s) (c_closing s) (c_stopped s)
                          (closers s ++ [User r]) (c_pc s) (c_procs s) (fch_closed s)
                          (timer_fired s) (fired_early s) (fatal_count s) (tie s) (reterr s)
                          (upd a (fun _ => ACAccepted (length (closers s))) (addcl s))
                          (closes s) (run_rejected s) (cadds s) (elapsed s))
      | _ => None
      end
  | CAddCheck b =>
      if c_running s
      then Some (w_cadds s (cadds s ++ [CARefused]))
      else if is_fixed u
      then Some (w_cadds s (cadds s ++ [CAPending b]))
      else match step_r v (inner s) (RAddCheck b) with
           | Some x => Some (w_cadds (w_inner s x) (cadds s ++ [CAPassed (length (r_adds (inner s)))]))
           | None => None
           end
  | CAddAppend k =>
      match nth_error (cadds s) k with
      | Some (CAPassed a) =>
          if lock_held s || is_fixed u then None
          else match step_r v (inner s) (RAddAppend a) with
               | Some x => Some (w_inner s x)
               | None => None
               end
      | Some (CAPending b) =>
          (* third fix: under the lock, running is tested again and the runner appended to the
             inner manager's slice (which is not running: as if by its own Add) *)
          if lock_held s || negb (is_fixed u) then None
          else if c_running s
          then Some (w_cadds s (upd k (fun _ => CARefused) (cadds s)))
          else match step_r v (inner s) (RAddCheck b) with
               | Some x =>
                   match step_r v x (RAddAppend (length (r_adds (inner s)))) with
                   | Some y => Some (w_cadds (w_inner s y)
                                       (upd k (fun _ => CAPassed (length (r_adds (inner s)))) (cadds s)))
                   | None => None
                   end
               | None => None
               end
      | _ => None
      end
  end.

Definition step_c (v : variant) (s : cstate) (e : cev) : option cstate := step_c_gen v v s e.

(* NewRunnerCloserManager(log, grace, bs...) followed by AddCloser(cls...) *)
Definition new_cm (grace : option Z) (bs : list beh) (cls : list (option err)) : cstate :=
  mkcs (new_rm bs) false false false
       ((match grace with Some d => [Fatal d] | None => [] end) ++ map User cls)
       CIdle [] false false false 0 false [] [] [] 0 [] 0%Z.

Fixpoint run_c (v : variant) (s : cstate) (es : list cev) : option cstate :=
  match es with
  | [] => Some s
  | e :: es' => match step_c v s e with Some s' => run_c v s' es' | None => None end
  end.

(* the current tree and its neighbours: the first two fixes and the third chosen independently *)
Fixpoint run_c_gen (v u : variant) (s : cstate) (es : list cev) : option cstate :=
  match es with
  | [] => Some s
  | e :: es' => match step_c_gen v u s e with Some s' => run_c_gen v u s' es' | None => None end
  end.

Definition c_all (st : cst) (ps : list cproc) : Prop := forall p, In p ps -> c_st p = st.

(* the state of the (first) fatal closer's goroutine, if there is one *)
Fixpoint fatal_state (ps : list cproc) : option cst :=
  match ps with
  | [] => None
  | p :: t => if is_fatal (c_cl p) then Some (c_st p) else fatal_state t
  end.

(* the fatal closer has made its choice between the timer and closeFatalShutdown *)
Definition decidedb (o : option cst) : bool :=
  match o with Some CRet | Some CColl => true | _ => false end.

(* --------------------------------------------------------------------------------------------- *)
(* The two racy schedules of DESIGN.md section 6, rows 15 and 16. *)

(* AddCloser passes its test, Run shuts down and returns, AddCloser appends and returns nil. *)
Definition addcloser_race : list cev :=
  [CRunCas; CSetupLen; CSetup; CInner RSpawn; CAddCloserCheck (Some 7%Z);
   CInner (RRunnerReturn 0); CInner (RCollect 0); CInner (RRunnerReturn 1); CInner (RCollect 1);
   CInner RRunReturn; CClosing; CRunReturn; CAddCloserAppend 0].

(* Add passes its test, Run takes its snapshot and starts the goroutines, Add appends. *)
Definition add_race : list revt :=
  [RAddCheck (Free None); RRunCas; RSpawn; RAddAppend 0; RRunnerReturn 0; RCollect 0].

(* A third check-then-act gap, found while modelling RunnerCloserManager.Add (present in the
   tree with the first two fixes, [run_c_gen Fixed Original]; closed by the third): Add passes its tests on a manager that has no runner yet, Run reads
   len(mngr.runners) = 0 and decides that no close-runner is needed, Add appends, the inner
   manager starts - with one runner and nobody listening on closeCh. *)
Definition add_watcher_race : list cev :=
  [CAddCheck (OnCancel None); CRunCas; CSetupLen; CAddAppend 0; CSetup; CInner RSpawn; CCloseBegin;
   CCloseStep 0].
