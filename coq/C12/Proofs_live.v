(* C12 — the liveness half: no wedge.  In every reachable state of the fixed code in which nothing
   that happens on its own ([candidates] of Check.v: the managers' steps, goroutine starts, returns
   of runners whose condition holds, collection, the fatal closer's select, Close calls whose
   condition holds) is enabled, Run has returned together with every Close call - or it is waiting
   for a runner or a closer of the USER.  Together with the measures below (every such step
   strictly decreases a natural number) this is "Run and Close return once the user's runners and
   closers have". *)
From Kit Require Import C12.Model C12.Spec C12.Check C12.Proofs_rm C12.Proofs_cm C12.Proofs_main.

(* ------------------------------------------------------------------------------------------ *)
(* lists *)

Lemma in_auto_returns ps i p :
  nth_error ps i = Some p -> auto_beh (p_beh p) = true -> In i (auto_returns ps).
Proof.
  intros Hn Ha. unfold auto_returns. apply in_flat_map. exists i. split.
  - apply in_seq. split; [lia|]. cbn. apply nth_error_Some. congruence.
  - rewrite Hn, Ha. left. reflexivity.
Qed.

Lemma procs_cases ps :
  (exists i p, nth_error ps i = Some p /\ p_st p = Sending) \/
  (exists i p, nth_error ps i = Some p /\ p_st p = Running) \/ all_done ps.
Proof.
  induction ps as [|q ps IH].
  - right; right. intros p [].
  - destruct (p_st q) eqn:Eq.
    + right; left. exists 0, q. auto.
    + left. exists 0, q. auto.
    + destruct IH as [[i [p [Hn Hs]]]|[[i [p [Hn Hs]]]|Hall]].
      * left. exists (S i), p. auto.
      * right; left. exists (S i), p. auto.
      * right; right. intros p [<-|Hp]; auto.
Qed.

Lemma ndone_of_all_done ps : all_done ps -> ndone ps = length ps.
Proof.
  induction ps as [|p ps IH]; intro Ha; [reflexivity|].
  rewrite ndone_cons. cbn [length]. unfold is_done. rewrite (Ha p (or_introl eq_refl)).
  rewrite IH; [reflexivity|]. intros q Hq. apply Ha. right; auto.
Qed.

Lemma exists_uncollected ps :
  ncoll ps < length ps -> exists j p, nth_error ps j = Some p /\ c_st p <> CColl.
Proof.
  induction ps as [|q ps IH]; intro H; [cbn in H; lia|].
  rewrite ncoll_cons in H. cbn [length] in H. destruct (is_coll q) eqn:Eq.
  - destruct IH as [j [p [Hn Hs]]]; [lia|]. exists (S j), p. auto.
  - exists 0, q. split; auto. unfold is_coll in Eq. intro Hc. rewrite Hc in Eq. discriminate.
Qed.

(* ------------------------------------------------------------------------------------------ *)
(* RunnerManager *)

(* the core: with the manager's own steps and the due runner returns disabled, a running manager
   has returned or waits for a runner *)
Lemma rm_blocked : forall bs x,
  rinv Fixed bs x -> r_running x = true ->
  step_r Fixed x RSpawn = None ->
  (forall i, In i (auto_returns (r_procs x)) -> step_r Fixed x (RRunnerReturn i) = None) ->
  (forall i, i < length (r_procs x) -> step_r Fixed x (RCollect i) = None) ->
  step_r Fixed x RRunReturn = None ->
  (exists errs, r_pc x = RReturned errs) \/ exists p, In p (r_procs x) /\ runner_waits x p.
Proof.
  intros bs x I Hr Hsp Hau Hco Hrr. destruct (r_pc x) as [| |k errs|errs] eqn:Epc.
  - exfalso. apply (i_run2 _ _ _ I Hr Epc).
  - cbn [step_r] in Hsp. rewrite Epc in Hsp. discriminate.
  - right. destruct (i_coll _ _ _ I k errs Epc) as [Hk _].
    destruct (procs_cases (r_procs x)) as [[i [p [Hn Hs]]]|[[i [p [Hn Hs]]]|Hall]].
    + exfalso. assert (Hi : i < length (r_procs x)) by (apply nth_error_Some; congruence).
      specialize (Hco i Hi). cbn [step_r] in Hco. rewrite Epc, Hn, Hs in Hco. cbn [target] in Hco.
      assert (Hlt : ndone (r_procs x) < length (r_procs x)) by (eapply ndone_lt; eauto; congruence).
      destruct (k <? length (r_procs x))%nat eqn:E; [discriminate|]. apply Nat.ltb_ge in E. lia.
    + exists p. split; [eapply nth_error_In; eauto|]. unfold runner_waits. split; [exact Hs|].
      destruct (auto_beh (p_beh p)) eqn:Ea; [|left; reflexivity]. right.
      destruct (may_return x (p_beh p)) eqn:Em; [|reflexivity]. exfalso.
      specialize (Hau i (in_auto_returns _ _ _ Hn Ea)). cbn [step_r] in Hau.
      rewrite Hn, Hs, Em in Hau. discriminate.
    + exfalso. cbn [step_r] in Hrr. rewrite Epc in Hrr. cbn [target] in Hrr.
      rewrite Hk, (ndone_of_all_done _ Hall), Nat.ltb_irrefl in Hrr. discriminate.
  - left. eauto.
Qed.

Lemma rm_no_wedge : forall bs es s,
  run_r Fixed (new_rm bs) es = Some s -> quiet_r Fixed s -> explained_r s.
Proof.
  intros bs es s H Q. apply rinv_reach in H. unfold explained_r.
  destruct (r_running s) eqn:Er; [right | left; reflexivity].
  unfold quiet_r, candidates_r in Q. apply (rm_blocked bs s H Er).
  - apply Q. apply in_or_app. left. left. reflexivity.
  - intros i Hi. apply Q. apply in_or_app. right. apply in_or_app. left. apply in_map. exact Hi.
  - intros i Hi. apply Q. apply in_or_app. right. apply in_or_app. right. apply in_or_app. left.
    apply in_map. apply in_seq. lia.
  - apply Q. apply in_or_app. right. apply in_or_app. right. apply in_or_app. right.
    apply in_or_app. left. left. reflexivity.
Qed.

(* the code before the second fix: [add_race] ends in a quiescent state that is NOT explained -
   Run has not returned and waits for no runner *)
Lemma rm_no_wedge_refuted :
  exists s, run_r Original (new_rm [Free None]) add_race = Some s /\
            quietb_r Original s = true /\ explainedb_r s = false.
Proof. eexists. split; [vm_compute; reflexivity|]. split; reflexivity. Qed.

(* ------------------------------------------------------------------------------------------ *)
(* RunnerCloserManager *)

Ltac nav1 := apply in_or_app; right.
Ltac here := apply in_or_app; left.

Section Cand.
  Variable s : cstate.
  Lemma cand_setuplen : In CSetupLen (candidates s).
  Proof. unfold candidates. here. left. reflexivity. Qed.
  Lemma cand_setup : In CSetup (candidates s).
  Proof. unfold candidates. here. right. left. reflexivity. Qed.
  Lemma cand_spawn : In (CInner RSpawn) (candidates s).
  Proof. unfold candidates. here. right. right. left. reflexivity. Qed.
  Lemma cand_auto i : In i (auto_returns (r_procs (inner s))) ->
    In (CInner (RRunnerReturn i)) (candidates s).
  Proof.
    intro H. unfold candidates. nav1. here. apply in_map_iff. exists i. auto.
  Qed.
  Lemma cand_collect i : i < length (r_procs (inner s)) ->
    In (CInner (RCollect i)) (candidates s).
  Proof.
    intro H. unfold candidates. nav1. nav1. here. apply in_map_iff. exists i. split; auto.
    apply in_seq. lia.
  Qed.
  Lemma cand_runreturn : In (CInner RRunReturn) (candidates s).
  Proof. unfold candidates. nav1. nav1. nav1. here. left. reflexivity. Qed.
  Lemma cand_closing : In CClosing (candidates s).
  Proof. unfold candidates. nav1. nav1. nav1. here. right. left. reflexivity. Qed.
  Lemma cand_cstart j : j < length (c_procs s) -> In (CCloserStart j) (candidates s).
  Proof.
    intro H. unfold candidates. nav1. nav1. nav1. nav1. here. apply in_map. apply in_seq. lia.
  Qed.
  Lemma cand_fatal : In CFatal (candidates s).
  Proof. unfold candidates. nav1. nav1. nav1. nav1. nav1. here. left. reflexivity. Qed.
  Lemma cand_closefch : In CCloseFatalCh (candidates s).
  Proof. unfold candidates. nav1. nav1. nav1. nav1. nav1. here. right. left. reflexivity. Qed.
  Lemma cand_fatalquit : In CFatalQuit (candidates s).
  Proof. unfold candidates. nav1. nav1. nav1. nav1. nav1. here. right. right. left. reflexivity. Qed.
  Lemma cand_ccollect j : j < length (c_procs s) -> In (CCollectCloser j) (candidates s).
  Proof.
    intro H. unfold candidates. nav1. nav1. nav1. nav1. nav1. nav1. here.
    apply in_map. apply in_seq. lia.
  Qed.
  Lemma cand_crunreturn : In CRunReturn (candidates s).
  Proof. unfold candidates. nav1. nav1. nav1. nav1. nav1. nav1. nav1. here. left. reflexivity. Qed.
  Lemma cand_closestep c : c < length (closes s) -> In (CCloseStep c) (candidates s).
  Proof.
    intro H. unfold candidates. nav1. nav1. nav1. nav1. nav1. nav1. nav1. nav1. here.
    apply in_map. apply in_seq. lia.
  Qed.
End Cand.

Lemma cinner_none s e :
  inner_allowed e = true -> step_c Fixed s (CInner e) = None -> step_r Fixed (inner s) e = None.
Proof.
  intros Ha H. cbn [step_c step_c_gen] in H. rewrite Ha in H.
  destruct (step_r Fixed (inner s) e); [discriminate | reflexivity].
Qed.

(* Close calls in a quiescent state in which the stopped channel is closed (or Run has not been
   and will not be started) have all returned *)
Lemma closes_back s :
  quiet_c Fixed s ->
  (forall c, nth_error (closes s) c = Some KB -> c_stopped s = true) -> closes_returned s.
Proof.
  intros Q Hkb c k Hn.
  assert (Hc : c < length (closes s)) by (apply nth_error_Some; congruence).
  pose proof (Q _ (cand_closestep s c Hc)) as Hq. cbn [step_c step_c_gen] in Hq. rewrite Hn in Hq.
  destruct k as [| |e].
  - discriminate.
  - rewrite (Hkb c Hn) in Hq. discriminate.
  - eauto.
Qed.

Lemma procs_closers v g bs s j p :
  cinv v g bs s -> nth_error (c_procs s) j = Some p -> nth_error (closers s) j = Some (c_cl p).
Proof.
  intros Ci Hn. destruct (ci_closers _ _ _ _ Ci) as [tl [E _]]. rewrite E.
  rewrite nth_error_app1.
  - apply map_nth_error. exact Hn.
  - rewrite map_length. apply nth_error_Some. congruence.
Qed.

Lemma cm_no_wedge : forall g bs cls es s,
  run_c Fixed (new_cm g bs cls) es = Some s -> quiet_c Fixed s -> explained_c s.
Proof.
  intros g bs cls es s H Q. apply cinv_reach in H. rename H into Ci. unfold explained_c.
  destruct (c_pc s) as [| |w| |n i errs|errs] eqn:Epc.
  - (* never started / stopped by Close *)
    left. split; [reflexivity|]. apply closes_back; auto.
    intros c Hc. apply (ci_idle_stopped _ _ _ _ Ci Epc). apply (ci_kb _ _ _ _ Ci c Hc).
  - (* CStarted: the length read and close-runner registration is enabled *)
    exfalso. pose proof (Q _ (cand_setuplen s)) as Hq.
    destruct (ci_inner_idle _ _ _ _ Ci ltac:(rewrite Epc; exact Logic.I)) as [_ Hir].
    cbn [step_c step_c_gen is_fixed] in Hq. rewrite Epc in Hq.
    destruct (r_runners (inner s)).
    + discriminate.
    + cbn [step_r] in Hq. rewrite Hir in Hq. cbn [r_adds] in Hq. rewrite nth_error_app_len in Hq.
      cbn [r_running is_fixed andb] in Hq. discriminate.
  - (* CDecided: starting the inner manager is enabled *)
    exfalso. pose proof (Q _ (cand_setup s)) as Hq.
    cbn [step_c step_c_gen is_fixed negb] in Hq. rewrite Epc, andb_false_r in Hq.
    cbn [step_r] in Hq. destruct (r_running (inner s)); discriminate.
  - (* CWaitInner *)
    assert (Hr : r_running (inner s) = true) by (apply (ci_after _ _ _ _ Ci); rewrite Epc; exact Logic.I).
    assert (H1 : step_r Fixed (inner s) RSpawn = None)
      by (apply cinner_none; [reflexivity | apply Q, cand_spawn]).
    assert (H2 : forall i, In i (auto_returns (r_procs (inner s))) ->
                 step_r Fixed (inner s) (RRunnerReturn i) = None)
      by (intros i Hi; apply cinner_none; [reflexivity | apply Q, cand_auto, Hi]).
    assert (H3 : forall i, i < length (r_procs (inner s)) ->
                 step_r Fixed (inner s) (RCollect i) = None)
      by (intros i Hi; apply cinner_none; [reflexivity | apply Q, cand_collect, Hi]).
    assert (H4 : step_r Fixed (inner s) RRunReturn = None)
      by (apply cinner_none; [reflexivity | apply Q, cand_runreturn]).
    destruct (rm_blocked bs (inner s) (ci_inner _ _ _ _ Ci) Hr H1 H2 H3 H4) as [[rerrs Hret]|Hw].
    + exfalso. pose proof (Q _ (cand_closing s)) as Hq.
      cbn [step_c step_c_gen] in Hq. rewrite Epc, Hret in Hq. discriminate.
    + right; right; left. exact Hw.
  - (* CCollect *)
    right; right; right.
    destruct (ci_coll _ _ _ _ Ci n i errs Epc) as [Hn [Hi _]].
    (* the loop has not finished *)
    assert (Hle : (i <=? n)%nat = true).
    { pose proof (Q _ (cand_crunreturn s)) as Hq. cbn [step_c step_c_gen] in Hq. rewrite Epc in Hq.
      destruct (i <=? n)%nat; [reflexivity | discriminate]. }
    assert (Hfc : ((i =? n)%nat && negb (fch_closed s)) = false).
    { pose proof (Q _ (cand_closefch s)) as Hq. cbn [step_c step_c_gen] in Hq. rewrite Epc in Hq.
      destruct ((i =? n)%nat && negb (fch_closed s)); [discriminate | reflexivity]. }
    assert (Hguard : ((i <=? n)%nat && (negb (i =? n)%nat || fch_closed s)) = true).
    { rewrite Hle. cbn [andb]. destruct (i =? n)%nat; cbn in *; auto.
      destruct (fch_closed s); cbn in *; auto. }
    (* a goroutine that is neither spawned-only nor returned-uncollected is running or collected *)
    assert (Hrun : forall j p, nth_error (c_procs s) j = Some p -> c_st p <> CColl -> c_st p = CRunning).
    { intros j p Hp Hnc. assert (Hj : j < length (c_procs s)) by (apply nth_error_Some; congruence).
      destruct (c_st p) eqn:Es; auto.
      - pose proof (Q _ (cand_cstart s j Hj)) as Hq. cbn [step_c step_c_gen] in Hq.
        rewrite Hp, Es in Hq. discriminate.
      - pose proof (Q _ (cand_ccollect s j Hj)) as Hq. cbn [step_c step_c_gen] in Hq.
        rewrite Epc, Hp, Es, Hguard in Hq. discriminate.
      - congruence. }
    apply Nat.leb_le in Hle.
    destruct (exists_uncollected (c_procs s)) as [j [p [Hp Hnc]]]; [lia|].
    pose proof (Hrun j p Hp Hnc) as Hst.
    destruct (is_fatal (c_cl p)) eqn:Ef.
    + (* the fatal closer is waiting: then some user closer is outstanding as well *)
      assert (Hj0 : j = 0) by (eapply (ci_fatal0 _ _ _ _ Ci); [eapply procs_closers; eauto | exact Ef]).
      subst j. destruct (c_procs s) as [|p0 t] eqn:Eps; [discriminate|]. cbn in Hp.
      assert (Hpp : p0 = p) by congruence. subst p0. clear Hp.
      assert (Hff : find_fatal_running (p :: t) 0 = Some 0).
      { cbn [find_fatal_running]. rewrite Ef, Hst. reflexivity. }
      assert (Hch : fch_closed s = false).
      { pose proof (Q _ (cand_fatalquit s)) as Hq. cbn [step_c step_c_gen] in Hq.
        rewrite Eps, Hff in Hq. destruct (fch_closed s); [discriminate | reflexivity]. }
      rewrite Hch in Hfc. cbn [negb] in Hfc. rewrite andb_true_r in Hfc. apply Nat.eqb_neq in Hfc.
      assert (Hnt : ncoll t < length t).
      { rewrite ncoll_cons in Hi. unfold is_coll in Hi. rewrite Hst in Hi. cbn [length] in Hn. lia. }
      destruct (exists_uncollected t Hnt) as [j' [q [Hq Hqc]]].
      assert (Hq' : nth_error (p :: t) (S j') = Some q) by exact Hq.
      exists q. split; [right; eapply nth_error_In; eauto|]. split.
      * apply (Hrun (S j') q); auto.
      * destruct (is_fatal (c_cl q)) eqn:Efq; [|reflexivity]. exfalso.
        assert (Hz : S j' = 0); [|discriminate].
        eapply (ci_fatal0 _ _ _ _ Ci); [|exact Efq].
        eapply procs_closers; [exact Ci|]. rewrite Eps. exact Hq'.
    + exists p. split; [eapply nth_error_In; eauto|]. split; auto.
  - (* CDone *)
    right; left. split; [eauto|]. apply closes_back; auto.
    intros c _. apply (ci_done_stopped _ _ _ _ Ci errs Epc).
Qed.

(* the code before the fixes: RunnerCloserManager.Add racing with Run's start appends after the
   goroutines were created; both runners return and are collected, and Run is stuck in the inner
   collection loop - quiescent, not returned, waiting for nobody *)
Definition closer_add_race : list cev :=
  [CAddCheck (Free None); CRunCas; CSetupLen; CSetup; CInner RSpawn; CAddAppend 0;
   CInner (RRunnerReturn 0); CInner (RCollect 0); CInner (RRunnerReturn 1); CInner (RCollect 1)].

Lemma cm_no_wedge_refuted :
  exists s, run_c Original (new_cm None [Free None] [None]) closer_add_race = Some s /\
            quietb_c Original s = true /\ explainedb_c s = false /\ c_pc s = CWaitInner.
Proof. eexists. split; [vm_compute; reflexivity|]. repeat split. Qed.

(* non-vacuity of the no-wedge theorems: quiescent states that ARE explained - a manager waiting
   for a user's closer, and one whose Run and Close have returned *)
Example quiet_waiting_for_closer :
  exists s, run_c Fixed (new_cm (Some 5%Z) [Free None] [None])
                  [CRunCas; CSetupLen; CSetup; CInner RSpawn; CCloseBegin; CCloseStep 0;
                   CInner (RRunnerReturn 1); CInner (RCollect 1); CInner (RRunnerReturn 0);
                   CInner (RCollect 0); CInner RRunReturn; CClosing; CCloserStart 0;
                   CCloserStart 1] = Some s /\
            quietb_c Fixed s = true /\ explainedb_c s = true /\
            exists p, In p (c_procs s) /\ closer_waits p.
Proof.
  eexists. split; [vm_compute; reflexivity|]. split; [reflexivity|]. split; [reflexivity|].
  eexists. split; [right; left; reflexivity|]. split; reflexivity.
Qed.

(* the boolean forms evaluated by the correspondence decide the predicates *)
Lemma quietb_r_spec v s : quietb_r v s = true <-> quiet_r v s.
Proof.
  unfold quietb_r, quiet_r. rewrite forallb_forall. split; intros H e He; specialize (H e He).
  - destruct (step_r v s e); [discriminate | reflexivity].
  - rewrite H. reflexivity.
Qed.

Lemma quietb_c_spec v s : quietb_c v s = true <-> quiet_c v s.
Proof.
  unfold quietb_c, quiet_c. rewrite forallb_forall. split; intros H e He; specialize (H e He).
  - destruct (step_c v s e); [discriminate | reflexivity].
  - rewrite H. reflexivity.
Qed.

Lemma runner_waitsb_spec s p : runner_waitsb s p = true <-> runner_waits s p.
Proof.
  unfold runner_waitsb, runner_waits. destruct (p_st p); split; try (intros [? _]; discriminate);
    try discriminate.
  - intro H. split; [reflexivity|]. apply orb_true_iff in H.
    destruct H as [H|H]; apply negb_true_iff in H; auto.
  - intros [_ [H|H]]; rewrite H; cbn; auto. apply orb_true_r.
Qed.

Lemma closer_waitsb_spec p : closer_waitsb p = true <-> closer_waits p.
Proof.
  unfold closer_waitsb, closer_waits. destruct (c_st p); split; try (intros [? _]; discriminate);
    try discriminate.
  - intro H. apply negb_true_iff in H. auto.
  - intros [_ H]. rewrite H. reflexivity.
Qed.

Lemma closes_returnedb_spec s : closes_returnedb s = true <-> closes_returned s.
Proof.
  unfold closes_returnedb, closes_returned. rewrite forallb_forall. split.
  - intros H c k Hn. specialize (H k (nth_error_In _ _ Hn)). destruct k; try discriminate. eauto.
  - intros H k Hk. destruct (In_nth_error _ _ Hk) as [c Hc]. destruct (H c k Hc) as [e ->]. reflexivity.
Qed.

Lemma explainedb_r_spec s : explainedb_r s = true <-> explained_r s.
Proof.
  unfold explainedb_r, explained_r. rewrite !orb_true_iff, negb_true_iff, existsb_exists. split.
  - intros [[H|H]|[p [Hp Hw]]]; auto.
    + right; left. destruct (r_pc s); try discriminate. eauto.
    + right; right. exists p. split; auto. apply runner_waitsb_spec. exact Hw.
  - intros [H|[[errs H]|[p [Hp Hw]]]]; auto.
    + left; right. rewrite H. reflexivity.
    + right. exists p. split; auto. apply runner_waitsb_spec. exact Hw.
Qed.

Lemma explainedb_c_spec s : explainedb_c s = true <-> explained_c s.
Proof.
  unfold explainedb_c, explained_c. rewrite !orb_true_iff, !existsb_exists. split.
  - intros [[H|[p [Hp Hw]]]|[p [Hp Hw]]].
    + destruct (c_pc s) eqn:Epc; try discriminate.
      * left. split; auto. apply closes_returnedb_spec. exact H.
      * right; left. split; [eauto|]. apply closes_returnedb_spec. exact H.
    + right; right; left. exists p. split; auto. apply runner_waitsb_spec. exact Hw.
    + right; right; right. exists p. split; auto. apply closer_waitsb_spec. exact Hw.
  - intros [[Hpc H]|[[[errs Hpc] H]|[[p [Hp Hw]]|[p [Hp Hw]]]]].
    + left; left. rewrite Hpc. apply closes_returnedb_spec. exact H.
    + left; left. rewrite Hpc. apply closes_returnedb_spec. exact H.
    + left; right. exists p. split; auto. apply runner_waitsb_spec. exact Hw.
    + right. exists p. split; auto. apply closer_waitsb_spec. exact Hw.
Qed.

(* ------------------------------------------------------------------------------------------ *)
(* TERMINATION: a natural number that every step a manager takes on its own strictly decreases.    *)

Lemma count_upd_ret r i ps p :
  nth_error ps i = Some p -> p_st p = Running ->
  nrunning (upd i (ret_with r) ps) + 1 = nrunning ps /\
  nsending (upd i (ret_with r) ps) = nsending ps + 1.
Proof.
  unfold nrunning, nsending.
  revert i; induction ps as [|q ps IH]; intros [|i] H Hs; cbn in H; try discriminate.
  - inv H. cbn [upd filter]. unfold is_running, is_sending. cbn [ret_with p_st]. rewrite Hs.
    cbn [length]. lia.
  - cbn [upd filter]. destruct (IH i H Hs) as [H1 H2].
    destruct (is_running q), (is_sending q); cbn [length]; lia.
Qed.

Lemma count_upd_done i ps p :
  nth_error ps i = Some p -> p_st p = Sending ->
  nrunning (upd i (set_st Done) ps) = nrunning ps /\
  nsending (upd i (set_st Done) ps) + 1 = nsending ps.
Proof.
  unfold nrunning, nsending.
  revert i; induction ps as [|q ps IH]; intros [|i] H Hs; cbn in H; try discriminate.
  - inv H. cbn [upd filter]. unfold is_running, is_sending. cbn [set_st p_st]. rewrite Hs.
    cbn [length]. lia.
  - cbn [upd filter]. destruct (IH i H Hs) as [H1 H2].
    destruct (is_running q), (is_sending q); cbn [length]; lia.
Qed.

Lemma count_fresh bs :
  nrunning (map (fun b => mkp b Running None) bs) = length bs /\
  nsending (map (fun b => mkp b Running None) bs) = 0.
Proof.
  unfold nrunning, nsending. induction bs as [|b bs [IH1 IH2]]; cbn; auto.
Qed.

Lemma npending_upd a l b (x : addst) :
  nth_error l a = Some (AChecked b) -> (match x with AChecked _ => false | _ => true end) = true ->
  npending (upd a (fun _ => x) l) + 1 = npending l.
Proof.
  unfold npending. revert a; induction l as [|y l IH]; intros [|a] H Hx; cbn in H; try discriminate.
  - inv H. cbn [upd filter]. destruct x; try discriminate; cbn [length]; lia.
  - cbn [upd filter]. specialize (IH a H Hx). destruct y; cbn [length]; lia.
Qed.

(* the inner manager's own steps (goroutine creation, runner returns, collection, Run's return)
   decrease [run_measure] and leave the pending Adds alone *)
Lemma run_measure_decreases : forall v bs s e s',
  rinv v bs s ->
  (e = RSpawn \/ (exists i, e = RRunnerReturn i) \/ (exists i, e = RCollect i) \/ e = RRunReturn) ->
  step_r v s e = Some s' -> run_measure s' < run_measure s /\ r_adds s' = r_adds s.
Proof.
  intros v bs s e s' I He H. unfold run_measure.
  destruct He as [->|[[i ->]|[[i ->]| ->]]]; cbn [step_r] in H.
  - destruct (r_pc s) eqn:Epc; try discriminate. inv H. cbn [r_pc r_procs r_adds].
    destruct (count_fresh (r_runners s)) as [H1 H2]. rewrite H1, H2. split; [lia | reflexivity].
  - destruct (nth_error (r_procs s) i) as [p|] eqn:Ep; try discriminate.
    destruct (p_st p) eqn:Es; try discriminate.
    destruct (may_return s (p_beh p)); inv H. cbn [r_pc r_procs r_adds].
    destruct (r_pc s) as [| |k errs|errs] eqn:Epc.
    + rewrite (i_noprocs _ _ _ I (or_introl Epc)) in Ep. destruct i; discriminate.
    + rewrite (i_noprocs _ _ _ I (or_intror Epc)) in Ep. destruct i; discriminate.
    + destruct (count_upd_ret (result_of (r_cerr s) (p_beh p)) i _ _ Ep Es) as [H1 H2].
      split; [lia | reflexivity].
    + destruct (i_ret _ _ _ I errs Epc) as [Ha _]. rewrite (Ha p (nth_error_In _ _ Ep)) in Es.
      discriminate.
  - destruct (r_pc s) as [| |k errs|errs] eqn:Epc; try discriminate.
    destruct (nth_error (r_procs s) i) as [p|] eqn:Ep; try discriminate.
    destruct (p_st p) eqn:Es; try discriminate.
    destruct (k <? target v s)%nat; inv H. cbn [r_pc r_procs r_adds].
    destruct (count_upd_done i _ _ Ep Es) as [H1 H2]. split; [lia | reflexivity].
  - destruct (r_pc s) as [| |k errs|errs] eqn:Epc; try discriminate.
    destruct (k <? target v s)%nat; inv H. cbn [r_pc r_adds]. split; [lia | reflexivity].
Qed.

(* the events of the bare manager that can happen on their own *)
Definition own_r (e : revt) : Prop :=
  e = RSpawn \/ (exists i, e = RRunnerReturn i) \/ (exists i, e = RCollect i) \/ e = RRunReturn \/
  exists a, e = RAddAppend a.

Lemma in_candidates_r s e : In e (candidates_r s) -> own_r e.
Proof.
  unfold own_r.
  unfold candidates_r. intro H.
  apply in_app_or in H. destruct H as [[<-|[]]|H]; [auto|].
  apply in_app_or in H. destruct H as [H|H].
  { apply in_map_iff in H. destruct H as [i [<- _]]. right; left. eauto. }
  apply in_app_or in H. destruct H as [H|H].
  { apply in_map_iff in H. destruct H as [i [<- _]]. right; right; left. eauto. }
  apply in_app_or in H. destruct H as [[<-|[]]|H]; [auto|].
  apply in_map_iff in H. destruct H as [a [<- _]]. right; right; right; right. eauto.
Qed.

(* RUN TERMINATES BY ITSELF: every step of the bare manager that happens on its own strictly
   decreases [rm_measure] - in both variants, in every reachable state *)
Lemma rm_measure_decreases_own : forall v bs s e s',
  rinv v bs s -> own_r e -> step_r v s e = Some s' -> rm_measure s' < rm_measure s.
Proof.
  intros v bs s e s' Hreach Hin H. unfold rm_measure.
  assert (Hown : (e = RSpawn \/ (exists i, e = RRunnerReturn i) \/ (exists i, e = RCollect i) \/
                  e = RRunReturn) -> 4 * npending (r_adds s') + run_measure s' <
                                     4 * npending (r_adds s) + run_measure s).
  { intro He. destruct (run_measure_decreases v bs s e s' Hreach He H) as [Hm Ha]. rewrite Ha. lia. }
  destruct Hin as [He|[He|[He|[He|[a ->]]]]]; try (apply Hown; tauto).
  clear Hown.
  cbn [step_r] in H. destruct (nth_error (r_adds s) a) as [[b|b|]|] eqn:Ea; try discriminate.
  destruct (is_fixed v && r_running s) eqn:Efr; inv H; unfold run_measure; cbn [r_pc r_adds r_runners r_procs].
  - pose proof (npending_upd a _ b ARejected Ea eq_refl). lia.
  - pose proof (npending_upd a _ b (AAccepted b) Ea eq_refl).
    destruct (r_pc s); rewrite ?app_length; cbn [length]; lia.
Qed.

Lemma rm_measure_decreases : forall v bs es s e s',
  run_r v (new_rm bs) es = Some s -> In e (candidates_r s) -> step_r v s e = Some s' ->
  rm_measure s' < rm_measure s.
Proof.
  intros v bs es s e s' Hreach Hin H. eapply rm_measure_decreases_own; eauto.
  - eapply rinv_reach; eauto.
  - eapply in_candidates_r; eauto.
Qed.

(* ... hence a run made of own steps only is no longer than the measure of its first state *)
Inductive own_run_r (v : variant) : rstate -> nat -> rstate -> Prop :=
| own_r_nil s : own_run_r v s 0 s
| own_r_cons s e s1 n s' :
    In e (candidates_r s) -> step_r v s e = Some s1 -> own_run_r v s1 n s' ->
    own_run_r v s (S n) s'.

Lemma rm_own_steps_bounded : forall v bs es s n s',
  run_r v (new_rm bs) es = Some s -> own_run_r v s n s' -> n + rm_measure s' <= rm_measure s.
Proof.
  intros v bs es s n s' Hreach Hown. revert es Hreach.
  induction Hown as [s|s e s1 n s' Hin Hstep Hown IH]; intros es Hreach; [lia|].
  pose proof (rm_measure_decreases v bs es s e s1 Hreach Hin Hstep) as Hd.
  assert (Hreach1 : run_r v (new_rm bs) (es ++ [e]) = Some s1).
  { eapply run_r_app; [exact Hreach|]. cbn. rewrite Hstep. reflexivity. }
  specialize (IH _ Hreach1). lia.
Qed.

(* ------------------------------------------------------------------------------------------ *)
(* ... and the closer manager (fixed code) *)

Lemma wsum_upd {A} (w : A -> nat) (f : A -> A) i l x :
  nth_error l i = Some x -> wsum w (upd i f l) + w x = wsum w l + w (f x).
Proof.
  revert i; induction l as [|y l IH]; intros [|i] H; cbn in H; try discriminate.
  - inv H. cbn. lia.
  - cbn [upd wsum fold_right]. specialize (IH i H). unfold wsum in IH. lia.
Qed.

Lemma wsum_app {A} (w : A -> nat) l x : wsum w (l ++ [x]) = wsum w l + w x.
Proof. induction l as [|y l IH]; cbn; [lia|]. unfold wsum in IH. rewrite IH. lia. Qed.

Lemma wsum_map_const {A B} (w : B -> nat) (f : A -> B) c l :
  (forall a, w (f a) = c) -> wsum w (map f l) = c * length l.
Proof. intro H. induction l as [|y l IH]; cbn; [lia|]. unfold wsum in IH. rewrite IH, H. lia. Qed.

Definition own_c (e : cev) : Prop :=
  e = CSetupLen \/ e = CSetup \/
  (exists r, e = CInner r /\ (r = RSpawn \/ (exists i, r = RRunnerReturn i) \/
                               (exists i, r = RCollect i) \/ r = RRunReturn)) \/
  e = CClosing \/ (exists j, e = CCloserStart j) \/ e = CFatal \/ e = CCloseFatalCh \/
  e = CFatalQuit \/ (exists j, e = CCollectCloser j) \/ e = CRunReturn \/
  (exists c, e = CCloseStep c) \/ (exists a, e = CAddCloserAppend a) \/ (exists k, e = CAddAppend k).

Lemma in_candidates s e :
  In e (candidates s) ->
  e = CSetupLen \/ e = CSetup \/
  (exists r, e = CInner r /\ (r = RSpawn \/ (exists i, r = RRunnerReturn i) \/
                               (exists i, r = RCollect i) \/ r = RRunReturn)) \/
  e = CClosing \/ (exists j, e = CCloserStart j) \/ e = CFatal \/ e = CCloseFatalCh \/
  e = CFatalQuit \/ (exists j, e = CCollectCloser j) \/ e = CRunReturn \/
  (exists c, e = CCloseStep c) \/ (exists a, e = CAddCloserAppend a) \/ (exists k, e = CAddAppend k).
Proof.
  unfold candidates. intro H.
  apply in_app_or in H. destruct H as [[<-|[<-|[<-|[]]]]|H]; [tauto | tauto | |].
  { right; right; left. eexists. split; [reflexivity | tauto]. }
  apply in_app_or in H. destruct H as [H|H].
  { apply in_map_iff in H. destruct H as [i [<- _]]. right; right; left. eexists. split; [reflexivity|].
    right; left. eauto. }
  apply in_app_or in H. destruct H as [H|H].
  { apply in_map_iff in H. destruct H as [i [<- _]]. right; right; left. eexists. split; [reflexivity|].
    right; right; left. eauto. }
  apply in_app_or in H. destruct H as [[<-|[<-|[]]]|H].
  { right; right; left. eexists. split; [reflexivity | tauto]. }
  { tauto. }
  apply in_app_or in H. destruct H as [H|H].
  { apply in_map_iff in H. destruct H as [j [<- _]]. do 4 right; left. eauto. }
  apply in_app_or in H. destruct H as [[<-|[<-|[<-|[]]]]|H]; [tauto | tauto | tauto |].
  apply in_app_or in H. destruct H as [H|H].
  { apply in_map_iff in H. destruct H as [j [<- _]]. do 8 right; left. eauto. }
  apply in_app_or in H. destruct H as [[<-|[]]|H]; [tauto|].
  apply in_app_or in H. destruct H as [H|H].
  { apply in_map_iff in H. destruct H as [c [<- _]]. do 10 right; left. eauto. }
  apply in_app_or in H. destruct H as [H|H].
  { apply in_map_iff in H. destruct H as [a [<- _]]. do 11 right; left. eauto. }
  apply in_map_iff in H. destruct H as [k [<- _]]. do 12 right. eauto.
Qed.

Ltac cproj :=
  cbn [inner c_running c_closing c_stopped closers c_pc c_procs fch_closed timer_fired fired_early
       fatal_count tie reterr addcl closes run_rejected cadds elapsed w_inner w_pc w_procs w_addcl
       w_closes w_cadds w_elapsed].

(* a closer goroutine that is not yet collected exists only during shutdown *)
Lemma uncollected_in_shutdown v g bs s j p :
  cinv v g bs s -> nth_error (c_procs s) j = Some p -> c_st p <> CColl ->
  exists n i errs, c_pc s = CCollect n i errs.
Proof.
  intros Ci Hp Hn. destruct (c_pc s) as [| |w| |n i errs|errs] eqn:Epc; eauto;
    try (destruct (ci_early _ _ _ _ Ci) as [Hnp _]; [rewrite Epc; cbn; tauto|];
         rewrite Hnp in Hp; destruct j; discriminate).
  destruct (ci_done _ _ _ _ Ci errs Epc) as [Ha _]. exfalso. apply Hn. apply Ha.
  eapply nth_error_In; eauto.
Qed.

(* THE CLOSER MANAGER TERMINATES BY ITSELF (fixed code): every step that happens on its own
   strictly decreases [cm_measure], in every reachable state *)
Lemma cm_measure_decreases_own : forall g bs s e s',
  cinv Fixed g bs s -> own_c e -> step_c Fixed s e = Some s' -> cm_measure s' < cm_measure s.
Proof.
  intros g bs s e s' Ci Hin H.
  unfold cm_measure.
  destruct Hin as
    [->|[->|[[r [-> Hr]]|[->|[[j ->]|[->|[->|[->|[[j ->]|[->|[[c ->]|[[a ->]|[k ->]]]]]]]]]]]]];
    cbn [step_c step_c_gen is_fixed negb] in H.
  - (* CSetupLen *)
    destruct (c_pc s) eqn:Epc; try discriminate.
    destruct (ci_inner_idle _ _ _ _ Ci ltac:(rewrite Epc; exact Logic.I)) as [_ Hir].
    unfold run_part, closer_bound. rewrite Epc.
    destruct (r_runners (inner s)) as [|b0 t] eqn:Ern.
    + inv H. cproj. rewrite Ern. cbn [length]. lia.
    + cbn [step_r] in H. rewrite Hir in H. cbn [r_adds] in H. rewrite nth_error_app_len in H.
      cbn [r_running is_fixed andb r_runners] in H. inv H. cproj. cbn [r_runners].
      rewrite Ern, app_length. cbn [length]. lia.
  - (* CSetup *)
    destruct (c_pc s) as [| |w| | |] eqn:Epc; try discriminate.
    destruct (ci_inner_idle _ _ _ _ Ci ltac:(rewrite Epc; exact Logic.I)) as [_ Hir].
    rewrite andb_false_r in H. cbn [step_r] in H. rewrite Hir in H. inv H.
    unfold run_part, closer_bound, run_measure. rewrite Epc. cproj. cbn [r_pc r_runners]. lia.
  - (* the inner manager's own steps *)
    assert (Hal : inner_allowed r = true).
    { destruct Hr as [->|[[i ->]|[[i ->]| ->]]]; reflexivity. }
    rewrite Hal in H. destruct (step_r Fixed (inner s) r) as [x|] eqn:Ex; inv H.
    destruct (run_measure_decreases Fixed bs (inner s) r x (ci_inner _ _ _ _ Ci) Hr Ex) as [Hm _].
    unfold run_part, closer_bound. cproj.
    destruct (c_pc s) as [| |w| |n i errs|errs] eqn:Epc; try lia.
    + destruct (ci_inner_idle _ _ _ _ Ci ltac:(rewrite Epc; exact Logic.I)) as [Hi _].
      unfold run_measure in Hm. rewrite Hi in Hm. lia.
    + destruct (ci_inner_idle _ _ _ _ Ci ltac:(rewrite Epc; exact Logic.I)) as [Hi _].
      unfold run_measure in Hm. rewrite Hi in Hm. lia.
    + destruct (ci_inner_idle _ _ _ _ Ci ltac:(rewrite Epc; exact Logic.I)) as [Hi _].
      unfold run_measure in Hm. rewrite Hi in Hm. lia.
    + destruct (ci_coll _ _ _ _ Ci n i errs Epc) as [_ [_ [rerrs [Hi _]]]].
      unfold run_measure in Hm. rewrite Hi in Hm. lia.
    + destruct (ci_done _ _ _ _ Ci errs Epc) as [_ [rerrs [Hi _]]].
      unfold run_measure in Hm. rewrite Hi in Hm. lia.
  - (* CClosing *)
    destruct (c_pc s) eqn:Epc; try discriminate.
    destruct (r_pc (inner s)) as [| | |rerrs] eqn:Eipc; try discriminate. inv H.
    unfold run_part, closer_bound, shutdown_measure, run_measure. rewrite Epc, Eipc. cproj.
    rewrite (wsum_map_const crank (fun c => mkc c CSpawned 0) 3) by reflexivity.
    destruct (fch_closed s); lia.
  - (* CCloserStart *)
    destruct (nth_error (c_procs s) j) as [p|] eqn:Ep; try discriminate.
    destruct (c_st p) eqn:Est; try discriminate. inv H.
    destruct (uncollected_in_shutdown _ _ _ _ j p Ci Ep ltac:(congruence)) as [n [i [errs Epc]]].
    unfold run_part, shutdown_measure. cproj. rewrite Epc.
    pose proof (wsum_upd crank cstart j _ p Ep) as Hw.
    assert (Hc1 : crank p = 3) by (unfold crank; rewrite Est; reflexivity).
    assert (Hc2 : crank (cstart p) = 2) by reflexivity.
    destruct (fch_closed s); lia.
  - (* CFatal *)
    destruct (find_fatal_running (c_procs s) 0) as [j|] eqn:Ef; try discriminate.
    destruct (timer_fired s); inv H.
    destruct (find_fatal_running_spec _ _ _ Ef) as [i [p [Ej [Ep [Est _]]]]]. cbn in Ej. subst j.
    destruct (uncollected_in_shutdown _ _ _ _ i p Ci Ep ltac:(congruence)) as [n [i' [errs Epc]]].
    unfold run_part, shutdown_measure. cproj. rewrite Epc.
    pose proof (wsum_upd crank (cset_st CRet) i _ p Ep) as Hw.
    assert (Hc1 : crank p = 2) by (unfold crank; rewrite Est; reflexivity).
    assert (Hc2 : crank (cset_st CRet p) = 1) by reflexivity.
    destruct (fch_closed s); lia.
  - (* CCloseFatalCh *)
    destruct (c_pc s) as [| | | |n i errs|] eqn:Epc; try discriminate.
    destruct (fch_closed s) eqn:Efc; [rewrite andb_false_r in H; discriminate|].
    destruct (i =? n)%nat; inv H.
    unfold run_part, shutdown_measure. cproj. rewrite Epc, Efc. lia.
  - (* CFatalQuit *)
    destruct (find_fatal_running (c_procs s) 0) as [j|] eqn:Ef; try discriminate.
    destruct (fch_closed s) eqn:Efc; inv H.
    destruct (find_fatal_running_spec _ _ _ Ef) as [i [p [Ej [Ep [Est _]]]]]. cbn in Ej. subst j.
    destruct (uncollected_in_shutdown _ _ _ _ i p Ci Ep ltac:(congruence)) as [n [i' [errs Epc]]].
    unfold run_part, shutdown_measure. cproj. rewrite Epc, Efc.
    pose proof (wsum_upd crank (cset_st CRet) i _ p Ep) as Hw.
    assert (Hc1 : crank p = 2) by (unfold crank; rewrite Est; reflexivity).
    assert (Hc2 : crank (cset_st CRet p) = 1) by reflexivity.
    lia.
  - (* CCollectCloser *)
    destruct (c_pc s) as [| | | |n i errs|] eqn:Epc; try discriminate.
    destruct (nth_error (c_procs s) j) as [p|] eqn:Ep; try discriminate.
    destruct (c_st p) eqn:Est; try discriminate.
    destruct ((i <=? n)%nat && (negb (i =? n)%nat || fch_closed s)); inv H.
    unfold run_part, shutdown_measure. cproj.
    pose proof (wsum_upd crank (cset_st CColl) j _ p Ep) as Hw.
    assert (Hc1 : crank p = 1) by (unfold crank; rewrite Est; reflexivity).
    assert (Hc2 : crank (cset_st CColl p) = 0) by reflexivity.
    rewrite Epc. destruct (fch_closed s); lia.
  - (* CRunReturn *)
    destruct (c_pc s) as [| | | |n i errs|] eqn:Epc; try discriminate.
    destruct (i <=? n)%nat; inv H.
    unfold run_part, shutdown_measure. cproj. rewrite Epc. lia.
  - (* CCloseStep *)
    destruct (nth_error (closes s) c) as [[| |e0]|] eqn:Ec; try discriminate.
    + inv H. unfold run_part, closer_bound, shutdown_measure. cproj.
      pose proof (wsum_upd krank (fun _ => KB) c _ KA Ec) as Hw. cbn [krank] in Hw. lia.
    + destruct (c_stopped s); inv H. unfold run_part, closer_bound, shutdown_measure. cproj.
      pose proof (wsum_upd krank (fun _ => KRet (reterr s)) c _ KB Ec) as Hw. cbn [krank] in Hw. lia.
  - (* CAddCloserAppend *)
    destruct (nth_error (addcl s) a) as [[r|idx0|]|] eqn:Ea; try discriminate.
    destruct (lock_held s) eqn:El; try discriminate. cbn [andb] in H.
    destruct (c_closing s) eqn:Ecl; inv H.
    + unfold run_part, closer_bound, shutdown_measure. cproj.
      pose proof (wsum_upd clpend (fun _ => ACRejected) a _ (ACChecked r) Ea) as Hw.
      cbn [clpend] in Hw. lia.
    + unfold run_part, closer_bound, shutdown_measure. cproj. rewrite app_length. cbn [length].
      pose proof (wsum_upd clpend (fun _ => ACAccepted (length (closers s))) a _ (ACChecked r) Ea) as Hw.
      cbn [clpend] in Hw. unfold lock_held in El.
      destruct (c_pc s) as [| |w| |n i errs|errs] eqn:Epc; try discriminate; lia.
  - (* CAddAppend *)
    destruct (nth_error (cadds s) k) as [[|a|b]|] eqn:Ek; try discriminate.
    + rewrite orb_true_r in H. discriminate.
    + rewrite orb_false_r in H. destruct (lock_held s); try discriminate.
      destruct (c_running s) eqn:Er.
      * inv H. unfold run_part, closer_bound, shutdown_measure. cproj.
        pose proof (wsum_upd capend (fun _ => CARefused) k _ (CAPending b) Ek) as Hw.
        cbn [capend] in Hw. lia.
      * destruct (ci_notrun _ _ _ _ Ci Er) as [Hpc _].
        destruct (step_r Fixed (inner s) (RAddCheck b)) as [x|]; try discriminate.
        destruct (step_r Fixed x (RAddAppend (length (r_adds (inner s))))) as [y|]; inv H.
        unfold run_part. cproj. rewrite Hpc.
        pose proof (wsum_upd capend (fun _ => CAPassed (length (r_adds (inner s)))) k _
                             (CAPending b) Ek) as Hw.
        cbn [capend] in Hw. lia.
Qed.

Lemma cm_measure_decreases : forall g bs cls es s e s',
  run_c Fixed (new_cm g bs cls) es = Some s -> In e (candidates s) ->
  step_c Fixed s e = Some s' -> cm_measure s' < cm_measure s.
Proof.
  intros g bs cls es s e s' Hreach Hin H. eapply cm_measure_decreases_own; eauto.
  - eapply cinv_reach; eauto.
  - eapply in_candidates; eauto.
Qed.

Inductive own_run_c : cstate -> nat -> cstate -> Prop :=
| own_c_nil s : own_run_c s 0 s
| own_c_cons s e s1 n s' :
    In e (candidates s) -> step_c Fixed s e = Some s1 -> own_run_c s1 n s' ->
    own_run_c s (S n) s'.

Lemma run_c_app v es1 : forall s s1 es2 s2,
  run_c v s es1 = Some s1 -> run_c v s1 es2 = Some s2 -> run_c v s (es1 ++ es2) = Some s2.
Proof.
  induction es1 as [|e es1 IH]; intros s s1 es2 s2 H1 H2; cbn in *.
  - inv H1. auto.
  - destruct (step_c v s e); try discriminate. eauto.
Qed.

Lemma cm_own_steps_bounded : forall g bs cls es s n s',
  run_c Fixed (new_cm g bs cls) es = Some s -> own_run_c s n s' ->
  n + cm_measure s' <= cm_measure s.
Proof.
  intros g bs cls es s n s' Hreach Hown. revert es Hreach.
  induction Hown as [s|s e s1 n s' Hin Hstep Hown IH]; intros es Hreach; [lia|].
  pose proof (cm_measure_decreases g bs cls es s e s1 Hreach Hin Hstep) as Hd.
  assert (Hreach1 : run_c Fixed (new_cm g bs cls) (es ++ [e]) = Some s1).
  { eapply run_c_app; [exact Hreach|]. cbn. rewrite Hstep. reflexivity. }
  specialize (IH _ Hreach1). lia.
Qed.

(* ------------------------------------------------------------------------------------------ *)
(* the model executor of the correspondence ([settled] / [settled_r] of Check.v: rounds of "try every
   candidate once", [S measure] of them at most) always ends in a quiescent state *)

Lemma fold_try_c g bs l : forall s,
  cinv Fixed g bs s -> (forall e, In e l -> own_c e) ->
  let s' := fold_left (try_c Fixed) l s in
  cinv Fixed g bs s' /\ cm_measure s' <= cm_measure s /\
  (cm_measure s' = cm_measure s -> forall e, In e l -> step_c Fixed s e = None).
Proof.
  induction l as [|e l IH]; intros s Ci Hl; cbn [fold_left].
  - split; [auto|]. split; [lia|]. intros _ e [].
  - destruct (step_c Fixed s e) as [s1|] eqn:E.
    + replace (try_c Fixed s e) with s1 by (unfold try_c; rewrite E; reflexivity).
      assert (Ci1 : cinv Fixed g bs s1) by (eapply cinv_step; eauto).
      assert (Hd : cm_measure s1 < cm_measure s).
      { eapply cm_measure_decreases_own; eauto. apply Hl. left. reflexivity. }
      destruct (IH s1 Ci1 (fun e' He' => Hl e' (or_intror He'))) as [Ci' [Hle _]].
      split; [exact Ci'|]. split; [lia|]. intro Heq. lia.
    + replace (try_c Fixed s e) with s by (unfold try_c; rewrite E; reflexivity).
      destruct (IH s Ci (fun e' He' => Hl e' (or_intror He'))) as [Ci' [Hle Hnone]].
      split; [exact Ci'|]. split; [exact Hle|]. intros Heq e' [<-|He']; auto.
Qed.

Lemma settle_quiet_gen g bs : forall n s,
  cinv Fixed g bs s -> cm_measure s < n -> quiet_c Fixed (settle Fixed n s).
Proof.
  induction n as [|n IH]; intros s Ci Hm; [lia|]. cbn [settle].
  destruct (quietb_c Fixed s) eqn:Eq; [apply quietb_c_spec; exact Eq|].
  destruct (fold_try_c g bs (candidates s) s Ci (fun e He => in_candidates s e He)) as [Ci' [Hle Hnone]].
  apply IH; [exact Ci'|].
  destruct (Nat.eq_dec (cm_measure (fold_left (try_c Fixed) (candidates s) s)) (cm_measure s)) as [Heq|Hne]; [|lia].
  exfalso. assert (Hq : quietb_c Fixed s = true); [|congruence].
  apply quietb_c_spec. intros e He. apply Hnone; auto.
Qed.

Lemma cm_settle_quiet : forall g bs cls es s,
  run_c Fixed (new_cm g bs cls) es = Some s -> quiet_c Fixed (settled Fixed s).
Proof.
  intros g bs cls es s H. unfold settled. eapply settle_quiet_gen; [eapply cinv_reach; eauto | lia].
Qed.

Lemma fold_try_r v bs l : forall s,
  rinv v bs s -> (forall e, In e l -> own_r e) ->
  let s' := fold_left (try_r v) l s in
  rinv v bs s' /\ rm_measure s' <= rm_measure s /\
  (rm_measure s' = rm_measure s -> forall e, In e l -> step_r v s e = None).
Proof.
  induction l as [|e l IH]; intros s Ci Hl; cbn [fold_left].
  - split; [auto|]. split; [lia|]. intros _ e [].
  - destruct (step_r v s e) as [s1|] eqn:E.
    + replace (try_r v s e) with s1 by (unfold try_r; rewrite E; reflexivity).
      assert (Ci1 : rinv v bs s1) by (eapply rinv_step; eauto).
      assert (Hd : rm_measure s1 < rm_measure s).
      { eapply rm_measure_decreases_own; eauto. apply Hl. left. reflexivity. }
      destruct (IH s1 Ci1 (fun e' He' => Hl e' (or_intror He'))) as [Ci' [Hle _]].
      split; [exact Ci'|]. split; [lia|]. intro Heq. lia.
    + replace (try_r v s e) with s by (unfold try_r; rewrite E; reflexivity).
      destruct (IH s Ci (fun e' He' => Hl e' (or_intror He'))) as [Ci' [Hle Hnone]].
      split; [exact Ci'|]. split; [exact Hle|]. intros Heq e' [<-|He']; auto.
Qed.

Lemma settle_r_quiet_gen v bs : forall n s,
  rinv v bs s -> rm_measure s < n -> quiet_r v (settle_r v n s).
Proof.
  induction n as [|n IH]; intros s Ci Hm; [lia|]. cbn [settle_r].
  destruct (quietb_r v s) eqn:Eq; [apply quietb_r_spec; exact Eq|].
  destruct (fold_try_r v bs (candidates_r s) s Ci (fun e He => in_candidates_r s e He)) as [Ci' [Hle Hnone]].
  apply IH; [exact Ci'|].
  destruct (Nat.eq_dec (rm_measure (fold_left (try_r v) (candidates_r s) s)) (rm_measure s)) as [Heq|Hne]; [|lia].
  exfalso. assert (Hq : quietb_r v s = true); [|congruence].
  apply quietb_r_spec. intros e He. apply Hnone; auto.
Qed.

Lemma rm_settle_quiet : forall v bs es s,
  run_r v (new_rm bs) es = Some s -> quiet_r v (settled_r v s).
Proof.
  intros v bs es s H. unfold settled_r. eapply settle_r_quiet_gen; [eapply rinv_reach; eauto | lia].
Qed.

(* ... and the settled state is still a state of a run: settling only takes steps *)
Lemma settle_reach g bs cls : forall n es s,
  run_c Fixed (new_cm g bs cls) es = Some s ->
  exists es', run_c Fixed (new_cm g bs cls) es' = Some (settle Fixed n s).
Proof.
  assert (Hfold : forall l es s, run_c Fixed (new_cm g bs cls) es = Some s ->
            exists es', run_c Fixed (new_cm g bs cls) es' = Some (fold_left (try_c Fixed) l s)).
  { induction l as [|e l IH]; intros es s H; cbn [fold_left]; [eauto|].
    destruct (step_c Fixed s e) as [s1|] eqn:E.
    - replace (try_c Fixed s e) with s1 by (unfold try_c; rewrite E; reflexivity).
      apply (IH (es ++ [e])). eapply run_c_app; [exact H|]. cbn. rewrite E. reflexivity.
    - replace (try_c Fixed s e) with s by (unfold try_c; rewrite E; reflexivity). eauto. }
  induction n as [|n IH]; intros es s H; cbn [settle]; [eauto|].
  destruct (quietb_c Fixed s); [eauto|].
  destruct (Hfold (candidates s) es s H) as [es1 H1]. eapply IH; eauto.
Qed.

(* WHAT THE SETTLED MODEL STATE LOOKS LIKE: from any reachable state of the fixed code, letting
   everything happen that happens on its own ends - after at most [cm_measure] steps - in a state
   in which Run and every Close call have returned, or which waits for a user's runner or closer *)
Lemma cm_settles_explained : forall g bs cls es s,
  run_c Fixed (new_cm g bs cls) es = Some s ->
  quiet_c Fixed (settled Fixed s) /\ explained_c (settled Fixed s).
Proof.
  intros g bs cls es s H. split; [eapply cm_settle_quiet; eauto|].
  destruct (settle_reach g bs cls (S (cm_measure s)) es s H) as [es' H'].
  eapply cm_no_wedge; [exact H' | eapply cm_settle_quiet; eauto].
Qed.

(* non-vacuity: Close during Run on a manager with a cancellable runner and an immediate model
   of the closer phase - after the user's closer has returned everything settles to "Run and
   Close have returned" *)
Example settles_to_done :
  exists s s', run_c Fixed (new_cm (Some 5%Z) [OnCancel (Some 4%Z)] [None])
                     [CRunCas; CCloseBegin; CCloseStep 0] = Some s /\
               step_c Fixed (settled Fixed s) (CCloserReturn 1) = Some s' /\
               (exists errs, c_pc (settled Fixed s') = CDone errs) /\
               closes (settled Fixed s') = [KRet [4%Z]].
Proof.
  eexists. eexists. split; [vm_compute; reflexivity|]. split; [vm_compute; reflexivity|].
  split; [eexists; vm_compute; reflexivity | vm_compute; reflexivity].
Qed.
