(* C12 — RunnerCloserManager: the theorems, read off the invariant of Proofs_cm.v. *)
From Kit Require Import C12.Model C12.Proofs_rm C12.Proofs_cm.

(* ------------------------------------------------------------------------------------------ *)
(* the inner manager of a closer-manager run is a RunnerManager run *)

Lemma run_r_app v es1 : forall s s1 es2 s2,
  run_r v s es1 = Some s1 -> run_r v s1 es2 = Some s2 -> run_r v s (es1 ++ es2) = Some s2.
Proof.
  induction es1 as [|e es1 IH]; intros s s1 es2 s2 H1 H2; cbn in *.
  - inv H1. auto.
  - destruct (step_r v s e); try discriminate. eauto.
Qed.

Lemma step_c_inner v s e s' :
  step_c v s e = Some s' -> exists res, run_r v (inner s) res = Some (inner s').
Proof.
  intro H. destruct e; cbn [step_c step_c_gen step_c_gen] in H;
    try (exists []; crunch H;
         repeat match type of H with
                | context [match ?x with _ => _ end] => destruct x; try discriminate
                end; inv H; reflexivity).
  - (* CSetupLen *)
    destruct (c_pc s); try discriminate.
    destruct (is_fixed v); [|inv H; exists []; reflexivity].
    destruct (r_runners (inner s)).
    + inv H. exists []. reflexivity.
    + destruct (step_r v (inner s) (RAddCheck CloseRunner)) as [x1|] eqn:E1; try discriminate.
      destruct (step_r v x1 (RAddAppend (length (r_adds (inner s))))) as [x2|] eqn:E2; inv H.
      exists [RAddCheck CloseRunner; RAddAppend (length (r_adds (inner s)))].
      cbn [run_r]. rewrite E1, E2. reflexivity.
  - (* CSetup *)
    destruct (c_pc s) as [| |w| | |]; try discriminate.
    destruct (w && negb (is_fixed v)).
    + destruct (step_r v (inner s) (RAddCheck CloseRunner)) as [x1|] eqn:E1; try discriminate.
      destruct (step_r v x1 (RAddAppend (length (r_adds (inner s))))) as [x2|] eqn:E2;
        try discriminate.
      destruct (step_r v x2 RRunCas) as [y|] eqn:Ey; inv H.
      exists [RAddCheck CloseRunner; RAddAppend (length (r_adds (inner s))); RRunCas].
      cbn [run_r]. rewrite E1, E2, Ey. reflexivity.
    + destruct (step_r v (inner s) RRunCas) as [y|] eqn:Ey; inv H.
      exists [RRunCas]. cbn [run_r]. rewrite Ey. reflexivity.
  - (* CInner *)
    destruct (inner_allowed e); try discriminate.
    destruct (step_r v (inner s) e) as [x|] eqn:Ex; inv H.
    exists [e]. cbn [run_r]. rewrite Ex. reflexivity.
  - (* CCloseBegin *)
    destruct (step_r v (inner s) RCloseCh) as [x|] eqn:Ex; inv H.
    exists [RCloseCh]. cbn [run_r]. rewrite Ex. reflexivity.
  - (* CAddCheck *)
    destruct (c_running s); [inv H; exists []; reflexivity|].
    destruct (is_fixed v); [inv H; exists []; reflexivity|].
    destruct (step_r v (inner s) (RAddCheck b)) as [x|] eqn:Ex; inv H.
    exists [RAddCheck b]. cbn [run_r]. rewrite Ex. reflexivity.
  - (* CAddAppend *)
    destruct (nth_error (cadds s) k) as [[|a|b]|]; try discriminate.
    + destruct (lock_held s || is_fixed v); try discriminate.
      destruct (step_r v (inner s) (RAddAppend a)) as [x|] eqn:Ex; inv H.
      exists [RAddAppend a]. cbn [run_r]. rewrite Ex. reflexivity.
    + destruct (lock_held s || negb (is_fixed v)); try discriminate.
      destruct (c_running s); [inv H; exists []; reflexivity|].
      destruct (step_r v (inner s) (RAddCheck b)) as [x|] eqn:E1; try discriminate.
      destruct (step_r v x (RAddAppend (length (r_adds (inner s))))) as [y|] eqn:E2; inv H.
      exists [RAddCheck b; RAddAppend (length (r_adds (inner s)))].
      cbn [run_r]. rewrite E1, E2. reflexivity.
Qed.

Lemma run_c_inner v es : forall s s',
  run_c v s es = Some s' -> exists res, run_r v (inner s) res = Some (inner s').
Proof.
  induction es as [|e es IH]; intros s s' H; cbn in H.
  - inv H. exists []. reflexivity.
  - destruct (step_c v s e) as [s1|] eqn:E; try discriminate.
    destruct (step_c_inner _ _ _ _ E) as [r1 H1]. destruct (IH _ _ H) as [r2 H2].
    exists (r1 ++ r2). eapply run_r_app; eauto.
Qed.

Lemma cm_inner_is_rm_run : forall v grace bs cls es s,
  run_c v (new_cm grace bs cls) es = Some s ->
  exists res, run_r v (new_rm bs) res = Some (inner s).
Proof. intros v grace bs cls es s H. apply run_c_inner in H. exact H. Qed.

(* ------------------------------------------------------------------------------------------ *)

Lemma ccollected_all ps :
  c_all CColl ps -> ccollected ps = flat_map (fun p => olist (cl_result (c_cl p))) ps.
Proof.
  induction ps as [|p ps IH]; intro H; [reflexivity|].
  unfold ccollected; cbn [flat_map]. fold (ccollected ps).
  rewrite (H p (or_introl eq_refl)). f_equal. apply IH. intros q Hq. apply H. right; auto.
Qed.

Lemma closing_of_procs v grace bs s p :
  cinv v grace bs s -> In p (c_procs s) -> closing_pc (c_pc s).
Proof.
  intros I Hp. destruct (c_pc s) eqn:Epc; cbn; auto;
    destruct (ci_early _ _ _ _ I) as [Hnp _]; try (rewrite Epc; cbn; tauto);
    rewrite Hnp in Hp; destruct Hp.
Qed.

(* closers only after the last runner: whenever a closer goroutine exists, the inner manager's
   Run has returned, every runner goroutine has delivered its result, and the goroutines cover
   the runners given to the constructor *)
Lemma cm_closers_after_last_runner : forall v grace bs cls es s p,
  run_c v (new_cm grace bs cls) es = Some s -> In p (c_procs s) ->
  (exists rerrs, r_pc (inner s) = RReturned rerrs) /\ all_done (r_procs (inner s)) /\
  exists more, map p_beh (r_procs (inner s)) = bs ++ more.
Proof.
  intros v grace bs cls es s p H Hp. apply cinv_reach in H.
  pose proof (closing_of_procs _ _ _ _ _ H Hp) as Hc.
  assert (Hr : exists rerrs, r_pc (inner s) = RReturned rerrs).
  { destruct (c_pc s) as [| | | |n i errs|errs] eqn:Epc; cbn in Hc; try tauto.
    - destruct (ci_coll _ _ _ _ H n i errs Epc) as [_ [_ [rerrs [Hr _]]]]. eauto.
    - destruct (ci_done _ _ _ _ H errs Epc) as [_ [rerrs [Hr _]]]. eauto. }
  destruct Hr as [rerrs Hr]. pose proof (ci_inner _ _ _ _ H) as Ii.
  split; [eauto|]. split.
  - apply (i_ret _ _ _ Ii rerrs Hr).
  - apply (i_pref _ _ _ Ii). rewrite Hr. exact I.
Qed.

(* every closer at most once, always; and on the fixed code, once Run has returned: the closers
   registered are exactly the ones that were run, each was invoked exactly once and has been
   collected, and every AddCloser call that returned nil has its closer among them *)
Lemma cm_every_closer_once : forall grace bs cls es s,
  run_c Fixed (new_cm grace bs cls) es = Some s ->
  (forall p, In p (c_procs s) -> c_starts p <= 1) /\
  (forall errs, c_pc s = CDone errs ->
     closers s = map c_cl (c_procs s) /\
     (forall p, In p (c_procs s) -> c_st p = CColl /\ c_starts p = 1) /\
     (forall a idx, nth_error (addcl s) a = Some (ACAccepted idx) ->
        exists p, nth_error (c_procs s) idx = Some p /\ c_st p = CColl /\ c_starts p = 1)).
Proof.
  intros grace bs cls es s H. apply cinv_reach in H. split.
  - intros p Hp. rewrite (ci_starts _ _ _ _ H p Hp). destruct (c_st p); lia.
  - intros errs Hpc. destruct (ci_done _ _ _ _ H errs Hpc) as [Ha _].
    assert (Hcl : c_closing s = true) by (apply (ci_closing _ _ _ _ H); rewrite Hpc; exact I).
    destruct (ci_closers _ _ _ _ H) as [tl [E Hf]]. rewrite (Hf eq_refl Hcl), app_nil_r in E.
    assert (Hall : forall p, In p (c_procs s) -> c_st p = CColl /\ c_starts p = 1).
    { intros p Hp. split; [apply Ha; auto|]. rewrite (ci_starts _ _ _ _ H p Hp), (Ha p Hp). reflexivity. }
    split; [exact E|]. split; [exact Hall|].
    intros a idx Hacc. apply (ci_acc _ _ _ _ H) in Hacc. rewrite E, map_length in Hacc.
    destruct (nth_error (c_procs s) idx) as [p|] eqn:Ep.
    + exists p. split; auto. apply Hall. eapply nth_error_In; eauto.
    + apply nth_error_None in Ep. lia.
Qed.

(* the code before the fix: AddCloser returns nil, Run has returned, and the closer has no
   goroutine and never will (the closer goroutines are created once, by [CClosing]) *)
Lemma cm_every_closer_once_refuted :
  exists s errs, run_c Original (new_cm None [Free None] []) addcloser_race = Some s /\
    c_pc s = CDone errs /\ nth_error (addcl s) 0 = Some (ACAccepted 0) /\
    closers s = [User (Some 7%Z)] /\ c_procs s = [] /\ step_c Original s CClosing = None.
Proof. eexists; eexists. split; [vm_compute; reflexivity|]. repeat split. Qed.

Example addcloser_race_fixed :
  exists s, run_c Fixed (new_cm None [Free None] []) addcloser_race = Some s /\
            nth_error (addcl s) 0 = Some ACRejected /\ closers s = [].
Proof. eexists. split; [vm_compute; reflexivity|]. split; reflexivity. Qed.

(* Run and Close wait for the closers *)
Lemma cm_close_waits_for_closers : forall v grace bs cls es s,
  run_c v (new_cm grace bs cls) es = Some s ->
  (forall errs, c_pc s = CDone errs -> c_all CColl (c_procs s)) /\
  (forall c e, nth_error (closes s) c = Some (KRet e) ->
     (c_pc s = CIdle /\ c_procs s = []) \/
     (exists errs, c_pc s = CDone errs /\ c_all CColl (c_procs s))).
Proof.
  intros v grace bs cls es s H. apply cinv_reach in H. split.
  - intros errs Hpc. apply (ci_done _ _ _ _ H errs Hpc).
  - intros c e Hc. destruct (ci_kret _ _ _ _ H c e Hc) as [Hs _].
    destruct (ci_stopped _ _ _ _ H Hs) as [Hpc|Hpc].
    + left. split; auto. apply (ci_early _ _ _ _ H). rewrite Hpc. cbn. tauto.
    + right. destruct (c_pc s) as [| | | | |errs] eqn:Epc; cbn in Hpc; try tauto.
      exists errs. split; auto. apply (ci_done _ _ _ _ H errs Epc).
Qed.

(* Run and every Close return the same error: the join of the runners' (filtered) and the
   closers' results *)
Lemma cm_close_same_error : forall v grace bs cls es s,
  run_c v (new_cm grace bs cls) es = Some s ->
  (forall c e, nth_error (closes s) c = Some (KRet e) -> e = reterr s) /\
  (forall errs, c_pc s = CDone errs ->
     reterr s = errs /\
     Permutation errs (flat_map sent (r_procs (inner s)) ++
                       flat_map (fun p => olist (cl_result (c_cl p))) (c_procs s))) /\
  ((forall errs, c_pc s <> CDone errs) -> reterr s = []).
Proof.
  intros v grace bs cls es s H. apply cinv_reach in H. split; [|split].
  - intros c e Hc. apply (ci_kret _ _ _ _ H c e Hc).
  - intros errs Hpc. split; [apply (ci_done_stopped _ _ _ _ H errs Hpc)|].
    destruct (ci_done _ _ _ _ H errs Hpc) as [Ha [rerrs [Hr HP]]].
    rewrite (ccollected_all _ Ha) in HP.
    destruct (i_ret _ _ _ (ci_inner _ _ _ _ H) rerrs Hr) as [Hd HPr].
    rewrite (collected_all_done _ Hd) in HPr.
    eapply Permutation_trans; [exact HP|]. apply Permutation_app_tail. exact HPr.
  - intro Hn. apply (ci_reterr _ _ _ _ H). destruct (c_pc s) eqn:Epc; cbn; auto.
    intros _. apply (Hn errs). reflexivity.
Qed.

(* the fatal action *)
Lemma fatal_free_procs v bs s :
  cinv v None bs s -> fatal_state (c_procs s) = None.
Proof.
  intro H. apply fatal_state_none. intros p Hp. destruct (ci_closers _ _ _ _ H) as [tl [E _]].
  assert (Hin : In (c_cl p) (closers s)).
  { rewrite E. apply in_or_app. left. apply in_map. exact Hp. }
  pose proof (ci_nograce _ _ _ _ H _ Hin) as Hg. destruct (c_cl p); [discriminate | reflexivity].
Qed.

Lemma cfire_shape v s s' :
  step_c v s CFire = Some s' ->
  timer_fired s = false /\ grace_elapsed s = true /\ fired_early s' = negb (fch_closed s).
Proof.
  intro Hs. cbn [step_c step_c_gen] in Hs.
  destruct (find_fatal_running (c_procs s) 0); try discriminate.
  destruct (timer_fired s); [discriminate|]. destruct (grace_elapsed s); inv Hs. auto.
Qed.

Lemma cm_fatal_iff_outlast : forall v grace bs cls es s,
  run_c v (new_cm grace bs cls) es = Some s ->
  fatal_count s <= 1 /\
  (fatal_count s = 1 -> timer_fired s = true) /\
  (decidedb (fatal_state (c_procs s)) = true -> tie s = false ->
     (fatal_count s = 1 <-> fired_early s = true)) /\
  (grace = None -> fatal_count s = 0) /\
  (forall s', step_c v s CFire = Some s' -> fired_early s' = negb (fch_closed s)).
Proof.
  intros v grace bs cls es s H. apply cinv_reach in H.
  destruct (decidedb (fatal_state (c_procs s))) eqn:Ed.
  - destruct (ci_j4 _ _ _ _ H Ed) as [H1 [H2 H3]]. split; [auto|]. split; [auto|]. split; [auto|].
    split.
    + intros ->. exfalso. rewrite (fatal_free_procs _ _ _ H) in Ed. discriminate.
    + intros s' Hs. apply (cfire_shape _ _ _ Hs).
  - destruct (ci_j3 _ _ _ _ H Ed) as [H1 H2]. rewrite H1. split; [lia|]. split; [discriminate|].
    split; [discriminate|]. split; [auto|].
    intros s' Hs. apply (cfire_shape _ _ _ Hs).
Qed.

(* WHEN THE GRACE PERIOD HAS ELAPSED.  The grace timer is created when the fatal closer starts
   ([elapsed] is reset to 0 then and grows with the clock).  It is delivered only on a manager
   created with a grace period d, and only once the clock has advanced by at least d since then;
   from that moment on it CAN be delivered while the fatal closer is still waiting - in
   particular at once when d is 0 or negative: a non-positive grace period is a grace period
   that every closer that does not return at once outlasts, not "no grace period". *)
Lemma fatal_grace_of_running ps : forall k j,
  find_fatal_running ps k = Some j -> exists d, fatal_grace ps = Some d.
Proof.
  induction ps as [|q ps IH]; intros k j H; cbn in H; try discriminate.
  cbn [fatal_grace]. destruct (c_cl q) as [d|r] eqn:Ecl; cbn [is_fatal] in H.
  - eauto.
  - eapply IH; eauto.
Qed.

Lemma fatal_grace_in ps d : fatal_grace ps = Some d -> exists p, In p ps /\ c_cl p = Fatal d.
Proof.
  induction ps as [|q ps IH]; intro H; cbn in H; try discriminate.
  destruct (c_cl q) as [d'|r] eqn:Ecl.
  - inv H. exists q. split; [left; reflexivity | exact Ecl].
  - destruct (IH H) as [p [Hp Hc]]. exists p. split; [right; auto | auto].
Qed.

Lemma cm_grace_elapsed : forall v grace bs cls es s,
  run_c v (new_cm grace bs cls) es = Some s ->
  (0 <= elapsed s)%Z /\
  (forall s', step_c v s CFire = Some s' -> exists d, grace = Some d /\ (d <= elapsed s)%Z) /\
  (forall d j, grace = Some d -> find_fatal_running (c_procs s) 0 = Some j ->
     timer_fired s = false -> (d <= elapsed s)%Z -> exists s', step_c v s CFire = Some s') /\
  (forall d j, grace = Some d -> (d <= 0)%Z -> find_fatal_running (c_procs s) 0 = Some j ->
     timer_fired s = false -> exists s', step_c v s CFire = Some s').
Proof.
  intros v grace bs cls es s H. apply cinv_reach in H.
  pose proof (ci_elapsed _ _ _ _ H) as Hel.
  assert (Hg : forall d, fatal_grace (c_procs s) = Some d -> grace = Some d).
  { intros d Hd. destruct (fatal_grace_in _ _ Hd) as [p [Hp Hc]].
    destruct (ci_closers _ _ _ _ H) as [tl [E _]].
    assert (Hin : In (c_cl p) (closers s)).
    { rewrite E. apply in_or_app. left. apply in_map. exact Hp. }
    pose proof (ci_nograce _ _ _ _ H _ Hin) as Hx. rewrite Hc in Hx. exact Hx. }
  assert (Hen : forall d j, grace = Some d -> find_fatal_running (c_procs s) 0 = Some j ->
                timer_fired s = false -> (d <= elapsed s)%Z ->
                exists s', step_c v s CFire = Some s').
  { intros d j Hgr Hf Ht Hd. cbn [step_c step_c_gen]. rewrite Hf, Ht. cbn [orb].
    destruct (fatal_grace_of_running _ _ _ Hf) as [d' Hd'].
    unfold grace_elapsed. rewrite Hd'. pose proof (Hg _ Hd') as Hx. rewrite Hgr in Hx. inv Hx.
    apply Z.leb_le in Hd. rewrite Hd. cbn. eauto. }
  split; [exact Hel|]. split; [|split].
  - intros s' Hs. destruct (cfire_shape _ _ _ Hs) as [_ [Hge _]]. unfold grace_elapsed in Hge.
    destruct (fatal_grace (c_procs s)) as [d|] eqn:Hd; try discriminate.
    exists d. split; [apply Hg; reflexivity | apply Z.leb_le; exact Hge].
  - exact Hen.
  - intros d j Hgr Hd Hf Ht. apply (Hen d j); auto. lia.
Qed.

(* non-vacuity: a run in which the grace period elapses while closer 0 is still running (fatal),
   and one in which the closers finish in time (no fatal) *)
Example fatal_fires :
  exists s, run_c Fixed (new_cm (Some 5%Z) [] [None])
                  [CRunCas; CSetupLen; CSetup; CInner RSpawn; CInner RRunReturn; CClosing; CCloserStart 0;
                   CCloserStart 1; CAdvance 5%Z; CFire; CFatal; CCloserReturn 1; CCollectCloser 0;
                   CCloseFatalCh; CCollectCloser 1; CRunReturn] = Some s /\
            fatal_count s = 1 /\ fired_early s = true /\ tie s = false /\
            decidedb (fatal_state (c_procs s)) = true.
Proof. eexists. split; [vm_compute; reflexivity|]. repeat split. Qed.

Example fatal_does_not_fire :
  exists s, run_c Fixed (new_cm (Some 5%Z) [] [None])
                  [CRunCas; CSetupLen; CSetup; CInner RSpawn; CInner RRunReturn; CClosing; CCloserStart 0;
                   CCloserStart 1; CCloserReturn 1; CCollectCloser 1; CCloseFatalCh; CFatalQuit;
                   CCollectCloser 0; CRunReturn] = Some s /\
            fatal_count s = 0 /\ fired_early s = false /\ tie s = false /\
            decidedb (fatal_state (c_procs s)) = true.
Proof. eexists. split; [vm_compute; reflexivity|]. repeat split. Qed.

(* Close before Run *)
Lemma nth_error_app_len {A} (l : list A) x : nth_error (l ++ [x]) (length l) = Some x.
Proof. rewrite nth_error_app2 by auto. rewrite Nat.sub_diag. reflexivity. Qed.

Lemma step_pc_idle v s e s' :
  c_pc s = CIdle -> c_running s = true -> step_c v s e = Some s' ->
  c_pc s' = CIdle /\ c_running s' = true.
Proof.
  intros Hpc Hr H. destruct e; cbn [step_c step_c_gen step_c_gen] in H; rewrite ?Hpc, ?Hr in H; try discriminate;
    crunch H;
    repeat match type of H with
           | context [match ?x with _ => _ end] => destruct x; try discriminate
           end; inv H; cbn; auto.
Qed.

Lemma cm_close_before_run : forall v grace bs cls es s,
  run_c v (new_cm grace bs cls) es = Some s ->
  (* a manager that never ran: Close returns at once, nil *)
  (c_running s = false ->
     exists s', run_c v s [CCloseBegin; CCloseStep (length (closes s)); CCloseStep (length (closes s))]
                = Some s' /\
                nth_error (closes s') (length (closes s)) = Some (KRet []) /\
                c_stopped s' = true /\ c_pc s' = CIdle /\ c_running s' = true) /\
  (* and from then on nothing ever runs: every later Run is refused, no runner and no closer is
     started, every Close returns nil *)
  (c_pc s = CIdle -> c_running s = true ->
     forall es' s', run_c v s es' = Some s' ->
       c_pc s' = CIdle /\ c_procs s' = [] /\ r_procs (inner s') = [] /\
       (forall c e, nth_error (closes s') c = Some (KRet e) -> e = []) /\
       exists s'', step_c v s' CRunCas = Some s'' /\ run_rejected s'' = S (run_rejected s') /\
                   c_pc s'' = CIdle).
Proof.
  intros v grace bs cls es s H. apply cinv_reach in H. split.
  - intro Hr. destruct (ci_notrun _ _ _ _ H Hr) as [Hpc Hst].
    assert (Hre : reterr s = []) by (apply (ci_reterr _ _ _ _ H); rewrite Hpc; cbn; tauto).
    cbn [run_c step_c step_c_gen step_r].
    cbn [closes w_closes w_inner inner c_running c_closing c_stopped closers c_pc c_procs fch_closed
         timer_fired fired_early fatal_count tie reterr addcl run_rejected cadds].
    rewrite nth_error_app_len.
    cbn [closes w_closes w_inner inner c_running c_closing c_stopped closers c_pc c_procs fch_closed
         timer_fired fired_early fatal_count tie reterr addcl run_rejected cadds].
    rewrite Hr.
    rewrite (nth_error_upd_same _ (fun _ => KB) _ _ (nth_error_app_len (closes s) KA)).
    cbn [closes w_closes w_inner inner c_running c_closing c_stopped closers c_pc c_procs fch_closed
         timer_fired fired_early fatal_count tie reterr addcl run_rejected cadds].
    eexists. split; [reflexivity|].
    cbn [closes w_closes w_inner inner c_running c_closing c_stopped closers c_pc c_procs fch_closed
         timer_fired fired_early fatal_count tie reterr addcl run_rejected cadds].
    split.
    + rewrite Hre. erewrite nth_error_upd_same; [reflexivity|].
      erewrite nth_error_upd_same; [reflexivity|]. apply nth_error_app_len.
    + auto.
  - intros Hpc Hr es'. revert s H Hpc Hr.
    induction es' as [|e es' IH]; intros s H Hpc Hr s' Hrun; cbn in Hrun.
    + inv Hrun. split; [auto|].
      destruct (ci_early _ _ _ _ H) as [Hnp _]; [rewrite Hpc; cbn; tauto|].
      destruct (ci_inner_idle _ _ _ _ H ltac:(rewrite Hpc; exact Logic.I)) as [Hipc _].
      split; [auto|]. split.
      { apply (i_noprocs _ _ _ (ci_inner _ _ _ _ H)). auto. }
      split.
      { intros c e Hc. destruct (ci_kret _ _ _ _ H c e Hc) as [_ ->].
        apply (ci_reterr _ _ _ _ H). rewrite Hpc. cbn. tauto. }
      cbn [step_c step_c_gen step_c_gen]. rewrite Hr. eexists. split; [reflexivity|]. cbn. auto.
    + destruct (step_c v s e) as [s1|] eqn:E; try discriminate.
      destruct (step_pc_idle _ _ _ _ Hpc Hr E) as [Hpc1 Hr1].
      apply (IH s1); auto. eapply cinv_step; eauto.
Qed.

(* non-vacuity: a complete run with a runner error and a closer error, a Close during the run and
   one after it; Run and both Close calls return the join *)
Example full_run :
  exists s, run_c Fixed (new_cm None [Free (Some 5%Z)] [Some 9%Z])
                  [CRunCas; CSetupLen; CSetup; CInner RSpawn; CCloseBegin; CCloseStep 0;
                   CInner (RRunnerReturn 1); CInner (RCollect 1); CInner (RRunnerReturn 0);
                   CInner (RCollect 0); CInner RRunReturn; CClosing; CCloserStart 0;
                   CCloserReturn 0; CCloseFatalCh; CCollectCloser 0; CRunReturn; CCloseStep 0;
                   CCloseBegin; CCloseStep 1; CCloseStep 1] = Some s /\
            c_pc s = CDone [5%Z; 9%Z] /\
            closes s = [KRet [5%Z; 9%Z]; KRet [5%Z; 9%Z]].
Proof. eexists. split; [vm_compute; reflexivity|]. split; reflexivity. Qed.

(* ------------------------------------------------------------------------------------------ *)
(* managers assembled through RunnerCloserManager.Add *)

(* after the start Add is refused, and nothing else changes *)
Lemma cm_add_after_start_refused : forall v grace bs cls es s b,
  run_c v (new_cm grace bs cls) es = Some s -> c_running s = true ->
  step_c v s (CAddCheck b) = Some (w_cadds s (cadds s ++ [CARefused])).
Proof. intros v grace bs cls es s b _ Hr. cbn [step_c step_c_gen step_c_gen]. rewrite Hr. reflexivity. Qed.

(* before the start (nobody has called Run or Close) Add goes through: the runner is appended to
   the inner manager's slice and the call returns nil *)
Lemma rm_add_before_start v x b :
  r_running x = false ->
  exists x1 x2, step_r v x (RAddCheck b) = Some x1 /\
                step_r v x1 (RAddAppend (length (r_adds x))) = Some x2 /\
                r_runners x2 = r_runners x ++ [b] /\
                nth_error (r_adds x2) (length (r_adds x)) = Some (AAccepted b).
Proof.
  intro Hr. cbn [step_r]. rewrite Hr. eexists. eexists. split; [reflexivity|].
  cbn [step_r r_adds r_running r_runners]. rewrite nth_error_app_len, andb_false_r.
  split; [reflexivity|]. cbn [r_runners r_adds]. split; [reflexivity|].
  erewrite nth_error_upd_same; [reflexivity|]. apply nth_error_app_len.
Qed.

Lemma cm_add_before_start_accepted : forall v grace bs cls es s b,
  run_c v (new_cm grace bs cls) es = Some s -> c_running s = false ->
  exists s1 s2, step_c v s (CAddCheck b) = Some s1 /\
                step_c v s1 (CAddAppend (length (cadds s))) = Some s2 /\
                r_runners (inner s2) = r_runners (inner s) ++ [b] /\
                nth_error (r_adds (inner s2)) (length (r_adds (inner s))) = Some (AAccepted b).
Proof.
  intros v grace bs cls es s b H Hr. apply cinv_reach in H.
  destruct (ci_notrun _ _ _ _ H Hr) as [Hpc _].
  destruct (ci_inner_idle _ _ _ _ H ltac:(rewrite Hpc; exact Logic.I)) as [_ Hir].
  destruct (rm_add_before_start v (inner s) b Hir) as [x1 [x2 [E1 [E2 [Hrun Hadd]]]]].
  destruct v.
  - cbn [step_c step_c_gen is_fixed]. rewrite Hr, E1. eexists. eexists. split; [reflexivity|].
    cbn [step_c step_c_gen cadds w_cadds w_inner inner]. rewrite nth_error_app_len.
    unfold lock_held. cbn [c_pc w_cadds w_inner is_fixed orb]. rewrite Hpc. cbn [orb]. rewrite E2.
    split; [reflexivity|]. cbn [inner w_inner]. auto.
  - cbn [step_c step_c_gen is_fixed]. rewrite Hr. eexists. eexists. split; [reflexivity|].
    cbn [step_c step_c_gen cadds w_cadds]. rewrite nth_error_app_len.
    unfold lock_held. cbn [c_pc w_cadds is_fixed negb orb c_running inner]. rewrite Hpc, Hr.
    cbn [orb]. rewrite E1, E2. split; [reflexivity|]. cbn [inner w_inner w_cadds]. auto.
Qed.

(* ------------------------------------------------------------------------------------------ *)
(* The Close-watching runner.

   Before the third fix Run decided whether to add it from an UNLOCKED read of len(mngr.runners)
   ([CSetupLen]) and added it later ([CSetup]); an Add call that had passed its tests before Run was
   called and appended between the two left a run without close-runner
   ([cm_close_reaches_runners_refuted]).  After it, the read and the registration happen under the
   lock under which Add tests and appends: Close reaches the runners along EVERY schedule. *)

Definition after_setup (pc : cpc) : Prop :=
  match pc with CIdle | CStarted | CDecided _ => False | _ => True end.
Definition decided_pc (pc : cpc) : Prop := match pc with CDecided _ => True | _ => False end.

Definition watched (x : rstate) : Prop := r_runners x = [] \/ In CloseRunner (r_runners x).

Definition winv (s : cstate) : Prop :=
  (decided_pc (c_pc s) -> watched (inner s)) /\
  (after_setup (c_pc s) -> r_running (inner s) = true /\ watched (inner s)).

Lemma step_r_fixed_keeps x ev y :
  step_r Fixed x ev = Some y -> r_running x = true ->
  r_running y = true /\ r_runners y = r_runners x.
Proof.
  intros H Hr. destruct ev; cbn [step_r] in H; rewrite ?Hr in H; cbn [is_fixed andb] in H;
    repeat match type of H with
           | context [match ?x with _ => _ end] => destruct x; try discriminate
           end; inv H; cbn; auto.
Qed.

(* events other than the locked append never touch the runner slice *)
Lemma step_r_runners v x ev y :
  step_r v x ev = Some y -> (forall a, ev <> RAddAppend a) -> r_runners y = r_runners x.
Proof.
  intros H Hn. destruct ev; cbn [step_r] in H; try (exfalso; eapply Hn; reflexivity);
    repeat match type of H with
           | context [match ?x with _ => _ end] => destruct x; try discriminate
           end; inv H; cbn; auto.
Qed.

Ltac split_all H :=
  repeat match type of H with
         | context [match ?x with _ => _ end] => destruct x eqn:?; try discriminate
         | context [if ?b then _ else _] => destruct b eqn:?; try discriminate
         end.

(* events that leave the inner manager and Run's program counter alone *)
Ltac same_inner H W s0 :=
  match type of H with
  | _ = Some ?s1 =>
      let Hk := fresh "Hk" in
      assert (Hk : inner s1 = inner s0 /\ c_pc s1 = c_pc s0)
        by (split_all H; inv H; cbn; split; reflexivity);
      destruct Hk as [Hk1 Hk2]; unfold winv; rewrite Hk1, Hk2; exact W
  end.

(* events that change the inner manager by one step that is not a locked append *)
Lemma winv_inner_step s x ev :
  winv s -> step_r Fixed (inner s) ev = Some x ->
  (forall a, ev <> RAddAppend a) -> winv (w_inner s x).
Proof.
  intros [W1 W2] Ex Hn. pose proof (step_r_runners _ _ _ _ Ex Hn) as Hrn.
  unfold winv, watched. cbn [inner c_pc w_inner]. rewrite Hrn. split; [exact W1|].
  intro Ha. destruct (W2 Ha) as [Hr Hw]. split; auto.
  destruct ev; cbn [step_r] in Ex;
    repeat match type of Ex with
           | context [match ?x with _ => _ end] => destruct x; try discriminate
           end; inv Ex; cbn; auto.
Qed.

Lemma winv_step grace bs s e s' :
  cinv Fixed grace bs s -> winv s -> step_c Fixed s e = Some s' -> winv s'.
Proof.
  intros Ci W H. destruct e; cbn [step_c step_c_gen is_fixed negb andb orb] in H.
  - (* CRunCas *)
    destruct W as [W1 W2]. destruct (c_running s) eqn:Er; inv H; unfold winv; cbn; auto.
    split; intros [].
  - (* CSetupLen: the length is read and the close-runner appended in one locked step *)
    destruct (c_pc s) eqn:Epc; try discriminate.
    destruct (ci_inner_idle _ _ _ _ Ci ltac:(rewrite Epc; exact Logic.I)) as [_ Hir].
    unfold winv, watched. destruct (r_runners (inner s)) as [|b0 t] eqn:Ern.
    + inv H. cbn. rewrite Ern. split; [auto | intros []].
    + cbn [step_r] in H. rewrite Hir in H. cbn [r_adds] in H. rewrite nth_error_app_len in H.
      cbn [r_running is_fixed andb r_runners] in H. inv H. cbn. split; [|intros []].
      intros _. right. rewrite Ern. apply in_or_app. right. left. reflexivity.
  - (* CSetup *)
    destruct W as [W1 _]. destruct (c_pc s) as [| |w| | |] eqn:Epc; try discriminate.
    destruct (ci_inner_idle _ _ _ _ Ci ltac:(rewrite Epc; exact Logic.I)) as [_ Hir].
    rewrite andb_false_r in H.
    destruct (step_r Fixed (inner s) RRunCas) as [y|] eqn:Ey; inv H.
    cbn [step_r] in Ey. rewrite Hir in Ey. inv Ey. unfold winv, watched in *. cbn. split; [intros []|].
    intros _. split; auto. apply W1. exact Logic.I.
  - (* CInner *)
    destruct (inner_allowed e) eqn:Eal; try discriminate.
    destruct (step_r Fixed (inner s) e) as [x|] eqn:Ex; inv H.
    apply winv_inner_step with (ev := e); auto.
    intros a ->. discriminate.
  - (* CClosing *)
    destruct W as [_ W2]. destruct (c_pc s) eqn:Epc; try discriminate.
    destruct (r_pc (inner s)); try discriminate.
    inv H. unfold winv. cbn. split; [intros []|]. intros _. apply W2. exact Logic.I.
  - same_inner H W s.
  - same_inner H W s.
  - same_inner H W s.
  - same_inner H W s.
  - same_inner H W s.
  - same_inner H W s.
  - same_inner H W s.
  - (* CCollectCloser *)
    destruct W as [_ W2]. destruct (c_pc s) eqn:Epc; try discriminate.
    split_all H. inv H. unfold winv. cbn. split; [intros []|]. intros _. apply W2. exact Logic.I.
  - (* CRunReturn *)
    destruct W as [_ W2]. destruct (c_pc s) eqn:Epc; try discriminate.
    destruct (i <=? n)%nat; inv H. unfold winv. cbn. split; [intros []|].
    intros _. apply W2. exact Logic.I.
  - (* CCloseBegin *)
    destruct (step_r Fixed (inner s) RCloseCh) as [x|] eqn:Ex; inv H.
    assert (Hw : winv (w_inner s x)).
    { apply winv_inner_step with (ev := RCloseCh); auto. intros a Ha. discriminate. }
    exact Hw.
  - (* CCloseStep *)
    same_inner H W s.
  - same_inner H W s.
  - same_inner H W s.
  - (* CAddCheck: only the lock-free test *)
    same_inner H W s.
  - (* CAddAppend: under the lock, refused once Run (or Close) was called *)
    destruct (nth_error (cadds s) k) as [[|a|b]|]; try discriminate.
    + rewrite orb_true_r in H. discriminate.
    + rewrite orb_false_r in H. destruct (lock_held s); try discriminate.
      destruct (c_running s) eqn:Er.
      * inv H. exact W.
      * destruct (ci_notrun _ _ _ _ Ci Er) as [Hpc _].
        split_all H. inv H. unfold winv. cbn. rewrite Hpc. cbn. split; intros [].
Qed.

Lemma winv_run grace bs es : forall s s',
  cinv Fixed grace bs s -> winv s -> run_c Fixed s es = Some s' -> winv s'.
Proof.
  induction es as [|e es IH]; intros s s' Ci W H; cbn in H.
  - inv H; auto.
  - destruct (step_c Fixed s e) as [s1|] eqn:E; try discriminate.
    apply (IH s1 s'); auto.
    + eapply cinv_step; eauto.
    + eapply winv_step; eauto.
Qed.

(* CLOSE REACHES THE RUNNERS (fixed code; managers assembled through the constructor, through Add,
   or both; ALL schedules).  Whenever runner goroutines exist, one of them is the close-runner;
   while it runs, a closed closeCh lets it return - which (C12_cancel_on_first_return, through
   C12_inner_is_runner_manager) cancels the context of all the others. *)
Lemma cm_close_reaches_runners : forall grace bs cls es s,
  run_c Fixed (new_cm grace bs cls) es = Some s ->
  r_procs (inner s) <> [] ->
  exists i p, nth_error (r_procs (inner s)) i = Some p /\ p_beh p = CloseRunner /\
    (p_st p = Running -> r_closech (inner s) = true ->
       exists s', step_c Fixed s (CInner (RRunnerReturn i)) = Some s').
Proof.
  intros grace bs cls es s H Hne.
  assert (Ci : cinv Fixed grace bs s) by (eapply cinv_reach; eauto).
  assert (W : winv s).
  { eapply winv_run; [apply cinv_init | | exact H]. unfold winv. cbn. split; intros []. }
  pose proof (ci_inner _ _ _ _ Ci) as Ii.
  assert (Hsp : spawned_pc (r_pc (inner s))).
  { destruct (r_pc (inner s)) eqn:Epc; cbn; auto;
      exfalso; apply Hne; apply (i_noprocs _ _ _ Ii); auto. }
  assert (Ha : after_setup (c_pc s)).
  { destruct (c_pc s) eqn:Epc; cbn; auto;
      destruct (ci_inner_idle _ _ _ _ Ci ltac:(rewrite Epc; exact Logic.I)) as [Hi _];
      rewrite Hi in Hsp; exact Hsp. }
  destruct W as [_ W2]. destruct (W2 Ha) as [_ Hw]. unfold watched in Hw.
  destruct (i_snap _ _ _ Ii Hsp) as [tl [E Hf]]. rewrite (Hf eq_refl), app_nil_r in E.
  destruct Hw as [Hw|Hw].
  - exfalso. apply Hne. rewrite E in Hw. destruct (r_procs (inner s)); [reflexivity|discriminate].
  - rewrite E in Hw. apply in_map_iff in Hw. destruct Hw as [p [Hb Hp]].
    destruct (In_nth_error _ _ Hp) as [i Hi]. exists i, p. split; [auto|]. split; [auto|].
    intros Hst Hch. cbn [step_c step_c_gen inner_allowed step_r]. rewrite Hi, Hst.
    unfold may_return. rewrite Hb, Hch, orb_true_r. eauto.
Qed.

(* The tree with the first two fixes but without the third ([run_c_gen Fixed Original]), and the
   tree before all of them: Add passes its tests on an empty manager, Run reads
   len(mngr.runners) = 0, Add appends and returns nil, the inner manager starts.  The one runner is
   running, Close has been called (closeCh is closed), there is no close-runner, and the runner -
   which waits for its context - cannot return: Close blocks until the caller's own context ends. *)
Definition close_cannot_stop (s : cstate) (step : cstate -> cev -> option cstate) : Prop :=
  map p_beh (r_procs (inner s)) = [OnCancel None] /\
  r_closech (inner s) = true /\ r_cancelled (inner s) = false /\
  nth_error (closes s) 0 = Some KB /\ c_stopped s = false /\
  step s (CInner (RRunnerReturn 0)) = None /\ step s (CCloseStep 0) = None.

Lemma cm_close_reaches_runners_refuted :
  (exists s, run_c Original (new_cm None [] []) add_watcher_race = Some s /\
             close_cannot_stop s (step_c Original)) /\
  (exists s, run_c_gen Fixed Original (new_cm None [] []) add_watcher_race = Some s /\
             close_cannot_stop s (step_c_gen Fixed Original)).
Proof.
  split; eexists; (split; [vm_compute; reflexivity|]); unfold close_cannot_stop; repeat split.
Qed.

(* the same schedule on the fixed code: the Add is refused under the lock *)
Example add_watcher_race_fixed :
  exists s, run_c Fixed (new_cm None [] []) add_watcher_race = Some s /\
            cadds s = [CARefused] /\ r_procs (inner s) = [] /\ r_runners (inner s) = [].
Proof. eexists. split; [vm_compute; reflexivity|]. repeat split. Qed.

(* non-vacuity: a manager built EMPTY, runners registered through Add, Close during Run *)
Example close_reaches_added_runners :
  exists s, run_c Fixed (new_cm None [] [None])
                  [CAddCheck (OnCancel (Some 5%Z)); CAddAppend 0; CAddCheck CtxErr; CAddAppend 1;
                   CRunCas; CSetupLen; CSetup; CInner RSpawn; CCloseBegin; CCloseStep 0;
                   CInner (RRunnerReturn 2); CInner (RCollect 2); CInner (RRunnerReturn 0);
                   CInner (RRunnerReturn 1); CInner (RCollect 1); CInner (RCollect 0);
                   CInner RRunReturn; CClosing; CCloserStart 0; CCloserReturn 0; CCloseFatalCh;
                   CCollectCloser 0; CRunReturn; CCloseStep 0] = Some s /\
            c_pc s = CDone [5%Z] /\ closes s = [KRet [5%Z]].
Proof. eexists. split; [vm_compute; reflexivity|]. split; reflexivity. Qed.

(* non-vacuity of the boundary: with a grace period of 0 the timer is due the moment the fatal
   closer has created it - no clock advance at all - and the fatal action fires while closer 0
   is still running; the same with a negative one *)
Example zero_grace_fires_at_once :
  exists s, run_c Fixed (new_cm (Some 0%Z) [] [None])
                  [CRunCas; CSetupLen; CSetup; CInner RSpawn; CInner RRunReturn; CClosing;
                   CCloserStart 0; CCloserStart 1; CFire; CFatal] = Some s /\
            fatal_count s = 1 /\ fired_early s = true /\ elapsed s = 0%Z.
Proof. eexists. split; [vm_compute; reflexivity|]. repeat split. Qed.

Example negative_grace_fires_at_once :
  exists s, run_c Fixed (new_cm (Some (-1000000000)%Z) [] [None])
                  [CRunCas; CSetupLen; CSetup; CInner RSpawn; CInner RRunReturn; CClosing;
                   CCloserStart 0; CCloserStart 1; CFire; CFatal] = Some s /\
            fatal_count s = 1.
Proof. eexists. split; [vm_compute; reflexivity|]. reflexivity. Qed.

(* ... and a positive one is not due one nanosecond early *)
Example positive_grace_not_early :
  run_c Fixed (new_cm (Some 5%Z) [] [None])
        [CRunCas; CSetupLen; CSetup; CInner RSpawn; CInner RRunReturn; CClosing;
         CCloserStart 0; CCloserStart 1; CAdvance 4%Z; CFire] = None.
Proof. vm_compute. reflexivity. Qed.
