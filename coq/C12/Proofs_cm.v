(* C12 — RunnerCloserManager: one invariant over all schedules (both variants), and the theorems
   read off it. *)
From Kit Require Import C12.Model C12.Proofs_rm.

(* ------------------------------------------------------------------------------------------ *)
(* closer goroutines *)

Definition is_coll (p : cproc) : bool := match c_st p with CColl => true | _ => false end.
Definition ncoll (ps : list cproc) : nat := length (filter is_coll ps).
Definition ccollected (ps : list cproc) : list err :=
  flat_map (fun p => match c_st p with CColl => olist (cl_result (c_cl p)) | _ => [] end) ps.

Lemma ncoll_cons p ps : ncoll (p :: ps) = (if is_coll p then 1 else 0) + ncoll ps.
Proof. unfold ncoll; cbn. destruct (is_coll p); reflexivity. Qed.

Lemma ncoll_le ps : ncoll ps <= length ps.
Proof. induction ps as [|p ps IH]; [auto|]. rewrite ncoll_cons. cbn [length]. destruct (is_coll p); lia. Qed.

Lemma ncoll_all ps : length ps <= ncoll ps -> c_all CColl ps.
Proof.
  induction ps as [|p ps IH]; intros H q Hq; [destruct Hq|].
  rewrite ncoll_cons in H. cbn [length] in H. pose proof (ncoll_le ps).
  destruct (is_coll p) eqn:E; [|lia].
  destruct Hq as [<-|Hq].
  - unfold is_coll in E. destruct (c_st p); auto; discriminate.
  - apply IH; [lia | auto].
Qed.

Lemma ncoll_fresh cs : ncoll (map (fun c => mkc c CSpawned 0) cs) = 0.
Proof. induction cs; cbn; auto. Qed.
Lemma ccollected_fresh cs : ccollected (map (fun c => mkc c CSpawned 0) cs) = [].
Proof. induction cs; cbn; auto. Qed.

Lemma map_cl_upd (f : cproc -> cproc) i ps :
  (forall p, c_cl (f p) = c_cl p) -> map c_cl (upd i f ps) = map c_cl ps.
Proof. intro Hf. revert i; induction ps as [|p ps IH]; intros [|i]; cbn; auto; f_equal; auto. Qed.

(* an update that neither makes nor unmakes a collected goroutine *)
Lemma upd_nochange (f : cproc -> cproc) i ps p :
  (forall q, c_cl (f q) = c_cl q) ->
  nth_error ps i = Some p -> c_st p <> CColl -> c_st (f p) <> CColl ->
  ncoll (upd i f ps) = ncoll ps /\ ccollected (upd i f ps) = ccollected ps.
Proof.
  intros Hf. revert i; induction ps as [|q ps IH]; intros [|i] H H1 H2; cbn in H; try discriminate.
  - inversion H; subst. cbn [upd]. rewrite !ncoll_cons. unfold ccollected; cbn [flat_map].
    unfold is_coll. destruct (c_st p); try congruence; destruct (c_st (f p)); try congruence; auto.
  - cbn [upd]. rewrite !ncoll_cons. unfold ccollected; cbn [flat_map].
    fold (ccollected ps). fold (ccollected (upd i f ps)).
    destruct (IH i H H1 H2) as [-> ->]. auto.
Qed.

Lemma upd_coll i ps p :
  nth_error ps i = Some p -> c_st p <> CColl ->
  ncoll (upd i (cset_st CColl) ps) = S (ncoll ps) /\
  Permutation (ccollected (upd i (cset_st CColl) ps)) (ccollected ps ++ olist (cl_result (c_cl p))).
Proof.
  revert i; induction ps as [|q ps IH]; intros [|i] H H1; cbn in H; try discriminate.
  - inversion H; subst. cbn [upd]. rewrite !ncoll_cons. unfold ccollected; cbn [flat_map cset_st c_st c_cl].
    fold (ccollected ps). unfold is_coll; cbn [cset_st c_st].
    destruct (c_st p); try congruence; (split; [reflexivity | cbn [app]; apply Permutation_app_comm]).
  - cbn [upd]. rewrite !ncoll_cons. unfold ccollected; cbn [flat_map].
    fold (ccollected ps). fold (ccollected (upd i (cset_st CColl) ps)).
    destruct (IH i H H1) as [-> HP]. split; [lia|]. rewrite <- app_assoc.
    apply Permutation_app_head. exact HP.
Qed.

(* the fatal closer's goroutine *)
Lemma fatal_state_upd (f : cproc -> cproc) i ps p :
  (forall q, c_cl (f q) = c_cl q) -> nth_error ps i = Some p ->
  decidedb (Some (c_st (f p))) = decidedb (Some (c_st p)) ->
  decidedb (fatal_state (upd i f ps)) = decidedb (fatal_state ps).
Proof.
  intros Hf. revert i; induction ps as [|q ps IH]; intros [|i] H Hd; cbn in H; try discriminate.
  - inversion H; subst. cbn [upd fatal_state]. rewrite Hf. destruct (is_fatal (c_cl p)); auto.
  - cbn [upd fatal_state]. destruct (is_fatal (c_cl q)); auto.
Qed.

Lemma fatal_state_upd_user (f : cproc -> cproc) i ps p :
  (forall q, c_cl (f q) = c_cl q) -> nth_error ps i = Some p -> is_fatal (c_cl p) = false ->
  fatal_state (upd i f ps) = fatal_state ps.
Proof.
  intros Hf. revert i; induction ps as [|q ps IH]; intros [|i] H Hd; cbn in H; try discriminate.
  - inversion H; subst. cbn [upd fatal_state]. rewrite Hf, Hd. reflexivity.
  - cbn [upd fatal_state]. destruct (is_fatal (c_cl q)); auto.
Qed.

Lemma find_fatal_running_spec ps : forall k j,
  find_fatal_running ps k = Some j ->
  exists i p, j = k + i /\ nth_error ps i = Some p /\ c_st p = CRunning /\
              fatal_state ps = Some CRunning /\
              fatal_state (upd i (cset_st CRet) ps) = Some CRet.
Proof.
  induction ps as [|q ps IH]; intros k j H; cbn in H; try discriminate.
  destruct (is_fatal (c_cl q)) eqn:Ef.
  - destruct (c_st q) eqn:Es; try discriminate. inversion H; subst.
    exists 0, q. cbn [upd fatal_state nth_error cset_st c_cl c_st]. rewrite Ef, Es.
    repeat split; auto.
  - destruct (IH _ _ H) as [i [p [-> [Hn [Hs [Hf Hu]]]]]].
    exists (S i), p. cbn [upd fatal_state nth_error]. rewrite Ef. repeat split; auto. lia.
Qed.

Lemma fatal_state_none ps :
  (forall p, In p ps -> is_fatal (c_cl p) = false) -> fatal_state ps = None.
Proof.
  induction ps as [|q ps IH]; intro H; [reflexivity|]. cbn. rewrite (H q (or_introl eq_refl)).
  apply IH. intros p Hp. apply H. right; auto.
Qed.

(* ------------------------------------------------------------------------------------------ *)
(* facts about the inner manager used below *)

Ltac crunch H :=
  repeat match type of H with
         | context [match nth_error ?l ?i with _ => _ end] =>
             let E := fresh "E" in destruct (nth_error l i) eqn:E; try discriminate
         | context [match p_st ?p with _ => _ end] => destruct (p_st p); try discriminate
         | context [if ?b then _ else _] => destruct b; try discriminate
         end.

Lemma step_r_returned v x ev y e :
  r_pc x = RReturned e -> (inner_allowed ev = true \/ ev = RCloseCh) ->
  step_r v x ev = Some y -> r_pc y = RReturned e.
Proof.
  intros Hpc Hal H. destruct ev; cbn in Hal; destruct Hal as [Hal|Hal]; try discriminate;
    cbn [step_r] in H; rewrite ?Hpc in H; try discriminate; crunch H; inv H; cbn; congruence.
Qed.

Lemma step_r_idle v bs x ev y :
  rinv v bs x -> r_pc x = RIdle -> r_running x = false ->
  (inner_allowed ev = true \/ ev = RCloseCh) ->
  step_r v x ev = Some y -> r_pc y = RIdle /\ r_running y = false.
Proof.
  intros I Hpc Hr Hal H. pose proof (i_noprocs _ _ _ I (or_introl Hpc)) as Hnp.
  destruct ev; cbn in Hal; destruct Hal as [Hal|Hal]; try discriminate;
    cbn [step_r] in H; rewrite ?Hpc, ?Hnp in H; try discriminate; crunch H;
    try (match goal with E : nth_error [] ?i = Some _ |- _ => destruct i; discriminate end);
    inv H; cbn; auto.
Qed.

(* ------------------------------------------------------------------------------------------ *)
(* the invariant *)

Definition closing_pc (pc : cpc) : Prop :=
  match pc with CCollect _ _ _ | CDone _ => True | _ => False end.
Definition done_pc (pc : cpc) : Prop := match pc with CDone _ => True | _ => False end.

Record cinv (v : variant) (grace : bool) (bs : list beh) (s : cstate) : Prop := mkcinv {
  ci_inner : rinv v bs (inner s);
  ci_run : c_pc s <> CIdle -> c_running s = true;
  ci_notrun : c_running s = false -> c_pc s = CIdle /\ c_stopped s = false;
  ci_early : ~ closing_pc (c_pc s) -> c_procs s = [] /\ c_closing s = false;
  ci_closing : closing_pc (c_pc s) -> c_closing s = true;
  ci_inner_idle : c_pc s = CIdle \/ c_pc s = CStarted ->
                  r_pc (inner s) = RIdle /\ r_running (inner s) = false;
  ci_stopped : c_stopped s = true -> c_pc s = CIdle \/ done_pc (c_pc s);
  ci_done_stopped : forall e, c_pc s = CDone e -> c_stopped s = true /\ reterr s = e;
  ci_reterr : ~ done_pc (c_pc s) -> reterr s = [];
  ci_closers : exists tl, closers s = map c_cl (c_procs s) ++ tl /\
                          (v = Fixed -> c_closing s = true -> tl = []);
  ci_coll : forall n i errs, c_pc s = CCollect n i errs ->
            n = length (c_procs s) /\ i = S (ncoll (c_procs s)) /\
            exists rerrs, r_pc (inner s) = RReturned rerrs /\
                          Permutation errs (rerrs ++ ccollected (c_procs s));
  ci_done : forall errs, c_pc s = CDone errs ->
            c_all CColl (c_procs s) /\
            exists rerrs, r_pc (inner s) = RReturned rerrs /\
                          Permutation errs (rerrs ++ ccollected (c_procs s));
  ci_starts : forall p, In p (c_procs s) ->
              c_starts p = match c_st p with CSpawned => 0 | _ => 1 end;
  ci_kret : forall c e, nth_error (closes s) c = Some (KRet e) ->
            c_stopped s = true /\ e = reterr s;
  ci_acc : forall a idx, nth_error (addcl s) a = Some (ACAccepted idx) -> idx < length (closers s);
  ci_j1 : fired_early s = true -> timer_fired s = true;
  ci_j2 : timer_fired s = true -> fch_closed s = false -> fired_early s = true;
  ci_j3 : decidedb (fatal_state (c_procs s)) = false -> fatal_count s = 0 /\ tie s = false;
  ci_j4 : decidedb (fatal_state (c_procs s)) = true ->
          fatal_count s <= 1 /\ (fatal_count s = 1 -> timer_fired s = true) /\
          (tie s = false -> (fatal_count s = 1 <-> fired_early s = true));
  ci_nograce : grace = false -> forall c, In c (closers s) -> is_fatal c = false
}.

Lemma cinv_init v grace bs cls : cinv v grace bs (new_cm grace bs cls).
Proof.
  constructor; cbn; auto; try tauto; try discriminate.
  - apply rinv_init.
  - eexists. split; [reflexivity|]. discriminate.
  - intros c e H. destruct c; discriminate.
  - intros a idx H. destruct a; discriminate.
  - intros -> c H. cbn in H. apply in_map_iff in H. destruct H as [r [<- _]]. reflexivity.
Qed.

Ltac cfin :=
  cbn [inner c_running c_closing c_stopped closers c_pc c_procs fch_closed timer_fired fired_early
       fatal_count tie reterr addcl closes run_rejected w_inner w_pc w_procs w_addcl w_closes
       closing_pc done_pc];
  auto; try discriminate; try tauto; try (intros; discriminate); try (intro; congruence);
  try (intros [?|?]; discriminate).

Lemma cinv_step v grace bs s e s' : cinv v grace bs s -> step_c v s e = Some s' -> cinv v grace bs s'.
Proof.
  intros I H.
  destruct I as [Iin Irun Inot Iearly Iclosing Iidle Istop Idone Ireterr Iclosers Icoll Idn Istarts
                 Ikret Iacc J1 J2 J3 J4 Ing].
  destruct e; cbn [step_c] in H.
  - (* CRunCas *)
    destruct (c_running s) eqn:Er; inv H.
    + constructor; cfin.
    + destruct (Inot eq_refl) as [Hpc Hst]. constructor; cfin.
