(* C12 — RunnerCloserManager: one invariant over all schedules (both variants), and the theorems
   read off it. *)
From Kit Require Import C12.Model C12.Proofs_rm.

(* ------------------------------------------------------------------------------------------ *)
(* closer goroutines *)

Definition is_coll (p : cproc) : bool := match c_st p with CColl => true | _ => false end.
Definition ncoll (ps : list cproc) : nat := length (filter is_coll ps).
Definition ccollected (ps : list cproc) : list err :=
  flat_map (fun p => match c_st p with CColl => olist (cl_result (c_cl p)) | _ => [] end) ps.

Lemma ncoll_cons p ps : ncoll (p :: ps) = (if is_coll p then 1 else 0) + ncoll ps.
Proof. unfold ncoll; cbn. destruct (is_coll p); reflexivity. Qed.

Lemma ncoll_le ps : ncoll ps <= length ps.
Proof. induction ps as [|p ps IH]; [auto|]. rewrite ncoll_cons. cbn [length]. destruct (is_coll p); lia. Qed.

Lemma ncoll_all ps : length ps <= ncoll ps -> c_all CColl ps.
Proof.
  induction ps as [|p ps IH]; intros H q Hq; [destruct Hq|].
  rewrite ncoll_cons in H. cbn [length] in H. pose proof (ncoll_le ps).
  destruct (is_coll p) eqn:E; [|lia].
  destruct Hq as [<-|Hq].
  - unfold is_coll in E. destruct (c_st p); auto; discriminate.
  - apply IH; [lia | auto].
Qed.

Lemma ncoll_fresh cs : ncoll (map (fun c => mkc c CSpawned 0) cs) = 0.
Proof. induction cs; cbn; auto. Qed.
Lemma ccollected_fresh cs : ccollected (map (fun c => mkc c CSpawned 0) cs) = [].
Proof. induction cs; cbn; auto. Qed.

Lemma map_cl_upd (f : cproc -> cproc) i ps :
  (forall p, c_cl (f p) = c_cl p) -> map c_cl (upd i f ps) = map c_cl ps.
Proof. intro Hf. revert i; induction ps as [|p ps IH]; intros [|i]; cbn; auto; f_equal; auto. Qed.

(* an update that neither makes nor unmakes a collected goroutine *)
Lemma upd_nochange (f : cproc -> cproc) i ps p :
  (forall q, c_cl (f q) = c_cl q) ->
  nth_error ps i = Some p -> c_st p <> CColl -> c_st (f p) <> CColl ->
  ncoll (upd i f ps) = ncoll ps /\ ccollected (upd i f ps) = ccollected ps.
Proof.
  intros Hf. revert i; induction ps as [|q ps IH]; intros [|i] H H1 H2; cbn in H; try discriminate.
  - inversion H; subst. cbn [upd]. rewrite !ncoll_cons. unfold ccollected; cbn [flat_map].
    unfold is_coll. destruct (c_st p); try congruence; destruct (c_st (f p)); try congruence; auto.
  - cbn [upd]. rewrite !ncoll_cons. unfold ccollected; cbn [flat_map].
    fold (ccollected ps). fold (ccollected (upd i f ps)).
    destruct (IH i H H1 H2) as [-> ->]. auto.
Qed.

Lemma upd_coll i ps p :
  nth_error ps i = Some p -> c_st p <> CColl ->
  ncoll (upd i (cset_st CColl) ps) = S (ncoll ps) /\
  Permutation (ccollected (upd i (cset_st CColl) ps)) (ccollected ps ++ olist (cl_result (c_cl p))).
Proof.
  revert i; induction ps as [|q ps IH]; intros [|i] H H1; cbn in H; try discriminate.
  - inversion H; subst. cbn [upd]. rewrite !ncoll_cons. unfold ccollected; cbn [flat_map cset_st c_st c_cl].
    fold (ccollected ps). unfold is_coll; cbn [cset_st c_st].
    destruct (c_st p); try congruence; (split; [reflexivity | cbn [app]; apply Permutation_app_comm]).
  - cbn [upd]. rewrite !ncoll_cons. unfold ccollected; cbn [flat_map].
    fold (ccollected ps). fold (ccollected (upd i (cset_st CColl) ps)).
    destruct (IH i H H1) as [-> HP]. split; [lia|]. rewrite <- app_assoc.
    apply Permutation_app_head. exact HP.
Qed.

(* the fatal closer's goroutine *)
Lemma fatal_state_upd (f : cproc -> cproc) i ps p :
  (forall q, c_cl (f q) = c_cl q) -> nth_error ps i = Some p ->
  decidedb (Some (c_st (f p))) = decidedb (Some (c_st p)) ->
  decidedb (fatal_state (upd i f ps)) = decidedb (fatal_state ps).
Proof.
  intros Hf. revert i; induction ps as [|q ps IH]; intros [|i] H Hd; cbn in H; try discriminate.
  - inversion H; subst. cbn [upd fatal_state]. rewrite Hf. destruct (is_fatal (c_cl p)); auto.
  - cbn [upd fatal_state]. destruct (is_fatal (c_cl q)); auto.
Qed.

Lemma fatal_state_upd_user (f : cproc -> cproc) i ps p :
  (forall q, c_cl (f q) = c_cl q) -> nth_error ps i = Some p -> is_fatal (c_cl p) = false ->
  fatal_state (upd i f ps) = fatal_state ps.
Proof.
  intros Hf. revert i; induction ps as [|q ps IH]; intros [|i] H Hd; cbn in H; try discriminate.
  - inversion H; subst. cbn [upd fatal_state]. rewrite Hf, Hd. reflexivity.
  - cbn [upd fatal_state]. destruct (is_fatal (c_cl q)); auto.
Qed.

Lemma find_fatal_running_spec ps : forall k j,
  find_fatal_running ps k = Some j ->
  exists i p, j = k + i /\ nth_error ps i = Some p /\ c_st p = CRunning /\
              fatal_state ps = Some CRunning /\
              fatal_state (upd i (cset_st CRet) ps) = Some CRet.
Proof.
  induction ps as [|q ps IH]; intros k j H; cbn in H; try discriminate.
  destruct (is_fatal (c_cl q)) eqn:Ef.
  - destruct (c_st q) eqn:Es; try discriminate. inversion H; subst.
    exists 0, q. cbn [upd fatal_state nth_error cset_st c_cl c_st]. rewrite Ef, Es.
    repeat split; auto.
  - destruct (IH _ _ H) as [i [p [-> [Hn [Hs [Hf Hu]]]]]].
    exists (S i), p. cbn [upd fatal_state nth_error]. rewrite Ef. repeat split; auto. lia.
Qed.

Lemma fatal_state_none ps :
  (forall p, In p ps -> is_fatal (c_cl p) = false) -> fatal_state ps = None.
Proof.
  induction ps as [|q ps IH]; intro H; [reflexivity|]. cbn. rewrite (H q (or_introl eq_refl)).
  apply IH. intros p Hp. apply H. right; auto.
Qed.

(* ------------------------------------------------------------------------------------------ *)
(* facts about the inner manager used below *)

Ltac crunch H :=
  repeat match type of H with
         | context [match nth_error ?l ?i with _ => _ end] =>
             let E := fresh "E" in destruct (nth_error l i) eqn:E; try discriminate
         | context [match p_st ?p with _ => _ end] => destruct (p_st p); try discriminate
         | context [if ?b then _ else _] => destruct b; try discriminate
         end.

(* the inner manager's events that RunnerCloserManager lets happen *)
Definition lifted (ev : revt) : bool :=
  inner_allowed ev || match ev with RCloseCh | RAddCheck _ | RAddAppend _ => true | _ => false end.

Lemma step_r_returned v x ev y e :
  r_pc x = RReturned e -> lifted ev = true ->
  step_r v x ev = Some y -> r_pc y = RReturned e.
Proof.
  intros Hpc Hal H. destruct ev; cbn in Hal; try discriminate;
    cbn [step_r] in H; rewrite ?Hpc in H; try discriminate; crunch H;
    repeat match type of H with
           | context [match ?x with _ => _ end] => destruct x; try discriminate
           end; inv H; cbn; congruence.
Qed.

Lemma step_r_keeps_running v x ev y :
  step_r v x ev = Some y -> r_running x = true -> r_running y = true.
Proof.
  intros H Hr. destruct ev; cbn [step_r] in H; rewrite ?Hr in H; crunch H;
    repeat match type of H with
           | context [match ?x with _ => _ end] => destruct x; try discriminate
           end; inv H; cbn; auto.
Qed.

Lemma step_r_idle v bs x ev y :
  rinv v bs x -> r_pc x = RIdle -> r_running x = false ->
  lifted ev = true ->
  step_r v x ev = Some y -> r_pc y = RIdle /\ r_running y = false.
Proof.
  intros I Hpc Hr Hal H. pose proof (i_noprocs _ _ _ I (or_introl Hpc)) as Hnp.
  destruct ev; cbn in Hal; try discriminate;
    cbn [step_r] in H; rewrite ?Hpc, ?Hnp in H; try discriminate; crunch H;
    try (match goal with E : nth_error [] ?i = Some _ |- _ => destruct i; discriminate end);
    repeat match type of H with
           | context [match ?x with _ => _ end] => destruct x; try discriminate
           end; inv H; cbn; auto.
Qed.

(* ------------------------------------------------------------------------------------------ *)
(* the invariant *)

Definition closing_pc (pc : cpc) : Prop :=
  match pc with CCollect _ _ _ | CDone _ => True | _ => False end.
Definition done_pc (pc : cpc) : Prop := match pc with CDone _ => True | _ => False end.
(* Run has not yet set the inner manager going *)
Definition pre_setup (pc : cpc) : Prop :=
  match pc with CIdle | CStarted | CDecided _ => True | _ => False end.

(* Run has set the inner manager going *)
Definition post_setup (pc : cpc) : Prop :=
  match pc with CWaitInner | CCollect _ _ _ | CDone _ => True | _ => False end.

Record cinv (v : variant) (grace : option Z) (bs : list beh) (s : cstate) : Prop := mkcinv {
  ci_inner : rinv v bs (inner s);
  ci_run : c_pc s <> CIdle -> c_running s = true;
  ci_notrun : c_running s = false -> c_pc s = CIdle /\ c_stopped s = false;
  ci_early : ~ closing_pc (c_pc s) -> c_procs s = [] /\ c_closing s = false;
  ci_closing : closing_pc (c_pc s) -> c_closing s = true;
  ci_inner_idle : pre_setup (c_pc s) ->
                  r_pc (inner s) = RIdle /\ r_running (inner s) = false;
  ci_stopped : c_stopped s = true -> c_pc s = CIdle \/ done_pc (c_pc s);
  ci_done_stopped : forall e, c_pc s = CDone e -> c_stopped s = true /\ reterr s = e;
  ci_reterr : ~ done_pc (c_pc s) -> reterr s = [];
  ci_closers : exists tl, closers s = map c_cl (c_procs s) ++ tl /\
                          (v = Fixed -> c_closing s = true -> tl = []);
  ci_coll : forall n i errs, c_pc s = CCollect n i errs ->
            n = length (c_procs s) /\ i = S (ncoll (c_procs s)) /\
            exists rerrs, r_pc (inner s) = RReturned rerrs /\
                          Permutation errs (rerrs ++ ccollected (c_procs s));
  ci_done : forall errs, c_pc s = CDone errs ->
            c_all CColl (c_procs s) /\
            exists rerrs, r_pc (inner s) = RReturned rerrs /\
                          Permutation errs (rerrs ++ ccollected (c_procs s));
  ci_starts : forall p, In p (c_procs s) ->
              c_starts p = match c_st p with CSpawned => 0 | _ => 1 end;
  ci_kret : forall c e, nth_error (closes s) c = Some (KRet e) ->
            c_stopped s = true /\ e = reterr s;
  ci_acc : forall a idx, nth_error (addcl s) a = Some (ACAccepted idx) -> idx < length (closers s);
  ci_j1 : fired_early s = true -> timer_fired s = true;
  ci_j2 : timer_fired s = true -> fch_closed s = false -> fired_early s = true;
  ci_j3 : decidedb (fatal_state (c_procs s)) = false -> fatal_count s = 0 /\ tie s = false;
  ci_j4 : decidedb (fatal_state (c_procs s)) = true ->
          fatal_count s <= 1 /\ (fatal_count s = 1 -> timer_fired s = true) /\
          (tie s = false -> (fatal_count s = 1 <-> fired_early s = true));
  ci_nograce : forall c, In c (closers s) ->
               match c with Fatal d => grace = Some d | User _ => True end;
  ci_elapsed : (0 <= elapsed s)%Z;
  ci_after : post_setup (c_pc s) -> r_running (inner s) = true;
  ci_fatal0 : forall i c, nth_error (closers s) i = Some c -> is_fatal c = true -> i = 0;
  ci_kb : forall c, nth_error (closes s) c = Some KB -> c_running s = true;
  ci_idle_stopped : c_pc s = CIdle -> c_running s = true -> c_stopped s = true
}.

Lemma cinv_init v grace bs cls : cinv v grace bs (new_cm grace bs cls).
Proof.
  constructor; cbn; auto; try tauto; try discriminate.
  - apply rinv_init.
  - eexists. split; [reflexivity|]. discriminate.
  - intros c e H. destruct c; discriminate.
  - intros a idx H. destruct a; discriminate.
  - intros c H. apply in_app_or in H. destruct H as [H|H].
    + destruct grace; [destruct H as [<-|[]]; reflexivity | destruct H].
    + apply in_map_iff in H. destruct H as [r [<- _]]. exact Logic.I.
  - intros i c Hn Hf. destruct grace as [d|]; cbn [app] in Hn.
    + destruct i; [reflexivity|]. cbn in Hn. apply nth_error_In in Hn.
      apply in_map_iff in Hn. destruct Hn as [r [<- _]]. discriminate.
    + apply nth_error_In in Hn. apply in_map_iff in Hn. destruct Hn as [r [<- _]]. discriminate.
  - intros c H. destruct c; discriminate.
Qed.

Ltac cfin :=
  cbn [inner c_running c_closing c_stopped closers c_pc c_procs fch_closed timer_fired fired_early
       fatal_count tie reterr addcl closes run_rejected cadds elapsed w_inner w_pc w_procs w_addcl
       w_closes w_cadds w_elapsed closing_pc done_pc pre_setup post_setup];
  try assumption; try discriminate; try (intros; discriminate); auto;
  try (let Hx := fresh in intros Hx; exfalso; exact Hx);
  try (let Hx := fresh in intros Hx; exfalso; apply Hx; exact I);
  try (let Hq := fresh in
       intro Hq; match goal with Hr : _ = _ |- _ => rewrite Hr in Hq; discriminate Hq end);
  try (intros [?|?]; discriminate).

Lemma nth_error_snoc {A} (l : list A) x c y :
  nth_error (l ++ [x]) c = Some y -> nth_error l c = Some y \/ y = x.
Proof.
  intro H. destruct (Nat.lt_ge_cases c (length l)) as [Hlt|Hge].
  - rewrite nth_error_app1 in H by auto. auto.
  - rewrite nth_error_app2 in H by auto. destruct (c - length l) as [|k]; cbn in H.
    + inversion H; auto.
    + destruct k; discriminate.
Qed.

Lemma fatal_state_fresh cs : decidedb (fatal_state (map (fun c => mkc c CSpawned 0) cs)) = false.
Proof. induction cs as [|c cs IH]; cbn; auto. destruct (is_fatal c); auto. Qed.

Lemma setup_inner v bs (w : bool) i0 s1 y :
  rinv v bs i0 ->
  (if w : bool
   then match step_r v i0 (RAddCheck CloseRunner) with
        | Some x => step_r v x (RAddAppend (length (r_adds i0)))
        | None => None
        end
   else Some i0) = Some s1 ->
  step_r v s1 RRunCas = Some y -> rinv v bs y.
Proof.
  intros I H1 H2.
  assert (I1 : rinv v bs s1).
  { destruct w; [|inv H1; auto].
    destruct (step_r v i0 (RAddCheck CloseRunner)) as [x|] eqn:Ex; try discriminate.
    eapply rinv_step; [eapply rinv_step; [exact I | exact Ex] | exact H1]. }
  eapply rinv_step; eauto.
Qed.

Lemma watcher_inner v bs (w : bool) (b0 : beh) i0 x :
  rinv v bs i0 -> r_pc i0 = RIdle -> r_running i0 = false ->
  (if w
   then match step_r v i0 (RAddCheck b0) with
        | Some x1 => step_r v x1 (RAddAppend (length (r_adds i0)))
        | None => None
        end
   else Some i0) = Some x ->
  rinv v bs x /\ r_pc x = RIdle /\ r_running x = false.
Proof.
  intros I Hpc Hr H. destruct w; [|inv H; auto].
  destruct (step_r v i0 (RAddCheck b0)) as [x1|] eqn:E1; try discriminate.
  assert (I1 : rinv v bs x1) by (eapply rinv_step; eauto).
  destruct (step_r_idle v bs i0 (RAddCheck b0) x1 I Hpc Hr eq_refl E1) as [Hpc1 Hr1].
  assert (I2 : rinv v bs x) by (eapply rinv_step; eauto).
  destruct (step_r_idle v bs x1 (RAddAppend (length (r_adds i0))) x I1 Hpc1 Hr1 eq_refl H) as [Hpc2 Hr2].
  auto.
Qed.

Lemma cinv_step v grace bs s e s' : cinv v grace bs s -> step_c v s e = Some s' -> cinv v grace bs s'.
Proof.
  intros I H.
  destruct I as [Iin Irun Inot Iearly Iclosing Iidle Istop Idone Ireterr Iclosers Icoll Idn Istarts
                 Ikret Iacc J1 J2 J3 J4 Ing Iel Iaft If0 Ikb Iis].
  destruct e; cbn [step_c step_c_gen step_c_gen] in H.
  - (* CRunCas *)
    destruct (c_running s) eqn:Er; inv H.
    + constructor; cfin.
    + destruct (Inot eq_refl) as [Hpc Hst]. constructor; cfin.
      * intros _. apply Iearly. rewrite Hpc. cbn. tauto.
      * intros _. apply Iidle. rewrite Hpc. exact Logic.I.
      * intros _. apply Ireterr. rewrite Hpc. cbn. tauto.
  - (* CSetupLen *)
    destruct (c_pc s) eqn:Epc; try discriminate.
    assert (Hrun : c_running s = true) by (apply Irun; discriminate).
    destruct (Iidle Logic.I) as [Hipc Hirun].
    destruct (is_fixed v).
    + match type of H with match ?m with _ => _ end = _ => destruct m as [x|] eqn:Ex; try discriminate end.
      inv H. destruct (watcher_inner _ _ _ _ _ _ Iin Hipc Hirun Ex) as [Ix [Hxpc Hxr]].
      constructor; cfin.
      intro Hs; destruct (Istop Hs) as [Hx|Hx]; [discriminate Hx | cbn in Hx; tauto].
    + inv H. constructor; cfin.
      intro Hs; destruct (Istop Hs) as [Hx|Hx]; [discriminate Hx | cbn in Hx; tauto].
  - (* CSetup *)
    destruct (c_pc s) eqn:Epc; try discriminate.
    assert (Hrun : c_running s = true) by (apply Irun; discriminate).
    match type of H with match ?m with _ => _ end = _ => destruct m as [x|] eqn:Ex; try discriminate end.
    destruct (step_r v x RRunCas) as [y|] eqn:Ey; inv H.
    constructor; cfin.
    + eapply setup_inner; eauto.
    + intro Hs; destruct (Istop Hs) as [Hx|Hx]; [discriminate Hx | cbn in Hx; tauto].
    + intros _. cbn [step_r] in Ey. destruct (r_running x); inv Ey; reflexivity.
  - (* CInner *)
    destruct (inner_allowed e) eqn:Eal; try discriminate.
    destruct (step_r v (inner s) e) as [x|] eqn:Ex; inv H.
    constructor; cfin.
    + eapply rinv_step; eauto.
    + intro Hpc. destruct (Iidle Hpc). eapply step_r_idle with (ev := e); eauto.
      unfold lifted; rewrite Eal; reflexivity.
    + intros n i errs Hpc. destruct (Icoll n i errs Hpc) as [? [? [rerrs [Hr HP]]]].
      repeat split; auto. exists rerrs. split; auto. eapply step_r_returned with (ev := e); eauto.
      unfold lifted; rewrite Eal; reflexivity.
    + intros errs Hpc. destruct (Idn errs Hpc) as [? [rerrs [Hr HP]]].
      split; auto. exists rerrs. split; auto. eapply step_r_returned with (ev := e); eauto.
      unfold lifted; rewrite Eal; reflexivity.
    + intro Hp. eapply step_r_keeps_running; eauto.
  - (* CClosing *)
    destruct (c_pc s) eqn:Epc; try discriminate.
    destruct (r_pc (inner s)) as [| | |rerrs] eqn:Eipc; try discriminate. inv H.
    assert (Hrun : c_running s = true) by (apply Irun; discriminate).
    destruct (Iearly ltac:(cbn; tauto)) as [Hnp Hncl].
    constructor; cfin.
    + intro Hs; destruct (Istop Hs) as [Hx|Hx]; [discriminate Hx | cbn in Hx; tauto].
    + exists []. rewrite map_map. cbn. rewrite map_id, app_nil_r. auto.
    + intros n i errs Hpc. inv Hpc. rewrite map_length, ncoll_fresh.
      repeat split; auto. exists errs. split; auto. rewrite ccollected_fresh, app_nil_r. auto.
    + intros p Hp. apply in_map_iff in Hp. destruct Hp as [c [<- _]]. reflexivity.
    + intros _. apply J3. rewrite Hnp. reflexivity.
    + rewrite fatal_state_fresh. discriminate.
  - (* CCloserStart *)
    destruct (nth_error (c_procs s) j) as [p|] eqn:Ep; try discriminate.
    destruct (c_st p) eqn:Est; try discriminate. inv H.
    assert (Hf : forall q, c_cl (cstart q) = c_cl q) by reflexivity.
    assert (Hnc : ncoll (upd j cstart (c_procs s)) = ncoll (c_procs s) /\
                  ccollected (upd j cstart (c_procs s)) = ccollected (c_procs s)).
    { eapply upd_nochange; eauto; cbn; congruence. }
    destruct Hnc as [Hn1 Hn2].
    assert (Hfs : decidedb (fatal_state (upd j cstart (c_procs s))) = decidedb (fatal_state (c_procs s))).
    { eapply fatal_state_upd; eauto. cbn. rewrite Est. reflexivity. }
    constructor; cfin; rewrite ?Hfs, ?Hn1, ?Hn2, ?upd_length, ?map_cl_upd by auto; auto.
    + intro Hn. destruct (Iearly Hn) as [Hnp _]. rewrite Hnp in Ep. destruct j; discriminate.
    + intros errs Hpc. destruct (Idn errs Hpc) as [Ha _].
      specialize (Ha p (nth_error_In _ _ Ep)). congruence.
    + intros q Hq. apply in_upd in Hq. destruct Hq as [Hq|[p' [E ->]]]; [auto|].
      rewrite Ep in E; inv E. cbn. rewrite (Istarts p' (nth_error_In _ _ Ep)), Est. reflexivity.
    + destruct (is_fatal (c_cl p)); lia.
  - (* CCloserReturn *)
    destruct (nth_error (c_procs s) j) as [p|] eqn:Ep; try discriminate.
    destruct (c_st p) eqn:Est; try discriminate.
    destruct (c_cl p) as [|r] eqn:Ecl; try discriminate. inv H.
    assert (Hf : forall q, c_cl (cset_st CRet q) = c_cl q) by reflexivity.
    assert (Hnc : ncoll (upd j (cset_st CRet) (c_procs s)) = ncoll (c_procs s) /\
                  ccollected (upd j (cset_st CRet) (c_procs s)) = ccollected (c_procs s)).
    { eapply upd_nochange; eauto; cbn; congruence. }
    destruct Hnc as [Hn1 Hn2].
    assert (Hfs : fatal_state (upd j (cset_st CRet) (c_procs s)) = fatal_state (c_procs s)).
    { eapply fatal_state_upd_user; eauto. rewrite Ecl. reflexivity. }
    constructor; cfin; rewrite ?Hfs, ?Hn1, ?Hn2, ?upd_length, ?map_cl_upd by auto; auto.
    + intro Hn. destruct (Iearly Hn) as [Hnp _]. rewrite Hnp in Ep. destruct j; discriminate.
    + intros errs Hpc. destruct (Idn errs Hpc) as [Ha _].
      specialize (Ha p (nth_error_In _ _ Ep)). congruence.
    + intros q Hq. apply in_upd in Hq. destruct Hq as [Hq|[p' [E ->]]]; [auto|].
      rewrite Ep in E; inv E. cbn. rewrite (Istarts p' (nth_error_In _ _ Ep)), Est. reflexivity.
  - (* CAdvance *)
    destruct (0 <=? d)%Z eqn:Ed; inv H. apply Z.leb_le in Ed.
    constructor; cfin. lia.
  - (* CFire *)
    destruct (find_fatal_running (c_procs s) 0) as [j|] eqn:Ef; try discriminate.
    destruct (timer_fired s) eqn:Etf; [discriminate|].
    destruct (grace_elapsed s); inv H.
    destruct (find_fatal_running_spec _ _ _ Ef) as [i [p [_ [Ep [Est [Hfs _]]]]]].
    constructor; cfin.
    intros _ ->. reflexivity.
  - (* CFatal *)
    destruct (find_fatal_running (c_procs s) 0) as [j|] eqn:Ef; try discriminate.
    destruct (timer_fired s) eqn:Etf; inv H.
    destruct (find_fatal_running_spec _ _ _ Ef) as [i [p [Ej [Ep [Est [Hfs Hfs']]]]]].
    cbn in Ej. subst j.
    assert (Hf : forall q, c_cl (cset_st CRet q) = c_cl q) by reflexivity.
    assert (Hnc : ncoll (upd i (cset_st CRet) (c_procs s)) = ncoll (c_procs s) /\
                  ccollected (upd i (cset_st CRet) (c_procs s)) = ccollected (c_procs s)).
    { eapply upd_nochange; eauto; cbn; congruence. }
    destruct Hnc as [Hn1 Hn2].
    destruct (J3 ltac:(rewrite Hfs; reflexivity)) as [Hfc Htie].
    constructor; cfin; rewrite ?Hfs', ?Hn1, ?Hn2, ?upd_length, ?map_cl_upd by auto; auto.
    + intro Hn. destruct (Iearly Hn) as [Hnp _]. rewrite Hnp in Ep. destruct i; discriminate.
    + intros errs Hpc. destruct (Idn errs Hpc) as [Ha _].
      specialize (Ha p (nth_error_In _ _ Ep)). congruence.
    + intros q Hq. apply in_upd in Hq. destruct Hq as [Hq|[p' [E ->]]]; [auto|].
      rewrite Ep in E; inv E. cbn. rewrite (Istarts p' (nth_error_In _ _ Ep)), Est. reflexivity.
    + intros _. rewrite Hfc, Htie. cbn [orb]. split; [lia|]. split; [auto|].
      intro Hfch. split; [|reflexivity]. intros _. apply J2; auto.
  - (* CFatalQuit *)
    destruct (find_fatal_running (c_procs s) 0) as [j|] eqn:Ef; try discriminate.
    destruct (fch_closed s) eqn:Efch; inv H.
    destruct (find_fatal_running_spec _ _ _ Ef) as [i [p [Ej [Ep [Est [Hfs Hfs']]]]]].
    cbn in Ej. subst j.
    assert (Hf : forall q, c_cl (cset_st CRet q) = c_cl q) by reflexivity.
    assert (Hnc : ncoll (upd i (cset_st CRet) (c_procs s)) = ncoll (c_procs s) /\
                  ccollected (upd i (cset_st CRet) (c_procs s)) = ccollected (c_procs s)).
    { eapply upd_nochange; eauto; cbn; congruence. }
    destruct Hnc as [Hn1 Hn2].
    destruct (J3 ltac:(rewrite Hfs; reflexivity)) as [Hfc Htie].
    constructor; cfin; rewrite ?Hfs', ?Hn1, ?Hn2, ?upd_length, ?map_cl_upd by auto; auto.
    + intro Hn. destruct (Iearly Hn) as [Hnp _]. rewrite Hnp in Ep. destruct i; discriminate.
    + intros errs Hpc. destruct (Idn errs Hpc) as [Ha _].
      specialize (Ha p (nth_error_In _ _ Ep)). congruence.
    + intros q Hq. apply in_upd in Hq. destruct Hq as [Hq|[p' [E ->]]]; [auto|].
      rewrite Ep in E; inv E. cbn. rewrite (Istarts p' (nth_error_In _ _ Ep)), Est. reflexivity.
    + intros _. rewrite Hfc, Htie. cbn [orb]. split; [lia|]. split; [intro; lia|].
      intro Htf. split; [intro; lia|]. intro Hfe. apply J1 in Hfe. congruence.
  - (* CCloseFatalCh *)
    destruct (c_pc s) as [| | | |n i errs|] eqn:Epc; try discriminate.
    destruct ((i =? n)%nat && negb (fch_closed s)); inv H.
    assert (Hrun : c_running s = true) by (apply Irun; discriminate).
    constructor; cfin.
  - (* CCollectCloser *)
    destruct (c_pc s) as [| | | |n i errs|] eqn:Epc; try discriminate.
    destruct (nth_error (c_procs s) j) as [p|] eqn:Ep; try discriminate.
    destruct (c_st p) eqn:Est; try discriminate.
    destruct ((i <=? n)%nat && (negb (i =? n)%nat || fch_closed s)); inv H.
    assert (Hrun : c_running s = true) by (apply Irun; discriminate).
    assert (Hf : forall q, c_cl (cset_st CColl q) = c_cl q) by reflexivity.
    assert (Hnc : ncoll (upd j (cset_st CColl) (c_procs s)) = S (ncoll (c_procs s)) /\
                  Permutation (ccollected (upd j (cset_st CColl) (c_procs s)))
                              (ccollected (c_procs s) ++ olist (cl_result (c_cl p)))).
    { eapply upd_coll; eauto; congruence. }
    destruct Hnc as [Hn1 Hn2].
    assert (Hfs : decidedb (fatal_state (upd j (cset_st CColl) (c_procs s))) = decidedb (fatal_state (c_procs s))).
    { eapply fatal_state_upd; eauto. cbn. rewrite Est. reflexivity. }
    destruct (Icoll n i errs eq_refl) as [Hn [Hi [rerrs [Hr HP]]]].
    constructor; cfin; rewrite ?Hfs, ?upd_length, ?map_cl_upd by auto; auto.
    + intro Hs; destruct (Istop Hs) as [Hx|Hx]; [discriminate Hx | cbn in Hx; tauto].
    + intros n0 i0 errs0 Hpc. inv Hpc. rewrite Hn1. repeat split; auto.
      exists rerrs. split; auto.
      eapply Permutation_trans; [apply Permutation_app_tail; exact HP|].
      rewrite <- app_assoc. apply Permutation_app_head. apply Permutation_sym. exact Hn2.
    + intros q Hq. apply in_upd in Hq. destruct Hq as [Hq|[p' [E ->]]]; [auto|].
      rewrite Ep in E; inv E. cbn. rewrite (Istarts p' (nth_error_In _ _ Ep)), Est. reflexivity.
  - (* CRunReturn *)
    destruct (c_pc s) as [| | | |n i errs|] eqn:Epc; try discriminate.
    destruct (i <=? n)%nat eqn:Ein; inv H.
    assert (Hrun : c_running s = true) by (apply Irun; discriminate).
    destruct (Icoll n i errs eq_refl) as [Hn [Hi [rerrs [Hr HP]]]].
    apply Nat.leb_gt in Ein.
    constructor; cfin.
    + intros e Hpc. inv Hpc. auto.
    + intros e Hpc. inv Hpc. split; [apply ncoll_all; lia|]. exists rerrs. auto.
    + intros c e Hc. destruct (Ikret c e Hc) as [Hs _].
      destruct (Istop Hs) as [Hx|Hx]; [discriminate Hx | cbn in Hx; tauto].
  - (* CCloseBegin *)
    destruct (step_r v (inner s) RCloseCh) as [x|] eqn:Ex; inv H.
    constructor; cfin.
    + eapply rinv_step; eauto.
    + intro Hpc. destruct (Iidle Hpc). eapply step_r_idle with (ev := RCloseCh); eauto.
    + intros n i errs Hpc. destruct (Icoll n i errs Hpc) as [? [? [rerrs [Hr HP]]]].
      repeat split; auto. exists rerrs. split; auto.
      eapply step_r_returned with (ev := RCloseCh); eauto.
    + intros errs Hpc. destruct (Idn errs Hpc) as [? [rerrs [Hr HP]]].
      split; auto. exists rerrs. split; auto.
      eapply step_r_returned with (ev := RCloseCh); eauto.
    + intros c e Hc. apply nth_error_snoc in Hc. destruct Hc as [Hc|Hc]; [eauto | discriminate].
    + intro Hp. eapply step_r_keeps_running; eauto.
    + intros c Hc. apply nth_error_snoc in Hc. destruct Hc as [Hc|Hc]; [eauto | discriminate].
  - (* CCloseStep *)
    destruct (nth_error (closes s) c) as [[| |e0]|] eqn:Ec; try discriminate.
    + inv H. constructor; cfin.
      * destruct (c_running s) eqn:Er; auto. intros _. left. apply (Inot eq_refl).
      * intros e Hpc. rewrite (Irun ltac:(rewrite Hpc; discriminate)). auto.
      * intros c0 e Hc. destruct (Nat.eq_dec c c0) as [<-|Hne].
        { rewrite (nth_error_upd_same _ _ _ _ Ec) in Hc. discriminate. }
        rewrite nth_error_upd_other in Hc by auto. destruct (Ikret c0 e Hc) as [Hs He].
        split; auto. destruct (c_running s) eqn:Er; auto.
      * intros Hpc _. destruct (c_running s) eqn:Er; auto.
    + assert (Es : c_stopped s = true) by (destruct (c_stopped s); [reflexivity|discriminate]).
      rewrite Es in H. inv H. constructor; cfin.
      * intros c0 e Hc. destruct (Nat.eq_dec c c0) as [<-|Hne].
        { rewrite (nth_error_upd_same _ _ _ _ Ec) in Hc. inv Hc. auto. }
        rewrite nth_error_upd_other in Hc by auto. eauto.
      * intros c0 Hc. destruct (Nat.eq_dec c c0) as [<-|Hne].
        { rewrite (nth_error_upd_same _ _ _ _ Ec) in Hc. discriminate. }
        rewrite nth_error_upd_other in Hc by auto. eauto.
  - (* CAddCloserCheck *)
    inv H. constructor; cfin.
    intros a idx Ha. apply nth_error_snoc in Ha. destruct Ha as [Ha|Ha]; [eauto|].
    destruct (c_closing s); discriminate.
  - (* CAddCloserAppend *)
    destruct (nth_error (addcl s) a) as [[r|idx0|]|] eqn:Ea; try discriminate.
    destruct (lock_held s) eqn:El; try discriminate.
    destruct (is_fixed v && c_closing s) eqn:Efc; inv H.
    + constructor; cfin.
      intros a0 idx Ha. destruct (Nat.eq_dec a a0) as [<-|Hne].
      { rewrite (nth_error_upd_same _ _ _ _ Ea) in Ha. discriminate. }
      rewrite nth_error_upd_other in Ha by auto. eauto.
    + constructor; cfin.
      * destruct Iclosers as [tl [E Hf]]. exists (tl ++ [User r]). split.
        { rewrite E, app_assoc. reflexivity. }
        { intros -> Hc. rewrite Hc in Efc. discriminate. }
      * intros a0 idx Ha. rewrite app_length. cbn [length]. destruct (Nat.eq_dec a a0) as [<-|Hne].
        { rewrite (nth_error_upd_same _ _ _ _ Ea) in Ha. inv Ha. lia. }
        rewrite nth_error_upd_other in Ha by auto. apply Iacc in Ha. lia.
      * intros c Hc. apply in_app_or in Hc. destruct Hc as [Hc|[<-|[]]]; [apply Ing; exact Hc | exact Logic.I].
      * intros i c Hn Hfa. apply nth_error_snoc in Hn. destruct Hn as [Hn| ->]; [eauto | discriminate].
  - (* CAddCheck *)
    destruct (c_running s) eqn:Er.
    + inv H. constructor; cfin.
    + destruct (is_fixed v).
      * inv H. constructor; cfin; try (rewrite Er; assumption).
      * destruct (step_r v (inner s) (RAddCheck b)) as [x|] eqn:Ex; inv H.
        constructor; cfin; try (rewrite Er; assumption).
        { eapply rinv_step; eauto. }
        { intro Hpc. destruct (Iidle Hpc). eapply step_r_idle with (ev := RAddCheck b); eauto. }
        { intros n i errs Hpc. destruct (Icoll n i errs Hpc) as [? [? [rerrs [Hr HP]]]].
          repeat split; auto. exists rerrs. split; auto.
          eapply step_r_returned with (ev := RAddCheck b); eauto. }
        { intros errs Hpc. destruct (Idn errs Hpc) as [? [rerrs [Hr HP]]].
          split; auto. exists rerrs. split; auto.
          eapply step_r_returned with (ev := RAddCheck b); eauto. }
        { intro Hp. eapply step_r_keeps_running; eauto. }
  - (* CAddAppend *)
    destruct (nth_error (cadds s) k) as [[|a|b]|] eqn:Ek; try discriminate.
    + destruct (lock_held s || is_fixed v) eqn:El; try discriminate.
      destruct (step_r v (inner s) (RAddAppend a)) as [x|] eqn:Ex; inv H.
      constructor; cfin.
      * eapply rinv_step; eauto.
      * intro Hpc. destruct (Iidle Hpc). eapply step_r_idle with (ev := RAddAppend a); eauto.
      * intros n i errs Hpc. destruct (Icoll n i errs Hpc) as [? [? [rerrs [Hr HP]]]].
        repeat split; auto. exists rerrs. split; auto.
        eapply step_r_returned with (ev := RAddAppend a); eauto.
      * intros errs Hpc. destruct (Idn errs Hpc) as [? [rerrs [Hr HP]]].
        split; auto. exists rerrs. split; auto.
        eapply step_r_returned with (ev := RAddAppend a); eauto.
      * intro Hp. eapply step_r_keeps_running; eauto.
    + destruct (lock_held s || negb (is_fixed v)) eqn:El; try discriminate.
      destruct (c_running s) eqn:Er.
      * inv H. constructor; cfin.
      * destruct (Inot eq_refl) as [Hpc Hst].
        destruct (Iidle ltac:(rewrite Hpc; exact Logic.I)) as [Hipc Hirun].
        assert (Hw : (if true
                      then match step_r v (inner s) (RAddCheck b) with
                           | Some x1 => step_r v x1 (RAddAppend (length (r_adds (inner s))))
                           | None => None
                           end
                      else Some (inner s)) =
                     match step_r v (inner s) (RAddCheck b) with
                     | Some x1 => step_r v x1 (RAddAppend (length (r_adds (inner s))))
                     | None => None
                     end) by reflexivity.
        destruct (step_r v (inner s) (RAddCheck b)) as [x|] eqn:E1; try discriminate.
        destruct (step_r v x (RAddAppend (length (r_adds (inner s))))) as [y|] eqn:E2; inv H.
        destruct (watcher_inner v bs true b (inner s) y Iin Hipc Hirun) as [Iy [Hypc Hyr]].
        { rewrite E1. exact E2. }
        constructor; cfin.
        { intros n i errs Hc. rewrite Hpc in Hc. discriminate. }
        { intros errs Hc. rewrite Hpc in Hc. discriminate. }
        { rewrite Hpc. intros []. }
        { rewrite Er. assumption. }
        { rewrite Er. assumption. }
Qed.

Lemma cinv_run v grace bs es : forall s s',
  cinv v grace bs s -> run_c v s es = Some s' -> cinv v grace bs s'.
Proof.
  induction es as [|e es IH]; intros s s' I H; cbn in H.
  - inv H; auto.
  - destruct (step_c v s e) as [s1|] eqn:E; try discriminate.
    eapply IH; [eapply cinv_step; eauto | eauto].
Qed.

Lemma cinv_reach v grace bs cls es s :
  run_c v (new_cm grace bs cls) es = Some s -> cinv v grace bs s.
Proof. apply cinv_run, cinv_init. Qed.
