(* C12 — executable correspondence interface.  The Go harness prints [case] terms holding the
   configuration, the script it drove (one action after the other, each followed by a wait for
   the observable the action must produce) AND the trace of stamped observations of the
   implementation.  [check_case] evaluates the spec oracle on the trace (verdict 2) and compares
   the outcome with the model run on the same script (verdict 1). *)
From Kit Require Export C12.Model C12.Spec Lib.CheckLib.

Inductive act :=
| SRun                          (* call Run in a new goroutine *)
| SReturnRunner (i : nat)       (* tell the [Free] runner i to return its result *)
| SParentCancel (e : err)       (* the context given to Run ends, reporting e (0 Canceled, -3 DeadlineExceeded) *)
| SClose                        (* call Close in a new goroutine *)
| SAddCloser (r : option err)   (* AddCloser of a closer that will return r *)
| SReturnCloser (j : nat)       (* tell user closer j to return its result *)
| SAdvance (d : Z)              (* advance the clock by d >= 0 nanoseconds *)
| SAdd (b : beh).               (* Add a runner (RunnerManager.Add / RunnerCloserManager.Add) *)

(* ------------------------------------------------------------------------------------------ *)
(* closer manager: apply an action, then let everything that can happen on its own happen      *)

Definition try_c (v : variant) (s : cstate) (e : cev) : cstate :=
  match step_c v s e with Some s' => s' | None => s end.

Definition auto_beh (b : beh) : bool := match b with Free _ => false | _ => true end.

Definition auto_returns (ps : list rproc) : list nat :=
  flat_map (fun i => match nth_error ps i with
                     | Some p => if auto_beh (p_beh p) then [i] else []
                     | None => []
                     end) (seq 0 (length ps)).

Definition candidates (s : cstate) : list cev :=
  let np := seq 0 (length (r_procs (inner s))) in
  let nc := seq 0 (length (c_procs s)) in
  [CSetupLen; CSetup; CInner RSpawn] ++
  map (fun i => CInner (RRunnerReturn i)) (auto_returns (r_procs (inner s))) ++
  map (fun i => CInner (RCollect i)) np ++
  [CInner RRunReturn; CClosing] ++ map CCloserStart nc ++
  [CFatal; CCloseFatalCh; CFatalQuit] ++ map CCollectCloser nc ++ [CRunReturn] ++
  map CCloseStep (seq 0 (length (closes s))) ++
  map CAddCloserAppend (seq 0 (length (addcl s))) ++
  map CAddAppend (seq 0 (length (cadds s))).

(* nothing that happens on its own can happen *)
Definition quietb_c (v : variant) (s : cstate) : bool :=
  forallb (fun e => match step_c v s e with None => true | Some _ => false end) (candidates s).

(* TERMINATION MEASURES (Proofs_live.v: every step that happens on its own strictly decreases
   them).  They are the fuel of [settle]. *)
Definition is_running (p : rproc) : bool := match p_st p with Running => true | _ => false end.
Definition is_sending (p : rproc) : bool := match p_st p with Sending => true | _ => false end.
Definition nrunning (ps : list rproc) : nat := length (filter is_running ps).
Definition nsending (ps : list rproc) : nat := length (filter is_sending ps).
Definition npending (l : list addst) : nat :=
  length (filter (fun a => match a with AChecked _ => true | _ => false end) l).

(* the part of the bound that belongs to Run: goroutine creation, 2 per running runner (return,
   collection), 1 per ready result, Run's return *)
Definition run_measure (s : rstate) : nat :=
  match r_pc s with
  | RIdle => 0
  | RStarted => 2 + 3 * length (r_runners s)
  | RCollecting _ _ => 1 + 2 * nrunning (r_procs s) + nsending (r_procs s)
  | RReturned _ => 0
  end.

Definition rm_measure (s : rstate) : nat := 4 * npending (r_adds s) + run_measure s.

Definition wsum {A} (w : A -> nat) (l : list A) : nat := fold_right (fun x n => w x + n) 0 l.

Definition crank (p : cproc) : nat :=
  match c_st p with CSpawned => 3 | CRunning => 2 | CRet => 1 | CColl => 0 end.
Definition krank (k : kst) : nat := match k with KA => 2 | KB => 1 | KRet _ => 0 end.
Definition clpend (a : acst) : nat := match a with ACChecked _ => 1 | _ => 0 end.
Definition capend (a : cadd) : nat := match a with CAPending _ => 1 | _ => 0 end.

(* what shutdown can still do on its own: 3 steps per closer goroutine (start, return / the fatal
   closer's choice, collection), closing closeFatalShutdown, Run's return *)
Definition closer_bound (s : cstate) : nat := 3 * length (closers s) + 2.
Definition shutdown_measure (s : cstate) : nat :=
  wsum crank (c_procs s) + (if fch_closed s then 0 else 1) + 1.

Definition run_part (s : cstate) : nat :=
  match c_pc s with
  | CIdle => 0
  | CStarted => 8 + 3 * length (r_runners (inner s)) + closer_bound s
  | CDecided _ => 4 + 3 * length (r_runners (inner s)) + closer_bound s
  | CWaitInner => run_measure (inner s) + 1 + closer_bound s
  | CCollect _ _ _ => shutdown_measure s
  | CDone _ => 0
  end.

Definition cm_measure (s : cstate) : nat :=
  4 * wsum clpend (addcl s) + 2 * wsum capend (cadds s) + wsum krank (closes s) + run_part s.

(* one round tries every candidate once, in order, on the evolving state; rounds are repeated
   until nothing is enabled.  [S (cm_measure s)] rounds always suffice (C12_settle_quiet). *)
Fixpoint settle (v : variant) (fuel : nat) (s : cstate) : cstate :=
  match fuel with
  | O => s
  | S k => if quietb_c v s then s else settle v k (fold_left (try_c v) (candidates s) s)
  end.

Definition settled (v : variant) (s : cstate) : cstate := settle v (S (cm_measure s)) s.

(* goroutine index of user closer j *)
Definition pidx (grace : option Z) (j : nat) : nat :=
  match grace with Some _ => S j | None => j end.

Definition do_act (v : variant) (grace : option Z) (s : cstate) (a : act) : cstate :=
  settled v
    (match a with
     | SRun => try_c v s CRunCas
     | SReturnRunner i => try_c v s (CInner (RRunnerReturn i))
     | SParentCancel e => try_c v s (CInner (RCtxCancel e))
     | SClose => try_c v (try_c v s CCloseBegin) (CCloseStep (length (closes s)))
     | SAddCloser r => try_c v (try_c v s (CAddCloserCheck r)) (CAddCloserAppend (length (addcl s)))
     | SReturnCloser j => try_c v s (CCloserReturn (pidx grace j))
     | SAdvance d => try_c v (try_c v s (CAdvance d)) CFire
     | SAdd b => try_c v (try_c v s (CAddCheck b)) (CAddAppend (length (cadds s)))
     end).

Definition exec_c (v : variant) (grace : option Z) (bs : list beh) (cls : list (option err))
           (script : list act) : cstate :=
  fold_left (do_act v grace) script (new_cm grace bs cls).

(* ------------------------------------------------------------------------------------------ *)
(* plain manager                                                                               *)

Definition try_r (v : variant) (s : rstate) (e : revt) : rstate :=
  match step_r v s e with Some s' => s' | None => s end.

Definition candidates_r (s : rstate) : list revt :=
  [RSpawn] ++ map RRunnerReturn (auto_returns (r_procs s)) ++
  map RCollect (seq 0 (length (r_procs s))) ++ [RRunReturn] ++
  map RAddAppend (seq 0 (length (r_adds s))).

Definition quietb_r (v : variant) (s : rstate) : bool :=
  forallb (fun e => match step_r v s e with None => true | Some _ => false end) (candidates_r s).

Fixpoint settle_r (v : variant) (fuel : nat) (s : rstate) : rstate :=
  match fuel with
  | O => s
  | S k => if quietb_r v s then s else settle_r v k (fold_left (try_r v) (candidates_r s) s)
  end.

Definition settled_r (v : variant) (s : rstate) : rstate := settle_r v (S (rm_measure s)) s.

Definition do_act_r (v : variant) (s : rstate) (a : act) : rstate :=
  settled_r v
    (match a with
     | SRun => try_r v s RRunCas
     | SReturnRunner i => try_r v s (RRunnerReturn i)
     | SParentCancel e => try_r v s (RCtxCancel e)
     | SAdd b => try_r v (try_r v s (RAddCheck b)) (RAddAppend (length (r_adds s)))
     | _ => s
     end).

Definition exec_r (v : variant) (bs : list beh) (script : list act) : rstate :=
  fold_left (do_act_r v) script (new_rm bs).

(* ------------------------------------------------------------------------------------------ *)
(* quiescence: nothing that happens on its own ([candidates]) can happen.  What may then still be  *)
(* pending is spelled out: a quiescent manager whose Run has not returned is waiting for a runner   *)
(* or a closer of the USER (no-wedge theorems of Proofs_live.v).                                    *)

(* a runner goroutine Run legitimately waits for: it is running and either returns only when the
   environment says so ([Free]) or waits for a cancellation / a Close that has not happened *)
Definition runner_waits (s : rstate) (p : rproc) : Prop :=
  p_st p = Running /\ (auto_beh (p_beh p) = false \/ may_return s (p_beh p) = false).
Definition runner_waitsb (s : rstate) (p : rproc) : bool :=
  match p_st p with
  | Running => negb (auto_beh (p_beh p)) || negb (may_return s (p_beh p))
  | _ => false
  end.

(* a closer Run legitimately waits for: a user closer that is running *)
Definition closer_waits (p : cproc) : Prop := c_st p = CRunning /\ is_fatal (c_cl p) = false.
Definition closer_waitsb (p : cproc) : bool :=
  match c_st p with CRunning => negb (is_fatal (c_cl p)) | _ => false end.

Definition quiet_r (v : variant) (s : rstate) : Prop :=
  forall e, In e (candidates_r s) -> step_r v s e = None.

Definition quiet_c (v : variant) (s : cstate) : Prop :=
  forall e, In e (candidates s) -> step_c v s e = None.

(* every Close call has returned *)
Definition closes_returned (s : cstate) : Prop :=
  forall c k, nth_error (closes s) c = Some k -> exists e, k = KRet e.
Definition closes_returnedb (s : cstate) : bool :=
  forallb (fun k => match k with KRet _ => true | _ => false end) (closes s).

(* what a quiescent state of the bare manager looks like *)
Definition explained_r (s : rstate) : Prop :=
  r_running s = false \/ (exists errs, r_pc s = RReturned errs) \/
  exists p, In p (r_procs s) /\ runner_waits s p.
Definition explainedb_r (s : rstate) : bool :=
  negb (r_running s) || match r_pc s with RReturned _ => true | _ => false end ||
  existsb (runner_waitsb s) (r_procs s).

(* ... and of the closer manager: never started (or stopped by Close) with every Close call back;
   or finished with every Close call back; or waiting for a user's runner or closer *)
Definition explained_c (s : cstate) : Prop :=
  (c_pc s = CIdle /\ closes_returned s) \/
  ((exists errs, c_pc s = CDone errs) /\ closes_returned s) \/
  (exists p, In p (r_procs (inner s)) /\ runner_waits (inner s) p) \/
  (exists p, In p (c_procs s) /\ closer_waits p).
Definition explainedb_c (s : cstate) : bool :=
  (match c_pc s with CIdle | CDone _ => closes_returnedb s | _ => false end) ||
  existsb (runner_waitsb (inner s)) (r_procs (inner s)) || existsb closer_waitsb (c_procs s).

(* ------------------------------------------------------------------------------------------ *)
(* outcomes (order-free): what Run returned, how many Run calls were refused, what each Close     *)
(* returned, which AddCloser / Add calls succeeded, how often each runner / closer was invoked,   *)
(* how often the fatal action was called                                                         *)

Record outcome := mko {
  o_run : option (list err);
  o_refused : nat;
  o_closes : list (option (list err));
  o_addcl : list bool;
  o_adds : list bool;
  o_rstarts : list nat;
  o_cstarts : list nat;
  o_fatal : nat
}.

Definition n_user_closers (cls : list (option err)) (script : list act) : nat :=
  length cls + length (filter (fun a => match a with SAddCloser _ => true | _ => false end) script).
Definition n_runners (bs : list beh) (script : list act) : nat :=
  length bs + length (filter (fun a => match a with SAdd _ => true | _ => false end) script).

Definition outcome_c (grace : option Z) (nr nc : nat) (s : cstate) : outcome :=
  mko (match c_pc s with CDone errs => Some errs | _ => None end)
      (run_rejected s)
      (map (fun k => match k with KRet e => Some e | _ => None end) (closes s))
      (map (fun a => match a with ACAccepted _ => true | _ => false end) (addcl s))
      (map (fun k => match k with
                     | CARefused | CAPending _ => false
                     | CAPassed a => match nth_error (r_adds (inner s)) a with
                                     | Some (AAccepted _) => true
                                     | _ => false
                                     end
                     end) (cadds s))
      (map (fun i => match nth_error (r_procs (inner s)) i with
                     | Some p => match p_beh p with CloseRunner => 0 | _ => 1 end
                     | None => 0
                     end)
           (seq 0 nr))
      (map (fun j => match nth_error (c_procs s) (pidx grace j) with
                     | Some p => c_starts p
                     | None => 0
                     end) (seq 0 nc))
      (fatal_count s).

Definition outcome_r (nr : nat) (s : rstate) : outcome :=
  mko (match r_pc s with RReturned errs => Some errs | _ => None end)
      (r_rejected s) [] []
      (map (fun a => match a with AAccepted _ => true | _ => false end) (r_adds s))
      (map (fun i => match nth_error (r_procs s) i with Some _ => 1 | None => 0 end) (seq 0 nr))
      [] 0.

Definition find_run (t : list obs) : option (list err) :=
  match flat_map (fun o => match o with
                           | ORunRet _ errs => if rejected errs then [] else [errs]
                           | _ => []
                           end) t with
  | e :: _ => Some e
  | [] => None
  end.

Definition find_close (c : nat) (t : list obs) : option (list err) :=
  match flat_map (fun o => match o with
                           | OCloseRet c' errs => if (c' =? c)%nat then [errs] else []
                           | _ => []
                           end) t with
  | e :: _ => Some e
  | [] => None
  end.

Definition outcome_t (nr nc : nat) (t : list obs) : outcome :=
  mko (find_run t)
      (length (filter (fun o => match o with ORunRet _ errs => rejected errs | _ => false end) t))
      (map (fun c => find_close c t)
           (seq 0 (length (filter (fun o => match o with OCloseCall _ => true | _ => false end) t))))
      (flat_map (fun o => match o with OAddCloser _ ok => [ok] | _ => [] end) t)
      (flat_map (fun o => match o with OAdd _ ok => [ok] | _ => [] end) t)
      (map (fun i => countn i (runner_starts t)) (seq 0 nr))
      (map (fun j => countn j (closer_starts t)) (seq 0 nc))
      (length (filter (fun o => match o with OFatal => true | _ => false end) t)).

Definition eqb_oerrs (a b : option (list err)) : bool :=
  match a, b with
  | Some x, Some y => msetb x y
  | None, None => true
  | _, _ => false
  end.

Fixpoint eqb_list {A} (f : A -> A -> bool) (a b : list A) : bool :=
  match a, b with
  | [], [] => true
  | x :: a', y :: b' => f x y && eqb_list f a' b'
  | _, _ => false
  end.

Definition eqb_outcome (a b : outcome) : bool :=
  eqb_oerrs (o_run a) (o_run b) && (o_refused a =? o_refused b)%nat &&
  eqb_list eqb_oerrs (o_closes a) (o_closes b) &&
  eqb_list Bool.eqb (o_addcl a) (o_addcl b) && eqb_list Bool.eqb (o_adds a) (o_adds b) &&
  eqb_list Nat.eqb (o_rstarts a) (o_rstarts b) && eqb_list Nat.eqb (o_cstarts a) (o_cstarts b) &&
  (o_fatal a =? o_fatal b)%nat.

(* ------------------------------------------------------------------------------------------ *)

Inductive case :=
| CMgr (grace : option Z) (bs : list beh) (cls : list (option err)) (script : list act)
       (trace : list obs)
| CPlain (bs : list beh) (script : list act) (trace : list obs)
  (* stress: [races] concurrent AddCloser-vs-shutdown (kind 0) / Add-vs-Run (kind 1) /
     Close-vs-Run (kind 2) races; [bad] of them ended with a registered closer never invoked /
     Run not returning / an inconsistent outcome *)
| CStress (kind races bad : Z).

Definition stress_spec (bad : Z) : Prop := bad = 0%Z.
Definition stress_oracle (bad : Z) : bool := (bad =? 0)%Z.

Definition cfg_of (c : case) : cfg :=
  match c with
  | CMgr grace bs cls _ _ => mkcfg true grace (length bs) (length cls)
  | CPlain bs _ _ => mkcfg false None (length bs) 0
  | CStress _ _ _ => mkcfg false None 0 0
  end.

Definition model_agrees (c : case) : bool :=
  match c with
  | CMgr grace bs cls script t =>
      let nr := n_runners bs script in
      let nc := n_user_closers cls script in
      let s := exec_c Fixed grace bs cls script in
      eqb_outcome (outcome_c grace nr nc s) (outcome_t nr nc t) &&
      (* the model has settled, and what is left pending is what the no-wedge theorem says *)
      quietb_c Fixed s && explainedb_c s
  | CPlain bs script t =>
      let nr := n_runners bs script in
      let s := exec_r Fixed bs script in
      eqb_outcome (outcome_r nr s) (outcome_t nr 0 t) && quietb_r Fixed s && explainedb_r s
  | CStress _ _ _ => true
  end.

Definition oracle (c : case) : bool :=
  match c with
  | CMgr _ _ _ _ t | CPlain _ _ t => trace_oracle (cfg_of c) t
  | CStress _ _ bad => stress_oracle bad
  end.

(* 0 = agree and oracle holds; 1 = model and implementation differ; 2 = the implementation's
   observed behaviour violates the spec (and the model reproduces what it did); 3 = it violates
   the spec and the model does not reproduce it. *)
Definition check_case (c : case) : Z :=
  if negb (oracle c) then (if model_agrees c then 2 else 3)
  else if negb (model_agrees c) then 1 else 0.

Definition run_cases (cs : list (Z * case)) : list (Z * Z) := failures check_case cs.

(* ------------------------------------------------------------------------------------------ *)
(* smoke tests of the interface *)

Example ex_two_runners_one_closer :
  check_case (CMgr (Some 5%Z) [Free (Some 5%Z); OnCancel (Some 0%Z)] [Some 9%Z]
                   [SRun; SReturnRunner 0; SReturnCloser 0]
                   [ORunCall 0; ORunnerStart 0; ORunnerStart 1; ORunnerRet 0 (Some 5%Z);
                    ORunnerSeen 1; ORunnerRet 1 (Some 0%Z); OCloserStart 0;
                    OCloserRet 0 (Some 9%Z); ORunRet 0 [5%Z; 9%Z]]) = 0%Z.
Proof. vm_compute. reflexivity. Qed.

(* a closer started while a runner is still running: the oracle objects *)
Example ex_closer_too_early :
  check_case (CMgr None [Free None; Free None] [None]
                   [SRun; SReturnRunner 0; SReturnRunner 1; SReturnCloser 0]
                   [ORunCall 0; ORunnerStart 0; ORunnerStart 1; ORunnerRet 0 None;
                    OCloserStart 0; ORunnerRet 1 None; OCloserRet 0 None; ORunRet 0 []]) = 2%Z.
Proof. vm_compute. reflexivity. Qed.

(* Canceled not filtered: the oracle objects *)
Example ex_canceled_kept :
  check_case (CPlain [Free (Some 0%Z)] [SRun; SReturnRunner 0]
                     [ORunCall 0; ORunnerStart 0; ORunnerRet 0 (Some 0%Z); ORunRet 0 [0%Z]]) = 3%Z.
Proof. vm_compute. reflexivity. Qed.

(* fatal: grace elapsed while closer 0 had not returned *)
Example ex_fatal :
  check_case (CMgr (Some 5%Z) [] [None] [SRun; SAdvance 5%Z; SReturnCloser 0]
                   [ORunCall 0; OCloserStart 0; OAdvance 5%Z; OFatal; OCloserRet 0 None; ORunRet 0 []])
  = 0%Z.
Proof. vm_compute. reflexivity. Qed.

Example ex_fatal_missing :
  check_case (CMgr (Some 5%Z) [] [None] [SRun; SAdvance 5%Z; SReturnCloser 0]
                   [ORunCall 0; OCloserStart 0; OAdvance 5%Z; OCloserRet 0 None; ORunRet 0 []]) = 3%Z.
Proof. vm_compute. reflexivity. Qed.

(* Close before Run *)
Example ex_close_before_run :
  check_case (CMgr None [Free None] [None] [SClose; SRun]
                   [OCloseCall 0; OCloseRet 0 []; ORunCall 0; ORunRet 0 [(-1)%Z]]) = 0%Z.
Proof. vm_compute. reflexivity. Qed.

(* grace period boundaries: 0 and negative elapse as soon as the clock is touched; one nanosecond
   short is not enough; advances add up *)
Example ex_grace_zero :
  check_case (CMgr (Some 0%Z) [] [None] [SRun; SAdvance 0%Z; SReturnCloser 0]
                   [ORunCall 0; OCloserStart 0; OAdvance 0%Z; OFatal; OCloserRet 0 None; ORunRet 0 []])
  = 0%Z.
Proof. vm_compute. reflexivity. Qed.

Example ex_grace_zero_no_fatal_is_wrong :
  check_case (CMgr (Some 0%Z) [] [None] [SRun; SAdvance 0%Z; SReturnCloser 0]
                   [ORunCall 0; OCloserStart 0; OAdvance 0%Z; OCloserRet 0 None; ORunRet 0 []]) = 3%Z.
Proof. vm_compute. reflexivity. Qed.

Example ex_grace_negative :
  check_case (CMgr (Some (-7)%Z) [] [None] [SRun; SAdvance 0%Z; SReturnCloser 0]
                   [ORunCall 0; OCloserStart 0; OAdvance 0%Z; OFatal; OCloserRet 0 None; ORunRet 0 []])
  = 0%Z.
Proof. vm_compute. reflexivity. Qed.

Example ex_grace_one_short :
  check_case (CMgr (Some 5%Z) [] [None] [SRun; SAdvance 4%Z; SReturnCloser 0]
                   [ORunCall 0; OCloserStart 0; OAdvance 4%Z; OCloserRet 0 None; ORunRet 0 []]) = 0%Z.
Proof. vm_compute. reflexivity. Qed.

Example ex_grace_one_short_fatal_is_wrong :
  check_case (CMgr (Some 5%Z) [] [None] [SRun; SAdvance 4%Z; SReturnCloser 0]
                   [ORunCall 0; OCloserStart 0; OAdvance 4%Z; OFatal; OCloserRet 0 None; ORunRet 0 []])
  = 3%Z.
Proof. vm_compute. reflexivity. Qed.

Example ex_grace_adds_up :
  check_case (CMgr (Some 5%Z) [] [None] [SRun; SAdvance 3%Z; SAdvance 2%Z; SReturnCloser 0]
                   [ORunCall 0; OCloserStart 0; OAdvance 3%Z; OAdvance 2%Z; OFatal; OCloserRet 0 None;
                    ORunRet 0 []]) = 0%Z.
Proof. vm_compute. reflexivity. Qed.
