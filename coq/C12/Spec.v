(* C12 — what the property demands of RunnerManager / RunnerCloserManager, written from the
   property text ("starts all runners, cancels the context of the others as soon as any one
   returns, returns only after all have returned, reports the join of exactly the non-nil,
   non-Canceled errors; runs at most once and rejects additions afterwards; invokes every
   registered closer exactly once and only after all runners have returned; Run and every Close
   return only after all closers finished, with the joined runner and closer errors; the fatal
   action fires iff the closers outlast the grace period; Close on a manager that never ran
   returns at once and prevents a later Run"), NOT from the code.

   The subject is a TRACE: the sequence of observations of ONE manager, in the order of a global
   sequence counter.  Observations of the kind "about to ..." are stamped BEFORE the action
   (ORunCall, ORunnerRet, OCloserRet, OCloseCall, OParentCancel, OAdvance), the others AFTER the fact
   (ORunRet, OCloseRet, OAddCloser, OAdd, ORunnerStart, ORunnerSeen, OCloserStart, OFatal), so
   "X is stamped before Y" below is implied by the real order the property talks about.

   Errors are [Z] codes: 0 = context.Canceled, -1 = ErrManagerAlreadyStarted; a returned error is
   the list of the leaves of its join ([[]] = nil). *)
From Kit Require Export Lib.Base.
From Coq Require Export Permutation.

Definition canceled_code : Z := 0%Z.
Definition started_code : Z := (-1)%Z.

Inductive obs :=
| ORunCall (k : nat)                      (* about to call Run (k-th call) *)
| ORunRet (k : nat) (errs : list Z)       (* that call returned; [started_code] = rejected *)
| ORunnerStart (i : nat)                  (* runner i was invoked *)
| ORunnerSeen (i : nat)                   (* runner i saw its context cancelled *)
| ORunnerRet (i : nat) (r : option Z)     (* runner i is about to return r *)
| OParentCancel                           (* about to cancel the context given to Run *)
| OCloseCall (c : nat)                    (* about to call Close (c-th call) *)
| OCloseRet (c : nat) (errs : list Z)     (* that call returned errs *)
| OAddCloser (j : nat) (ok : bool)        (* AddCloser(closer j) returned nil / an error *)
| OCloserStart (j : nat)                  (* closer j was invoked *)
| OCloserRet (j : nat) (r : option Z)     (* closer j is about to return r *)
| OAdvance (d : Z)                        (* about to advance the clock by d >= 0 nanoseconds *)
| OFatal                                  (* the fatal-shutdown action was called *)
| OAdd (i : nat) (ok : bool).             (* Add(runner i) returned nil / an error *)

Record cfg := mkcfg {
  g_closer : bool;     (* RunnerCloserManager (else: plain RunnerManager) *)
  g_grace : option Z;  (* the grace period in nanoseconds (None: not set = infinite; 0 and negative
                          values are grace periods that elapse at once) *)
  g_nrun : nat;        (* runners 0..g_nrun-1 were given to the constructor *)
  g_ncl : nat          (* closers 0..g_ncl-1 were registered before anything else happened *)
}.

(* ------------------------------------------------------------------------------------------ *)
(* facts about a prefix [h] of the trace                                                        *)

Definition memn (i : nat) (l : list nat) : bool := existsb (Nat.eqb i) l.

Definition run_called (h : list obs) : bool :=
  existsb (fun o => match o with ORunCall _ => true | _ => false end) h.
Definition other_run_called (k : nat) (h : list obs) : bool :=
  existsb (fun o => match o with ORunCall k' => negb (k' =? k)%nat | _ => false end) h.
Definition close_called (h : list obs) : bool :=
  existsb (fun o => match o with OCloseCall _ => true | _ => false end) h.
Definition close_returned (h : list obs) : bool :=
  existsb (fun o => match o with OCloseRet _ _ => true | _ => false end) h.
Definition parent_cancelled (h : list obs) : bool :=
  existsb (fun o => match o with OParentCancel => true | _ => false end) h.
Definition no_closer_started (h : list obs) : bool :=
  negb (existsb (fun o => match o with OCloserStart _ => true | _ => false end) h).

(* by how much the clock was advanced after [started] first held of the history so far *)
Fixpoint advanced_after (started : list obs -> bool) (h t : list obs) : Z :=
  match t with
  | [] => 0%Z
  | o :: t' =>
      ((match o with OAdvance d => if started h then d else 0 | _ => 0 end) +
       advanced_after started (h ++ [o]) t')%Z
  end.
Definition fatal_seen (h : list obs) : bool :=
  existsb (fun o => match o with OFatal => true | _ => false end) h.

Definition rejected (errs : list Z) : bool :=
  match errs with [e] => (e =? started_code)%Z | _ => false end.

(* some Run call has returned something else than ErrManagerAlreadyStarted *)
Definition run_completed (h : list obs) : bool :=
  existsb (fun o => match o with ORunRet _ errs => negb (rejected errs) | _ => false end) h.

(* a Close call returned before Run call k was even issued *)
Fixpoint closed_before_call (k : nat) (h : list obs) : bool :=
  match h with
  | [] => false
  | OCloseRet _ _ :: _ => true
  | ORunCall k' :: t => if (k' =? k)%nat then false else closed_before_call k t
  | _ :: t => closed_before_call k t
  end.

Definition runner_starts (h : list obs) : list nat :=
  flat_map (fun o => match o with ORunnerStart i => [i] | _ => [] end) h.
Definition runner_rets (h : list obs) : list (nat * option Z) :=
  flat_map (fun o => match o with ORunnerRet i r => [(i, r)] | _ => [] end) h.
Definition closer_starts (h : list obs) : list nat :=
  flat_map (fun o => match o with OCloserStart j => [j] | _ => [] end) h.
Definition closer_rets (h : list obs) : list (nat * option Z) :=
  flat_map (fun o => match o with OCloserRet j r => [(j, r)] | _ => [] end) h.
Definition added_runners (h : list obs) : list nat :=
  flat_map (fun o => match o with OAdd i true => [i] | _ => [] end) h.
Definition added_closers (h : list obs) : list nat :=
  flat_map (fun o => match o with OAddCloser j true => [j] | _ => [] end) h.

(* the runners / closers the manager has accepted so far *)
Definition known_runners (g : cfg) (h : list obs) : list nat := seq 0 (g_nrun g) ++ added_runners h.
Definition registered (g : cfg) (h : list obs) : list nat := seq 0 (g_ncl g) ++ added_closers h.

Definition all_runners_returned (g : cfg) (h : list obs) : bool :=
  forallb (fun i => memn i (map fst (runner_rets h))) (known_runners g h ++ runner_starts h).
Definition all_closers_returned (g : cfg) (h : list obs) : bool :=
  forallb (fun j => memn j (map fst (closer_rets h))) (registered g h).

Definition countn (j : nat) (l : list nat) : nat := length (filter (Nat.eqb j) l).

Definition all_closers_started_once (g : cfg) (h : list obs) : bool :=
  forallb (fun j => (countn j (closer_starts h) =? 1)%nat) (registered g h).
Definition all_runners_started_once (g : cfg) (h : list obs) : bool :=
  forallb (fun i => (countn i (runner_starts h) =? 1)%nat) (known_runners g h).

Definition drop_nil_canceled (r : option Z) : list Z :=
  match r with
  | Some e => if (e =? canceled_code)%Z then [] else [e]
  | None => []
  end.
Definition drop_nil (r : option Z) : list Z := match r with Some e => [e] | None => [] end.

(* "the join of exactly the non-nil, non-Canceled [runner] errors", "with the joined runner and
   closer errors" *)
Definition expected_join (h : list obs) : list Z :=
  flat_map (fun ir => drop_nil_canceled (snd ir)) (runner_rets h) ++
  flat_map (fun jr => drop_nil (snd jr)) (closer_rets h).

(* equality of multisets, executable *)
Definition countz (e : Z) (l : list Z) : nat := count_occ Z.eq_dec l e.
Definition msetb (a b : list Z) : bool :=
  forallb (fun e => (countz e a =? countz e b)%nat) (a ++ b).

(* ------------------------------------------------------------------------------------------ *)
(* what may be observed next, after the prefix [h]                                              *)

Definition obs_okb (g : cfg) (h : list obs) (o : obs) : bool :=
  match o with
  | ORunCall _ | OParentCancel | OCloseCall _ => true
  | OAdvance d => (0 <=? d)%Z
  | ORunnerStart i =>
      (* only by Run, each runner at most once, only accepted runners, never after a Close returned *)
      run_called h && negb (memn i (runner_starts h)) && memn i (known_runners g h) &&
      negb (close_returned h) && negb (run_completed h)
  | ORunnerSeen i =>
      (* no spurious cancellation: some runner returned, or the caller cancelled, or Close *)
      negb (match runner_rets h with [] => true | _ => false end) || parent_cancelled h ||
      (g_closer g && close_called h)
  | ORunnerRet i _ => memn i (runner_starts h)
  | OCloserStart j =>
      (* only after all runners have returned; every closer at most once; only registered ones *)
      g_closer g && run_called h && all_runners_returned g h &&
      negb (memn j (closer_starts h)) && memn j (registered g h) &&
      negb (close_returned h) && negb (run_completed h)
  | OCloserRet j _ => memn j (closer_starts h)
  | OFatal =>
      (* only when the grace period has elapsed, and once *)
      (* generous reading of "elapsed": counted from the moment the last runner was about to
         return (the timer is created after that) *)
      match g_grace g with
      | Some d => (d <=? advanced_after (fun p => run_called p && all_runners_returned g p) [] h)%Z &&
                  run_called h && all_runners_returned g h
      | None => false
      end && negb (fatal_seen h)
  | ORunRet k errs =>
      if rejected errs
      then (* only a manager that was started or closed before refuses to run *)
           other_run_called k h || close_called h
      else (* at most one Run runs; never after a completed Close; only after all runners and all
              closers returned, every registered closer having been invoked exactly once; with
              the join *)
           negb (run_completed h) && negb (closed_before_call k h) &&
           all_runners_returned g h && all_runners_started_once g h &&
           (if g_closer g then all_closers_returned g h && all_closers_started_once g h else true) &&
           msetb errs (expected_join h)
  | OCloseRet c errs =>
      (* a manager that never ran: at once, nil.  Otherwise only after all runners and closers
         returned, with the same join *)
      g_closer g && msetb errs (expected_join h) &&
      ((match runner_starts h ++ closer_starts h with [] => true | _ => false end &&
        negb (run_completed h) && match errs with [] => true | _ => false end)
       || (all_runners_returned g h && all_closers_returned g h && all_closers_started_once g h))
  | OAddCloser j ok =>
      (* refusing is only allowed once the runners are done *)
      g_closer g && (ok || (run_called h && all_runners_returned g h))
  | OAdd i ok =>
      (* refusing is only allowed once Run (or, for the closer manager, Close) was called *)
      ok || run_called h || (g_closer g && close_called h)
  end.

Definition run_returned (k : nat) (t : list obs) : bool :=
  existsb (fun o => match o with ORunRet k' _ => (k' =? k)%nat | _ => false end) t.
Definition close_returned_c (c : nat) (t : list obs) : bool :=
  existsb (fun o => match o with OCloseRet c' _ => (c' =? c)%nat | _ => false end) t.

(* the grace period elapsed - the clock advanced by at least that much after the closers had
   started; at once for a period of 0 or less, as soon as the clock is touched - while a
   registered closer had not even been told to return (so the closers certainly outlasted it) *)
Fixpoint fatal_required (g : cfg) (h t : list obs) : bool :=
  match t with
  | [] => false
  | o :: t' =>
      (match o with
       | OAdvance _ =>
           (* strict reading: counted from the first closer's start (the harness advances the clock
              during shutdown only once the timer exists) and including this advance *)
           match g_grace g with
           | Some d => (d <=? advanced_after (fun p => negb (no_closer_started p)) [] (h ++ [o]))%Z
           | None => false
           end &&
           negb (no_closer_started h) && negb (all_closers_returned g h) && negb (run_completed h)
       | _ => false
       end) || fatal_required g (h ++ [o]) t'
  end.

(* at the end of the observation *)
Definition final_okb (g : cfg) (t : list obs) : bool :=
  (* every Run and every Close call has returned *)
  forallb (fun o => match o with
                    | ORunCall k => run_returned k t
                    | OCloseCall c => close_returned_c c t
                    | _ => true
                    end) t &&
  (* once Run has run to its end: every closer whose registration succeeded was invoked exactly
     once and every runner whose addition succeeded was started exactly once *)
  (if run_completed t
   then (if g_closer g then all_closers_started_once g t else true) && all_runners_started_once g t
   else true) &&
  (* the fatal action fired if the closers outlasted the grace period *)
  (if fatal_required g [] t then fatal_seen t else true).

(* THE SPECIFICATION: every observation is allowed after what was observed before it, and the
   complete trace meets the end conditions. *)
Definition trace_spec (g : cfg) (t : list obs) : Prop :=
  (forall h o rest, t = h ++ o :: rest -> obs_okb g h o = true) /\ final_okb g t = true.

(* boolean version *)
Fixpoint steps_okb (g : cfg) (h t : list obs) : bool :=
  match t with
  | [] => true
  | o :: t' => obs_okb g h o && steps_okb g (h ++ [o]) t'
  end.

Definition trace_oracle (g : cfg) (t : list obs) : bool := steps_okb g [] t && final_okb g t.
