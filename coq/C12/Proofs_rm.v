(* C12 — RunnerManager: invariants over all schedules, both variants. *)
From Kit Require Import C12.Model.

(* ------------------------------------------------------------------------------------------ *)
(* lists *)

Lemma upd_length {A} i (f : A -> A) l : length (upd i f l) = length l.
Proof. revert i; induction l as [|x l IH]; intros [|i]; cbn; auto. Qed.

Lemma nth_error_upd_same {A} i (f : A -> A) l x :
  nth_error l i = Some x -> nth_error (upd i f l) i = Some (f x).
Proof.
  revert i; induction l as [|y l IH]; intros [|i] H; cbn in *; try discriminate.
  - inversion H; reflexivity.
  - auto.
Qed.

Lemma nth_error_upd_other {A} i j (f : A -> A) l :
  i <> j -> nth_error (upd i f l) j = nth_error l j.
Proof.
  revert i j; induction l as [|y l IH]; intros [|i] [|j] H; cbn; auto; try congruence.
Qed.

Lemma in_upd {A} i (f : A -> A) l q :
  In q (upd i f l) -> In q l \/ exists p, nth_error l i = Some p /\ q = f p.
Proof.
  revert i; induction l as [|y l IH]; intros [|i] H; cbn in *; try tauto.
  - destruct H as [H|H]; [right; exists y; auto | left; auto].
  - destruct H as [H|H]; [left; auto|]. apply IH in H. destruct H as [H|H]; [left; auto | right; auto].
Qed.

Lemma in_upd_new {A} i (f : A -> A) l p :
  nth_error l i = Some p -> In (f p) (upd i f l).
Proof.
  intro H. apply nth_error_upd_same with (f := f) in H. eapply nth_error_In; eauto.
Qed.

Lemma in_upd_old {A} i (f : A -> A) l q :
  In q l -> In q (upd i f l) \/ nth_error l i = Some q.
Proof.
  revert i; induction l as [|y l IH]; intros [|i] H; cbn in *; try tauto.
  - destruct H as [H|H]; [right; congruence | left; auto].
  - destruct H as [H|H]; [left; auto|]. destruct (IH i H); auto.
Qed.

Lemma map_beh_upd_f (f : rproc -> rproc) i ps :
  (forall p, p_beh (f p) = p_beh p) -> map p_beh (upd i f ps) = map p_beh ps.
Proof. intro Hf. revert i; induction ps as [|p ps IH]; intros [|i]; cbn; auto; f_equal; auto. Qed.

Lemma map_beh_upd st i ps : map p_beh (upd i (set_st st) ps) = map p_beh ps.
Proof. apply map_beh_upd_f. reflexivity. Qed.

Lemma map_beh_upd_ret r i ps : map p_beh (upd i (ret_with r) ps) = map p_beh ps.
Proof. apply map_beh_upd_f. reflexivity. Qed.

(* ------------------------------------------------------------------------------------------ *)
(* finished goroutines *)

Definition is_done (p : rproc) : bool := match p_st p with Done => true | _ => false end.
Definition ndone (ps : list rproc) : nat := length (filter is_done ps).

Lemma ndone_cons p ps : ndone (p :: ps) = (if is_done p then 1 else 0) + ndone ps.
Proof. unfold ndone; cbn. destruct (is_done p); reflexivity. Qed.

Lemma ndone_le ps : ndone ps <= length ps.
Proof. induction ps as [|p ps IH]; [auto|]. rewrite ndone_cons. cbn [length]. destruct (is_done p); lia. Qed.

Lemma ndone_all ps : length ps <= ndone ps -> all_done ps.
Proof.
  induction ps as [|p ps IH]; intros H q Hq; [destruct Hq|].
  rewrite ndone_cons in H. cbn [length] in H. pose proof (ndone_le ps).
  destruct (is_done p) eqn:E; [|lia].
  destruct Hq as [<-|Hq].
  - unfold is_done in E. destruct (p_st p); auto; discriminate.
  - apply IH; [lia | auto].
Qed.

Lemma ndone_lt ps i p : nth_error ps i = Some p -> p_st p <> Done -> ndone ps < length ps.
Proof.
  revert i; induction ps as [|q ps IH]; intros [|i] H Hn; cbn in H; try discriminate.
  - inversion H; subst. rewrite ndone_cons. cbn [length]. pose proof (ndone_le ps).
    unfold is_done. destruct (p_st p); try lia. congruence.
  - rewrite ndone_cons. cbn [length]. specialize (IH i H Hn). destruct (is_done q); lia.
Qed.

Lemma ndone_upd_done i ps p :
  nth_error ps i = Some p -> p_st p <> Done -> ndone (upd i (set_st Done) ps) = S (ndone ps).
Proof.
  revert i; induction ps as [|q ps IH]; intros [|i] H Hn; cbn in H; try discriminate.
  - inversion H; subst. cbn [upd]. rewrite !ndone_cons. unfold is_done; cbn.
    destruct (p_st p); try reflexivity. congruence.
  - cbn [upd]. rewrite !ndone_cons. rewrite (IH i H Hn). lia.
Qed.

Lemma ndone_upd_sending r i ps p :
  nth_error ps i = Some p -> p_st p = Running -> ndone (upd i (ret_with r) ps) = ndone ps.
Proof.
  revert i; induction ps as [|q ps IH]; intros [|i] H Hn; cbn in H; try discriminate.
  - inversion H; subst. cbn [upd]. rewrite !ndone_cons. unfold is_done; cbn. rewrite Hn. reflexivity.
  - cbn [upd]. rewrite !ndone_cons. rewrite (IH i H Hn). reflexivity.
Qed.

Lemma collected_upd_done i ps p :
  nth_error ps i = Some p -> p_st p <> Done ->
  Permutation (collected (upd i (set_st Done) ps)) (collected ps ++ sent p).
Proof.
  revert i; induction ps as [|q ps IH]; intros [|i] H Hn; cbn in H; try discriminate.
  - inversion H; subst. cbn [upd]. unfold collected; cbn [flat_map set_st p_st].
    fold (collected ps). replace (sent (set_st Done p)) with (sent p) by reflexivity.
    destruct (p_st p) eqn:E; try congruence; cbn [app]; apply Permutation_app_comm.
  - cbn [upd]. unfold collected; cbn [flat_map]. fold (collected ps).
    fold (collected (upd i (set_st Done) ps)). rewrite <- app_assoc.
    apply Permutation_app_head. apply IH; auto.
Qed.

Lemma collected_upd_sending r i ps p :
  nth_error ps i = Some p -> p_st p = Running ->
  collected (upd i (ret_with r) ps) = collected ps.
Proof.
  revert i; induction ps as [|q ps IH]; intros [|i] H Hn; cbn in H; try discriminate.
  - inversion H; subst. cbn [upd]. unfold collected; cbn [flat_map ret_with p_st]. rewrite Hn.
    reflexivity.
  - cbn [upd]. unfold collected; cbn [flat_map]. fold (collected ps).
    fold (collected (upd i (ret_with r) ps)). f_equal. apply IH; auto.
Qed.

Lemma collected_fresh bs : collected (map (fun b => mkp b Running None) bs) = [].
Proof. induction bs; cbn; auto. Qed.

Lemma ndone_fresh bs : ndone (map (fun b => mkp b Running None) bs) = 0.
Proof. induction bs; cbn; auto. Qed.

Lemma collected_all_done ps :
  all_done ps -> collected ps = flat_map sent ps.
Proof.
  induction ps as [|p ps IH]; intro H; [reflexivity|].
  unfold collected; cbn [flat_map]. fold (collected ps).
  rewrite (H p (or_introl eq_refl)). f_equal. apply IH. intros q Hq. apply H. right; auto.
Qed.

(* ------------------------------------------------------------------------------------------ *)
(* the invariant *)

Definition spawned_pc (pc : rpc) : Prop :=
  match pc with RCollecting _ _ | RReturned _ => True | _ => False end.
Definition spawned (s : rstate) : Prop := spawned_pc (r_pc s).

Definition some_done_l (ps : list rproc) : Prop := exists p, In p ps /\ p_st p = Done.
Definition some_done (s : rstate) : Prop := some_done_l (r_procs s).

(* what a goroutine that has returned holds: the scripted result, or - for a [CtxErr] runner - what
   the (by then cancelled) context reports *)
Definition res_ok (canc : bool) (cerr : err) (p : rproc) : Prop :=
  p_st p <> Running ->
  match p_beh p with
  | CtxErr => canc = true /\ p_res p = Some cerr
  | b => p_res p = result_of canceled b
  end.

Lemma res_ok_mono c e e' p : res_ok c e p -> res_ok true (if c then e else e') p.
Proof.
  unfold res_ok. intros H Hn. specialize (H Hn). destruct (p_beh p); auto.
  destruct H as [-> H]. auto.
Qed.

Lemma res_ok_done c e p : p_st p <> Running -> res_ok c e p -> res_ok c e (set_st Done p).
Proof. unfold res_ok. intros Hn H _. cbn [set_st p_beh p_res]. apply H. exact Hn. Qed.

Record rinv (v : variant) (bs : list beh) (s : rstate) : Prop := mkrinv {
  i_idle : r_running s = false -> r_pc s = RIdle;
  i_run : r_pc s <> RIdle -> r_running s = true;
  i_run2 : r_running s = true -> r_pc s <> RIdle;
  i_noprocs : r_pc s = RIdle \/ r_pc s = RStarted -> r_procs s = [];
  i_snap : spawned_pc (r_pc s) ->
           exists tl, r_runners s = map p_beh (r_procs s) ++ tl /\ (v = Fixed -> tl = []);
  i_coll : forall k e, r_pc s = RCollecting k e ->
           k = ndone (r_procs s) /\ Permutation e (collected (r_procs s));
  i_ret : forall e, r_pc s = RReturned e ->
          all_done (r_procs s) /\ Permutation e (collected (r_procs s));
  i_canc1 : some_done_l (r_procs s) -> r_cancelled s = true;
  i_canc2 : r_cancelled s = true ->
            r_parent s = true \/ some_done_l (r_procs s) \/ exists e, r_pc s = RReturned e;
  i_init : exists tl0, r_runners s = bs ++ tl0;
  i_pref : spawned_pc (r_pc s) -> exists tl1, map p_beh (r_procs s) = bs ++ tl1;
  i_res : forall p, In p (r_procs s) -> res_ok (r_cancelled s) (r_cerr s) p
}.

Lemma rinv_init v bs : rinv v bs (new_rm bs).
Proof.
  constructor; cbn; try tauto; try discriminate;
    try (unfold some_done; cbn; intros [p [Hp _]]; destruct Hp).
  exists []. rewrite app_nil_r. reflexivity.
Qed.

Ltac inv H := inversion H; subst; clear H.

Ltac fin :=
  cbn [r_running r_runners r_pc r_procs r_cancelled r_cerr r_parent r_closech r_adds r_rejected spawned_pc];
  auto; try discriminate; try tauto; try (intros; discriminate); try (intro; congruence);
  try (intros [?|?]; discriminate).

Lemma rinv_step v bs s e s' : rinv v bs s -> step_r v s e = Some s' -> rinv v bs s'.
Proof.
  intros I H. destruct I as [Iidle Irun Irun2 Inop Isnap Icoll Iret Ic1 Ic2 Iinit Ipref Ires].
  destruct e; cbn [step_r] in H.
  - (* RAddCheck *)
    inv H. constructor; fin.
  - (* RAddAppend *)
    destruct (nth_error (r_adds s) a) as [[b|b|]|] eqn:Ea; try discriminate.
    destruct (is_fixed v && r_running s) eqn:Efr; inv H.
    + constructor; fin.
    + constructor; fin.
      * intro Hs. destruct (Isnap Hs) as [tl [E Hf]].
        exists (tl ++ [b]). split.
        { rewrite E. rewrite <- app_assoc. reflexivity. }
        { intro Hv. subst v. cbn in Efr. assert (Hr : r_running s = true).
          { apply Irun. destruct (r_pc s); cbn in Hs; try tauto; discriminate. }
          rewrite Hr in Efr. discriminate. }
      * destruct Iinit as [tl0 E]. exists (tl0 ++ [b]). rewrite E, app_assoc. reflexivity.
  - (* RRunCas *)
    destruct (r_running s) eqn:Er; inv H.
    + constructor; fin.
    + specialize (Iidle eq_refl). constructor; fin.
      intro Hc. destruct (Ic2 Hc) as [Hc'|[Hc'|[e He]]]; auto. rewrite Iidle in He. discriminate.
  - (* RSpawn *)
    destruct (r_pc s) eqn:Epc; try discriminate. inv H.
    assert (Hrun : r_running s = true) by (apply Irun; discriminate).
    constructor; fin.
    + intros _. exists []. rewrite map_map. cbn. rewrite map_id, app_nil_r. auto.
    + intros k e H. inv H. rewrite ndone_fresh, collected_fresh. auto.
    + intros [p [Hp Hd]]. apply in_map_iff in Hp. destruct Hp as [b [<- _]]. discriminate.
    + intro Hc. destruct (Ic2 Hc) as [Hc'|[[p [Hp _]]|[e He]]]; auto.
      * rewrite (Inop (or_intror eq_refl)) in Hp. destruct Hp.
      * discriminate.
    + intros _. rewrite map_map. cbn. rewrite map_id. exact Iinit.
    + intros p Hp Hn. apply in_map_iff in Hp. destruct Hp as [b [<- _]]. cbn in Hn. congruence.
  - (* RRunnerReturn *)
    destruct (nth_error (r_procs s) i) as [p|] eqn:Ep; try discriminate.
    destruct (p_st p) eqn:Est; try discriminate.
    destruct (may_return s (p_beh p)) eqn:Emr; inv H.
    assert (Hnd : p_st p <> Done) by congruence.
    constructor; fin.
    + intros Hpc. specialize (Inop Hpc). rewrite Inop in Ep. destruct i; discriminate.
    + intro Hs. rewrite map_beh_upd_ret. auto.
    + intros k e Hpc. destruct (Icoll k e Hpc) as [-> HP]. split.
      * symmetry. eapply ndone_upd_sending; eauto.
      * erewrite collected_upd_sending; eauto.
    + intros e Hpc. destruct (Iret e Hpc) as [Ha _]. exfalso.
      apply Hnd. apply Ha. eapply nth_error_In; eauto.
    + intros [q [Hq Hd]]. apply Ic1. apply in_upd in Hq. destruct Hq as [Hq|[p' [E ->]]].
      * exists q; auto.
      * cbn in Hd. discriminate.
    + intro Hc. destruct (Ic2 Hc) as [Hc'|[[q [Hq Hd]]|He]]; auto.
      right; left. destruct (in_upd_old i (ret_with (result_of (r_cerr s) (p_beh p))) _ _ Hq) as [Hq'|Hq'].
      * exists q; auto.
      * rewrite Ep in Hq'. inv Hq'. congruence.
    + intro Hs. rewrite map_beh_upd_ret. auto.
    + intros q Hq. apply in_upd in Hq. destruct Hq as [Hq|[p' [E ->]]]; [auto|].
      rewrite Ep in E. inv E. intros _. cbn [ret_with p_beh p_res].
      unfold may_return in Emr. destruct (p_beh p'); cbn [result_of]; auto.
  - (* RCollect *)
    destruct (r_pc s) as [| |k errs|] eqn:Epc; try discriminate.
    destruct (nth_error (r_procs s) i) as [p|] eqn:Ep; try discriminate.
    destruct (p_st p) eqn:Est; try discriminate.
    destruct (k <? target v s)%nat eqn:Ek; inv H.
    assert (Hnd : p_st p <> Done) by congruence.
    destruct (Icoll k errs eq_refl) as [-> HP].
    assert (Hrun : r_running s = true) by (apply Irun; discriminate).
    constructor; fin.
    + intros _. rewrite map_beh_upd. apply Isnap. exact I.
    + intros k e H. inv H. split.
      * symmetry. eapply ndone_upd_done; eauto.
      * eapply Permutation_trans; [|apply Permutation_sym; eapply collected_upd_done; eauto].
        apply Permutation_app_tail. exact HP.
    + intros _. right; left. exists (set_st Done p). split; [eapply in_upd_new; eauto | reflexivity].
    + intros _. rewrite map_beh_upd. apply Ipref. exact I.
    + intros q Hq. unfold cerr_after. apply in_upd in Hq. destruct Hq as [Hq|[p' [E ->]]].
      * apply res_ok_mono. auto.
      * rewrite Ep in E. inv E. apply res_ok_done; [congruence|]. apply res_ok_mono.
        apply Ires. eapply nth_error_In; eauto.
  - (* RRunReturn *)
    destruct (r_pc s) as [| |k errs|] eqn:Epc; try discriminate.
    destruct (k <? target v s)%nat eqn:Ek; inv H.
    destruct (Icoll k errs eq_refl) as [-> HP].
    assert (Hlen : length (r_procs s) <= target v s).
    { destruct (Isnap I) as [tl [E _]].
      destruct v; cbn [target]; [|lia]. rewrite E, app_length, map_length. lia. }
    apply Nat.ltb_ge in Ek.
    assert (Hrun : r_running s = true) by (apply Irun; discriminate).
    constructor; fin.
    + intros e H. inv H. split; [apply ndone_all; lia | exact HP].
    + intros _. right; right. eauto.
    + intros q Hq. unfold cerr_after. apply res_ok_mono. auto.
  - (* RCtxCancel *)
    inv H. constructor; fin.
    intros q Hq. unfold cerr_after. apply res_ok_mono. auto.
  - (* RCloseCh *)
    inv H. constructor; fin.
Qed.

Lemma rinv_run v bs es : forall s s', rinv v bs s -> run_r v s es = Some s' -> rinv v bs s'.
Proof.
  induction es as [|e es IH]; intros s s' I H; cbn in H.
  - inv H; auto.
  - destruct (step_r v s e) as [s1|] eqn:E; try discriminate.
    eapply IH; [eapply rinv_step; eauto | eauto].
Qed.

Lemma rinv_reach v bs es s : run_r v (new_rm bs) es = Some s -> rinv v bs s.
Proof. apply rinv_run, rinv_init. Qed.

(* ------------------------------------------------------------------------------------------ *)
(* the theorems about RunnerManager *)

(* Run returns only after every goroutine it started has delivered its result; the goroutines
   were started for (at least) every runner given to the constructor. *)
Lemma rm_run_waits_all : forall v bs es s errs,
  run_r v (new_rm bs) es = Some s -> r_pc s = RReturned errs ->
  all_done (r_procs s) /\ exists more, map p_beh (r_procs s) = bs ++ more.
Proof.
  intros v bs es s errs H Hpc. apply rinv_reach in H. split.
  - apply (i_ret _ _ _ H errs Hpc).
  - apply (i_pref _ _ _ H). unfold spawned. rewrite Hpc. exact I.
Qed.

(* every runner given to the constructor (and everything appended before the snapshot) got a
   goroutine: the behaviours of the goroutines followed by the late appends are the slice, which
   starts with the constructor's runners *)
Lemma rm_starts_all : forall v bs es s,
  run_r v (new_rm bs) es = Some s -> spawned s ->
  exists late tl0, map p_beh (r_procs s) ++ late = bs ++ tl0 /\ (v = Fixed -> late = []).
Proof.
  intros v bs es s H Hs. apply rinv_reach in H.
  destruct (i_snap _ _ _ H Hs) as [tl [E Hf]]. destruct (i_init _ _ _ H) as [tl0 E0].
  exists tl, tl0. split; [congruence | auto].
Qed.

(* cancel on first return: no cancellation out of thin air; as soon as one result has been
   handed over the context is cancelled; and a goroutine that has its result ready is served
   while Run collects. *)
Lemma rm_cancel_on_first_return : forall v bs es s,
  run_r v (new_rm bs) es = Some s ->
  (r_cancelled s = true ->
     r_parent s = true \/ some_done s \/ exists e, r_pc s = RReturned e) /\
  (some_done s -> r_cancelled s = true) /\
  (forall i p k errs, nth_error (r_procs s) i = Some p -> p_st p = Sending ->
     r_pc s = RCollecting k errs ->
     exists s', step_r v s (RCollect i) = Some s' /\ r_cancelled s' = true).
Proof.
  intros v bs es s H. apply rinv_reach in H. split; [|split].
  - apply (i_canc2 _ _ _ H).
  - apply (i_canc1 _ _ _ H).
  - intros i p k errs Ep Est Epc. cbn [step_r]. rewrite Epc, Ep, Est.
    destruct (i_coll _ _ _ H k errs Epc) as [-> _].
    assert (Hlt : ndone (r_procs s) < length (r_procs s)).
    { eapply ndone_lt; eauto. congruence. }
    assert (Hlen : length (r_procs s) <= target v s).
    { destruct (i_snap _ _ _ H ltac:(unfold spawned; rewrite Epc; exact I)) as [tl [E _]].
      destruct v; cbn [target]; [|lia]. rewrite E, app_length, map_length. lia. }
    assert (Hk : (ndone (r_procs s) <? target v s)%nat = true) by (apply Nat.ltb_lt; lia).
    rewrite Hk. eexists; split; [reflexivity|reflexivity].
Qed.

(* the error Run returns is the join of exactly the non-nil, non-Canceled results, as a multiset *)
Lemma rm_error_join : forall v bs es s errs,
  run_r v (new_rm bs) es = Some s -> r_pc s = RReturned errs ->
  Permutation errs (flat_map (fun p => olist (filt (p_res p))) (r_procs s)) /\
  (forall p, In p (r_procs s) ->
     match p_beh p with
     | CtxErr => r_cancelled s = true /\ p_res p = Some (r_cerr s)
     | Free r | OnCancel r => p_res p = r
     | CloseRunner => p_res p = None
     end).
Proof.
  intros v bs es s errs H Hpc. apply rinv_reach in H.
  destruct (i_ret _ _ _ H errs Hpc) as [Ha HP]. split.
  - rewrite (collected_all_done _ Ha) in HP. exact HP.
  - intros p Hp. pose proof (i_res _ _ _ H p Hp) as Hr. unfold res_ok in Hr.
    assert (Hn : p_st p <> Running) by (rewrite (Ha p Hp); discriminate).
    specialize (Hr Hn). destruct (p_beh p); auto.
Qed.

(* what the context reports: Canceled unless the caller's context ended first with something else;
   it never changes once set *)
Lemma rm_ctx_err_stable : forall v s e s',
  step_r v s e = Some s' -> r_cancelled s = true -> r_cancelled s' = true /\ r_cerr s' = r_cerr s.
Proof.
  intros v s e s' H Hc. destruct e; cbn [step_r] in H;
    repeat match type of H with
           | context [match ?x with _ => _ end] => destruct x; try discriminate
           end; inv H; unfold cerr_after; cbn; rewrite ?Hc; auto.
Qed.

(* a manager runs at most once: once started, every further Run call is refused and changes
   nothing else; the goroutines are created once *)
Lemma rm_runs_once : forall v bs es s,
  run_r v (new_rm bs) es = Some s ->
  (r_running s = true ->
     step_r v s RRunCas =
     Some (mkr true (r_runners s) (r_pc s) (r_procs s) (r_cancelled s) (r_cerr s) (r_parent s)
               (r_closech s) (r_adds s) (S (r_rejected s)))) /\
  (r_pc s <> RIdle -> r_running s = true) /\
  (spawned s -> step_r v s RSpawn = None).
Proof.
  intros v bs es s H. apply rinv_reach in H. split; [|split].
  - intro Hr. cbn [step_r]. rewrite Hr. reflexivity.
  - apply (i_run _ _ _ H).
  - unfold spawned. cbn [step_r]. destruct (r_pc s); cbn; tauto.
Qed.

(* additions after the start are refused (both variants): an Add that begins once Run has been
   called returns ErrManagerAlreadyStarted and leaves the runners alone *)
Lemma rm_add_after_start_refused : forall v bs es s b,
  run_r v (new_rm bs) es = Some s -> r_running s = true ->
  exists s', step_r v s (RAddCheck b) = Some s' /\ r_adds s' = r_adds s ++ [ARejected] /\
             r_runners s' = r_runners s /\ r_procs s' = r_procs s /\ r_pc s' = r_pc s.
Proof.
  intros v bs es s b _ Hr. cbn [step_r]. rewrite Hr. eexists; split; [reflexivity|]. cbn. auto.
Qed.

(* Fixed: no late addition at all.  Once the goroutines exist the slice is exactly what they were
   created from (so every accepted runner runs and Run waits for exactly the started ones), and
   when they have all delivered Run can return. *)
Lemma rm_rejects_late_additions : forall bs es s,
  run_r Fixed (new_rm bs) es = Some s ->
  (spawned s -> r_runners s = map p_beh (r_procs s)) /\
  (forall k errs, r_pc s = RCollecting k errs -> all_done (r_procs s) ->
     exists s', step_r Fixed s RRunReturn = Some s') /\
  (forall a b, nth_error (r_adds s) a = Some (AChecked b) -> r_running s = true ->
     exists s', step_r Fixed s (RAddAppend a) = Some s' /\ r_runners s' = r_runners s /\
                nth_error (r_adds s') a = Some ARejected).
Proof.
  intros bs es s H. apply rinv_reach in H. split; [|split].
  - intro Hs. destruct (i_snap _ _ _ H Hs) as [tl [E Hf]]. rewrite (Hf eq_refl), app_nil_r in E. exact E.
  - intros k errs Epc Ha. cbn [step_r]. rewrite Epc.
    destruct (i_coll _ _ _ H k errs Epc) as [-> _].
    assert (Hn : ndone (r_procs s) = length (r_procs s)).
    { clear -Ha. induction (r_procs s) as [|p ps IH]; [reflexivity|].
      rewrite ndone_cons. cbn [length]. unfold is_done. rewrite (Ha p (or_introl eq_refl)).
      rewrite IH; [reflexivity|]. intros q Hq. apply Ha. right; auto. }
    cbn [target]. rewrite Hn, Nat.ltb_irrefl. eauto.
  - intros a b Ea Hr. cbn [step_r]. rewrite Ea, Hr. cbn. eexists; split; [reflexivity|]. cbn.
    split; [reflexivity|]. eapply nth_error_upd_same with (f := fun _ => ARejected) in Ea. exact Ea.
Qed.

(* Original: the schedule [add_race] ends in a state in which Add has returned nil for a runner
   that was never started, every goroutine has delivered, and Run waits for ever. *)
Lemma rm_rejects_late_additions_refuted :
  exists s, run_r Original (new_rm [Free None]) add_race = Some s /\
            nth_error (r_adds s) 0 = Some (AAccepted (Free None)) /\
            length (r_runners s) = 2 /\ length (r_procs s) = 1 /\
            r_wedged Original s.
Proof.
  eexists. split; [vm_compute; reflexivity|]. split; [reflexivity|]. split; [reflexivity|].
  split; [reflexivity|]. unfold r_wedged. split; [eexists; eexists; reflexivity|].
  split; [intros p [<-|[]]; reflexivity|]. split; [reflexivity|]. split; [reflexivity|]. split.
  - intros [|[|i]]; reflexivity.
  - intros [|[|i]]; reflexivity.
Qed.

(* non-vacuity: the same schedule on the fixed code refuses the Add and Run can return *)
Example add_race_fixed :
  exists s s', run_r Fixed (new_rm [Free None]) add_race = Some s /\
               nth_error (r_adds s) 0 = Some ARejected /\
               step_r Fixed s RRunReturn = Some s' /\ r_pc s' = RReturned [].
Proof. eexists; eexists. split; [vm_compute; reflexivity|]. repeat split. Qed.

(* non-vacuity of the theorems about a returned Run: three runners (an error, Canceled on
   cancellation, nil) finishing one after the other; Run returns exactly the error *)
Example run_returns_join :
  exists s, run_r Fixed (new_rm [Free (Some 5%Z); OnCancel (Some 0%Z); Free None])
                  [RRunCas; RSpawn; RRunnerReturn 0; RCollect 0; RRunnerReturn 1; RCollect 1;
                   RRunnerReturn 2; RCollect 2; RRunReturn] = Some s /\
            r_pc s = RReturned [5%Z] /\ r_cancelled s = true /\ r_parent s = false.
Proof. eexists. split; [vm_compute; reflexivity|]. repeat split. Qed.

(* ... and the OnCancel runner cannot return before something cancelled its context *)
Example oncancel_waits :
  run_r Fixed (new_rm [Free (Some 5%Z); OnCancel (Some 0%Z)]) [RRunCas; RSpawn; RRunnerReturn 1]
  = None.
Proof. vm_compute. reflexivity. Qed.

(* the caller's context ends by its DEADLINE: a runner that returns ctx.Err() returns
   DeadlineExceeded, which is not Canceled and therefore part of the join ... *)
Example deadline_is_reported :
  exists s, run_r Fixed (new_rm [CtxErr; OnCancel None])
                  [RRunCas; RSpawn; RCtxCancel deadline; RRunnerReturn 0; RCollect 0;
                   RRunnerReturn 1; RCollect 1; RRunReturn] = Some s /\
            r_pc s = RReturned [deadline].
Proof. eexists. split; [vm_compute; reflexivity|]. reflexivity. Qed.

(* ... while after the manager's own cancel() (another runner returned first) the same runner
   returns Canceled, which is dropped - even if the caller's deadline passes afterwards *)
Example own_cancel_is_canceled :
  exists s, run_r Fixed (new_rm [Free None; CtxErr])
                  [RRunCas; RSpawn; RRunnerReturn 0; RCollect 0; RCtxCancel deadline;
                   RRunnerReturn 1; RCollect 1; RRunReturn] = Some s /\
            r_pc s = RReturned [] /\ r_cerr s = canceled.
Proof. eexists. split; [vm_compute; reflexivity|]. split; reflexivity. Qed.
