(* C12 — the boolean oracles decide the specification predicates. *)
From Kit Require Import C12.Model C12.Spec C12.Check.

Lemma steps_okb_spec : forall g t h,
  steps_okb g h t = true <->
  (forall h' o rest, t = h' ++ o :: rest -> obs_okb g (h ++ h') o = true).
Proof.
  intros g t; induction t as [|x t IH]; intros h; cbn [steps_okb].
  - split; [|reflexivity]. intros _ h' o rest H. destruct h'; discriminate.
  - rewrite andb_true_iff, IH. split.
    + intros [H0 H1] h' o rest E. destruct h' as [|y h'].
      * cbn in E. inversion E; subst. rewrite app_nil_r. exact H0.
      * cbn in E. inversion E; subst. specialize (H1 h' o rest eq_refl).
        rewrite <- app_assoc in H1. exact H1.
    + intros H. split.
      * specialize (H [] x t eq_refl). rewrite app_nil_r in H. exact H.
      * intros h' o rest E. subst t. rewrite <- app_assoc.
        apply (H (x :: h') o rest). reflexivity.
Qed.

Lemma trace_oracle_sound : forall g t, trace_oracle g t = true <-> trace_spec g t.
Proof.
  intros g t. unfold trace_oracle, trace_spec. rewrite andb_true_iff, steps_okb_spec.
  cbn [app]. tauto.
Qed.

Lemma msetb_spec : forall a b, msetb a b = true <-> Permutation a b.
Proof.
  intros a b. unfold msetb. rewrite (Permutation_count_occ Z.eq_dec). rewrite forallb_forall.
  split.
  - intros H x. destruct (in_dec Z.eq_dec x (a ++ b)) as [Hin|Hnin].
    + apply H in Hin. apply Nat.eqb_eq in Hin. exact Hin.
    + assert (Ha : ~ In x a) by (intro; apply Hnin, in_or_app; auto).
      assert (Hb : ~ In x b) by (intro; apply Hnin, in_or_app; auto).
      apply (count_occ_not_In Z.eq_dec) in Ha. apply (count_occ_not_In Z.eq_dec) in Hb. congruence.
  - intros H x _. apply Nat.eqb_eq. unfold countz. apply H.
Qed.

Lemma stress_oracle_sound : forall bad, stress_oracle bad = true <-> stress_spec bad.
Proof. intros bad. unfold stress_oracle, stress_spec. apply Z.eqb_eq. Qed.

(* the oracle of a case is the specification evaluated on the implementation's observation *)
Lemma oracle_sound : forall c,
  oracle c = true <->
  match c with
  | CMgr _ _ _ _ t | CPlain _ _ t => trace_spec (cfg_of c) t
  | CStress _ _ bad => stress_spec bad
  end.
Proof.
  intros [grace bs cls script t|bs script t|kind races bad]; cbn [oracle].
  - apply trace_oracle_sound.
  - apply trace_oracle_sound.
  - apply stress_oracle_sound.
Qed.
